(* C01 — the theorems about histories, derived from the step theorem. *)
From Coq Require Import List Arith Bool ZArith Lia Permutation.
From OV.C01 Require Import Model Ring Heap Inv InvPrim InvPrim2 ExecBase Exec Exec2 Exec3 Exec4 Exec5 Exec6 Alloc Ops Ops2 Ops3 Ops4 Create Create2 Pool Pool2 Device Step Step2 Step3 Statements.
Import ListNotations.

(* ---------------------------------------------------------------- the initial state *)
Lemma inv_init vkind : inv vkind [] [] [] [] (fun _ _ => []) init.
Proof.
  constructor.
  1:{ constructor; cbn; intros; try contradiction; try exact I; try (constructor; fail); auto. }
  all: cbn; intros; try discriminate; try contradiction; try (constructor; fail); auto.
  - repeat split.
  - split; [intros []|]. intros [[k Hk] _]. discriminate.
Qed.

Section T.
Variable vkind : nat -> kind.
Notation WF := (WF vkind).

Lemma WF_init : WF init.
Proof. split; [exists (fun _ _ => []); apply inv_init|]. intros o []. Qed.

Lemma run_ok : forall ops s, WF s -> exists s', run fixed vkind ops s = Some s' /\ WF s'.
Proof.
  induction ops as [|o ops IH]; intros s Hw.
  - exists s. split; [reflexivity|exact Hw].
  - cbn [run]. destruct (step_ok vkind o s Hw) as (r & s1 & R & Hw1). rewrite R. now apply IH.
Qed.

Definition reach (s : st) : Prop := exists ops, run fixed vkind ops init = Some s.

Lemma reach_WF s : reach s -> WF s.
Proof.
  intros [ops Hr]. destruct (run_ok ops init WF_init) as (s' & R & Hw). congruence.
Qed.

(* ---------------------------------------------------------------- rings as the driver walks them *)
Lemma walk_path s start : forall l a fuel,
  path (lft s) (rgt s) a (l ++ [start]) -> ~ In start l -> length l < fuel ->
  walk s fuel start a = a :: l.
Proof.
  induction l as [|b l IH]; intros a fuel Hp Hn Hf.
  - destruct fuel as [|f]; [cbn in Hf; lia|]. cbn in Hp. destruct Hp as [[Hr _] _]. cbn [walk]. rewrite Hr, Nat.eqb_refl. reflexivity.
  - destruct fuel as [|f]; [cbn in Hf; lia|]. cbn [app path] in Hp. destruct Hp as [[Hr _] Hp]. cbn [walk]. rewrite Hr.
    destruct (Nat.eqb_spec b start) as [->|Hne]; [exfalso; apply Hn; now left|].
    f_equal. apply IH; [exact Hp|intros H; apply Hn; now right|cbn in Hf; lia].
Qed.

Lemma ring_list_G X W D T G s o sl : inv vkind X W D T G s -> ring_list s o sl = G o sl.
Proof.
  intros Hi. pose proof (i_heap _ _ _ _ _ _ _ Hi) as Hk. unfold ring_list. rewrite (hk_head _ _ Hk).
  destruct (G o sl) as [|h t] eqn:EG; [reflexivity|]. cbn [hd_error].
  pose proof (hk_cyc _ _ Hk o sl) as Hc. pose proof (hk_nd _ _ Hk o sl) as Hnd. rewrite EG in Hc, Hnd.
  apply walk_path; [exact Hc|apply NoDup_cons_iff in Hnd; tauto|].
  assert (Hlen : length (h :: t) <= nxt s).
  { rewrite <- (seq_length (nxt s) 0). apply NoDup_incl_length; [exact Hnd|].
    intros x Hx. apply in_seq. split; [lia|]. cbn.
    eapply inv_lt; [exact Hi|]. apply (hk_alive _ _ Hk o sl). now rewrite EG. }
  cbn [length] in Hlen. lia.
Qed.

Lemma WF_Wf s : WF s -> Wf s.
Proof.
  intros [[G Hi] _]. constructor.
  - intros o sl. rewrite (ring_list_G _ _ _ _ _ _ o sl Hi). apply (hk_nd _ _ (i_heap _ _ _ _ _ _ _ Hi)).
  - intros o sl e. rewrite (ring_list_G _ _ _ _ _ _ o sl Hi). split.
    + intros Hin. split; [apply (hk_alive _ _ (i_heap _ _ _ _ _ _ _ Hi) _ _ _ Hin)|apply (i_mem1 _ _ _ _ _ _ _ Hi _ _ _ Hin)].
    + intros [Ha Hh]. apply (i_mem2 _ _ _ _ _ _ _ Hi); [exact Ha|intros []|exact Hh].
  - intros e o sl Ha Hh. apply (i_own _ _ _ _ _ _ _ Hi e o sl). apply (i_mem2 _ _ _ _ _ _ _ Hi); [exact Ha|intros []|exact Hh].
  - apply (i_log_nd _ _ _ _ _ _ _ Hi).
  - intros o. rewrite (i_log _ _ _ _ _ _ _ Hi o). split; [intros [H1 [H2|[]]]; tauto|tauto].
Qed.

Lemma run_app ops1 : forall ops2 s s1, run fixed vkind ops1 s = Some s1 ->
  run fixed vkind (ops1 ++ ops2) s = run fixed vkind ops2 s1.
Proof.
  induction ops1 as [|o ops1 IH]; intros ops2 s s1 H; cbn in *.
  - now injection H as <-.
  - destruct (step fixed vkind o s) as [[r s']|]; [|discriminate]. now apply IH.
Qed.

(* ---------------------------------------------------------------- the theorems *)
Theorem wf_init_thm : Wf init.
Proof. apply WF_Wf, WF_init. Qed.

Theorem wf_step_thm : forall s o, reach s ->
  exists r s', step fixed vkind o s = Some (r, s') /\ Wf s' /\ reach s'.
Proof.
  intros s o Hr. destruct (step_ok vkind o s (reach_WF s Hr)) as (r & s' & R & Hw).
  exists r, s'. split; [exact R|]. split; [now apply WF_Wf|].
  destruct Hr as [ops Hops]. exists (ops ++ [o]). rewrite (run_app ops [o] init s Hops). cbn. now rewrite R.
Qed.

Theorem wf_run_thm : forall ops, exists s, run fixed vkind ops init = Some s /\ Wf s.
Proof.
  intros ops. destruct (run_ok ops init WF_init) as (s & R & Hw). exists s. split; [exact R|now apply WF_Wf].
Qed.

Theorem no_touch_after_destroy_thm : forall ops, run fixed vkind ops init <> None.
Proof. intros ops. destruct (run_ok ops init WF_init) as (s & R & _). congruence. Qed.

Theorem destroyed_exactly_once_thm : forall ops s, run fixed vkind ops init = Some s ->
  (forall o, count_occ Nat.eq_dec (dlog s) o <= 1) /\
  (forall o k, tagof s o = TO k -> k <> KBuf -> ouse s o = true ->
     (forall h, wrapper s h -> hptr s h <> Some o) -> count_occ Nat.eq_dec (dlog s) o = 1).
Proof.
  intros ops s Hr. assert (Hw : WF s) by (apply reach_WF; now exists ops).
  destruct Hw as [[G Hi] _].
  pose proof (i_log_nd _ _ _ _ _ _ _ Hi) as Hnd.
  split.
  - intros o. now apply NoDup_count_occ.
  - intros o k Ht Hk Hu Hnone.
    assert (Hdead : alive s o = false).
    { destruct (alive s o) eqn:Ea; [exfalso|reflexivity].
      pose proof (i_live _ _ _ _ _ _ _ Hi o k Ea Ht ltac:(intros [])) as Hl.
      assert (Hne : G o SH <> []) by (destruct k; try congruence; now apply Hl).
      destruct (G o SH) as [|h t] eqn:EG; [congruence|].
      assert (Hin : In h (G o SH)) by (rewrite EG; now left).
      destruct (member_facts _ _ _ _ _ _ _ _ _ _ Hi Hin) as (Hah & _ & Hhome & _ & Hfit).
      destruct (fits_SH _ _ Hfit) as (k' & Hth & _).
      apply (Hnone h); [split; [exact Hah|now exists k']|].
      unfold home in Hhome. rewrite Hth in Hhome. destruct (hptr s h); congruence. }
    assert (Hin : In o (dlog s)) by (apply (i_log _ _ _ _ _ _ _ Hi); split; [now exists k|now left]).
    pose proof (proj1 (NoDup_count_occ Nat.eq_dec (dlog s)) Hnd o) as Hle.
    pose proof (proj1 (count_occ_In Nat.eq_dec (dlog s) o) Hin). lia.
Qed.

Theorem free_uninitializes_all_thm : forall ops s v h o,
  run fixed vkind ops init = Some s -> vars s v = Some h -> hptr s h = Some o ->
  exists s', step fixed vkind (OFree v) s = Some (Done, s') /\
    alive s' o = false /\ count_occ Nat.eq_dec (dlog s') o = 1 /\
    (forall h', wrapper s' h' -> hptr s' h' <> Some o).
Proof.
  intros ops s v h o Hr Hv Hp. assert (Hw : WF s) by (apply reach_WF; now exists ops).
  destruct Hw as [[G Hi] Hd]. unfold step. erewrite bind_run by apply get_run. rewrite Hv.
  destruct (var_handle vkind G s v h Hi Hv) as (Hah & Hth & Hu).
  destruct (h_free_spec vkind [] G s h (vkind v) Hi Hu Hth) as (G1 & s1 & R1 & Hi1 & _ & _ & _ & _ & _ & _ & _ & Hpost).
  erewrite bind_run by exact R1.
  destruct (Hpost o Hp) as (P1 & P2 & P3).
  exists s1. split; [reflexivity|]. split; [exact P1|]. split.
  - pose proof (proj1 (NoDup_count_occ Nat.eq_dec (dlog s1)) (i_log_nd _ _ _ _ _ _ _ Hi1) o).
    pose proof (proj1 (count_occ_In Nat.eq_dec (dlog s1) o) P2). lia.
  - intros h' [Ha Ht]. now apply P3.
Qed.

Theorem no_leak_thm : forall ops s, run fixed vkind ops init = Some s -> (forall v, vars s v = None) ->
  forall o k, alive s o = true -> tagof s o = TO k -> kept_alive s o k.
Proof.
  intros ops s Hr Hnv o k Ha Ht. assert (Hw : WF s) by (apply reach_WF; now exists ops).
  destruct Hw as [[G Hi] _].
  assert (Hgen : k <> KBuf -> ouse s o = false \/
             (k = KStr /\ exists d, alive s d = true /\ tagof s d = TO KDev /\ hptr s (ocur s d) = Some o)).
  { intros Hk. destruct (ouse s o) eqn:Eu; [right|now left].
    pose proof (i_live _ _ _ _ _ _ _ Hi o k Ha Ht ltac:(intros [])) as Hl.
    assert (Hne : G o SH <> []) by (destruct k; try congruence; now apply Hl).
    destruct (G o SH) as [|h t] eqn:EG; [congruence|].
    assert (Hin : In h (G o SH)) by (rewrite EG; now left).
    destruct (member_facts _ _ _ _ _ _ _ _ _ _ Hi Hin) as (Hah & _ & Hhome & _ & Hfit).
    destruct (fits_SH _ _ Hfit) as (k' & Hth & Hto & _). rewrite Ht in Hto. injection Hto as <-.
    assert (Hp : hptr s h = Some o) by (unfold home in Hhome; rewrite Hth in Hhome; destruct (hptr s h); congruence).
    destruct (i_handles _ _ _ _ _ _ _ Hi h k Hah Hth) as [[v Hv]|[(d & D1 & D2 & D3)|[]]].
    - rewrite Hnv in Hv. discriminate.
    - destruct (i_cur _ _ _ _ _ _ _ Hi d D1 D2 ltac:(intros [])) as (_ & C2 & _). rewrite D3, Hth in C2. injection C2 as ->.
      split; [reflexivity|]. exists d. rewrite D3. tauto. }
  destruct k; try (apply Hgen; discriminate).
  (* a buffer *)
  cbn [kept_alive]. destruct (ginner s o) eqn:Eg.
  - right. destruct (i_inner_own _ _ _ _ _ _ _ Hi o Ha Ht Eg ltac:(intros [])) as (p & P1 & P2).
    exists p. split; [exact P1|]. split; [|exact P2]. apply (i_inner_tag _ _ _ _ _ _ _ Hi p o P2).
  - left. pose proof (i_live _ _ _ _ _ _ _ Hi o KBuf Ha Ht ltac:(intros []) Eg) as Hne.
    destruct (G o SMem) as [|m t] eqn:EG; [congruence|].
    assert (Hin : In m (G o SMem)) by (rewrite EG; now left).
    destruct (member_facts _ _ _ _ _ _ _ _ _ _ Hi Hin) as (Ham & _ & Hhome & _ & Hfit).
    destruct (fits_SMem _ _ Hfit) as (Htm & _).
    exists m. split; [exact Ham|]. split; [exact Htm|].
    unfold home in Hhome. rewrite Htm in Hhome. destruct (obuf s m); congruence.
Qed.

End T.
