(* C01 — how the invariant moves under each primitive state change. *)
From Coq Require Import List Arith Bool ZArith Lia Permutation.
From OV.C01 Require Import Model Ring Heap Inv.
Import ListNotations.

Lemma kind_eqb_spec a b : reflect (a = b) (kind_eqb a b).
Proof. destruct a, b; cbn; constructor; congruence. Qed.

Section P.
Variable vkind : nat -> kind.
Notation inv := (inv vkind).

Lemma home_same s s' : same_obj s s' -> forall e, home s' e = home s e.
Proof.
  intros (H1 & H2 & H3 & H4 & H5 & H6 & H7 & H8 & H9 & H10 & H11 & H12 & H13 & H14 & H15 & H16 & H17 & H18) e.
  unfold home. now rewrite H2, H4, H6, H7, H15.
Qed.

Definition live_ok (G : GH) (s : st) (o : nat) : Prop :=
  forall k, tagof s o = TO k ->
    match k with
    | KBuf => ginner s o = false -> G o SMem <> []
    | _ => ouse s o = true -> G o SH <> []
    end.

(* the object part of the state is the same: only the ring heap has to be re-established *)
Lemma inv_transfer X X' W W' D T G G' s s' :
  inv X W D T G s -> same_obj s s' -> heap_ok s' G' -> incl W W' ->
  (forall e o sl, In e (G' o sl) -> home s e = Some (o, sl) /\ ~ In e X') ->
  (forall e o sl, alive s e = true -> ~ In e X' -> home s e = Some (o, sl) -> In e (G' o sl)) ->
  (forall e o sl, In e (G' o sl) -> alive s o = true /\ fits (tagof s e) (tagof s o) sl = true) ->
  (forall o sl, alive s o = false -> G' o sl = []) ->
  (forall b, ginner s b = true -> G' b SMem = []) ->
  (forall p m, alive s p = true -> tagof s p = TO KPool -> ~ In p W' -> In m (G' p SMem) -> In m (pres s p)) ->
  (forall m, alive s m = true -> tagof s m = TO KMem -> ~ In m X' -> obuf s m <> None) ->
  (forall v h, vars s v = Some h -> ~ In h X' -> alive s h = true) ->
  (forall o, alive s o = true -> ~ In o W' -> live_ok G' s o) ->
  inv X' W' D T G' s'.
Proof.
  intros Hi Hs Hk HW M1 M2 OW DD GI PR BF VR LV.
  pose proof (home_same _ _ Hs) as Hh.
  destruct Hs as (H1 & H2 & H3 & H4 & H5 & H6 & H7 & H8 & H9 & H10 & H11 & H12 & H13 & H14 & H15 & H16 & H17 & H18).
  destruct Hi as [Aheap Amem1 Amem2 Aown Afresh Atag Adead Ainner Aitag Ainj Aiown Agin Apres Adev Abuf Acur Acurinj
                  Ahand Avars Avinj AT ATnd Alive Alognd Alog AD Acs Apb].
  constructor; rewrite ?H1, ?H2, ?H3, ?H4, ?H5, ?H6, ?H7, ?H8, ?H9, ?H10, ?H11, ?H12, ?H13, ?H14, ?H15, ?H16, ?H17, ?H18.
  - exact Hk.
  - intros e o sl. rewrite Hh. apply M1.
  - intros e o sl. rewrite Hh. apply M2.
  - exact OW.
  - exact Afresh.
  - exact Atag.
  - exact DD.
  - intros p b Ha Hw. apply Ainner; [exact Ha|]. intros H. apply Hw. now apply HW.
  - exact Aitag.
  - exact Ainj.
  - intros b Ha Ht Hg Hw. apply Aiown; try assumption. intros H. apply Hw. now apply HW.
  - intros b Hb. split; [apply (Agin b Hb)|]. now apply GI.
  - exact PR.
  - exact Adev.
  - exact BF.
  - intros d Ha Ht Hw. apply Acur; try assumption. intros H. apply Hw. now apply HW.
  - exact Acurinj.
  - exact Ahand.
  - intros v h Hv. destruct (Avars v h Hv) as (A1 & A2 & A3). repeat split; try assumption. intros Hx. now apply (VR v h).
  - exact Avinj.
  - exact AT.
  - exact ATnd.
  - intros o k Ha Ht Hw. exact (LV o Ha Hw k Ht).
  - exact Alognd.
  - exact Alog.
  - exact AD.
  - intros d st Ha Ht Hw. apply Acs; try assumption. intros H. apply Hw. now apply HW.
  - intros p Ha Ht Hw. apply Apb; try assumption. intros H. apply Hw. now apply HW.
Qed.

Lemma inv_weaken_X X W D T G s e :
  inv X W D T G s -> free_of G e -> inv (e :: X) W D T G s.
Proof.
  intros Hi Hf. constructor; try solve [apply Hi].
  - intros x o sl Hx. destruct (i_mem1 _ _ _ _ _ _ _ Hi x o sl Hx) as [H1 H2]. split; [exact H1|].
    intros [<-|H]; [exact (Hf _ _ Hx)|contradiction].
  - intros x o sl Ha Hx Hh. apply (i_mem2 _ _ _ _ _ _ _ Hi x o sl Ha); [|exact Hh]. intros H. apply Hx. now right.
  - intros m Ha Ht Hx. apply (i_buf _ _ _ _ _ _ _ Hi m Ha Ht). intros H. apply Hx. now right.
  - intros v h Hv. destruct (i_vars _ _ _ _ _ _ _ Hi v h Hv) as (H1 & H2 & H3). repeat split; try assumption.
    intros Hx. apply H3. intros H. apply Hx. now right.
Qed.

Lemma inv_weaken_W X W D T G s o :
  inv X W D T G s -> inv X (o :: W) D T G s.
Proof.
  intros Hi. constructor; try solve [apply Hi].
  - intros p b Ha Hw. apply (i_inner _ _ _ _ _ _ _ Hi p b Ha). intros H. apply Hw. now right.
  - intros b Ha Ht Hg Hw. apply (i_inner_own _ _ _ _ _ _ _ Hi b Ha Ht Hg). intros H. apply Hw. now right.
  - intros p m Ha Ht Hw. apply (i_pres _ _ _ _ _ _ _ Hi p m Ha Ht). intros H. apply Hw. now right.
  - intros d Ha Ht Hw. apply (i_cur _ _ _ _ _ _ _ Hi d Ha Ht). intros H. apply Hw. now right.
  - intros x k Ha Ht Hw. apply (i_live _ _ _ _ _ _ _ Hi x k Ha Ht). intros H. apply Hw. now right.
  - intros d st Ha Ht Hw. apply (i_cur_str _ _ _ _ _ _ _ Hi d st Ha Ht). intros H. apply Hw. now right.
  - intros p Ha Ht Hw. apply (i_pool_buf _ _ _ _ _ _ _ Hi p Ha Ht). intros H. apply Hw. now right.
Qed.

(* members of rings are alive, typed, not exempt *)
Lemma member_facts X W D T G s e o sl :
  inv X W D T G s -> In e (G o sl) ->
  alive s e = true /\ alive s o = true /\ home s e = Some (o, sl) /\ ~ In e X /\
  fits (tagof s e) (tagof s o) sl = true.
Proof.
  intros Hi Hin.
  destruct (i_mem1 _ _ _ _ _ _ _ Hi _ _ _ Hin). destruct (i_own _ _ _ _ _ _ _ Hi _ _ _ Hin).
  pose proof (hk_alive _ _ (i_heap _ _ _ _ _ _ _ Hi) _ _ _ Hin). tauto.
Qed.

Lemma exempt_free X W D T G s e : inv X W D T G s -> In e X -> free_of G e.
Proof. intros Hi Hx o sl Hin. destruct (i_mem1 _ _ _ _ _ _ _ Hi _ _ _ Hin). contradiction. Qed.

Lemma dead_free X W D T G s e : inv X W D T G s -> alive s e = false -> free_of G e.
Proof.
  intros Hi Ha o sl Hin. pose proof (hk_alive _ _ (i_heap _ _ _ _ _ _ _ Hi) _ _ _ Hin). congruence.
Qed.

(* ---- an entry leaves its ring (ring_removeRef on a member) *)
Lemma inv_unlink X W W' D T G s s1 o sl e :
  inv X W D T G s -> In e (G o sl) -> same_obj s s1 ->
  heap_ok s1 (upd2 G o sl (ring_remove e (G o sl))) -> incl W W' ->
  (~ In o W' -> live_ok (upd2 G o sl (ring_remove e (G o sl))) s o) ->
  inv (e :: X) W' D T (upd2 G o sl (ring_remove e (G o sl))) s1.
Proof.
  intros Hi Hin Hs Hk HW HL.
  pose proof (hk_nd _ _ (i_heap _ _ _ _ _ _ _ Hi) o sl) as Hnd.
  assert (Hmem : forall x, In x (ring_remove e (G o sl)) <-> In x (G o sl) /\ x <> e)
    by (intros x; apply ring_remove_In; exact Hnd).
  assert (Hsub : forall x o' sl', In x (upd2 G o sl (ring_remove e (G o sl)) o' sl') -> In x (G o' sl') /\ x <> e).
  { intros x o' sl' Hx.
    destruct (upd2_cases G o sl (ring_remove e (G o sl)) o' sl') as [(-> & -> & E)|(Hd & E)]; rewrite E in Hx.
    - now apply Hmem.
    - split; [exact Hx|]. intros ->.
      destruct (hk_disj _ _ (i_heap _ _ _ _ _ _ _ Hi) _ _ _ _ _ Hx Hin). tauto. }
  eapply inv_transfer; try eassumption.
  - intros x o' sl' Hx. destruct (Hsub _ _ _ Hx) as [Hx1 Hx2].
    destruct (i_mem1 _ _ _ _ _ _ _ Hi _ _ _ Hx1) as [Hh Hnx]. split; [exact Hh|].
    intros [E|H]; [congruence|contradiction].
  - intros x o' sl' Ha Hx Hh.
    assert (Hx1 : In x (G o' sl')). { apply (i_mem2 _ _ _ _ _ _ _ Hi); try assumption. intros H. apply Hx. now right. }
    destruct (upd2_cases G o sl (ring_remove e (G o sl)) o' sl') as [(-> & -> & E)|(Hd & E)]; rewrite E; [|exact Hx1].
    apply Hmem. split; [exact Hx1|]. intros ->. apply Hx. now left.
  - intros x o' sl' Hx. destruct (Hsub _ _ _ Hx) as [Hx1 _]. apply (i_own _ _ _ _ _ _ _ Hi _ _ _ Hx1).
  - intros o' sl' Ha.
    destruct (upd2_cases G o sl (ring_remove e (G o sl)) o' sl') as [(-> & -> & E)|(Hd & E)]; rewrite E.
    + rewrite (i_dead _ _ _ _ _ _ _ Hi _ sl Ha). reflexivity.
    + apply (i_dead _ _ _ _ _ _ _ Hi _ _ Ha).
  - intros b Hb. destruct (i_ginner _ _ _ _ _ _ _ Hi b Hb) as [_ Hg].
    destruct (upd2_cases G o sl (ring_remove e (G o sl)) b SMem) as [(Eb & Es & E)|(Hd & E)]; rewrite E; [|exact Hg].
    subst b sl. rewrite Hg. reflexivity.
  - intros p m Ha Ht Hpw Hm. destruct (Hsub _ _ _ Hm) as [Hm1 _]. apply (i_pres _ _ _ _ _ _ _ Hi p m Ha Ht); [|exact Hm1].
    intros H. apply Hpw. now apply HW.
  - intros m Ha Ht Hx. apply (i_buf _ _ _ _ _ _ _ Hi m Ha Ht). intros H. apply Hx. now right.
  - intros v h Hv Hx. apply (i_vars _ _ _ _ _ _ _ Hi v h Hv). intros H. apply Hx. now right.
  - intros o' Ha Hw. destruct (Nat.eq_dec o' o) as [->|Hne]; [now apply HL|].
    intros k Ht. assert (Hnw : ~ In o' W) by (intros H; apply Hw; now apply HW).
    pose proof (i_live _ _ _ _ _ _ _ Hi o' k Ha Ht Hnw) as HLo.
    destruct k; rewrite upd2_other by tauto; exact HLo.
Qed.

(* ---- an exempt entry enters the ring its pointer names (ring_addRef) *)
Lemma inv_link X W D T G s s1 o sl e :
  inv (e :: X) W D T G s -> ~ In e X -> alive s e = true -> home s e = Some (o, sl) ->
  alive s o = true -> fits (tagof s e) (tagof s o) sl = true ->
  (sl = SMem -> ginner s o = false /\ (tagof s o = TO KPool -> ~ In o W -> In e (pres s o))) ->
  same_obj s s1 -> heap_ok s1 (upd2 G o sl (G o sl ++ [e])) ->
  inv X W D T (upd2 G o sl (G o sl ++ [e])) s1.
Proof.
  intros Hi Hnx Hae Hhome Hao Hfit Hsm Hs Hk.
  assert (Hf : free_of G e) by (eapply exempt_free; [exact Hi|now left]).
  assert (Hsub : forall x o' sl', In x (upd2 G o sl (G o sl ++ [e]) o' sl') ->
                 In x (G o' sl') \/ (x = e /\ o' = o /\ sl' = sl)).
  { intros x o' sl' Hx.
    destruct (upd2_cases G o sl (G o sl ++ [e]) o' sl') as [(-> & -> & E)|(Hd & E)]; rewrite E in Hx.
    - apply in_app_or in Hx. destruct Hx as [Hx|[<-|[]]]; tauto.
    - tauto. }
  assert (Hsup : forall x o' sl', In x (G o' sl') -> In x (upd2 G o sl (G o sl ++ [e]) o' sl')).
  { intros x o' sl' Hx.
    destruct (upd2_cases G o sl (G o sl ++ [e]) o' sl') as [(-> & -> & E)|(Hd & E)]; rewrite E; [|exact Hx].
    apply in_or_app. now left. }
  eapply inv_transfer; try eassumption.
  - apply incl_refl.
  - intros x o' sl' Hx. destruct (Hsub _ _ _ Hx) as [Hx1|(-> & -> & ->)].
    + destruct (i_mem1 _ _ _ _ _ _ _ Hi _ _ _ Hx1) as [Hh Hn]. split; [exact Hh|]. intros H. apply Hn. now right.
    + tauto.
  - intros x o' sl' Ha Hx Hh. destruct (Nat.eq_dec x e) as [->|Hne].
    + assert (o' = o /\ sl' = sl) as [-> ->] by (split; congruence).
      rewrite upd2_same. apply in_or_app. right. now left.
    + apply Hsup. apply (i_mem2 _ _ _ _ _ _ _ Hi); try assumption. intros [E|H]; [congruence|contradiction].
  - intros x o' sl' Hx. destruct (Hsub _ _ _ Hx) as [Hx1|(-> & -> & ->)].
    + apply (i_own _ _ _ _ _ _ _ Hi _ _ _ Hx1).
    + tauto.
  - intros o' sl' Ha.
    destruct (upd2_cases G o sl (G o sl ++ [e]) o' sl') as [(-> & -> & E)|(Hd & E)]; rewrite E.
    + congruence.
    + apply (i_dead _ _ _ _ _ _ _ Hi _ _ Ha).
  - intros b Hb. destruct (i_ginner _ _ _ _ _ _ _ Hi b Hb) as [_ Hg].
    destruct (upd2_cases G o sl (G o sl ++ [e]) b SMem) as [(Eb & Es & E)|(Hd & E)]; rewrite E; [|exact Hg].
    subst b sl. destruct (Hsm eq_refl). congruence.
  - intros p m Ha Ht Hpw Hm. destruct (Hsub _ _ _ Hm) as [Hm1|(-> & -> & Es)].
    + apply (i_pres _ _ _ _ _ _ _ Hi p m Ha Ht Hpw Hm1).
    + subst sl. destruct (Hsm eq_refl) as [_ H]. now apply H.
  - intros m Ha Ht Hx. destruct (Nat.eq_dec m e) as [->|Hne].
    + unfold home in Hhome. rewrite Ht in Hhome. destruct (obuf s e); congruence.
    + apply (i_buf _ _ _ _ _ _ _ Hi m Ha Ht). intros [E|H]; [congruence|contradiction].
  - intros v h Hv Hx. destruct (Nat.eq_dec h e) as [->|Hne]; [exact Hae|].
    apply (i_vars _ _ _ _ _ _ _ Hi v h Hv). intros [E|H]; [congruence|contradiction].
  - intros o' Ha Hw k Ht.
    pose proof (i_live _ _ _ _ _ _ _ Hi o' k Ha Ht Hw) as HLo.
    assert (Hmono : forall sl', G o' sl' <> [] -> upd2 G o sl (G o sl ++ [e]) o' sl' <> []).
    { intros sl' Hne E. destruct (G o' sl') as [|y t] eqn:EG; [congruence|].
      assert (In y (upd2 G o sl (G o sl ++ [e]) o' sl')) by (apply Hsup; rewrite EG; now left).
      rewrite E in H. destruct H. }
    destruct k; intros Hc; apply Hmono; now apply HLo.
Qed.

(* ---- writes to a wrapper's pointer while the wrapper is exempt *)
Lemma inv_set_hptr X W D T G s h v :
  inv X W D T G s -> In h X -> is_h_tag (tagof s h) ->
  (forall d st, alive s d = true -> tagof s d = TO KDev -> ~ In d W -> ocur s d = h -> v = Some st ->
                odev s st = Some d) ->
  inv X W D T G (set_hptr s (upd (hptr s) h v)).
Proof.
  intros Hi Hx [k Hk] Hcs.
  assert (Hhome : forall e, e <> h -> home (set_hptr s (upd (hptr s) h v)) e = home s e).
  { intros e He. unfold home. simpl_st. rewrite upd_other by exact He. reflexivity. }
  assert (Hlt : h < nxt s).
  { destruct (Nat.lt_ge_cases h (nxt s)) as [H|H]; [exact H|].
    destruct (i_fresh _ _ _ _ _ _ _ Hi h H) as (_ & Ht & _). congruence. }
  destruct Hi as [Aheap Amem1 Amem2 Aown Afresh Atag Adead Ainner Aitag Ainj Aiown Agin Apres Adev Abuf Acur Acurinj
                  Ahand Avars Avinj AT ATnd Alive Alognd Alog AD Acs Apb].
  constructor; simpl_st; try assumption.
  - destruct Aheap. constructor; simpl_st; assumption.
  - intros e o sl Hin. destruct (Amem1 e o sl Hin) as [H1 H2]. split; [|exact H2].
    rewrite Hhome; [exact H1|]. intros ->. contradiction.
  - intros e o sl Ha He Hh. apply Amem2; try assumption. rewrite <- Hhome; [exact Hh|]. intros ->. contradiction.
  - intros e He. destruct (Afresh e He) as (A1 & A2 & A3 & A4). repeat split; try tauto.
    rewrite upd_other by lia. exact A3.
  - intros d st Ha Ht Hw. unfold upd. destruct (Nat.eqb_spec (ocur s d) h) as [E|E].
    + intros Hv. now apply (Hcs d st).
    + now apply Acs.
Qed.

(* ---- an exempt entry whose pointer field is empty is in shape again *)
Lemma inv_drop_X X W D T G s e :
  inv (e :: X) W D T G s -> ~ In e X ->
  (alive s e = true -> home s e = None /\ tagof s e <> TO KMem) ->
  (forall v, vars s v = Some e -> alive s e = true) ->
  inv X W D T G s.
Proof.
  intros Hi Hnx Hh Hv.
  destruct Hi as [Aheap Amem1 Amem2 Aown Afresh Atag Adead Ainner Aitag Ainj Aiown Agin Apres Adev Abuf Acur Acurinj
                  Ahand Avars Avinj AT ATnd Alive Alognd Alog AD Acs Apb].
  constructor; try assumption.
  - intros x o sl Hin. destruct (Amem1 x o sl Hin) as [H1 H2]. split; [exact H1|]. intros H. apply H2. now right.
  - intros x o sl Ha Hx Hhx. apply Amem2; try assumption. intros [<-|H]; [|contradiction].
    destruct (Hh Ha). congruence.
  - intros m Ha Ht Hx. apply Abuf; try assumption. intros [<-|H]; [|contradiction]. destruct (Hh Ha). congruence.
  - intros v h Hvh. destruct (Avars v h Hvh) as (A1 & A2 & A3). repeat split; try assumption.
    intros Hx. destruct (Nat.eq_dec h e) as [->|Hne]; [now apply (Hv v)|].
    apply A3. intros [E|H]; [congruence|contradiction].
Qed.

End P.
