(* C01 — delete through a wrapper (free) and wrapper::removeXRef. *)
From Coq Require Import List Arith Bool ZArith Lia Permutation.
From OV.C01 Require Import Model Ring Heap Inv InvPrim InvPrim2 ExecBase Exec Exec2 Exec3 Exec4 Exec5.
Import ListNotations.

Section E.
Variable vkind : nat -> kind.
Notation inv := (inv vkind).
Notation exec := (exec fixed).

Definition handle_kind (k : kind) : Prop := k <> KBuf.

Definition topkill (s s' : st) (o : nat) : Prop :=
  forall x, alive s x = true -> alive s' x = false -> x = o \/ tagof s x <> tagof s o.

(* what free() / the last removeRef runs on the object a wrapper points to *)
Lemma delete_top f X T G s o k :
  inv X [o] [] T G s -> alive s o = true -> tagof s o = TO k -> k <> KBuf ->
  (forall x, In x X -> is_h_tag (tagof s x)) ->
  (k = KDev -> alive s (ocur s o) = true /\ tagof s (ocur s o) = TH KStr /\ ~ In (ocur s o) T /\
               ~ In (ocur s o) X /\ (forall v, vars s v <> Some (ocur s o)) /\
               (forall st, hptr s (ocur s o) = Some st -> odev s st = Some o)) ->
  (k = KPool -> forall ib, oinner s o = Some ib -> alive s ib = true /\ tagof s ib = TO KBuf /\ ginner s ib = true) ->
  measure s + 7 <= f ->
  exists G' s', (match k with KDev => exec f (TFreeDev o) | _ => exec f (TDelete o) end) s = Some (tt, s') /\
                inv X [o] [] T G' s' /\ alive s' o = false /\ shrink s s' /\ topkill s s' o /\
                (forall x, is_h_tag (tagof s x) -> alive s x = true -> alive s' x = false ->
                           k = KDev /\ x = ocur s o).
Proof.
  intros Hi Ho Ht Hkb HX Hcur Hib Hf.
  assert (HoX : ~ In o X) by (intros H; destruct (HX o H) as [k' Hk']; congruence).
  destruct k; try congruence.
  - (* device *)
    destruct (Hcur eq_refl) as (C1 & C2 & C3 & C4 & C5 & C6).
    destruct (freedev_spec vkind f X T G s o) as (G' & s' & Hex & Hi' & Hd' & Hsh & Hk); try assumption.
    exists G', s'. split; [exact Hex|]. split; [exact Hi'|]. split; [exact Hd'|]. split; [exact Hsh|]. split.
    + intros x H1 H2. destruct (Hk x H1 H2) as [->|[->|[_ Hn]]]; [now left| |].
      * right. rewrite C2, Ht. discriminate.
      * right. rewrite Ht. exact Hn.
    + intros x [k' Hk'] H1 H2. split; [reflexivity|].
      destruct (Hk x H1 H2) as [->|[->|[[k'' Hk''] _]]]; [congruence|reflexivity|congruence].
  - (* pool *)
    destruct (delete_pool vkind f X [o] [] T G s o) as (G' & s' & Hex & Hi' & Hd' & Hsh & Hk); try assumption.
    + intros [].
    + now left.
    + intros x [].
    + now apply Hib.
    + lia.
    + assert (Hall : forall x, alive s x = true -> alive s' x = false -> x = o \/ tagof s x = TO KBuf \/ tagof s x = TO KMem).
      { intros x H1 H2. destruct (Hk x H1 H2) as [->|[E|Hin]]; [now left| |].
        - right. left. now destruct (Hib eq_refl x E) as (_ & Hc & _).
        - right. right. destruct (i_own _ _ _ _ _ _ _ Hi _ _ _ Hin) as [_ Hfit]. now apply fits_SMem in Hfit as [Hc _]. }
      exists G', s'. split; [exact Hex|]. split; [exact Hi'|]. split; [exact Hd'|]. split; [exact Hsh|]. split.
      * intros x H1 H2. destruct (Hall x H1 H2) as [->|[E|E]]; [now left|right; congruence|right; congruence].
      * intros x [k' Hk'] H1 H2. destruct (Hall x H1 H2) as [->|[E|E]]; congruence.
  - (* memory *)
    destruct (delete_mem vkind f X [o] [] T G s o) as (G' & s' & Hex & Hi' & Hd' & Hsh & Hk); try assumption.
    + intros [].
    + now left.
    + intros b Eb. split; [|intros []]. intros [E|[]]. subst b.
      assert (Hin : In o (G o SMem)).
      { apply (i_mem2 _ _ _ _ _ _ _ Hi); try assumption. unfold home. now rewrite Ht, Eb. }
      destruct (i_own _ _ _ _ _ _ _ Hi _ _ _ Hin) as [_ Hfit]. rewrite Ht in Hfit. discriminate.
    + lia.
    + assert (Hall : forall x, alive s x = true -> alive s' x = false -> x = o \/ tagof s x = TO KBuf \/ tagof s x = TO KPool).
      { intros x H1 H2. destruct (Hk x H1 H2) as [->|E]; [now left|]. right.
        assert (Hin : In o (G x SMem)).
        { apply (i_mem2 _ _ _ _ _ _ _ Hi); try assumption. unfold home. now rewrite Ht, E. }
        destruct (i_own _ _ _ _ _ _ _ Hi _ _ _ Hin) as [_ Hfit]. apply fits_SMem in Hfit. tauto. }
      exists G', s'. split; [exact Hex|]. split; [exact Hi'|]. split; [exact Hd'|]. split; [exact Hsh|]. split.
      * intros x H1 H2. destruct (Hall x H1 H2) as [->|[E|E]]; [now left|right; congruence|right; congruence].
      * intros x [k' Hk'] H1 H2. destruct (Hall x H1 H2) as [->|[E|E]]; congruence.
  - destruct (delete_leaf vkind f X [o] [] T G s o KKer) as (G' & s' & Hex & Hi' & Hd' & Hsh & Hk); try assumption;
      [unfold leaf_kind; tauto|intros []|now left|lia|].
    exists G', s'. split; [exact Hex|]. split; [exact Hi'|]. split; [exact Hd'|]. split; [exact Hsh|]. split.
    + intros x H1 H2. left. destruct (Nat.eq_dec x o) as [->|Hne]; [reflexivity|]. rewrite Hk in H2 by exact Hne. congruence.
    + intros x [k' Hk'] H1 H2. destruct (Nat.eq_dec x o) as [->|Hne]; [congruence|]. rewrite Hk in H2 by exact Hne. congruence.
  - destruct (delete_leaf vkind f X [o] [] T G s o KStr) as (G' & s' & Hex & Hi' & Hd' & Hsh & Hk); try assumption;
      [unfold leaf_kind; tauto|intros []|now left|lia|].
    exists G', s'. split; [exact Hex|]. split; [exact Hi'|]. split; [exact Hd'|]. split; [exact Hsh|]. split.
    + intros x H1 H2. left. destruct (Nat.eq_dec x o) as [->|Hne]; [reflexivity|]. rewrite Hk in H2 by exact Hne. congruence.
    + intros x [k' Hk'] H1 H2. destruct (Nat.eq_dec x o) as [->|Hne]; [congruence|]. rewrite Hk in H2 by exact Hne. congruence.
  - destruct (delete_leaf vkind f X [o] [] T G s o KTag) as (G' & s' & Hex & Hi' & Hd' & Hsh & Hk); try assumption;
      [unfold leaf_kind; tauto|intros []|now left|lia|].
    exists G', s'. split; [exact Hex|]. split; [exact Hi'|]. split; [exact Hd'|]. split; [exact Hsh|]. split.
    + intros x H1 H2. left. destruct (Nat.eq_dec x o) as [->|Hne]; [reflexivity|]. rewrite Hk in H2 by exact Hne. congruence.
    + intros x [k' Hk'] H1 H2. destruct (Nat.eq_dec x o) as [->|Hne]; [congruence|]. rewrite Hk in H2 by exact Hne. congruence.
Qed.

(* facts about the object a wrapper points to, read off the invariant before anything is unlinked *)
Lemma target_facts T G s h o k :
  inv [] [] [] T G s -> alive s h = true -> tagof s h = TH k -> hptr s h = Some o ->
  In h (G o SH) /\ alive s o = true /\ tagof s o = TO k /\ k <> KBuf /\
  (k = KDev -> alive s (ocur s o) = true /\ tagof s (ocur s o) = TH KStr /\ ~ In (ocur s o) T /\
               ~ In (ocur s o) [h] /\ (forall v, vars s v <> Some (ocur s o)) /\
               (forall st, hptr s (ocur s o) = Some st -> odev s st = Some o)) /\
  (k = KPool -> forall ib, oinner s o = Some ib -> alive s ib = true /\ tagof s ib = TO KBuf /\ ginner s ib = true).
Proof.
  intros Hi Hh Hth Hp.
  assert (Hin : In h (G o SH)).
  { apply (i_mem2 _ _ _ _ _ _ _ Hi); [exact Hh|intros []|]. unfold home. now rewrite Hth, Hp. }
  destruct (member_facts _ _ _ _ _ _ _ _ _ _ Hi Hin) as (_ & Hao & _ & _ & Hfit).
  destruct (fits_SH _ _ Hfit) as (k' & Hk1 & Hk2 & Hk3). rewrite Hth in Hk1. injection Hk1 as <-.
  split; [exact Hin|]. split; [exact Hao|]. split; [exact Hk2|]. split; [exact Hk3|]. split.
  - intros ->. destruct (i_cur _ _ _ _ _ _ _ Hi o Hao Hk2 ltac:(intros [])) as (C1 & C2 & C3 & C4).
    repeat split; try assumption.
    + intros [E|[]]. rewrite <- E in C2. congruence.
    + intros st. apply (i_cur_str _ _ _ _ _ _ _ Hi o st Hao Hk2). intros [].
  - intros -> ib E. destruct (i_inner _ _ _ _ _ _ _ Hi o ib Hao ltac:(intros []) E) as (_ & A1 & A2 & A3 & _). tauto.
Qed.

Lemma same_obj_measure s s' : same_obj s s' -> measure s' = measure s.
Proof. intros (S1 & S2 & S3 & S4 & _). apply measure_same; assumption. Qed.

(* wrapper::removeXRef() *)
Lemma release_spec f T G s h k :
  inv [] [] [] T G s -> alive s h = true -> tagof s h = TH k -> measure s + 8 <= f ->
  exists G' s', exec f (TRelease h) s = Some (tt, s') /\ inv [h] [] [] T G' s' /\ shrink s s' /\
    alive s' h = true /\
    (hptr s' h = None \/ (exists o, hptr s' h = Some o /\ hptr s h = Some o /\ alive s' o = true)) /\
    (forall x, alive s x = true -> alive s' x = false ->
               exists o, hptr s h = Some o /\ (x = o \/ tagof s x <> tagof s o)).
Proof.
  intros Hi Hh Hth Hf.
  destruct f as [|f]; [lia|]. cbn [exec].
  erewrite bind_run by (apply rd_run; exact Hh).
  destruct (hptr s h) as [o|] eqn:Ep.
  2:{ exists G, s. split; [reflexivity|]. split.
      { apply inv_weaken_X; [exact Hi|]. intros o sl Hin. destruct (i_mem1 _ _ _ _ _ _ _ Hi _ _ _ Hin) as [Hm _].
        unfold home in Hm. rewrite Hth, Ep in Hm. discriminate. }
      split; [apply shrink_refl|]. split; [exact Hh|]. split; [now left|]. intros x H1 H2. congruence. }
  destruct (target_facts T G s h o k Hi Hh Hth Ep) as (Hin & Hao & Hto & Hkb & Hcur & Hib).
  destruct (ring_removeRef_in s G o SH h (i_heap _ _ _ _ _ _ _ Hi) Hao Hin) as (s1 & Hrun & Hsame & Hk1).
  erewrite bind_run by exact Hrun.
  set (G1 := upd2 G o SH (ring_remove h (G o SH))) in *.
  pose proof Hsame as (S1 & S2 & S3 & S4 & S5 & S6 & S7 & S8 & S9 & S10 & S11 & S12 & S13 & S14 & S15 & S16 & S17 & S18).
  assert (Hao1 : alive s1 o = true) by (rewrite S3; exact Hao).
  assert (Hh1 : alive s1 h = true) by (rewrite S3; exact Hh).
  rewrite (bind_run _ _ _ _ _ (needsFree_run s1 G1 o Hk1 Hao1)).
  assert (Hg1 : G1 o SH = ring_remove h (G o SH)) by (unfold G1; apply upd2_same).
  destruct (ouse s1 o && match G1 o SH with [] => true | _ :: _ => false end) eqn:Enf.
  - (* last reference *)
    apply andb_true_iff in Enf as [Eu Enil].
    assert (Hi1 : inv [h] [o] [] T G1 s1).
    { eapply inv_unlink; try eassumption; [apply incl_tl, incl_refl|]. intros Hn. exfalso. apply Hn. now left. }
    erewrite bind_run by apply get_run.
    assert (Hkh : kind_of s1 h = k) by (unfold kind_of; rewrite S2, Hth; reflexivity). rewrite Hkh.
    destruct (delete_top f [h] T G1 s1 o k) as (G2 & s2 & Hex2 & Hi2 & Hd2 & Hsh2 & Hk2 & Hhk2).
    + exact Hi1.
    + exact Hao1.
    + rewrite S2. exact Hto.
    + exact Hkb.
    + intros x [<-|[]]. rewrite S2. exists k. exact Hth.
    + rewrite S2, S3, S4, S6, S9, S16. exact Hcur.
    + rewrite S2, S3, S8, S15. exact Hib.
    + rewrite (same_obj_measure _ _ Hsame). lia.
    + assert (Hh2 : alive s2 h = true).
      { destruct (alive s2 h) eqn:E; [reflexivity|]. exfalso.
        destruct (Hhk2 h ltac:(rewrite S2; exists k; exact Hth) Hh1 E) as [-> E2].
        destruct (Hcur eq_refl) as (_ & C2 & _). rewrite S9 in E2. rewrite <- E2 in C2. congruence. }
      set (s3 := set_hptr s2 (upd (hptr s2) h None)).
      assert (Hi3 : inv [h] [] [] T G2 s3).
      { apply inv_set_hptr.
        - eapply inv_unW_dead; eassumption.
        - now left.
        - destruct Hsh2 as (_ & E & _). rewrite E, S2. exists k. exact Hth.
        - intros d st _ _ _ _ E. discriminate. }
      assert (Hbody : ((match k with KDev => exec f (TFreeDev o) | _ => exec f (TDelete o) end);;; wr_hptr h None) s1
                      = Some (tt, s3)).
      { erewrite bind_run by exact Hex2. apply wr_hptr_run. exact Hh2. }
      exists G2, s3. split.
      { destruct k; exact Hbody. }
      split; [exact Hi3|]. split.
      { eapply shrink_trans; [apply same_obj_shrink; exact Hsame|].
        eapply shrink_trans; [exact Hsh2|apply shrink_hptr_none]. }
      split; [unfold s3; simpl_st; exact Hh2|]. split; [left; unfold s3; simpl_st; apply upd_same|].
      intros x H1 H2. unfold s3 in H2. simpl_st. exists o. split; [reflexivity|].
      rewrite <- S2. apply Hk2; [rewrite S3; exact H1|exact H2].
  - (* other references remain, or reference counting is off *)
    assert (Hi1 : inv [h] [] [] T G1 s1).
    { eapply inv_unlink; try eassumption; [apply incl_refl|]. intros _ k' Hk'.
      rewrite Hto in Hk'. injection Hk' as <-.
      assert (Hgoal : ouse s o = true -> G1 o SH <> []).
      { intros Hu. rewrite S5, Hu in Enf. cbn in Enf. destruct (G1 o SH); [discriminate|discriminate]. }
      destruct k; try congruence; exact Hgoal. }
    exists G1, s1. split; [reflexivity|]. split; [exact Hi1|]. split; [apply same_obj_shrink; exact Hsame|].
    split; [exact Hh1|]. split.
    + right. exists o. rewrite S4. tauto.
    + intros x H1 H2. rewrite S3 in H2. congruence.
Qed.

End E.
