(* C01 — destructors of the fixed code, object by object. *)
From Coq Require Import List Arith Bool ZArith Lia Permutation.
From OV.C01 Require Import Model Ring Heap Inv InvPrim InvPrim2 ExecBase Exec.
Import ListNotations.

Section E.
Variable vkind : nat -> kind.
Notation inv := (inv vkind).
Notation exec := (exec fixed).

(* the end of a destructor: the object is unlinked, its rings are empty, it is logged *)
Lemma kill_obj X X' W D T G s o :
  inv X' W (o :: D) T G s -> (X' = X \/ X' = o :: X) ->
  alive s o = true -> is_obj_tag (tagof s o) -> ~ In o D ->
  free_of G o -> (forall sl, G o sl = []) -> In o (dlog s) ->
  (forall p, alive s p = true -> ~ In p W -> oinner s p <> Some o) ->
  (forall x k', alive s x = true -> x <> o -> tagof s x = TO k' -> k' <> KDev -> k' <> KMem -> odev s x <> Some o) ->
  (tagof s o = TO KDev -> alive s (ocur s o) = false) ->
  (forall b, oinner s o = Some b -> alive s b = true -> ginner s b = true -> In b W) ->
  inv X W D T G (set_alive s (upd (alive s) o false)).
Proof.
  intros Hi HX Hao Hto Hnd Hfree Hrings Hlog Hinn Hdev Hdc Hio.
  assert (HT : ~ In o T) by (eapply obj_not_in_T; eassumption).
  assert (Hk : inv X' W D T G (set_alive s (upd (alive s) o false))).
  { rewrite <- (remove_self_notin D o Hnd). rewrite <- (notin_remove Nat.eq_dec T o HT).
    apply inv_kill; try assumption.
    - intros _. exact Hlog.
    - intros v Hv. destruct (i_vars _ _ _ _ _ _ _ Hi v o Hv) as (Ht & _). destruct Hto as [k Hk]. congruence.
    - intros d Had Htd Hw E. destruct (i_cur _ _ _ _ _ _ _ Hi d Had Htd Hw) as (_ & Ht & _).
      rewrite E in Ht. destruct Hto as [k Hk]. congruence. }
  destruct HX as [->| ->]; [exact Hk|].
  eapply inv_unX_dead; [exact Hk| |].
  - simpl_st. apply upd_same.
  - simpl_st. exact Hto.
Qed.

Definition simple_kind (k : kind) : Prop := k = KKer \/ k = KStr \/ k = KTag \/ k = KMem.

Lemma kill_simple X X' W D T G s o k :
  inv X' W (o :: D) T G s -> (X' = X \/ X' = o :: X) ->
  alive s o = true -> tagof s o = TO k -> simple_kind k -> ~ In o D ->
  free_of G o -> (forall sl, G o sl = []) -> In o (dlog s) ->
  inv X W D T G (set_alive s (upd (alive s) o false)).
Proof.
  intros Hi HX Hao Hto Hk Hnd Hfree Hrings Hlog.
  eapply kill_obj; try eassumption.
  - exists k. exact Hto.
  - intros p Hap Hw E. destruct (i_inner _ _ _ _ _ _ _ Hi p o Hap Hw E) as (_ & _ & Ht & _).
    rewrite Hto in Ht. injection Ht as ->. unfold simple_kind in Hk. intuition discriminate.
  - intros x k' Hax Hxo Htx Hk1 Hk2 E.
    destruct (i_dev _ _ _ _ _ _ _ Hi x k' Hax Htx Hk1 Hk2) as (d & Hd1 & _ & Hd3).
    rewrite E in Hd1. injection Hd1 as <-. rewrite Hto in Hd3. injection Hd3 as ->.
    unfold simple_kind in Hk. intuition discriminate.
  - intros E. rewrite Hto in E. injection E as ->. unfold simple_kind in Hk. intuition discriminate.
  - intros b E. pose proof (i_inner_tag _ _ _ _ _ _ _ Hi o b E) as Ht. rewrite Hto in Ht. injection Ht as ->.
    unfold simple_kind in Hk. intuition discriminate.
Qed.

(* rings an object of a simple kind can own *)
Lemma simple_rings X W D T G s o k :
  inv X W D T G s -> tagof s o = TO k -> simple_kind k -> forall sl, sl <> SH -> G o sl = [].
Proof.
  intros Hi Ht Hk sl Hsl. apply nil_if_no_member. intros e Hin.
  pose proof (ring_slot_kind _ _ _ _ _ _ _ _ _ _ _ Hi Hin Ht) as H.
  unfold simple_kind in Hk. destruct sl; try congruence; intuition (subst; discriminate).
Qed.

Lemma msum_ext s s' n : (forall e, mcell s' e = mcell s e) -> msum s' n = msum s n.
Proof. intros H. induction n; cbn; [reflexivity|]. now rewrite H, IHn. Qed.

Lemma measure_dlog s l : measure (set_dlog s l) = measure s.
Proof. unfold measure. simpl_st. apply msum_ext. reflexivity. Qed.

(* common prologue of TDelete *)
Lemma delete_prologue X W D T G s o k :
  inv X W D T G s -> alive s o = true -> tagof s o = TO k -> ~ In o D ->
  let s1 := set_dlog s (o :: dlog s) in
  need o s = Some (tt, s) /\ kind_of s o = k /\ log_destroy o s = Some (tt, s1) /\
  inv X W (o :: D) T G s1 /\ In o (dlog s1).
Proof.
  intros Hi Ho Ht Hd s1.
  destruct (inv_log vkind X W D T G s o Hi Ho (ex_intro _ k Ht) Hd) as [Hnl Hi1].
  split; [|split; [|split; [|split]]].
  - now apply need_run.
  - unfold kind_of. now rewrite Ht.
  - now apply log_destroy_run.
  - exact Hi1.
  - now left.
Qed.

(* ~modeMemory_t of a slice whose buffer pointer was already cleared by ~modeBuffer_t *)
Lemma delete_mem_down f X W D T G s o :
  inv X W D T G s -> alive s o = true -> tagof s o = TO KMem -> obuf s o = None ->
  ~ In o D -> In o W -> measure s + 2 <= f ->
  exists s', exec f (TDelete o) s = Some (tt, s') /\ inv X W D T (upd2 G o SH []) s' /\ alive s' o = false /\
             shrink s s' /\ (forall x, x <> o -> alive s' x = alive s x).
Proof.
  intros Hi Ho Ht Hob Hd Hw Hf.
  destruct f as [|f]; [lia|]. cbn [exec].
  destruct (delete_prologue X W D T G s o KMem Hi Ho Ht Hd) as (R1 & R2 & R3 & Hi1 & Hlog).
  set (s1 := set_dlog s (o :: dlog s)) in *.
  erewrite bind_run by exact R1. erewrite bind_run by apply get_run. rewrite R2.
  erewrite bind_run by exact R3.
  destruct (null_spec vkind (length (G o SH)) f X W (o :: D) T G s1 o eq_refl) as
      (s2 & Hex & Hi2 & Hsh & Hal & Hob2 & Hoi & Hdl & Hpr); try assumption.
  { pose proof (ring_len_measure vkind _ _ _ _ _ _ o SH Hi1) as H.
    assert (Hm1 : measure s1 = measure s) by apply measure_dlog. lia. }
  assert (Ho2 : alive s2 o = true) by (rewrite Hal; exact Ho).
  assert (Hinner : (exec f (TNull o);;; b <- rd obuf o;; match b with
            | Some b0 => buf_removeModeMemoryRef b0 o;;; nf <- buf_needsFree b0;;
                         (if nf then exec f (TDelete b0) else ret tt);;; wr_obuf o None
            | None => ret tt end) s1 = Some (tt, s2)).
  { erewrite bind_run by exact Hex. erewrite bind_run by (apply rd_run; exact Ho2).
    rewrite Hob2. unfold s1. simpl_st. rewrite Hob. reflexivity. }
  erewrite bind_run by exact Hinner.
  rewrite (kill_run o s2 Ho2).
  set (G2 := upd2 G o SH []) in *.
  assert (Ht2 : tagof s2 o = TO KMem) by (destruct Hsh as (_ & E & _); rewrite E; exact Ht).
  assert (Hk : simple_kind KMem) by (unfold simple_kind; tauto).
  assert (Hfree : free_of G2 o).
  { intros o' sl' Hin. destruct (i_mem1 _ _ _ _ _ _ _ Hi2 _ _ _ Hin) as [Hh _].
    unfold home in Hh. rewrite Ht2, Hob2 in Hh. unfold s1 in Hh. simpl_st. rewrite Hob in Hh. discriminate. }
  assert (Hrings : forall sl, G2 o sl = []).
  { intros sl. destruct sl; try (eapply simple_rings; try eassumption; discriminate).
    unfold G2. apply upd2_same. }
  exists (set_alive s2 (upd (alive s2) o false)). split; [reflexivity|]. split; [|split; [|split]].
  - eapply kill_simple; try eassumption; [now left|]. rewrite Hdl. exact Hlog.
  - simpl_st. apply upd_same.
  - eapply shrink_trans; [apply (shrink_dlog s (o :: dlog s))|].
    eapply shrink_trans; [exact Hsh|apply shrink_kill].
  - intros x Hx. simpl_st. rewrite upd_other by exact Hx. rewrite Hal. reflexivity.
Qed.

Definition leaf_kind (k : kind) : Prop := k = KKer \/ k = KStr \/ k = KTag.

(* ~modeKernel_t / ~modeStream_t / ~modeStreamTag_t *)
Lemma delete_leaf f X W D T G s o k :
  inv X W D T G s -> alive s o = true -> tagof s o = TO k -> leaf_kind k ->
  ~ In o D -> In o W -> measure s + 2 <= f ->
  exists G' s', exec f (TDelete o) s = Some (tt, s') /\ inv X W D T G' s' /\ alive s' o = false /\
                shrink s s' /\ (forall x, x <> o -> alive s' x = alive s x).
Proof.
  intros Hi Ho Ht Hlk Hd Hw Hf.
  destruct f as [|f]; [lia|]. cbn [exec].
  destruct (delete_prologue X W D T G s o k Hi Ho Ht Hd) as (R1 & R2 & R3 & Hi1 & Hlog).
  set (s1 := set_dlog s (o :: dlog s)) in *.
  erewrite bind_run by exact R1. erewrite bind_run by apply get_run. rewrite R2.
  erewrite bind_run by exact R3.
  destruct (null_spec vkind (length (G o SH)) f X W (o :: D) T G s1 o eq_refl) as
      (s2 & Hex & Hi2 & Hsh & Hal & Hob2 & Hoi & Hdl & Hpr); try assumption.
  { pose proof (ring_len_measure vkind _ _ _ _ _ _ o SH Hi1) as H.
    assert (Hm1 : measure s1 = measure s) by apply measure_dlog. lia. }
  set (G2 := upd2 G o SH []) in *.
  assert (Ho2 : alive s2 o = true) by (rewrite Hal; exact Ho).
  pose proof Hsh as (_ & Etag & _ & _ & _ & Eodev & Egin & _).
  assert (Ht2 : tagof s2 o = TO k) by (rewrite Etag; exact Ht).
  assert (Hsk : simple_kind k) by (unfold simple_kind, leaf_kind in *; tauto).
  assert (Hk1 : k <> KDev) by (destruct Hlk as [-> | [-> | ->]]; discriminate).
  assert (Hk2 : k <> KMem) by (destruct Hlk as [-> | [-> | ->]]; discriminate).
  destruct (i_dev _ _ _ _ _ _ _ Hi2 o k Ho2 Ht2 Hk1 Hk2) as (d & Hd1 & Hd2 & Hd3).
  assert (Hod : o <> d) by (intros ->; rewrite Ht2 in Hd3; injection Hd3 as ->; congruence).
  assert (Hhome : home s2 o = Some (d, dev_slot k)).
  { unfold home. rewrite Ht2, Hd1. unfold leaf_kind in Hlk. destruct Hlk as [-> | [-> | ->]]; reflexivity. }
  assert (Hslot : dev_slot k <> SH) by (unfold leaf_kind in Hlk; destruct Hlk as [-> | [-> | ->]]; discriminate).
  assert (Hcase : In o (G2 d (dev_slot k)) \/ free_of G2 o).
  { destruct (in_dec Nat.eq_dec o X) as [Hx|Hx].
    - right. eapply exempt_free; eassumption.
    - left. apply (i_mem2 _ _ _ _ _ _ _ Hi2); assumption. }
  destruct (detach_dev vkind X W (o :: D) T G2 s2 o d (dev_slot k) Hi2 Ho2 Hd2 Hd3 Hslot Hod Hcase)
    as (s3 & G3 & Hrun3 & Hsame3 & Hi3 & HG3).
  pose proof Hsame3 as (S1 & S2 & S3 & S4 & S5 & S6 & S7 & S8 & S9 & S10 & S11 & S12 & S13 & S14 & S15 & S16 & S17 & S18).
  assert (Ho3 : alive s3 o = true) by (rewrite S3; exact Ho2).
  assert (Hinner : (exec f (TNull o);;; d0 <- rd odev o;;
             match d0 with Some d1 => need d1;;; ring_removeRef d1 (dev_slot k) o | None => ret tt end) s1
            = Some (tt, s3)).
  { erewrite bind_run by exact Hex. erewrite bind_run by (apply rd_run; exact Ho2). rewrite Hd1.
    erewrite bind_run by (apply need_run; exact Hd2). exact Hrun3. }
  assert (Hbody : (match k with
     | KMem => exec f (TNull o);;; b <- rd obuf o;; match b with
            | Some b0 => buf_removeModeMemoryRef b0 o;;; nf <- buf_needsFree b0;;
                         (if nf then exec f (TDelete b0) else ret tt);;; wr_obuf o None
            | None => ret tt end
     | KDev => exec f (TNull o);;; c <- rd ocur o;; exec f (TRelease c);;; kill c
     | KKer | KStr | KTag => exec f (TNull o);;; d0 <- rd odev o;;
             match d0 with Some d1 => need d1;;; ring_removeRef d1 (dev_slot k) o | None => ret tt end
     | _ => (match k with
             | KPool => exec f (TNull o);;; ib <- rd oinner o;;
                        match ib with Some ib0 => exec f (TDelete ib0) | None => ret tt end;;; wr_osize o 0%Z
             | _ => ret tt end);;;
            exec f (TChildren o);;; d0 <- rd odev o;;
            match d0 with
            | Some d1 => sz <- rd osize o;; bt <- rd obytes d1;; wr_obytes d1 (bt - sz)%Z;;; ring_removeRef d1 SBuf o
            | None => ret tt end
     end) s1 = Some (tt, s3)).
  { unfold leaf_kind in Hlk. destruct Hlk as [-> | [-> | ->]]; exact Hinner. }
  erewrite bind_run by exact Hbody.
  rewrite (kill_run o s3 Ho3).
  assert (Hrings : forall sl, G3 o sl = []).
  { intros sl. rewrite HG3. destruct sl; try (eapply simple_rings; try eassumption; discriminate).
    unfold G2. apply upd2_same. }
  exists G3, (set_alive s3 (upd (alive s3) o false)). split; [reflexivity|]. split; [|split; [|split]].
  - eapply kill_simple; try eassumption.
    + now right.
    + rewrite S2. exact Ht2.
    + eapply exempt_free; [exact Hi3|now left].
    + rewrite S17, Hdl. exact Hlog.
  - simpl_st. apply upd_same.
  - eapply shrink_trans; [apply (shrink_dlog s (o :: dlog s))|].
    eapply shrink_trans; [exact Hsh|].
    eapply shrink_trans; [apply same_obj_shrink; exact Hsame3|apply shrink_kill].
  - intros x Hx. simpl_st. rewrite upd_other by exact Hx. rewrite S3, Hal. reflexivity.
Qed.

Lemma fits_SMem te tw : fits te tw SMem = true -> te = TO KMem /\ (tw = TO KBuf \/ tw = TO KPool).
Proof.
  unfold fits. destruct te as [|k|k]; try discriminate. destruct k; try discriminate.
  destruct tw as [|k'|k']; try discriminate. destruct k'; try discriminate; auto.
Qed.

Lemma measure_same s s' :
  nxt s' = nxt s -> alive s' = alive s -> hptr s' = hptr s -> measure s' = measure s.
Proof.
  intros H1 H2 H3. unfold measure. rewrite H1. apply msum_ext. intros e. unfold mcell. now rewrite H2, H3.
Qed.

Lemma shrink_obuf s m : shrink s (set_obuf s (upd (obuf s) m None)).
Proof.
  unfold shrink. simpl_st. repeat split; auto.
  intros x. unfold upd. destruct (Nat.eqb x m); auto.
Qed.

(* ~modeBuffer_t: destroy all slices *)
Lemma children_spec : forall n f X W D T G s b,
  measure s <= n -> n + 3 <= f -> inv X W D T G s -> alive s b = true -> In b W ->
  (forall x, In x D -> ~ In x (G b SMem)) ->
  exists G' s', exec f (TChildren b) s = Some (tt, s') /\ inv X W D T G' s' /\ G' b SMem = [] /\
                alive s' b = true /\ shrink s s' /\
                (forall x, alive s x = true -> alive s' x = false -> In x (G b SMem)).
Proof.
  induction n as [n IH] using lt_wf_ind. intros f X W D T G s b Hm Hf Hi Hb Hw HD.
  destruct f as [|f]; [lia|]. cbn [exec].
  erewrite bind_run by (eapply rd_head_run; [apply Hi|exact Hb]).
  destruct (G b SMem) as [|m t] eqn:EG; cbn [hd_error].
  - exists G, s. split; [reflexivity|]. split; [exact Hi|]. split; [exact EG|]. split; [exact Hb|].
    split; [apply shrink_refl|]. intros x H1 H2. congruence.
  - assert (Hin : In m (G b SMem)) by (rewrite EG; now left).
    destruct (member_facts _ _ _ _ _ _ _ _ _ _ Hi Hin) as (Ham & _ & Hhome & Hnx & Hfit).
    destruct (fits_SMem _ _ Hfit) as (Htm & Htb).
    destruct (ring_removeRef_in s G b SMem m (i_heap _ _ _ _ _ _ _ Hi) Hb Hin) as (s1 & Hrun & Hsame & Hk1).
    erewrite bind_run by exact Hrun.
    set (G1 := upd2 G b SMem (ring_remove m (G b SMem))) in *.
    assert (Hi1 : inv (m :: X) W D T G1 s1).
    { eapply inv_unlink; try eassumption; [apply incl_refl|]. intros Hn. contradiction. }
    pose proof Hsame as (S1 & S2 & S3 & S4 & S5 & S6 & S7 & S8 & S9 & S10 & S11 & S12 & S13 & S14 & S15 & S16 & S17 & S18).
    assert (Ham1 : alive s1 m = true) by (rewrite S3; exact Ham).
    erewrite bind_run by (apply wr_obuf_run; exact Ham1).
    set (s2 := set_obuf s1 (upd (obuf s1) m None)).
    assert (Hi2 : inv (m :: X) (m :: W) D T G1 s2).
    { apply inv_weaken_W. apply inv_set_obuf; [exact Hi1|now left|]. rewrite S2. exact Htm. }
    assert (Hmd : ~ In m D) by (intros H; apply (HD m H); now left).
    assert (Hms2 : measure s2 = measure s).
    { unfold s2. rewrite <- (measure_same s s1 S1 S3 S4). apply measure_same; reflexivity. }
    destruct (delete_mem_down f (m :: X) (m :: W) D T G1 s2 m) as (s3 & Hex3 & Hi3 & Hd3 & Hsh3 & Hal3).
    + exact Hi2.
    + unfold s2. simpl_st. exact Ham1.
    + unfold s2. simpl_st. rewrite S2. exact Htm.
    + unfold s2. simpl_st. apply upd_same.
    + exact Hmd.
    + now left.
    + lia.
    + erewrite bind_run by exact Hex3.
      set (G3 := upd2 G1 m SH []) in *.
      assert (Hbm : b <> m) by (intros ->; rewrite Htm in Htb; destruct Htb; discriminate).
      assert (Htm3 : tagof s3 m = TO KMem).
      { destruct Hsh3 as (_ & E & _). rewrite E. unfold s2. simpl_st. rewrite S2. exact Htm. }
      assert (Hi3' : inv X W D T G3 s3).
      { eapply inv_unX_dead; [eapply inv_unW_dead; [exact Hi3|exact Hd3]|exact Hd3|]. exists KMem. exact Htm3. }
      assert (Hsh03 : shrink s s3).
      { eapply shrink_trans; [apply same_obj_shrink; exact Hsame|].
        eapply shrink_trans; [apply shrink_obuf|exact Hsh3]. }
      assert (Hlt : measure s3 < measure s).
      { eapply shrink_measure_lt with (x := m); [exact Hsh03|eapply inv_lt; eassumption|].
        unfold mcell. rewrite Hd3, Ham. lia. }
      assert (Hb3 : alive s3 b = true).
      { rewrite Hal3 by exact Hbm. unfold s2. simpl_st. rewrite S3. exact Hb. }
      destruct (IH (measure s3) ltac:(lia) f X W D T G3 s3 b) as (G' & s' & Hex' & Hi' & Hnil & Hb' & Hsh' & Hk'); try assumption; try lia.
      { intros x Hx Hx3. apply (HD x Hx). unfold G3 in Hx3. rewrite upd2_other in Hx3 by (right; discriminate).
        unfold G1 in Hx3. rewrite upd2_same in Hx3.
        apply ring_remove_In in Hx3; [|apply (hk_nd _ _ (i_heap _ _ _ _ _ _ _ Hi))]. rewrite EG in Hx3. tauto. }
      exists G', s'. split; [exact Hex'|]. split; [exact Hi'|]. split; [exact Hnil|]. split; [exact Hb'|].
      split; [eapply shrink_trans; eassumption|].
      intros x Hx1 Hx2. destruct (alive s3 x) eqn:E3.
      * specialize (Hk' x E3 Hx2). unfold G3 in Hk'. rewrite upd2_other in Hk' by (right; discriminate).
        unfold G1 in Hk'. rewrite upd2_same in Hk'.
        apply ring_remove_In in Hk'; [|apply (hk_nd _ _ (i_heap _ _ _ _ _ _ _ Hi))]. rewrite <- EG. tauto.
      * destruct (Nat.eq_dec x m) as [->|Hne]; [now left|].
        rewrite Hal3 in E3 by exact Hne. unfold s2 in E3. simpl_st. rewrite S3 in E3. congruence.
Qed.

End E.
