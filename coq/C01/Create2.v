(* C01 — constructors of backend objects (kernel/stream/tag, buffer/pool, memory). *)
From Coq Require Import List Arith Bool ZArith Lia Permutation.
From OV.C01 Require Import Model Ring Heap Inv InvPrim InvPrim2 ExecBase Exec Exec2 Exec3 Exec4 Exec5 Exec6 Alloc Ops Ops2 Ops3 Ops4 Create.
Import ListNotations.

Section C.
Variable vkind : nat -> kind.
Notation inv := (inv vkind).

Definition frame_new (s s' : st) : Prop :=
  grow s s' /\ vars s' = vars s /\ dus s' = dus s /\ nxt s' = S (nxt s) /\ hptr s' = hptr s /\
  oinner s' = oinner s /\ dlog s' = dlog s /\ ouse s' = ouse s /\ pres s' = pres s /\ pslots s' = pslots s /\
  (forall x, x <> nxt s -> alive s' x = alive s x /\ tagof s' x = tagof s x /\ (ginner s' x = ginner s x /\
                          obuf s' x = obuf s x /\ odev s' x = odev s x)).

Lemma frame_new_of s s2 s3 o t :
  added s s2 o t -> same_obj s2 s3 -> frame_new s s3.
Proof.
  intros A Hs. pose proof (ad_e _ _ _ _ A) as Eo.
  pose proof Hs as (S1 & S2 & S3 & S4 & S5 & S6 & S7 & S8 & S9 & S10 & S11 & S12 & S13 & S14 & S15 & S16 & S17 & S18).
  unfold frame_new. split; [eapply grow_trans; [eapply added_grow; exact A|apply same_obj_grow; exact Hs]|].
  rewrite S16, S18, S1, S4, S8, S17, S5, S3, S2, S15, S7, S6, S12, S13.
  rewrite (ad_vars _ _ _ _ A), (ad_nxt _ _ _ _ A), (ad_hptr _ _ _ _ A), (ad_oinner _ _ _ _ A), (ad_dlog _ _ _ _ A), (ad_ouse _ _ _ _ A), (ad_dus _ _ _ _ A), (ad_pres _ _ _ _ A), (ad_pslots _ _ _ _ A).
  subst o. do 9 (split; [reflexivity|]).
  intros x Hx; destruct (ad_other _ _ _ _ A x Hx) as (B1 & B2 & B3 & B4 & B5 & B6); tauto.
Qed.

(* modeKernel_t / modeStream_t / modeStreamTag_t constructor *)
Lemma new_leaf_spec T G s k d :
  inv [] [] [] T G s -> leaf_kind k -> alive s d = true -> tagof s d = TO KDev ->
  exists G' s', new_leaf k d s = Some (nxt s, s') /\ inv [] [nxt s] [] T G' s' /\
    alive s' (nxt s) = true /\ tagof s' (nxt s) = TO k /\ frame_new s s' /\ odev s' (nxt s) = Some d.
Proof.
  intros Hi Hk Had Htd. unfold new_leaf. rewrite (bind_run _ _ _ _ _ (alloc_run s (TO k))).
  set (o := nxt s).
  unfold set_field_odev at 1. unfold modify at 1. cbn [bind].
  set (s2 := set_odev (alloc_st s (TO k)) (upd (odev (alloc_st s (TO k))) o (Some d))).
  assert (A : added s s2 o (TO k)) by (apply added_set_odev; apply added_alloc).
  assert (Hk1 : k <> KDev) by (destruct Hk as [-> | [-> | ->]]; discriminate).
  assert (Hk2 : k <> KMem) by (destruct Hk as [-> | [-> | ->]]; discriminate).
  assert (Hdo : d <> o) by (intros ->; destruct (i_fresh _ _ _ _ _ _ _ Hi (nxt s) (le_n _)) as (F & _); unfold o in Had; congruence).
  destruct (link_new_dev_obj vkind [] T G s s2 o k d Hi A Hk1 Hk2) as (s3 & Hrun & Hsame & Hi3); try assumption.
  { unfold s2. simpl_st. apply upd_same. }
  { unfold s2, alloc_st. simpl_st. apply (i_fresh _ _ _ _ _ _ _ Hi (nxt s) (le_n _)). }
  assert (Had2 : alive s2 d = true).
  { unfold s2, alloc_st. simpl_st. rewrite upd_other by exact Hdo. exact Had. }
  erewrite bind_run by (apply need_run; exact Had2).
  erewrite bind_run by exact Hrun.
  pose proof Hsame as (S1 & S2 & S3 & S4 & S5 & S6 & _).
  eexists _, s3. split; [reflexivity|]. split; [exact Hi3|].
  split; [rewrite S3; apply (ad_alive _ _ _ _ A)|]. split; [rewrite S2; apply (ad_tag _ _ _ _ A)|].
  split; [eapply frame_new_of; eassumption|]. rewrite S6. unfold s2. simpl_st. apply upd_same.
Qed.

Lemma added_wr_osize s s' e t v : added s s' e t -> added s (set_osize s' (upd (osize s') e v)) e t.
Proof. apply added_set_osize. Qed.

(* modeBuffer_t constructor (a plain buffer, or the base part of a pool) *)
Lemma new_buffer_spec W T G s k d size :
  inv [] W [] T G s -> (k = KBuf \/ k = KPool) -> alive s d = true -> tagof s d = TO KDev ->
  exists s', new_buffer k d size s = Some (nxt s, s') /\
    inv [] (nxt s :: W) [] T (upd2 G d SBuf (G d SBuf ++ [nxt s])) s' /\
    alive s' (nxt s) = true /\ tagof s' (nxt s) = TO k /\ ginner s' (nxt s) = false /\ frame_new s s' /\
    odev s' (nxt s) = Some d.
Proof.
  intros Hi Hk Had Htd. unfold new_buffer. rewrite (bind_run _ _ _ _ _ (alloc_run s (TO k))).
  set (o := nxt s).
  unfold set_field_odev at 1. unfold modify at 1. cbn [bind].
  set (s1 := set_odev (alloc_st s (TO k)) (upd (odev (alloc_st s (TO k))) o (Some d))).
  assert (Hao1 : alive s1 o = true) by (unfold s1, alloc_st, o; simpl_st; apply upd_same).
  erewrite bind_run by (apply wr_osize_run; exact Hao1).
  set (s2 := set_osize s1 (upd (osize s1) o size)).
  assert (A : added s s2 o (TO k)) by (apply added_wr_osize; apply added_set_odev; apply added_alloc).
  assert (Hk1 : k <> KDev) by (destruct Hk as [-> | ->]; discriminate).
  assert (Hk2 : k <> KMem) by (destruct Hk as [-> | ->]; discriminate).
  assert (Hdo : d <> o) by (intros ->; destruct (i_fresh _ _ _ _ _ _ _ Hi (nxt s) (le_n _)) as (F & _); unfold o in Had; congruence).
  assert (Hg2 : ginner s2 o = false).
  { unfold s2, s1, alloc_st. simpl_st. apply (i_fresh _ _ _ _ _ _ _ Hi (nxt s) (le_n _)). }
  destruct (link_new_dev_obj vkind W T G s s2 o k d Hi A Hk1 Hk2) as (s3 & Hrun & Hsame & Hi3); try assumption.
  { unfold s2, s1. simpl_st. apply upd_same. }
  assert (Hds : dev_slot k = SBuf) by (destruct Hk as [-> | ->]; reflexivity). rewrite Hds in Hrun, Hi3.
  assert (Had2 : alive s2 d = true).
  { unfold s2, s1, alloc_st. simpl_st. rewrite upd_other by exact Hdo. exact Had. }
  erewrite bind_run by (apply need_run; exact Had2).
  erewrite bind_run by exact Hrun.
  pose proof Hsame as (S1 & S2 & S3 & S4 & S5 & S6 & S7 & S8 & S9 & S10 & S11 & S12 & S13 & S14 & S15 & _).
  exists s3. split; [reflexivity|]. split; [exact Hi3|].
  split; [rewrite S3; apply (ad_alive _ _ _ _ A)|]. split; [rewrite S2; apply (ad_tag _ _ _ _ A)|].
  split; [rewrite S15; exact Hg2|]. split; [eapply frame_new_of; eassumption|].
  rewrite S6. unfold s2, s1. simpl_st. apply upd_same.
Qed.

(* modeMemory_t constructor on a plain buffer *)
Lemma new_memory_spec W T G s b :
  inv [] W [] T G s -> alive s b = true -> tagof s b = TO KBuf -> ginner s b = false ->
  exists s', new_memory b s = Some (nxt s, s') /\
    inv [] (nxt s :: W) [] T (upd2 G b SMem (G b SMem ++ [nxt s])) s' /\
    alive s' (nxt s) = true /\ tagof s' (nxt s) = TO KMem /\ frame_new s s'.
Proof.
  intros Hi Hab Htb Hgb. unfold new_memory. rewrite (bind_run _ _ _ _ _ (alloc_run s (TO KMem))).
  set (m := nxt s).
  unfold set_field_obuf at 1. unfold modify at 1. cbn [bind].
  set (s2 := set_obuf (alloc_st s (TO KMem)) (upd (obuf (alloc_st s (TO KMem))) m (Some b))).
  assert (A : added s s2 m (TO KMem)) by (apply added_set_obuf; apply added_alloc).
  assert (Hbm : b <> m) by (intros ->; destruct (i_fresh _ _ _ _ _ _ _ Hi (nxt s) (le_n _)) as (F & _); unfold m in Hab; congruence).
  assert (Hi2 : inv [m] (m :: W) [] T G s2).
  { eapply inv_add_cell; [exact Hi|exact A| | |discriminate].
    - intros k' E. discriminate.
    - intros k' E. injection E as <-. repeat split; try reflexivity; try congruence.
      intros Hg. exfalso. unfold s2, alloc_st, m in Hg. simpl_st.
      destruct (i_fresh _ _ _ _ _ _ _ Hi (nxt s) (le_n _)) as (_ & _ & _ & _ & _ & _ & _ & _ & _ & F). congruence. }
  destruct (ad_other _ _ _ _ A b Hbm) as (B1 & B2 & B3 & B4 & B5 & B6).
  assert (Hab2 : alive s2 b = true) by (rewrite B2; exact Hab).
  assert (Ham2 : alive s2 m = true) by (apply (ad_alive _ _ _ _ A)).
  assert (Hfree : free_of G m) by (eapply exempt_free; [exact Hi2|now left]).
  destruct (ring_addRef_out s2 G b SMem m (i_heap _ _ _ _ _ _ _ Hi2) Hab2 Ham2 Hfree) as (s3 & Hrun & Hsame & Hk3).
  erewrite bind_run by (apply need_run; exact Hab2).
  erewrite bind_run by exact Hrun.
  pose proof Hsame as (S1 & S2 & S3 & _).
  exists s3. split; [reflexivity|]. split.
  { eapply inv_link; try exact Hi2; try eassumption.
    - intros [].
    - unfold home. rewrite (ad_tag _ _ _ _ A). unfold s2. simpl_st. rewrite upd_same. reflexivity.
    - rewrite (ad_tag _ _ _ _ A), B1, Htb. reflexivity.
    - intros _. rewrite B5, B1. split; [exact Hgb|]. intros E. congruence. }
  split; [rewrite S3; exact Ham2|]. split; [rewrite S2; apply (ad_tag _ _ _ _ A)|].
  eapply frame_new_of; eassumption.
Qed.

End C.
