(* C01 — the well-formedness invariant of the handle/object heap (fixed code), parameterised by
   what is temporarily out of shape in the middle of a library call:
     X  entries (wrappers or objects) that are unlinked while their pointer field still says
        where they were (or where they are about to go)
     W  objects currently allowed to be alive without anything keeping them
     D  objects whose destructor is running (logged, still alive)
     T  wrappers that are temporaries of the running call (alive, not variables) *)
From Coq Require Import List Arith Bool ZArith Lia Permutation.
From OV.C01 Require Import Model Ring Heap.
Import ListNotations.

Definition home (s : st) (e : nat) : option (nat * slot) :=
  match tagof s e with
  | TFree => None
  | TH _ => match hptr s e with Some o => Some (o, SH) | None => None end
  | TO KDev => None
  | TO KMem => match obuf s e with Some b => Some (b, SMem) | None => None end
  | TO KBuf => if ginner s e then None
               else match odev s e with Some d => Some (d, SBuf) | None => None end
  | TO k => match odev s e with Some d => Some (d, dev_slot k) | None => None end
  end.

(* entry of tag te may sit in ring sl of an owner of tag tw *)
Definition fits (te tw : tag) (sl : slot) : bool :=
  match sl, te, tw with
  | SH, TH k, TO k' => kind_eqb k k' && negb (kind_eqb k KBuf)
  | SMem, TO KMem, TO KBuf => true
  | SMem, TO KMem, TO KPool => true
  | SBuf, TO KBuf, TO KDev => true
  | SBuf, TO KPool, TO KDev => true
  | SKer, TO KKer, TO KDev => true
  | SStr, TO KStr, TO KDev => true
  | STag, TO KTag, TO KDev => true
  | _, _, _ => false
  end.

Definition is_obj_tag (t : tag) : Prop := exists k, t = TO k.
Definition is_h_tag (t : tag) : Prop := exists k, t = TH k.

Section WithVkind.
Variable vkind : nat -> kind.

Record inv (X W D T : list nat) (G : GH) (s : st) : Prop := {
  i_heap  : heap_ok s G;
  i_mem1  : forall e o sl, In e (G o sl) -> home s e = Some (o, sl) /\ ~ In e X;
  i_mem2  : forall e o sl, alive s e = true -> ~ In e X -> home s e = Some (o, sl) -> In e (G o sl);
  i_own   : forall e o sl, In e (G o sl) -> alive s o = true /\ fits (tagof s e) (tagof s o) sl = true;
  i_fresh : forall e, nxt s <= e ->
              alive s e = false /\ tagof s e = TFree /\ hptr s e = None /\ ouse s e = true /\
              odev s e = None /\ obuf s e = None /\ oinner s e = None /\ pres s e = [] /\
              pslots s e = 0 /\ ginner s e = false;
  i_tag   : forall e, alive s e = true -> tagof s e <> TFree;
  i_dead  : forall o sl, alive s o = false -> G o sl = [];
  i_inner : forall p b, alive s p = true -> ~ In p W -> oinner s p = Some b ->
              tagof s p = TO KPool /\ alive s b = true /\ tagof s b = TO KBuf /\ ginner s b = true /\
              odev s b = odev s p;
  i_inner_tag : forall p b, oinner s p = Some b -> tagof s p = TO KPool;
  i_inner_inj : forall p p' b, alive s p = true -> alive s p' = true ->
              oinner s p = Some b -> oinner s p' = Some b -> p = p';
  i_inner_own : forall b, alive s b = true -> tagof s b = TO KBuf -> ginner s b = true -> ~ In b W ->
              exists p, alive s p = true /\ oinner s p = Some b;
  i_ginner : forall b, ginner s b = true -> tagof s b = TO KBuf /\ G b SMem = [];
  i_pres  : forall p m, alive s p = true -> tagof s p = TO KPool -> ~ In p W -> In m (G p SMem) -> In m (pres s p);
  i_dev   : forall o k, alive s o = true -> tagof s o = TO k -> k <> KDev -> k <> KMem ->
              exists d, odev s o = Some d /\ alive s d = true /\ tagof s d = TO KDev;
  i_buf   : forall m, alive s m = true -> tagof s m = TO KMem -> ~ In m X -> obuf s m <> None;
  i_cur   : forall d, alive s d = true -> tagof s d = TO KDev -> ~ In d W ->
              alive s (ocur s d) = true /\ tagof s (ocur s d) = TH KStr /\
              ~ In (ocur s d) T /\ forall v, vars s v <> Some (ocur s d);
  i_cur_inj : forall d d', alive s d = true -> alive s d' = true -> tagof s d = TO KDev ->
              tagof s d' = TO KDev -> ocur s d = ocur s d' -> d = d';
  i_handles : forall h k, alive s h = true -> tagof s h = TH k ->
              (exists v, vars s v = Some h) \/
              (exists d, alive s d = true /\ tagof s d = TO KDev /\ ocur s d = h) \/ In h T;
  i_vars  : forall v h, vars s v = Some h ->
              tagof s h = TH (vkind v) /\ ~ In h T /\ (~ In h X -> alive s h = true);
  i_vars_inj : forall v v' h, vars s v = Some h -> vars s v' = Some h -> v = v';
  i_T     : forall h, In h T -> alive s h = true /\ is_h_tag (tagof s h);
  i_T_nd  : NoDup T;
  i_live  : forall o k, alive s o = true -> tagof s o = TO k -> ~ In o W ->
              match k with
              | KBuf => ginner s o = false -> G o SMem <> []
              | _ => ouse s o = true -> G o SH <> []
              end;
  i_log_nd : NoDup (dlog s);
  i_log   : forall o, In o (dlog s) <-> (is_obj_tag (tagof s o) /\ (alive s o = false \/ In o D));
  i_D     : forall o, In o D -> alive s o = true /\ is_obj_tag (tagof s o);
  i_cur_str : forall d st, alive s d = true -> tagof s d = TO KDev -> ~ In d W ->
              hptr s (ocur s d) = Some st -> odev s st = Some d;
  i_pool_buf : forall p, alive s p = true -> tagof s p = TO KPool -> ~ In p W ->
              (pres s p <> [] \/ pslots s p <> 0) -> oinner s p <> None
}.

End WithVkind.

(* monotone facts every library call satisfies *)
Definition ext (s s' : st) : Prop :=
  nxt s <= nxt s' /\ (forall e, e < nxt s -> tagof s' e = tagof s e) /\
  (forall e, e < nxt s -> alive s' e = true -> alive s e = true).

Lemma ext_refl s : ext s s.
Proof. unfold ext. auto. Qed.

Lemma ext_trans a b c : ext a b -> ext b c -> ext a c.
Proof.
  intros (H1 & H2 & H3) (H4 & H5 & H6). split; [lia|]. split.
  - intros e He. rewrite H5 by lia. now apply H2.
  - intros e He Ha. apply H3; [exact He|]. apply H6; [lia|exact Ha].
Qed.

Lemma same_obj_ext s s' : same_obj s s' -> ext s s'.
Proof.
  intros (H1 & H2 & H3 & _). unfold ext. rewrite H1, H2, H3. auto.
Qed.
