(* C01 — running the primitives symbolically; the fuel measure; what destructor runs may change. *)
From Coq Require Import List Arith Bool ZArith Lia Permutation.
From OV.C01 Require Import Model Ring Heap Inv InvPrim.
Import ListNotations.

(* ---------------------------------------------------------------- primitives *)
Lemma bind_run {A B} (m : M A) (f : A -> M B) s a s1 :
  m s = Some (a, s1) -> bind m f s = f a s1.
Proof. unfold bind. now intros ->. Qed.

Lemma rd_run {A} (f : st -> nat -> A) e s : alive s e = true -> rd f e s = Some (f s e, s).
Proof. intros H. unfold rd, bind, need, get. now rewrite H. Qed.

Lemma get_run {A} (f : st -> A) s : get f s = Some (f s, s).
Proof. reflexivity. Qed.

Lemma wr_hptr_run e v s : alive s e = true -> wr_hptr e v s = Some (tt, set_hptr s (upd (hptr s) e v)).
Proof. intros H. unfold wr_hptr, bind, need, modify. now rewrite H. Qed.
Lemma wr_obuf_run e v s : alive s e = true -> wr_obuf e v s = Some (tt, set_obuf s (upd (obuf s) e v)).
Proof. intros H. unfold wr_obuf, bind, need, modify. now rewrite H. Qed.
Lemma wr_ouse_run e v s : alive s e = true -> wr_ouse e v s = Some (tt, set_ouse s (upd (ouse s) e v)).
Proof. intros H. unfold wr_ouse, bind, need, modify. now rewrite H. Qed.
Lemma wr_oinner_run e v s : alive s e = true -> wr_oinner e v s = Some (tt, set_oinner s (upd (oinner s) e v)).
Proof. intros H. unfold wr_oinner, bind, need, modify. now rewrite H. Qed.
Lemma wr_osize_run e v s : alive s e = true -> wr_osize e v s = Some (tt, set_osize s (upd (osize s) e v)).
Proof. intros H. unfold wr_osize, bind, need, modify. now rewrite H. Qed.
Lemma wr_obytes_run e v s : alive s e = true -> wr_obytes e v s = Some (tt, set_obytes s (upd (obytes s) e v)).
Proof. intros H. unfold wr_obytes, bind, need, modify. now rewrite H. Qed.
Lemma wr_pres_run e v s : alive s e = true -> wr_pres e v s = Some (tt, set_pres s (upd (pres s) e v)).
Proof. intros H. unfold wr_pres, bind, need, modify. now rewrite H. Qed.
Lemma wr_pslots_run e v s : alive s e = true -> wr_pslots e v s = Some (tt, set_pslots s (upd (pslots s) e v)).
Proof. intros H. unfold wr_pslots, bind, need, modify. now rewrite H. Qed.
Lemma kill_run e s : alive s e = true -> kill e s = Some (tt, set_alive s (upd (alive s) e false)).
Proof. intros H. unfold kill, bind, need, modify. now rewrite H. Qed.
Lemma need_run s e : alive s e = true -> need e s = Some (tt, s).
Proof. unfold need. now intros ->. Qed.

Lemma existsb_eqb_false o l : ~ In o l -> existsb (Nat.eqb o) l = false.
Proof.
  induction l as [|a l IH]; cbn; [reflexivity|]. intros H.
  destruct (Nat.eqb_spec o a) as [->|_]; [tauto|]. cbn. apply IH. tauto.
Qed.
Lemma existsb_eqb_true o l : In o l -> existsb (Nat.eqb o) l = true.
Proof.
  intros H. apply existsb_exists. exists o. split; [exact H|apply Nat.eqb_refl].
Qed.

Lemma log_destroy_run o s : ~ In o (dlog s) -> log_destroy o s = Some (tt, set_dlog s (o :: dlog s)).
Proof. intros H. unfold log_destroy. now rewrite existsb_eqb_false. Qed.

(* ---------------------------------------------------------------- what a destructor run may change *)
Definition shrink (s s' : st) : Prop :=
  nxt s' = nxt s /\ tagof s' = tagof s /\ (forall e, alive s' e = true -> alive s e = true) /\
  (forall h, hptr s' h = hptr s h \/ hptr s' h = None) /\
  vars s' = vars s /\ odev s' = odev s /\ ginner s' = ginner s /\ ocur s' = ocur s /\ ouse s' = ouse s /\
  dus s' = dus s /\ moff s' = moff s /\ pslots s' = pslots s /\ oinner s' = oinner s /\
  (forall m, obuf s' m = obuf s m \/ obuf s' m = None).

Lemma shrink_refl s : shrink s s.
Proof. unfold shrink. repeat split; auto. Qed.

Lemma shrink_trans a b c : shrink a b -> shrink b c -> shrink a c.
Proof.
  intros (A1 & A2 & A3 & A4 & A5 & A6 & A7 & A8 & A9 & A10 & A11 & A12 & A13 & A14)
         (B1 & B2 & B3 & B4 & B5 & B6 & B7 & B8 & B9 & B10 & B11 & B12 & B13 & B14).
  unfold shrink. repeat split; try congruence.
  - auto.
  - intros h. destruct (B4 h) as [-> | ->]; [apply A4|now right].
  - intros m. destruct (B14 m) as [-> | ->]; [apply A14|now right].
Qed.

Lemma same_obj_shrink s s' : same_obj s s' -> shrink s s'.
Proof.
  intros (H1 & H2 & H3 & H4 & H5 & H6 & H7 & H8 & H9 & H10 & H11 & H12 & H13 & H14 & H15 & H16 & H17 & H18).
  unfold shrink. rewrite H1, H2, H3, H4, H5, H6, H7, H8, H9, H13, H14, H15, H16, H18. repeat split; auto.
Qed.

(* the fuel measure: alive cells + wrappers that still point somewhere *)
Definition mcell (s : st) (e : nat) : nat :=
  (if alive s e then 1 else 0) + (if alive s e then match hptr s e with Some _ => 1 | None => 0 end else 0).
Fixpoint msum (s : st) (n : nat) : nat :=
  match n with 0 => 0 | S k => mcell s k + msum s k end.
Definition measure (s : st) : nat := msum s (nxt s).

Lemma msum_le s s' n :
  (forall e, mcell s' e <= mcell s e) -> msum s' n <= msum s n.
Proof. intros H. induction n; cbn; [lia|]. specialize (H n). lia. Qed.

Lemma msum_lt s s' n x :
  (forall e, mcell s' e <= mcell s e) -> x < n -> mcell s' x < mcell s x -> msum s' n < msum s n.
Proof.
  intros H Hx Hlt. induction n; [lia|]. cbn.
  destruct (Nat.eq_dec x n) as [->|Hne].
  - pose proof (msum_le s s' n H). lia.
  - assert (x < n) by lia. specialize (IHn H0). specialize (H n). lia.
Qed.

Lemma shrink_mcell s s' : shrink s s' -> forall e, mcell s' e <= mcell s e.
Proof.
  intros (A1 & A2 & A3 & A4 & _) e. unfold mcell.
  destruct (alive s' e) eqn:E'.
  - rewrite (A3 e E'). destruct (A4 e) as [-> | ->]; [lia|]. destruct (hptr s e); lia.
  - destruct (alive s e); destruct (hptr s e); lia.
Qed.

Lemma shrink_measure s s' : shrink s s' -> measure s' <= measure s.
Proof.
  intros H. unfold measure. destruct H as (A1 & A). rewrite A1. apply msum_le. apply shrink_mcell.
  unfold shrink. tauto.
Qed.

Lemma shrink_measure_lt s s' x :
  shrink s s' -> x < nxt s -> mcell s' x < mcell s x -> measure s' < measure s.
Proof.
  intros H Hx Hlt. unfold measure. pose proof H as (A1 & _). rewrite A1.
  eapply msum_lt; [apply shrink_mcell; exact H|exact Hx|exact Hlt].
Qed.

Lemma shrink_ext s s' : shrink s s' -> ext s s'.
Proof.
  intros (A1 & A2 & A3 & _). unfold ext. rewrite A1, A2. repeat split; auto.
Qed.

(* ---------------------------------------------------------------- the ghost rings only matter pointwise *)
Section G.
Variable vkind : nat -> kind.
Notation inv := (inv vkind).

Lemma heap_ok_ext s G G' : (forall o sl, G' o sl = G o sl) -> heap_ok s G -> heap_ok s G'.
Proof.
  intros E [A1 A2 A3 A4 A5 A6]. constructor.
  - intros o sl. rewrite E. apply A1.
  - intros o sl. rewrite E. apply A2.
  - intros o sl. rewrite E. apply A3.
  - intros o sl e. rewrite E. apply A4.
  - intros o sl o' sl' e. rewrite !E. apply A5.
  - intros e H. apply A6. intros o sl. rewrite <- E. apply H.
Qed.

Lemma inv_ext_G X W D T G G' s : (forall o sl, G' o sl = G o sl) -> inv X W D T G s -> inv X W D T G' s.
Proof.
  intros E Hi.
  destruct Hi as [Aheap Amem1 Amem2 Aown Afresh Atag Adead Ainner Aitag Ainj Aiown Agin Apres Adev Abuf Acur Acurinj
                  Ahand Avars Avinj AT ATnd Alive Alognd Alog AD Acs Apb].
  constructor; try assumption; try (intros; rewrite ?E in *; eauto; fail).
  - eapply heap_ok_ext; eassumption.
  - intros o k Ha Ht Hw. specialize (Alive o k Ha Ht Hw). destruct k; rewrite E; exact Alive.
Qed.

Lemma inv_lt X W D T G s e : inv X W D T G s -> alive s e = true -> e < nxt s.
Proof.
  intros Hi Ha. destruct (Nat.lt_ge_cases e (nxt s)) as [H|H]; [exact H|].
  destruct (i_fresh _ _ _ _ _ _ _ Hi e H) as (Hd & _). congruence.
Qed.

End G.
