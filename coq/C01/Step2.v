(* C01 — creating operations keep the heap well formed. *)
From Coq Require Import List Arith Bool ZArith Lia Permutation.
From OV.C01 Require Import Model Ring Heap Inv InvPrim InvPrim2 ExecBase Exec Exec2 Exec3 Exec4 Exec5 Exec6 Alloc Ops Ops2 Ops3 Ops4 Create Create2 Pool Pool2 Device Step.
Import ListNotations.

Section S.
Variable vkind : nat -> kind.
Notation inv := (inv vkind).
Notation WF := (WF vkind).
Notation ok_step := (ok_step vkind).

Ltac skip_case G Hi Hd s := exists Skip, s; split; [reflexivity|split; [now exists G|exact Hd]].
Ltac err_case G Hi Hd s := exists Err, s; split; [reflexivity|split; [now exists G|exact Hd]].

(* the device a creating call goes through *)
Lemma dev_of_var G s dv hd d :
  inv [] [] [] [] G s -> vkind dv = KDev -> vars s dv = Some hd -> hptr s hd = Some d ->
  alive s hd = true /\ alive s d = true /\ tagof s d = TO KDev.
Proof.
  intros Hi Hk Hv Hp. destruct (var_handle vkind G s dv hd Hi Hv) as (Ha & Ht & _). rewrite Hk in Ht.
  destruct (target_facts vkind [] G s hd d KDev Hi Ha Ht Hp) as (_ & A1 & A2 & _). tauto.
Qed.

Lemma step_newdev s v : WF s -> ok_step (ONewDev v) s.
Proof.
  intros [[G Hi] Hd]. unfold ok_step, step.
  destruct (kind_eqb (vkind v) KDev) eqn:Ek; cbn [negb]; [|skip_case G Hi Hd s].
  apply kind_eqb_true in Ek.
  destruct (new_device_spec vkind G s Hi) as (G1 & s1 & R1 & Hi1 & Ht1 & Hg1 & Hv1 & Hd1).
  erewrite bind_run by exact R1.
  destruct (store_spec vkind G1 s1 v (nxt s) Hi1 ltac:(rewrite Ht1, Ek; reflexivity)) as (G2 & s2 & R2 & Hi2 & Hg2 & Hd2 & _).
  erewrite bind_run by exact R2.
  exists Done, s2. split; [reflexivity|]. split; [now exists G2|].
  eapply dus_ok_grow; [exact Hd|eapply grow_trans; eassumption|congruence].
Qed.

Lemma step_leaf s k v dv : WF s -> ok_step (OLeaf k v dv) s.
Proof.
  intros [[G Hi] Hd]. unfold ok_step, step.
  destruct (kind_eqb (vkind v) k && kind_eqb (vkind dv) KDev && (kind_eqb k KKer || kind_eqb k KStr || kind_eqb k KTag)) eqn:Ek;
    cbn [negb]; [|skip_case G Hi Hd s].
  apply andb_true_iff in Ek as [Ek Ek3]. apply andb_true_iff in Ek as [Ek1 Ek2].
  apply kind_eqb_true in Ek1. apply kind_eqb_true in Ek2.
  assert (Hlk : leaf_kind k).
  { unfold leaf_kind. destruct (kind_eqb_spec k KKer); [tauto|]. destruct (kind_eqb_spec k KStr); [tauto|].
    destruct (kind_eqb_spec k KTag); [tauto|discriminate]. }
  destruct (vars s dv) as [hd|] eqn:Edv.
  2:{ rewrite (bind_run _ _ _ _ _ (var_ptr_none s dv Edv)). skip_case G Hi Hd s. }
  destruct (var_handle vkind G s dv hd Hi Edv) as (Hahd & _ & _).
  rewrite (bind_run _ _ _ _ _ (var_ptr_some s dv hd Edv Hahd)).
  destruct (hptr s hd) as [d|] eqn:Ep; [|err_case G Hi Hd s].
  destruct (dev_of_var G s dv hd d Hi Ek2 Edv Ep) as (_ & Had & Htd).
  destruct (new_leaf_spec vkind [] G s k d Hi Hlk Had Htd) as (G1 & s1 & R1 & Hi1 & Hao & Hto & Hfr1 & _).
  erewrite bind_run by exact R1.
  destruct Hfr1 as (F1 & F2 & F3 & F4 & F5 & F6 & F7 & F8 & F9 & F10 & F11).
  assert (Hkb : k <> KBuf) by (destruct Hlk as [-> | [-> | ->]]; discriminate).
  assert (Hkd : k <> KDev) by (destruct Hlk as [-> | [-> | ->]]; discriminate).
  destruct (h_new_obj vkind [] G1 s1 (nxt s) k Hi1 Hao Hto Hkb Hkd) as
      (G2 & s2 & R2 & Hi2 & Ht2 & Hg2 & Hv2 & Hd2 & Hn2 & _).
  { rewrite F6. apply (i_fresh _ _ _ _ _ _ _ Hi (nxt s) (le_n _)). }
  { intros ->. destruct Hlk as [E | [E | E]]; discriminate. }
  erewrite bind_run by exact R2.
  destruct (store_spec vkind G2 s2 v (nxt s1) Hi2 ltac:(rewrite Ht2, Ek1; reflexivity)) as (G3 & s3 & R3 & Hi3 & Hg3 & Hd3 & _).
  erewrite bind_run by exact R3.
  exists Done, s3. split; [reflexivity|]. split; [now exists G3|].
  eapply dus_ok_grow; [exact Hd|eapply grow_trans; [exact F1|eapply grow_trans; eassumption]|congruence].
Qed.

Lemma step_pool s v dv : WF s -> ok_step (OPool v dv) s.
Proof.
  intros [[G Hi] Hd]. unfold ok_step, step.
  destruct (kind_eqb (vkind v) KPool && kind_eqb (vkind dv) KDev) eqn:Ek; cbn [negb]; [|skip_case G Hi Hd s].
  apply andb_true_iff in Ek as [Ek1 Ek2]. apply kind_eqb_true in Ek1. apply kind_eqb_true in Ek2.
  destruct (vars s dv) as [hd|] eqn:Edv.
  2:{ rewrite (bind_run _ _ _ _ _ (var_ptr_none s dv Edv)). skip_case G Hi Hd s. }
  destruct (var_handle vkind G s dv hd Hi Edv) as (Hahd & _ & _).
  rewrite (bind_run _ _ _ _ _ (var_ptr_some s dv hd Edv Hahd)).
  destruct (hptr s hd) as [d|] eqn:Ep; [|err_case G Hi Hd s].
  destruct (dev_of_var G s dv hd d Hi Ek2 Edv Ep) as (_ & Had & Htd).
  erewrite bind_run by (apply need_run; exact Had).
  destruct (new_buffer_spec vkind [] [] G s KPool d 0%Z Hi (or_intror eq_refl) Had Htd) as
      (s1 & R1 & Hi1 & Hao & Hto & Hgo & Hfr1 & _).
  erewrite bind_run by exact R1.
  destruct Hfr1 as (F1 & F2 & F3 & F4 & F5 & F6 & F7 & F8 & F9 & F10 & F11).
  assert (Hpd : nxt s <> d) by (intros E; destruct (i_fresh _ _ _ _ _ _ _ Hi (nxt s) (le_n _)) as (F & _); rewrite E in F; congruence).
  destruct (h_new_obj vkind [] _ s1 (nxt s) KPool Hi1 Hao Hto ltac:(discriminate) ltac:(discriminate)) as
      (G2 & s2 & R2 & Hi2 & Ht2 & Hg2 & Hv2 & Hd2 & Hn2 & _).
  { rewrite F6. apply (i_fresh _ _ _ _ _ _ _ Hi (nxt s) (le_n _)). }
  { intros _. rewrite upd2_other by (left; exact Hpd). rewrite F9, F10.
    destruct (i_fresh _ _ _ _ _ _ _ Hi (nxt s) (le_n _)) as (Fa & _ & _ & _ & _ & _ & _ & Fp & Fs & _).
    split; [apply (i_dead _ _ _ _ _ _ _ Hi); exact Fa|]. tauto. }
  erewrite bind_run by exact R2.
  destruct (store_spec vkind G2 s2 v (nxt s1) Hi2 ltac:(rewrite Ht2, Ek1; reflexivity)) as (G3 & s3 & R3 & Hi3 & Hg3 & Hd3 & _).
  erewrite bind_run by exact R3.
  exists Done, s3. split; [reflexivity|]. split; [now exists G3|].
  eapply dus_ok_grow; [exact Hd|eapply grow_trans; [exact F1|eapply grow_trans; eassumption]|congruence].
Qed.

Lemma step_reserve s v pv : WF s -> ok_step (OReserve v pv) s.
Proof.
  intros [[G Hi] Hd]. unfold ok_step, step.
  destruct (kind_eqb (vkind v) KMem && kind_eqb (vkind pv) KPool) eqn:Ek; cbn [negb]; [|skip_case G Hi Hd s].
  apply andb_true_iff in Ek as [Ek1 Ek2]. apply kind_eqb_true in Ek1. apply kind_eqb_true in Ek2.
  destruct (vars s pv) as [hp|] eqn:Epv.
  2:{ rewrite (bind_run _ _ _ _ _ (var_ptr_none s pv Epv)). skip_case G Hi Hd s. }
  destruct (var_handle vkind G s pv hp Hi Epv) as (Hahp & Hthp & _). rewrite Ek2 in Hthp.
  rewrite (bind_run _ _ _ _ _ (var_ptr_some s pv hp Epv Hahp)).
  destruct (hptr s hp) as [p|] eqn:Ep; [|err_case G Hi Hd s].
  destruct (target_facts vkind [] G s hp p KPool Hi Hahp Hthp Ep) as (_ & Hap & Htp & _).
  erewrite bind_run by (apply need_run; exact Hap).
  destruct (pool_reserve_spec vkind [] G s p Hi Hap Htp) as
      (m & G1 & s1 & R1 & Hi1 & Ham & Htm & Hoim & Hn1 & Hle & Hg1 & Hv1 & Hd1 & _).
  erewrite bind_run by exact R1.
  destruct (h_new_obj vkind [] G1 s1 m KMem Hi1 Ham Htm ltac:(discriminate) ltac:(discriminate) Hoim ltac:(discriminate)) as
      (G2 & s2 & R2 & Hi2 & Ht2 & Hg2 & Hv2 & Hd2 & Hn2 & _).
  erewrite bind_run by exact R2.
  destruct (store_spec vkind G2 s2 v (nxt s1) Hi2 ltac:(rewrite Ht2, Ek1; reflexivity)) as (G3 & s3 & R3 & Hi3 & Hg3 & Hd3 & _).
  erewrite bind_run by exact R3.
  exists Done, s3. split; [reflexivity|]. split; [now exists G3|].
  eapply dus_ok_grow; [exact Hd|eapply grow_trans; [exact Hg1|eapply grow_trans; eassumption]|congruence].
Qed.

Lemma step_getstream s v dv : WF s -> ok_step (OGetStream v dv) s.
Proof.
  intros [[G Hi] Hd]. unfold ok_step, step.
  destruct (kind_eqb (vkind v) KStr && kind_eqb (vkind dv) KDev) eqn:Ek; cbn [negb]; [|skip_case G Hi Hd s].
  apply andb_true_iff in Ek as [Ek1 Ek2]. apply kind_eqb_true in Ek1. apply kind_eqb_true in Ek2.
  destruct (vars s dv) as [hd|] eqn:Edv.
  2:{ rewrite (bind_run _ _ _ _ _ (var_ptr_none s dv Edv)). skip_case G Hi Hd s. }
  destruct (var_handle vkind G s dv hd Hi Edv) as (Hahd & _ & _).
  rewrite (bind_run _ _ _ _ _ (var_ptr_some s dv hd Edv Hahd)).
  destruct (hptr s hd) as [d|] eqn:Ep; [|err_case G Hi Hd s].
  destruct (dev_of_var G s dv hd d Hi Ek2 Edv Ep) as (_ & Had & Htd).
  erewrite bind_run by (apply rd_run; exact Had).
  destruct (i_cur _ _ _ _ _ _ _ Hi d Had Htd ltac:(intros [])) as (C1 & C2 & _).
  destruct (h_copy_spec vkind [] G s (ocur s d) KStr Hi C1 C2) as (G1 & s1 & R1 & Hi1 & _ & Ht1 & Hg1 & Hv1 & Hd1 & _).
  erewrite bind_run by exact R1.
  destruct (store_spec vkind G1 s1 v (nxt s) Hi1 ltac:(rewrite Ht1, Ek1; reflexivity)) as (G2 & s2 & R2 & Hi2 & Hg2 & Hd2 & _).
  erewrite bind_run by exact R2.
  exists Done, s2. split; [reflexivity|]. split; [now exists G2|].
  eapply dus_ok_grow; [exact Hd|eapply grow_trans; eassumption|congruence].
Qed.

Lemma step_malloc s v dv bytes : WF s -> ok_step (OMalloc v dv bytes) s.
Proof.
  intros [[G Hi] Hd]. unfold ok_step, step.
  destruct (kind_eqb (vkind v) KMem && kind_eqb (vkind dv) KDev) eqn:Ek; cbn [negb]; [|skip_case G Hi Hd s].
  apply andb_true_iff in Ek as [Ek1 Ek2]. apply kind_eqb_true in Ek1. apply kind_eqb_true in Ek2.
  destruct (vars s dv) as [hd|] eqn:Edv.
  2:{ rewrite (bind_run _ _ _ _ _ (var_ptr_none s dv Edv)). skip_case G Hi Hd s. }
  destruct (var_handle vkind G s dv hd Hi Edv) as (Hahd & _ & _).
  rewrite (bind_run _ _ _ _ _ (var_ptr_some s dv hd Edv Hahd)).
  destruct (hptr s hd) as [d|] eqn:Ep; [|err_case G Hi Hd s].
  destruct (dev_of_var G s dv hd d Hi Ek2 Edv Ep) as (_ & Had & Htd).
  erewrite bind_run by (apply need_run; exact Had).
  (* the buffer *)
  destruct (new_buffer_spec vkind [] [] G s KBuf d bytes Hi (or_introl eq_refl) Had Htd) as
      (s1 & R1 & Hi1 & Hab & Htb & Hgb & Hfr1 & _).
  erewrite bind_run by exact R1.
  set (b := nxt s) in *. set (G1 := upd2 G d SBuf (G d SBuf ++ [b])) in *.
  destruct Hfr1 as (F1 & F2 & F3 & F4 & F5 & F6 & F7 & F8 & F9 & F10 & F11).
  assert (Hbd : b <> d) by (intros E; destruct (i_fresh _ _ _ _ _ _ _ Hi (nxt s) (le_n _)) as (F & _); unfold b in E; rewrite E in F; congruence).
  (* the memory *)
  destruct (new_memory_spec vkind [b] [] G1 s1 b Hi1 Hab Htb Hgb) as (s2 & R2 & Hi2 & Ham & Htm & Hfr2).
  erewrite bind_run by exact R2.
  set (m := nxt s1) in *. set (G2 := upd2 G1 b SMem (G1 b SMem ++ [m])) in *.
  destruct Hfr2 as (E1 & E2 & E3 & E4 & E5 & E6 & E7 & E8 & E9 & E10 & E11).
  pose proof F4 as Hmb.
  assert (Hbm : b <> m) by lia.
  destruct (E11 b Hbm) as (B1 & B2 & B3 & B4 & B5).
  assert (Hi2' : inv [] [m] [] [] G2 s2).
  { apply (inv_unW vkind [] [m] [] [] G2 s2 b).
    - apply inv_incl_W with (W := [m; b]); [exact Hi2|]. intros x [<-|[<-|[]]]; [right; now left|now left].
    - intros [E|[]]. congruence.
    - intros _ k Hk. rewrite B2, Htb in Hk. injection Hk as <-. intros _. unfold G2. rewrite upd2_same.
      destruct (G1 b SMem); discriminate.
    - intros x _ Hx. exfalso. rewrite E6, F6 in Hx.
      destruct (i_fresh _ _ _ _ _ _ _ Hi (nxt s) (le_n _)) as (_ & _ & _ & _ & _ & _ & Fo & _). unfold b in Hx. congruence.
    - intros _ _ Hg. rewrite B3, Hgb in Hg. discriminate.
    - intros _ Hc. rewrite B2, Htb in Hc. discriminate.
    - intros _ Hc. rewrite B2, Htb in Hc. discriminate.
    - intros _ Hc. rewrite B2, Htb in Hc. discriminate. }
  destruct (h_new_obj vkind [] G2 s2 m KMem Hi2' Ham Htm ltac:(discriminate) ltac:(discriminate)) as
      (G3 & s3 & R3 & Hi3 & Ht3 & Hg3 & Hv3 & Hd3 & Hn3 & Hob3 & Hod3 & Hp3 & Hfr3).
  { rewrite E6. apply (i_fresh _ _ _ _ _ _ _ Hi1 (nxt s1) (le_n _)). }
  { discriminate. }
  erewrite bind_run by exact R3.
  set (t := nxt s2) in *.
  assert (Had3 : alive s3 d = true).
  { assert (d <> t /\ d <> m /\ d <> b) as (N1 & N2 & N3).
    { pose proof (inv_lt vkind _ _ _ _ _ _ _ Hi Had) as Hlt. pose proof E4 as Htm'. fold b in Hlt. lia. }
    destruct (Hfr3 d N1) as (A1 & _). rewrite A1. destruct (E11 d N2) as (A2 & _). rewrite A2.
    destruct (F11 d N3) as (A3 & _). rewrite A3. exact Had. }
  erewrite bind_run by (apply rd_run; exact Had3).
  erewrite bind_run by (apply wr_obytes_run; exact Had3).
  set (s4 := set_obytes s3 (upd (obytes s3) d (obytes s3 d + bytes)%Z)).
  assert (Hi4 : inv [] [] [] [t] G3 s4) by (apply inv_set_obytes; exact Hi3).
  destruct (store_spec vkind G3 s4 v t Hi4 ltac:(unfold s4; simpl_st; rewrite Ht3, Ek1; reflexivity)) as
      (G5 & s5 & R5 & Hi5 & Hg5 & Hd5 & _).
  erewrite bind_run by exact R5.
  exists Done, s5. split; [reflexivity|]. split; [now exists G5|].
  eapply dus_ok_grow; [exact Hd| |].
  - eapply grow_trans; [exact F1|]. eapply grow_trans; [exact E1|]. eapply grow_trans; [exact Hg3|].
    eapply grow_trans; [|exact Hg5]. unfold grow, s4. simpl_st. repeat split; auto.
  - rewrite Hd5. unfold s4. simpl_st. congruence.
Qed.

Lemma step_slice s v mv : WF s -> ok_step (OSlice v mv) s.
Proof.
  intros [[G Hi] Hd]. unfold ok_step, step.
  destruct (kind_eqb (vkind v) KMem && kind_eqb (vkind mv) KMem) eqn:Ek; cbn [negb]; [|skip_case G Hi Hd s].
  apply andb_true_iff in Ek as [Ek1 Ek2]. apply kind_eqb_true in Ek1. apply kind_eqb_true in Ek2.
  destruct (vars s mv) as [hm|] eqn:Emv.
  2:{ rewrite (bind_run _ _ _ _ _ (var_ptr_none s mv Emv)). skip_case G Hi Hd s. }
  destruct (var_handle vkind G s mv hm Hi Emv) as (Hahm & Hthm & _). rewrite Ek2 in Hthm.
  rewrite (bind_run _ _ _ _ _ (var_ptr_some s mv hm Emv Hahm)).
  destruct (hptr s hm) as [m|] eqn:Ep.
  - (* a slice of an initialised memory *)
    destruct (target_facts vkind [] G s hm m KMem Hi Hahm Hthm Ep) as (_ & Ham & Htm & _).
    erewrite bind_run by (apply rd_run; exact Ham).
    destruct (obuf s m) as [b|] eqn:Eb; [|err_case G Hi Hd s].
    assert (Hin : In m (G b SMem)).
    { apply (i_mem2 _ _ _ _ _ _ _ Hi); [exact Ham|intros []|]. unfold home. now rewrite Htm, Eb. }
    destruct (member_facts _ _ _ _ _ _ _ _ _ _ Hi Hin) as (_ & Hab & _ & _ & Hfit).
    destruct (fits_SMem _ _ Hfit) as (_ & Htb).
    erewrite bind_run by (apply need_run; exact Hab).
    erewrite bind_run by apply get_run. unfold kind_of.
    destruct Htb as [Htb|Htb]; rewrite Htb; [|skip_case G Hi Hd s].
    assert (Hgb : ginner s b = false).
    { destruct (ginner s b) eqn:E; [|reflexivity]. rewrite (proj2 (i_ginner _ _ _ _ _ _ _ Hi b E)) in Hin. destruct Hin. }
    destruct (new_memory_spec vkind [] [] G s b Hi Hab Htb Hgb) as (s1 & R1 & Hi1 & Ham' & Htm' & Hfr1).
    erewrite bind_run by exact R1.
    destruct Hfr1 as (F1 & F2 & F3 & F4 & F5 & F6 & F7 & F8 & F9 & F10 & F11).
    destruct (h_new_obj vkind [] _ s1 (nxt s) KMem Hi1 Ham' Htm' ltac:(discriminate) ltac:(discriminate)) as
        (G2 & s2 & R2 & Hi2 & Ht2 & Hg2 & Hv2 & Hd2 & Hn2 & _).
    { rewrite F6. apply (i_fresh _ _ _ _ _ _ _ Hi (nxt s) (le_n _)). }
    { discriminate. }
    erewrite bind_run by exact R2.
    destruct (store_spec vkind G2 s2 v (nxt s1) Hi2 ltac:(rewrite Ht2, Ek1; reflexivity)) as (G3 & s3 & R3 & Hi3 & Hg3 & Hd3 & _).
    erewrite bind_run by exact R3.
    exists Done, s3. split; [reflexivity|]. split; [now exists G3|].
    eapply dus_ok_grow; [exact Hd|eapply grow_trans; [exact F1|eapply grow_trans; eassumption]|congruence].
  - (* slice of an uninitialised memory raises *)
    err_case G Hi Hd s.
Qed.

End S.
