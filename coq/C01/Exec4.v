(* C01 — ~modeMemory_t with its buffer (the upward release). *)
From Coq Require Import List Arith Bool ZArith Lia Permutation.
From OV.C01 Require Import Model Ring Heap Inv InvPrim InvPrim2 ExecBase Exec Exec2 Exec3.
Import ListNotations.

Section E.
Variable vkind : nat -> kind.
Notation inv := (inv vkind).
Notation exec := (exec fixed).

Lemma inv_set_pres X W D T G s p l :
  inv X W D T G s -> alive s p = true ->
  (forall m, In m (G p SMem) -> In m l) ->
  (tagof s p = TO KPool -> ~ In p W -> (l <> [] \/ pslots s p <> 0) -> oinner s p <> None) ->
  inv X W D T G (set_pres s (upd (pres s) p l)).
Proof.
  intros Hi Hp Hl Hpbl.
  assert (Hlt : p < nxt s) by (eapply inv_lt; eassumption).
  destruct Hi as [Aheap Amem1 Amem2 Aown Afresh Atag Adead Ainner Aitag Ainj Aiown Agin Apres Adev Abuf Acur Acurinj
                  Ahand Avars Avinj AT ATnd Alive Alognd Alog AD Acs Apb].
  constructor; simpl_st; try assumption.
  - destruct Aheap. constructor; simpl_st; assumption.
  - intros e He. destruct (Afresh e He) as (A1 & A2 & A3 & A4 & A5 & A6 & A7 & A8 & A9). repeat split; try tauto.
    rewrite upd_other by lia. exact A8.
  - intros q m Ha Ht Hw Hm. destruct (Nat.eq_dec q p) as [->|Hne].
    + rewrite upd_same. now apply Hl.
    + rewrite upd_other by exact Hne. now apply Apres.
  - intros q Ha Ht Hw. destruct (Nat.eq_dec q p) as [->|Hne].
    + rewrite upd_same. now apply Hpbl.
    + rewrite upd_other by exact Hne. now apply Apb.
Qed.

Lemma shrink_pres s p l : shrink s (set_pres s (upd (pres s) p l)).
Proof. unfold shrink. simpl_st. repeat split; auto. Qed.

Lemma measure_pres s p l : measure (set_pres s (upd (pres s) p l)) = measure s.
Proof. apply measure_same; reflexivity. Qed.

(* modeBuffer->removeModeMemoryRef(this); modeBuffer->needsFree() *)
Lemma unlink_child X W D T G s b m :
  inv X W D T G s -> In m (G b SMem) -> ~ In b W ->
  let G' := upd2 G b SMem (ring_remove m (G b SMem)) in
  exists s', buf_removeModeMemoryRef b m s = Some (tt, s') /\ shrink s s' /\ measure s' = measure s /\
    alive s' = alive s /\ dlog s' = dlog s /\ obuf s' = obuf s /\
    ((buf_needsFree b s' = Some (false, s') /\ inv (m :: X) W D T G' s') \/
     (buf_needsFree b s' = Some (true, s') /\ tagof s b = TO KBuf /\ G' b SMem = [] /\
      inv (m :: X) (b :: W) D T G' s')).
Proof.
  intros Hi Hin Hbw G'.
  destruct (member_facts _ _ _ _ _ _ _ _ _ _ Hi Hin) as (Ham & Hab & Hhome & Hnx & Hfit).
  destruct (fits_SMem _ _ Hfit) as (Htm & Htb).
  destruct (ring_removeRef_in s G b SMem m (i_heap _ _ _ _ _ _ _ Hi) Hab Hin) as (s1 & Hrun & Hsame & Hk1).
  fold G' in Hk1.
  pose proof Hsame as (S1 & S2 & S3 & S4 & S5 & S6 & S7 & S8 & S9 & S10 & S11 & S12 & S13 & S14 & S15 & S16 & S17 & S18).
  assert (Hab1 : alive s1 b = true) by (rewrite S3; exact Hab).
  assert (Hbm : b <> m) by (intros ->; rewrite Htm in Htb; destruct Htb; discriminate).
  destruct Htb as [Htb|Htb].
  - (* plain buffer *)
    exists s1. split; [|split; [apply same_obj_shrink; exact Hsame|split; [apply measure_same; assumption|]]].
    { unfold buf_removeModeMemoryRef. erewrite bind_run by (apply need_run; exact Hab).
      erewrite bind_run by apply get_run. unfold kind_of. rewrite Htb. erewrite bind_run by exact Hrun. reflexivity. }
    split; [exact S3|]. split; [exact S17|]. split; [exact S7|].
    assert (Hnf : buf_needsFree b s1 = Some (match G' b SMem with [] => true | _ => false end, s1)).
    { unfold buf_needsFree. erewrite bind_run by (apply need_run; exact Hab1).
      erewrite bind_run by apply get_run. unfold kind_of. rewrite S2, Htb.
      erewrite bind_run by (eapply rd_head_run; [exact Hk1|exact Hab1]). destruct (G' b SMem); reflexivity. }
    destruct (G' b SMem) as [|y t] eqn:EG.
    + right. split; [exact Hnf|]. split; [exact Htb|]. split; [reflexivity|].
      eapply inv_unlink; try eassumption; [apply incl_tl, incl_refl|]. intros Hn. exfalso. apply Hn. now left.
    + left. split; [exact Hnf|].
      eapply inv_unlink; try eassumption; [apply incl_refl|]. intros _ k Hk. rewrite Htb in Hk. injection Hk as <-.
      intros _. fold G'. rewrite EG. discriminate.
  - (* pool *)
    assert (Hpres : In m (pres s b)) by (apply (i_pres _ _ _ _ _ _ _ Hi b m Hab Htb Hbw Hin)).
    set (s2 := set_pres s1 (upd (pres s1) b (remove_nat m (pres s1 b)))).
    exists s2. split; [|split; [|split]].
    { unfold buf_removeModeMemoryRef. erewrite bind_run by (apply need_run; exact Hab).
      erewrite bind_run by apply get_run. unfold kind_of. rewrite Htb. erewrite bind_run by exact Hrun.
      erewrite bind_run by (apply rd_run; exact Hab1). rewrite S12.
      rewrite (existsb_eqb_true m (pres s b) Hpres). rewrite <- S12. apply wr_pres_run. exact Hab1. }
    { eapply shrink_trans; [apply same_obj_shrink; exact Hsame|apply shrink_pres]. }
    { unfold s2. rewrite measure_pres. apply measure_same; assumption. }
    split; [exact S3|]. split; [exact S17|]. split; [exact S7|].
    left.
    assert (Hlive : ouse s b = true -> G b SH <> []) by (apply (i_live _ _ _ _ _ _ _ Hi b KPool Hab Htb Hbw)).
    assert (Hi1 : inv (m :: X) W D T G' s1).
    { eapply inv_unlink; try eassumption; [apply incl_refl|]. intros _ k Hk. rewrite Htb in Hk. injection Hk as <-.
      intros Hu. fold G'. unfold G'. rewrite upd2_other by (right; discriminate). now apply Hlive. }
    assert (Hi2 : inv (m :: X) W D T G' s2).
    { apply inv_set_pres; [exact Hi1|exact Hab1| |].
      2:{ intros _ Hw' Hc. rewrite S8. apply (i_pool_buf _ _ _ _ _ _ _ Hi b Hab Htb Hw').
          destruct Hc as [Hc|Hc]; [left|right; rewrite <- S13; exact Hc].
          intros E. apply Hc. rewrite S12, E. reflexivity. }
      intros m' Hm'. unfold G' in Hm'. rewrite upd2_same in Hm'.
      apply ring_remove_In in Hm'; [|apply (hk_nd _ _ (i_heap _ _ _ _ _ _ _ Hi))]. destruct Hm' as [Hm1 Hm2].
      rewrite S12. apply remove_nat_In_ne; [|exact Hm2]. apply (i_pres _ _ _ _ _ _ _ Hi b m' Hab Htb Hbw Hm1). }
    split; [|exact Hi2].
    unfold buf_needsFree. erewrite bind_run by (apply need_run; exact Hab1).
    assert (Hk2 : kind_of s2 b = KPool) by (unfold kind_of, s2; simpl_st; rewrite S2, Htb; reflexivity).
    erewrite bind_run by apply get_run. rewrite Hk2.
    rewrite (needsFree_run _ G' b (i_heap _ _ _ _ _ _ _ Hi2) Hab1).
    assert (Hu2 : ouse s2 b = ouse s b) by (unfold s2; simpl_st; now rewrite S5). rewrite Hu2.
    unfold G'. rewrite upd2_other by (right; discriminate).
    destruct (ouse s b) eqn:Eu; [|reflexivity]. destruct (G b SH) eqn:EG; [exfalso; now apply Hlive|reflexivity].
Qed.

(* ~modeMemory_t of a memory that is still entered in its buffer *)
Lemma delete_mem f X W D T G s m :
  inv X W D T G s -> alive s m = true -> tagof s m = TO KMem -> ~ In m D -> In m W -> ~ In m X ->
  (forall b, obuf s m = Some b -> ~ In b W /\ ~ In b D) ->
  measure s + 6 <= f ->
  exists G' s', exec f (TDelete m) s = Some (tt, s') /\ inv X W D T G' s' /\ alive s' m = false /\
                shrink s s' /\
                (forall x, alive s x = true -> alive s' x = false -> x = m \/ obuf s m = Some x).
Proof.
  intros Hi Hm Ht Hd Hw Hnx Hbw Hf.
  destruct f as [|f]; [lia|]. cbn [exec].
  destruct (delete_prologue vkind X W D T G s m KMem Hi Hm Ht Hd) as (R1 & R2 & R3 & Hi1 & Hlog).
  set (s1 := set_dlog s (m :: dlog s)) in *.
  erewrite bind_run by exact R1. erewrite bind_run by apply get_run. rewrite R2. cbv beta iota.
  erewrite bind_run by exact R3.
  assert (Hm1 : measure s1 = measure s) by apply measure_dlog.
  assert (Hsh01 : shrink s s1) by apply shrink_dlog.
  destruct (null_spec vkind (length (G m SH)) f X W (m :: D) T G s1 m eq_refl) as
      (s2 & Hex2 & Hi2 & Hsh2 & Hal2 & Hob2 & Hoi2 & Hdl2 & Hpr2); try assumption.
  { pose proof (ring_len_measure vkind _ _ _ _ _ _ m SH Hi1) as H. lia. }
  set (G2 := upd2 G m SH []) in *.
  assert (Hm2 : alive s2 m = true) by (rewrite Hal2; exact Hm).
  pose proof Hsh2 as (E1 & Etag & _ & _ & _ & Eodev & Egin & _).
  assert (Ht2 : tagof s2 m = TO KMem) by (rewrite Etag; exact Ht).
  assert (Hms2 : measure s2 <= measure s) by (rewrite <- Hm1; now apply shrink_measure).
  assert (Hobs : obuf s2 m = obuf s m) by (rewrite Hob2; reflexivity).
  destruct (obuf s m) as [b|] eqn:Eb.
  2:{ exfalso. apply (i_buf _ _ _ _ _ _ _ Hi m Hm Ht Hnx). exact Eb. }
  destruct (Hbw b eq_refl) as [Hbw1 Hbd1].
  assert (Hin : In m (G2 b SMem)).
  { apply (i_mem2 _ _ _ _ _ _ _ Hi2); try assumption. unfold home. now rewrite Ht2, Hobs. }
  destruct (member_facts _ _ _ _ _ _ _ _ _ _ Hi2 Hin) as (_ & Hab2 & _ & _ & Hfit).
  destruct (fits_SMem _ _ Hfit) as (_ & Htb2).
  assert (Hbm : b <> m) by (intros ->; rewrite Ht2 in Htb2; destruct Htb2; discriminate).
  destruct (unlink_child X W (m :: D) T G2 s2 b m Hi2 Hin Hbw1) as
      (s3 & Hrun3 & Hsh3 & Hms3 & Hal3 & Hdl3 & Hob3 & Hcase).
  set (G3 := upd2 G2 b SMem (ring_remove m (G2 b SMem))) in *.
  assert (Hm3 : alive s3 m = true) by (rewrite Hal3; exact Hm2).
  assert (Hsh03 : shrink s s3).
  { eapply shrink_trans; [exact Hsh01|]. eapply shrink_trans; eassumption. }
  (* the state after the conditional delete of the buffer *)
  assert (Hstep : exists G4 s4,
     (nf <- buf_needsFree b;; (if nf then exec f (TDelete b) else ret tt);;; wr_obuf m None) s3
       = Some (tt, set_obuf s4 (upd (obuf s4) m None)) /\
     inv (m :: X) W (m :: D) T G4 s4 /\ shrink s3 s4 /\ alive s4 m = true /\ G4 m SH = [] /\
     (forall x, alive s3 x = true -> alive s4 x = false -> x = b)).
  { destruct Hcase as [(Hnf & Hi3)|(Hnf & Htb & Hnil & Hi3)].
    - exists G3, s3. split.
      { erewrite bind_run by exact Hnf. erewrite bind_run by reflexivity. apply wr_obuf_run. exact Hm3. }
      split; [exact Hi3|]. split; [apply shrink_refl|]. split; [exact Hm3|]. split.
      + unfold G3. rewrite upd2_other by (left; congruence). apply upd2_same.
      + intros x H1 H2. congruence.
    - assert (Hab3 : alive s3 b = true) by (rewrite Hal3; exact Hab2).
      pose proof Hsh3 as (_ & Etag3 & _ & _ & _ & _ & Egin3 & _).
      assert (Htb3 : tagof s3 b = TO KBuf) by (rewrite Etag3; exact Htb).
      assert (Hgb : ginner s3 b = false).
      { rewrite Egin3. destruct (ginner s2 b) eqn:Eg; [|reflexivity].
        rewrite (proj2 (i_ginner _ _ _ _ _ _ _ Hi2 b Eg)) in Hin. destruct Hin. }
      destruct (delete_buf vkind f (m :: X) (b :: W) (m :: D) T G3 s3 b) as (G4 & s4 & Hex4 & Hi4 & Hd4 & Hsh4 & Hk4).
      + exact Hi3.
      + exact Hab3.
      + exact Htb3.
      + intros [E|H]; [congruence|contradiction].
      + now left.
      + intros x _ Hx. rewrite Hnil in Hx. destruct Hx.
      + intros p Hap Hpw E. destruct (i_inner _ _ _ _ _ _ _ Hi3 p b Hap Hpw E) as (_ & _ & _ & Hg & _). congruence.
      + lia.
      + assert (Honly : forall x, alive s3 x = true -> alive s4 x = false -> x = b).
        { intros x H1 H2. destruct (Hk4 x H1 H2) as [E|E]; [exact E|]. rewrite Hnil in E. destruct E. }
        assert (Hm4 : alive s4 m = true).
        { destruct (alive s4 m) eqn:E; [reflexivity|]. exfalso. apply Hbm. symmetry. now apply Honly. }
        exists G4, s4. split.
        { erewrite bind_run by exact Hnf. erewrite bind_run by exact Hex4. apply wr_obuf_run. exact Hm4. }
        split; [eapply inv_unW_dead; eassumption|]. split; [exact Hsh4|]. split; [exact Hm4|]. split; [|exact Honly].
        eapply ring_nil_preserved; [exact Hi3|exact Hi4|exact Hsh4|apply incl_refl|].
        unfold G3. rewrite upd2_other by (left; congruence). apply upd2_same. }
  destruct Hstep as (G4 & s4 & Hex4 & Hi4 & Hsh4 & Hm4 & Hnil4 & Hk4).
  set (s5 := set_obuf s4 (upd (obuf s4) m None)) in *.
  pose proof (shrink_trans _ _ _ Hsh03 Hsh4) as Hsh04.
  assert (Ht4 : tagof s4 m = TO KMem) by (destruct Hsh04 as (_ & E & _); rewrite E; exact Ht).
  assert (Hi5 : inv (m :: X) W (m :: D) T G4 s5) by (apply inv_set_obuf; [exact Hi4|now left|exact Ht4]).
  assert (Hbody : (exec f (TNull m);;; b0 <- rd obuf m;;
            match b0 with
            | Some b1 => buf_removeModeMemoryRef b1 m;;; nf <- buf_needsFree b1;;
                         (if nf then exec f (TDelete b1) else ret tt);;; wr_obuf m None
            | None => ret tt end) s1 = Some (tt, s5)).
  { erewrite bind_run by exact Hex2. erewrite bind_run by (apply rd_run; exact Hm2). rewrite Hobs.
    erewrite bind_run by exact Hrun3. exact Hex4. }
  erewrite bind_run by exact Hbody.
  assert (Hm5 : alive s5 m = true) by (unfold s5; simpl_st; exact Hm4).
  rewrite (kill_run m s5 Hm5).
  exists G4, (set_alive s5 (upd (alive s5) m false)). split; [reflexivity|]. split; [|split; [|split]].
  - eapply kill_simple; try exact Hi5.
    + now right.
    + exact Hm5.
    + unfold s5. simpl_st. exact Ht4.
    + unfold simple_kind. tauto.
    + exact Hd.
    + eapply exempt_free; [exact Hi5|now left].
    + intros sl. destruct sl; try (eapply simple_rings; [exact Hi5| | |discriminate]; [unfold s5; simpl_st; exact Ht4|unfold simple_kind; tauto]).
      exact Hnil4.
    + eapply logged_in_D; [exact Hi5|now left].
  - simpl_st. apply upd_same.
  - eapply shrink_trans; [exact Hsh04|]. eapply shrink_trans; [apply shrink_obuf|apply shrink_kill].
  - intros x Hx1 Hx2. simpl_st. destruct (Nat.eq_dec x m) as [->|Hne]; [now left|]. right.
    rewrite upd_other in Hx2 by exact Hne. unfold s5 in Hx2. simpl_st. f_equal. symmetry. apply Hk4; [|exact Hx2].
    rewrite Hal3, Hal2. unfold s1. simpl_st. exact Hx1.
Qed.

End E.
