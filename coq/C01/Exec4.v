(* C01 — ~modeMemory_t with its buffer (the upward release). *)
From Coq Require Import List Arith Bool ZArith Lia Permutation.
From OV.C01 Require Import Model Ring Heap Inv InvPrim InvPrim2 ExecBase Exec Exec2 Exec3.
Import ListNotations.

Section E.
Variable vkind : nat -> kind.
Notation inv := (inv vkind).
Notation exec := (exec fixed).

Lemma inv_set_pres X W D T G s p l :
  inv X W D T G s -> alive s p = true ->
  (forall m, In m (G p SMem) -> In m l) ->
  inv X W D T G (set_pres s (upd (pres s) p l)).
Proof.
  intros Hi Hp Hl.
  assert (Hlt : p < nxt s) by (eapply inv_lt; eassumption).
  destruct Hi as [Aheap Amem1 Amem2 Aown Afresh Atag Adead Ainner Aitag Ainj Aiown Agin Apres Adev Abuf Acur Acurinj
                  Ahand Avars Avinj AT ATnd Alive Alognd Alog AD].
  constructor; simpl_st; try assumption.
  - destruct Aheap. constructor; simpl_st; assumption.
  - intros e He. destruct (Afresh e He) as (A1 & A2 & A3 & A4 & A5 & A6 & A7 & A8 & A9). repeat split; try tauto.
    rewrite upd_other by lia. exact A8.
  - intros q m Ha Ht Hm. destruct (Nat.eq_dec q p) as [->|Hne].
    + rewrite upd_same. now apply Hl.
    + rewrite upd_other by exact Hne. now apply Apres.
Qed.

Lemma shrink_pres s p l : shrink s (set_pres s (upd (pres s) p l)).
Proof. unfold shrink. simpl_st. repeat split; auto. Qed.

Lemma measure_pres s p l : measure (set_pres s (upd (pres s) p l)) = measure s.
Proof. apply measure_same; reflexivity. Qed.

(* modeBuffer->removeModeMemoryRef(this); modeBuffer->needsFree() *)
Lemma unlink_child X W D T G s b m :
  inv X W D T G s -> In m (G b SMem) -> ~ In b W ->
  let G' := upd2 G b SMem (ring_remove m (G b SMem)) in
  exists s', buf_removeModeMemoryRef b m s = Some (tt, s') /\ shrink s s' /\ measure s' = measure s /\
    alive s' = alive s /\ dlog s' = dlog s /\ obuf s' = obuf s /\
    ((buf_needsFree b s' = Some (false, s') /\ inv (m :: X) W D T G' s') \/
     (buf_needsFree b s' = Some (true, s') /\ tagof s b = TO KBuf /\ G' b SMem = [] /\
      inv (m :: X) (b :: W) D T G' s')).
Proof.
  intros Hi Hin Hbw G'.
  destruct (member_facts _ _ _ _ _ _ _ _ _ _ Hi Hin) as (Ham & Hab & Hhome & Hnx & Hfit).
  destruct (fits_SMem _ _ Hfit) as (Htm & Htb).
  destruct (ring_removeRef_in s G b SMem m (i_heap _ _ _ _ _ _ _ Hi) Hab Hin) as (s1 & Hrun & Hsame & Hk1).
  fold G' in Hk1.
  pose proof Hsame as (S1 & S2 & S3 & S4 & S5 & S6 & S7 & S8 & S9 & S10 & S11 & S12 & S13 & S14 & S15 & S16 & S17 & S18).
  assert (Hab1 : alive s1 b = true) by (rewrite S3; exact Hab).
  assert (Hbm : b <> m) by (intros ->; rewrite Htm in Htb; destruct Htb; discriminate).
  destruct Htb as [Htb|Htb].
  - (* plain buffer *)
    exists s1. split; [|split; [apply same_obj_shrink; exact Hsame|split; [apply measure_same; assumption|]]].
    { unfold buf_removeModeMemoryRef. erewrite bind_run by (apply need_run; exact Hab).
      erewrite bind_run by apply get_run. unfold kind_of. rewrite Htb. erewrite bind_run by exact Hrun. reflexivity. }
    split; [exact S3|]. split; [exact S17|]. split; [exact S7|].
    assert (Hnf : buf_needsFree b s1 = Some (match G' b SMem with [] => true | _ => false end, s1)).
    { unfold buf_needsFree. erewrite bind_run by (apply need_run; exact Hab1).
      erewrite bind_run by apply get_run. unfold kind_of. rewrite S2, Htb.
      erewrite bind_run by (eapply rd_head_run; [exact Hk1|exact Hab1]). destruct (G' b SMem); reflexivity. }
    destruct (G' b SMem) as [|y t] eqn:EG.
    + right. split; [exact Hnf|]. split; [exact Htb|]. split; [reflexivity|].
      eapply inv_unlink; try eassumption; [apply incl_tl, incl_refl|]. intros Hn. exfalso. apply Hn. now left.
    + left. split; [exact Hnf|].
      eapply inv_unlink; try eassumption; [apply incl_refl|]. intros _ k Hk. rewrite Htb in Hk. injection Hk as <-.
      intros _. fold G'. rewrite EG. discriminate.
  - (* pool *)
    assert (Hpres : In m (pres s b)) by (apply (i_pres _ _ _ _ _ _ _ Hi b m Hab Htb Hin)).
    set (s2 := set_pres s1 (upd (pres s1) b (remove_nat m (pres s1 b)))).
    exists s2. split; [|split; [|split]].
    { unfold buf_removeModeMemoryRef. erewrite bind_run by (apply need_run; exact Hab).
      erewrite bind_run by apply get_run. unfold kind_of. rewrite Htb. erewrite bind_run by exact Hrun.
      erewrite bind_run by (apply rd_run; exact Hab1). rewrite S12.
      rewrite (existsb_eqb_true m (pres s b) Hpres). rewrite <- S12. apply wr_pres_run. exact Hab1. }
    { eapply shrink_trans; [apply same_obj_shrink; exact Hsame|apply shrink_pres]. }
    { unfold s2. rewrite measure_pres. apply measure_same; assumption. }
    split; [exact S3|]. split; [exact S17|]. split; [exact S7|].
    left.
    assert (Hlive : ouse s b = true -> G b SH <> []) by (apply (i_live _ _ _ _ _ _ _ Hi b KPool Hab Htb Hbw)).
    assert (Hi1 : inv (m :: X) W D T G' s1).
    { eapply inv_unlink; try eassumption; [apply incl_refl|]. intros _ k Hk. rewrite Htb in Hk. injection Hk as <-.
      intros Hu. fold G'. unfold G'. rewrite upd2_other by (right; discriminate). now apply Hlive. }
    assert (Hi2 : inv (m :: X) W D T G' s2).
    { apply inv_set_pres; [exact Hi1|exact Hab1|].
      intros m' Hm'. unfold G' in Hm'. rewrite upd2_same in Hm'.
      apply ring_remove_In in Hm'; [|apply (hk_nd _ _ (i_heap _ _ _ _ _ _ _ Hi))]. destruct Hm' as [Hm1 Hm2].
      rewrite S12. apply remove_nat_In_ne; [|exact Hm2]. apply (i_pres _ _ _ _ _ _ _ Hi b m' Hab Htb Hm1). }
    split; [|exact Hi2].
    unfold buf_needsFree. erewrite bind_run by (apply need_run; exact Hab1).
    assert (Hk2 : kind_of s2 b = KPool) by (unfold kind_of, s2; simpl_st; rewrite S2, Htb; reflexivity).
    erewrite bind_run by apply get_run. rewrite Hk2.
    rewrite (needsFree_run _ G' b (i_heap _ _ _ _ _ _ _ Hi2) Hab1).
    assert (Hu2 : ouse s2 b = ouse s b) by (unfold s2; simpl_st; now rewrite S5). rewrite Hu2.
    unfold G'. rewrite upd2_other by (right; discriminate).
    destruct (ouse s b) eqn:Eu; [|reflexivity]. destruct (G b SH) eqn:EG; [exfalso; now apply Hlive|reflexivity].
Qed.

End E.
