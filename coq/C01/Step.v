(* C01 — every history operation keeps the heap well formed and never reaches UB (fixed code). *)
From Coq Require Import List Arith Bool ZArith Lia Permutation.
From OV.C01 Require Import Model Ring Heap Inv InvPrim InvPrim2 ExecBase Exec Exec2 Exec3 Exec4 Exec5 Exec6 Alloc Ops Ops2 Ops3 Ops4 Create Create2 Pool Pool2 Device.
Import ListNotations.

Section S.
Variable vkind : nat -> kind.
Notation inv := (inv vkind).

Definition dus_ok (s : st) : Prop :=
  forall o, In o (dus s) -> (exists k, tagof s o = TO k /\ k <> KBuf) /\ o < nxt s.

Definition WF (s : st) : Prop := (exists G, inv [] [] [] [] G s) /\ dus_ok s.

Lemma dus_ok_grow s s' : dus_ok s -> grow s s' -> dus s' = dus s -> dus_ok s'.
Proof.
  intros Hd (G1 & G2 & _) E o Ho. rewrite E in Ho. destruct (Hd o Ho) as [(k & Hk1 & Hk2) Hlt].
  split; [exists k; split; [rewrite G2 by exact Hlt; exact Hk1|exact Hk2]|lia].
Qed.

Lemma var_handle G s v h :
  inv [] [] [] [] G s -> vars s v = Some h ->
  alive s h = true /\ tagof s h = TH (vkind v) /\ usable [] s h.
Proof.
  intros Hi Hv. destruct (i_vars _ _ _ _ _ _ _ Hi v h Hv) as (V1 & _ & V3).
  split; [apply V3; intros []|]. split; [exact V1|]. left. now exists v.
Qed.

Lemma var_ptr_some s v h : vars s v = Some h -> alive s h = true ->
  var_ptr v s = Some (Some (h, hptr s h), s).
Proof.
  intros Hv Ha. unfold var_ptr. erewrite bind_run by apply get_run. rewrite Hv.
  erewrite bind_run by (apply rd_run; exact Ha). reflexivity.
Qed.

Lemma var_ptr_none s v : vars s v = None -> var_ptr v s = Some (None, s).
Proof. intros Hv. unfold var_ptr. erewrite bind_run by apply get_run. rewrite Hv. reflexivity. Qed.

Lemma WF_same s : WF s -> exists s', Some (Skip, s) = Some (Skip, s') /\ WF s'.
Proof. intros H. now exists s. Qed.

Definition ok_step (o : op) (s : st) : Prop :=
  exists r s', step fixed vkind o s = Some (r, s') /\ WF s'.

Lemma kind_eqb_true a b : kind_eqb a b = true -> a = b.
Proof. destruct (kind_eqb_spec a b); [auto|discriminate]. Qed.

(* ---- copy / assign / swap / free / drop / dontUseRefs *)
Lemma step_copy s v w : WF s -> ok_step (OCopy v w) s.
Proof.
  intros [[G Hi] Hd]. unfold ok_step, step.
  destruct (kind_eqb (vkind v) (vkind w)) eqn:Ek; cbn [negb]; [|exists Skip, s; split; [reflexivity|split; [now exists G|exact Hd]]].
  apply kind_eqb_true in Ek.
  erewrite bind_run by apply get_run. erewrite bind_run by apply get_run.
  destruct (vars s v) as [hv|] eqn:Ev; [exists Skip, s; split; [reflexivity|split; [now exists G|exact Hd]]|].
  destruct (vars s w) as [hw|] eqn:Ew; [|exists Skip, s; split; [reflexivity|split; [now exists G|exact Hd]]].
  destruct (var_handle G s w hw Hi Ew) as (Haw & Htw & _).
  destruct (h_copy_spec vkind [] G s hw (vkind w) Hi Haw Htw) as
      (G1 & s1 & R1 & Hi1 & Hp1 & Ht1 & Hg1 & Hv1 & Hd1 & _).
  erewrite bind_run by exact R1.
  destruct (store_spec vkind G1 s1 v (nxt s) Hi1 ltac:(rewrite Ht1, Ek; reflexivity)) as
      (G2 & s2 & R2 & Hi2 & Hg2 & Hd2 & _).
  erewrite bind_run by exact R2.
  exists Done, s2. split; [reflexivity|]. split; [now exists G2|].
  eapply dus_ok_grow; [exact Hd|eapply grow_trans; eassumption|congruence].
Qed.

Lemma step_assign s v w : WF s -> ok_step (OAssign v w) s.
Proof.
  intros [[G Hi] Hd]. unfold ok_step, step.
  destruct (kind_eqb (vkind v) (vkind w)) eqn:Ek; cbn [negb]; [|exists Skip, s; split; [reflexivity|split; [now exists G|exact Hd]]].
  apply kind_eqb_true in Ek.
  erewrite bind_run by apply get_run. erewrite bind_run by apply get_run.
  destruct (vars s v) as [hv|] eqn:Ev; [|exists Skip, s; split; [reflexivity|split; [now exists G|exact Hd]]].
  destruct (vars s w) as [hw|] eqn:Ew; [|exists Skip, s; split; [reflexivity|split; [now exists G|exact Hd]]].
  destruct (var_handle G s w hw Hi Ew) as (Haw & Htw & _).
  destruct (var_handle G s v hv Hi Ev) as (Hav & Htv & Huv).
  destruct (h_assign_spec vkind [] G s hv hw (vkind v) Hi Huv Htv Haw ltac:(rewrite Htw, Ek; reflexivity)) as
      (G1 & s1 & R1 & Hi1 & _ & Hg1 & _ & Hd1 & _).
  erewrite bind_run by exact R1.
  exists Done, s1. split; [reflexivity|]. split; [now exists G1|].
  eapply dus_ok_grow; eassumption.
Qed.

Lemma step_swap s v w : WF s -> ok_step (OSwap v w) s.
Proof.
  intros [[G Hi] Hd]. unfold ok_step, step.
  destruct (kind_eqb (vkind v) (vkind w) && (kind_eqb (vkind v) KMem || kind_eqb (vkind v) KPool)) eqn:Ek; cbn [negb];
    [|exists Skip, s; split; [reflexivity|split; [now exists G|exact Hd]]].
  apply andb_true_iff in Ek as [Ek _]. apply kind_eqb_true in Ek.
  erewrite bind_run by apply get_run. erewrite bind_run by apply get_run.
  destruct (vars s v) as [hv|] eqn:Ev; [|exists Skip, s; split; [reflexivity|split; [now exists G|exact Hd]]].
  destruct (vars s w) as [hw|] eqn:Ew; [|exists Skip, s; split; [reflexivity|split; [now exists G|exact Hd]]].
  destruct (var_handle G s w hw Hi Ew) as (Haw & Htw & Huw).
  destruct (var_handle G s v hv Hi Ev) as (Hav & Htv & Huv).
  destruct (h_swap_spec vkind G s hv hw (vkind v) Hi Huv Huw Htv ltac:(rewrite Htw, Ek; reflexivity)) as
      (G1 & s1 & R1 & Hi1 & Hg1 & _ & Hd1).
  erewrite bind_run by exact R1.
  exists Done, s1. split; [reflexivity|]. split; [now exists G1|].
  eapply dus_ok_grow; eassumption.
Qed.

Lemma step_free s v : WF s -> ok_step (OFree v) s.
Proof.
  intros [[G Hi] Hd]. unfold ok_step, step.
  erewrite bind_run by apply get_run.
  destruct (vars s v) as [hv|] eqn:Ev; [|exists Skip, s; split; [reflexivity|split; [now exists G|exact Hd]]].
  destruct (var_handle G s v hv Hi Ev) as (Hav & Htv & Huv).
  destruct (h_free_spec vkind [] G s hv (vkind v) Hi Huv Htv) as (G1 & s1 & R1 & Hi1 & Hg1 & _ & Hd1 & _).
  erewrite bind_run by exact R1.
  exists Done, s1. split; [reflexivity|]. split; [now exists G1|].
  eapply dus_ok_grow; eassumption.
Qed.

Lemma step_drop s v : WF s -> ok_step (ODrop v) s.
Proof.
  intros [[G Hi] Hd]. unfold ok_step, step.
  erewrite bind_run by apply get_run.
  destruct (vars s v) as [hv|] eqn:Ev; [|exists Skip, s; split; [reflexivity|split; [now exists G|exact Hd]]].
  destruct (drop_var_spec vkind G s v hv Hi Ev) as (G1 & s1 & R1 & Hi1 & Hg1 & _ & Hd1 & _).
  erewrite bind_run by exact R1.
  exists Done, s1. split; [reflexivity|]. split; [now exists G1|].
  eapply dus_ok_grow; eassumption.
Qed.

Lemma step_dontUseRefs s v : WF s -> ok_step (ODontUseRefs v) s.
Proof.
  intros [[G Hi] Hd]. unfold ok_step, step.
  erewrite bind_run by apply get_run.
  destruct (vars s v) as [hv|] eqn:Ev; [|exists Skip, s; split; [reflexivity|split; [now exists G|exact Hd]]].
  destruct (var_handle G s v hv Hi Ev) as (Hav & Htv & Huv).
  destruct (h_dontUseRefs_spec vkind [] G s hv Hi Huv) as (s1 & R1 & Hi1 & Hg1 & _ & Hn1 & _ & Hdu).
  erewrite bind_run by exact R1.
  exists Done, s1. split; [reflexivity|]. split; [now exists G|].
  destruct Hdu as [E|(o & Ho & E)]; [eapply dus_ok_grow; eassumption|].
  intros x Hx. rewrite E in Hx. destruct Hg1 as (G1 & G2 & _).
  destruct (target_facts vkind [] G s hv o (vkind v) Hi Hav Htv Ho) as (_ & Hao & Hto & Hkb & _).
  pose proof (inv_lt vkind _ _ _ _ _ _ _ Hi Hao) as Hlt.
  destruct Hx as [<-|Hx].
  - split; [exists (vkind v); split; [rewrite G2 by exact Hlt; exact Hto|exact Hkb]|lia].
  - destruct (Hd x Hx) as [(k & Hk1 & Hk2) Hl]. split; [exists k; split; [rewrite G2 by exact Hl; exact Hk1|exact Hk2]|lia].
Qed.

End S.
