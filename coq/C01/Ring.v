(* C01 — doubly linked cyclic lists over left/right pointer functions: the facts about
   ringEntry_t::removeRef / ring_t::addRef / ring_t::removeRef that everything else uses. *)
From Coq Require Import List Arith Bool Lia Permutation.
From OV.C01 Require Import Model.
Import ListNotations.

Lemma upd_same {A} (f : nat -> A) k v : upd f k v k = v.
Proof. unfold upd. now rewrite Nat.eqb_refl. Qed.
Lemma upd_other {A} (f : nat -> A) k v x : x <> k -> upd f k v x = f x.
Proof. unfold upd. intros H. destruct (Nat.eqb_spec x k); congruence. Qed.

(* ---------------------------------------------------------------- lists *)
Lemma last_app_single {A} (l : list A) x d : last (l ++ [x]) d = x.
Proof.
  induction l as [|a l IH]; cbn; [reflexivity|].
  destruct (l ++ [x]) eqn:E; [destruct l; discriminate|]. exact IH.
Qed.

Lemma last_cons_cons {A} (a b : A) l d : last (a :: b :: l) d = last (b :: l) d.
Proof. reflexivity. Qed.

Lemma last_nonempty_default {A} (l : list A) d d' : l <> [] -> last l d = last l d'.
Proof.
  induction l as [|a l IH]; [congruence|]. intros _.
  destruct l; [reflexivity|]. rewrite !last_cons_cons. apply IH. discriminate.
Qed.

Lemma last_cons_In {A} (a : A) l : In (last (a :: l) a) (a :: l).
Proof.
  revert a. induction l as [|b l IH]; intros a; [now left|].
  right. rewrite last_cons_cons. rewrite (last_nonempty_default (b :: l) a b) by discriminate. apply IH.
Qed.

Lemma last_app_nonempty {A} (l1 l2 : list A) d : l2 <> [] -> last (l1 ++ l2) d = last l2 d.
Proof.
  intros H. induction l1 as [|a l1 IH]; [reflexivity|].
  cbn [app]. destruct (l1 ++ l2) eqn:E.
  - destruct l1; cbn in E; [congruence|discriminate].
  - rewrite last_cons_cons. exact IH.
Qed.

Lemma removelast_cons_In {A} (a : A) l x : In x (removelast (a :: l)) -> In x (a :: l).
Proof.
  revert a. induction l as [|b l IH]; intros a H; [destruct H|].
  cbn [removelast] in H. destruct H as [->|H]; [now left|]. right. apply IH. exact H.
Qed.

Lemma NoDup_last_not_removelast (a : nat) l :
  NoDup (a :: l) -> ~ In (last (a :: l) a) (removelast (a :: l)).
Proof.
  revert a. induction l as [|b l IH]; intros a Hnd H; [destruct H|].
  rewrite last_cons_cons in H. cbn [removelast] in H.
  rewrite (last_nonempty_default (b :: l) a b) in H by discriminate.
  inversion Hnd as [|? ? Ha Hnd']; subst.
  destruct H as [H|H].
  - apply Ha. rewrite H. apply last_cons_In.
  - exact (IH b Hnd' H).
Qed.

(* ---------------------------------------------------------------- paths and cycles *)
Section Cyc.
Variables L R : nat -> nat.

Definition lnk (a b : nat) : Prop := R a = b /\ L b = a.

Fixpoint path (a : nat) (l : list nat) : Prop :=
  match l with
  | [] => True
  | b :: t => lnk a b /\ path b t
  end.

(* the cycle a -> t1 -> ... -> tn -> a *)
Definition cyc (l : list nat) : Prop :=
  match l with
  | [] => True
  | a :: t => path a (t ++ [a])
  end.

Lemma path_app a l1 l2 : path a (l1 ++ l2) <-> path a l1 /\ path (last l1 a) l2.
Proof.
  revert a. induction l1 as [|b l1 IH]; intros a; cbn [app path].
  - cbn. tauto.
  - rewrite IH.
    assert (last (b :: l1) a = last l1 b) as ->.
    { destruct l1; [reflexivity|]. rewrite last_cons_cons. apply last_nonempty_default. discriminate. }
    tauto.
Qed.

Lemma cyc_rot l1 l2 : cyc (l1 ++ l2) -> cyc (l2 ++ l1).
Proof.
  destruct l2 as [|b l2]; [now rewrite app_nil_r|].
  destruct l1 as [|a l1]; [now rewrite app_nil_r|].
  cbn [cyc app]. intros H.
  replace (l1 ++ b :: l2) with ((l1 ++ [b]) ++ l2) in H by (now rewrite <- app_assoc).
  rewrite <- app_assoc in H. apply path_app in H. destruct H as [H1 H2].
  rewrite last_app_single in H2.
  replace (l2 ++ a :: l1) with ((l2 ++ [a]) ++ l1) by (now rewrite <- app_assoc).
  rewrite <- app_assoc. apply path_app. split; [exact H2|].
  rewrite last_app_single. exact H1.
Qed.

Lemma cyc_single a : cyc [a] <-> (R a = a /\ L a = a).
Proof. cbn. unfold lnk. tauto. Qed.

Lemma cyc_head_left a t : cyc (a :: t) -> L a = last (a :: t) a.
Proof.
  cbn [cyc]. intros H. apply path_app in H. destruct H as [_ H]. cbn in H.
  destruct H as [[_ H] _]. rewrite H. destruct t; [reflexivity|].
  rewrite last_cons_cons. reflexivity.
Qed.

Lemma cyc_head_right a b t : cyc (a :: b :: t) -> R a = b.
Proof. cbn. unfold lnk. tauto. Qed.

End Cyc.

(* R is read at all but the last vertex of the path, L at all but the first *)
Lemma path_ext L R L' R' a l :
  (forall x, In x (removelast (a :: l)) -> R' x = R x) ->
  (forall x, In x l -> L' x = L x) ->
  path L R a l -> path L' R' a l.
Proof.
  revert a. induction l as [|b l IH]; intros a HR HL; [exact (fun _ => I)|].
  cbn [path]. intros [[H1 H2] H3]. split.
  - unfold lnk. rewrite HR by (cbn; now left). rewrite HL by now left. tauto.
  - apply IH; [| |exact H3].
    + intros x Hx. apply HR. cbn [removelast]. now right.
    + intros x Hx. apply HL. now right.
Qed.

Lemma cyc_ext L R L' R' l :
  (forall x, In x l -> L' x = L x /\ R' x = R x) -> cyc L R l -> cyc L' R' l.
Proof.
  destruct l as [|a t]; [tauto|]. cbn [cyc]. intros He. apply path_ext.
  - intros x Hx. apply He.
    apply removelast_cons_In in Hx. destruct Hx as [->|Hx]; [now left|].
    apply in_app_or in Hx. destruct Hx as [Hx|[<-|[]]]; [now right|now left].
  - intros x Hx. apply He. apply in_app_or in Hx. destruct Hx as [Hx|[<-|[]]]; [now right|now left].
Qed.

(* ---- ringEntry_t::removeRef on the first element of a cycle of length >= 2 *)
Lemma unlink_head L R e b t :
  NoDup (e :: b :: t) -> cyc L R (e :: b :: t) ->
  L e = last (b :: t) b /\ R e = b /\
  cyc (upd (upd L (R e) (L e)) e e) (upd (upd R (L e) (R e)) e e) (b :: t).
Proof.
  intros Hnd Hc.
  assert (HLe : L e = last (b :: t) b).
  { rewrite (cyc_head_left _ _ _ _ Hc). rewrite last_cons_cons. apply last_nonempty_default. discriminate. }
  assert (HRe : R e = b) by (eapply cyc_head_right; exact Hc).
  split; [exact HLe|]. split; [exact HRe|].
  rewrite HLe, HRe. set (z := last (b :: t) b) in *.
  pose proof Hnd as Hnd0. apply NoDup_cons_iff in Hnd0 as [He Hnd'].
  assert (Hze : z <> e) by (intros E; apply He; rewrite <- E; apply last_cons_In).
  assert (Hbe : b <> e) by (intros ->; apply He; now left).
  cbn [cyc] in *. cbn [app path] in Hc. destruct Hc as [_ Hc].
  apply path_app in Hc. destruct Hc as [Hp Hl]. fold z in Hl. cbn in Hl. destruct Hl as [[Hl1 Hl2] _].
  apply path_app. fold z. split.
  - eapply path_ext; [| |exact Hp].
    + intros x Hx. rewrite !upd_other; [reflexivity| |].
      * intros ->. exact (NoDup_last_not_removelast _ _ Hnd' Hx).
      * intros ->. apply He. apply removelast_cons_In. exact Hx.
    + intros x Hx. rewrite !upd_other; [reflexivity| |].
      * intros ->. apply NoDup_cons_iff in Hnd' as [Hb _]. contradiction.
      * intros ->. apply He. now right.
  - cbn [path]. split; [|exact I]. unfold lnk.
    assert (Hzt : last t b = z) by (unfold z; destruct t; reflexivity). rewrite Hzt.
    rewrite (upd_other _ e e z Hze), upd_same.
    rewrite (upd_other _ e e b Hbe), upd_same. tauto.
Qed.

(* ---- ringEntry_t::removeRef on any element of a cycle of length >= 2 *)
Lemma unlink_any L R l1 e l2 :
  NoDup (l1 ++ e :: l2) -> cyc L R (l1 ++ e :: l2) -> l1 ++ l2 <> [] ->
  L e <> e /\
  cyc (upd (upd L (R e) (L e)) e e) (upd (upd R (L e) (R e)) e e) (l1 ++ l2).
Proof.
  intros Hnd Hc Hne.
  apply cyc_rot in Hc. cbn [app] in Hc.
  assert (Hnd2 : NoDup (e :: l2 ++ l1)).
  { apply NoDup_cons.
    - intros H. apply NoDup_remove_2 in Hnd. apply Hnd. apply in_or_app. apply in_app_or in H. tauto.
    - apply NoDup_remove_1 in Hnd. eapply Permutation_NoDup; [apply Permutation_app_comm|exact Hnd]. }
  destruct (l2 ++ l1) as [|b t] eqn:E.
  - exfalso. apply Hne. destruct l2; [|discriminate]. destruct l1; [reflexivity|discriminate].
  - destruct (unlink_head L R e b t Hnd2 Hc) as (HL & HR & Hc').
    split.
    + rewrite HL. intros H. apply NoDup_cons_iff in Hnd2 as [Hn _]. apply Hn. rewrite <- H at 1. apply last_cons_In.
    + rewrite <- E in Hc'. apply cyc_rot in Hc'. exact Hc'.
Qed.

(* ---- ring_t::addRef: insertion of e between the tail and the head *)
Lemma link_tail L R h t e :
  NoDup (h :: t) -> ~ In e (h :: t) -> cyc L R (h :: t) ->
  let z := L h in
  cyc (upd (upd L e z) h e) (upd (upd R z e) e h) (h :: t ++ [e]).
Proof.
  intros Hnd Hne Hc z.
  assert (Hz : z = last (h :: t) h) by (eapply cyc_head_left; exact Hc).
  assert (Hzin : In z (h :: t)) by (rewrite Hz; apply last_cons_In).
  assert (Hze : z <> e) by (intros ->; contradiction).
  assert (Hhe : h <> e) by (intros ->; apply Hne; now left).
  cbn [cyc] in *. apply path_app in Hc. destruct Hc as [Hp Hl].
  assert (Hzt : last t h = z) by (rewrite Hz; destruct t; reflexivity).
  rewrite Hzt in Hl. cbn in Hl. destruct Hl as [[Hl1 Hl2] _].
  rewrite <- app_assoc. apply path_app. rewrite Hzt. split.
  - eapply path_ext; [| |exact Hp].
    + intros x Hx. rewrite !upd_other; [reflexivity| |].
      * intros ->. rewrite Hz in Hx. exact (NoDup_last_not_removelast _ _ Hnd Hx).
      * intros ->. apply Hne. apply removelast_cons_In. exact Hx.
    + intros x Hx. rewrite !upd_other; [reflexivity| |].
      * intros ->. apply Hne. now right.
      * intros ->. apply NoDup_cons_iff in Hnd as [Hh _]. contradiction.
  - cbn. unfold lnk. split; [|split; [|exact I]].
    + rewrite (upd_other _ e h z Hze), upd_same.
      rewrite (upd_other _ h e e (not_eq_sym Hhe)), upd_same. tauto.
    + rewrite !upd_same. tauto.
Qed.

Lemma cyc_neighbours L R l1 e l2 :
  cyc L R (l1 ++ e :: l2) -> In (L e) (l1 ++ e :: l2) /\ In (R e) (l1 ++ e :: l2).
Proof.
  intros Hc. apply cyc_rot in Hc. cbn [app] in Hc.
  assert (Hperm : forall x, In x (e :: l2 ++ l1) -> In x (l1 ++ e :: l2)).
  { intros x [->|Hx]; [apply in_or_app; right; now left|].
    apply in_app_or in Hx. apply in_or_app. destruct Hx; [right; now right|now left]. }
  split; apply Hperm.
  - rewrite (cyc_head_left _ _ _ _ Hc). apply last_cons_In.
  - destruct (l2 ++ l1) as [|b t] eqn:E.
    + apply cyc_single in Hc. destruct Hc as [-> _]. now left.
    + rewrite (cyc_head_right _ _ _ _ _ Hc). right. now left.
Qed.

Lemma remove_nat_split e t1 t2 : ~ In e t1 -> remove_nat e (t1 ++ e :: t2) = t1 ++ t2.
Proof.
  induction t1 as [|a t1 IH]; cbn; intros H.
  - now rewrite Nat.eqb_refl.
  - destruct (Nat.eqb_spec e a) as [->|_]; [tauto|]. f_equal. apply IH. tauto.
Qed.

Lemma remove_nat_In e l x : In x (remove_nat e l) -> In x l.
Proof.
  induction l as [|a l IH]; cbn; [tauto|].
  destruct (Nat.eqb_spec e a); [tauto|]. intros [->|H]; [tauto|]. right. now apply IH.
Qed.

Lemma remove_nat_In_ne e l x : In x l -> x <> e -> In x (remove_nat e l).
Proof.
  induction l as [|a l IH]; cbn; [tauto|].
  destruct (Nat.eqb_spec e a) as [->|Hn]; intros [->|H] Hx; try tauto; try (now left).
  right. now apply IH.
Qed.

Lemma remove_nat_NoDup e l : NoDup l -> NoDup (remove_nat e l) /\ ~ In e (remove_nat e l).
Proof.
  induction l as [|a l IH]; cbn; intros H; [split; [constructor|tauto]|].
  apply NoDup_cons_iff in H as [Ha Hl].
  destruct (Nat.eqb_spec e a) as [->|Hn]; [tauto|].
  destruct (IH Hl) as [H1 H2]. split.
  - constructor; [|exact H1]. intros Hin. apply Ha. eapply remove_nat_In. exact Hin.
  - intros [E|Hin]; [congruence|tauto].
Qed.
