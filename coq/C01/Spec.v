(* C01 — reference semantics of OCCA handles, written without rings or pointers:
   a backend object lives while something refers to it (a handle variable, or its device's
   current-stream slot), unless dontUseRefs() was called on it; free() destroys it at once;
   destroying an object destroys what it owns and un-initialises every handle to it.
   Objects here are the ones a user can name: devices, memories (allocations and slices),
   pools, kernels, streams, stream tags.  Buffers are derived: an allocation's buffer lives while
   one of its slices does; a pool owns one buffer once it has reserved anything.
   Executable; doubles as the oracle for the implementation. *)
From Coq Require Import List Arith Bool ZArith.
From OV.C01 Require Import Model.
Import ListNotations.

Record sobj := {
  so_kind  : kind;
  so_alive : bool;
  so_use   : bool;            (* reference counting in force *)
  so_dev   : nat;             (* owning device (itself for a device) *)
  so_grp   : nat;             (* memory: the allocation (first memory of the buffer) or the pool *)
  so_inpool: bool;            (* memory: reserved from a pool *)
  so_size  : Z;               (* allocation: bytes *)
  so_slots : nat;             (* pool: capacity in 128-byte units *)
  so_cur   : option nat       (* device: current stream *)
}.

(* None = no wrapper allocated; Some None = uninitialised wrapper *)
Definition svar := option (option nat).

Record sst := { objs : list sobj; svars : nat -> svar; kept : list nat }.

Definition sinit : sst := {| objs := []; svars := fun _ => None; kept := [] |}.

Definition dummy : sobj :=
  {| so_kind := KDev; so_alive := false; so_use := true; so_dev := 0; so_grp := 0; so_inpool := false;
     so_size := 0%Z; so_slots := 0; so_cur := None |}.
Definition geto (s : sst) (o : nat) : sobj := nth o (objs s) dummy.

Fixpoint map_idx {A B} (f : nat -> A -> B) (i : nat) (l : list A) : list B :=
  match l with [] => [] | x :: t => f i x :: map_idx f (S i) t end.

Definition set_objs (s : sst) (l : list sobj) : sst := {| objs := l; svars := svars s; kept := kept s |}.
Definition set_svars (s : sst) (v : nat -> svar) : sst := {| objs := objs s; svars := v; kept := kept s |}.

Definition with_alive (x : sobj) (a : bool) : sobj :=
  {| so_kind := so_kind x; so_alive := a; so_use := so_use x; so_dev := so_dev x; so_grp := so_grp x;
     so_inpool := so_inpool x; so_size := so_size x; so_slots := so_slots x; so_cur := so_cur x |}.
Definition with_use (x : sobj) (u : bool) : sobj :=
  {| so_kind := so_kind x; so_alive := so_alive x; so_use := u; so_dev := so_dev x; so_grp := so_grp x;
     so_inpool := so_inpool x; so_size := so_size x; so_slots := so_slots x; so_cur := so_cur x |}.
Definition with_slots (x : sobj) (n : nat) : sobj :=
  {| so_kind := so_kind x; so_alive := so_alive x; so_use := so_use x; so_dev := so_dev x; so_grp := so_grp x;
     so_inpool := so_inpool x; so_size := so_size x; so_slots := n; so_cur := so_cur x |}.
Definition with_cur (x : sobj) (c : option nat) : sobj :=
  {| so_kind := so_kind x; so_alive := so_alive x; so_use := so_use x; so_dev := so_dev x; so_grp := so_grp x;
     so_inpool := so_inpool x; so_size := so_size x; so_slots := so_slots x; so_cur := c |}.

(* which objects die when o is destroyed *)
Definition dies_with (s : sst) (o : nat) (i : nat) (x : sobj) : bool :=
  Nat.eqb i o ||
  match so_kind (geto s o) with
  | KDev => Nat.eqb (so_dev x) o
  | KPool => kind_eqb (so_kind x) KMem && so_inpool x && Nat.eqb (so_grp x) o
  | _ => false
  end.

Definition var_universe := 17.

Definition destroy (s : sst) (o : nat) : sst :=
  let dead i := dies_with s o i (geto s i) in
  let l1 := map_idx (fun i x => if dead i then with_alive x false else x) 0 (objs s) in
  (* a device whose current stream died has an un-initialised currentStream *)
  let l2 := map (fun x => match so_cur x with
                          | Some c => if dead c then with_cur x None else x
                          | None => x end) l1 in
  {| objs := l2;
     svars := fun v => match svars s v with
                       | Some (Some t) => if dead t then Some None else Some (Some t)
                       | r => r end;
     kept := kept s |}.

Definition refs (s : sst) (o : nat) : nat :=
  length (filter (fun v => match svars s v with Some (Some t) => Nat.eqb t o | _ => false end)
                 (seq 0 var_universe))
  + length (filter (fun x => so_alive x && match so_cur x with Some c => Nat.eqb c o | None => false end)
                   (objs s)).

(* a reference to o has just gone away *)
Definition released (s : sst) (o : nat) : sst :=
  let x := geto s o in
  if so_alive x && so_use x && Nat.eqb (refs s o) 0 then destroy s o else s.

Definition new_obj (s : sst) (x : sobj) : nat * sst := (length (objs s), set_objs s (objs s ++ [x])).

(* v = <fresh wrapper referring to o> *)
Definition sstore (s : sst) (v : nat) (t : option nat) : sst :=
  let old := svars s v in
  let s1 := set_svars s (upd (svars s) v (Some t)) in
  match old with
  | Some (Some o) => if onat_eqb (Some o) t then s1 else released s1 o
  | _ => s1
  end.

Definition live_res (s : sst) (p : nat) : nat :=
  length (filter (fun x => so_alive x && kind_eqb (so_kind x) KMem && so_inpool x && Nat.eqb (so_grp x) p) (objs s)).

Section Step.
Variable vkind : nat -> kind.

Definition mk (k : kind) (d grp : nat) (inpool : bool) (size : Z) : sobj :=
  {| so_kind := k; so_alive := true; so_use := true; so_dev := d; so_grp := grp; so_inpool := inpool;
     so_size := size; so_slots := 0; so_cur := None |}.

Definition update_obj (s : sst) (o : nat) (f : sobj -> sobj) : sst :=
  set_objs s (map_idx (fun i x => if Nat.eqb i o then f x else x) 0 (objs s)).

Definition sstep (o : op) (s : sst) : status * sst :=
  let on_dev (v dv : nat) (ok : bool) (f : nat -> status * sst) : status * sst :=
    if negb ok then (Skip, s) else
    match svars s dv with
    | None => (Skip, s)
    | Some None => (Err, s)
    | Some (Some d) => f d
    end in
  match o with
  | ONewDev v =>
      if negb (kind_eqb (vkind v) KDev) then (Skip, s) else
      let d := length (objs s) in
      let (d', s1) := new_obj s (mk KDev d d false 0%Z) in
      let (c, s2) := new_obj s1 (mk KStr d 0 false 0%Z) in
      let s3 := update_obj s2 d (fun x => with_cur x (Some c)) in
      (Done, sstore s3 v (Some d))
  | OMalloc v dv bytes =>
      on_dev v dv (kind_eqb (vkind v) KMem && kind_eqb (vkind dv) KDev) (fun d =>
        let m := length (objs s) in
        let (_, s1) := new_obj s (mk KMem d m false bytes) in
        (Done, sstore s1 v (Some m)))
  | OPool v dv =>
      on_dev v dv (kind_eqb (vkind v) KPool && kind_eqb (vkind dv) KDev) (fun d =>
        let (p, s1) := new_obj s (mk KPool d 0 false 0%Z) in
        (Done, sstore s1 v (Some p)))
  | OReserve v pv =>
      if negb (kind_eqb (vkind v) KMem && kind_eqb (vkind pv) KPool) then (Skip, s) else
      match svars s pv with
      | None => (Skip, s)
      | Some None => (Err, s)
      | Some (Some p) =>
          let n := live_res s p in
          let s0 := if Nat.ltb (so_slots (geto s p)) (n + 1)
                    then update_obj s p (fun x => with_slots x (n + 1)) else s in
          let (m, s1) := new_obj s0 (mk KMem (so_dev (geto s p)) p true 0%Z) in
          (Done, sstore s1 v (Some m))
      end
  | OSlice v mv =>
      if negb (kind_eqb (vkind v) KMem && kind_eqb (vkind mv) KMem) then (Skip, s) else
      match svars s mv with
      | None => (Skip, s)
      | Some None => (Err, s)
      | Some (Some m) =>
          let x := geto s m in
          if so_inpool x then (Skip, s) else
          let (m', s1) := new_obj s (mk KMem (so_dev x) (so_grp x) false 0%Z) in
          (Done, sstore s1 v (Some m'))
      end
  | OLeaf k v dv =>
      on_dev v dv (kind_eqb (vkind v) k && kind_eqb (vkind dv) KDev
                   && (kind_eqb k KKer || kind_eqb k KStr || kind_eqb k KTag)) (fun d =>
        let (x, s1) := new_obj s (mk k d 0 false 0%Z) in
        (Done, sstore s1 v (Some x)))
  | OGetStream v dv =>
      on_dev v dv (kind_eqb (vkind v) KStr && kind_eqb (vkind dv) KDev) (fun d =>
        (Done, sstore s v (so_cur (geto s d))))
  | OCopy v w =>
      if negb (kind_eqb (vkind v) (vkind w)) then (Skip, s) else
      match svars s v, svars s w with
      | None, Some t => (Done, sstore s v t)
      | _, _ => (Skip, s)
      end
  | OAssign v w =>
      if negb (kind_eqb (vkind v) (vkind w)) then (Skip, s) else
      match svars s v, svars s w with
      | Some _, Some t => (Done, sstore s v t)
      | _, _ => (Skip, s)
      end
  | OSwap v w =>
      if negb (kind_eqb (vkind v) (vkind w)
               && (kind_eqb (vkind v) KMem || kind_eqb (vkind v) KPool)) then (Skip, s) else
      match svars s v, svars s w with
      | Some a, Some b => (Done, set_svars s (upd (upd (svars s) v (Some b)) w (Some a)))
      | _, _ => (Skip, s)
      end
  | OFree v =>
      match svars s v with
      | None => (Skip, s)
      | Some None => (Done, s)
      | Some (Some t) => (Done, destroy s t)
      end
  | ODrop v =>
      match svars s v with
      | None => (Skip, s)
      | Some None => (Done, set_svars s (upd (svars s) v None))
      | Some (Some t) => (Done, released (set_svars s (upd (svars s) v None)) t)
      end
  | ODontUseRefs v =>
      match svars s v with
      | None => (Skip, s)
      | Some None => (Done, s)
      | Some (Some t) =>
          let s1 := update_obj s t (fun x => with_use x false) in
          (Done, {| objs := objs s1; svars := svars s1; kept := t :: kept s1 |})
      end
  | OEnd vs =>
      let drop s v := match svars s v with
                      | Some (Some t) => released (set_svars s (upd (svars s) v None)) t
                      | Some None => set_svars s (upd (svars s) v None)
                      | None => s end in
      let s1 := fold_left drop vs s in
      (Done, fold_left (fun s t => if so_alive (geto s t) then destroy s t else s) (rev (kept s1)) s1)
  end.

End Step.

(* derived counters *)
Definition count_kind (s : sst) (k : kind) : nat :=
  length (filter (fun x => so_alive x && kind_eqb (so_kind x) k) (objs s)).

Definition live_groups (s : sst) (d : option nat) : list nat :=
  nodup Nat.eq_dec
    (map so_grp (filter (fun x => so_alive x && kind_eqb (so_kind x) KMem && negb (so_inpool x)
                                  && match d with Some d => Nat.eqb (so_dev x) d | None => true end) (objs s))).

Definition pools_with_buffer (s : sst) : nat :=
  length (filter (fun x => so_alive x && kind_eqb (so_kind x) KPool && negb (Nat.eqb (so_slots x) 0)) (objs s)).

Definition count_buffers (s : sst) : nat :=
  length (live_groups s None) + count_kind s KPool + pools_with_buffer s.

Definition dev_bytes (s : sst) (d : nat) : Z :=
  fold_left Z.add (map (fun g => so_size (geto s g)) (live_groups s (Some d))) 0%Z
  + fold_left Z.add (map (fun x => if so_alive x && kind_eqb (so_kind x) KPool && Nat.eqb (so_dev x) d
                                   then (128 * Z.of_nat (so_slots x))%Z else 0%Z) (objs s)) 0%Z.
