(* C01 — wrapper operations at the top level (no call in progress). *)
From Coq Require Import List Arith Bool ZArith Lia Permutation.
From OV.C01 Require Import Model Ring Heap Inv InvPrim InvPrim2 ExecBase Exec Exec2 Exec3 Exec4 Exec5 Exec6 Alloc Ops.
Import ListNotations.

Section O.
Variable vkind : nat -> kind.
Notation inv := (inv vkind).

(* a dead wrapper that is no variable leaves the exempt list *)
Lemma inv_unX_dead_handle X W D T G s h :
  inv (h :: X) W D T G s -> alive s h = false -> (forall v, vars s v <> Some h) -> inv X W D T G s.
Proof.
  intros Hi Hd Hv.
  destruct Hi as [Aheap Amem1 Amem2 Aown Afresh Atag Adead Ainner Aitag Ainj Aiown Agin Apres Adev Abuf Acur Acurinj
                  Ahand Avars Avinj AT ATnd Alive Alognd Alog AD Acs Apb].
  constructor; try assumption.
  - intros x o sl Hin. destruct (Amem1 x o sl Hin) as [H1 H2]. split; [exact H1|]. intros H. apply H2. now right.
  - intros x o sl Ha Hx. apply Amem2; [exact Ha|]. intros [<-|H]; [congruence|contradiction].
  - intros m Ha Ht Hx. apply Abuf; try assumption. intros [<-|H]; [congruence|contradiction].
  - intros v x Hvx. destruct (Avars v x Hvx) as (A1 & A2 & A3). repeat split; try assumption.
    intros Hx. apply A3. intros [<-|H]; [exact (Hv v Hvx)|contradiction].
Qed.

(* the variable that held a destroyed wrapper is emptied *)
Lemma inv_clear_var X W D T G s h v :
  inv (h :: X) W D T G s -> ~ In h X -> alive s h = false -> vars s v = Some h ->
  inv X W D T G (set_vars s (upd (vars s) v None)).
Proof.
  intros Hi Hnx Hd Hv.
  destruct Hi as [Aheap Amem1 Amem2 Aown Afresh Atag Adead Ainner Aitag Ainj Aiown Agin Apres Adev Abuf Acur Acurinj
                  Ahand Avars Avinj AT ATnd Alive Alognd Alog AD Acs Apb].
  assert (Hvv : forall v' x, upd (vars s) v None v' = Some x -> vars s v' = Some x /\ v' <> v).
  { intros v' x. unfold upd. destruct (Nat.eqb_spec v' v); [discriminate|tauto]. }
  constructor; simpl_st; try assumption.
  - destruct Aheap. constructor; simpl_st; assumption.
  - intros x o sl Hin. destruct (Amem1 x o sl Hin) as [H1 H2]. split; [exact H1|]. intros H. apply H2. now right.
  - intros x o sl Ha Hx. apply Amem2; [exact Ha|]. intros [<-|H]; [congruence|contradiction].
  - intros m Ha Ht Hx. apply Abuf; try assumption. intros [<-|H]; [congruence|contradiction].
  - intros d Ha Ht Hw. destruct (Acur d Ha Ht Hw) as (C1 & C2 & C3 & C4). repeat split; try assumption.
    intros v' Hc. apply Hvv in Hc as [Hc _]. exact (C4 v' Hc).
  - intros x k Ha Ht. destruct (Ahand x k Ha Ht) as [[v' Hv']|H]; [|now right].
    left. exists v'. rewrite upd_other; [exact Hv'|]. intros ->. congruence.
  - intros v' x Hc. apply Hvv in Hc as [Hc Hne]. destruct (Avars v' x Hc) as (A1 & A2 & A3). repeat split; try assumption.
    intros Hx. apply A3. intros [<-|H]; [|contradiction]. apply Hne. eapply Avinj; eassumption.
  - intros v1 v2 x H1 H2. apply Hvv in H1 as [H1 _]. apply Hvv in H2 as [H2 _]. eapply Avinj; eassumption.
Qed.

(* a temporary becomes the wrapper held by an empty variable *)
Lemma inv_bind_var X W D T G s t v :
  inv X W D (t :: T) G s -> vars s v = None -> tagof s t = TH (vkind v) -> ~ In t X ->
  inv X W D T G (set_vars s (upd (vars s) v (Some t))).
Proof.
  intros Hi Hv Ht Hnx.
  destruct Hi as [Aheap Amem1 Amem2 Aown Afresh Atag Adead Ainner Aitag Ainj Aiown Agin Apres Adev Abuf Acur Acurinj
                  Ahand Avars Avinj AT ATnd Alive Alognd Alog AD Acs Apb].
  assert (HtT : ~ In t T) by (apply NoDup_cons_iff in ATnd; tauto).
  assert (Hat : alive s t = true) by (apply AT; now left).
  assert (Hnv : forall v', vars s v' <> Some t).
  { intros v' Hc. destruct (Avars v' t Hc) as (_ & H & _). apply H. now left. }
  constructor; simpl_st; try assumption.
  - destruct Aheap. constructor; simpl_st; assumption.
  - intros d Ha Htd Hw. destruct (Acur d Ha Htd Hw) as (C1 & C2 & C3 & C4). repeat split; try assumption.
    + intros Hc. apply C3. now right.
    + intros v' Hc. destruct (Nat.eq_dec v' v) as [E|E].
      * subst v'. rewrite upd_same in Hc. injection Hc as Hc. apply C3. left. now symmetry.
      * rewrite upd_other in Hc by exact E. exact (C4 v' Hc).
  - intros x k Ha Hx. destruct (Ahand x k Ha Hx) as [[v' Hv']|[H|[<-|H]]].
    + left. exists v'. rewrite upd_other; [exact Hv'|]. intros ->. congruence.
    + right. now left.
    + left. exists v. apply upd_same.
    + right. now right.
  - intros v' x Hc. destruct (Nat.eq_dec v' v) as [E|E].
    + subst v'. rewrite upd_same in Hc. injection Hc as <-. repeat split; [exact Ht|exact HtT|]. intros _. exact Hat.
    + rewrite upd_other in Hc by exact E.
      destruct (Avars v' x Hc) as (A1 & A2 & A3). repeat split; try assumption. intros H. apply A2. now right.
  - intros v1 v2 x H1 H2.
    destruct (Nat.eq_dec v1 v) as [N1|N1]; destruct (Nat.eq_dec v2 v) as [N2|N2]; try congruence.
    + subst v1. rewrite upd_same in H1. rewrite upd_other in H2 by exact N2. injection H1 as <-. exfalso. exact (Hnv v2 H2).
    + subst v2. rewrite upd_same in H2. rewrite upd_other in H1 by exact N1. injection H2 as <-. exfalso. exact (Hnv v1 H1).
    + rewrite upd_other in H1 by exact N1. rewrite upd_other in H2 by exact N2. eapply Avinj; eassumption.
  - intros x Hin. apply AT. now right.
  - apply NoDup_cons_iff in ATnd. tauto.
Qed.

(* ---------------------------------------------------------------- constructors of wrappers *)
Lemma cur_is_old T G s d :
  inv [] [] [] T G s -> alive s d = true -> tagof s d = TO KDev -> ocur s d <> nxt s.
Proof.
  intros Hi Ha Ht E. destruct (i_cur _ _ _ _ _ _ _ Hi d Ha Ht ltac:(intros [])) as (C1 & _).
  rewrite E in C1. destruct (i_fresh _ _ _ _ _ _ _ Hi (nxt s) (le_n _)) as (F & _). congruence.
Qed.

Lemma grow_set_hptr s v : grow s (set_hptr s v).
Proof. unfold grow. simpl_st. repeat split; auto. Qed.

Lemma h_new_spec T G s k o' :
  inv [] [] [] T G s ->
  (forall o, o' = Some o -> alive s o = true /\ tagof s o = TO k /\ k <> KBuf) ->
  exists G' s', h_new fixed k o' s = Some (nxt s, s') /\ inv [] [] [] (nxt s :: T) G' s' /\
    hptr s' (nxt s) = o' /\ tagof s' (nxt s) = TH k /\ grow s s' /\ vars s' = vars s /\ dus s' = dus s /\
    nxt s' = S (nxt s) /\ ouse s' = ouse s /\ dlog s' = dlog s /\
    (forall x, x <> nxt s -> hptr s' x = hptr s x /\ alive s' x = alive s x).
Proof.
  intros Hi Ho'. unfold h_new. rewrite (bind_run _ _ _ _ _ (alloc_run s (TH k))).
  set (h := nxt s). set (s1 := alloc_st s (TH k)).
  destruct (alloc_handle_spec vkind [] [] [] T G s k Hi) as [Hi1 Hp1]. fold h s1 in Hi1, Hp1.
  assert (Hh1 : alive s1 h = true) by (unfold s1, alloc_st, h; simpl_st; apply upd_same).
  assert (Ht1 : tagof s1 h = TH k) by (unfold s1, alloc_st, h; simpl_st; apply upd_same).
  assert (Hg01 : grow s s1) by (eapply added_grow; apply added_alloc).
  assert (Hoth : forall x, x <> h -> hptr s1 x = hptr s x /\ alive s1 x = alive s x).
  { intros x Hx. unfold s1, alloc_st. simpl_st. rewrite upd_other by exact Hx. tauto. }
  destruct o' as [o|].
  - destruct (Ho' o eq_refl) as (Hao & Hto & Hkb).
    assert (Hoh : o <> h) by (intros ->; destruct (i_fresh _ _ _ _ _ _ _ Hi (nxt s) (le_n _)) as (F & _); unfold h in Hao; congruence).
    destruct (h_set_fresh vkind [] [] [] (h :: T) G s1 h k o) as (s2 & Hrun2 & Hi2 & Hsame2); try assumption.
    + intros [].
    + destruct (Hoth o Hoh) as [_ E]. rewrite E. exact Hao.
    + unfold s1, alloc_st. simpl_st. rewrite upd_other by exact Hoh. exact Hto.
    + intros d Had Htd _ Hc. exfalso.
      assert (Hdh : d <> h) by (intros ->; congruence).
      unfold s1, alloc_st in Had, Htd, Hc. simpl_st. rewrite upd_other in Had by exact Hdh. rewrite upd_other in Htd by exact Hdh.
      exact (cur_is_old T G s d Hi Had Htd Hc).
    + erewrite bind_run by exact Hrun2.
      pose proof Hsame2 as (S1 & S2 & S3 & S4 & S5 & S6 & S7 & S8 & S9 & S10 & S11 & S12 & S13 & S14 & S15 & S16 & S17 & S18).
      simpl_st.
      eexists _, s2. split; [reflexivity|]. split; [exact Hi2|].
      split; [rewrite S4; apply upd_same|]. split; [rewrite S2; exact Ht1|].
      split.
      { eapply grow_trans; [exact Hg01|]. eapply grow_trans; [apply (grow_set_hptr s1)|apply same_obj_grow; exact Hsame2]. }
      split; [rewrite S16; reflexivity|]. split; [rewrite S18; reflexivity|].
      split; [rewrite S1; reflexivity|]. split; [rewrite S5; reflexivity|]. split; [rewrite S17; reflexivity|].
      intros x Hx. rewrite S4, S3. rewrite upd_other by exact Hx. now apply Hoth.
  - assert (Hrun : h_set fixed h None s1 = Some (tt, s1)).
    { unfold h_set. erewrite bind_run by (apply rd_run; exact Hh1). rewrite Hp1. reflexivity. }
    erewrite bind_run by exact Hrun.
    exists G, s1. split; [reflexivity|]. split; [exact Hi1|]. split; [exact Hp1|]. split; [exact Ht1|].
    split; [exact Hg01|]. repeat split; try reflexivity; now apply Hoth.
Qed.

(* ---------------------------------------------------------------- wrappers a caller can name *)
Definition usable (T : list nat) (s : st) (h : nat) : Prop := (exists v, vars s v = Some h) \/ In h T.

Lemma usable_facts T G s h :
  inv [] [] [] T G s -> usable T s h ->
  alive s h = true /\ is_h_tag (tagof s h) /\
  (forall d, alive s d = true -> tagof s d = TO KDev -> ocur s d <> h).
Proof.
  intros Hi [[v Hv]|Hin].
  - destruct (i_vars _ _ _ _ _ _ _ Hi v h Hv) as (V1 & V2 & V3). split; [apply V3; intros []|]. split; [exists (vkind v); exact V1|].
    intros d Ha Ht E. destruct (i_cur _ _ _ _ _ _ _ Hi d Ha Ht ltac:(intros [])) as (_ & _ & _ & C4). apply (C4 v). now rewrite E.
  - destruct (i_T _ _ _ _ _ _ _ Hi h Hin) as [T1 T2]. split; [exact T1|]. split; [exact T2|].
    intros d Ha Ht E. destruct (i_cur _ _ _ _ _ _ _ Hi d Ha Ht ltac:(intros [])) as (_ & _ & C3 & _). apply C3. now rewrite E.
Qed.

(* copy constructor *)
Lemma h_copy_spec T G s src k :
  inv [] [] [] T G s -> alive s src = true -> tagof s src = TH k ->
  exists G' s', h_copy fixed src s = Some (nxt s, s') /\ inv [] [] [] (nxt s :: T) G' s' /\
    hptr s' (nxt s) = hptr s src /\ tagof s' (nxt s) = TH k /\ grow s s' /\ vars s' = vars s /\ dus s' = dus s /\
    nxt s' = S (nxt s) /\ ouse s' = ouse s /\ dlog s' = dlog s /\
    (forall x, x <> nxt s -> hptr s' x = hptr s x /\ alive s' x = alive s x).
Proof.
  intros Hi Ha Ht. unfold h_copy. erewrite bind_run by (apply rd_run; exact Ha).
  erewrite bind_run by apply get_run. unfold kind_of at 1. rewrite Ht.
  apply (h_new_spec T G); [exact Hi|]. intros o Ho.
  destruct (target_facts vkind T G s src o k Hi Ha Ht Ho) as (_ & A1 & A2 & A3 & _). tauto.
Qed.

(* operator = *)
Lemma h_assign_spec T G s dst src k :
  inv [] [] [] T G s -> usable T s dst -> tagof s dst = TH k -> alive s src = true -> tagof s src = TH k ->
  exists G' s', h_assign fixed dst src s = Some (tt, s') /\ inv [] [] [] T G' s' /\
    hptr s' dst = hptr s src /\ grow s s' /\ vars s' = vars s /\ dus s' = dus s /\ nxt s' = nxt s /\
    ouse s' = ouse s /\
    (forall x, x <> dst -> hptr s' x = hptr s x \/ hptr s' x = None).
Proof.
  intros Hi Hu Htd Has Hts.
  destruct (usable_facts T G s dst Hi Hu) as (Had & _ & Hnc).
  unfold h_assign. erewrite bind_run by (apply rd_run; exact Has).
  erewrite bind_run by (apply need_run; exact Had).
  destruct (h_set_spec vkind T G s dst k (hptr s src) Hi Had Htd) as
      (G' & s' & Hrun & Hi' & Hp & Hg & Hv & Hn & Hd & _ & Hfr & Hou).
  - intros o Ho. destruct (target_facts vkind T G s src o k Hi Has Hts Ho) as (_ & A1 & A2 & A3 & _). tauto.
  - intros d o Ha Ht E. exfalso. exact (Hnc d Ha Ht E).
  - exists G', s'. split; [exact Hrun|]. split; [exact Hi'|]. exact (conj Hp (conj Hg (conj Hv (conj Hd (conj Hn (conj Hou Hfr)))))).
Qed.

(* the wrapper's destructor up to the deallocation of the wrapper *)
Lemma h_dtor_core T G s h :
  inv [] [] [] T G s -> usable T s h ->
  exists G' s', h_dtor fixed h s = Some (tt, s') /\ inv [h] [] [] (remove Nat.eq_dec h T) G' s' /\
    alive s' h = false /\ grow s s' /\ vars s' = vars s /\ dus s' = dus s /\ nxt s' = nxt s /\ ouse s' = ouse s /\
    (forall x, hptr s' x = hptr s x \/ hptr s' x = None).
Proof.
  intros Hi Hu.
  destruct (usable_facts T G s h Hi Hu) as (Hah & [k Hth] & Hnc).
  unfold h_dtor, run_task.
  destruct (release_spec vkind (fuel_of s) T G s h k Hi Hah Hth (fuel_ok s)) as
      (G1 & s1 & Hex1 & Hi1 & Hsh1 & Hh1 & Hp1 & Hk1).
  erewrite bind_run by exact Hex1. rewrite (kill_run h s1 Hh1).
  pose proof Hsh1 as (E1 & Etag & Eal & Ehp & Evars & Eodev & Egin & Ecur & Euse & Edus & Emoff & Eps & Eoin & Eob).
  exists G1, (set_alive s1 (upd (alive s1) h false)). split; [reflexivity|]. split.
  - change (inv [h] [] (remove Nat.eq_dec h []) (remove Nat.eq_dec h T) G1 (set_alive s1 (upd (alive s1) h false))).
    apply inv_kill; try assumption.
    + eapply exempt_free; [exact Hi1|now left].
    + apply (handle_rings vkind _ _ _ _ _ _ _ Hi1). rewrite Etag. now exists k.
    + intros [k' Hk']. rewrite Etag in Hk'. congruence.
    + intros v _. now left.
    + intros p Hap Hpw E. destruct (i_inner _ _ _ _ _ _ _ Hi1 p h Hap Hpw E) as (_ & _ & Hc & _). rewrite Etag in Hc. congruence.
    + intros d Had Htd _ E. apply (Hnc d); [now apply Eal|rewrite <- Etag; exact Htd|rewrite <- Ecur; exact E].
    + intros o k' Hao Hoh Hto Hk1' Hk2' E.
      destruct (i_dev _ _ _ _ _ _ _ Hi1 o k' Hao Hto Hk1' Hk2') as (d' & Hd1' & _ & Hd3').
      rewrite E in Hd1'. injection Hd1' as <-. rewrite Etag in Hd3'. congruence.
    + intros E. rewrite Etag in E. congruence.
    + intros b E. pose proof (i_inner_tag _ _ _ _ _ _ _ Hi1 h b E) as Hc. rewrite Etag in Hc. congruence.
  - split; [simpl_st; apply upd_same|].
    split; [eapply grow_trans; [apply shrink_grow; exact Hsh1|apply shrink_grow; apply shrink_kill]|].
    simpl_st. repeat split; assumption.
Qed.

End O.
