(* C01 — the wrapper operations (setModeX, copy, assignment, destructor, free, swap) of the
   fixed code preserve the invariant. *)
From Coq Require Import List Arith Bool ZArith Lia Permutation.
From OV.C01 Require Import Model Ring Heap Inv InvPrim InvPrim2 ExecBase Exec Exec2 Exec3 Exec4 Exec5 Exec6 Alloc.
Import ListNotations.

Lemma msum_le_2n s n : msum s n <= 2 * n.
Proof.
  induction n; cbn [msum]; [lia|]. unfold mcell at 1.
  destruct (alive s n); [destruct (hptr s n)|]; lia.
Qed.

Lemma fuel_ok s : measure s + 8 <= fuel_of s.
Proof. unfold fuel_of, measure. pose proof (msum_le_2n s (nxt s)). lia. Qed.

(* what a whole library call may change: cells are only added, tags and creation-time fields of
   existing cells stay *)
Definition grow (s s' : st) : Prop :=
  nxt s <= nxt s' /\
  (forall e, e < nxt s -> tagof s' e = tagof s e) /\
  (forall e, e < nxt s -> alive s' e = true -> alive s e = true) /\
  (forall e, e < nxt s -> odev s' e = odev s e) /\
  (forall e, e < nxt s -> ginner s' e = ginner s e) /\
  (forall e, e < nxt s -> ocur s' e = ocur s e).

Lemma grow_refl s : grow s s.
Proof. unfold grow. repeat split; auto. Qed.

Lemma grow_trans a b c : grow a b -> grow b c -> grow a c.
Proof.
  intros (A1 & A2 & A3 & A4 & A5 & A6) (B1 & B2 & B3 & B4 & B5 & B6). unfold grow.
  split; [lia|]. split; [|split; [|split; [|split]]]; intros e He.
  - rewrite B2 by lia. now apply A2.
  - intros H. apply A3; [exact He|]. apply B3; [lia|exact H].
  - rewrite B4 by lia. now apply A4.
  - rewrite B5 by lia. now apply A5.
  - rewrite B6 by lia. now apply A6.
Qed.

Lemma shrink_grow s s' : shrink s s' -> grow s s'.
Proof.
  intros (A1 & A2 & A3 & A4 & A5 & A6 & A7 & A8 & _). unfold grow. rewrite A1, A2, A6, A7, A8.
  repeat split; auto.
Qed.

Lemma same_obj_grow s s' : same_obj s s' -> grow s s'.
Proof. intros H. apply shrink_grow. now apply same_obj_shrink. Qed.

Section O.
Variable vkind : nat -> kind.
Notation inv := (inv vkind).

Lemma fits_SH_intro k : k <> KBuf -> fits (TH k) (TO k) SH = true.
Proof. intros H. unfold fits. destruct k; try reflexivity. congruence. Qed.

(* setModeX *)
Lemma h_set_spec T G s h k o' :
  inv [] [] [] T G s -> alive s h = true -> tagof s h = TH k ->
  (forall o, o' = Some o -> alive s o = true /\ tagof s o = TO k /\ k <> KBuf) ->
  (forall d o, alive s d = true -> tagof s d = TO KDev -> ocur s d = h -> o' = Some o -> odev s o = Some d) ->
  exists G' s', h_set fixed h o' s = Some (tt, s') /\ inv [] [] [] T G' s' /\ hptr s' h = o' /\
                grow s s' /\ vars s' = vars s /\ nxt s' = nxt s /\ dus s' = dus s /\
                (forall x, alive s x = true -> alive s' x = false ->
                           exists o, hptr s h = Some o /\ (x = o \/ tagof s x <> tagof s o)) /\
                (forall x, x <> h -> hptr s' x = hptr s x \/ hptr s' x = None) /\
                ouse s' = ouse s.
Proof.
  intros Hi Hh Hth Ho' Hcs.
  unfold h_set. erewrite bind_run by (apply rd_run; exact Hh).
  destruct (onat_eqb (hptr s h) o') eqn:Eq.
  - exists G, s. split; [reflexivity|]. split; [exact Hi|]. split.
    { destruct (hptr s h), o'; cbn in Eq; try discriminate; try reflexivity. apply Nat.eqb_eq in Eq. now subst. }
    split; [apply grow_refl|]. repeat split; auto. intros x H1 H2. congruence.
  - unfold run_task.
    destruct (release_spec vkind (fuel_of s) T G s h k Hi Hh Hth (fuel_ok s)) as
        (G1 & s1 & Hex1 & Hi1 & Hsh1 & Hh1 & Hp1 & Hk1).
    erewrite bind_run by exact Hex1.
    erewrite bind_run by (apply wr_hptr_run; exact Hh1).
    set (s2 := set_hptr s1 (upd (hptr s1) h o')).
    pose proof Hsh1 as (E1 & Etag & Eal & Ehp & Evars & Eodev & Egin & Ecur & Euse & Edus & Emoff & Eps & Eoin & Eob).
    assert (Hi2 : inv [h] [] [] T G1 s2).
    { apply inv_set_hptr; [exact Hi1|now left|rewrite Etag; exists k; exact Hth|].
      intros d st Had Htd _ Hc Hv. rewrite Eodev. apply (Hcs d st); try assumption.
      - now apply Eal.
      - rewrite <- Etag. exact Htd.
      - rewrite <- Ecur. exact Hc. }
    assert (Hsh12 : forall x, x <> h -> hptr s2 x = hptr s x \/ hptr s2 x = None).
    { intros x Hx. unfold s2. simpl_st. rewrite upd_other by exact Hx. apply Ehp. }
    destruct o' as [o|].
    + destruct (Ho' o eq_refl) as (Hao & Hto & Hkb).
      assert (Hao1 : alive s1 o = true).
      { destruct (alive s1 o) eqn:E; [reflexivity|]. exfalso.
        destruct (Hk1 o Hao E) as (old & Hold & [Ex|Ex]).
        - subst old. rewrite Hold in Eq. cbn in Eq. rewrite Nat.eqb_refl in Eq. discriminate.
        - destruct (target_facts vkind T G s h old k Hi Hh Hth Hold) as (_ & _ & Htold & _). congruence. }
      assert (Hao2 : alive s2 o = true) by (unfold s2; simpl_st; exact Hao1).
      assert (Hh2 : alive s2 h = true) by (unfold s2; simpl_st; exact Hh1).
      assert (Hfree : free_of G1 h) by (eapply exempt_free; [exact Hi2|now left]).
      destruct (ring_addRef_out s2 G1 o SH h (i_heap _ _ _ _ _ _ _ Hi2) Hao2 Hh2 Hfree) as (s3 & Hrun3 & Hsame3 & Hk3).
      erewrite bind_run by (apply need_run; exact Hao2).
      exists (upd2 G1 o SH (G1 o SH ++ [h])), s3. split; [exact Hrun3|].
      pose proof Hsame3 as (S1 & S2 & S3 & S4 & S5 & S6 & S7 & S8 & S9 & S10 & S11 & S12 & S13 & S14 & S15 & S16 & S17 & S18).
      split.
      { eapply inv_link; try exact Hi2; try eassumption.
        - intros [].
        - unfold home, s2. simpl_st. rewrite Etag, Hth, upd_same. reflexivity.
        - unfold s2. simpl_st. rewrite Etag, Hth, Hto. now apply fits_SH_intro.
        - intros E. discriminate. }
      split; [rewrite S4; unfold s2; simpl_st; apply upd_same|].
      split; [eapply grow_trans; [apply shrink_grow; exact Hsh1|]; eapply grow_trans; [|apply same_obj_grow; exact Hsame3];
              unfold grow, s2; simpl_st; repeat split; auto|].
      split; [rewrite S16; unfold s2; simpl_st; exact Evars|].
      split; [rewrite S1; unfold s2; simpl_st; exact E1|].
      split; [rewrite S18; unfold s2; simpl_st; exact Edus|].
      split; [intros x H1 H2; rewrite S3 in H2; unfold s2 in H2; simpl_st; now apply Hk1|].
      split; [intros x Hx; rewrite S4; now apply Hsh12|].
      rewrite S5. unfold s2. simpl_st. exact Euse.
    + exists G1, s2. split; [reflexivity|]. split.
      { eapply inv_drop_X; [exact Hi2|intros []| |].
        - intros _. unfold home, s2. simpl_st. rewrite Etag, Hth, upd_same. split; [reflexivity|discriminate].
        - intros v _. unfold s2. simpl_st. exact Hh1. }
      split; [unfold s2; simpl_st; apply upd_same|].
      split; [eapply grow_trans; [apply shrink_grow; exact Hsh1|]; unfold grow, s2; simpl_st; repeat split; auto|].
      split; [unfold s2; simpl_st; exact Evars|].
      split; [unfold s2; simpl_st; exact E1|].
      split; [unfold s2; simpl_st; exact Edus|].
      split; [intros x H1 H2; unfold s2 in H2; simpl_st; now apply Hk1|].
      split; [exact Hsh12|]. unfold s2. simpl_st. exact Euse.
Qed.

(* ---------------------------------------------------------------- allocation *)
Definition alloc_st (s : st) (t : tag) : st :=
  set_nxt (set_tagof (set_alive s (upd (alive s) (nxt s) true)) (upd (tagof s) (nxt s) t)) (S (nxt s)).

Lemma alloc_run s t : alloc t s = Some (nxt s, alloc_st s t).
Proof. reflexivity. Qed.

Lemma added_alloc s t : added s (alloc_st s t) (nxt s) t.
Proof.
  constructor; unfold alloc_st; simpl_st; try reflexivity.
  - intros x Hx. rewrite !upd_other by exact Hx. repeat split.
  - apply upd_same.
  - apply upd_same.
Qed.

Lemma added_set_odev s s' e t v : added s s' e t -> added s (set_odev s' (upd (odev s') e v)) e t.
Proof.
  intros [A1 A2 A3 A4 A5 A6 A7 A8 A9 A10 A11 A12 A13 A14 A15 A16]. constructor; simpl_st; try assumption.
  intros x Hx. rewrite upd_other by exact Hx. now apply A14.
Qed.
Lemma added_set_obuf s s' e t v : added s s' e t -> added s (set_obuf s' (upd (obuf s') e v)) e t.
Proof.
  intros [A1 A2 A3 A4 A5 A6 A7 A8 A9 A10 A11 A12 A13 A14 A15 A16]. constructor; simpl_st; try assumption.
  intros x Hx. rewrite upd_other by exact Hx. now apply A14.
Qed.
Lemma added_set_ginner s s' e t v : added s s' e t -> added s (set_ginner s' (upd (ginner s') e v)) e t.
Proof.
  intros [A1 A2 A3 A4 A5 A6 A7 A8 A9 A10 A11 A12 A13 A14 A15 A16]. constructor; simpl_st; try assumption.
  intros x Hx. rewrite upd_other by exact Hx. now apply A14.
Qed.
Lemma added_set_ocur s s' e t v : added s s' e t -> added s (set_ocur s' (upd (ocur s') e v)) e t.
Proof.
  intros [A1 A2 A3 A4 A5 A6 A7 A8 A9 A10 A11 A12 A13 A14 A15 A16]. constructor; simpl_st; try assumption.
  intros x Hx. rewrite upd_other by exact Hx. now apply A14.
Qed.
Lemma added_set_moff s s' e t v : added s s' e t -> added s (set_moff s' v) e t.
Proof. intros [A1 A2 A3 A4 A5 A6 A7 A8 A9 A10 A11 A12 A13 A14 A15 A16]. constructor; simpl_st; assumption. Qed.
Lemma added_set_osize s s' e t v : added s s' e t -> added s (set_osize s' v) e t.
Proof. intros [A1 A2 A3 A4 A5 A6 A7 A8 A9 A10 A11 A12 A13 A14 A15 A16]. constructor; simpl_st; assumption. Qed.

Lemma added_grow s s' e t : added s s' e t -> grow s s'.
Proof.
  intros A. pose proof (ad_e _ _ _ _ A) as Ee. unfold grow. rewrite (ad_nxt _ _ _ _ A).
  split; [lia|]. repeat split; intros x Hx; assert (Hne : x <> e) by lia;
    destruct (ad_other _ _ _ _ A x Hne) as (B1 & B2 & B3 & B4 & B5 & B6); congruence.
Qed.

(* a temporary wrapper *)
Lemma alloc_handle_spec X W D T G s k :
  inv X W D T G s ->
  inv X W D (nxt s :: T) G (alloc_st s (TH k)) /\ hptr (alloc_st s (TH k)) (nxt s) = None.
Proof.
  intros Hi. split.
  - eapply inv_add_cell; [exact Hi|apply added_alloc| | |discriminate].
    + intros k' _. repeat split; try reflexivity.
      * unfold alloc_st. simpl_st. apply (i_fresh _ _ _ _ _ _ _ Hi (nxt s) (le_n _)).
      * now left.
    + intros k' E. discriminate.
  - unfold alloc_st. simpl_st. apply (i_fresh _ _ _ _ _ _ _ Hi (nxt s) (le_n _)).
Qed.

(* setModeX on a wrapper that points nowhere *)
Lemma h_set_fresh X W D T G s h k o :
  inv X W D T G s -> alive s h = true -> tagof s h = TH k -> hptr s h = None -> ~ In h X ->
  alive s o = true -> tagof s o = TO k -> k <> KBuf ->
  (forall d, alive s d = true -> tagof s d = TO KDev -> ~ In d W -> ocur s d = h -> odev s o = Some d) ->
  exists s', h_set fixed h (Some o) s = Some (tt, s') /\
             inv X W D T (upd2 G o SH (G o SH ++ [h])) s' /\
             same_obj (set_hptr s (upd (hptr s) h (Some o))) s'.
Proof.
  intros Hi Hh Hth Hp Hnx Hao Hto Hkb Hcs.
  unfold h_set. erewrite bind_run by (apply rd_run; exact Hh). rewrite Hp. cbn [onat_eqb].
  assert (Hrel : run_task fixed (TRelease h) s = Some (tt, s)).
  { unfold run_task, fuel_of. replace (2 * nxt s + 8) with (S (2 * nxt s + 7)) by lia. cbn [exec].
    erewrite bind_run by (apply rd_run; exact Hh). rewrite Hp. reflexivity. }
  erewrite bind_run by exact Hrel.
  erewrite bind_run by (apply wr_hptr_run; exact Hh).
  set (s2 := set_hptr s (upd (hptr s) h (Some o))).
  assert (Hfree : free_of G h).
  { intros o' sl Hin. destruct (i_mem1 _ _ _ _ _ _ _ Hi _ _ _ Hin) as [Hm _]. unfold home in Hm. rewrite Hth, Hp in Hm. discriminate. }
  assert (Hi2 : inv (h :: X) W D T G s2).
  { apply inv_set_hptr; [apply inv_weaken_X; assumption|now left|exists k; exact Hth|].
    intros d st Had Htd Hdw Hc E. injection E as <-. now apply Hcs. }
  assert (Hao2 : alive s2 o = true) by exact Hao.
  assert (Hh2 : alive s2 h = true) by exact Hh.
  destruct (ring_addRef_out s2 G o SH h (i_heap _ _ _ _ _ _ _ Hi2) Hao2 Hh2 Hfree) as (s3 & Hrun3 & Hsame3 & Hk3).
  erewrite bind_run by (apply need_run; exact Hao2).
  exists s3. split; [exact Hrun3|]. split; [|exact Hsame3].
  eapply inv_link; try exact Hi2; try eassumption.
  - unfold home, s2. simpl_st. rewrite Hth, upd_same. reflexivity.
  - unfold s2. simpl_st. rewrite Hth, Hto. now apply fits_SH_intro.
  - intros E. discriminate.
Qed.

(* an object that has found a keeper needs no waiver any more *)
Lemma inv_unW X W D T G s o :
  inv X (o :: W) D T G s -> ~ In o W ->
  (alive s o = true -> live_ok G s o) ->
  (forall b, alive s o = true -> oinner s o = Some b ->
     tagof s o = TO KPool /\ alive s b = true /\ tagof s b = TO KBuf /\ ginner s b = true /\ odev s b = odev s o) ->
  (alive s o = true -> tagof s o = TO KBuf -> ginner s o = true -> exists p, alive s p = true /\ oinner s p = Some o) ->
  (alive s o = true -> tagof s o = TO KPool -> forall m, In m (G o SMem) -> In m (pres s o)) ->
  (alive s o = true -> tagof s o = TO KDev ->
     alive s (ocur s o) = true /\ tagof s (ocur s o) = TH KStr /\ ~ In (ocur s o) T /\
     (forall v, vars s v <> Some (ocur s o)) /\ (forall st, hptr s (ocur s o) = Some st -> odev s st = Some o)) ->
  (alive s o = true -> tagof s o = TO KPool -> (pres s o <> [] \/ pslots s o <> 0) -> oinner s o <> None) ->
  inv X W D T G s.
Proof.
  intros Hi Hnw Hl Hin Hio Hpr Hc Hpb.
  destruct Hi as [Aheap Amem1 Amem2 Aown Afresh Atag Adead Ainner Aitag Ainj Aiown Agin Apres Adev Abuf Acur Acurinj
                  Ahand Avars Avinj AT ATnd Alive Alognd Alog AD Acs Apb].
  constructor; try assumption.
  - intros p b Ha Hw Hb. destruct (Nat.eq_dec p o) as [->|Hne]; [now apply Hin|].
    apply Ainner; try assumption. intros [E|H]; [congruence|contradiction].
  - intros b Ha Ht Hg Hw. destruct (Nat.eq_dec b o) as [->|Hne]; [now apply Hio|].
    apply Aiown; try assumption. intros [E|H]; [congruence|contradiction].
  - intros p m Ha Ht Hw Hm. destruct (Nat.eq_dec p o) as [->|Hne]; [now apply Hpr|].
    apply Apres; try assumption. intros [E|H]; [congruence|contradiction].
  - intros d Ha Ht Hw. destruct (Nat.eq_dec d o) as [->|Hne].
    + destruct (Hc Ha Ht) as (C1 & C2 & C3 & C4 & C5). tauto.
    + apply Acur; try assumption. intros [E|H]; [congruence|contradiction].
  - intros x k Ha Ht Hw. destruct (Nat.eq_dec x o) as [->|Hne]; [exact (Hl Ha k Ht)|].
    apply Alive; try assumption. intros [E|H]; [congruence|contradiction].
  - intros d st Ha Ht Hw Hp. destruct (Nat.eq_dec d o) as [->|Hne].
    + destruct (Hc Ha Ht) as (C1 & C2 & C3 & C4 & C5). now apply C5.
    + apply Acs; try assumption. intros [E|H]; [congruence|contradiction].
  - intros p Ha Ht Hw. destruct (Nat.eq_dec p o) as [->|Hne]; [now apply Hpb|].
    apply Apb; try assumption. intros [E|H]; [congruence|contradiction].
Qed.

End O.
