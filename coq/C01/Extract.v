(* Extraction of the executable model and specification (ExtrOcamlBasic only; nat and Z stay the
   extracted inductives).  coqc is run from /verif/coq by the Makefile. *)
From Coq Require Import Extraction ExtrOcamlBasic.
From OV.C01 Require Import Model Spec.
Extraction Language OCaml.
Extraction "../_work/extract/C01/model.ml"
  fixed pinned init step ring_list live_count kind_of
  sinit sstep geto count_kind count_buffers dev_bytes.
