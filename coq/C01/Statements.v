(* C01 — the vocabulary of the theorems: what "well formed" means for a heap of the model. *)
From Coq Require Import List Arith Bool ZArith.
From OV.C01 Require Import Model Inv.
Import ListNotations.

(* [home s e] (Inv.v) is the ring the pointer fields of cell e say it belongs to: (o, SH) for a
   wrapper with modeX = o; (b, SMem) for a modeMemory_t with modeBuffer = b; (d, SBuf/SKer/...) for
   a buffer/pool/kernel/stream/tag of device d; none for devices and for a pool's own buffer.
   [ring_list s o sl] (Model.v) is ring sl of object o as walked from its head through
   rightRingEntry. *)

Record Wf (s : st) : Prop := {
  (* every ring holds exactly the live cells whose pointer names its owner, once each *)
  wf_ring_nodup : forall o sl, NoDup (ring_list s o sl);
  wf_ring_exact : forall o sl e, In e (ring_list s o sl) <-> (alive s e = true /\ home s e = Some (o, sl));
  (* no live wrapper points at a destroyed object; the children of a destroyed object are destroyed *)
  wf_owner_alive : forall e o sl, alive s e = true -> home s e = Some (o, sl) -> alive s o = true;
  (* the destructor log lists exactly the destroyed objects, once each *)
  wf_log_nodup : NoDup (dlog s);
  wf_log_exact : forall o, In o (dlog s) <-> (is_obj_tag (tagof s o) /\ alive s o = false)
}.

Definition wrapper (s : st) (h : nat) : Prop := alive s h = true /\ is_h_tag (tagof s h).

(* who keeps object o alive although no variable refers to it *)
Definition kept_alive (s : st) (o : nat) (k : kind) : Prop :=
  match k with
  | KBuf => (exists m, alive s m = true /\ tagof s m = TO KMem /\ obuf s m = Some o) \/
            (exists p, alive s p = true /\ tagof s p = TO KPool /\ oinner s p = Some o)
  | _ => ouse s o = false \/
         (k = KStr /\ exists d, alive s d = true /\ tagof s d = TO KDev /\ hptr s (ocur s d) = Some o)
  end.
