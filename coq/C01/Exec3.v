(* C01 — destructors of buffers, pools, memories (upward), devices. *)
From Coq Require Import List Arith Bool ZArith Lia Permutation.
From OV.C01 Require Import Model Ring Heap Inv InvPrim InvPrim2 ExecBase Exec Exec2.
Import ListNotations.

Section E.
Variable vkind : nat -> kind.
Notation inv := (inv vkind).
Notation exec := (exec fixed).

Lemma inv_set_obytes X W D T G s d v :
  inv X W D T G s -> inv X W D T G (set_obytes s (upd (obytes s) d v)).
Proof.
  intros Hi. eapply inv_irrelevant; try exact Hi; reflexivity.
Qed.

Lemma shrink_obytes s d v : shrink s (set_obytes s (upd (obytes s) d v)).
Proof. unfold shrink. simpl_st. repeat split; auto. Qed.

Lemma buf_rings X W D T G s b :
  inv X W D T G s -> tagof s b = TO KBuf -> forall sl, sl <> SMem -> G b sl = [].
Proof.
  intros Hi Ht sl Hsl. apply nil_if_no_member. intros e Hin.
  pose proof (ring_slot_kind _ _ _ _ _ _ _ _ _ _ _ Hi Hin Ht) as H.
  destruct sl; try congruence; try discriminate.
Qed.

Lemma bind_assoc {A B C} (m : M A) (f : A -> M B) (g : B -> M C) s :
  bind m (fun a => bind (f a) g) s = bind (bind m f) g s.
Proof. unfold bind. destruct (m s) as [[a s1]|]; reflexivity. Qed.

Lemma home_shrink s s' e r : shrink s s' -> home s' e = Some r -> home s e = Some r.
Proof.
  intros (A1 & A2 & A3 & A4 & A5 & A6 & A7 & A8 & A9 & A10 & A11 & A12 & A13 & A14).
  unfold home. rewrite A2, A6, A7. destruct (tagof s e) as [|k|k]; [auto| |].
  - destruct (A4 e) as [-> | ->]; [auto|discriminate].
  - destruct k; auto. destruct (A14 e) as [-> | ->]; [auto|discriminate].
Qed.

(* destructor runs add nothing to any ring *)
Lemma ring_subset X X' W W' D D' T T' G G' s s' :
  inv X W D T G s -> inv X' W' D' T' G' s' -> shrink s s' -> incl X X' ->
  forall e o sl, In e (G' o sl) -> In e (G o sl).
Proof.
  intros Hi Hi' Hsh HX e o sl Hin.
  destruct (member_facts _ _ _ _ _ _ _ _ _ _ Hi' Hin) as (Ha & _ & Hh & Hnx & _).
  apply (i_mem2 _ _ _ _ _ _ _ Hi).
  - destruct Hsh as (_ & _ & A3 & _). now apply A3.
  - intros H. apply Hnx. now apply HX.
  - eapply home_shrink; eassumption.
Qed.

Lemma ring_nil_preserved X X' W W' D D' T T' G G' s s' o sl :
  inv X W D T G s -> inv X' W' D' T' G' s' -> shrink s s' -> incl X X' ->
  G o sl = [] -> G' o sl = [].
Proof.
  intros Hi Hi' Hsh HX Hnil. apply nil_if_no_member. intros e Hin.
  pose proof (ring_subset _ _ _ _ _ _ _ _ _ _ _ _ Hi Hi' Hsh HX e o sl Hin) as H. rewrite Hnil in H. destruct H.
Qed.

Lemma logged_in_D X W D T G s o : inv X W D T G s -> In o D -> In o (dlog s).
Proof.
  intros Hi Hin. apply (i_log _ _ _ _ _ _ _ Hi). destruct (i_D _ _ _ _ _ _ _ Hi o Hin) as [_ Ht]. tauto.
Qed.

(* ~modeBuffer_t of a plain (or pool-internal) buffer *)
Lemma delete_buf f X W D T G s b :
  inv X W D T G s -> alive s b = true -> tagof s b = TO KBuf -> ~ In b D -> In b W ->
  (forall x, In x D -> ~ In x (G b SMem)) ->
  (forall p, alive s p = true -> ~ In p W -> oinner s p <> Some b) ->
  measure s + 4 <= f ->
  exists G' s', exec f (TDelete b) s = Some (tt, s') /\ inv X W D T G' s' /\ alive s' b = false /\
                shrink s s' /\
                (forall x, alive s x = true -> alive s' x = false -> x = b \/ In x (G b SMem)).
Proof.
  intros Hi Hb Ht Hd Hw HD Hinn Hf.
  destruct f as [|f]; [lia|]. cbn [exec].
  destruct (delete_prologue vkind X W D T G s b KBuf Hi Hb Ht Hd) as (R1 & R2 & R3 & Hi1 & Hlog).
  set (s1 := set_dlog s (b :: dlog s)) in *.
  erewrite bind_run by exact R1. erewrite bind_run by apply get_run. rewrite R2. cbv beta iota.
  erewrite bind_run by exact R3.
  assert (Hm1 : measure s1 = measure s) by apply measure_dlog.
  destruct (children_spec vkind (measure s1) f X W (b :: D) T G s1 b) as
      (G2 & s2 & Hex2 & Hi2 & Hnil2 & Hb2 & Hsh2 & Hk2); try assumption; try lia.
  { intros x [<-|Hx] Hx2; [|exact (HD x Hx Hx2)].
    destruct (i_own _ _ _ _ _ _ _ Hi _ _ _ Hx2) as [_ Hfit]. apply fits_SMem in Hfit as [Hc _]. congruence. }
  pose proof Hsh2 as (E1 & Etag & Eal & Ehp & Evars & Eodev & Egin & Ecur & Euse & Edus & Emoff & Eps & Eoin & Eob).
  assert (Ht2 : tagof s2 b = TO KBuf) by (rewrite Etag; exact Ht).
  destruct (i_dev _ _ _ _ _ _ _ Hi2 b KBuf Hb2 Ht2 ltac:(discriminate) ltac:(discriminate)) as (d & Hd1 & Hd2 & Hd3).
  assert (Hbd : b <> d) by (intros ->; congruence).
  set (s3 := set_obytes s2 (upd (obytes s2) d (obytes s2 d - osize s2 b)%Z)).
  assert (Hi3 : inv X W (b :: D) T G2 s3) by (apply inv_set_obytes; exact Hi2).
  assert (Hcase : In b (G2 d SBuf) \/ free_of G2 b).
  { destruct (in_dec Nat.eq_dec b X) as [Hx|Hx]; [right; eapply exempt_free; eassumption|].
    destruct (ginner s2 b) eqn:Eg.
    - right. intros o' sl' Hin. destruct (i_mem1 _ _ _ _ _ _ _ Hi2 _ _ _ Hin) as [Hh _].
      unfold home in Hh. rewrite Ht2, Eg in Hh. discriminate.
    - left. apply (i_mem2 _ _ _ _ _ _ _ Hi2); try assumption.
      unfold home. now rewrite Ht2, Eg, Hd1. }
  destruct (detach_dev vkind X W (b :: D) T G2 s3 b d SBuf Hi3) as (s4 & G4 & Hrun4 & Hsame4 & Hi4 & HG4);
    try assumption; try discriminate.
  pose proof Hsame4 as (S1 & S2 & S3 & S4 & S5 & S6 & S7 & S8 & S9 & S10 & S11 & S12 & S13 & S14 & S15 & S16 & S17 & S18).
  assert (Hb4 : alive s4 b = true) by (rewrite S3; exact Hb2).
  assert (Hbody : (ret tt;;; exec f (TChildren b);;; d0 <- rd odev b;;
            match d0 with
            | Some d1 => sz <- rd osize b;; bt <- rd obytes d1;; wr_obytes d1 (bt - sz)%Z;;; ring_removeRef d1 SBuf b
            | None => ret tt end) s1 = Some (tt, s4)).
  { erewrite bind_run by reflexivity. erewrite bind_run by exact Hex2.
    erewrite bind_run by (apply rd_run; exact Hb2). rewrite Hd1.
    erewrite bind_run by (apply rd_run; exact Hb2). erewrite bind_run by (apply rd_run; exact Hd2).
    erewrite bind_run by (apply wr_obytes_run; exact Hd2). exact Hrun4. }
  erewrite bind_run by exact Hbody.
  rewrite (kill_run b s4 Hb4).
  assert (Ht4 : tagof s4 b = TO KBuf) by (rewrite S2; exact Ht2).
  exists G4, (set_alive s4 (upd (alive s4) b false)). split; [reflexivity|]. split; [|split; [|split]].
  - eapply kill_obj; try exact Hi4.
    + now right.
    + exact Hb4.
    + exists KBuf. exact Ht4.
    + exact Hd.
    + eapply exempt_free; [exact Hi4|now left].
    + intros sl. rewrite HG4. destruct sl; try (eapply buf_rings; try eassumption; discriminate). exact Hnil2.
    + eapply logged_in_D; [exact Hi4|now left].
    + intros p Hap Hpw E. apply (Hinn p); [|exact Hpw|].
      * apply Eal. rewrite S3 in Hap. exact Hap.
      * rewrite S8 in E. unfold s3 in E. simpl_st. rewrite Eoin in E. exact E.
    + intros x k' Hax Hxb Htx Hk1' Hk2' E.
      destruct (i_dev _ _ _ _ _ _ _ Hi4 x k' Hax Htx Hk1' Hk2') as (d' & Hd1' & _ & Hd3').
      rewrite E in Hd1'. injection Hd1' as <-. congruence.
    + intros E. congruence.
    + intros b0 E. pose proof (i_inner_tag _ _ _ _ _ _ _ Hi4 b b0 E). congruence.
  - simpl_st. apply upd_same.
  - eapply shrink_trans; [apply (shrink_dlog s (b :: dlog s))|].
    eapply shrink_trans; [exact Hsh2|].
    eapply shrink_trans; [apply shrink_obytes|].
    eapply shrink_trans; [apply same_obj_shrink; exact Hsame4|apply shrink_kill].
  - intros x Hx1 Hx2. simpl_st. destruct (Nat.eq_dec x b) as [->|Hne]; [now left|]. right.
    rewrite upd_other in Hx2 by exact Hne. rewrite S3 in Hx2. unfold s3 in Hx2. simpl_st.
    apply Hk2; [exact Hx1|exact Hx2].
Qed.

Lemma pool_rings X W D T G s p :
  inv X W D T G s -> tagof s p = TO KPool -> forall sl, sl <> SMem -> sl <> SH -> G p sl = [].
Proof.
  intros Hi Ht sl Hsl Hsl2. apply nil_if_no_member. intros e Hin.
  pose proof (ring_slot_kind _ _ _ _ _ _ _ _ _ _ _ Hi Hin Ht) as H.
  destruct sl; try congruence; try discriminate.
Qed.

Lemma inv_set_osize X W D T G s d v :
  inv X W D T G s -> inv X W D T G (set_osize s (upd (osize s) d v)).
Proof.
  intros Hi. eapply inv_irrelevant; try exact Hi; reflexivity.
Qed.

Lemma shrink_osize s d v : shrink s (set_osize s (upd (osize s) d v)).
Proof. unfold shrink. simpl_st. repeat split; auto. Qed.

(* ~modeMemoryPool_t *)
Lemma delete_pool f X W D T G s p :
  inv X W D T G s -> alive s p = true -> tagof s p = TO KPool -> ~ In p D -> In p W ->
  (forall x, In x D -> tagof s x <> TO KMem /\ tagof s x <> TO KBuf) ->
  (forall ib, oinner s p = Some ib -> alive s ib = true /\ tagof s ib = TO KBuf /\ ginner s ib = true) ->
  measure s + 5 <= f ->
  exists G' s', exec f (TDelete p) s = Some (tt, s') /\ inv X W D T G' s' /\ alive s' p = false /\
                shrink s s' /\
                (forall x, alive s x = true -> alive s' x = false ->
                           x = p \/ oinner s p = Some x \/ In x (G p SMem)).
Proof.
  intros Hi Hp Ht Hd Hw HD Hib Hf.
  destruct f as [|f]; [lia|]. cbn [exec].
  destruct (delete_prologue vkind X W D T G s p KPool Hi Hp Ht Hd) as (R1 & R2 & R3 & Hi1 & Hlog).
  set (s1 := set_dlog s (p :: dlog s)) in *.
  erewrite bind_run by exact R1. erewrite bind_run by apply get_run. rewrite R2. cbv beta iota.
  erewrite bind_run by exact R3.
  assert (Hm1 : measure s1 = measure s) by apply measure_dlog.
  assert (Hsh01 : shrink s s1) by apply shrink_dlog.
  (* NULL all wrappers *)
  destruct (null_spec vkind (length (G p SH)) f X W (p :: D) T G s1 p eq_refl) as
      (s2 & Hex2 & Hi2 & Hsh2 & Hal2 & Hob2 & Hoi2 & Hdl2 & Hpr2); try assumption.
  { pose proof (ring_len_measure vkind _ _ _ _ _ _ p SH Hi1) as H. lia. }
  set (G2 := upd2 G p SH []) in *.
  assert (Hp2 : alive s2 p = true) by (rewrite Hal2; exact Hp).
  pose proof Hsh2 as (E1 & Etag & _ & _ & _ & Eodev & Egin & _).
  assert (Ht2 : tagof s2 p = TO KPool) by (rewrite Etag; exact Ht).
  assert (Hm2 : measure s2 <= measure s) by (rewrite <- Hm1; now apply shrink_measure).
  (* the pool's own buffer *)
  assert (Hstep3 : exists G3 s3,
     (ib <- rd oinner p;; match ib with Some ib0 => exec f (TDelete ib0) | None => ret tt end) s2 = Some (tt, s3) /\
     inv X W (p :: D) T G3 s3 /\ shrink s2 s3 /\ alive s3 p = true /\
     (forall x, alive s2 x = true -> alive s3 x = false -> oinner s p = Some x) /\
     (forall b, oinner s p = Some b -> alive s3 b = false)).
  { erewrite bind_run by (apply rd_run; exact Hp2). rewrite Hoi2. unfold s1. simpl_st.
    destruct (oinner s p) as [ib|] eqn:Eib.
    - destruct (Hib ib eq_refl) as (Ha & Htb & Hg).
      assert (Ha2 : alive s2 ib = true) by (rewrite Hal2; exact Ha).
      assert (Htb2 : tagof s2 ib = TO KBuf) by (rewrite Etag; exact Htb).
      assert (Hg2 : ginner s2 ib = true) by (rewrite Egin; exact Hg).
      assert (Hpib : p <> ib) by (intros ->; congruence).
      destruct (delete_buf f X (ib :: W) (p :: D) T G2 s2 ib) as (G3 & s3 & Hex3 & Hi3 & Hd3 & Hsh3 & Hk3).
      + apply inv_weaken_W. exact Hi2.
      + exact Ha2.
      + exact Htb2.
      + intros [E|H]; [congruence|]. destruct (HD ib H) as [_ Hn]. congruence.
      + now left.
      + intros x Hx Hx2. rewrite (proj2 (i_ginner _ _ _ _ _ _ _ Hi2 ib Hg2)) in Hx2. destruct Hx2.
      + intros p' Hap' Hw' E. apply Hw'. right.
        assert (p' = p); [|subst; exact Hw].
        apply (i_inner_inj _ _ _ _ _ _ _ Hi2 p' p ib Hap' Hp2 E). rewrite Hoi2. unfold s1. simpl_st. exact Eib.
      + lia.
      + exists G3, s3. split; [exact Hex3|].
        assert (Hnil : G2 ib SMem = []) by (apply (i_ginner _ _ _ _ _ _ _ Hi2 ib Hg2)).
        assert (Honly : forall x, alive s2 x = true -> alive s3 x = false -> x = ib).
        { intros x H1 H2. destruct (Hk3 x H1 H2) as [E2|E2]; [exact E2|]. rewrite Hnil in E2. destruct E2. }
        assert (Hp3 : alive s3 p = true).
        { destruct (alive s3 p) eqn:E; [reflexivity|]. exfalso. apply Hpib. now apply Honly. }
        split; [eapply inv_unW_dead; eassumption|]. split; [exact Hsh3|]. split; [exact Hp3|]. split.
        * intros x H1 H2. f_equal. symmetry. now apply Honly.
        * intros b Eb. injection Eb as <-. exact Hd3.
    - exists G2, s2. split; [reflexivity|]. split; [exact Hi2|]. split; [apply shrink_refl|]. split; [exact Hp2|].
      split; [intros x H1 H2; congruence|]. intros b Hb. discriminate. }
  destruct Hstep3 as (G3 & s3 & Hex3 & Hi3 & Hsh3 & Hp3 & Hk3 & Hibdead).
  (* size = 0 *)
  set (s4 := set_osize s3 (upd (osize s3) p 0%Z)).
  assert (Hi4 : inv X W (p :: D) T G3 s4) by (apply inv_set_osize; exact Hi3).
  assert (Hsh34 : shrink s3 s4) by apply shrink_osize.
  assert (Hsh04 : shrink s s4).
  { eapply shrink_trans; [exact Hsh01|]. eapply shrink_trans; [exact Hsh2|]. eapply shrink_trans; eassumption. }
  assert (Hm4 : measure s4 <= measure s) by (now apply shrink_measure).
  (* slices *)
  destruct (children_spec vkind (measure s4) f X W (p :: D) T G3 s4 p) as
      (G5 & s5 & Hex5 & Hi5 & Hnil5 & Hp5 & Hsh5 & Hk5); try assumption; try lia.
  { intros x Hx Hx2. destruct (i_own _ _ _ _ _ _ _ Hi4 _ _ _ Hx2) as [_ Hfit]. apply fits_SMem in Hfit as [Hc _].
    destruct Hsh04 as (_ & E & _). rewrite E in Hc. destruct Hx as [<-|Hx]; [congruence|].
    destruct (HD x Hx). congruence. }
  assert (Hsh05 : shrink s s5) by (eapply shrink_trans; eassumption).
  pose proof Hsh05 as (F1 & Ftag & Fal & Fhp & Fvars & Fodev & Fgin & Fcur & Fuse & Fdus & Fmoff & Fps & Foin & Fob).
  assert (Ht5 : tagof s5 p = TO KPool) by (rewrite Ftag; exact Ht).
  destruct (i_dev _ _ _ _ _ _ _ Hi5 p KPool Hp5 Ht5 ltac:(discriminate) ltac:(discriminate)) as (d & Hd1 & Hd2 & Hd3).
  assert (Hpd : p <> d) by (intros ->; congruence).
  set (s6 := set_obytes s5 (upd (obytes s5) d (obytes s5 d - osize s5 p)%Z)).
  assert (Hi6 : inv X W (p :: D) T G5 s6) by (apply inv_set_obytes; exact Hi5).
  assert (Hcase : In p (G5 d SBuf) \/ free_of G5 p).
  { destruct (in_dec Nat.eq_dec p X) as [Hx|Hx]; [right; eapply exempt_free; eassumption|].
    left. apply (i_mem2 _ _ _ _ _ _ _ Hi5); try assumption. unfold home. now rewrite Ht5, Hd1. }
  destruct (detach_dev vkind X W (p :: D) T G5 s6 p d SBuf Hi6) as (s7 & G7 & Hrun7 & Hsame7 & Hi7 & HG7);
    try assumption; try discriminate.
  pose proof Hsame7 as (S1 & S2 & S3 & S4 & S5 & S6 & S7 & S8 & S9 & S10 & S11 & S12 & S13 & S14 & S15 & S16 & S17 & S18).
  assert (Hp7 : alive s7 p = true) by (rewrite S3; exact Hp5).
  assert (Hbody : ((exec f (TNull p);;; ib <- rd oinner p;;
                     match ib with Some ib0 => exec f (TDelete ib0) | None => ret tt end;;; wr_osize p 0%Z);;;
            exec f (TChildren p);;; d0 <- rd odev p;;
            match d0 with
            | Some d1 => sz <- rd osize p;; bt <- rd obytes d1;; wr_obytes d1 (bt - sz)%Z;;; ring_removeRef d1 SBuf p
            | None => ret tt end) s1 = Some (tt, s7)).
  { assert (Hpre : (exec f (TNull p);;; ib <- rd oinner p;;
                     match ib with Some ib0 => exec f (TDelete ib0) | None => ret tt end;;; wr_osize p 0%Z) s1
                   = Some (tt, s4)).
    { erewrite bind_run by exact Hex2. rewrite bind_assoc. erewrite bind_run by exact Hex3. apply wr_osize_run. exact Hp3. }
    erewrite bind_run by exact Hpre. erewrite bind_run by exact Hex5.
    erewrite bind_run by (apply rd_run; exact Hp5). rewrite Hd1.
    erewrite bind_run by (apply rd_run; exact Hp5). erewrite bind_run by (apply rd_run; exact Hd2).
    erewrite bind_run by (apply wr_obytes_run; exact Hd2). exact Hrun7. }
  erewrite bind_run by exact Hbody.
  rewrite (kill_run p s7 Hp7).
  assert (Ht7 : tagof s7 p = TO KPool) by (rewrite S2; exact Ht5).
  assert (HSH5 : G5 p SH = []).
  { assert (H3 : G3 p SH = []).
    { eapply ring_nil_preserved; [exact Hi2|exact Hi3|exact Hsh3|apply incl_refl|]. apply upd2_same. }
    eapply ring_nil_preserved; [exact Hi3|exact Hi5| |apply incl_refl|exact H3].
    exact (shrink_trans _ _ _ Hsh34 Hsh5). }
  exists G7, (set_alive s7 (upd (alive s7) p false)). split; [reflexivity|]. split; [|split; [|split]].
  - eapply kill_obj; try exact Hi7.
    + now right.
    + exact Hp7.
    + exists KPool. exact Ht7.
    + exact Hd.
    + eapply exempt_free; [exact Hi7|now left].
    + intros sl. rewrite HG7. destruct sl; try (eapply pool_rings; try eassumption; discriminate); assumption.
    + eapply logged_in_D; [exact Hi7|now left].
    + intros p' Hap' Hpw E. destruct (i_inner _ _ _ _ _ _ _ Hi7 p' p Hap' Hpw E) as (_ & _ & Hc & _). congruence.
    + intros x k' Hax Hxb Htx Hk1' Hk2' E.
      destruct (i_dev _ _ _ _ _ _ _ Hi7 x k' Hax Htx Hk1' Hk2') as (d' & Hd1' & _ & Hd3').
      rewrite E in Hd1'. injection Hd1' as <-. congruence.
    + intros E. congruence.
    + intros b0 E Hab. exfalso. rewrite S8 in E. unfold s6 in E. simpl_st. rewrite Foin in E.
      rewrite S3 in Hab. unfold s6 in Hab. simpl_st.
      assert (alive s3 b0 = false) by (now apply Hibdead).
      destruct Hsh5 as (_ & _ & A3 & _). destruct Hsh34 as (_ & _ & B3 & _).
      rewrite (B3 b0 (A3 b0 Hab)) in H. discriminate.
  - simpl_st. apply upd_same.
  - eapply shrink_trans; [exact Hsh05|].
    eapply shrink_trans; [apply shrink_obytes|].
    eapply shrink_trans; [apply same_obj_shrink; exact Hsame7|apply shrink_kill].
  - intros x Hx1 Hx2. simpl_st. destruct (Nat.eq_dec x p) as [->|Hne]; [now left|]. right.
    rewrite upd_other in Hx2 by exact Hne. rewrite S3 in Hx2. unfold s6 in Hx2. simpl_st.
    destruct (alive s4 x) eqn:E4.
    + right. specialize (Hk5 x E4 Hx2).
      assert (Hsub : In x (G2 p SMem)).
      { eapply ring_subset; [exact Hi2|exact Hi4|eapply shrink_trans; eassumption|apply incl_refl|exact Hk5]. }
      unfold G2 in Hsub. rewrite upd2_other in Hsub by (right; discriminate). exact Hsub.
    + left. unfold s4 in E4. simpl_st. apply Hk3; [|exact E4]. rewrite Hal2. unfold s1. simpl_st. exact Hx1.
Qed.

End E.
