(* C01 — pool slices and reserve. *)
From Coq Require Import List Arith Bool ZArith Lia Permutation.
From OV.C01 Require Import Model Ring Heap Inv InvPrim InvPrim2 ExecBase Exec Exec2 Exec3 Exec4 Exec5 Exec6 Alloc Ops Ops2 Ops3 Ops4 Create Create2 Pool.
Import ListNotations.

Lemma insert_sorted_In off m l x : In x (insert_sorted off m l) <-> x = m \/ In x l.
Proof.
  induction l as [|a l IH]; cbn [insert_sorted].
  - cbn. split; [intros [E|[]]; left; now symmetry|intros [E|[]]; left; now symmetry].
  - destruct (Nat.ltb (off m) (off a)).
    + cbn [In]. split; [intros [E|H]; [left; now symmetry|now right]|intros [E|H]; [left; now symmetry|now right]].
    + cbn [In]. rewrite IH. tauto.
Qed.

Section P.
Variable vkind : nat -> kind.
Notation inv := (inv vkind).

(* serial::memoryPool::slice *)
Lemma pool_slice_spec T G s p off :
  inv [] [] [] T G s -> alive s p = true -> tagof s p = TO KPool -> oinner s p <> None ->
  exists G' s', pool_slice p off s = Some (nxt s, s') /\ inv [] [nxt s] [] T G' s' /\
    alive s' (nxt s) = true /\ tagof s' (nxt s) = TO KMem /\ oinner s' (nxt s) = None /\
    grow s s' /\ vars s' = vars s /\ dus s' = dus s /\ hptr s' = hptr s /\ ouse s' = ouse s /\ nxt s' = S (nxt s) /\
    obytes s' = obytes s /\ odev s' = odev s.
Proof.
  intros Hi Hp Ht Hoi. unfold pool_slice. rewrite (bind_run _ _ _ _ _ (alloc_run s (TO KMem))).
  set (m := nxt s).
  unfold set_field_obuf at 1. unfold modify at 1. cbn [bind]. unfold modify at 1. cbn [bind].
  set (s2 := set_moff (set_obuf (alloc_st s (TO KMem)) (upd (obuf (alloc_st s (TO KMem))) m (Some p)))
                      (upd (moff (set_obuf (alloc_st s (TO KMem)) (upd (obuf (alloc_st s (TO KMem))) m (Some p)))) m off)).
  assert (A : added s s2 m (TO KMem)) by (apply added_set_moff; apply added_set_obuf; apply added_alloc).
  assert (Hpm : p <> m) by (intros ->; destruct (i_fresh _ _ _ _ _ _ _ Hi (nxt s) (le_n _)) as (F & _); unfold m in Hp; congruence).
  assert (Hiw : inv [] [p] [] T G s) by (apply inv_incl_W with (W := []); [exact Hi|intros x []]).
  assert (Hi2 : inv [m] [m; p] [] T G s2).
  { eapply inv_add_cell; [exact Hiw|exact A| | |discriminate].
    - intros k' E. discriminate.
    - intros k' E. injection E as <-. repeat split; try reflexivity; try congruence.
      intros Hg. exfalso. unfold s2, alloc_st, m in Hg. simpl_st.
      destruct (i_fresh _ _ _ _ _ _ _ Hi (nxt s) (le_n _)) as (_ & _ & _ & _ & _ & _ & _ & _ & _ & F). congruence. }
  destruct (ad_other _ _ _ _ A p Hpm) as (B1 & B2 & B3 & B4 & B5 & B6).
  assert (Hp2 : alive s2 p = true) by (rewrite B2; exact Hp).
  assert (Hm2 : alive s2 m = true) by (apply (ad_alive _ _ _ _ A)).
  assert (Hfree : free_of G m) by (eapply exempt_free; [exact Hi2|now left]).
  destruct (ring_addRef_out s2 G p SMem m (i_heap _ _ _ _ _ _ _ Hi2) Hp2 Hm2 Hfree) as (s3 & Hrun & Hsame & Hk3).
  erewrite bind_run by (apply need_run; exact Hp2).
  erewrite bind_run by exact Hrun.
  pose proof Hsame as (S1 & S2 & S3 & S4 & S5 & S6 & S7 & S8 & S9 & S10 & S11 & S12 & S13 & S14 & S15 & S16 & S17 & S18).
  set (G3 := upd2 G p SMem (G p SMem ++ [m])) in *.
  assert (Hgp : ginner s p = false).
  { destruct (ginner s p) eqn:E; [|reflexivity]. destruct (i_ginner _ _ _ _ _ _ _ Hi p E) as [Hc _]. congruence. }
  assert (Hi3 : inv [] [m; p] [] T G3 s3).
  { eapply inv_link; try exact Hi2; try eassumption.
    - intros [].
    - unfold home. rewrite (ad_tag _ _ _ _ A). unfold s2. simpl_st. rewrite upd_same. reflexivity.
    - rewrite (ad_tag _ _ _ _ A), B1, Ht. reflexivity.
    - intros _. rewrite B5. split; [exact Hgp|]. intros _ Hc. exfalso. apply Hc. right. now left. }
  assert (Hp3 : alive s3 p = true) by (rewrite S3; exact Hp2).
  erewrite bind_run by (apply rd_run; exact Hp3).
  erewrite bind_run by apply get_run.
  erewrite bind_run by (apply wr_pres_run; exact Hp3).
  set (l := insert_sorted (moff s3) m (pres s3 p)).
  set (s4 := set_pres s3 (upd (pres s3) p l)).
  assert (Hpres_old : forall x, In x (G p SMem) -> In x (pres s p)).
  { intros x. apply (i_pres _ _ _ _ _ _ _ Hi p x Hp Ht ltac:(intros [])). }
  assert (Hpres4 : forall x, In x (G3 p SMem) -> In x l).
  { intros x Hx. unfold G3 in Hx. rewrite upd2_same in Hx. unfold l. apply insert_sorted_In.
    apply in_app_or in Hx. destruct Hx as [Hx|[<-|[]]]; [right|now left].
    rewrite S12, (ad_pres _ _ _ _ A). now apply Hpres_old. }
  assert (Hi4 : inv [] [m; p] [] T G3 s4).
  { apply inv_set_pres; [exact Hi3|exact Hp3|exact Hpres4|]. intros _ Hc. exfalso. apply Hc. right. now left. }
  assert (Hi4' : inv [] [m] [] T G3 s4).
  { apply (inv_unW vkind [] [m] [] T G3 s4 p).
    - apply inv_incl_W with (W := [m; p]); [exact Hi4|]. intros x [<-|[<-|[]]]; [right; now left|now left].
    - intros [E|[]]. congruence.
    - intros _ k Hk. unfold s4 in Hk. simpl_st. rewrite S2, B1, Ht in Hk. injection Hk as <-.
      unfold s4. simpl_st. rewrite S5, (ad_ouse _ _ _ _ A). unfold G3. rewrite upd2_other by (right; discriminate).
      apply (i_live _ _ _ _ _ _ _ Hi p KPool Hp Ht ltac:(intros [])).
    - intros b _ Hb. unfold s4 in Hb |- *. simpl_st. rewrite S8, (ad_oinner _ _ _ _ A) in Hb.
      destruct (i_inner _ _ _ _ _ _ _ Hi p b Hp ltac:(intros []) Hb) as (I1 & I2 & I3 & I4 & I5).
      assert (Hbm : b <> m) by (intros ->; destruct (i_fresh _ _ _ _ _ _ _ Hi (nxt s) (le_n _)) as (F & _); unfold m in I2; congruence).
      destruct (ad_other _ _ _ _ A b Hbm) as (C1 & C2 & C3 & C4 & C5 & C6).
      rewrite S2, S3, S15, S6, B1, C2, C1, C5, C3, B3. tauto.
    - intros _ Hc. unfold s4 in Hc. simpl_st. rewrite S2, B1 in Hc. congruence.
    - intros _ _ x Hx. unfold s4. simpl_st. rewrite upd_same. now apply Hpres4.
    - intros _ Hc. unfold s4 in Hc. simpl_st. rewrite S2, B1 in Hc. congruence.
    - intros _ _ _. unfold s4. simpl_st. rewrite S8, (ad_oinner _ _ _ _ A). exact Hoi. }
  eexists G3, s4. split; [reflexivity|]. split; [exact Hi4'|].
  unfold s4. simpl_st.
  split; [rewrite S3; exact Hm2|]. split; [rewrite S2; apply (ad_tag _ _ _ _ A)|].
  split; [rewrite S8, (ad_oinner _ _ _ _ A); apply (i_fresh _ _ _ _ _ _ _ Hi (nxt s) (le_n _))|].
  split.
  { eapply grow_trans; [eapply added_grow; exact A|]. eapply grow_trans; [apply same_obj_grow; exact Hsame|].
    unfold grow. simpl_st. repeat split; auto. }
  rewrite S16, S18, S4, S5, S1, S11, S6, (ad_vars _ _ _ _ A), (ad_dus _ _ _ _ A), (ad_hptr _ _ _ _ A), (ad_ouse _ _ _ _ A), (ad_nxt _ _ _ _ A).
  repeat split; try reflexivity.
Qed.

(* modeMemoryPool_t::reserve (one alignment unit) *)
Lemma pool_reserve_spec T G s p :
  inv [] [] [] T G s -> alive s p = true -> tagof s p = TO KPool ->
  exists m G' s', pool_reserve fixed p s = Some (m, s') /\ inv [] [m] [] T G' s' /\
    alive s' m = true /\ tagof s' m = TO KMem /\ oinner s' m = None /\ nxt s' = S m /\ nxt s <= m /\
    grow s s' /\ vars s' = vars s /\ dus s' = dus s /\ hptr s' = hptr s /\ ouse s' = ouse s.
Proof.
  intros Hi Hp Ht. unfold pool_reserve.
  erewrite bind_run by (apply rd_run; exact Hp).
  erewrite bind_run by (apply rd_run; exact Hp).
  assert (Hdirect : forall off, oinner s p <> None ->
     exists m G' s', pool_slice p off s = Some (m, s') /\ inv [] [m] [] T G' s' /\
       alive s' m = true /\ tagof s' m = TO KMem /\ oinner s' m = None /\ nxt s' = S m /\ nxt s <= m /\
       grow s s' /\ vars s' = vars s /\ dus s' = dus s /\ hptr s' = hptr s /\ ouse s' = ouse s).
  { intros off Hoi.
    destruct (pool_slice_spec T G s p off Hi Hp Ht Hoi) as (G' & s' & R & Hi' & A1 & A2 & A3 & A4 & A5 & A6 & A7 & A8 & A9 & _).
    exists (nxt s), G', s'. split; [exact R|]. split; [exact Hi'|].
    exact (conj A1 (conj A2 (conj A3 (conj A9 (conj (le_n _) (conj A4 (conj A5 (conj A6 (conj A7 A8))))))))). }
  assert (Hresized : forall n, n <> 0 ->
     exists m G' s', (pool_resize fixed p n;;; pool_slice p (length (pres s p))) s = Some (m, s') /\ inv [] [m] [] T G' s' /\
       alive s' m = true /\ tagof s' m = TO KMem /\ oinner s' m = None /\ nxt s' = S m /\ nxt s <= m /\
       grow s s' /\ vars s' = vars s /\ dus s' = dus s /\ hptr s' = hptr s /\ ouse s' = ouse s).
  { intros n Hn.
    destruct (resize_spec vkind T G s p n Hi Hp Ht Hn) as (s1 & R1 & Hi1 & Hp1 & Ht1 & Ho1 & Hs1 & Hfr1).
    destruct Hfr1 as (F1 & F2 & F3 & F4 & F5 & F6 & F7).
    destruct (pool_slice_spec T G s1 p (length (pres s p)) Hi1 Hp1 Ht1 Ho1) as
        (G' & s' & R & Hi' & A1 & A2 & A3 & A4 & A5 & A6 & A7 & A8 & A9 & _).
    exists (nxt s1), G', s'. split; [erewrite bind_run by exact R1; exact R|]. split; [exact Hi'|].
    split; [exact A1|]. split; [exact A2|]. split; [exact A3|]. split; [exact A9|]. split; [lia|].
    split; [eapply grow_trans; eassumption|]. split; [congruence|]. split; [congruence|]. split; congruence. }
  destruct (Nat.ltb_spec (pslots s p) (length (pres s p) + 1)) as [Hlt|Hge].
  - apply Hresized. lia.
  - destruct (pres s p) as [|m0 res] eqn:Eres.
    + apply Hdirect. apply (i_pool_buf _ _ _ _ _ _ _ Hi p Hp Ht ltac:(intros [])). right. cbn in Hge. lia.
    + erewrite bind_run by apply get_run.
      assert (Hoi : oinner s p <> None).
      { apply (i_pool_buf _ _ _ _ _ _ _ Hi p Hp Ht ltac:(intros [])). left. rewrite Eres. discriminate. }
      destruct (Nat.leb (first_gap (moff s) (m0 :: res) 0 + 1) (pslots s p)).
      * apply Hdirect. exact Hoi.
      * apply Hresized. cbn. lia.
Qed.

End P.
