(* C01 — device::device(props): setModeDevice(newModeDevice(...)); setStream(createStream()). *)
From Coq Require Import List Arith Bool ZArith Lia Permutation.
From OV.C01 Require Import Model Ring Heap Inv InvPrim InvPrim2 ExecBase Exec Exec2 Exec3 Exec4 Exec5 Exec6 Alloc Ops Ops2 Ops3 Ops4 Create Create2.
Import ListNotations.

Section D.
Variable vkind : nat -> kind.
Notation inv := (inv vkind).

(* the modeDevice_t with its embedded currentStream wrapper *)
Definition dev_cells (s1 : st) : st :=
  set_ocur (alloc_st (alloc_st s1 (TO KDev)) (TH KStr))
           (upd (ocur (alloc_st (alloc_st s1 (TO KDev)) (TH KStr))) (nxt s1) (S (nxt s1))).

Definition dev_cell_only (s1 : st) : st :=
  set_ocur (alloc_st s1 (TO KDev)) (upd (ocur (alloc_st s1 (TO KDev))) (nxt s1) (S (nxt s1))).

Lemma added_dev s1 : added s1 (dev_cell_only s1) (nxt s1) (TO KDev).
Proof. apply added_set_ocur. apply added_alloc. Qed.

Lemma added_cur s1 : added (dev_cell_only s1) (dev_cells s1) (S (nxt s1)) (TH KStr).
Proof.
  constructor; unfold dev_cells, dev_cell_only, alloc_st; simpl_st; try reflexivity.
  - intros x Hx. rewrite !(upd_other _ (S (nxt s1))) by exact Hx. repeat split.
  - apply upd_same.
  - apply upd_same.
Qed.

Lemma dev_cells_spec T G s1 :
  inv [] [] [] T G s1 ->
  inv [] [nxt s1] [] T G (dev_cells s1).
Proof.
  intros Hi. set (d := nxt s1).
  assert (Hi2 : inv [d] [d] [] T G (dev_cell_only s1)).
  { eapply inv_add_cell; [exact Hi|apply added_dev| | |discriminate].
    - intros k E. discriminate.
    - intros k E. injection E as <-. repeat split; try reflexivity; try congruence.
      + intros Hg. exfalso. unfold dev_cell_only, alloc_st in Hg. simpl_st.
        destruct (i_fresh _ _ _ _ _ _ _ Hi (nxt s1) (le_n _)) as (_ & _ & _ & _ & _ & _ & _ & _ & _ & F). congruence.
      + intros _ d' Ha' Ht' E.
        destruct (i_cur _ _ _ _ _ _ _ Hi d' Ha' Ht' ltac:(intros [])) as (C1 & _).
        pose proof (inv_lt vkind _ _ _ _ _ _ _ Hi C1) as Hlt.
        unfold dev_cell_only, alloc_st in E. simpl_st. rewrite upd_same in E. lia. }
  assert (Hi3 : inv [] [d] [] T G (dev_cell_only s1)).
  { eapply inv_drop_X; [exact Hi2|intros []| |].
    - intros _. unfold home, dev_cell_only, alloc_st, d. simpl_st. rewrite upd_same. split; [reflexivity|discriminate].
    - intros v _. unfold dev_cell_only, alloc_st, d. simpl_st. apply upd_same. }
  eapply inv_add_cell; [exact Hi3|apply added_cur| | |discriminate].
  - intros k E. injection E as <-. repeat split; try reflexivity.
    + unfold dev_cells, dev_cell_only, alloc_st. simpl_st.
      apply (i_fresh _ _ _ _ _ _ _ Hi (S (nxt s1)) ltac:(lia)).
    + right. split; [reflexivity|]. exists d. unfold dev_cell_only, alloc_st, d. simpl_st. rewrite !upd_same. tauto.
  - intros k E. discriminate.
Qed.

Lemma dev_cells_facts s1 :
  let s2 := dev_cells s1 in let d := nxt s1 in let c := S (nxt s1) in
  (forall x, x < nxt s1 -> alive s2 x = alive s1 x /\ tagof s2 x = tagof s1 x) /\
  hptr s2 = hptr s1 /\ vars s2 = vars s1 /\ dus s2 = dus s1 /\ nxt s2 = S (S (nxt s1)) /\
  alive s2 d = true /\ tagof s2 d = TO KDev /\ ocur s2 d = c /\ alive s2 c = true /\ tagof s2 c = TH KStr /\
  grow s1 s2.
Proof.
  intros s2 d c.
  assert (Hg : grow s1 s2).
  { eapply grow_trans; [eapply added_grow; apply added_dev|eapply added_grow; apply added_cur]. }
  unfold s2, dev_cells, alloc_st, d, c. simpl_st.
  split.
  { intros x Hx. rewrite !(upd_other _ (S (nxt s1))) by lia. rewrite !(upd_other _ (nxt s1)) by lia. tauto. }
  do 4 (split; [reflexivity|]).
  rewrite !(upd_other _ (S (nxt s1)) _ (nxt s1)) by lia. rewrite !upd_same. do 5 (split; [reflexivity|]). exact Hg.
Qed.

(* device(props) as a temporary *)
Lemma new_device_spec G s :
  inv [] [] [] [] G s ->
  exists G' s', new_device_tmp fixed s = Some (nxt s, s') /\ inv [] [] [] [nxt s] G' s' /\
    tagof s' (nxt s) = TH KDev /\ grow s s' /\ vars s' = vars s /\ dus s' = dus s.
Proof.
  intros Hi. unfold new_device_tmp.
  rewrite (bind_run _ _ _ _ _ (alloc_run s (TH KDev))).
  set (t := nxt s). set (s1 := alloc_st s (TH KDev)).
  destruct (alloc_handle_spec vkind [] [] [] [] G s KDev Hi) as [Hi1 Hp1]. fold t s1 in Hi1, Hp1.
  assert (Hn1 : nxt s1 = S t) by reflexivity.
  assert (Ht1 : alive s1 t = true /\ tagof s1 t = TH KDev).
  { unfold s1, alloc_st, t. simpl_st. rewrite !upd_same. tauto. }
  rewrite (bind_run _ _ _ _ _ (alloc_run s1 (TO KDev))).
  rewrite (bind_run _ _ _ _ _ (alloc_run (alloc_st s1 (TO KDev)) (TH KStr))).
  unfold modify at 1. cbn [bind].
  change (set_ocur (alloc_st (alloc_st s1 (TO KDev)) (TH KStr))
            (upd (ocur (alloc_st (alloc_st s1 (TO KDev)) (TH KStr))) (nxt s1) (nxt (alloc_st s1 (TO KDev)))))
    with (dev_cells s1).
  change (nxt (alloc_st s1 (TO KDev))) with (S (nxt s1)).
  pose proof (dev_cells_spec [t] G s1 Hi1) as Hi2.
  destruct (dev_cells_facts s1) as (Hold2 & Ehp2 & Ev2 & Ed2 & En2 & Had2 & Htd2 & Hcur2 & Hac2 & Htc2 & Hg12).
  set (s2 := dev_cells s1) in *. set (d := nxt s1) in *. set (c := S d) in *.
  destruct (Hold2 t ltac:(rewrite Hn1; lia)) as (Hat2' & Htt2').
  assert (Hat2 : alive s2 t = true) by (rewrite Hat2'; tauto).
  assert (Htt2 : tagof s2 t = TH KDev) by (rewrite Htt2'; tauto).
  assert (Hpt2 : hptr s2 t = None) by (rewrite Ehp2; exact Hp1).
  assert (Hpc2 : hptr s2 c = None).
  { rewrite Ehp2. unfold s1, alloc_st. simpl_st. apply (i_fresh _ _ _ _ _ _ _ Hi c). change (nxt s <= S (nxt (alloc_st s (TH KDev)))). cbn [nxt alloc_st set_nxt]. lia. }
  (* setModeDevice *)
  destruct (h_set_fresh vkind [] [d] [] [t] G s2 t KDev d) as (s3 & R3 & Hi3 & Hsame3); try assumption.
  { intros []. }
  { discriminate. }
  { intros d' Had' Htd' Hdw Hc'. exfalso.
    destruct (i_cur _ _ _ _ _ _ _ Hi2 d' Had' Htd' Hdw) as (_ & C2 & _). rewrite Hc' in C2. congruence. }
  erewrite bind_run by exact R3.
  pose proof Hsame3 as (S1 & S2 & S3 & S4 & S5 & S6 & S7 & S8 & S9 & S10 & S11 & S12 & S13 & S14 & S15 & S16 & S17 & S18).
  simpl_st.
  set (G3 := upd2 G d SH (G d SH ++ [t])) in *.
  assert (Hct : c <> t) by (unfold c; rewrite Hn1; lia).
  assert (Hi3' : inv [] [] [] [t] G3 s3).
  { apply (inv_unW vkind [] [] [] [t] G3 s3 d); [exact Hi3|intros []| | | | | |].
    - intros _ k Hk. rewrite S2, Htd2 in Hk. injection Hk as <-. intros _. unfold G3. rewrite upd2_same.
      destruct (G d SH); discriminate.
    - intros b _ Hb. exfalso. rewrite S8 in Hb. pose proof (i_inner_tag _ _ _ _ _ _ _ Hi2 d b Hb). congruence.
    - intros _ Hc. rewrite S2, Htd2 in Hc. congruence.
    - intros _ Hc. rewrite S2, Htd2 in Hc. congruence.
    - intros _ _. rewrite S9, Hcur2, S3, S2, S16, S4, S6.
      split; [exact Hac2|]. split; [exact Htc2|]. split; [intros [E|[]]; congruence|]. split.
      + intros v Hv. rewrite Ev2 in Hv. change (vars s1) with (vars s) in Hv.
        destruct (i_vars _ _ _ _ _ _ _ Hi v c Hv) as (Hc' & _).
        destruct (i_fresh _ _ _ _ _ _ _ Hi c) as (_ & F & _); [unfold c; rewrite Hn1; unfold t; lia|]. congruence.
      + intros st Hst. rewrite upd_other in Hst by exact Hct. congruence.
    - intros _ Hc. rewrite S2, Htd2 in Hc. congruence. }
  assert (Had3 : alive s3 d = true) by (rewrite S3; exact Had2).
  assert (Htd3 : tagof s3 d = TO KDev) by (rewrite S2; exact Htd2).
  (* createStream *)
  destruct (new_leaf_spec vkind [t] G3 s3 KStr d Hi3') as (G4 & s4 & R4 & Hi4 & Hast & Htst & Hfr4 & Hodst);
    [unfold leaf_kind; tauto|exact Had3|exact Htd3|].
  erewrite bind_run by exact R4.
  destruct Hfr4 as (F1 & F2 & F3 & F4 & F5 & F6 & F7 & F8 & F9 & F10 & F11).
  assert (Hn3 : nxt s3 = S c) by (rewrite S1; simpl_st; exact En2).
  set (st := nxt s3) in *.
  destruct (h_new_obj vkind [t] G4 s4 st KStr Hi4 Hast Htst) as
      (G5 & s5 & R5 & Hi5 & Htts & Hg5 & Hv5 & Hd5 & Hn5 & Hob5 & Hod5 & Hpts & Hfr5); try discriminate.
  { rewrite F6. apply (i_fresh _ _ _ _ _ _ _ Hi3' (nxt s3) (le_n _)). }
  erewrite bind_run by exact R5.
  set (ts := nxt s4) in *.
  pose proof F4 as Hnts.
  assert (Hne : c <> ts /\ c <> st /\ d <> st /\ d <> ts /\ t <> ts /\ t <> st /\ st <> ts).
  { rewrite Hnts, Hn3. unfold c. rewrite Hn1. lia. }
  destruct Hne as (N1 & N2 & N3 & N4 & N5 & N6 & N7).
  assert (Hac5 : alive s5 c = true).
  { destruct (Hfr5 c N1) as (E & _). rewrite E. destruct (F11 c N2) as (E' & _). rewrite E', S3. exact Hac2. }
  assert (Htc5 : tagof s5 c = TH KStr).
  { rewrite (grow_tag _ _ _ Hg5) by (change (nxt s4) with ts; lia).
    destruct (F11 c N2) as (_ & E' & _). rewrite E', S2. exact Htc2. }
  assert (Hats5 : alive s5 ts = true) by (apply (i_T _ _ _ _ _ _ _ Hi5 ts); now left).
  assert (Hast5 : alive s5 st = true) by (destruct (Hfr5 st N7) as (E & _); rewrite E; exact Hast).
  assert (Htst5 : tagof s5 st = TO KStr) by (rewrite (grow_tag _ _ _ Hg5) by (change (nxt s4) with ts; lia); exact Htst).
  assert (Hd5' : alive s5 d = true /\ tagof s5 d = TO KDev /\ ocur s5 d = c).
  { destruct (Hfr5 d N4) as (E & _). destruct (F11 d N3) as (E1 & E2 & _).
    split; [rewrite E, E1; exact Had3|]. split.
    - rewrite (grow_tag _ _ _ Hg5) by (change (nxt s4) with ts; lia). rewrite E2. exact Htd3.
    - destruct Hg5 as (_ & _ & _ & _ & _ & G6'). rewrite G6' by (change (nxt s4) with ts; lia).
      destruct F1 as (_ & _ & _ & _ & _ & H6'). rewrite H6' by (change (nxt s3) with st; lia).
      rewrite S9. simpl_st. exact Hcur2. }
  destruct Hd5' as (Had5 & Htd5 & Hcur5d).
  assert (Hodst5 : odev s5 st = Some d) by (rewrite Hod5; exact Hodst).
  (* currentStream = s *)
  destruct (h_set_spec vkind [ts; t] G5 s5 c KStr (Some st) Hi5 Hac5 Htc5) as
      (G6 & s6 & R6 & Hi6 & Hp6 & Hg6 & Hv6 & Hn6 & Hd6 & _ & _ & _).
  { intros o E. injection E as <-. repeat split; [exact Hast5|exact Htst5|discriminate]. }
  { intros d' o Ha' Ht' Hc' E. injection E as <-.
    assert (d' = d) as -> by (apply (i_cur_inj _ _ _ _ _ _ _ Hi5 d' d Ha' Had5 Ht' Htd5); congruence).
    exact Hodst5. }
  assert (R6' : h_assign fixed c ts s5 = Some (tt, s6)).
  { unfold h_assign. erewrite bind_run by (apply rd_run; exact Hats5). rewrite Hpts.
    erewrite bind_run by (apply need_run; exact Hac5). exact R6. }
  erewrite bind_run by exact R6'.
  (* ~s *)
  destruct (h_dtor_temp vkind [t] G6 s6 ts Hi6) as (G7 & s7 & R7 & Hi7 & Hg7 & Hv7 & Hd7 & Hn7 & _).
  erewrite bind_run by exact R7.
  exists G7, s7. split; [reflexivity|]. split; [exact Hi7|].
  assert (Hg03 : grow s s3).
  { eapply grow_trans; [eapply added_grow; apply added_alloc|]. fold s1.
    eapply grow_trans; [exact Hg12|]. eapply grow_trans; [apply (grow_set_hptr s2)|apply same_obj_grow; exact Hsame3]. }
  assert (Hg07 : grow s s7).
  { eapply grow_trans; [exact Hg03|]. eapply grow_trans; [exact F1|]. eapply grow_trans; [exact Hg5|].
    eapply grow_trans; eassumption. }
  split.
  { rewrite (grow_tag _ _ _ (grow_trans _ _ _ Hg6 Hg7)) by (rewrite Hn5; change (nxt s4) with ts; lia).
    rewrite (grow_tag _ _ _ Hg5) by (change (nxt s4) with ts; lia).
    destruct (F11 t N6) as (_ & E & _). rewrite E, S2. exact Htt2. }
  split; [exact Hg07|].
  split.
  - rewrite Hv7, Hv6, Hv5, F2, S16. simpl_st. rewrite Ev2. reflexivity.
  - rewrite Hd7, Hd6, Hd5, F3, S18. simpl_st. rewrite Ed2. reflexivity.
Qed.

End D.
