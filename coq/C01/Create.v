(* C01 — creation of backend objects. *)
From Coq Require Import List Arith Bool ZArith Lia Permutation.
From OV.C01 Require Import Model Ring Heap Inv InvPrim InvPrim2 ExecBase Exec Exec2 Exec3 Exec4 Exec5 Exec6 Alloc Ops Ops2 Ops3 Ops4.
Import ListNotations.

Section C.
Variable vkind : nat -> kind.
Notation inv := (inv vkind).

Lemma inv_incl_W X W W' D T G s : inv X W D T G s -> incl W W' -> inv X W' D T G s.
Proof.
  intros Hi HW.
  destruct Hi as [Aheap Amem1 Amem2 Aown Afresh Atag Adead Ainner Aitag Ainj Aiown Agin Apres Adev Abuf Acur Acurinj
                  Ahand Avars Avinj AT ATnd Alive Alognd Alog AD Acs Apb].
  constructor; try assumption.
  - intros p b Ha Hw. apply Ainner; [exact Ha|]. intros H. apply Hw. now apply HW.
  - intros b Ha Ht Hg Hw. apply Aiown; try assumption. intros H. apply Hw. now apply HW.
  - intros p m Ha Ht Hw. apply Apres; try assumption. intros H. apply Hw. now apply HW.
  - intros d Ha Ht Hw. apply Acur; try assumption. intros H. apply Hw. now apply HW.
  - intros x k Ha Ht Hw. apply Alive; try assumption. intros H. apply Hw. now apply HW.
  - intros d st Ha Ht Hw. apply Acs; try assumption. intros H. apply Hw. now apply HW.
  - intros p Ha Ht Hw. apply Apb; try assumption. intros H. apply Hw. now apply HW.
Qed.

(* a freshly added object with a device pointer enters the device's ring *)
Lemma link_new_dev_obj W T G s s2 o k d :
  inv [] W [] T G s -> added s s2 o (TO k) -> k <> KDev -> k <> KMem ->
  odev s2 o = Some d -> ginner s2 o = false -> alive s d = true -> tagof s d = TO KDev ->
  exists s3, ring_addRef d (dev_slot k) o s2 = Some (tt, s3) /\ same_obj s2 s3 /\
             inv [] (o :: W) [] T (upd2 G d (dev_slot k) (G d (dev_slot k) ++ [o])) s3.
Proof.
  intros Hi A Hk1 Hk2 Hod Hg Had Htd.
  pose proof (ad_e _ _ _ _ A) as Eo.
  assert (Hdo : d <> o) by (intros ->; destruct (i_fresh _ _ _ _ _ _ _ Hi (nxt s) (le_n _)) as (F & _); congruence).
  assert (Hi2 : inv [o] (o :: W) [] T G s2).
  { eapply inv_add_cell; [exact Hi|exact A| | |discriminate].
    - intros k' E. discriminate.
    - intros k' E. injection E as <-. repeat split; try reflexivity.
      + intros _ _. exists d. tauto.
      + intros E. congruence.
      + intros E. congruence. }
  destruct (ad_other _ _ _ _ A d Hdo) as (B1 & B2 & B3 & B4 & B5 & B6).
  assert (Had2 : alive s2 d = true) by (rewrite B2; exact Had).
  assert (Hao2 : alive s2 o = true) by (apply (ad_alive _ _ _ _ A)).
  assert (Hfree : free_of G o) by (eapply exempt_free; [exact Hi2|now left]).
  destruct (ring_addRef_out s2 G d (dev_slot k) o (i_heap _ _ _ _ _ _ _ Hi2) Had2 Hao2 Hfree) as (s3 & Hrun & Hsame & Hk3).
  exists s3. split; [exact Hrun|]. split; [exact Hsame|].
  eapply inv_link; try exact Hi2; try eassumption.
  - intros [].
  - unfold home. rewrite (ad_tag _ _ _ _ A), Hod, Hg. destruct k; try congruence; reflexivity.
  - rewrite (ad_tag _ _ _ _ A), B1, Htd. destruct k; try congruence; reflexivity.
  - intros E. destruct k; try congruence; discriminate.
Qed.

(* the first wrapper of a new object *)
Lemma h_new_obj T G s o k :
  inv [] [o] [] T G s -> alive s o = true -> tagof s o = TO k -> k <> KBuf -> k <> KDev ->
  oinner s o = None -> (k = KPool -> G o SMem = [] /\ pres s o = [] /\ pslots s o = 0) ->
  exists G' s', h_new fixed k (Some o) s = Some (nxt s, s') /\ inv [] [] [] (nxt s :: T) G' s' /\
    tagof s' (nxt s) = TH k /\ grow s s' /\ vars s' = vars s /\ dus s' = dus s /\ nxt s' = S (nxt s) /\
    obytes s' = obytes s /\ odev s' = odev s /\ hptr s' (nxt s) = Some o /\
    (forall x, x <> nxt s -> alive s' x = alive s x /\ hptr s' x = hptr s x).
Proof.
  intros Hi Hao Hto Hkb Hkd Hoi Hpm. unfold h_new. rewrite (bind_run _ _ _ _ _ (alloc_run s (TH k))).
  set (h := nxt s). set (s1 := alloc_st s (TH k)).
  destruct (alloc_handle_spec vkind [] [o] [] T G s k Hi) as [Hi1 Hp1]. fold h s1 in Hi1, Hp1.
  assert (Hoh : o <> h) by (intros ->; destruct (i_fresh _ _ _ _ _ _ _ Hi (nxt s) (le_n _)) as (F & _); unfold h in Hao; congruence).
  assert (Hh1 : alive s1 h = true) by (unfold s1, alloc_st, h; simpl_st; apply upd_same).
  assert (Ht1 : tagof s1 h = TH k) by (unfold s1, alloc_st, h; simpl_st; apply upd_same).
  assert (Hao1 : alive s1 o = true) by (unfold s1, alloc_st; simpl_st; rewrite upd_other by exact Hoh; exact Hao).
  assert (Hto1 : tagof s1 o = TO k) by (unfold s1, alloc_st; simpl_st; rewrite upd_other by exact Hoh; exact Hto).
  destruct (h_set_fresh vkind [] [o] [] (h :: T) G s1 h k o) as (s2 & Hrun2 & Hi2 & Hsame2); try assumption.
  { intros []. }
  { intros d Had Htd Hdw Hc. exfalso.
    assert (Hdh : d <> h) by (intros ->; congruence).
    unfold s1, alloc_st in Had, Htd, Hc. simpl_st. rewrite upd_other in Had by exact Hdh. rewrite upd_other in Htd by exact Hdh.
    destruct (i_cur _ _ _ _ _ _ _ Hi d Had Htd Hdw) as (C1 & _). rewrite Hc in C1.
    destruct (i_fresh _ _ _ _ _ _ _ Hi (nxt s) (le_n _)) as (F & _). unfold h in C1. congruence. }
  erewrite bind_run by exact Hrun2.
  pose proof Hsame2 as (S1 & S2 & S3 & S4 & S5 & S6 & S7 & S8 & S9 & S10 & S11 & S12 & S13 & S14 & S15 & S16 & S17 & S18).
  simpl_st.
  eexists _, s2. split; [reflexivity|]. split.
  { apply (inv_unW vkind [] [] [] (h :: T) _ s2 o); [exact Hi2|intros []| | | | | |].
    - intros _ k' Hk'. rewrite S2, Hto1 in Hk'. injection Hk' as <-. rewrite upd2_same.
      assert (Hne : G o SH ++ [h] <> []) by (destruct (G o SH); discriminate).
      destruct k; try congruence; intros _; exact Hne.
    - intros b _ Hb. rewrite S8 in Hb. unfold s1, alloc_st in Hb. simpl_st. congruence.
    - intros _ Hc. rewrite S2, Hto1 in Hc. congruence.
    - intros _ Hc m Hm. exfalso. rewrite S2, Hto1 in Hc. injection Hc as ->.
      destruct (upd2_cases G o SH (G o SH ++ [h]) o SMem) as [(_ & E & _)|(_ & E)]; [discriminate|].
      rewrite E, (proj1 (Hpm eq_refl)) in Hm. destruct Hm.
    - intros _ Hc. rewrite S2, Hto1 in Hc. congruence.
    - intros _ Hc [Hn|Hn]; rewrite S2, Hto1 in Hc; injection Hc as ->; destruct (Hpm eq_refl) as (_ & P1 & P2).
      + exfalso. apply Hn. rewrite S12. unfold s1, alloc_st. simpl_st. exact P1.
      + exfalso. apply Hn. rewrite S13. unfold s1, alloc_st. simpl_st. exact P2. }
  split; [rewrite S2; exact Ht1|].
  split.
  { eapply grow_trans; [eapply added_grow; apply added_alloc|].
    eapply grow_trans; [apply (grow_set_hptr (alloc_st s (TH k)))|apply same_obj_grow; exact Hsame2]. }
  split; [rewrite S16; reflexivity|]. split; [rewrite S18; reflexivity|]. split; [rewrite S1; reflexivity|].
  split; [rewrite S11; reflexivity|]. split; [rewrite S6; reflexivity|]. split; [rewrite S4; apply upd_same|].
  intros x Hx. rewrite S3, S4. unfold s1, alloc_st. simpl_st. rewrite !upd_other by exact Hx. tauto.
Qed.

End C.
