(* C01 — a fresh cell joins the heap. *)
From Coq Require Import List Arith Bool ZArith Lia Permutation.
From OV.C01 Require Import Model Ring Heap Inv InvPrim InvPrim2 ExecBase.
Import ListNotations.

Section A.
Variable vkind : nat -> kind.
Notation inv := (inv vkind).

(* s' is s plus the fresh cell e (whose creation-time fields may already be set) *)
Record added (s s' : st) (e : nat) (t : tag) : Prop := {
  ad_e     : e = nxt s;
  ad_nxt   : nxt s' = S e;
  ad_lft   : lft s' = lft s;
  ad_rgt   : rgt s' = rgt s;
  ad_head  : ohead s' = ohead s;
  ad_hptr  : hptr s' = hptr s;
  ad_ouse  : ouse s' = ouse s;
  ad_oinner: oinner s' = oinner s;
  ad_pres  : pres s' = pres s;
  ad_pslots: pslots s' = pslots s;
  ad_vars  : vars s' = vars s;
  ad_dlog  : dlog s' = dlog s;
  ad_dus   : dus s' = dus s;
  ad_other : forall x, x <> e ->
               tagof s' x = tagof s x /\ alive s' x = alive s x /\ odev s' x = odev s x /\
               obuf s' x = obuf s x /\ ginner s' x = ginner s x /\ ocur s' x = ocur s x;
  ad_alive : alive s' e = true;
  ad_tag   : tagof s' e = t
}.

Lemma added_home s s' e t x : added s s' e t -> x <> e -> home s' x = home s x.
Proof.
  intros A Hx. destruct (ad_other _ _ _ _ A x Hx) as (A1 & A2 & A3 & A4 & A5 & A6).
  unfold home. now rewrite A1, (ad_hptr _ _ _ _ A), A3, A4, A5.
Qed.

Lemma inv_add_cell X W D T G s s' e t X' W' T' :
  inv X W D T G s -> added s s' e t ->
  (* a wrapper: a temporary, or the embedded wrapper of a device under construction *)
  (forall k, t = TH k ->
     X' = X /\ W' = W /\ obuf s' e = obuf s e /\ odev s' e = odev s e /\ ginner s' e = false /\
     ((T' = e :: T) \/ (T' = T /\ exists d, alive s d = true /\ tagof s d = TO KDev /\ ocur s d = e))) ->
  (* an object: unlinked and not yet kept alive by anything *)
  (forall k, t = TO k ->
     X' = e :: X /\ W' = e :: W /\ T' = T /\
     (k <> KDev -> k <> KMem -> exists d, odev s' e = Some d /\ alive s d = true /\ tagof s d = TO KDev) /\
     (ginner s' e = true -> k = KBuf) /\
     (k = KDev -> forall d', alive s d' = true -> tagof s d' = TO KDev -> ocur s d' <> ocur s' e)) ->
  t <> TFree ->
  inv X' W' D T' G s'.
Proof.
  intros Hi A HH HO Htf.
  pose proof (ad_e _ _ _ _ A) as Ee.
  destruct (i_fresh _ _ _ _ _ _ _ Hi e ltac:(lia)) as (F1 & F2 & F3 & F4 & F5 & F6 & F7 & F8 & F9 & F10).
  assert (Hne : forall x, alive s x = true -> x <> e) by (intros x Hx ->; congruence).
  assert (Hoth := ad_other _ _ _ _ A).
  assert (Hal : forall x, x <> e -> alive s' x = alive s x) by (intros x Hx; now destruct (Hoth x Hx) as (_ & H & _)).
  assert (Htg : forall x, x <> e -> tagof s' x = tagof s x) by (intros x Hx; now destruct (Hoth x Hx) as (H & _)).
  assert (HeG : free_of G e) by (eapply dead_free; eassumption).
  assert (Hmem_ne : forall x o sl, In x (G o sl) -> x <> e /\ o <> e).
  { intros x o sl Hin. split.
    - apply Hne. apply (hk_alive _ _ (i_heap _ _ _ _ _ _ _ Hi) _ _ _ Hin).
    - apply Hne. apply (i_own _ _ _ _ _ _ _ Hi _ _ _ Hin). }
  assert (HXW : incl X X' /\ incl W W' /\ incl T T' /\ (forall x, In x T' -> x = e \/ In x T) /\
                (forall x, In x X' -> x = e \/ In x X) /\ (forall x, In x W' -> x = e \/ In x W)).
  { destruct t as [|k|k]; [congruence| |].
    - destruct (HH k eq_refl) as (-> & -> & _ & _ & _ & [->|[-> _]]); repeat split;
        auto using incl_refl, incl_tl; intros x Hx; try (destruct Hx; auto); auto.
    - destruct (HO k eq_refl) as (-> & -> & -> & _); repeat split;
        auto using incl_refl, incl_tl; intros x Hx; try (destruct Hx; auto); auto. }
  destruct HXW as (HX & HW & HT & HT' & HX' & HW').
  destruct Hi as [Aheap Amem1 Amem2 Aown Afresh Atag Adead Ainner Aitag Ainj Aiown Agin Apres Adev Abuf Acur Acurinj
                  Ahand Avars Avinj AT ATnd Alive Alognd Alog AD Acs Apb].
  constructor.
  - destruct Aheap as [B1 B2 B3 B4 B5 B6]. constructor; rewrite ?(ad_lft _ _ _ _ A), ?(ad_rgt _ _ _ _ A), ?(ad_head _ _ _ _ A); try assumption.
    intros o sl x Hx. rewrite Hal; [eapply B4; exact Hx|]. apply Hne. eapply B4; exact Hx.
  - intros x o sl Hin. destruct (Hmem_ne _ _ _ Hin) as [Hx _]. destruct (Amem1 x o sl Hin) as [H1 H2].
    rewrite (added_home _ _ _ _ _ A Hx). split; [exact H1|]. intros Hc. destruct (HX' x Hc); [congruence|contradiction].
  - intros x o sl Ha Hx Hh. destruct (Nat.eq_dec x e) as [->|Hxe].
    + exfalso. unfold home in Hh. rewrite (ad_tag _ _ _ _ A) in Hh. destruct t as [|k|k]; [congruence| |].
      * rewrite (ad_hptr _ _ _ _ A), F3 in Hh. discriminate.
      * destruct (HO k eq_refl) as (-> & _). apply Hx. now left.
    + rewrite (added_home _ _ _ _ _ A Hxe) in Hh. rewrite Hal in Ha by exact Hxe. apply Amem2; try assumption.
      intros Hc. apply Hx. now apply HX.
  - intros x o sl Hin. destruct (Hmem_ne _ _ _ Hin) as [Hx Ho]. rewrite Hal, !Htg by assumption. now apply Aown.
  - intros x Hx. rewrite (ad_nxt _ _ _ _ A) in Hx. assert (x <> e) by lia.
    destruct (Hoth x H) as (A1 & A2 & A3 & A4 & A5 & A6).
    rewrite A1, A2, A3, A4, A5, (ad_hptr _ _ _ _ A), (ad_ouse _ _ _ _ A), (ad_oinner _ _ _ _ A), (ad_pres _ _ _ _ A), (ad_pslots _ _ _ _ A).
    apply Afresh. lia.
  - intros x Ha. destruct (Nat.eq_dec x e) as [->|Hxe]; [rewrite (ad_tag _ _ _ _ A); exact Htf|].
    rewrite Htg by exact Hxe. apply Atag. now rewrite <- Hal.
  - intros o sl Ha. destruct (Nat.eq_dec o e) as [->|Hoe]; [now apply Adead|]. apply Adead. now rewrite <- Hal.
  - intros p b Ha Hw Hb. rewrite (ad_oinner _ _ _ _ A) in Hb.
    assert (Hpe : p <> e) by (intros ->; congruence).
    rewrite Hal in Ha by exact Hpe.
    destruct (Ainner p b Ha ltac:(intros Hc; apply Hw; now apply HW) Hb) as (I1 & I2 & I3 & I4 & I5).
    assert (Hbe : b <> e) by (now apply Hne).
    destruct (Hoth b Hbe) as (B1 & B2 & B3 & B4 & B5 & B6). destruct (Hoth p Hpe) as (P1 & P2 & P3 & _).
    rewrite P1, B2, B1, B5, B3, P3. tauto.
  - intros p b Hb. rewrite (ad_oinner _ _ _ _ A) in Hb. rewrite Htg; [now apply (Aitag p b)|]. intros ->. congruence.
  - intros p p' b Ha Ha' Hb Hb'. rewrite (ad_oinner _ _ _ _ A) in Hb, Hb'.
    assert (p <> e) by (intros ->; congruence). assert (p' <> e) by (intros ->; congruence).
    rewrite Hal in Ha, Ha' by assumption. eapply Ainj; eassumption.
  - intros b Ha Ht Hg Hw.
    assert (Hbe : b <> e) by (intros ->; apply Hw; destruct t as [|k|k]; [congruence| |];
      [rewrite (ad_tag _ _ _ _ A) in Ht; discriminate|destruct (HO k eq_refl) as (_ & -> & _); now left]).
    destruct (Hoth b Hbe) as (B1 & B2 & B3 & B4 & B5 & B6). rewrite B2 in Ha. rewrite B1 in Ht. rewrite B5 in Hg.
    destruct (Aiown b Ha Ht Hg ltac:(intros Hc; apply Hw; now apply HW)) as (p & Hp1 & Hp2).
    exists p. rewrite (ad_oinner _ _ _ _ A). split; [|exact Hp2]. rewrite Hal; [exact Hp1|now apply Hne].
  - intros b Hg. destruct (Nat.eq_dec b e) as [->|Hbe].
    + split; [|now apply Adead]. rewrite (ad_tag _ _ _ _ A). destruct t as [|k|k]; [congruence| |].
      * destruct (HH k eq_refl) as (_ & _ & _ & _ & Hgf & _). congruence.
      * destruct (HO k eq_refl) as (_ & _ & _ & _ & Hgk & _). now rewrite (Hgk Hg).
    + destruct (Hoth b Hbe) as (B1 & B2 & B3 & B4 & B5 & B6). rewrite B5 in Hg. rewrite B1. now apply Agin.
  - intros p m Ha Ht Hw Hin. rewrite (ad_pres _ _ _ _ A). destruct (Hmem_ne _ _ _ Hin) as [_ Hpe].
    rewrite Hal in Ha by exact Hpe. rewrite Htg in Ht by exact Hpe. apply Apres; try assumption.
    intros Hc. apply Hw. now apply HW.
  - intros o k Ha Ht Hk1 Hk2. destruct (Nat.eq_dec o e) as [->|Hoe].
    + rewrite (ad_tag _ _ _ _ A) in Ht. destruct (HO k Ht) as (_ & _ & _ & Hd & _).
      destruct (Hd Hk1 Hk2) as (d & D1 & D2 & D3). exists d. split; [exact D1|].
      assert (d <> e) by (now apply Hne). rewrite Hal, Htg by assumption. tauto.
    + destruct (Hoth o Hoe) as (B1 & B2 & B3 & B4 & B5 & B6). rewrite B2 in Ha. rewrite B1 in Ht.
      destruct (Adev o k Ha Ht Hk1 Hk2) as (d & D1 & D2 & D3). exists d. rewrite B3. split; [exact D1|].
      assert (d <> e) by (now apply Hne). rewrite Hal, Htg by assumption. tauto.
  - intros m Ha Ht Hx. destruct (Nat.eq_dec m e) as [->|Hme].
    + exfalso. apply Hx. rewrite (ad_tag _ _ _ _ A) in Ht. destruct (HO KMem Ht) as (-> & _). now left.
    + destruct (Hoth m Hme) as (B1 & B2 & B3 & B4 & B5 & B6). rewrite B4. rewrite B2 in Ha. rewrite B1 in Ht.
      apply Abuf; try assumption. intros Hc. apply Hx. now apply HX.
  - intros d Ha Ht Hw. destruct (Nat.eq_dec d e) as [->|Hde].
    + exfalso. apply Hw. rewrite (ad_tag _ _ _ _ A) in Ht. destruct (HO KDev Ht) as (_ & -> & _). now left.
    + destruct (Hoth d Hde) as (B1 & B2 & B3 & B4 & B5 & B6). rewrite B6, (ad_vars _ _ _ _ A). rewrite B2 in Ha. rewrite B1 in Ht.
      destruct (Acur d Ha Ht ltac:(intros Hc; apply Hw; now apply HW)) as (C1 & C2 & C3 & C4).
      assert (Hce : ocur s d <> e) by (now apply Hne).
      rewrite Hal, Htg by exact Hce. repeat split; try assumption.
      intros Hc. destruct (HT' _ Hc); [congruence|contradiction].
  - intros d d' Ha Ha' Ht Ht' Hc.
    destruct (Nat.eq_dec d e) as [->|Hde]; destruct (Nat.eq_dec d' e) as [->|Hde']; [reflexivity| | |].
    + exfalso. rewrite (ad_tag _ _ _ _ A) in Ht. destruct (HO KDev Ht) as (_ & _ & _ & _ & _ & Hinj).
      destruct (Hoth d' Hde') as (B1 & B2 & B3 & B4 & B5 & B6). rewrite B2 in Ha'. rewrite B1 in Ht'. rewrite B6 in Hc.
      apply (Hinj eq_refl d' Ha' Ht'). now symmetry.
    + exfalso. rewrite (ad_tag _ _ _ _ A) in Ht'. destruct (HO KDev Ht') as (_ & _ & _ & _ & _ & Hinj).
      destruct (Hoth d Hde) as (B1 & B2 & B3 & B4 & B5 & B6). rewrite B2 in Ha. rewrite B1 in Ht. rewrite B6 in Hc.
      apply (Hinj eq_refl d Ha Ht). exact Hc.
    + destruct (Hoth d Hde) as (B1 & B2 & B3 & B4 & B5 & B6). destruct (Hoth d' Hde') as (B1' & B2' & B3' & B4' & B5' & B6').
      rewrite B2 in Ha. rewrite B1 in Ht. rewrite B2' in Ha'. rewrite B1' in Ht'. rewrite B6, B6' in Hc.
      eapply Acurinj; eassumption.
  - intros h k Ha Ht. rewrite (ad_vars _ _ _ _ A). destruct (Nat.eq_dec h e) as [->|Hhe].
    + rewrite (ad_tag _ _ _ _ A) in Ht. destruct (HH k Ht) as (_ & _ & _ & _ & _ & [->|[-> (d & D1 & D2 & D3)]]).
      * right. right. now left.
      * right. left. exists d. assert (d <> e) by (now apply Hne).
        destruct (Hoth d H) as (B1 & B2 & B3 & B4 & B5 & B6). rewrite B2, B1, B6. tauto.
    + rewrite Hal in Ha by exact Hhe. rewrite Htg in Ht by exact Hhe.
      destruct (Ahand h k Ha Ht) as [Hv|[(d & D1 & D2 & D3)|Hin]]; [now left| |right; right; now apply HT].
      right. left. exists d. assert (d <> e) by (now apply Hne).
      destruct (Hoth d H) as (B1 & B2 & B3 & B4 & B5 & B6). rewrite B2, B1, B6. tauto.
  - intros v h Hv. rewrite (ad_vars _ _ _ _ A) in Hv. destruct (Avars v h Hv) as (V1 & V2 & V3).
    assert (Hhe : h <> e) by (intros ->; congruence).
    rewrite Htg, Hal by exact Hhe. repeat split; [exact V1| |].
    + intros Hc. destruct (HT' _ Hc); [congruence|contradiction].
    + intros Hx. apply V3. intros Hc. apply Hx. now apply HX.
  - intros v v' h Hv Hv'. rewrite (ad_vars _ _ _ _ A) in Hv, Hv'. eapply Avinj; eassumption.
  - intros h Hin. destruct (HT' _ Hin) as [->|Hin'].
    + split; [apply (ad_alive _ _ _ _ A)|]. rewrite (ad_tag _ _ _ _ A).
      destruct t as [|k|k]; [congruence|now exists k|].
      exfalso. destruct (HO k eq_refl) as (_ & _ & -> & _). destruct (AT e Hin) as [Hc _]. congruence.
    + destruct (AT h Hin') as [T1 T2]. assert (h <> e) by (now apply Hne). rewrite Hal, Htg by assumption. tauto.
  - destruct t as [|k|k]; [congruence| |].
    + destruct (HH k eq_refl) as (_ & _ & _ & _ & _ & [->|[-> _]]); [|exact ATnd].
      constructor; [|exact ATnd]. intros Hc. destruct (AT e Hc). congruence.
    + destruct (HO k eq_refl) as (_ & _ & -> & _). exact ATnd.
  - intros o k Ha Ht Hw.
    assert (Hoe : o <> e).
    { intros ->. apply Hw. rewrite (ad_tag _ _ _ _ A) in Ht. destruct (HO k Ht) as (_ & -> & _). now left. }
    destruct (Hoth o Hoe) as (B1 & B2 & B3 & B4 & B5 & B6). rewrite (ad_ouse _ _ _ _ A), B5. rewrite B2 in Ha. rewrite B1 in Ht.
    apply Alive; try assumption. intros Hc. apply Hw. now apply HW.
  - rewrite (ad_dlog _ _ _ _ A). exact Alognd.
  - intros o. rewrite (ad_dlog _ _ _ _ A). rewrite Alog. destruct (Nat.eq_dec o e) as [->|Hoe].
    + rewrite F2, (ad_alive _ _ _ _ A). split.
      * intros [[k Hk] _]. discriminate.
      * intros [_ [Hc|Hc]]; [discriminate|]. destruct (AD e Hc). congruence.
    + rewrite Htg, Hal by exact Hoe. tauto.
  - intros o Hin. destruct (AD o Hin) as [D1 D2]. assert (o <> e) by (now apply Hne). rewrite Hal, Htg by assumption. tauto.
  - intros d st Ha Ht Hw Hp.
    assert (Hde : d <> e).
    { intros ->. apply Hw. rewrite (ad_tag _ _ _ _ A) in Ht. destruct (HO KDev Ht) as (_ & -> & _). now left. }
    destruct (Hoth d Hde) as (B1 & B2 & B3 & B4 & B5 & B6). rewrite B6, (ad_hptr _ _ _ _ A) in Hp. rewrite B2 in Ha. rewrite B1 in Ht.
    pose proof (Acs d st Ha Ht ltac:(intros Hc; apply Hw; now apply HW) Hp) as Hod.
    assert (Hse : st <> e) by (intros ->; congruence).
    destruct (Hoth st Hse) as (_ & _ & -> & _). exact Hod.
  - intros p Ha Ht Hw.
    assert (Hpe : p <> e).
    { intros ->. apply Hw. rewrite (ad_tag _ _ _ _ A) in Ht. destruct (HO KPool Ht) as (_ & -> & _). now left. }
    rewrite (ad_pres _ _ _ _ A), (ad_pslots _ _ _ _ A), (ad_oinner _ _ _ _ A).
    rewrite Hal in Ha by exact Hpe. rewrite Htg in Ht by exact Hpe.
    apply Apb; try assumption. intros Hc. apply Hw. now apply HW.
Qed.

End A.
