(* C01 — invariant under kill / log / field writes. *)
From Coq Require Import List Arith Bool ZArith Lia Permutation.
From OV.C01 Require Import Model Ring Heap Inv InvPrim.
Import ListNotations.

Lemma in_remove_iff (l : list nat) x y : In x (remove Nat.eq_dec y l) <-> In x l /\ x <> y.
Proof.
  split; [apply in_remove|]. intros [H1 H2]. now apply in_in_remove.
Qed.

Lemma NoDup_remove_eq (l : list nat) y : NoDup l -> NoDup (remove Nat.eq_dec y l).
Proof.
  induction l as [|a l IH]; cbn; [constructor|]. intros H. apply NoDup_cons_iff in H as [Ha Hl].
  destruct (Nat.eq_dec y a); [now apply IH|]. constructor; [|now apply IH].
  intros Hin. apply in_remove in Hin. tauto.
Qed.

Section P.
Variable vkind : nat -> kind.
Notation inv := (inv vkind).

Lemma inv_kill X W D T G s e :
  inv X W D T G s -> alive s e = true -> free_of G e -> (forall sl, G e sl = []) ->
  (is_obj_tag (tagof s e) -> In e (dlog s)) ->
  (forall v, vars s v = Some e -> In e X) ->
  (forall p, alive s p = true -> ~ In p W -> oinner s p <> Some e) ->
  (forall d, alive s d = true -> tagof s d = TO KDev -> ~ In d W -> ocur s d <> e) ->
  (forall o k, alive s o = true -> o <> e -> tagof s o = TO k -> k <> KDev -> k <> KMem -> odev s o <> Some e) ->
  (tagof s e = TO KDev -> alive s (ocur s e) = false) ->
  (forall b, oinner s e = Some b -> alive s b = true -> ginner s b = true -> In b W) ->
  inv X W (remove Nat.eq_dec e D) (remove Nat.eq_dec e T) G (set_alive s (upd (alive s) e false)).
Proof.
  intros Hi Hae Hf Hr Hlog Hvar Hinn Hcur Hdev Hdc Hio.
  destruct Hi as [Aheap Amem1 Amem2 Aown Afresh Atag Adead Ainner Aitag Ainj Aiown Agin Apres Adev Abuf Acur Acurinj
                  Ahand Avars Avinj AT ATnd Alive Alognd Alog AD Acs Apb].
  assert (Hal : forall x, upd (alive s) e false x = true -> alive s x = true /\ x <> e).
  { intros x. unfold upd. destruct (Nat.eqb_spec x e); [discriminate|tauto]. }
  assert (Hal2 : forall x, x <> e -> upd (alive s) e false x = alive s x) by (intros; now apply upd_other).
  constructor; simpl_st; try assumption.
  - destruct Aheap as [B1 B2 B3 B4 B5 B6]. constructor; simpl_st; try assumption.
    intros o sl x Hx. rewrite Hal2; [eapply B4; exact Hx|]. intros ->. exact (Hf _ _ Hx).
  - intros x o sl Ha. apply Hal in Ha as [Ha _]. now apply Amem2.
  - intros x o sl Hx. destruct (Aown x o sl Hx) as [H1 H2]. split; [|exact H2].
    rewrite Hal2; [exact H1|]. intros ->. rewrite Hr in Hx. destruct Hx.
  - intros x Hx. destruct (Afresh x Hx) as (A1 & A2). split; [|exact A2].
    unfold upd. destruct (Nat.eqb x e); [reflexivity|exact A1].
  - intros x Ha. apply Hal in Ha as [Ha _]. now apply Atag.
  - intros o sl Ha. destruct (Nat.eq_dec o e) as [->|Hne]; [apply Hr|]. rewrite Hal2 in Ha by exact Hne. now apply Adead.
  - intros p b Ha Hw Hb. apply Hal in Ha as [Ha Hpe]. destruct (Ainner p b Ha Hw Hb) as (A1 & A2 & A3).
    repeat split; try tauto. rewrite Hal2; [exact A2|]. intros ->. exact (Hinn p Ha Hw Hb).
  - intros p p' b Ha Ha'. apply Hal in Ha as [Ha _]. apply Hal in Ha' as [Ha' _]. now apply Ainj.
  - intros b Ha Ht Hg Hw. apply Hal in Ha as [Ha Hbe].
    destruct (Aiown b Ha Ht Hg Hw) as (p & Hp1 & Hp2). exists p. split; [|exact Hp2].
    rewrite Hal2; [exact Hp1|]. intros ->. apply Hw. now apply Hio.
  - intros p m Ha. apply Hal in Ha as [Ha _]. now apply Apres.
  - intros o k Ha Ht Hk1 Hk2. apply Hal in Ha as [Ha Hoe].
    destruct (Adev o k Ha Ht Hk1 Hk2) as (d & Hd1 & Hd2 & Hd3). exists d. repeat split; try assumption.
    rewrite Hal2; [exact Hd2|]. intros ->. exact (Hdev o k Ha Hoe Ht Hk1 Hk2 Hd1).
  - intros m Ha. apply Hal in Ha as [Ha _]. now apply Abuf.
  - intros d Ha Ht Hw. apply Hal in Ha as [Ha Hde]. destruct (Acur d Ha Ht Hw) as (A1 & A2 & A3 & A4).
    repeat split; try assumption.
    + rewrite Hal2; [exact A1|]. exact (Hcur d Ha Ht Hw).
    + intros H. apply in_remove in H. tauto.
  - intros d d' Ha Ha'. apply Hal in Ha as [Ha _]. apply Hal in Ha' as [Ha' _]. now apply Acurinj.
  - intros h k Ha Ht. apply Hal in Ha as [Ha Hhe].
    destruct (Ahand h k Ha Ht) as [Hv|[(d & Hd1 & Hd2 & Hd3)|Hin]].
    + now left.
    + right. left. exists d. repeat split; try assumption. rewrite Hal2; [exact Hd1|].
      intros ->. rewrite Hd3 in Hdc. rewrite (Hdc Hd2) in Ha. discriminate.
    + right. right. now apply in_in_remove.
  - intros v h Hv. destruct (Avars v h Hv) as (A1 & A2 & A3). repeat split; try assumption.
    + intros H. apply in_remove in H. tauto.
    + intros Hx. rewrite Hal2; [now apply A3|]. intros ->. apply Hx. now apply (Hvar v).
  - intros h Hin. apply in_remove in Hin as [Hin Hne]. destruct (AT h Hin) as [A1 A2]. split; [|exact A2].
    now rewrite Hal2.
  - now apply NoDup_remove_eq.
  - intros o k Ha. apply Hal in Ha as [Ha _]. now apply Alive.
  - intros o. rewrite Alog. split.
    + intros [Ho [Hd|Hd]].
      * split; [exact Ho|]. left. unfold upd. destruct (Nat.eqb o e); [reflexivity|exact Hd].
      * split; [exact Ho|]. destruct (Nat.eq_dec o e) as [->|Hne].
        -- left. apply upd_same.
        -- right. now apply in_in_remove.
    + intros [Ho [Hd|Hd]].
      * destruct (Nat.eq_dec o e) as [->|Hne].
        -- apply Alog. now apply Hlog.
        -- rewrite Hal2 in Hd by exact Hne. tauto.
      * apply in_remove in Hd. tauto.
  - intros o Hin. apply in_remove in Hin as [Hin Hne]. destruct (AD o Hin) as [A1 A2]. split; [|exact A2].
    now rewrite Hal2.
  - intros d st Ha. apply Hal in Ha as [Ha _]. now apply Acs.
  - intros p Ha. apply Hal in Ha as [Ha _]. now apply Apb.
Qed.

Lemma inv_log X W D T G s o :
  inv X W D T G s -> alive s o = true -> is_obj_tag (tagof s o) -> ~ In o D ->
  ~ In o (dlog s) /\ inv X W (o :: D) T G (set_dlog s (o :: dlog s)).
Proof.
  intros Hi Ha Ht Hd.
  assert (Hnl : ~ In o (dlog s)).
  { intros H. apply (i_log _ _ _ _ _ _ _ Hi) in H as [_ [H|H]]; [congruence|contradiction]. }
  split; [exact Hnl|].
  destruct Hi as [Aheap Amem1 Amem2 Aown Afresh Atag Adead Ainner Aitag Ainj Aiown Agin Apres Adev Abuf Acur Acurinj
                  Ahand Avars Avinj AT ATnd Alive Alognd Alog AD Acs Apb].
  constructor; simpl_st; try assumption.
  - destruct Aheap. constructor; simpl_st; assumption.
  - now constructor.
  - intros x. cbn [In]. rewrite Alog. split.
    + intros [<-|[H1 H2]]; [split; [exact Ht|right; now left]|]. split; [exact H1|]. tauto.
    + intros [H1 [H2|[H2|H2]]]; try tauto.
  - intros x [<-|Hin]; [tauto|now apply AD].
Qed.

Lemma inv_unW_dead X W D T G s o :
  inv X (o :: W) D T G s -> alive s o = false -> inv X W D T G s.
Proof.
  intros Hi Hd.
  destruct Hi as [Aheap Amem1 Amem2 Aown Afresh Atag Adead Ainner Aitag Ainj Aiown Agin Apres Adev Abuf Acur Acurinj
                  Ahand Avars Avinj AT ATnd Alive Alognd Alog AD Acs Apb].
  constructor; try assumption.
  - intros p b Ha Hw. apply Ainner; [exact Ha|]. intros [<-|H]; [congruence|contradiction].
  - intros b Ha Ht Hg Hw. apply Aiown; try assumption. intros [<-|H]; [congruence|contradiction].
  - intros p m Ha Ht Hw. apply Apres; try assumption. intros [<-|H]; [congruence|contradiction].
  - intros d Ha Ht Hw. apply Acur; try assumption. intros [<-|H]; [congruence|contradiction].
  - intros x k Ha Ht Hw. apply Alive; try assumption. intros [<-|H]; [congruence|contradiction].
  - intros d st Ha Ht Hw. apply Acs; try assumption. intros [<-|H]; [congruence|contradiction].
  - intros p Ha Ht Hw. apply Apb; try assumption. intros [<-|H]; [congruence|contradiction].
Qed.

Lemma inv_unX_dead X W D T G s e :
  inv (e :: X) W D T G s -> alive s e = false -> is_obj_tag (tagof s e) -> inv X W D T G s.
Proof.
  intros Hi Hd [k Hk].
  destruct Hi as [Aheap Amem1 Amem2 Aown Afresh Atag Adead Ainner Aitag Ainj Aiown Agin Apres Adev Abuf Acur Acurinj
                  Ahand Avars Avinj AT ATnd Alive Alognd Alog AD Acs Apb].
  constructor; try assumption.
  - intros x o sl Hin. destruct (Amem1 x o sl Hin) as [H1 H2]. split; [exact H1|]. intros H. apply H2. now right.
  - intros x o sl Ha Hx. apply Amem2; [exact Ha|]. intros [<-|H]; [congruence|contradiction].
  - intros m Ha Ht Hx. apply Abuf; try assumption. intros [<-|H]; [congruence|contradiction].
  - intros v h Hv. destruct (Avars v h Hv) as (A1 & A2 & A3). repeat split; try assumption.
    intros Hx. apply A3. intros [<-|H]; [congruence|contradiction].
Qed.

(* obuf of an exempt memory *)
Lemma inv_set_obuf X W D T G s m v :
  inv X W D T G s -> In m X -> tagof s m = TO KMem ->
  inv X W D T G (set_obuf s (upd (obuf s) m v)).
Proof.
  intros Hi Hx Ht.
  assert (Hhome : forall e, e <> m -> home (set_obuf s (upd (obuf s) m v)) e = home s e).
  { intros e He. unfold home. simpl_st. rewrite upd_other by exact He. reflexivity. }
  assert (Hlt : m < nxt s).
  { destruct (Nat.lt_ge_cases m (nxt s)) as [H|H]; [exact H|].
    destruct (i_fresh _ _ _ _ _ _ _ Hi m H) as (_ & Hf & _). congruence. }
  destruct Hi as [Aheap Amem1 Amem2 Aown Afresh Atag Adead Ainner Aitag Ainj Aiown Agin Apres Adev Abuf Acur Acurinj
                  Ahand Avars Avinj AT ATnd Alive Alognd Alog AD Acs Apb].
  constructor; simpl_st; try assumption.
  - destruct Aheap. constructor; simpl_st; assumption.
  - intros e o sl Hin. destruct (Amem1 e o sl Hin) as [H1 H2]. split; [|exact H2].
    rewrite Hhome; [exact H1|]. intros ->. contradiction.
  - intros e o sl Ha He Hh. apply Amem2; try assumption. rewrite <- Hhome; [exact Hh|]. intros ->. contradiction.
  - intros e He. destruct (Afresh e He) as (A1 & A2 & A3 & A4 & A5 & A6 & A7). repeat split; try tauto.
    rewrite upd_other by lia. exact A6.
  - intros x Ha Htx Hnx. rewrite upd_other; [now apply Abuf|]. intros ->. contradiction.
Qed.

(* fields the invariant does not look at *)
Lemma inv_irrelevant X W D T G s s' :
  inv X W D T G s ->
  nxt s' = nxt s -> tagof s' = tagof s -> alive s' = alive s -> lft s' = lft s -> rgt s' = rgt s ->
  hptr s' = hptr s -> ohead s' = ohead s -> ouse s' = ouse s -> odev s' = odev s -> obuf s' = obuf s ->
  oinner s' = oinner s -> ocur s' = ocur s -> pres s' = pres s -> ginner s' = ginner s -> vars s' = vars s ->
  dlog s' = dlog s -> pslots s' = pslots s ->
  inv X W D T G s'.
Proof.
  intros Hi H1 H2 H3 H4 H5 H6 H7 H8 H9 H10 H11 H12 H13 H14 H15 H16 H17.
  assert (Hh : forall e, home s' e = home s e) by (intros e; unfold home; now rewrite H2, H6, H9, H10, H14).
  destruct Hi as [Aheap Amem1 Amem2 Aown Afresh Atag Adead Ainner Aitag Ainj Aiown Agin Apres Adev Abuf Acur Acurinj
                  Ahand Avars Avinj AT ATnd Alive Alognd Alog AD Acs Apb].
  constructor; rewrite ?H1, ?H2, ?H3, ?H6, ?H8, ?H9, ?H10, ?H11, ?H12, ?H13, ?H14, ?H15, ?H16, ?H17; try assumption.
  - destruct Aheap as [B1 B2 B3 B4 B5 B6]. constructor; rewrite ?H3, ?H4, ?H5, ?H7; assumption.
  - intros e o sl. rewrite Hh. apply Amem1.
  - intros e o sl. rewrite Hh. apply Amem2.
Qed.

End P.
