(* C01 — the destructors of the fixed code preserve the invariant and never reach UB. *)
From Coq Require Import List Arith Bool ZArith Lia Permutation.
From OV.C01 Require Import Model Ring Heap Inv InvPrim InvPrim2 ExecBase.
Import ListNotations.

Lemma ring_remove_length e l : NoDup l -> In e l -> S (length (ring_remove e l)) = length l.
Proof.
  destruct l as [|h t]; [intros _ []|]. intros Hnd Hin. cbn [ring_remove].
  apply NoDup_cons_iff in Hnd as [Hh Hnd].
  destruct (Nat.eqb_spec h e) as [->|Hne].
  - destruct t as [|b t']; [reflexivity|].
    pose proof (app_removelast_last e (l := b :: t') ltac:(discriminate)) as E.
    apply (f_equal (@length nat)) in E. rewrite app_length in E.
    change (length (last (b :: t') e :: removelast (b :: t'))) with (S (length (removelast (b :: t')))).
    change (length (e :: b :: t')) with (S (length (b :: t'))).
    change (length [last (b :: t') e]) with 1 in E. lia.
  - destruct Hin as [E|Hin]; [congruence|]. cbn [length]. f_equal.
    clear Hh Hne. induction t as [|a t IH]; [destruct Hin|]. cbn.
    destruct (Nat.eqb_spec e a) as [->|Hn]; [reflexivity|]. cbn.
    apply NoDup_cons_iff in Hnd as [_ Hnd]. destruct Hin as [E|Hin]; [congruence|]. f_equal. now apply IH.
Qed.

Lemma fits_SH te tw : fits te tw SH = true -> exists k, te = TH k /\ tw = TO k /\ k <> KBuf.
Proof.
  unfold fits. destruct te as [|k|k]; try discriminate. destruct tw as [|k'|k']; try discriminate.
  intros H. apply andb_true_iff in H as [H1 H2]. destruct (kind_eqb_spec k k') as [->|]; [|discriminate].
  exists k'. repeat split. intros ->. discriminate.
Qed.

Lemma upd2_upd2 {A} (f : nat -> slot -> A) k sl v w x s :
  upd2 (upd2 f k sl v) k sl w x s = upd2 f k sl w x s.
Proof.
  destruct (upd2_cases f k sl w x s) as [(-> & -> & E)|(Hd & E)]; rewrite E.
  - apply upd2_same.
  - rewrite !upd2_other by exact Hd. reflexivity.
Qed.

Lemma shrink_hptr_none s h : shrink s (set_hptr s (upd (hptr s) h None)).
Proof.
  unfold shrink. simpl_st. repeat split; auto.
  intros x. unfold upd. destruct (Nat.eqb x h); auto.
Qed.

Section E.
Variable vkind : nat -> kind.
Notation inv := (inv vkind).
Notation exec := (exec fixed).

(* ---------------------------------------------------------------- NULL all wrappers *)
Lemma null_spec : forall n f X W D T G s o,
  length (G o SH) = n -> n < f -> inv X W D T G s -> alive s o = true -> In o W ->
  exists s', exec f (TNull o) s = Some (tt, s') /\ inv X W D T (upd2 G o SH []) s' /\
             shrink s s' /\ alive s' = alive s /\ obuf s' = obuf s /\ oinner s' = oinner s /\
             dlog s' = dlog s /\ pres s' = pres s.
Proof.
  induction n as [|n IH]; intros f X W D T G s o Hlen Hf Hi Ho Hw.
  - destruct f as [|f]; [lia|]. cbn [exec].
    apply length_zero_iff_nil in Hlen.
    erewrite bind_run by (eapply rd_head_run; [apply Hi|exact Ho]). rewrite Hlen. cbn [hd_error].
    exists s. split; [reflexivity|]. split.
    + eapply inv_ext_G; [|exact Hi]. intros o' sl'.
      destruct (upd2_cases G o SH [] o' sl') as [(-> & -> & E)|(Hd & E)]; rewrite E; congruence.
    + repeat split; auto using shrink_refl.
  - destruct f as [|f]; [lia|]. cbn [exec].
    destruct (G o SH) as [|h t] eqn:EG; [discriminate|].
    erewrite bind_run by (eapply rd_head_run; [apply Hi|exact Ho]). rewrite EG. cbn [hd_error].
    assert (Hin : In h (G o SH)) by (rewrite EG; now left).
    destruct (member_facts _ _ _ _ _ _ _ _ _ _ Hi Hin) as (Hah & _ & Hhome & Hnx & Hfit).
    destruct (fits_SH _ _ Hfit) as (k & Hth & Hto & Hk).
    destruct (ring_removeRef_in s G o SH h (i_heap _ _ _ _ _ _ _ Hi) Ho Hin) as (s1 & Hrun & Hsame & Hk1).
    erewrite bind_run by exact Hrun.
    assert (Hi1 : inv (h :: X) W D T (upd2 G o SH (ring_remove h (G o SH))) s1).
    { eapply inv_unlink; try eassumption; [apply incl_refl|]. intros Hn. contradiction. }
    pose proof Hsame as (S1 & S2 & S3 & S4 & _).
    assert (Hah1 : alive s1 h = true) by (rewrite S3; exact Hah).
    erewrite bind_run by (apply wr_hptr_run; exact Hah1).
    set (s2 := set_hptr s1 (upd (hptr s1) h None)).
    assert (Hi2 : inv X W D T (upd2 G o SH (ring_remove h (G o SH))) s2).
    { eapply inv_drop_X; [eapply inv_set_hptr; [exact Hi1|now left| |]|exact Hnx| |].
      - rewrite S2. exists k. exact Hth.
      - intros d0 st _ _ _ _ E. discriminate.
      - intros _. unfold home, s2. simpl_st. rewrite S2, Hth, upd_same. split; [reflexivity|discriminate].
      - intros v _. unfold s2. simpl_st. exact Hah1. }
    destruct (IH f X W D T (upd2 G o SH (ring_remove h (G o SH))) s2 o) as (s' & Hex & Hi' & Hsh & Hal & Hob & Hoi & Hdl & Hpr); try assumption.
    + rewrite upd2_same. pose proof (ring_remove_length h (G o SH) (hk_nd _ _ (i_heap _ _ _ _ _ _ _ Hi) o SH) Hin).
      rewrite EG in H. cbn [length] in *. rewrite EG. lia.
    + lia.
    + unfold s2. simpl_st. rewrite S3. exact Ho.
    + exists s'. split; [exact Hex|]. split.
      * eapply inv_ext_G; [|exact Hi']. intros o' sl'. symmetry. apply upd2_upd2.
      * assert (Hs12 : shrink s s2).
        { eapply shrink_trans; [apply same_obj_shrink; exact Hsame|apply shrink_hptr_none]. }
        destruct Hsame as (T1 & T2 & T3 & T4 & T5 & T6 & T7 & T8 & T9 & T10 & T11 & T12 & T13 & T14 & T15 & T16 & T17 & T18).
        split; [eapply shrink_trans; eassumption|].
        unfold s2 in *. simpl_st. repeat split; congruence.
Qed.

(* ---------------------------------------------------------------- small facts *)
Lemma inv_same_obj X W D T G s s' :
  inv X W D T G s -> same_obj s s' -> heap_ok s' G -> inv X W D T G s'.
Proof.
  intros Hi Hs Hk. apply (inv_transfer vkind X X W W D T G G s s' Hi Hs Hk (incl_refl W)).
  - apply (i_mem1 _ _ _ _ _ _ _ Hi).
  - apply (i_mem2 _ _ _ _ _ _ _ Hi).
  - apply (i_own _ _ _ _ _ _ _ Hi).
  - apply (i_dead _ _ _ _ _ _ _ Hi).
  - intros b Hb. apply (i_ginner _ _ _ _ _ _ _ Hi b Hb).
  - apply (i_pres _ _ _ _ _ _ _ Hi).
  - apply (i_buf _ _ _ _ _ _ _ Hi).
  - intros v h Hv. apply (i_vars _ _ _ _ _ _ _ Hi v h Hv).
  - intros o Ha Hw k Ht. apply (i_live _ _ _ _ _ _ _ Hi o k Ha Ht Hw).
Qed.

Lemma nil_if_no_member (l : list nat) : (forall e, ~ In e l) -> l = [].
Proof. destruct l as [|a l]; [reflexivity|]. intros H. exfalso. apply (H a). now left. Qed.

Lemma ring_slot_kind X W D T G s e o sl k :
  inv X W D T G s -> In e (G o sl) -> tagof s o = TO k ->
  match sl with
  | SH => k <> KBuf
  | SMem => k = KBuf \/ k = KPool
  | _ => k = KDev
  end.
Proof.
  intros Hi Hin Ht. destruct (i_own _ _ _ _ _ _ _ Hi _ _ _ Hin) as [_ Hf]. rewrite Ht in Hf.
  unfold fits in Hf. destruct sl, (tagof s e) as [|ke|ke]; try discriminate; try destruct ke; try discriminate;
    destruct k; try discriminate; auto; try congruence.
  all: try (apply andb_true_iff in Hf as [_ Hf]; discriminate).
Qed.

Lemma obj_not_in_T X W D T G s o : inv X W D T G s -> is_obj_tag (tagof s o) -> ~ In o T.
Proof.
  intros Hi [k Hk] Hin. destruct (i_T _ _ _ _ _ _ _ Hi o Hin) as [_ [k' Hk']]. congruence.
Qed.

Lemma remove_self_notin (l : list nat) o : ~ In o l -> remove Nat.eq_dec o (o :: l) = l.
Proof.
  intros H. cbn. destruct (Nat.eq_dec o o); [|congruence]. now apply notin_remove.
Qed.

Lemma msum_ge_len s n (l : list nat) :
  NoDup l -> (forall x, In x l -> x < n /\ 1 <= mcell s x) -> length l <= msum s n.
Proof.
  revert l. induction n as [|n IH]; intros l Hnd Hl.
  - destruct l as [|a l]; [cbn; lia|]. destruct (Hl a (or_introl eq_refl)). lia.
  - cbn [msum]. destruct (in_dec Nat.eq_dec n l) as [Hin|Hnin].
    + assert (Hlen : length l = S (length (remove Nat.eq_dec n l))).
      { clear -Hnd Hin. induction l as [|a l IHl]; [destruct Hin|].
        apply NoDup_cons_iff in Hnd as [Ha Hnd]. cbn [remove]. destruct (Nat.eq_dec n a) as [->|Hne].
        - cbn [length]. f_equal. symmetry. f_equal. now apply notin_remove.
        - cbn [length]. f_equal. apply IHl; [exact Hnd|]. destruct Hin; [congruence|assumption]. }
      assert (IH' : length (remove Nat.eq_dec n l) <= msum s n).
      { apply IH; [now apply NoDup_remove_eq|]. intros x Hx. apply in_remove in Hx as [Hx Hne].
        destruct (Hl x Hx). split; [lia|assumption]. }
      destruct (Hl n Hin). lia.
    + assert (length l <= msum s n); [|lia].
      apply IH; [exact Hnd|]. intros x Hx. destruct (Hl x Hx). split; [|assumption].
      assert (x <> n) by (intros ->; contradiction). lia.
Qed.

Lemma ring_len_measure X W D T G s o sl : inv X W D T G s -> length (G o sl) <= measure s.
Proof.
  intros Hi. unfold measure. apply msum_ge_len; [apply (hk_nd _ _ (i_heap _ _ _ _ _ _ _ Hi))|].
  intros x Hx. pose proof (hk_alive _ _ (i_heap _ _ _ _ _ _ _ Hi) _ _ _ Hx) as Ha.
  split; [eapply inv_lt; eassumption|]. unfold mcell. rewrite Ha. lia.
Qed.

Lemma shrink_kill s e : shrink s (set_alive s (upd (alive s) e false)).
Proof.
  unfold shrink. simpl_st. repeat split; auto.
  intros x. unfold upd. destruct (Nat.eqb x e); [discriminate|auto].
Qed.

Lemma shrink_dlog s l : shrink s (set_dlog s l).
Proof. unfold shrink. simpl_st. repeat split; auto. Qed.

(* ---------------------------------------------------------------- leaving the device's ring *)
Lemma detach_dev X W D T G s o d sl :
  inv X W D T G s -> alive s o = true -> alive s d = true -> tagof s d = TO KDev -> sl <> SH -> o <> d ->
  (In o (G d sl) \/ free_of G o) ->
  exists s' G', ring_removeRef d sl o s = Some (tt, s') /\ same_obj s s' /\ inv (o :: X) W D T G' s' /\
                (forall sl', G' o sl' = G o sl').
Proof.
  intros Hi Hao Had Htd Hsl Hod [Hin|Hfree].
  - destruct (ring_removeRef_in s G d sl o (i_heap _ _ _ _ _ _ _ Hi) Had Hin) as (s1 & Hrun & Hsame & Hk1).
    exists s1, (upd2 G d sl (ring_remove o (G d sl))). split; [exact Hrun|]. split; [exact Hsame|]. split.
    + eapply inv_unlink; try eassumption; [apply incl_refl|].
      intros Hw k Hk. rewrite Htd in Hk. injection Hk as <-.
      rewrite upd2_other by (right; intros E; apply Hsl; now symmetry).
      apply (i_live _ _ _ _ _ _ _ Hi d KDev Had Htd Hw).
    + intros sl'. apply upd2_other. left. exact Hod.
  - destruct (ring_removeRef_out s G d sl o (i_heap _ _ _ _ _ _ _ Hi) Had Hao Hfree) as (s1 & Hrun & Hsame & Hk1).
    exists s1, G. split; [exact Hrun|]. split; [exact Hsame|]. split; [|reflexivity].
    apply inv_weaken_X; [|exact Hfree]. eapply inv_same_obj; eassumption.
Qed.

End E.
