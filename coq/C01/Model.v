(* C01 — executable pointer-level model of OCCA's reference rings, handle wrappers and
   backend-object destructors.  Transcribed branch for branch from

     include/occa/utils/gc.hpp, src/occa/internal/utils/gc.{hpp,tpp,cpp}
         ringEntry_t::removeRef, ring_t::addRef / removeRef / needsFree
     src/core/{memory,memoryPool,device,kernel,stream,streamTag}.cpp
         copy-ctor, operator=, dtor, setModeX, removeXRef, free, swap, dontUseRefs
     src/occa/internal/core/{memory,buffer,memoryPool,device,kernel,stream,streamTag}.cpp
         constructors (add to the owner's ring), destructors (null every wrapper, release the
         parent), modeDevice_t::freeResources / freeRing, modeMemoryPool_t::reserve / resize
     src/occa/internal/modes/serial/{device,memoryPool,buffer}.cpp  (which objects get created)

   Every C++ object that is a gc::ringEntry_t (the six wrapper classes, modeBuffer_t incl. pools,
   modeMemory_t, modeKernel_t, modeStream_t, modeStreamTag_t) and modeDevice_t is a cell, named by
   a natural number that is never reused.  A cell has a validity flag ([alive] = constructed and
   not yet destroyed/deallocated), the two ring-entry pointers, and the fields of its class that
   matter for reference tracking.  Every dereference of a cell checks [alive]; a failed check, a
   second [delete] of the same object, [std::set::erase(end())] and loop-fuel exhaustion yield
   [None], the observation "UB".  No proofs in this file. *)
From Coq Require Import List Arith Bool ZArith.
Import ListNotations.

(* ---------------------------------------------------------------- variants of the code *)
(* The three places changed by fixes/C01-1.patch and fixes/C01-2.patch; [pinned] is the code
   before the fixes, [fixed] the code after. *)
Record variant := { v_swap : bool;    (* swap goes through copy/assign (true) or swaps raw pointers *)
                    v_byref : bool;   (* modeDevice_t::freeRing takes the ring by reference *)
                    v_inner : bool }. (* a pool removes its own buffer from the device's memoryRing *)
Definition fixed  := {| v_swap := true;  v_byref := true;  v_inner := true |}.
Definition pinned := {| v_swap := false; v_byref := false; v_inner := false |}.

(* ---------------------------------------------------------------- cells *)
Inductive kind := KDev | KBuf | KPool | KMem | KKer | KStr | KTag.
Inductive slot := SH      (* the ring of wrappers (deviceRing, memoryRing of a modeMemory_t, ...) *)
                | SMem    (* modeBuffer_t::modeMemoryRing *)
                | SBuf | SKer | SStr | STag.   (* modeDevice_t::memoryRing, kernelRing, ... *)
Inductive tag := TFree | TH (k : kind) | TO (k : kind).   (* wrapper of a k / backend object k *)

Definition kind_eqb (a b : kind) : bool :=
  match a, b with
  | KDev, KDev | KBuf, KBuf | KPool, KPool | KMem, KMem | KKer, KKer | KStr, KStr | KTag, KTag => true
  | _, _ => false
  end.
Definition slot_eqb (a b : slot) : bool :=
  match a, b with
  | SH, SH | SMem, SMem | SBuf, SBuf | SKer, SKer | SStr, SStr | STag, STag => true
  | _, _ => false
  end.
Definition onat_eqb (a b : option nat) : bool :=
  match a, b with
  | None, None => true
  | Some x, Some y => Nat.eqb x y
  | _, _ => false
  end.

(* the ring of the device a backend object of kind k is entered in *)
Definition dev_slot (k : kind) : slot :=
  match k with KKer => SKer | KStr => SStr | KTag => STag | _ => SBuf end.

Record st := {
  nxt    : nat;                          (* next fresh cell *)
  tagof  : nat -> tag;
  alive  : nat -> bool;
  lft    : nat -> nat;                   (* ringEntry_t::leftRingEntry *)
  rgt    : nat -> nat;                   (* ringEntry_t::rightRingEntry *)
  hptr   : nat -> option nat;            (* wrapper: modeMemory / modeDevice / ... *)
  ohead  : nat -> slot -> option nat;    (* ring_t::head of each ring of an object *)
  ouse   : nat -> bool;                  (* ring_t::useRefs of the wrapper ring *)
  odev   : nat -> option nat;            (* modeDevice of a buffer / kernel / stream / tag *)
  obuf   : nat -> option nat;            (* modeMemory_t::modeBuffer *)
  oinner : nat -> option nat;            (* modeMemoryPool_t::buffer *)
  ocur   : nat -> nat;                   (* modeDevice_t::currentStream (an embedded wrapper) *)
  osize  : nat -> Z;                     (* modeBuffer_t::size, bytes *)
  obytes : nat -> Z;                     (* modeDevice_t::bytesAllocated *)
  pres   : nat -> list nat;              (* modeMemoryPool_t::reservations, sorted by offset *)
  pslots : nat -> nat;                   (* pool size in units of the alignment (128 bytes) *)
  moff   : nat -> nat;                   (* offset of a reservation, same unit *)
  ginner : nat -> bool;                  (* ghost: this buffer was made by a pool for itself *)
  vars   : nat -> option nat;            (* handle variable -> heap-allocated wrapper *)
  dlog   : list nat;                     (* destructor runs, most recent first *)
  dus    : list nat                      (* objects dontUseRefs() was called on, most recent first *)
}.

Definition upd {A} (f : nat -> A) (k : nat) (v : A) : nat -> A :=
  fun x => if Nat.eqb x k then v else f x.
Definition upd2 {A} (f : nat -> slot -> A) (k : nat) (sl : slot) (v : A) : nat -> slot -> A :=
  fun x s => if Nat.eqb x k && slot_eqb s sl then v else f x s.

Definition init : st :=
  {| nxt := 0; tagof := fun _ => TFree; alive := fun _ => false;
     lft := fun x => x; rgt := fun x => x; hptr := fun _ => None;
     ohead := fun _ _ => None; ouse := fun _ => true; odev := fun _ => None;
     obuf := fun _ => None; oinner := fun _ => None; ocur := fun _ => 0;
     osize := fun _ => 0%Z; obytes := fun _ => 0%Z; pres := fun _ => []; pslots := fun _ => 0;
     moff := fun _ => 0; ginner := fun _ => false; vars := fun _ => None; dlog := []; dus := [] |}.

(* field setters *)
Definition set_nxt s v := {| nxt := v; tagof := tagof s; alive := alive s; lft := lft s; rgt := rgt s; hptr := hptr s; ohead := ohead s; ouse := ouse s; odev := odev s; obuf := obuf s; oinner := oinner s; ocur := ocur s; osize := osize s; obytes := obytes s; pres := pres s; pslots := pslots s; moff := moff s; ginner := ginner s; vars := vars s; dlog := dlog s; dus := dus s |}.
Definition set_tagof s v := {| nxt := nxt s; tagof := v; alive := alive s; lft := lft s; rgt := rgt s; hptr := hptr s; ohead := ohead s; ouse := ouse s; odev := odev s; obuf := obuf s; oinner := oinner s; ocur := ocur s; osize := osize s; obytes := obytes s; pres := pres s; pslots := pslots s; moff := moff s; ginner := ginner s; vars := vars s; dlog := dlog s; dus := dus s |}.
Definition set_alive s v := {| nxt := nxt s; tagof := tagof s; alive := v; lft := lft s; rgt := rgt s; hptr := hptr s; ohead := ohead s; ouse := ouse s; odev := odev s; obuf := obuf s; oinner := oinner s; ocur := ocur s; osize := osize s; obytes := obytes s; pres := pres s; pslots := pslots s; moff := moff s; ginner := ginner s; vars := vars s; dlog := dlog s; dus := dus s |}.
Definition set_lft s v := {| nxt := nxt s; tagof := tagof s; alive := alive s; lft := v; rgt := rgt s; hptr := hptr s; ohead := ohead s; ouse := ouse s; odev := odev s; obuf := obuf s; oinner := oinner s; ocur := ocur s; osize := osize s; obytes := obytes s; pres := pres s; pslots := pslots s; moff := moff s; ginner := ginner s; vars := vars s; dlog := dlog s; dus := dus s |}.
Definition set_rgt s v := {| nxt := nxt s; tagof := tagof s; alive := alive s; lft := lft s; rgt := v; hptr := hptr s; ohead := ohead s; ouse := ouse s; odev := odev s; obuf := obuf s; oinner := oinner s; ocur := ocur s; osize := osize s; obytes := obytes s; pres := pres s; pslots := pslots s; moff := moff s; ginner := ginner s; vars := vars s; dlog := dlog s; dus := dus s |}.
Definition set_hptr s v := {| nxt := nxt s; tagof := tagof s; alive := alive s; lft := lft s; rgt := rgt s; hptr := v; ohead := ohead s; ouse := ouse s; odev := odev s; obuf := obuf s; oinner := oinner s; ocur := ocur s; osize := osize s; obytes := obytes s; pres := pres s; pslots := pslots s; moff := moff s; ginner := ginner s; vars := vars s; dlog := dlog s; dus := dus s |}.
Definition set_ohead s v := {| nxt := nxt s; tagof := tagof s; alive := alive s; lft := lft s; rgt := rgt s; hptr := hptr s; ohead := v; ouse := ouse s; odev := odev s; obuf := obuf s; oinner := oinner s; ocur := ocur s; osize := osize s; obytes := obytes s; pres := pres s; pslots := pslots s; moff := moff s; ginner := ginner s; vars := vars s; dlog := dlog s; dus := dus s |}.
Definition set_ouse s v := {| nxt := nxt s; tagof := tagof s; alive := alive s; lft := lft s; rgt := rgt s; hptr := hptr s; ohead := ohead s; ouse := v; odev := odev s; obuf := obuf s; oinner := oinner s; ocur := ocur s; osize := osize s; obytes := obytes s; pres := pres s; pslots := pslots s; moff := moff s; ginner := ginner s; vars := vars s; dlog := dlog s; dus := dus s |}.
Definition set_odev s v := {| nxt := nxt s; tagof := tagof s; alive := alive s; lft := lft s; rgt := rgt s; hptr := hptr s; ohead := ohead s; ouse := ouse s; odev := v; obuf := obuf s; oinner := oinner s; ocur := ocur s; osize := osize s; obytes := obytes s; pres := pres s; pslots := pslots s; moff := moff s; ginner := ginner s; vars := vars s; dlog := dlog s; dus := dus s |}.
Definition set_obuf s v := {| nxt := nxt s; tagof := tagof s; alive := alive s; lft := lft s; rgt := rgt s; hptr := hptr s; ohead := ohead s; ouse := ouse s; odev := odev s; obuf := v; oinner := oinner s; ocur := ocur s; osize := osize s; obytes := obytes s; pres := pres s; pslots := pslots s; moff := moff s; ginner := ginner s; vars := vars s; dlog := dlog s; dus := dus s |}.
Definition set_oinner s v := {| nxt := nxt s; tagof := tagof s; alive := alive s; lft := lft s; rgt := rgt s; hptr := hptr s; ohead := ohead s; ouse := ouse s; odev := odev s; obuf := obuf s; oinner := v; ocur := ocur s; osize := osize s; obytes := obytes s; pres := pres s; pslots := pslots s; moff := moff s; ginner := ginner s; vars := vars s; dlog := dlog s; dus := dus s |}.
Definition set_ocur s v := {| nxt := nxt s; tagof := tagof s; alive := alive s; lft := lft s; rgt := rgt s; hptr := hptr s; ohead := ohead s; ouse := ouse s; odev := odev s; obuf := obuf s; oinner := oinner s; ocur := v; osize := osize s; obytes := obytes s; pres := pres s; pslots := pslots s; moff := moff s; ginner := ginner s; vars := vars s; dlog := dlog s; dus := dus s |}.
Definition set_osize s v := {| nxt := nxt s; tagof := tagof s; alive := alive s; lft := lft s; rgt := rgt s; hptr := hptr s; ohead := ohead s; ouse := ouse s; odev := odev s; obuf := obuf s; oinner := oinner s; ocur := ocur s; osize := v; obytes := obytes s; pres := pres s; pslots := pslots s; moff := moff s; ginner := ginner s; vars := vars s; dlog := dlog s; dus := dus s |}.
Definition set_obytes s v := {| nxt := nxt s; tagof := tagof s; alive := alive s; lft := lft s; rgt := rgt s; hptr := hptr s; ohead := ohead s; ouse := ouse s; odev := odev s; obuf := obuf s; oinner := oinner s; ocur := ocur s; osize := osize s; obytes := v; pres := pres s; pslots := pslots s; moff := moff s; ginner := ginner s; vars := vars s; dlog := dlog s; dus := dus s |}.
Definition set_pres s v := {| nxt := nxt s; tagof := tagof s; alive := alive s; lft := lft s; rgt := rgt s; hptr := hptr s; ohead := ohead s; ouse := ouse s; odev := odev s; obuf := obuf s; oinner := oinner s; ocur := ocur s; osize := osize s; obytes := obytes s; pres := v; pslots := pslots s; moff := moff s; ginner := ginner s; vars := vars s; dlog := dlog s; dus := dus s |}.
Definition set_pslots s v := {| nxt := nxt s; tagof := tagof s; alive := alive s; lft := lft s; rgt := rgt s; hptr := hptr s; ohead := ohead s; ouse := ouse s; odev := odev s; obuf := obuf s; oinner := oinner s; ocur := ocur s; osize := osize s; obytes := obytes s; pres := pres s; pslots := v; moff := moff s; ginner := ginner s; vars := vars s; dlog := dlog s; dus := dus s |}.
Definition set_moff s v := {| nxt := nxt s; tagof := tagof s; alive := alive s; lft := lft s; rgt := rgt s; hptr := hptr s; ohead := ohead s; ouse := ouse s; odev := odev s; obuf := obuf s; oinner := oinner s; ocur := ocur s; osize := osize s; obytes := obytes s; pres := pres s; pslots := pslots s; moff := v; ginner := ginner s; vars := vars s; dlog := dlog s; dus := dus s |}.
Definition set_ginner s v := {| nxt := nxt s; tagof := tagof s; alive := alive s; lft := lft s; rgt := rgt s; hptr := hptr s; ohead := ohead s; ouse := ouse s; odev := odev s; obuf := obuf s; oinner := oinner s; ocur := ocur s; osize := osize s; obytes := obytes s; pres := pres s; pslots := pslots s; moff := moff s; ginner := v; vars := vars s; dlog := dlog s; dus := dus s |}.
Definition set_vars s v := {| nxt := nxt s; tagof := tagof s; alive := alive s; lft := lft s; rgt := rgt s; hptr := hptr s; ohead := ohead s; ouse := ouse s; odev := odev s; obuf := obuf s; oinner := oinner s; ocur := ocur s; osize := osize s; obytes := obytes s; pres := pres s; pslots := pslots s; moff := moff s; ginner := ginner s; vars := v; dlog := dlog s; dus := dus s |}.
Definition set_dlog s v := {| nxt := nxt s; tagof := tagof s; alive := alive s; lft := lft s; rgt := rgt s; hptr := hptr s; ohead := ohead s; ouse := ouse s; odev := odev s; obuf := obuf s; oinner := oinner s; ocur := ocur s; osize := osize s; obytes := obytes s; pres := pres s; pslots := pslots s; moff := moff s; ginner := ginner s; vars := vars s; dlog := v; dus := dus s |}.
Definition set_dus s v := {| nxt := nxt s; tagof := tagof s; alive := alive s; lft := lft s; rgt := rgt s; hptr := hptr s; ohead := ohead s; ouse := ouse s; odev := odev s; obuf := obuf s; oinner := oinner s; ocur := ocur s; osize := osize s; obytes := obytes s; pres := pres s; pslots := pslots s; moff := moff s; ginner := ginner s; vars := vars s; dlog := dlog s; dus := v |}.

(* ---------------------------------------------------------------- the UB monad *)
Definition M (A : Type) := st -> option (A * st).
Definition ret {A} (a : A) : M A := fun s => Some (a, s).
Definition fail {A} : M A := fun _ => None.
Definition bind {A B} (m : M A) (f : A -> M B) : M B :=
  fun s => match m s with None => None | Some (a, s') => f a s' end.
Notation "x <- m ;; f" := (bind m (fun x => f)) (at level 61, m at next level, right associativity).
Notation "m ;;; f" := (bind m (fun _ => f)) (at level 61, right associativity).
Definition get {A} (f : st -> A) : M A := fun s => Some (f s, s).
Definition modify (f : st -> st) : M unit := fun s => Some (tt, f s).

(* dereferencing cell e: it must be a constructed, not yet destroyed C++ object *)
Definition need (e : nat) : M unit := fun s => if alive s e then Some (tt, s) else None.

(* reads / writes of a field of cell e (each one dereferences e) *)
Definition rd {A} (f : st -> nat -> A) (e : nat) : M A := need e ;;; get (fun s => f s e).
Definition wr_lft e v := need e ;;; modify (fun s => set_lft s (upd (lft s) e v)).
Definition wr_rgt e v := need e ;;; modify (fun s => set_rgt s (upd (rgt s) e v)).
Definition wr_hptr e v := need e ;;; modify (fun s => set_hptr s (upd (hptr s) e v)).
Definition wr_head o sl v := need o ;;; modify (fun s => set_ohead s (upd2 (ohead s) o sl v)).
Definition rd_head o sl : M (option nat) := need o ;;; get (fun s => ohead s o sl).
Definition wr_obuf e v := need e ;;; modify (fun s => set_obuf s (upd (obuf s) e v)).
Definition wr_ouse e v := need e ;;; modify (fun s => set_ouse s (upd (ouse s) e v)).
Definition wr_oinner e v := need e ;;; modify (fun s => set_oinner s (upd (oinner s) e v)).
Definition wr_osize e v := need e ;;; modify (fun s => set_osize s (upd (osize s) e v)).
Definition wr_obytes e v := need e ;;; modify (fun s => set_obytes s (upd (obytes s) e v)).
Definition wr_pres e v := need e ;;; modify (fun s => set_pres s (upd (pres s) e v)).
Definition wr_pslots e v := need e ;;; modify (fun s => set_pslots s (upd (pslots s) e v)).

Definition kind_of (s : st) (e : nat) : kind :=
  match tagof s e with TH k => k | TO k => k | TFree => KDev end.

(* the end of a destructor / deallocation of the cell *)
Definition kill (e : nat) : M unit := need e ;;; modify (fun s => set_alive s (upd (alive s) e false)).

(* operator new + the part of the constructor that initialises the fields *)
Definition alloc (t : tag) : M nat :=
  fun s => let e := nxt s in
    Some (e, set_nxt (set_tagof (set_alive s (upd (alive s) e true)) (upd (tagof s) e t)) (S e)).
(* cells are fresh, so lft/rgt = self (ringEntry_t()), hptr = None, heads = None, useRefs = true
   already hold from [init] *)

(* ---------------------------------------------------------------- gc.cpp / gc.tpp *)
(* ringEntry_t::removeRef *)
Definition entry_unlink (e : nat) : M unit :=
  l <- rd lft e ;;
  (if Nat.eqb l e then ret tt
   else r <- rd rgt e ;;
        wr_rgt l r ;;;           (* leftRingEntry->rightRingEntry = rightRingEntry *)
        wr_lft r l) ;;;          (* rightRingEntry->leftRingEntry = leftRingEntry  *)
  wr_lft e e ;;; wr_rgt e e.

(* ring_t::addRef on the ring (o, sl) *)
Definition ring_addRef (o : nat) (sl : slot) (e : nat) : M unit :=
  hd <- rd_head o sl ;;
  match hd with
  | Some h =>
      if Nat.eqb h e then ret tt else
      entry_unlink e ;;;
      tail <- rd lft h ;;
      wr_lft e tail ;;;
      wr_rgt tail e ;;;
      wr_lft h e ;;;
      wr_rgt e h
  | None =>
      entry_unlink e ;;;
      wr_head o sl (Some e)
  end.

(* ring_t::removeRef, on a head value (so that the by-value copy made by the pinned freeRing can
   be expressed); returns the new head *)
Definition ring_removeRef_core (hd : option nat) (e : nat) : M (option nat) :=
  match hd with
  | None => ret None
  | Some h =>
      tail <- rd lft h ;;
      entry_unlink e ;;;
      if Nat.eqb h e then ret (if Nat.eqb tail e then None else Some tail)
      else ret (Some h)
  end.
Definition ring_removeRef (o : nat) (sl : slot) (e : nat) : M unit :=
  hd <- rd_head o sl ;;
  hd' <- ring_removeRef_core hd e ;;
  wr_head o sl hd'.

(* ring_t::needsFree of the wrapper ring *)
Definition needsFree (o : nat) : M bool :=
  u <- rd ouse o ;; hd <- rd_head o SH ;;
  ret (u && match hd with None => true | Some _ => false end).

(* ---------------------------------------------------------------- destructors *)
Definition log_destroy (o : nat) : M unit :=
  fun s => if existsb (Nat.eqb o) (dlog s) then None     (* destructor run twice *)
           else Some (tt, set_dlog s (o :: dlog s)).

Fixpoint remove_nat (x : nat) (l : list nat) : list nat :=
  match l with [] => [] | y :: t => if Nat.eqb x y then t else y :: remove_nat x t end.

(* virtual modeBuffer_t::removeModeMemoryRef (pool override erases the reservation) *)
Definition buf_removeModeMemoryRef (b m : nat) : M unit :=
  need b ;;;
  k <- get (fun s => kind_of s b) ;;
  ring_removeRef b SMem m ;;;
  match k with
  | KPool => res <- rd pres b ;;
             if existsb (Nat.eqb m) res then wr_pres b (remove_nat m res)
             else fail                          (* reservations.erase(reservations.end()) *)
  | _ => ret tt
  end.

(* virtual modeBuffer_t::needsFree *)
Definition buf_needsFree (b : nat) : M bool :=
  need b ;;;
  k <- get (fun s => kind_of s b) ;;
  match k with
  | KPool => needsFree b
  | _ => hd <- rd_head b SMem ;; ret (match hd with None => true | Some _ => false end)
  end.

Inductive task :=
| TDelete (o : nat)                        (* delete o; *)
| TNull (o : nat)                          (* while (ring.head) { removeRef; wrapper->modeX = NULL } *)
| TChildren (b : nat)                      (* ~modeBuffer_t: destroy all slices *)
| TFreeRingRef (d : nat) (sl : slot)       (* freeRing(ring&) *)
| TFreeRingVal (hd : option nat)           (* freeRing(ring) on the copy whose head is hd *)
| TFreeDev (d : nat)                       (* freeResources(); delete modeDevice *)
| TRelease (h : nat).                      (* wrapper::removeXRef() *)

Section WithVariant.
Variable V : variant.

Fixpoint exec (f : nat) (t : task) : M unit :=
  match f with
  | 0 => fail
  | S f' =>
    match t with
    | TNull o =>
        hd <- rd_head o SH ;;
        match hd with
        | None => ret tt
        | Some h => ring_removeRef o SH h ;;; wr_hptr h None ;;; exec f' (TNull o)
        end
    | TChildren b =>
        hd <- rd_head b SMem ;;
        match hd with
        | None => ret tt
        | Some m =>
            ring_removeRef b SMem m ;;;      (* the base-class removeModeMemoryRef *)
            wr_obuf m None ;;;
            exec f' (TDelete m) ;;;
            exec f' (TChildren b)
        end
    | TFreeRingRef d sl =>
        hd <- rd_head d sl ;;
        match hd with
        | None => ret tt
        | Some p => ring_removeRef d sl p ;;; exec f' (TDelete p) ;;; exec f' (TFreeRingRef d sl)
        end
    | TFreeRingVal hd =>
        match hd with
        | None => ret tt
        | Some p => hd' <- ring_removeRef_core hd p ;; exec f' (TDelete p) ;;; exec f' (TFreeRingVal hd')
        end
    | TFreeDev d =>
        need d ;;;
        (if v_byref V then
           exec f' (TFreeRingRef d SKer) ;;; exec f' (TFreeRingRef d SBuf) ;;;
           exec f' (TFreeRingRef d SStr) ;;; exec f' (TFreeRingRef d STag)
         else
           hk <- rd_head d SKer ;; exec f' (TFreeRingVal hk) ;;;
           hb <- rd_head d SBuf ;; exec f' (TFreeRingVal hb) ;;;
           hs <- rd_head d SStr ;; exec f' (TFreeRingVal hs) ;;;
           ht <- rd_head d STag ;; exec f' (TFreeRingVal ht)) ;;;
        exec f' (TDelete d)
    | TRelease h =>
        p <- rd hptr h ;;
        match p with
        | None => ret tt
        | Some o =>
            ring_removeRef o SH h ;;;
            nf <- needsFree o ;;
            if nf then
              k <- get (fun s => kind_of s h) ;;
              (match k with
               | KDev => exec f' (TFreeDev o)
               | _ => exec f' (TDelete o)
               end) ;;;
              wr_hptr h None
            else ret tt
        end
    | TDelete o =>
        need o ;;;
        k <- get (fun s => kind_of s o) ;;
        log_destroy o ;;;
        (match k with
         | KMem =>
             exec f' (TNull o) ;;;
             (* removeModeMemoryRef() *)
             b <- rd obuf o ;;
             match b with
             | None => ret tt
             | Some b =>
                 buf_removeModeMemoryRef b o ;;;
                 nf <- buf_needsFree b ;;
                 (if nf then exec f' (TDelete b) else ret tt) ;;;
                 wr_obuf o None
             end
         | KBuf | KPool =>
             (match k with
              | KPool =>
                  exec f' (TNull o) ;;;
                  ib <- rd oinner o ;;
                  (match ib with Some ib => exec f' (TDelete ib) | None => ret tt end) ;;;
                  wr_osize o 0%Z
              | _ => ret tt
              end) ;;;
             exec f' (TChildren o) ;;;
             d <- rd odev o ;;
             match d with
             | None => ret tt
             | Some d =>
                 sz <- rd osize o ;;
                 bt <- rd obytes d ;;
                 wr_obytes d (bt - sz)%Z ;;;
                 ring_removeRef d SBuf o
             end
         | KDev =>
             exec f' (TNull o) ;;;
             (* member destructor: currentStream.~stream() *)
             c <- rd ocur o ;;
             exec f' (TRelease c) ;;;
             kill c
         | KKer | KStr | KTag =>
             exec f' (TNull o) ;;;
             d <- rd odev o ;;
             match d with
             | None => ret tt
             | Some d => need d ;;; ring_removeRef d (dev_slot k) o
             end
         end) ;;;
        kill o
    end
  end.

(* fuel for one library call: more than the number of cells, hence more than any ring is long
   and any ownership chain deep *)
Definition fuel_of (s : st) : nat := 2 * nxt s + 8.
Definition run_task (t : task) : M unit := fun s => exec (fuel_of s) t s.

(* ---------------------------------------------------------------- wrappers (src/core/*.cpp) *)
(* setModeX *)
Definition h_set (h : nat) (o' : option nat) : M unit :=
  p <- rd hptr h ;;
  if onat_eqb p o' then ret tt else
  run_task (TRelease h) ;;;
  wr_hptr h o' ;;;
  match o' with
  | Some o => need o ;;; ring_addRef o SH h
  | None => ret tt
  end.

(* wrapper(modeX_t ptr) / default ctor followed by setModeX *)
Definition h_new (k : kind) (o' : option nat) : M nat :=
  h <- alloc (TH k) ;; h_set h o' ;;; ret h.

(* copy constructor *)
Definition h_copy (src : nat) : M nat :=
  p <- rd hptr src ;;
  k <- get (fun s => kind_of s src) ;;
  h_new k p.

(* operator = *)
Definition h_assign (dst src : nat) : M unit :=
  p <- rd hptr src ;; need dst ;;; h_set dst p.

(* destructor (+ deallocation of the wrapper) *)
Definition h_dtor (h : nat) : M unit := run_task (TRelease h) ;;; kill h.

(* free() *)
Definition h_free (h : nat) : M unit :=
  p <- rd hptr h ;;
  k <- get (fun s => kind_of s h) ;;
  match k with
  | KMem =>
      match p with None => ret tt | Some o => run_task (TDelete o) ;;; wr_hptr h None end
  | KPool =>
      (* memoryPool::free does not reset its own pointer *)
      match p with None => ret tt | Some o => run_task (TDelete o) end
  | KDev =>
      match p with None => ret tt | Some d => run_task (TFreeDev d) ;;; wr_hptr h None end
  | _ =>
      (* kernel / stream / streamTag: delete modeX (NULL is fine); modeX = NULL *)
      (match p with None => ret tt | Some o => run_task (TDelete o) end) ;;; wr_hptr h None
  end.

(* dontUseRefs() *)
Definition h_dontUseRefs (h : nat) : M unit :=
  p <- rd hptr h ;;
  match p with
  | None => ret tt
  | Some o => wr_ouse o false ;;; modify (fun s => set_dus s (o :: dus s))
  end.

(* memory::swap / memoryPool::swap *)
Definition h_swap (a b : nat) : M unit :=
  if v_swap V then
    tmp <- h_copy b ;;
    h_assign b a ;;;
    h_assign a tmp ;;;
    h_dtor tmp
  else
    pa <- rd hptr a ;; pb <- rd hptr b ;;
    wr_hptr a pb ;;; wr_hptr b pa.

(* ---------------------------------------------------------------- object creation *)
Definition set_field_odev e v := modify (fun s => set_odev s (upd (odev s) e v)).
Definition set_field_obuf e v := modify (fun s => set_obuf s (upd (obuf s) e v)).

(* modeKernel_t / modeStream_t / modeStreamTag_t constructor *)
Definition new_leaf (k : kind) (d : nat) : M nat :=
  o <- alloc (TO k) ;; set_field_odev o (Some d) ;;; need d ;;; ring_addRef d (dev_slot k) o ;;; ret o.

(* modeBuffer_t constructor (also the base part of a pool) *)
Definition new_buffer (k : kind) (d : nat) (size : Z) : M nat :=
  b <- alloc (TO k) ;; set_field_odev b (Some d) ;;; wr_osize b size ;;;
  need d ;;; ring_addRef d SBuf b ;;; ret b.

(* modeMemory_t constructor on a plain buffer *)
Definition new_memory (b : nat) : M nat :=
  m <- alloc (TO KMem) ;; set_field_obuf m (Some b) ;;; need b ;;; ring_addRef b SMem m ;;; ret m.

Fixpoint insert_sorted (off : nat -> nat) (m : nat) (l : list nat) : list nat :=
  match l with
  | [] => [m]
  | x :: t => if Nat.ltb (off m) (off x) then m :: l else x :: insert_sorted off m t
  end.

(* serial::memoryPool::slice: modeMemory_t constructor through the pool's addModeMemoryRef *)
Definition pool_slice (p : nat) (off : nat) : M nat :=
  m <- alloc (TO KMem) ;; set_field_obuf m (Some p) ;;;
  modify (fun s => set_moff s (upd (moff s) m off)) ;;;
  need p ;;; ring_addRef p SMem m ;;;
  res <- rd pres p ;;
  o <- get moff ;;
  wr_pres p (insert_sorted o m res) ;;;
  ret m.

Definition unit_bytes : Z := 128%Z.

(* makeBuffer() + (fix) removal from the device ring + malloc + accounting *)
Definition pool_make_buffer (p : nat) (slots : nat) : M nat :=
  d <- rd odev p ;;
  match d with
  | None => fail
  | Some d =>
      nb <- new_buffer KBuf d 0%Z ;;
      (if v_inner V then need d ;;; ring_removeRef d SBuf nb else ret tt) ;;;
      modify (fun s => set_ginner s (upd (ginner s) nb true)) ;;;
      wr_osize nb (unit_bytes * Z.of_nat slots)%Z ;;;
      bt <- rd obytes d ;;
      wr_obytes d (bt + unit_bytes * Z.of_nat slots)%Z ;;;
      ret nb
  end.

(* modeMemoryPool_t::resize, for requests that are multiples of the alignment; nothing moves
   when the pool is packed, which it is whenever this is reached through reserve() *)
Definition pool_resize (p : nat) (slots : nat) : M unit :=
  cur <- rd pslots p ;;
  if Nat.eqb cur slots then ret tt else
  res <- rd pres p ;;
  old <- rd oinner p ;;
  match res with
  | [] =>
      (match old with Some ob => run_task (TDelete ob) | None => ret tt end) ;;;
      nb <- pool_make_buffer p slots ;;
      wr_oinner p (Some nb) ;;; wr_pslots p slots ;;; wr_osize p (unit_bytes * Z.of_nat slots)%Z
  | _ :: _ =>
      nb <- pool_make_buffer p slots ;;
      (match old with Some ob => run_task (TDelete ob) | None => fail end) ;;;
      wr_oinner p (Some nb) ;;; wr_pslots p slots ;;; wr_osize p (unit_bytes * Z.of_nat slots)%Z
  end.

(* the hole search of modeMemoryPool_t::reserve for one-unit requests *)
Fixpoint first_gap (off : nat -> nat) (l : list nat) (cand : nat) : nat :=
  match l with
  | [] => cand
  | m :: t => if Nat.leb (cand + 1) (off m) then cand else first_gap off t (Nat.max cand (off m + 1))
  end.

(* modeMemoryPool_t::reserve(128) *)
Definition pool_reserve (p : nat) : M nat :=
  res <- rd pres p ;;
  slots <- rd pslots p ;;
  let reserved := length res in
  if Nat.ltb slots (reserved + 1) then
    pool_resize p (reserved + 1) ;;; pool_slice p reserved
  else match res with
  | [] => pool_slice p 0
  | _ =>
      o <- get moff ;;
      let cand := first_gap o res 0 in
      if Nat.leb (cand + 1) slots then pool_slice p cand
      else pool_resize p (reserved + 1) ;;; pool_slice p reserved
  end.

(* ---------------------------------------------------------------- history operations *)
(* A handle variable is a (kind, index) pair encoded as a number by the drivers; [vkind] gives
   the static C++ type of the variable. *)
Inductive op :=
| ONewDev (v : nat)                 (* v = device({mode: Serial}) *)
| OMalloc (v dv : nat) (bytes : Z)  (* v = dv.malloc(bytes) *)
| OPool (v dv : nat)                (* v = dv.createMemoryPool() *)
| OReserve (v pv : nat)             (* v = pv.reserve(128 bytes) *)
| OSlice (v mv : nat)               (* v = mv.slice(0) *)
| OLeaf (k : kind) (v dv : nat)     (* v = dv.buildKernel / createStream / tagStream *)
| OGetStream (v dv : nat)           (* v = dv.getStream() *)
| OCopy (v w : nat)                 (* v = new T( *w )   (v empty) *)
| OAssign (v w : nat)               (* *v = *w *)
| OSwap (v w : nat)                 (* v->swap( *w ) *)
| OFree (v : nat)                   (* v->free() *)
| ODrop (v : nat)                   (* delete v *)
| ODontUseRefs (v : nat)            (* v->dontUseRefs() *)
| OEnd (vs : list nat).             (* delete every remaining variable, then free what
                                       dontUseRefs kept alive *)

Inductive status := Done | Skip | Err.

Variable vkind : nat -> kind.

(* `v = <temporary t>`: placement into an empty variable is the (elided) construction of the
   heap wrapper from the prvalue; otherwise operator= followed by the temporary's destructor *)
Definition store (v t : nat) : M unit :=
  cur <- get (fun s => vars s v) ;;
  match cur with
  | None => modify (fun s => set_vars s (upd (vars s) v (Some t)))
  | Some h => h_assign h t ;;; h_dtor t
  end.

Definition var_ptr (v : nat) : M (option (nat * option nat)) :=
  cur <- get (fun s => vars s v) ;;
  match cur with
  | None => ret None
  | Some h => p <- rd hptr h ;; ret (Some (h, p))
  end.

(* device::setup: setModeDevice(newModeDevice); setStream(createStream()) *)
Definition new_device_tmp : M nat :=
  t <- alloc (TH KDev) ;;
  d <- alloc (TO KDev) ;;
  c <- alloc (TH KStr) ;;
  modify (fun s => set_ocur s (upd (ocur s) d c)) ;;;
  h_set t (Some d) ;;;
  s <- new_leaf KStr d ;;
  ts <- h_new KStr (Some s) ;;        (* the stream returned by createStream = setStream's parameter *)
  h_assign c ts ;;;                   (* modeDevice->currentStream = s *)
  h_dtor ts ;;;
  ret t.

Definition free_kept (o : nat) : M unit :=
  a <- get (fun s => alive s o) ;;
  if negb a then ret tt else
  k <- get (fun s => kind_of s o) ;;
  t <- h_new k (Some o) ;;
  h_free t ;;;
  h_dtor t.

Fixpoint mapM_ {A} (f : A -> M unit) (l : list A) : M unit :=
  match l with [] => ret tt | x :: t => f x ;;; mapM_ f t end.

Definition drop_var (v : nat) : M unit :=
  cur <- get (fun s => vars s v) ;;
  match cur with
  | None => ret tt
  | Some h => h_dtor h ;;; modify (fun s => set_vars s (upd (vars s) v None))
  end.

Definition step (o : op) : M status :=
  match o with
  | ONewDev v =>
      if negb (kind_eqb (vkind v) KDev) then ret Skip else
      t <- new_device_tmp ;; store v t ;;; ret Done
  | OMalloc v dv bytes =>
      if negb (kind_eqb (vkind v) KMem && kind_eqb (vkind dv) KDev) then ret Skip else
      x <- var_ptr dv ;;
      match x with
      | None => ret Skip
      | Some (_, None) => ret Err                       (* assertInitialized *)
      | Some (_, Some d) =>
          need d ;;;
          b <- new_buffer KBuf d bytes ;;
          m <- new_memory b ;;
          t <- h_new KMem (Some m) ;;
          bt <- rd obytes d ;;
          wr_obytes d (bt + bytes)%Z ;;;
          store v t ;;; ret Done
      end
  | OPool v dv =>
      if negb (kind_eqb (vkind v) KPool && kind_eqb (vkind dv) KDev) then ret Skip else
      x <- var_ptr dv ;;
      match x with
      | None => ret Skip
      | Some (_, None) => ret Err
      | Some (_, Some d) =>
          need d ;;;
          p <- new_buffer KPool d 0%Z ;;
          t <- h_new KPool (Some p) ;;
          store v t ;;; ret Done
      end
  | OReserve v pv =>
      if negb (kind_eqb (vkind v) KMem && kind_eqb (vkind pv) KPool) then ret Skip else
      x <- var_ptr pv ;;
      match x with
      | None => ret Skip
      | Some (_, None) => ret Err
      | Some (_, Some p) =>
          need p ;;;
          m <- pool_reserve p ;;
          t <- h_new KMem (Some m) ;;
          store v t ;;; ret Done
      end
  | OSlice v mv =>
      if negb (kind_eqb (vkind v) KMem && kind_eqb (vkind mv) KMem) then ret Skip else
      x <- var_ptr mv ;;
      match x with
      | None => ret Skip
      | Some (_, None) => ret Err                       (* assertInitialized *)
      | Some (_, Some m) =>
          b <- rd obuf m ;;
          match b with
          | None => ret Err                             (* "ModeMemory not initialized" *)
          | Some b =>
              need b ;;;
              k <- get (fun s => kind_of s b) ;;
              match k with
              | KPool => ret Skip                       (* slices of reservations: not modelled *)
              | _ =>
                  m' <- new_memory b ;;
                  t <- h_new KMem (Some m') ;;
                  store v t ;;; ret Done
              end
          end
      end
  | OLeaf k v dv =>
      if negb (kind_eqb (vkind v) k && kind_eqb (vkind dv) KDev
               && (kind_eqb k KKer || kind_eqb k KStr || kind_eqb k KTag)) then ret Skip else
      x <- var_ptr dv ;;
      match x with
      | None => ret Skip
      | Some (_, None) => ret Err
      | Some (_, Some d) =>
          o <- new_leaf k d ;;
          t <- h_new k (Some o) ;;
          store v t ;;; ret Done
      end
  | OGetStream v dv =>
      if negb (kind_eqb (vkind v) KStr && kind_eqb (vkind dv) KDev) then ret Skip else
      x <- var_ptr dv ;;
      match x with
      | None => ret Skip
      | Some (_, None) => ret Err
      | Some (_, Some d) =>
          c <- rd ocur d ;;
          t <- h_copy c ;;
          store v t ;;; ret Done
      end
  | OCopy v w =>
      if negb (kind_eqb (vkind v) (vkind w)) then ret Skip else
      cv <- get (fun s => vars s v) ;; cw <- get (fun s => vars s w) ;;
      match cv, cw with
      | None, Some hw => t <- h_copy hw ;; store v t ;;; ret Done
      | _, _ => ret Skip
      end
  | OAssign v w =>
      if negb (kind_eqb (vkind v) (vkind w)) then ret Skip else
      cv <- get (fun s => vars s v) ;; cw <- get (fun s => vars s w) ;;
      match cv, cw with
      | Some hv, Some hw => h_assign hv hw ;;; ret Done
      | _, _ => ret Skip
      end
  | OSwap v w =>
      if negb (kind_eqb (vkind v) (vkind w)
               && (kind_eqb (vkind v) KMem || kind_eqb (vkind v) KPool)) then ret Skip else
      cv <- get (fun s => vars s v) ;; cw <- get (fun s => vars s w) ;;
      match cv, cw with
      | Some hv, Some hw => h_swap hv hw ;;; ret Done
      | _, _ => ret Skip
      end
  | OFree v =>
      cv <- get (fun s => vars s v) ;;
      match cv with Some hv => h_free hv ;;; ret Done | None => ret Skip end
  | ODrop v =>
      cv <- get (fun s => vars s v) ;;
      match cv with Some _ => drop_var v ;;; ret Done | None => ret Skip end
  | ODontUseRefs v =>
      cv <- get (fun s => vars s v) ;;
      match cv with Some hv => h_dontUseRefs hv ;;; ret Done | None => ret Skip end
  | OEnd vs =>
      mapM_ drop_var vs ;;;
      kept <- get dus ;;
      mapM_ free_kept (rev kept) ;;;
      ret Done
  end.

(* a history; None = UB observed at some step *)
Fixpoint run (ops : list op) (s : st) : option st :=
  match ops with
  | [] => Some s
  | o :: t => match step o s with None => None | Some (_, s') => run t s' end
  end.

End WithVariant.

(* ---------------------------------------------------------------- observations *)
(* walking a ring from its head through rightRingEntry, as the C++ driver does (bounded) *)
Fixpoint walk (s : st) (fuel : nat) (start cur : nat) : list nat :=
  match fuel with
  | 0 => []
  | S f => cur :: (if Nat.eqb (rgt s cur) start then [] else walk s f start (rgt s cur))
  end.
Definition ring_list (s : st) (o : nat) (sl : slot) : list nat :=
  match ohead s o sl with None => [] | Some h => walk s (nxt s) h h end.

Definition is_obj (s : st) (e : nat) : bool := match tagof s e with TO _ => true | _ => false end.
Definition objects (s : st) : list nat := filter (is_obj s) (seq 0 (nxt s)).
Definition live_count (s : st) (cls : kind) : nat :=
  length (filter (fun e => alive s e &&
                           match tagof s e with
                           | TO k => kind_eqb k cls || (kind_eqb cls KBuf && kind_eqb k KPool)
                           | _ => false
                           end) (seq 0 (nxt s))).
