(* C29 — proofs, part C (continued): one lemma per operation of the case language: when the
   specification accepts the call, the model's new state is related to the specification's
   and the model's observation is the required one. *)
From Coq Require Import List ZArith Bool Lia Arith.
From OV.C29 Require Import Types Model Spec Proofs ProofsTree ProofsRefine.
Import ListNotations.
Local Open Scope Z_scope.

(* ---------------------------------------------------------------- values *)
Lemma s_lit_lit_otype : forall l o, s_lit l = Some o -> lit_otype l = o.
Proof.
  destruct l; cbn; intros o H; try (inversion H; reflexivity).
  destruct (in_range k v); inversion H; reflexivity.
Qed.

Lemma alpha_JNull : forall q, alpha JNull q = leaf NNull q.
Proof. intros. rewrite alpha_leaf by discriminate. reflexivity. Qed.
Lemma alpha_JNum : forall k v q, alpha (JNum k v) q = leaf (NNum k v) q.
Proof. intros. rewrite alpha_leaf by discriminate. reflexivity. Qed.
Lemma alpha_JStr : forall b q, alpha (JStr b) q = leaf (NStr b) q.
Proof. intros. rewrite alpha_leaf by discriminate. reflexivity. Qed.
Lemma alpha_JObj_nil : forall q, alpha (JObj []) q = leaf NObj q.
Proof. destruct q as [|[k|i] q]; reflexivity. Qed.
Lemma alpha_JArr_nil : forall q, alpha (JArr []) q = leaf (NArr 0) q.
Proof. destruct q as [|[k|i] q]; try reflexivity. unfold alpha. cbn. destruct i; reflexivity. Qed.

Lemma otype_value_rel : forall st s sl vd,
  R st s -> otype_doc s sl = Some vd ->
  exists jv, inferJson cfg_fixed st sl = Ok jv /\ (forall q, alpha jv q = vd q) /\ jv <> JNone.
Proof.
  intros st s sl vd HR H. unfold otype_doc in H.
  destruct (o_magic (sl_val sl)) eqn:Em; [|discriminate]. cbn [negb] in H.
  unfold inferJson.
  destruct (o_tag (sl_val sl)) eqn:Et; destruct (o_val (sl_val sl)) eqn:Ev; try discriminate.
  - (* null *) inversion H; subst. exists JNull. split; [reflexivity|]. split; [apply alpha_JNull | discriminate].
  - inversion H; subst. exists JNull. split; [reflexivity|]. split; [apply alpha_JNull | discriminate].
  - inversion H; subst. exists JNull. split; [reflexivity|]. split; [apply alpha_JNull | discriminate].
  - inversion H; subst. exists JNull. split; [reflexivity|]. split; [apply alpha_JNull | discriminate].
  - inversion H; subst. exists JNull. split; [reflexivity|]. split; [apply alpha_JNull | discriminate].
  - (* ptr NULL *) inversion H; subst. exists JNull. split; [reflexivity|]. split; [apply alpha_JNull | discriminate].
  - (* scalar *)
    destruct (in_range k v) eqn:Er; [|discriminate]. inversion H; subst.
    assert (Hp : pint (sl_val sl) = v) by (unfold pint; rewrite Ev; reflexivity).
    exists (JNum k v). split; [|split; [apply alpha_JNum | discriminate]].
    destruct k; try (unfold prim_of; rewrite Et, Hp; reflexivity).
    rewrite Hp, int_cast_id by exact Er. reflexivity.
  - (* string *) inversion H; subst. exists (JStr s0). split; [reflexivity|]. split; [apply alpha_JStr | discriminate].
  - (* json *)
    destruct (sl_ok sl) eqn:Eo; [|discriminate].
    destruct (s_roots s root) as [d|] eqn:Es; [|discriminate].
    pose proof (R_roots _ _ HR root) as Hr. rewrite Es in Hr.
    destruct (m_roots st root) as [t|] eqn:Emr; [|contradiction]. cbn in Hr.
    assert (Hp : alpha t p <> NAbsent /\ alpha t p <> NNone /\ vd = sub d p).
    { rewrite Hr. destruct (d p); try discriminate; inversion H; repeat split; discriminate. }
    destruct Hp as [Hp1 [Hp2 Hvd]]. subst vd.
    destruct (alpha_present _ _ Hp1) as [c [Hc Hk]].
    exists c. rewrite Hc. split; [reflexivity|]. split.
    + intros q. unfold sub. rewrite <- Hr. symmetry. apply alpha_app. exact Hc.
    + intros ->. apply Hp2. rewrite <- Hk. reflexivity.
Qed.

Lemma tag_eqb_json : forall t, tag_eqb t TJson = true -> t = TJson.
Proof. destruct t; try (cbn; discriminate); [|reflexivity]. destruct k; cbn; discriminate. Qed.

Lemma open_value_tab : forall st st1 v, m_tab st1 = m_tab st -> open_value st1 v = open_value st v.
Proof. intros. unfold open_value. rewrite H. reflexivity. Qed.

Lemma value_rel : forall st s v vd,
  R st s -> s_value s v = Some vd ->
  exists vs jv, open_value st v = Ok vs /\ inferJson cfg_fixed st vs = Ok jv /\
                (forall q, alpha jv q = vd q) /\ jv <> JNone.
Proof.
  intros st s v vd HR H. destruct v as [l|m]; cbn [s_value] in H.
  - destruct (s_lit l) as [o|] eqn:El; [|discriminate].
    apply s_lit_lit_otype in El. subst o.
    destruct (otype_value_rel _ _ _ _ HR H) as [jv [H1 [H2 H3]]].
    exists (mkSlot (lit_otype l) true), jv. cbn. auto.
  - rewrite <- (R_tab _ _ HR m) in H.
    destruct (otype_value_rel _ _ _ _ HR H) as [jv [H1 [H2 H3]]].
    exists (m_tab st m), jv. split; [|auto].
    unfold open_value. unfold otype_doc in H.
    destruct (o_magic (sl_val (m_tab st m))); [|discriminate]. cbn [negb] in *.
    destruct (tag_eqb (o_tag (sl_val (m_tab st m))) TJson) eqn:Et; [|reflexivity].
    apply tag_eqb_json in Et. rewrite Et in H.
    destruct (o_val (sl_val (m_tab st m))); try discriminate.
    destruct (sl_ok (m_tab st m)); [reflexivity | discriminate].
Qed.

(* ---------------------------------------------------------------- shapes *)
Lemma kind_obj : forall c, kind_of c = NObj -> exists m, c = JObj m.
Proof. destruct c; cbn; intros; try discriminate. eauto. Qed.

Lemma kind_arr : forall c n, kind_of c = NArr n -> exists l, c = JArr l /\ length l = n.
Proof. destruct c; cbn; intros; try discriminate. inversion H. eauto. Qed.

Lemma pair_eta : forall (A B : Type) (x : A * B), x = (fst x, snd x).
Proof. destruct x; reflexivity. Qed.

(* ---------------------------------------------------------------- occaJsonObjectSet *)
Lemma oset_refines : forall st s n key v s' rq,
  R st s -> sstep s (OpOSet n key v) = Some (s', rq) ->
  R (fst (occaJsonObjectSet cfg_fixed st n key v)) s' /\ agrees (snd (occaJsonObjectSet cfg_fixed st n key v)) rq.
Proof.
  intros st s n key v s' rq HR H. cbn [sstep] in H.
  destruct key as [|b key']; [discriminate|]. set (key := b :: key') in *.
  destruct (key_ok key) eqn:Ek; [|discriminate].
  destruct (s_open s n) as [[[r p] d]|] eqn:Eo; [|discriminate].
  destruct (open_rel _ _ _ _ _ _ HR Eo) as [t [c [Hoh [Hop Hmag]]]].
  assert (Hdp : (d p = NNone \/ d p = NObj) /\
                (let '(s1, d1) := s_auto true s r p d in
                 match s_value s1 v with
                 | Some vd => Some (s_kill (s_set_root s1 r (Some (graft d1 p (g_oset (sub d1 p) key vd)))) r (p ++ [SK key]), Must OUnit)
                 | None => None
                 end) = Some (s', rq)).
  { destruct (d p); try discriminate; auto. }
  clear H. destruct Hdp as [Hdp H].
  pose proof (auto_rel true _ _ _ _ _ _ _ HR Hop) as Ha. cbv zeta in Ha.
  rewrite (pair_eta _ _ (s_auto true s r p d)) in H.
  set (s1 := fst (s_auto true s r p d)) in *. set (d1 := snd (s_auto true s r p d)) in *.
  destruct Ha as [HR1 [[t1 Hop1] [Htab1 [Hstab1 [Hn1 Hn2]]]]].
  assert (Hd1 : d1 p = NObj).
  { destruct Hdp as [E|E]; [apply Hn1; exact E | rewrite Hn2; [exact E | rewrite E; discriminate]]. }
  pose proof (opened_kind _ _ _ _ _ _ _ Hop1) as Hk1. rewrite Hd1 in Hk1.
  destruct (kind_obj _ Hk1) as [m Hm].
  destruct (s_value s1 v) as [vd|] eqn:Ev; [|discriminate]. inversion H; subst s' rq. clear H.
  destruct (value_rel _ _ _ _ HR1 Ev) as [vs [jv [Hov [Hij [Hjv _]]]]].
  rewrite (open_value_tab _ _ _ Htab1) in Hov.
  unfold occaJsonObjectSet. rewrite Ek, Hmag, Hov, Hoh. cbn [negb]. cbv zeta.
  rewrite Hm in *. rewrite Hij. subst key. cbn [fst snd]. split; [|reflexivity].
  apply R_kill. destruct Hop1 as [Hmt1 Hsd1 Hc1 Hrel1].
  eapply R_put; eauto.
  intros q. unfold g_oset. destruct q as [|[k2|i2] q].
  - reflexivity.
  - rewrite alpha_obj_key. destruct (bytes_eqb k2 (b :: key')) eqn:E.
    + apply bytes_eqb_eq in E. subst k2. rewrite assoc_get_set_same. apply Hjv.
    + rewrite assoc_get_set_other by exact E. rewrite <- alpha_obj_key.
      unfold sub. rewrite <- Hrel1. symmetry. apply alpha_app. exact Hc1.
  - rewrite alpha_obj_idx. unfold sub. rewrite <- Hrel1.
    rewrite (alpha_app _ _ _ _ Hc1). reflexivity.
Qed.

(* ---------------------------------------------------------------- object get / has *)
Lemma handle_kind : forall r q ch dv,
  match kind_of ch with NAbsent => dv | nd => s_handle r q nd end = handle_to r q ch false.
Proof. destruct ch; reflexivity. Qed.

Lemma obj_child : forall st s r p t m d key,
  opened st s r p t (JObj m) d ->
  d (p ++ [SK key]) = match assoc_get key m with Some ch => kind_of ch | None => NAbsent end.
Proof.
  intros st s r p t m d key [H1 H2 H3 H4]. rewrite <- H4. rewrite (alpha_app _ _ _ _ H3).
  unfold alpha. cbn. destruct (assoc_get key m); reflexivity.
Qed.

Lemma oget_refines : forall st s n key mth dl s' rq,
  R st s -> sstep s (OpOGet n key mth dl) = Some (s', rq) ->
  R (fst (occaJsonObjectGet st n key mth dl)) s' /\ agrees (snd (occaJsonObjectGet st n key mth dl)) rq.
Proof.
  intros st s n key mth dl s' rq HR H. cbn [sstep] in H.
  destruct key as [|b key']; [discriminate|]. set (key := b :: key') in *.
  destruct (key_ok key) eqn:Ek; [|discriminate].
  destruct (s_open s n) as [[[r p] d]|] eqn:Eo; [|discriminate].
  destruct (s_lit dl) as [dv|] eqn:El; [|discriminate].
  destruct (open_rel _ _ _ _ _ _ HR Eo) as [t [c [Hoh [Hop Hmag]]]].
  assert (Hdp : (d p = NNone \/ d p = NObj) /\
                (let '(s1, d1) := s_auto true s r p d in
                 let h := match d1 (p ++ [SK key]) with
                          | NAbsent => dv
                          | nd => s_handle r (p ++ [SK key]) nd
                          end in
                 Some (s_with_slot s1 mth (mkSlot h true), Must (OType h))) = Some (s', rq)).
  { destruct (d p); try discriminate; auto. }
  clear H. destruct Hdp as [Hdp H].
  pose proof (auto_rel true _ _ _ _ _ _ _ HR Hop) as Ha. cbv zeta in Ha.
  rewrite (pair_eta _ _ (s_auto true s r p d)) in H.
  set (s1 := fst (s_auto true s r p d)) in *. set (d1 := snd (s_auto true s r p d)) in *.
  destruct Ha as [HR1 [[t1 Hop1] [Htab1 [Hstab1 [Hn1 Hn2]]]]].
  assert (Hd1 : d1 p = NObj).
  { destruct Hdp as [E|E]; [apply Hn1; exact E | rewrite Hn2; [exact E | rewrite E; discriminate]]. }
  pose proof (opened_kind _ _ _ _ _ _ _ Hop1) as Hk1. rewrite Hd1 in Hk1.
  destruct (kind_obj _ Hk1) as [m Hm]. rewrite Hm in *.
  cbv zeta in H. inversion H; subst s' rq. clear H.
  unfold occaJsonObjectGet. rewrite Ek, Hoh. cbn [negb]. cbv zeta. rewrite Hm. subst key.
  rewrite (obj_child _ _ _ _ _ _ _ (b :: key') Hop1).
  apply s_lit_lit_otype in El. subst dv.
  destruct (assoc_get (b :: key') m) as [ch|] eqn:Eg.
  - cbv beta iota. destruct ch; cbn [kind_of handle_to fst snd]; (split; [apply R_with_slot; exact HR1 | reflexivity]).
  - cbv beta iota. cbn [fst snd]. split; [|reflexivity]. apply R_with_slot. exact HR1.
Qed.

Lemma ohas_refines : forall st s n key s' rq,
  R st s -> sstep s (OpOHas n key) = Some (s', rq) ->
  R (fst (occaJsonObjectHas st n key)) s' /\ agrees (snd (occaJsonObjectHas st n key)) rq.
Proof.
  intros st s n key s' rq HR H. cbn [sstep] in H.
  destruct key as [|b key']; [discriminate|]. set (key := b :: key') in *.
  destruct (key_ok key) eqn:Ek; [|discriminate].
  destruct (s_open s n) as [[[r p] d]|] eqn:Eo; [|discriminate].
  destruct (open_rel _ _ _ _ _ _ HR Eo) as [t [c [Hoh [Hop Hmag]]]].
  assert (Hdp : (d p = NNone \/ d p = NObj) /\
                (let '(s1, d1) := s_auto true s r p d in
                 Some (s1, Must (OBool (match d1 (p ++ [SK key]) with NAbsent => false | _ => true end)))) = Some (s', rq)).
  { destruct (d p); try discriminate; auto. }
  clear H. destruct Hdp as [Hdp H].
  pose proof (auto_rel true _ _ _ _ _ _ _ HR Hop) as Ha. cbv zeta in Ha.
  rewrite (pair_eta _ _ (s_auto true s r p d)) in H.
  set (s1 := fst (s_auto true s r p d)) in *. set (d1 := snd (s_auto true s r p d)) in *.
  destruct Ha as [HR1 [[t1 Hop1] [Htab1 [Hstab1 [Hn1 Hn2]]]]].
  assert (Hd1 : d1 p = NObj).
  { destruct Hdp as [E|E]; [apply Hn1; exact E | rewrite Hn2; [exact E | rewrite E; discriminate]]. }
  pose proof (opened_kind _ _ _ _ _ _ _ Hop1) as Hk1. rewrite Hd1 in Hk1.
  destruct (kind_obj _ Hk1) as [m Hm]. rewrite Hm in *.
  inversion H; subst s' rq. clear H.
  unfold occaJsonObjectHas. rewrite Ek, Hoh. cbn [negb]. cbv zeta. rewrite Hm. subst key.
  rewrite (obj_child _ _ _ _ _ _ _ (b :: key') Hop1).
  cbn [fst snd]. split; [exact HR1|].
  destruct (assoc_get (b :: key') m) as [ch|]; [destruct ch|]; reflexivity.
Qed.

(* ---------------------------------------------------------------- vectors *)
Lemma nth_error_insert : forall (l : list json) k x j,
  (k <= length l)%nat ->
  nth_error (firstn k l ++ x :: skipn k l) j =
    if Nat.ltb j k then nth_error l j else if Nat.eqb j k then Some x else nth_error l (j - 1).
Proof.
  intros l k. revert l. induction k as [|k IH]; intros l x j Hk.
  - cbn [firstn skipn app]. destruct j as [|j]; [reflexivity|]. cbn. rewrite Nat.sub_0_r. reflexivity.
  - destruct l as [|a l]; [cbn in Hk; lia|]. cbn [firstn skipn app].
    destruct j as [|j]; [reflexivity|].
    cbn [nth_error]. rewrite IH by (cbn in Hk; lia).
    change (Nat.ltb (S j) (S k)) with (Nat.ltb j k). change (Nat.eqb (S j) (S k)) with (Nat.eqb j k).
    destruct (Nat.ltb_spec j k); [reflexivity|]. destruct (Nat.eqb_spec j k); [reflexivity|].
    destruct j as [|j]; [lia|]. cbn. rewrite Nat.sub_0_r. reflexivity.
Qed.

Lemma push_as_insert : forall (l : list json) x, l ++ [x] = firstn (length l) l ++ x :: skipn (length l) l.
Proof. intros. rewrite firstn_all, skipn_all. reflexivity. Qed.

Lemma length_insert : forall (l : list json) k x, (k <= length l)%nat -> length (firstn k l ++ x :: skipn k l) = S (length l).
Proof.
  intros. rewrite app_length. cbn [length]. rewrite firstn_length, skipn_length. lia.
Qed.

Lemma nth_error_removelast : forall (l : list json) j,
  nth_error (removelast l) j = if Nat.ltb j (length l - 1) then nth_error l j else None.
Proof.
  induction l as [|a l IH]; intros j.
  - destruct j; reflexivity.
  - destruct l as [|b l].
    + destruct j; reflexivity.
    + change (removelast (a :: b :: l)) with (a :: removelast (b :: l)).
      destruct j as [|j].
      * reflexivity.
      * cbn [nth_error]. rewrite IH. cbn [length].
        replace (S (S (length l)) - 1)%nat with (S (length l)) by lia.
        replace (S (length l) - 1)%nat with (length l) by lia.
        change (Nat.ltb (S j) (S (length l))) with (Nat.ltb j (length l)). reflexivity.
Qed.

Lemma length_removelast : forall (l : list json), length (removelast l) = (length l - 1)%nat.
Proof.
  induction l as [|a l IH]; [reflexivity|]. destruct l as [|b l]; [reflexivity|].
  change (removelast (a :: b :: l)) with (a :: removelast (b :: l)). cbn [length] in *. rewrite IH. lia.
Qed.

Lemma arr_rel_insert : forall l k jv vd old,
  (k <= length l)%nat ->
  (forall q, alpha jv q = vd q) -> (forall q, alpha (JArr l) q = old q) ->
  forall q, alpha (JArr (firstn k l ++ jv :: skipn k l)) q = g_ains old (length l) k vd q.
Proof.
  intros l k jv vd old Hk Hjv Hold q. unfold g_ains. destruct q as [|[k2|j] q].
  - unfold alpha. cbn. rewrite length_insert by exact Hk. reflexivity.
  - rewrite alpha_arr_key. rewrite <- Hold. reflexivity.
  - rewrite alpha_arr_idx, nth_error_insert by exact Hk.
    destruct (Nat.ltb j k).
    + rewrite <- Hold, alpha_arr_idx. reflexivity.
    + destruct (Nat.eqb j k); [apply Hjv|]. rewrite <- Hold, alpha_arr_idx. reflexivity.
Qed.

Lemma arr_sub : forall st s r p t l d, opened st s r p t (JArr l) d -> forall q, alpha (JArr l) q = sub d p q.
Proof. intros. eapply opened_sub. eassumption. Qed.
