(* C29 — proofs, part F (end): the occaCreateJson handle survives every history that neither
   frees its heap object nor overwrites the C variable. *)
From Coq Require Import List ZArith Bool Lia Arith.
From OV.C29 Require Import Types Model Spec Proofs ProofsTree ProofsRefine ProofsOps ProofsRound
  ProofsHandles ProofsSurvive.
Import ListNotations.
Local Open Scope Z_scope.

Lemma step_keeps : forall F cf st o n r,
  inv st -> (exists t, m_roots st r = Some t) ->
  writes_slot o n = false -> frees_root st o r = false ->
  keeps n r st (fst (step F cf st o)).
Proof.
  intros F cf st o n r Hi Hlive Hw Hf. destruct o; cbn [step fst]; try apply keeps_refl.
  - apply keeps_new; [exact Hw | exact Hlive | apply (inv_fresh _ Hi)].
  - apply keeps_free; [exact Hw | exact Hf].
  - apply keeps_oset.
  - apply keeps_oget. exact Hw.
  - apply keeps_ohas.
  - apply keeps_apush.
  - apply keeps_ains.
  - apply keeps_aget. exact Hw.
  - apply keeps_apop.
  - apply keeps_aclear.
  - apply keeps_asize.
  - apply keeps_cast.
  - apply keeps_getb.
  - apply keeps_getn.
  - apply keeps_gets.
  - apply keeps_ty.
Qed.

(* the history neither assigns to variable n nor frees heap object r *)
Fixpoint quiet (F : fops) (cf : cfg) (st : mstate) (ops : list op) (n r : nat) : Prop :=
  match ops with
  | [] => True
  | o :: ops' =>
      writes_slot o n = false /\ frees_root st o r = false /\
      quiet F cf (fst (step F cf st o)) ops' n r
  end.

Lemma run_keeps : forall F cf ops st n r,
  inv st -> m_tab st n = mkSlot (root_handle r) true -> (exists t, m_roots st r = Some t) ->
  quiet F cf st ops n r ->
  let st' := fst (run_from F cf st ops) in
  m_tab st' n = mkSlot (root_handle r) true /\ (exists t, m_roots st' r = Some t).
Proof.
  induction ops as [|o ops IH]; intros st n r Hi Ht Hl Hq; cbn [run_from].
  - cbn. auto.
  - destruct Hq as [Hw [Hf Hq]].
    destruct (step_keeps F cf st o n r Hi Hl Hw Hf) as [K1 K2].
    pose proof (step_inv F cf st o Hi) as Hi1.
    destruct (step F cf st o) as [st1 ob]. cbn [fst] in *.
    specialize (IH st1 n r Hi1 (K1 Ht) (K2 Hl) Hq).
    destruct (run_from F cf st1 ops) as [st2 obs']. exact IH.
Qed.

Lemma created_survives : forall F cf st n ops,
  inv st ->
  let st1 := fst (occaCreateJson st n) in
  quiet F cf st1 ops n (m_next st) ->
  let st' := fst (run_from F cf st1 ops) in
  exists t, open_handle st' n = HGo (m_next st) [] t.
Proof.
  intros F cf st n ops Hi st1 Hq st'.
  assert (Hi1 : inv st1) by (apply inv_create; exact Hi).
  destruct (run_keeps F cf ops st1 n (m_next st) Hi1 (create_tab st n)
              (ex_intro _ JNone (create_root st n)) Hq) as [Ht [t Hr]].
  exists t. apply open_root_handle; assumption.
Qed.
