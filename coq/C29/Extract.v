(* Extraction of the executable model and specification (ExtrOcamlBasic only; Z, nat, lists
   stay the extracted inductives).  coqc runs from /verif/coq. *)
From Coq Require Import Extraction ExtrOcamlBasic ZArith.
From OV.C29 Require Import Types Model Spec.
Extraction Language OCaml.
Extraction "../_work/extract/C29/model.ml"
  Model.run Spec.s_run Model.cfg_fixed Model.cfg_pinned Model.ka_size Model.ka_isPointer Types.tag_code.
