(* C29 — proofs, part C (end): casts, accessors, create/free, the stateless conversion
   operations, and the theorem over all histories. *)
From Coq Require Import List ZArith Bool Lia Arith.
From OV.C29 Require Import Types Model Spec Proofs ProofsTree ProofsRefine ProofsOps ProofsOps2.
Import ListNotations.
Local Open Scope Z_scope.

(* ---------------------------------------------------------------- casts *)
Lemma int_num_to_bool : forall k v, is_float k = false -> num_to_bool k v = (if v =? 0 then 0 else 1).
Proof. intros k v H. destruct k; try discriminate H; reflexivity. Qed.

Lemma cast_refines : forall st s n cj s' rq,
  R st s -> sstep s (OpCast n cj) = Some (s', rq) ->
  R (fst (occaJsonCastTo st n cj)) s' /\ agrees (snd (occaJsonCastTo st n cj)) rq.
Proof.
  intros st s n cj s' rq HR H. cbn [sstep] in H.
  destruct (s_open s n) as [[[r p] d]|] eqn:Eo; [|discriminate].
  destruct (open_rel _ _ _ _ _ _ HR Eo) as [t [c [Hoh [Hop Hmag]]]].
  pose proof (opened_kind _ _ _ _ _ _ _ Hop) as Hk. rewrite <- Hk in H.
  unfold occaJsonCastTo. rewrite Hoh. cbv zeta.
  destruct Hop as [Hmt Hsd Hn Hrel].
  destruct cj; destruct c; cbn [kind_of] in H; try discriminate H;
    try (destruct (negb (is_float k) && in_range k v) eqn:Eb; [|discriminate H]);
    inversion H; subst s' rq; clear H; cbn [cast_json cast_keeps fst snd]; (split; [|reflexivity]);
    first [ eapply R_put_same; eassumption
          | apply R_kill; eapply R_put_same; eassumption
          | apply R_kill; eapply R_put; eauto; intros q;
            first [ apply alpha_JObj_nil | apply alpha_JArr_nil | apply alpha_JStr | idtac ] ].
  (* CBool on an integral number *)
  apply andb_true_iff in Eb. destruct Eb as [Eb1 _]. apply negb_true_iff in Eb1.
  rewrite int_num_to_bool by exact Eb1. apply alpha_JNum.
Qed.

(* ---------------------------------------------------------------- accessors *)
Lemma getb_refines : forall st s n s' rq,
  R st s -> sstep s (OpGetB n) = Some (s', rq) ->
  R (fst (occaJsonGetBoolean st n)) s' /\ agrees (snd (occaJsonGetBoolean st n)) rq.
Proof.
  intros st s n s' rq HR H. cbn [sstep] in H.
  destruct (s_open s n) as [[[r p] d]|] eqn:Eo; [|discriminate].
  destruct (open_rel _ _ _ _ _ _ HR Eo) as [t [c [Hoh [Hop Hmag]]]].
  pose proof (opened_kind _ _ _ _ _ _ _ Hop) as Hk. rewrite <- Hk in H.
  unfold occaJsonGetBoolean. rewrite Hoh.
  destruct c; cbn [kind_of] in H; try (inversion H; subst; cbn; split; [exact HR | reflexivity]).
  destruct k; try (inversion H; subst; cbn; split; [exact HR | reflexivity]).
  destruct (in_range KBool v) eqn:Er; [|discriminate]. inversion H; subst. cbn [fst snd]. split; [exact HR|].
  apply in_range_spec in Er. cbn in Er. cbn.
  destruct (Z.eqb_spec v 0); destruct (Z.eqb_spec v 1); try reflexivity; lia.
Qed.

Lemma getn_refines : forall F st s n k s' rq,
  R st s -> sstep s (OpGetN n k) = Some (s', rq) ->
  R (fst (occaJsonGetNumber F cfg_fixed st n k)) s' /\ agrees (snd (occaJsonGetNumber F cfg_fixed st n k)) rq.
Proof.
  intros F st s n k s' rq HR H. cbn [sstep] in H.
  destruct (s_open s n) as [[[r p] d]|] eqn:Eo; [|discriminate].
  destruct (open_rel _ _ _ _ _ _ HR Eo) as [t [c [Hoh [Hop Hmag]]]].
  pose proof (opened_kind _ _ _ _ _ _ _ Hop) as Hk. rewrite <- Hk in H.
  unfold occaJsonGetNumber. rewrite Hoh.
  destruct c; cbn [kind_of] in H; try (inversion H; subst; cbn; split; [exact HR | reflexivity]).
  destruct (in_range k0 v) eqn:Er; [|discriminate]. inversion H; subst s' rq. clear H.
  destruct (s_conv k0 k v) as [v'|] eqn:Ec.
  - rewrite (newOccaType_prim_typed_conv F _ _ _ _ Er Ec). cbn. split; [exact HR | reflexivity].
  - destruct (newOccaType_prim_typed F cfg_fixed (mkP (PTK k0) v) (TK k)); cbn; split; auto; exact HR.
Qed.

Lemma gets_refines : forall st s n s' rq,
  R st s -> sstep s (OpGetS n) = Some (s', rq) ->
  R (fst (occaJsonGetString st n)) s' /\ agrees (snd (occaJsonGetString st n)) rq.
Proof.
  intros st s n s' rq HR H. cbn [sstep] in H.
  destruct (s_open s n) as [[[r p] d]|] eqn:Eo; [|discriminate].
  destruct (open_rel _ _ _ _ _ _ HR Eo) as [t [c [Hoh [Hop Hmag]]]].
  pose proof (opened_kind _ _ _ _ _ _ _ Hop) as Hk. rewrite <- Hk in H.
  unfold occaJsonGetString. rewrite Hoh.
  destruct c; cbn [kind_of] in H; inversion H; subst; cbn [fst snd]; (split; [exact HR | reflexivity]).
Qed.

Lemma ty_refines : forall st s n s' rq,
  R st s -> sstep s (OpTy n) = Some (s', rq) ->
  R (fst (occaJsonIs st n)) s' /\ agrees (snd (occaJsonIs st n)) rq.
Proof.
  intros st s n s' rq HR H. cbn [sstep] in H.
  destruct (s_open s n) as [[[r p] d]|] eqn:Eo; [|discriminate].
  destruct (open_rel _ _ _ _ _ _ HR Eo) as [t [c [Hoh [Hop Hmag]]]].
  pose proof (opened_kind _ _ _ _ _ _ _ Hop) as Hk. cbv zeta in H. rewrite <- Hk in H.
  unfold occaJsonIs. rewrite Hoh. inversion H; subst s' rq. clear H. cbn [fst snd]. split; [exact HR|].
  destruct c; reflexivity.
Qed.

(* ---------------------------------------------------------------- create / free *)
Lemma new_refines : forall st s n s' rq,
  R st s -> sstep s (OpNew n) = Some (s', rq) ->
  R (fst (occaCreateJson st n)) s' /\ agrees (snd (occaCreateJson st n)) rq.
Proof.
  intros st s n s' rq HR H. cbn [sstep] in H. cbv zeta in H. inversion H; subst s' rq. clear H.
  unfold occaCreateJson. cbv zeta. cbn [fst snd]. rewrite (R_next _ _ HR). split; [|reflexivity].
  apply R_with_slot. constructor; cbn.
  - reflexivity.
  - apply (R_tab _ _ HR).
  - intros r'. rewrite <- (R_next _ _ HR). destruct (Nat.eqb r' (m_next st)).
    + cbn. intros q. rewrite alpha_leaf by discriminate. reflexivity.
    + apply (R_roots _ _ HR).
Qed.

Lemma tag_eqb_json_false : forall t, t <> TJson -> tag_eqb t TJson = false.
Proof.
  intros t H. destruct (tag_eqb t TJson) eqn:E; [|reflexivity]. apply tag_eqb_json in E. contradiction.
Qed.

Lemma free_refines : forall st s n s' rq,
  R st s -> sstep s (OpFree n) = Some (s', rq) ->
  R (fst (occaFree st n)) s' /\ agrees (snd (occaFree st n)) rq.
Proof.
  intros st s n s' rq HR H. cbn [sstep] in H. cbv zeta in H.
  unfold occaFree. cbv zeta. rewrite <- (R_tab _ _ HR n) in H.
  destruct (o_magic (sl_val (m_tab st n))) eqn:Em; cbn [negb] in *.
  2:{ inversion H; subst. cbn. split; [exact HR | reflexivity]. }
  assert (Hother : forall (X : mstate * obs),
            X = (with_slot st n (mkSlot (mark_undefined (sl_val (m_tab st n))) (sl_ok (m_tab st n))), OUnit) ->
            Some (s_with_slot s n (mkSlot (mark_undefined (sl_val (m_tab st n))) (sl_ok (m_tab st n))), Must OUnit) = Some (s', rq) ->
            R (fst X) s' /\ agrees (snd X) rq).
  { intros X -> HX. inversion HX; subst. cbn [fst snd]. split; [|reflexivity]. apply R_with_slot. exact HR. }
  destruct (o_tag (sl_val (m_tab st n))) eqn:Et;
    try (rewrite tag_eqb_json_false in H by discriminate; cbn [andb] in H; apply Hother; [reflexivity | exact H]).
  change (tag_eqb TJson TJson) with true in H. cbn [andb] in H.
  destruct (o_free (sl_val (m_tab st n))) eqn:Ef; [|apply Hother; [reflexivity | exact H]].
  destruct (sl_ok (m_tab st n)) eqn:Eo; [|discriminate]. cbn [negb].
  destruct (o_val (sl_val (m_tab st n))) eqn:Ev; try discriminate.
  inversion H; subst s' rq. clear H. cbn [fst snd]. split; [|reflexivity].
  apply R_with_slot. constructor; cbn.
  - apply (R_next _ _ HR).
  - intros m. apply kill_root_ext. apply (R_tab _ _ HR).
  - intros r'. destruct (Nat.eqb r' root); [exact I | apply (R_roots _ _ HR)].
Qed.

(* ---------------------------------------------------------------- stateless conversions *)
Lemma wrapu_wraps8 : forall v, 0 <= v <= 255 -> wrapu 8 (wraps 8 v) = v.
Proof. intros. unfold wrapu, wraps. change (2 ^ 8) with 256. change (2 ^ (8 - 1)) with 128.
  destruct (Z.ltb_spec (v mod 256) 128); lia. Qed.
Lemma wrapu_wraps16 : forall v, 0 <= v <= 65535 -> wrapu 16 (wraps 16 v) = v.
Proof. intros. unfold wrapu, wraps. change (2 ^ 16) with 65536. change (2 ^ (16 - 1)) with 32768.
  destruct (Z.ltb_spec (v mod 65536) 32768); lia. Qed.
Lemma wrapu_wraps32 : forall v, 0 <= v <= 4294967295 -> wrapu 32 (wraps 32 v) = v.
Proof. intros. unfold wrapu, wraps. change (2 ^ 32) with 4294967296. change (2 ^ (32 - 1)) with 2147483648.
  destruct (Z.ltb_spec (v mod 4294967296) 2147483648); lia. Qed.
Lemma wrapu_wraps64 : forall v, 0 <= v <= 18446744073709551615 -> wrapu 64 (wraps 64 v) = v.
Proof. intros. unfold wrapu, wraps. change (2 ^ 64) with 18446744073709551616.
  change (2 ^ (64 - 1)) with 9223372036854775808.
  destruct (Z.ltb_spec (v mod 18446744073709551616) 9223372036854775808); lia. Qed.

(* occaChar ... occaULong keep the value of their C argument *)
Lemma occa_amb_id : forall c v, in_range (ct_kind c) v = true -> occa_amb c v = mk_scalar (ct_kind c) v.
Proof.
  intros c v H. pose proof H as H'. apply in_range_spec in H'.
  destruct c; unfold occa_amb, newOccaIntType; cbn [ct_unsigned ct_size ct_kind] in *;
    cbn [signed_kind unsigned_kind Z.eqb Pos.eqb]; cbv zeta; cbn [lo_of hi_of] in H'; f_equal.
  - rewrite (int_cast_id KI8 v H). apply (int_cast_id KI8 v H).
  - cbn [int_cast]. apply wrapu_wraps8. lia.
  - rewrite (int_cast_id KI16 v H). apply (int_cast_id KI16 v H).
  - cbn [int_cast]. apply wrapu_wraps16. lia.
  - rewrite (int_cast_id KI32 v H). apply (int_cast_id KI32 v H).
  - cbn [int_cast]. apply wrapu_wraps32. lia.
  - rewrite (int_cast_id KI64 v H). apply (int_cast_id KI64 v H).
  - cbn [int_cast]. apply wrapu_wraps64. lia.
Qed.

Lemma echo_reads : forall l o, s_echo l = Some o ->
  kernel_reads cfg_fixed l = o /\ o <> OErr /\ o <> OUB.
Proof.
  intros l o H. destruct l; cbn [s_echo] in H; try discriminate.
  - destruct (in_range k v) eqn:Er; [|discriminate]. inversion H; subst o.
    unfold kernel_reads. cbn [lit_otype]. rewrite (kernelArg_scalar _ _ Er). cbn [ka_pt ka_val].
    rewrite kind_eqb_refl. repeat split; discriminate.
  - inversion H; subst. unfold kernel_reads. cbn. destruct s; cbn; repeat split; discriminate.
  - inversion H; subst. cbn. repeat split; discriminate.
  - inversion H; subst. unfold kernel_reads. cbn. destruct s; cbn; repeat split; discriminate.
Qed.

Lemma echo_all_run : forall args os, s_echo_all args = Some os ->
  map (kernel_reads cfg_fixed) args = os /\ first_stop os = None.
Proof.
  induction args as [|l args IH]; cbn [s_echo_all]; intros os H.
  - inversion H. split; reflexivity.
  - destruct (s_echo l) as [o|] eqn:El; [|discriminate].
    destruct (s_echo_all args) as [os'|] eqn:Ea; [|discriminate]. inversion H; subst os.
    destruct (echo_reads _ _ El) as [H1 [H2 H3]]. destruct (IH _ eq_refl) as [H4 H5].
    cbn [map]. rewrite H1, H4. split; [reflexivity|]. cbn [first_stop]. destruct o; try exact H5; congruence.
Qed.

(* ---------------------------------------------------------------- scopes *)
Lemma addToScope_scalar : forall k v, in_range k v = true ->
  addToScope cfg_fixed (mk_scalar k v) =
    Ok (mkKA (PTK k) (PInt v) 0,
        match k with
        | KBool => CNBool | KI8 | KU8 => CNChar | KI16 | KU16 => CNShort | KI32 | KU32 => CNInt
        | KI64 | KU64 => CNLong | KF32 => CNFloat | KF64 => CNDouble
        end).
Proof.
  intros k v H. unfold addToScope. rewrite (kernelArg_scalar _ _ H). destruct k; reflexivity.
Qed.

(* for every kind that is not unsigned the declared type is the C type of the kind ... *)
Lemma scope_decl_signed : forall ic k v, in_range k v = true -> is_unsigned k = false ->
  scope_decl cfg_fixed ic (LScalar k v) = ODecl ic (s_cname k) false.
Proof.
  intros ic k v H Hu. unfold scope_decl. cbn [lit_otype]. rewrite (addToScope_scalar _ _ H).
  destruct k; try discriminate Hu; reflexivity.
Qed.

(* ... and the inlined kernel reads the value that was added *)
Lemma scope_reads_signed : forall k v, in_range k v = true -> is_unsigned k = false ->
  scope_reads cfg_fixed (LScalar k v) = OType (mk_scalar k v).
Proof.
  intros k v H Hu. unfold scope_reads. cbn [lit_otype]. rewrite (addToScope_scalar _ _ H).
  destruct k; try discriminate Hu; cbn [decl_kind ka_pt ka_val];
    (replace (same_class _ _) with true by reflexivity); cbn [is_float];
    try reflexivity; rewrite (int_cast_id _ _ H); reflexivity.
Qed.

Lemma scope_all_run : forall args os, forallb lit_guard args = true -> s_scope_all args = Some os ->
  map (scope_reads cfg_fixed) args = os /\ first_stop os = None.
Proof.
  induction args as [|l args IH]; cbn [s_scope_all forallb]; intros os Hg H.
  - inversion H. split; reflexivity.
  - apply andb_true_iff in Hg. destruct Hg as [Hg1 Hg2].
    destruct (s_scope_one l) as [o|] eqn:El; [|discriminate].
    destruct (s_scope_all args) as [os'|] eqn:Ea; [|discriminate]. inversion H; subst os.
    destruct (IH _ Hg2 eq_refl) as [H4 H5].
    destruct l; cbn [s_scope_one] in El; try discriminate.
    destruct (in_range k v) eqn:Er; [|discriminate]. inversion El; subst o.
    cbn [lit_guard] in Hg1. apply negb_true_iff in Hg1.
    cbn [map]. rewrite (scope_reads_signed _ _ Er Hg1), H4. split; [reflexivity|]. exact H5.
Qed.

(* ---------------------------------------------------------------- one operation *)
Theorem step_refines : forall F st s o s' rq,
  op_guard o = true ->
  R st s -> sstep s o = Some (s', rq) ->
  R (fst (step F cfg_fixed st o)) s' /\ agrees (snd (step F cfg_fixed st o)) rq.
Proof.
  intros F st s o s' rq Hg HR H. destruct o; cbn [step].
  - (* OpC *) cbn in H. inversion H; subst. cbn [fst snd]. split; [exact HR|].
    destruct (s_lit l) eqn:El; cbn; [|exact I]. apply s_lit_lit_otype in El. subst. reflexivity.
  - (* OpAmb *) cbn in H. inversion H; subst. cbn [fst snd]. split; [exact HR|].
    destruct (in_range (ct_kind c) v) eqn:Er; cbn; [|exact I]. rewrite (occa_amb_id _ _ Er). reflexivity.
  - (* OpP *) cbn in H. inversion H; subst. cbn [fst snd]. split; [exact HR|].
    destruct l; try exact I. destruct (in_range k v) eqn:Er; [|exact I]. cbn [lit_otype agrees].
    rewrite (prim_of_scalar _ _ Er), (newOccaType_prim_same F _ _ Er). reflexivity.
  - (* OpQ *) cbn in H. inversion H; subst. cbn [fst snd]. split; [exact HR|].
    unfold s_conv_req. destruct l; try exact I. destruct (in_range k0 v) eqn:Er; [|exact I].
    destruct (s_conv k0 k v) as [v'|] eqn:Ec; [|exact I]. cbn [lit_otype agrees].
    rewrite (prim_of_scalar _ _ Er), (newOccaType_prim_typed_conv F _ _ _ _ Er Ec). reflexivity.
  - (* OpT *) cbn in H. inversion H; subst. cbn [fst snd]. split; [exact HR|].
    unfold s_conv_req. destruct l; try exact I. destruct (in_range k0 v) eqn:Er; [|exact I].
    destruct (s_conv k0 k v) as [v'|] eqn:Ec; [|exact I]. cbn [lit_otype agrees].
    rewrite (prim_of_typed_conv F _ _ _ _ Er Ec).
    destruct (s_conv_in_range _ _ _ _ Er Ec) as [-> Er2].
    rewrite (newOccaType_prim_same F _ _ Er2). reflexivity.
  - (* OpK *) cbn in H. inversion H; subst. cbn [fst snd]. split; [exact HR|].
    destruct l; try exact I; [|reflexivity]. destruct (in_range k v) eqn:Er; [|exact I]. cbn [lit_otype agrees].
    rewrite (kernelArg_scalar _ _ Er). reflexivity.
  - (* OpKRun *) cbn in H. inversion H; subst. cbn [fst snd]. split; [exact HR|].
    destruct (s_echo_all args) as [os|] eqn:Ea; [|exact I]. destruct (echo_all_run _ _ Ea) as [H1 H2].
    cbn [agrees]. unfold kernel_run. rewrite H1, H2. reflexivity.
  - (* OpScopeDecl *) cbn in H. inversion H; subst. cbn [fst snd]. split; [exact HR|].
    destruct l; try exact I; [|reflexivity]. destruct (in_range k v) eqn:Er; [|exact I].
    cbn [op_guard lit_guard] in Hg. apply negb_true_iff in Hg. cbn [agrees].
    apply scope_decl_signed; assumption.
  - (* OpScopeRun *) cbn in H. inversion H; subst. cbn [fst snd]. split; [exact HR|].
    destruct (s_scope_all args) as [os|] eqn:Ea; [|exact I]. cbn [op_guard] in Hg.
    destruct (scope_all_run _ _ Hg Ea) as [H1 H2].
    cbn [agrees]. unfold scope_run. rewrite H1, H2. reflexivity.
  - eapply new_refines; eassumption.
  - eapply free_refines; eassumption.
  - (* OpIsUndef *) cbn in H. inversion H; subst. cbn [fst snd]. split; [exact HR|]. cbn. rewrite (R_tab _ _ HR). reflexivity.
  - (* OpView *) cbn in H. inversion H; subst. cbn [fst snd]. split; [exact HR|]. cbn. rewrite (R_tab _ _ HR). reflexivity.
  - eapply oset_refines; eassumption.
  - eapply oget_refines; eassumption.
  - eapply ohas_refines; eassumption.
  - eapply apush_refines; eassumption.
  - eapply ains_refines; eassumption.
  - eapply aget_refines; eassumption.
  - eapply apop_refines; eassumption.
  - eapply aclear_refines; eassumption.
  - eapply asize_refines; eassumption.
  - eapply cast_refines; eassumption.
  - eapply getb_refines; eassumption.
  - eapply getn_refines; eassumption.
  - eapply gets_refines; eassumption.
  - eapply ty_refines; eassumption.
Qed.

(* ---------------------------------------------------------------- all histories *)
Lemma agrees_any : forall l, Forall2 agrees l (map (fun _ => Any) l).
Proof. induction l; cbn; constructor; auto. exact I. Qed.

Lemma s_run_none : forall ops, s_run_from None ops = map (fun _ => Any) ops.
Proof. induction ops; cbn; [reflexivity|]. rewrite IHops. reflexivity. Qed.

Lemma run_from_length : forall F cf ops st, length (snd (run_from F cf st ops)) = length ops.
Proof.
  induction ops as [|o ops IH]; intros st; cbn [run_from]; [reflexivity|].
  destruct (step F cf st o) as [st1 ob] eqn:E1. specialize (IH st1).
  destruct (run_from F cf st1 ops) as [st2 obs']. cbn in *. rewrite IH. reflexivity.
Qed.

Lemma Forall2_any : forall (l : list obs) (ops : list op), length l = length ops ->
  Forall2 agrees l (map (fun _ => Any) ops).
Proof.
  induction l; destruct ops; cbn; intros H; try discriminate; constructor; [exact I|].
  apply IHl. lia.
Qed.

Theorem run_refines_from : forall F ops st s,
  forallb op_guard ops = true ->
  R st s -> Forall2 agrees (snd (run_from F cfg_fixed st ops)) (s_run_from (Some s) ops).
Proof.
  induction ops as [|o ops IH]; intros st s Hgs HR.
  - constructor.
  - cbn [run_from s_run_from].
    destruct (step F cfg_fixed st o) as [st1 ob] eqn:E1.
    destruct (run_from F cfg_fixed st1 ops) as [st2 obs'] eqn:E2. cbn [snd].
    cbn [forallb] in Hgs. apply andb_true_iff in Hgs. destruct Hgs as [Hg Hgs].
    destruct (sstep s o) as [[s1 rq]|] eqn:Es.
    + destruct (step_refines F _ _ _ _ _ Hg HR Es) as [HR1 Hag]. rewrite E1 in HR1, Hag. cbn in HR1, Hag.
      constructor; [exact Hag|]. specialize (IH st1 s1 Hgs HR1). rewrite E2 in IH. exact IH.
    + constructor; [exact I|]. rewrite s_run_none. apply Forall2_any.
      pose proof (run_from_length F cfg_fixed ops st1) as Hl. rewrite E2 in Hl. exact Hl.
Qed.
