(* C29 — proofs.  Part A: scalar conversions.  Part B: paths and trees.  Part C: the model's
   JSON store refines the specification's path-indexed store over all histories.  Part D:
   usable handles designate existing nodes (invariant over all histories). *)
From Coq Require Import List ZArith Bool Lia Arith.
From OV.C29 Require Import Types Model Spec.
Import ListNotations.
Local Open Scope Z_scope.

Ltac Zify.zify_post_hook ::= Z.div_mod_to_equations.

(* ================================================================ Part A: scalars *)

Lemma wrapu_small : forall b v, 0 <= v < 2 ^ b -> wrapu b v = v.
Proof. intros. unfold wrapu. apply Z.mod_small; lia. Qed.

Lemma wraps8 : forall v, -128 <= v <= 127 -> wraps 8 v = v.
Proof. intros. unfold wraps. change (2 ^ 8) with 256. change (2 ^ (8 - 1)) with 128.
  destruct (Z.ltb_spec (v mod 256) 128); lia. Qed.
Lemma wraps16 : forall v, -32768 <= v <= 32767 -> wraps 16 v = v.
Proof. intros. unfold wraps. change (2 ^ 16) with 65536. change (2 ^ (16 - 1)) with 32768.
  destruct (Z.ltb_spec (v mod 65536) 32768); lia. Qed.
Lemma wraps32 : forall v, -2147483648 <= v <= 2147483647 -> wraps 32 v = v.
Proof. intros. unfold wraps. change (2 ^ 32) with 4294967296. change (2 ^ (32 - 1)) with 2147483648.
  destruct (Z.ltb_spec (v mod 4294967296) 2147483648); lia. Qed.
Lemma wraps64 : forall v, -9223372036854775808 <= v <= 9223372036854775807 -> wraps 64 v = v.
Proof. intros. unfold wraps. change (2 ^ 64) with 18446744073709551616.
  change (2 ^ (64 - 1)) with 9223372036854775808.
  destruct (Z.ltb_spec (v mod 18446744073709551616) 9223372036854775808); lia. Qed.

Lemma in_range_spec : forall k v, in_range k v = true <-> lo_of k <= v <= hi_of k.
Proof. intros. unfold in_range. rewrite andb_true_iff, !Z.leb_le. tauto. Qed.

(* a value of the C type converted to that type is itself *)
Lemma int_cast_id : forall k v, in_range k v = true -> int_cast k v = v.
Proof.
  intros k v H. apply in_range_spec in H.
  destruct k; cbn [int_cast lo_of hi_of] in *.
  - destruct (Z.eqb_spec v 0); lia.
  - apply wraps8; lia.
  - apply wrapu_small. change (2 ^ 8) with 256. lia.
  - apply wraps16; lia.
  - apply wrapu_small. change (2 ^ 16) with 65536. lia.
  - apply wraps32; lia.
  - apply wrapu_small. change (2 ^ 32) with 4294967296. lia.
  - apply wraps64; lia.
  - apply wrapu_small. change (2 ^ 64) with 18446744073709551616. lia.
  - reflexivity.
  - reflexivity.
Qed.

Lemma kind_eqb_refl : forall k, kind_eqb k k = true.
Proof. intros. unfold kind_eqb. apply Z.eqb_refl. Qed.

Lemma kind_eqb_eq : forall a b, kind_eqb a b = true -> a = b.
Proof. intros a b H. unfold kind_eqb in H. apply Z.eqb_eq in H. destruct a, b; cbn in H; try lia; reflexivity. Qed.

(* primitive::to<T>() from a value of kind k to the same kind *)
Lemma cast_to_same : forall F k v, in_range k v = true -> cast_to F k k v = Ok v.
Proof.
  intros F k v H. destruct k; cbn [cast_to]; try reflexivity;
    (rewrite int_cast_id by exact H; reflexivity).
Qed.

(* ... and to another integral kind that can hold the value *)
Lemma cast_to_int : forall F k0 k v,
  is_float k0 = false -> is_float k = false -> in_range k v = true -> cast_to F k0 k v = Ok v.
Proof.
  intros F k0 k v H0 H1 H. destruct k0; try discriminate H0; destruct k; try discriminate H1;
    cbn [cast_to]; rewrite int_cast_id by exact H; reflexivity.
Qed.

Lemma s_scalar_mk : forall k v, s_scalar k v = mk_scalar k v.
Proof. reflexivity. Qed.

Lemma pint_mk : forall k v, pint (mk_scalar k v) = v.
Proof. reflexivity. Qed.

Lemma prim_of_scalar : forall k v, in_range k v = true ->
  prim_of cfg_fixed (mk_scalar k v) = Ok (mkP (PTK k) v).
Proof.
  intros k v H. unfold prim_of. cbn [o_tag mk_scalar]. destruct k; try reflexivity.
  cbn [fix_bool_prim cfg_fixed]. rewrite pint_mk, int_cast_id by exact H. reflexivity.
Qed.

Lemma new_from_prim_same : forall F k v, in_range k v = true ->
  new_from_prim F k (mkP (PTK k) v) = Ok (mk_scalar k v).
Proof. intros. unfold new_from_prim, prim_to. cbn [p_type p_val]. rewrite cast_to_same by assumption. reflexivity. Qed.

Lemma newOccaType_prim_same : forall F k v, in_range k v = true ->
  newOccaType_prim F cfg_fixed (mkP (PTK k) v) = Ok (mk_scalar k v).
Proof.
  intros. unfold newOccaType_prim. cbn [p_type]. destruct k; cbn [fix_bool_prim cfg_fixed];
    apply new_from_prim_same; assumption.
Qed.

Lemma newOccaType_prim_typed_conv : forall F k0 k v v',
  in_range k0 v = true -> s_conv k0 k v = Some v' ->
  newOccaType_prim_typed F cfg_fixed (mkP (PTK k0) v) (TK k) = Ok (mk_scalar k v').
Proof.
  intros F k0 k v v' H0 Hc. unfold s_conv in Hc.
  assert (Hcast : cast_to F k0 k v = Ok v').
  { destruct (kind_eqb k0 k) eqn:E.
    - apply kind_eqb_eq in E. subst k. inversion Hc; subst. apply cast_to_same; assumption.
    - destruct (is_float k0) eqn:E0; [discriminate|]. destruct (is_float k) eqn:E1; [discriminate|].
      cbn [orb] in Hc. destruct (in_range k v) eqn:E2; [|discriminate]. inversion Hc; subst.
      apply cast_to_int; assumption. }
  unfold newOccaType_prim_typed.
  assert (Hn : new_from_prim F k (mkP (PTK k0) v) = Ok (mk_scalar k v')).
  { unfold new_from_prim, prim_to. cbn [p_type p_val]. rewrite Hcast. reflexivity. }
  destruct k; cbn [fix_bool_prim cfg_fixed]; exact Hn.
Qed.

Lemma prim_of_typed_conv : forall F k0 k v v',
  in_range k0 v = true -> s_conv k0 k v = Some v' ->
  prim_of_typed F cfg_fixed (mk_scalar k0 v) (TK k) = Ok (mkP (PTK k) v').
Proof.
  intros F k0 k v v' H0 Hc. unfold prim_of_typed. rewrite prim_of_scalar by assumption.
  assert (Hcast : prim_to F k (mkP (PTK k0) v) = Ok v').
  { unfold prim_to. cbn [p_type p_val]. unfold s_conv in Hc.
    destruct (kind_eqb k0 k) eqn:E.
    - apply kind_eqb_eq in E. subst k. inversion Hc; subst. apply cast_to_same; assumption.
    - destruct (is_float k0) eqn:E0; [discriminate|]. destruct (is_float k) eqn:E1; [discriminate|].
      cbn [orb] in Hc. destruct (in_range k v) eqn:E2; [|discriminate]. inversion Hc; subst.
      apply cast_to_int; assumption. }
  destruct k; cbn [fix_bool_prim cfg_fixed]; rewrite Hcast; reflexivity.
Qed.

Lemma s_conv_in_range : forall k0 k v v', in_range k0 v = true -> s_conv k0 k v = Some v' -> v' = v /\ in_range k v = true.
Proof.
  intros k0 k v v' H0 Hc. unfold s_conv in Hc. destruct (kind_eqb k0 k) eqn:E.
  - apply kind_eqb_eq in E. subst. inversion Hc; subst. auto.
  - destruct (is_float k0 || is_float k); [discriminate|]. destruct (in_range k v) eqn:E2; [|discriminate].
    inversion Hc; subst. auto.
Qed.

Lemma kernelArg_scalar : forall k v, in_range k v = true ->
  kernelArg cfg_fixed (mk_scalar k v) = Ok (mkKA (PTK k) (PInt v) 0).
Proof.
  intros k v H. unfold kernelArg. cbn [o_magic mk_scalar negb o_tag]. destruct k; try reflexivity.
  cbn [fix_bool_karg cfg_fixed]. rewrite pint_mk, int_cast_id by exact H. reflexivity.
Qed.
