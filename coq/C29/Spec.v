(* C29 — the specification, written independently of Model.v's data structures and
   conversion chains.

   Scalars: constructing a value of kind k from v gives tag k, sizeof(k) bytes, value v;
   every conversion path that ends in the same kind (or in an integer kind that can hold
   v) must give back exactly v — there is no arithmetic here, only "the same value".

   JSON: a document is a function from paths to what the accessors may report there
   (`node`); storing a value at a location makes reads below that location return the stored
   value and leaves every other path alone (last write wins); inserting into an array shifts
   the later indices.  C variables holding handles are tracked in the same table, with the same
   usability rule (Types.kill_below / kill_root), as in the model.

   The specification speaks only about well-formed use: as soon as a call is outside its
   preconditions (a call the library answers with an exception, a dangling or undefined
   handle, a read past the end of an array, a value that cannot be stored ...) it stops
   constraining the rest of the case (`None` = "no requirement from here on"). *)
From Coq Require Import List ZArith Bool Lia.
From OV.C29 Require Import Types.
Import ListNotations.
Local Open Scope Z_scope.

(* ---------------------------------------------------------------- scalars *)
Definition s_scalar (k : kind) (v : Z) : otype := mkO true (TK k) (size_of k) false (PInt v).

(* the occaType a constructor call must return; None: the literal is not a C value of its type *)
Definition s_lit (l : lit) : option otype :=
  match l with
  | LScalar k v => if in_range k v then Some (s_scalar k v) else None
  | LStr s => Some (mkO true TString (Z.of_nat (length s)) false (PBytes s))
  | LNull => Some occaNull
  | LUndef => Some occaUndefined
  | LDefault => Some occaDefault
  | LPtr nn => Some (mkO true TPtr 8 false (if nn then PUser else PNull))
  | LStruct s => Some (mkO true TStruct (Z.of_nat (length s)) false (PBytes s))
  end.

(* LP64 *)
Definition ct_kind (c : ctype) : kind :=
  match c with
  | CtChar => KI8 | CtUChar => KU8 | CtShort => KI16 | CtUShort => KU16
  | CtInt => KI32 | CtUInt => KU32 | CtLong => KI64 | CtULong => KU64
  end.

(* reading a stored value of kind src as kind dst: the same value whenever dst can hold it;
   conversions that involve a floating type and change the kind are not constrained here *)
Definition s_conv (src dst : kind) (v : Z) : option Z :=
  if kind_eqb src dst then Some v
  else if is_float src || is_float dst then None
  else if in_range dst v then Some v else None.

Definition req_type (o : option otype) : req :=
  match o with Some x => Must (OType x) | None => Any end.

Definition s_conv_req (k : kind) (l : lit) : req :=
  match l with
  | LScalar k0 v =>
      if in_range k0 v then
        match s_conv k0 k v with Some v' => Must (OType (s_scalar k v')) | None => Any end
      else Any
  | _ => Any
  end.

(* what a kernel parameter of the literal's own type must receive *)
Definition s_echo (l : lit) : option obs :=
  match l with
  | LScalar k v => if in_range k v then Some (OType (s_scalar k v)) else None
  | LStr s => Some (OBytes s)
  | LStruct s => Some (OBytes s)
  | LNull => Some (OType occaNull)
  | _ => None
  end.

Fixpoint s_echo_all (ls : list lit) : option (list obs) :=
  match ls with
  | [] => Some []
  | l :: ls' => match s_echo l, s_echo_all ls' with
                | Some o, Some os => Some (o :: os)
                | _, _ => None
                end
  end.

(* a scope value must be declared with the C type of its kind, signedness included ... *)
Definition s_cname (k : kind) : cname :=
  match k with
  | KBool => CNBool | KI8 => CNChar | KU8 => CNUChar | KI16 => CNShort | KU16 => CNUShort
  | KI32 => CNInt | KU32 => CNUInt | KI64 => CNLong | KU64 => CNULong | KF32 => CNFloat | KF64 => CNDouble
  end.

(* ... and the inlined kernel must read the value that was added *)
Definition s_scope_one (l : lit) : option obs :=
  match l with
  | LScalar k v => if in_range k v then Some (OType (s_scalar k v)) else None
  | _ => None
  end.

Fixpoint s_scope_all (ls : list lit) : option (list obs) :=
  match ls with
  | [] => Some []
  | l :: ls' => match s_scope_one l, s_scope_all ls' with
                | Some o, Some os => Some (o :: os)
                | _, _ => None
                end
  end.

(* Known finding scope_unsigned: the library declares unsigned scope values with the signed
   type name, so the theorems exclude unsigned scalars in scope operations by this guard. *)
Definition lit_guard (l : lit) : bool :=
  match l with LScalar k _ => negb (is_unsigned k) | _ => true end.
Definition op_guard (o : op) : bool :=
  match o with
  | OpScopeDecl _ l => lit_guard l
  | OpScopeRun _ args => forallb lit_guard args
  | _ => true
  end.

(* ---------------------------------------------------------------- documents *)
Definition doc := path -> node.

Definition sub (d : doc) (p : path) : doc := fun q => d (p ++ q).
Definition leaf (n : node) : doc := fun q => match q with [] => n | _ => NAbsent end.
(* replace everything at and below p by g, leave the rest *)
Definition graft (d : doc) (p : path) (g : doc) : doc :=
  fun q => match strip_prefix p q with Some r => g r | None => d q end.

Record sstate := mkS {
  s_roots : nat -> option doc;
  s_next : nat;
  s_tab : table }.

Definition s_init : sstate := mkS (fun _ => None) 0%nat empty_table.

Definition s_set_root (s : sstate) (r : nat) (d : option doc) : sstate :=
  mkS (fun r' => if Nat.eqb r' r then d else s_roots s r') (s_next s) (s_tab s).
Definition s_set_tab (s : sstate) (T : table) : sstate := mkS (s_roots s) (s_next s) T.
Definition s_with_slot (s : sstate) (n : nat) (sl : slot) : sstate := s_set_tab s (set_slot (s_tab s) n sl).
Definition s_kill (s : sstate) (r : nat) (p : path) : sstate := s_set_tab s (kill_below r p (s_tab s)).

(* the usable handle in C variable n: heap object, path, document *)
Definition s_open (s : sstate) (n : nat) : option (nat * path * doc) :=
  let sl := s_tab s n in
  let o := sl_val sl in
  if o_magic o && tag_eqb (o_tag o) TJson && sl_ok sl then
    match o_val o with
    | PRef r p =>
        match s_roots s r with
        | Some d => match d p with NAbsent => None | _ => Some (r, p, d) end
        | None => None
        end
    | _ => None
    end
  else None.

(* the document a value argument stores; None: not storable under this specification *)
Definition otype_doc (s : sstate) (sl : slot) : option doc :=
  let o := sl_val sl in
  if negb (o_magic o) then None else
  match o_tag o, o_val o with
  | TK k, PInt v => if in_range k v then Some (leaf (NNum k v)) else None
  | TString, PBytes b => Some (leaf (NStr b))
  | TNull, _ => Some (leaf NNull)
  | TPtr, PNull => Some (leaf NNull)
  | TJson, PRef r p =>
      if sl_ok sl then
        match s_roots s r with
        | Some d => match d p with
                    | NAbsent | NNone => None
                    | _ => Some (sub d p)
                    end
        | None => None
        end
      else None
  | _, _ => None
  end.

Definition s_value (s : sstate) (v : vtok) : option doc :=
  match v with
  | VLit l => match s_lit l with Some o => otype_doc s (mkSlot o true) | None => None end
  | VSlot m => otype_doc s (s_tab s m)
  end.

(* an uninitialised node becomes an empty object / array when used as one *)
Definition s_auto (want_obj : bool) (s : sstate) (r : nat) (p : path) (d : doc) : sstate * doc :=
  match d p with
  | NNone => let d' := graft d p (leaf (if want_obj then NObj else NArr 0)) in
             (s_set_root s r (Some d'), d')
  | _ => (s, d)
  end.

Definition s_handle (r : nat) (p : path) (n : node) : otype :=
  match n with
  | NNull => occaNull
  | _ => mkO true TJson 8 false (PRef r p)
  end.

(* relative documents after a store *)
Definition g_oset (old : doc) (key : bytes) (vd : doc) : doc :=
  fun q => match q with
           | [] => NObj
           | SK k' :: q' => if bytes_eqb k' key then vd q' else old q
           | _ => old q
           end.

Definition g_ains (old : doc) (len i : nat) (vd : doc) : doc :=
  fun q => match q with
           | [] => NArr (S len)
           | SI j :: q' => if Nat.ltb j i then old q
                           else if Nat.eqb j i then vd q'
                           else old (SI (j - 1) :: q')
           | _ => old q
           end.

Definition g_apop (old : doc) (len : nat) : doc :=
  fun q => match q with
           | [] => NArr (len - 1)
           | SI j :: q' => if Nat.ltb j (len - 1) then old q else NAbsent
           | _ => old q
           end.

Definition arr_len (n : node) : option nat := match n with NArr k => Some k | _ => None end.

(* ---------------------------------------------------------------- one operation *)
Definition sstep (s : sstate) (o : op) : option (sstate * req) :=
  match o with
  | OpC l => Some (s, req_type (s_lit l))
  | OpAmb c v => Some (s, if in_range (ct_kind c) v then Must (OType (s_scalar (ct_kind c) v)) else Any)
  | OpP l => Some (s, match l with
                      | LScalar k v => if in_range k v then Must (OType (s_scalar k v)) else Any
                      | _ => Any
                      end)
  | OpQ k l => Some (s, s_conv_req k l)
  | OpT k l => Some (s, s_conv_req k l)
  | OpK l => Some (s, match l with
                      | LScalar k v => if in_range k v then Must (OKArg (mkKA (PTK k) (PInt v) 0)) else Any
                      | LNull => Must (OKArg (mkKA PTPtr PNull 0))
                      | _ => Any
                      end)
  | OpKRun args => Some (s, match s_echo_all args with Some os => Must (OList os) | None => Any end)
  | OpScopeDecl ic l => Some (s, match l with
                                 | LScalar k v => if in_range k v then Must (ODecl ic (s_cname k) false) else Any
                                 | LNull => Must (ODecl ic CNVoid true)
                                 | _ => Any
                                 end)
  | OpScopeRun ic args => Some (s, match s_scope_all args with Some os => Must (OList os) | None => Any end)
  | OpNew n =>
      let r := s_next s in
      let h := mkO true TJson 8 true (PRef r []) in
      let s1 := mkS (fun r' => if Nat.eqb r' r then Some (leaf NNone) else s_roots s r') (S r) (s_tab s) in
      Some (s_with_slot s1 n (mkSlot h true), Must (OType h))
  | OpFree n =>
      let sl := s_tab s n in
      let h := sl_val sl in
      if negb (o_magic h) then Some (s, Must OUnit)
      else if tag_eqb (o_tag h) TJson && o_free h then
        if sl_ok sl then
          match o_val h with
          | PRef r _ =>
              let s1 := s_set_tab (s_set_root s r None) (kill_root r (s_tab s)) in
              Some (s_with_slot s1 n (mkSlot (mark_undefined h) false), Must OUnit)
          | _ => None
          end
        else None
      else Some (s_with_slot s n (mkSlot (mark_undefined h) (sl_ok sl)), Must OUnit)
  | OpIsUndef n => Some (s, Must (OBool (negb (o_magic (sl_val (s_tab s n))))))
  | OpView n => Some (s, Must (OType (sl_val (s_tab s n))))
  | OpOSet n key v =>
      match key with
      | [] => None
      | _ =>
          if key_ok key then
            match s_open s n with
            | Some (r, p, d) =>
                match d p with
                | NNone | NObj =>
                    let '(s1, d1) := s_auto true s r p d in
                    match s_value s1 v with
                    | Some vd =>
                        let d2 := graft d1 p (g_oset (sub d1 p) key vd) in
                        Some (s_kill (s_set_root s1 r (Some d2)) r (p ++ [SK key]), Must OUnit)
                    | None => None
                    end
                | _ => None
                end
            | None => None
            end
          else None
      end
  | OpOGet n key m dl =>
      match key with
      | [] => None
      | _ =>
          if key_ok key then
            match s_open s n, s_lit dl with
            | Some (r, p, d), Some dv =>
                match d p with
                | NNone | NObj =>
                    let '(s1, d1) := s_auto true s r p d in
                    let h := match d1 (p ++ [SK key]) with
                             | NAbsent => dv
                             | nd => s_handle r (p ++ [SK key]) nd
                             end in
                    Some (s_with_slot s1 m (mkSlot h true), Must (OType h))
                | _ => None
                end
            | _, _ => None
            end
          else None
      end
  | OpOHas n key =>
      match key with
      | [] => None
      | _ =>
          if key_ok key then
            match s_open s n with
            | Some (r, p, d) =>
                match d p with
                | NNone | NObj =>
                    let '(s1, d1) := s_auto true s r p d in
                    Some (s1, Must (OBool (match d1 (p ++ [SK key]) with NAbsent => false | _ => true end)))
                | _ => None
                end
            | None => None
            end
          else None
      end
  | OpAPush n v =>
      match s_open s n with
      | Some (r, p, d) =>
          match d p with
          | NNone | NArr _ =>
              let '(s1, d1) := s_auto false s r p d in
              match arr_len (d1 p), s_value s1 v with
              | Some len, Some vd =>
                  let d2 := graft d1 p (g_ains (sub d1 p) len len vd) in
                  Some (s_kill (s_set_root s1 r (Some d2)) r p, Must OUnit)
              | _, _ => None
              end
          | _ => None
          end
      | None => None
      end
  | OpAIns n i v =>
      match s_open s n with
      | Some (r, p, d) =>
          match d p with
          | NArr len =>
              if (0 <=? i) && (i <? Z.of_nat len) then
                match s_value s v with
                | Some vd =>
                    let d2 := graft d p (g_ains (sub d p) len (Z.to_nat i) vd) in
                    Some (s_kill (s_set_root s r (Some d2)) r p, Must OUnit)
                | None => None
                end
              else None
          | _ => None
          end
      | None => None
      end
  | OpAGet n i m =>
      match s_open s n with
      | Some (r, p, d) =>
          match d p with
          | NArr len =>
              if (0 <=? i) && (i <? Z.of_nat len) then
                let q := p ++ [SI (Z.to_nat i)] in
                let h := s_handle r q (d q) in
                Some (s_with_slot s m (mkSlot h true), Must (OType h))
              else None
          | _ => None
          end
      | None => None
      end
  | OpAPop n =>
      match s_open s n with
      | Some (r, p, d) =>
          match d p with
          | NArr (S len) =>
              let d2 := graft d p (g_apop (sub d p) (S len)) in
              Some (s_kill (s_set_root s r (Some d2)) r p, Must OUnit)
          | _ => None
          end
      | None => None
      end
  | OpAClear n =>
      match s_open s n with
      | Some (r, p, d) =>
          match d p with
          | NNone | NArr _ =>
              Some (s_kill (s_set_root s r (Some (graft d p (leaf (NArr 0))))) r p, Must OUnit)
          | _ => None
          end
      | None => None
      end
  | OpASize n =>
      match s_open s n with
      | Some (r, p, d) =>
          match d p with
          | NNone | NArr _ =>
              let '(s1, d1) := s_auto false s r p d in
              match arr_len (d1 p) with
              | Some len => Some (s1, Must (OInt (Z.of_nat len)))
              | None => None
              end
          | _ => None
          end
      | None => None
      end
  | OpCast n cj =>
      match s_open s n with
      | Some (r, p, d) =>
          match cj, d p with
          | CObj, NObj | CArr, NArr _ => Some (s, Must OUnit)
          | CStr, NStr _ | CNum, NNum _ _ => Some (s_kill s r p, Must OUnit)
          | CObj, _ => Some (s_kill (s_set_root s r (Some (graft d p (leaf NObj)))) r p, Must OUnit)
          | CArr, _ => Some (s_kill (s_set_root s r (Some (graft d p (leaf (NArr 0))))) r p, Must OUnit)
          | CStr, _ => Some (s_kill (s_set_root s r (Some (graft d p (leaf (NStr []))))) r p, Must OUnit)
          | CBool, NNum k v =>
              if negb (is_float k) && in_range k v then
                Some (s_kill (s_set_root s r (Some (graft d p (leaf (NNum KBool (if v =? 0 then 0 else 1)))))) r p,
                      Must OUnit)
              else None
          | _, _ => None
          end
      | None => None
      end
  | OpGetB n =>
      match s_open s n with
      | Some (r, p, d) =>
          match d p with
          | NNum KBool v => if in_range KBool v then Some (s, Must (OBool (v =? 1))) else None
          | _ => Some (s, Must ONot)
          end
      | None => None
      end
  | OpGetN n k =>
      match s_open s n with
      | Some (r, p, d) =>
          match d p with
          | NNum k0 v =>
              if in_range k0 v then
                Some (s, match s_conv k0 k v with Some v' => Must (OType (s_scalar k v')) | None => Any end)
              else None
          | _ => Some (s, Must ONot)
          end
      | None => None
      end
  | OpGetS n =>
      match s_open s n with
      | Some (r, p, d) =>
          match d p with
          | NStr b => Some (s, Must (OBytes b))
          | _ => Some (s, Must ONot)
          end
      | None => None
      end
  | OpTy n =>
      match s_open s n with
      | Some (r, p, d) =>
          let nd := d p in
          Some (s, Must (OFlags (match nd with NNum KBool _ => true | _ => false end)
                                (match nd with NNum _ _ => true | _ => false end)
                                (match nd with NStr _ => true | _ => false end)
                                (match nd with NArr _ => true | _ => false end)
                                (match nd with NObj => true | _ => false end)))
      | None => None
      end
  end.

(* the requirements for a whole case; after the first call outside the specification's
   preconditions nothing more is required *)
Fixpoint s_run_from (s : option sstate) (ops : list op) : list req :=
  match ops with
  | [] => []
  | o :: ops' =>
      match s with
      | None => Any :: s_run_from None ops'
      | Some s0 =>
          match sstep s0 o with
          | Some (s1, rq) => rq :: s_run_from (Some s1) ops'
          | None => Any :: s_run_from None ops'
          end
      end
  end.

Definition s_run (ops : list op) : list req := s_run_from (Some s_init) ops.

Definition agrees (ob : obs) (rq : req) : Prop :=
  match rq with Any => True | Must o => ob = o end.
