(* C29 — vocabulary shared by the model (Model.v) and the specification (Spec.v):
   scalar kinds, occaType tags, the occaType record, JSON paths, the abstract view of a JSON
   node, the case language (literals, operations, observations) and the table of C variables
   ("slots") that hold occaType values together with the rule that says which variables an
   operation makes unusable.  No proofs in this file. *)
From Coq Require Import List ZArith Bool Lia.
Import ListNotations.
Local Open Scope Z_scope.

(* ---------------------------------------------------------------- scalar kinds *)
Inductive kind := KBool | KI8 | KU8 | KI16 | KU16 | KI32 | KU32 | KI64 | KU64 | KF32 | KF64.

(* occa::c::typeType codes of the scalar kinds (src/occa/internal/c/types.hpp) *)
Definition kind_code (k : kind) : Z :=
  match k with
  | KBool => 4 | KI8 => 5 | KU8 => 6 | KI16 => 7 | KU16 => 8 | KI32 => 9 | KU32 => 10
  | KI64 => 11 | KU64 => 12 | KF32 => 13 | KF64 => 14
  end.

Definition kind_eqb (a b : kind) : bool := kind_code a =? kind_code b.

Definition is_float (k : kind) : bool := match k with KF32 | KF64 => true | _ => false end.

(* sizeof of the C type; occaBool values are stored in an int8_t *)
Definition size_of (k : kind) : Z :=
  match k with
  | KBool | KI8 | KU8 => 1 | KI16 | KU16 => 2 | KI32 | KU32 | KF32 => 4 | KI64 | KU64 | KF64 => 8
  end.

(* value ranges.  Integers are their numeric value; float and double are carried as their
   IEEE bit pattern, an unsigned 32/64-bit number (floats are never computed in Coq). *)
Definition lo_of (k : kind) : Z :=
  match k with
  | KI8 => -128 | KI16 => -32768 | KI32 => -2147483648 | KI64 => -9223372036854775808
  | _ => 0
  end.
Definition hi_of (k : kind) : Z :=
  match k with
  | KBool => 1 | KI8 => 127 | KU8 => 255 | KI16 => 32767 | KU16 => 65535
  | KI32 => 2147483647 | KU32 => 4294967295 | KF32 => 4294967295
  | KI64 => 9223372036854775807 | KU64 => 18446744073709551615 | KF64 => 18446744073709551615
  end.
Definition in_range (k : kind) (v : Z) : bool := (lo_of k <=? v) && (v <=? hi_of k).

(* ---------------------------------------------------------------- occaType tags *)
Inductive tag :=
| TUndefined | TDefault | TNull | TPtr | TK (k : kind) | TStruct | TString
| TDevice | TKernel | TKernelBuilder | TMemory | TMemoryPool | TStream | TStreamTag
| TDtype | TScope | TJson.

Definition tag_code (t : tag) : Z :=
  match t with
  | TUndefined => 0 | TDefault => 1 | TNull => 2 | TPtr => 3 | TK k => kind_code k
  | TStruct => 15 | TString => 16 | TDevice => 17 | TKernel => 18 | TKernelBuilder => 19
  | TMemory => 20 | TMemoryPool => 21 | TStream => 22 | TStreamTag => 23
  | TDtype => 24 | TScope => 25 | TJson => 26
  end.
Definition tag_eqb (a b : tag) : bool := tag_code a =? tag_code b.

(* ---------------------------------------------------------------- JSON paths *)
Definition bytes := list Z.          (* a C string: bytes 1..255 *)

Fixpoint bytes_eqb (a b : bytes) : bool :=
  match a, b with
  | [], [] => true
  | x :: a', y :: b' => (x =? y) && bytes_eqb a' b'
  | _, _ => false
  end.

Inductive step := SK (k : bytes) | SI (i : nat).
Definition path := list step.

Definition step_eqb (a b : step) : bool :=
  match a, b with
  | SK x, SK y => bytes_eqb x y
  | SI i, SI j => Nat.eqb i j
  | _, _ => false
  end.

(* strip_prefix p q = Some r  iff  q = p ++ r *)
Fixpoint strip_prefix (p q : path) : option path :=
  match p with
  | [] => Some q
  | a :: p' => match q with
               | b :: q' => if step_eqb a b then strip_prefix p' q' else None
               | [] => None
               end
  end.

(* q is a proper extension of p *)
Definition strictly_below (p q : path) : bool :=
  match strip_prefix p q with Some (_ :: _) => true | _ => false end.

(* ---------------------------------------------------------------- occaType *)
(* What the `value` union of an occaType holds, as far as this property can see it. *)
Inductive payload :=
| PNull                          (* value.ptr == NULL / nothing meaningful *)
| PInt (v : Z)                   (* the scalar in the union member that belongs to the tag *)
| PUser                          (* a non-null user pointer (occaPtr) *)
| PBytes (s : bytes)             (* pointer to a user buffer with these contents (occaString, occaStruct) *)
| PRef (root : nat) (p : path).  (* pointer to the occa::json node at `p` inside heap object `root` *)

Record otype := mkO {
  o_magic : bool;        (* magicHeader == OCCA_C_TYPE_MAGIC_HEADER *)
  o_tag : tag;
  o_bytes : Z;           (* 0 where the constructor leaves the field unset (undefined/default/null) *)
  o_free : bool;         (* needsFree *)
  o_val : payload }.

Definition occaUndefined : otype := mkO false TUndefined 0 false PNull.
Definition occaDefault : otype := mkO true TDefault 0 false PNull.
Definition occaNull : otype := mkO true TNull 0 false PNull.

(* ---------------------------------------------------------------- abstract JSON node *)
(* What the C accessors can tell about one node of a JSON document. *)
Inductive node :=
| NAbsent                        (* no node at this path *)
| NNone                          (* json::none_ (uninitialised) *)
| NNull
| NNum (k : kind) (v : Z)        (* number; KBool = JSON boolean *)
| NStr (s : bytes)
| NArr (n : nat)                 (* array of n elements *)
| NObj.

(* ---------------------------------------------------------------- case language *)
Inductive lit :=
| LScalar (k : kind) (v : Z)     (* occaBool/occaInt8/.../occaDouble *)
| LStr (s : bytes)               (* occaString *)
| LNull | LUndef | LDefault
| LPtr (nonnull : bool)          (* occaPtr *)
| LStruct (s : bytes).           (* occaStruct(buf, len) *)

Inductive vtok := VLit (l : lit) | VSlot (n : nat).

Inductive jcast := CBool | CNum | CStr | CArr | CObj.

(* C integer types of the "ambiguous" constructors occaChar ... occaULong (LP64) *)
Inductive ctype := CtChar | CtUChar | CtShort | CtUShort | CtInt | CtUInt | CtLong | CtULong.

Inductive op :=
| OpC (l : lit)                                  (* construct, look at the occaType *)
| OpAmb (c : ctype) (v : Z)                      (* occaChar(v) ... occaULong(v) *)
| OpP (l : lit)                                  (* newOccaType(primitive(x)) *)
| OpQ (k : kind) (l : lit)                       (* newOccaType(primitive(x), type) *)
| OpT (k : kind) (l : lit)                       (* newOccaType(primitive(x, type)) *)
| OpK (l : lit)                                  (* kernelArg(x) *)
| OpKRun (args : list lit)                       (* run a kernel that writes its arguments back *)
| OpScopeDecl (isConst : bool) (l : lit)         (* occaScopeAdd[Const](scope, name, x): how the inlined kernel declares it *)
| OpScopeRun (isConst : bool) (args : list lit)  (* ... and what an inlined (JIT) kernel reads for each of them *)
| OpNew (n : nat)                                (* slot n = occaCreateJson() *)
| OpFree (n : nat)                               (* occaFree(&slot n) *)
| OpIsUndef (n : nat)
| OpView (n : nat)
| OpOSet (n : nat) (key : bytes) (v : vtok)
| OpOGet (n : nat) (key : bytes) (m : nat) (d : lit)
| OpOHas (n : nat) (key : bytes)
| OpAPush (n : nat) (v : vtok)
| OpAIns (n : nat) (i : Z) (v : vtok)
| OpAGet (n : nat) (i : Z) (m : nat)
| OpAPop (n : nat)
| OpAClear (n : nat)
| OpASize (n : nat)
| OpCast (n : nat) (c : jcast)
| OpGetB (n : nat)
| OpGetN (n : nat) (k : kind)
| OpGetS (n : nat)
| OpTy (n : nat).

(* kernelArgData as seen through size()/isPointer()/value *)
Inductive ptype := PTNone | PTK (k : kind) | PTPtr.
Record karg := mkKA { ka_pt : ptype; ka_val : payload; ka_psize : Z }.

(* the C type name a scope value is declared with in an inlined kernel's signature *)
Inductive cname :=
| CNBool | CNChar | CNUChar | CNShort | CNUShort | CNInt | CNUInt | CNLong | CNULong
| CNFloat | CNDouble | CNVoid.

Definition is_unsigned (k : kind) : bool :=
  match k with KU8 | KU16 | KU32 | KU64 => true | _ => false end.

Inductive obs :=
| OType (o : otype)              (* an occaType: tag, bytes, needsFree, value *)
| OKArg (a : karg)
| ODecl (isConst : bool) (c : cname) (isPtr : bool)   (* "[const] <c> [*]name" *)
| OList (l : list obs)
| OBool (b : bool)
| OInt (z : Z)
| OBytes (s : bytes)
| OFlags (isb isn iss isa iso : bool)
| ONot                           (* accessor not applicable (driver checks the JSON type first) *)
| OUnit
| OErr                           (* the library raised occa::exception *)
| OUB                            (* undefined behaviour in the C++ (never generated) *)
| OUndef                         (* the C variable is marked undefined (driver checks occaIsUndefined first) *)
| OInvalid                       (* the C variable refers to a destroyed JSON node (never generated) *)
| OOut.                          (* outside the modelled domain ('/' in a key) *)

(* What the specification requires of one observation *)
Inductive req := Any | Must (o : obs).

(* ---------------------------------------------------------------- C variables *)
Record slot := mkSlot { sl_val : otype; sl_ok : bool }.
Definition table := nat -> slot.

Definition empty_table : table := fun _ => mkSlot occaUndefined true.

Definition set_slot (T : table) (n : nat) (s : slot) : table :=
  fun m => if Nat.eqb m n then s else T m.

(* Destroying the children of the node at (r, p) makes every variable that points strictly
   below it unusable; the variable pointing at the node itself stays usable. *)
Definition kill_below (r : nat) (p : path) (T : table) : table :=
  fun n =>
    let s := T n in
    match o_val (sl_val s) with
    | PRef r' q => if Nat.eqb r' r && strictly_below p q then mkSlot (sl_val s) false else s
    | _ => s
    end.

(* Deleting heap object r makes every variable that points into it unusable. *)
Definition kill_root (r : nat) (T : table) : table :=
  fun n =>
    let s := T n in
    match o_val (sl_val s) with
    | PRef r' _ => if Nat.eqb r' r then mkSlot (sl_val s) false else s
    | _ => s
    end.

(* occaFree ends with  value->magicHeader = occaUndefined.magicHeader  *)
Definition mark_undefined (o : otype) : otype :=
  mkO false (o_tag o) (o_bytes o) (o_free o) (o_val o).

Definition key_ok (k : bytes) : bool := negb (existsb (fun c => c =? 47) k).   (* no '/' *)
