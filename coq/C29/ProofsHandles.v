(* C29 — proofs, part D: in every state reachable by any history (with either variant of the
   repaired branches), every C variable that the model calls usable points into a live heap
   object and at an existing node: occa::c::json(value) on it dereferences valid memory of
   the model. *)
From Coq Require Import List ZArith Bool Lia Arith.
From OV.C29 Require Import Types Model Spec Proofs ProofsTree ProofsRefine ProofsOps.
Import ListNotations.
Local Open Scope Z_scope.

Definition resolves (st : mstate) (r : nat) (q : path) : Prop :=
  exists t, m_roots st r = Some t /\ alpha t q <> NAbsent.

Definition slot_fine (st : mstate) (sl : slot) : Prop :=
  (forall r q, o_val (sl_val sl) = PRef r q -> sl_ok sl = true -> resolves st r q) /\
  (o_tag (sl_val sl) = TJson -> exists r q, o_val (sl_val sl) = PRef r q).

Record inv (st : mstate) : Prop := mkInv {
  inv_slots : forall n, slot_fine st (m_tab st n);
  inv_fresh : forall r, (m_next st <= r)%nat -> m_roots st r = None }.

Lemma inv_init : inv m_init.
Proof. constructor; [|reflexivity]. intros n. split; cbn; intros; discriminate. Qed.

(* ---------------------------------------------------------------- resolves under writes *)
Lemma resolves_put_other : forall st r p c r' q, r' <> r -> resolves st r' q -> resolves (put_node st r p c) r' q.
Proof. intros st r p c r' q Hne [t [H1 H2]]. exists t. rewrite put_node_root_other by assumption. auto. Qed.

Lemma resolves_put : forall st r p c c' t q,
  m_roots st r = Some t -> node_at p t = Some c ->
  match strip_prefix p q with Some rest => alpha c' rest <> NAbsent | None => alpha t q <> NAbsent end ->
  resolves (put_node st r p c') r q.
Proof.
  intros st r p c c' t q Hm Hn H. eexists. split; [apply put_node_root_same; exact Hm|].
  rewrite (alpha_modify _ _ _ _ _ Hn). destruct (strip_prefix p q); exact H.
Qed.

Lemma resolves_root_unique : forall st r q t, resolves st r q -> m_roots st r = Some t -> alpha t q <> NAbsent.
Proof. intros st r q t [t' [H1 H2]] H. rewrite H in H1. inversion H1; subst. exact H2. Qed.

(* a write that keeps every node that existed below the pointer *)
Lemma inv_put_keep : forall st r p c c' t,
  inv st -> m_roots st r = Some t -> node_at p t = Some c ->
  (forall rest, alpha c rest <> NAbsent -> alpha c' rest <> NAbsent) ->
  inv (put_node st r p c').
Proof.
  intros st r p c c' t [Hs Hf] Hm Hn Hkeep. constructor.
  - intros n. rewrite put_node_tab. destruct (Hs n) as [H1 H2]. split; [|exact H2].
    intros r' q Hv Hok. specialize (H1 r' q Hv Hok). destruct (Nat.eq_dec r' r) as [->|Hne].
    + eapply resolves_put; eauto. pose proof (resolves_root_unique _ _ _ _ H1 Hm) as Ha.
      destruct (strip_prefix p q) eqn:E; [|exact Ha].
      apply strip_prefix_Some in E. subst q. apply Hkeep. rewrite <- (alpha_app _ _ _ _ Hn). exact Ha.
    + apply resolves_put_other; assumption.
  - intros r' Hr. rewrite put_node_next in Hr. destruct (Nat.eq_dec r' r) as [->|Hne].
    + rewrite (Hf r Hr) in Hm. discriminate.
    + rewrite put_node_root_other by assumption. apply Hf. exact Hr.
Qed.

Lemma strictly_below_cases : forall p q,
  strictly_below p q = false ->
  strip_prefix p q = None \/ strip_prefix p q = Some [].
Proof. intros p q H. unfold strictly_below in H. destruct (strip_prefix p q) as [[|a l]|]; auto. discriminate. Qed.

(* a write after which every variable pointing strictly below the pointer is made unusable *)
Lemma inv_put_kill : forall st r p c c' t,
  inv st -> m_roots st r = Some t -> node_at p t = Some c ->
  inv (kill (put_node st r p c') r p).
Proof.
  intros st r p c c' t [Hs Hf] Hm Hn. constructor.
  - intros n. cbn [kill set_tab m_tab]. rewrite put_node_tab. unfold kill_below; cbv zeta.
    destruct (o_val (sl_val (m_tab st n))) eqn:Ev; cbv beta iota; destruct (Hs n) as [H1 H2];
      try (split; [intros r' q Hv; rewrite Ev in Hv; discriminate | exact H2]).
    destruct (Nat.eqb root r && strictly_below p p0) eqn:Eb.
    + split; cbn [sl_val sl_ok]; [intros; discriminate | exact H2].
    + split; [|exact H2]. intros r' q Hv Hok. rewrite Ev in Hv. inversion Hv; subst r' q.
      specialize (H1 _ _ Ev Hok). destruct (Nat.eqb_spec root r) as [->|Hne].
      * cbn [andb] in Eb. eapply resolves_put; eauto.
        destruct (strictly_below_cases _ _ Eb) as [E|E]; rewrite E.
        -- exact (resolves_root_unique _ _ _ _ H1 Hm).
        -- unfold alpha. cbn. apply kind_of_not_absent.
      * apply resolves_put_other; assumption.
  - intros r' Hr. cbn [kill set_tab m_roots m_next] in *. rewrite put_node_next in Hr.
    destruct (Nat.eq_dec r' r) as [->|Hne].
    + rewrite (Hf r Hr) in Hm. discriminate.
    + rewrite put_node_root_other by assumption. apply Hf. exact Hr.
Qed.

Lemma put_node_resolved : forall st r p c c' t,
  m_roots st r = Some t -> node_at p t = Some c ->
  exists t1, m_roots (put_node st r p c') r = Some t1 /\ node_at p t1 = Some c'.
Proof. intros. eexists. split; [apply put_node_root_same; eassumption | eapply node_at_put; eassumption]. Qed.

Lemma resolves_mono_tab : forall st T r q, resolves st r q -> resolves (set_tab st T) r q.
Proof. intros st T r q H. exact H. Qed.

Lemma inv_with_slot : forall st n sl, inv st -> slot_fine st sl -> inv (with_slot st n sl).
Proof.
  intros st n sl [Hs Hf] Hsl. constructor; [|exact Hf].
  intros m. cbn [with_slot set_tab m_tab]. unfold set_slot. destruct (Nat.eqb m n).
  - destruct Hsl as [H1 H2]. split; [|exact H2]. intros r q Hv Hok. exact (H1 r q Hv Hok).
  - destruct (Hs m) as [H1 H2]. split; [|exact H2]. intros r q Hv Hok. exact (H1 r q Hv Hok).
Qed.

Lemma open_handle_go : forall st n r p c,
  open_handle st n = HGo r p c ->
  exists t, m_roots st r = Some t /\ node_at p t = Some c.
Proof.
  intros st n r p c H. unfold open_handle in H.
  destruct (negb (o_magic (sl_val (m_tab st n)))); [discriminate|].
  destruct (negb (tag_eqb (o_tag (sl_val (m_tab st n))) TJson)); [discriminate|].
  destruct (negb (sl_ok (m_tab st n))); [discriminate|].
  destruct (o_val (sl_val (m_tab st n))); try discriminate.
  destruct (m_roots st root) as [t|] eqn:Em; [|discriminate].
  destruct (node_at p0 t) eqn:En; [|discriminate]. inversion H; subst. eauto.
Qed.

Lemma auto_keep : forall w c rest, alpha c rest <> NAbsent -> alpha (auto_cast w c) rest <> NAbsent.
Proof.
  intros w c rest H. destruct c; cbn [auto_cast]; try exact H.
  destruct rest as [|a rest]; [destruct w; discriminate|].
  exfalso. apply H. unfold alpha. destruct a; reflexivity.
Qed.

Lemma inv_auto : forall st w r p c t,
  inv st -> m_roots st r = Some t -> node_at p t = Some c -> inv (put_node st r p (auto_cast w c)).
Proof. intros. eapply inv_put_keep; eauto. apply auto_keep. Qed.

Lemma handle_fine : forall st r q ch nf,
  resolves st r q -> slot_fine st (mkSlot (handle_to r q ch nf) true).
Proof.
  intros st r q ch nf Hr. destruct ch; cbn [handle_to]; split; cbn [sl_val sl_ok o_val o_tag occaNull];
    intros; try discriminate; try (match goal with H : PRef _ _ = PRef _ _ |- _ => inversion H; subst end; exact Hr);
    eauto.
Qed.

Lemma lit_fine : forall st l, slot_fine st (mkSlot (lit_otype l) true).
Proof.
  intros st l. destruct l; cbn; split; cbn; intros; try discriminate.
  - destruct nonnull; discriminate.
Qed.

(* ---------------------------------------------------------------- each function *)
Ltac open_go H :=
  let t := fresh "t" in let Hm := fresh "Hm" in let Hn := fresh "Hn" in
  destruct (open_handle_go _ _ _ _ _ H) as [t [Hm Hn]].

Lemma inv_create : forall st n, inv st -> inv (fst (occaCreateJson st n)).
Proof.
  intros st n [Hs Hf]. unfold occaCreateJson. cbv zeta. cbn [fst].
  apply inv_with_slot.
  - constructor.
    + intros m. cbn [m_tab]. destruct (Hs m) as [H1 H2]. split; [|exact H2].
      intros r q Hv Hok. destruct (H1 r q Hv Hok) as [t [Ht Ha]]. exists t. cbn [m_roots].
      destruct (Nat.eqb_spec r (m_next st)) as [->|]; [|auto].
      rewrite (Hf (m_next st)) in Ht by lia. discriminate.
    + intros r Hr. cbn [m_roots m_next] in *. destruct (Nat.eqb_spec r (m_next st)); [lia|]. apply Hf. lia.
  - split; cbn; intros.
    + inversion H; subst. eexists. cbn. rewrite Nat.eqb_refl. split; [reflexivity|]. discriminate.
    + eauto.
Qed.

Lemma inv_free : forall st n, inv st -> inv (fst (occaFree st n)).
Proof.
  intros st n Hi. unfold occaFree. cbv zeta.
  destruct (negb (o_magic (sl_val (m_tab st n)))); [exact Hi|].
  assert (Hmark : inv (with_slot st n (mkSlot (mark_undefined (sl_val (m_tab st n))) (sl_ok (m_tab st n))))).
  { apply inv_with_slot; [exact Hi|]. destruct (inv_slots _ Hi n) as [H1 H2]. split; cbn; auto. }
  destruct (o_tag (sl_val (m_tab st n))); try exact Hmark.
  destruct (o_free (sl_val (m_tab st n))); [|exact Hmark].
  destruct (negb (sl_ok (m_tab st n))); [exact Hi|].
  destruct (o_val (sl_val (m_tab st n))) eqn:Ev; try exact Hi.
  cbn [fst]. destruct Hi as [Hs Hf]. constructor.
  - intros m. cbn [with_slot set_tab m_tab set_root]. unfold set_slot. destruct (Nat.eqb m n).
    + split; cbn; intros; [discriminate|]. destruct (Hs n) as [_ H2]. apply H2. exact H.
    + unfold kill_root; cbv zeta.
      destruct (o_val (sl_val (m_tab st m))) eqn:Evm; cbv beta iota; destruct (Hs m) as [H1 H2];
        try (split; [intros r' q Hv; rewrite Evm in Hv; discriminate | exact H2]).
      destruct (Nat.eqb_spec root0 root) as [->|Hne].
      * split; cbn [sl_val sl_ok]; [intros; discriminate | exact H2].
      * split; [|exact H2]. intros r' q Hv Hok. rewrite Evm in Hv. inversion Hv; subst r' q.
        destruct (H1 _ _ Evm Hok) as [t [Ht Ha]]. exists t. cbn [m_roots set_root set_tab with_slot].
        destruct (Nat.eqb_spec root0 root); [contradiction|]. auto.
  - intros r Hr. cbn [with_slot set_tab set_root m_roots m_next] in *.
    destruct (Nat.eqb r root); [reflexivity | apply Hf; exact Hr].
Qed.

Lemma obj_set_keep : forall key jv m rest,
  strictly_below [SK key] rest = false ->
  alpha (JObj m) rest <> NAbsent -> alpha (JObj (assoc_set key jv m)) rest <> NAbsent.
Proof.
  intros key jv m rest Hb H. destruct rest as [|[k2|i2] rest].
  - discriminate.
  - rewrite alpha_obj_key in *. destruct (bytes_eqb k2 key) eqn:E.
    + apply bytes_eqb_eq in E. subst k2. rewrite assoc_get_set_same.
      unfold strictly_below in Hb. cbn in Hb. rewrite bytes_eqb_refl in Hb.
      destruct rest; [|discriminate]. unfold alpha. cbn. apply kind_of_not_absent.
    + rewrite assoc_get_set_other by exact E. exact H.
  - exact H.
Qed.

Lemma strictly_below_app_l : forall p a q rest,
  strip_prefix p q = Some rest -> strictly_below (p ++ a) q = strictly_below a rest.
Proof. intros. unfold strictly_below. rewrite strip_prefix_app, H. reflexivity. Qed.

Lemma strictly_below_app_none : forall p a q,
  strip_prefix p q = None -> strictly_below (p ++ a) q = false.
Proof. intros. unfold strictly_below. rewrite strip_prefix_app, H. reflexivity. Qed.

(* object set: only what is below the assigned key is destroyed *)
Lemma inv_oset_put : forall st r p m key jv t,
  inv st -> m_roots st r = Some t -> node_at p t = Some (JObj m) ->
  inv (kill (put_node st r p (JObj (assoc_set key jv m))) r (p ++ [SK key])).
Proof.
  intros st r p m key jv t [Hs Hf] Hm Hn. constructor.
  - intros n. cbn [kill set_tab m_tab]. rewrite put_node_tab. unfold kill_below; cbv zeta.
    destruct (o_val (sl_val (m_tab st n))) eqn:Ev; cbv beta iota; destruct (Hs n) as [H1 H2];
      try (split; [intros r' q Hv; rewrite Ev in Hv; discriminate | exact H2]).
    destruct (Nat.eqb root r && strictly_below (p ++ [SK key]) p0) eqn:Eb.
    + split; cbn [sl_val sl_ok]; [intros; discriminate | exact H2].
    + split; [|exact H2]. intros r' q Hv Hok. rewrite Ev in Hv. inversion Hv; subst r' q.
      specialize (H1 _ _ Ev Hok). destruct (Nat.eqb_spec root r) as [->|Hne].
      * cbn [andb] in Eb. eapply resolves_put; eauto.
        pose proof (resolves_root_unique _ _ _ _ H1 Hm) as Ha.
        destruct (strip_prefix p p0) as [rest|] eqn:E; [|exact Ha].
        rewrite (strictly_below_app_l _ _ _ _ E) in Eb.
        apply strip_prefix_Some in E. subst p0. rewrite (alpha_app _ _ _ _ Hn) in Ha.
        apply obj_set_keep; assumption.
      * apply resolves_put_other; assumption.
  - intros r' Hr. cbn [kill set_tab m_roots m_next] in *. rewrite put_node_next in Hr.
    destruct (Nat.eq_dec r' r) as [->|Hne].
    + rewrite (Hf r Hr) in Hm. discriminate.
    + rewrite put_node_root_other by assumption. apply Hf. exact Hr.
Qed.

Lemma inv_oset : forall cf st n key v, inv st -> inv (fst (occaJsonObjectSet cf st n key v)).
Proof.
  intros cf st n key v Hi. unfold occaJsonObjectSet.
  destruct (negb (key_ok key)); [exact Hi|].
  destruct (negb (o_magic (sl_val (m_tab st n)))); [exact Hi|].
  destruct (open_value st v) as [vs|]; [|exact Hi].
  destruct (open_handle st n) as [r p c|] eqn:Eh; [|exact Hi]. open_go Eh. cbv zeta.
  pose proof (inv_auto _ true _ _ _ _ Hi Hm Hn) as Hi1.
  destruct (put_node_resolved _ _ _ _ (auto_cast true c) _ Hm Hn) as [t1 [Hm1 Hn1]].
  destruct (auto_cast true c) eqn:Ec; try exact Hi1.
  destruct (inferJson cf (put_node st r p (JObj m)) vs) as [jv|]; [|exact Hi1].
  destruct key as [|b key]; cbn [fst].
  - eapply inv_put_kill; eauto.
  - eapply inv_oset_put; eauto.
Qed.

Lemma resolves_child : forall st r p t c q,
  m_roots st r = Some t -> node_at p t = Some c -> alpha c q <> NAbsent -> resolves st r (p ++ q).
Proof. intros. exists t. split; [assumption|]. rewrite (alpha_app _ _ _ _ H0). assumption. Qed.

Lemma inv_oget : forall st n key mth d, inv st -> inv (fst (occaJsonObjectGet st n key mth d)).
Proof.
  intros st n key mth d Hi. unfold occaJsonObjectGet.
  destruct (negb (key_ok key)); [exact Hi|].
  destruct (open_handle st n) as [r p c|] eqn:Eh; [|exact Hi]. open_go Eh. cbv zeta.
  pose proof (inv_auto _ true _ _ _ _ Hi Hm Hn) as Hi1.
  destruct (put_node_resolved _ _ _ _ (auto_cast true c) _ Hm Hn) as [t1 [Hm1 Hn1]].
  destruct (auto_cast true c) eqn:Ec; try exact Hi1. cbn [fst].
  apply inv_with_slot; [exact Hi1|].
  destruct key as [|b key].
  - apply handle_fine. exists t1. split; [exact Hm1|]. unfold alpha. rewrite Hn1. discriminate.
  - destruct (assoc_get (b :: key) m) as [ch|] eqn:Eg; [|apply lit_fine].
    apply handle_fine. eapply resolves_child; eauto.
    rewrite alpha_obj_key, Eg. unfold alpha. cbn. apply kind_of_not_absent.
Qed.

Lemma inv_ohas : forall st n key, inv st -> inv (fst (occaJsonObjectHas st n key)).
Proof.
  intros st n key Hi. unfold occaJsonObjectHas.
  destruct (negb (key_ok key)); [exact Hi|].
  destruct (open_handle st n) as [r p c|] eqn:Eh; [|exact Hi]. open_go Eh. cbv zeta.
  pose proof (inv_auto _ true _ _ _ _ Hi Hm Hn) as Hi1.
  destruct (auto_cast true c); exact Hi1.
Qed.

Lemma inv_asize : forall st n, inv st -> inv (fst (occaJsonArraySize st n)).
Proof.
  intros st n Hi. unfold occaJsonArraySize.
  destruct (open_handle st n) as [r p c|] eqn:Eh; [|exact Hi]. open_go Eh. cbv zeta.
  pose proof (inv_auto _ false _ _ _ _ Hi Hm Hn) as Hi1.
  destruct (auto_cast false c); exact Hi1.
Qed.

Lemma nth_error_grow : forall (l : list json) k,
  (length l <= k)%nat -> nth_error (l ++ repeat JNull (k - length l) ++ [JNone]) k = Some JNone.
Proof.
  intros l k H. rewrite nth_error_app2 by lia. rewrite nth_error_app2 by (rewrite repeat_length; lia).
  rewrite repeat_length. replace (k - length l - (k - length l))%nat with 0%nat by lia. reflexivity.
Qed.

Lemma inv_aget : forall st n i mth, inv st -> inv (fst (occaJsonArrayGet st n i mth)).
Proof.
  intros st n i mth Hi. unfold occaJsonArrayGet.
  destruct (open_handle st n) as [r p c|] eqn:Eh; [|exact Hi]. open_go Eh. cbv zeta.
  pose proof (inv_auto _ false _ _ _ _ Hi Hm Hn) as Hi1.
  destruct (put_node_resolved _ _ _ _ (auto_cast false c) _ Hm Hn) as [t1 [Hm1 Hn1]].
  destruct (auto_cast false c) eqn:Ec; try exact Hi1.
  destruct (i <? 0); [exact Hi1|].
  destruct (nth_error l (Z.to_nat i)) as [ch|] eqn:En; cbn [fst].
  - apply inv_with_slot; [exact Hi1|]. apply handle_fine. eapply resolves_child; eauto.
    rewrite alpha_arr_idx, En. unfold alpha. cbn. apply kind_of_not_absent.
  - apply nth_error_None in En.
    set (l' := l ++ repeat JNull (Z.to_nat i - length l) ++ [JNone]).
    pose proof (inv_put_kill _ _ _ _ (JArr l') _ Hi1 Hm1 Hn1) as Hi2.
    apply inv_with_slot; [exact Hi2|]. apply handle_fine.
    destruct (put_node_resolved _ _ _ _ (JArr l') _ Hm1 Hn1) as [t2 [Hm2 Hn2]].
    exists t2. split; [exact Hm2|]. rewrite (alpha_app _ _ _ _ Hn2).
    rewrite alpha_arr_idx. subst l'. rewrite nth_error_grow by exact En. discriminate.
Qed.

Lemma inv_apush : forall cf st n v, inv st -> inv (fst (occaJsonArrayPush cf st n v)).
Proof.
  intros cf st n v Hi. unfold occaJsonArrayPush.
  destruct (negb (o_magic (sl_val (m_tab st n)))); [exact Hi|].
  destruct (open_value st v) as [vs|]; [|exact Hi].
  destruct (open_handle st n) as [r p c|] eqn:Eh; [|exact Hi]. open_go Eh. cbv zeta.
  pose proof (inv_auto _ false _ _ _ _ Hi Hm Hn) as Hi1.
  destruct (put_node_resolved _ _ _ _ (auto_cast false c) _ Hm Hn) as [t1 [Hm1 Hn1]].
  destruct (auto_cast false c) eqn:Ec; try exact Hi1.
  destruct (inferJson cf (put_node st r p (JArr l)) vs) as [jv|]; [|exact Hi1].
  destruct jv; cbn [fst]; try exact Hi1; eapply inv_put_kill; eauto.
Qed.

Lemma inv_apop : forall st n, inv st -> inv (fst (occaJsonArrayPop st n)).
Proof.
  intros st n Hi. unfold occaJsonArrayPop.
  destruct (open_handle st n) as [r p c|] eqn:Eh; [|exact Hi]. open_go Eh. cbv zeta.
  pose proof (inv_auto _ false _ _ _ _ Hi Hm Hn) as Hi1.
  destruct (put_node_resolved _ _ _ _ (auto_cast false c) _ Hm Hn) as [t1 [Hm1 Hn1]].
  destruct (auto_cast false c) eqn:Ec; try exact Hi1.
  destruct l; cbn [fst]; [exact Hi1|]. eapply inv_put_kill; eauto.
Qed.

Lemma inv_ains : forall cf st n i v, inv st -> inv (fst (occaJsonArrayInsert cf st n i v)).
Proof.
  intros cf st n i v Hi. unfold occaJsonArrayInsert.
  destruct (negb (o_magic (sl_val (m_tab st n)))); [exact Hi|].
  destruct (open_value st v) as [vs|]; [|exact Hi].
  destruct (open_handle st n) as [r p c|] eqn:Eh; [|exact Hi]. open_go Eh. cbv zeta.
  pose proof (inv_auto _ false _ _ _ _ Hi Hm Hn) as Hi1.
  destruct (put_node_resolved _ _ _ _ (auto_cast false c) _ Hm Hn) as [t1 [Hm1 Hn1]].
  destruct (auto_cast false c) eqn:Ec; try exact Hi1.
  destruct ((0 <=? i) && (i <? Z.of_nat (length l))); [|exact Hi1].
  destruct (inferJson cf (put_node st r p (JArr l)) vs) as [jv|]; [|exact Hi1].
  cbn [fst]. eapply inv_put_kill; eauto.
Qed.

Lemma inv_aclear : forall st n, inv st -> inv (fst (occaJsonArrayClear st n)).
Proof.
  intros st n Hi. unfold occaJsonArrayClear.
  destruct (open_handle st n) as [r p c|] eqn:Eh; [|exact Hi]. open_go Eh. cbv zeta.
  pose proof (inv_auto _ false _ _ _ _ Hi Hm Hn) as Hi1.
  destruct (put_node_resolved _ _ _ _ (auto_cast false c) _ Hm Hn) as [t1 [Hm1 Hn1]].
  destruct (auto_cast false c) eqn:Ec; try exact Hi1.
  cbn [fst]. eapply inv_put_kill; eauto.
Qed.

Lemma cast_keeps_same : forall cj c, cast_keeps cj c = true -> cast_json cj c = c.
Proof. destruct cj, c; cbn; intros; try discriminate; reflexivity. Qed.

Lemma inv_cast : forall st n cj, inv st -> inv (fst (occaJsonCastTo st n cj)).
Proof.
  intros st n cj Hi. unfold occaJsonCastTo.
  destruct (open_handle st n) as [r p c|] eqn:Eh; [|exact Hi]. open_go Eh. cbv zeta. cbn [fst].
  destruct (cast_keeps cj c) eqn:Ek.
  - rewrite (cast_keeps_same _ _ Ek). eapply inv_put_keep; eauto.
  - eapply inv_put_kill; eauto.
Qed.

Lemma inv_readonly : forall st n (f : nat -> path -> json -> mstate * obs),
  (forall r p c, fst (f r p c) = st) ->
  inv st -> inv (fst (match open_handle st n with HStop ob => (st, ob) | HGo r p c => f r p c end)).
Proof. intros st n f Hf Hi. destruct (open_handle st n); [rewrite Hf|]; exact Hi. Qed.

Theorem step_inv : forall F cf st o, inv st -> inv (fst (step F cf st o)).
Proof.
  intros F cf st o Hi. destruct o; cbn [step fst]; try exact Hi.
  - apply inv_create; exact Hi.
  - apply inv_free; exact Hi.
  - apply inv_oset; exact Hi.
  - apply inv_oget; exact Hi.
  - apply inv_ohas; exact Hi.
  - apply inv_apush; exact Hi.
  - apply inv_ains; exact Hi.
  - apply inv_aget; exact Hi.
  - apply inv_apop; exact Hi.
  - apply inv_aclear; exact Hi.
  - apply inv_asize; exact Hi.
  - apply inv_cast; exact Hi.
  - unfold occaJsonGetBoolean. destruct (open_handle st n); [|exact Hi]. destruct c; try exact Hi. destruct k; exact Hi.
  - unfold occaJsonGetNumber. destruct (open_handle st n); [|exact Hi]. destruct c; try exact Hi.
    destruct (newOccaType_prim_typed F cf (mkP (PTK k0) v) (TK k)); exact Hi.
  - unfold occaJsonGetString. destruct (open_handle st n); [|exact Hi]. destruct c; exact Hi.
  - unfold occaJsonIs. destruct (open_handle st n); exact Hi.
Qed.

Theorem run_inv : forall F cf ops st, inv st -> inv (fst (run_from F cf st ops)).
Proof.
  induction ops as [|o ops IH]; intros st Hi; cbn [run_from]; [exact Hi|].
  pose proof (step_inv F cf st o Hi) as H1.
  destruct (step F cf st o) as [st1 ob]. cbn [fst] in H1. specialize (IH st1 H1).
  destruct (run_from F cf st1 ops) as [st2 obs']. exact IH.
Qed.

(* a usable variable can be opened *)
Lemma usable_opens : forall st n,
  inv st ->
  o_magic (sl_val (m_tab st n)) = true -> o_tag (sl_val (m_tab st n)) = TJson -> sl_ok (m_tab st n) = true ->
  exists r p c, open_handle st n = HGo r p c.
Proof.
  intros st n Hi Hmag Htag Hok. destruct (inv_slots _ Hi n) as [H1 H2].
  destruct (H2 Htag) as [r [q Hv]]. destruct (H1 r q Hv Hok) as [t [Ht Ha]].
  destruct (alpha_present _ _ Ha) as [c [Hc _]].
  exists r, q, c. unfold open_handle. rewrite Hmag, Htag, Hok, Hv, Ht, Hc. reflexivity.
Qed.
