(* C29 — proofs, part F: the handle returned by occaCreateJson stays exactly as it is, and its
   heap object stays alive, across every operation other than an occaFree of that object or
   an assignment to the C variable that holds it. *)
From Coq Require Import List ZArith Bool Lia Arith.
From OV.C29 Require Import Types Model Spec Proofs ProofsTree ProofsRefine ProofsOps ProofsRound.
Import ListNotations.
Local Open Scope Z_scope.

Definition writes_slot (o : op) (n : nat) : bool :=
  match o with
  | OpNew m | OpFree m => Nat.eqb m n
  | OpOGet _ _ m _ | OpAGet _ _ m => Nat.eqb m n
  | _ => false
  end.

Definition frees_root (st : mstate) (o : op) (r : nat) : bool :=
  match o with
  | OpFree m => match o_val (sl_val (m_tab st m)) with PRef r' _ => Nat.eqb r' r | _ => false end
  | _ => false
  end.

(* "st' keeps variable n and heap object r" *)
Definition keeps (n r : nat) (st st' : mstate) : Prop :=
  (m_tab st n = mkSlot (root_handle r) true -> m_tab st' n = mkSlot (root_handle r) true) /\
  ((exists t, m_roots st r = Some t) -> exists t, m_roots st' r = Some t).

Lemma keeps_refl : forall n r st, keeps n r st st.
Proof. intros. split; auto. Qed.

Lemma keeps_trans : forall n r a b c, keeps n r a b -> keeps n r b c -> keeps n r a c.
Proof. intros n r a b c [H1 H2] [H3 H4]. split; auto. Qed.

Lemma keeps_put : forall n r st r' p c, keeps n r st (put_node st r' p c).
Proof.
  intros. split.
  - rewrite put_node_tab. auto.
  - intros [t Ht]. unfold put_node. destruct (m_roots st r') eqn:E; [|eauto]. cbn.
    destruct (Nat.eqb r r'); eauto.
Qed.

Lemma keeps_kill : forall n r st r' p, keeps n r st (kill st r' p).
Proof.
  intros. split; [|auto]. intros H. cbn [kill set_tab m_tab].
  rewrite (kill_below_root_handle _ _ _ _ r H). exact H.
Qed.

Lemma keeps_with_slot : forall n r st m sl, Nat.eqb m n = false -> keeps n r st (with_slot st m sl).
Proof.
  intros n r st m sl H. split; [|auto]. intros Ht. cbn [with_slot set_tab m_tab]. unfold set_slot.
  rewrite Nat.eqb_sym, H. exact Ht.
Qed.

Ltac keeps_chain :=
  repeat match goal with
         | |- keeps _ _ ?a ?a => apply keeps_refl
         | |- keeps _ _ _ (kill _ _ _) => eapply keeps_trans; [|apply keeps_kill]
         | |- keeps _ _ _ (with_slot _ _ _) => eapply keeps_trans; [|apply keeps_with_slot; assumption]
         | |- keeps _ _ _ (put_node _ _ _ _) => eapply keeps_trans; [|apply keeps_put]
         end.

Ltac break_goal :=
  repeat match goal with
         | |- context [match ?x with _ => _ end] => destruct x
         end.

Lemma keeps_oset : forall cf st n0 key v n r, keeps n r st (fst (occaJsonObjectSet cf st n0 key v)).
Proof. intros. unfold occaJsonObjectSet. cbv zeta. break_goal; cbn [fst]; keeps_chain. Qed.

Lemma keeps_oget : forall st n0 key m d n r, Nat.eqb m n = false -> keeps n r st (fst (occaJsonObjectGet st n0 key m d)).
Proof. intros. unfold occaJsonObjectGet. cbv zeta. break_goal; cbn [fst]; keeps_chain. Qed.

Lemma keeps_ohas : forall st n0 key n r, keeps n r st (fst (occaJsonObjectHas st n0 key)).
Proof. intros. unfold occaJsonObjectHas. cbv zeta. break_goal; cbn [fst]; keeps_chain. Qed.

Lemma keeps_apush : forall cf st n0 v n r, keeps n r st (fst (occaJsonArrayPush cf st n0 v)).
Proof. intros. unfold occaJsonArrayPush. cbv zeta. break_goal; cbn [fst]; keeps_chain. Qed.

Lemma keeps_ains : forall cf st n0 i v n r, keeps n r st (fst (occaJsonArrayInsert cf st n0 i v)).
Proof. intros. unfold occaJsonArrayInsert. cbv zeta. break_goal; cbn [fst]; keeps_chain. Qed.

Lemma keeps_aget : forall st n0 i m n r, Nat.eqb m n = false -> keeps n r st (fst (occaJsonArrayGet st n0 i m)).
Proof. intros. unfold occaJsonArrayGet. cbv zeta. break_goal; cbn [fst]; keeps_chain. Qed.

Lemma keeps_apop : forall st n0 n r, keeps n r st (fst (occaJsonArrayPop st n0)).
Proof. intros. unfold occaJsonArrayPop. cbv zeta. break_goal; cbn [fst]; keeps_chain. Qed.

Lemma keeps_aclear : forall st n0 n r, keeps n r st (fst (occaJsonArrayClear st n0)).
Proof. intros. unfold occaJsonArrayClear. cbv zeta. break_goal; cbn [fst]; keeps_chain. Qed.

Lemma keeps_asize : forall st n0 n r, keeps n r st (fst (occaJsonArraySize st n0)).
Proof. intros. unfold occaJsonArraySize. cbv zeta. break_goal; cbn [fst]; keeps_chain. Qed.

Lemma keeps_cast : forall st n0 cj n r, keeps n r st (fst (occaJsonCastTo st n0 cj)).
Proof. intros. unfold occaJsonCastTo. cbv zeta. break_goal; cbn [fst]; keeps_chain. Qed.

Lemma keeps_getb : forall st n0 n r, keeps n r st (fst (occaJsonGetBoolean st n0)).
Proof. intros. unfold occaJsonGetBoolean. break_goal; cbn [fst]; keeps_chain. Qed.
Lemma keeps_getn : forall F cf st n0 k n r, keeps n r st (fst (occaJsonGetNumber F cf st n0 k)).
Proof. intros. unfold occaJsonGetNumber. break_goal; cbn [fst]; keeps_chain. Qed.
Lemma keeps_gets : forall st n0 n r, keeps n r st (fst (occaJsonGetString st n0)).
Proof. intros. unfold occaJsonGetString. break_goal; cbn [fst]; keeps_chain. Qed.
Lemma keeps_ty : forall st n0 n r, keeps n r st (fst (occaJsonIs st n0)).
Proof. intros. unfold occaJsonIs. break_goal; cbn [fst]; keeps_chain. Qed.

Lemma keeps_new : forall st m n r, Nat.eqb m n = false -> (exists t, m_roots st r = Some t) ->
  (forall r', (m_next st <= r')%nat -> m_roots st r' = None) ->
  keeps n r st (fst (occaCreateJson st m)).
Proof.
  intros st m n r Hm [t Ht] Hfresh. unfold occaCreateJson. cbv zeta. cbn [fst]. split.
  - intros H. cbn [with_slot set_tab m_tab]. unfold set_slot. rewrite Nat.eqb_sym, Hm. exact H.
  - intros _. cbn [with_slot set_tab m_roots]. destruct (Nat.eqb_spec r (m_next st)) as [->|]; [|eauto].
    rewrite Hfresh in Ht by lia. discriminate.
Qed.

Lemma keeps_free : forall st m n r, Nat.eqb m n = false -> frees_root st (OpFree m) r = false ->
  keeps n r st (fst (occaFree st m)).
Proof.
  intros st m n r Hm Hfr. cbn [frees_root] in Hfr. unfold occaFree. cbv zeta.
  destruct (negb (o_magic (sl_val (m_tab st m)))); [apply keeps_refl|].
  destruct (o_tag (sl_val (m_tab st m))); try (cbn [fst]; apply keeps_with_slot; exact Hm).
  destruct (o_free (sl_val (m_tab st m))); [|cbn [fst]; apply keeps_with_slot; exact Hm].
  destruct (negb (sl_ok (m_tab st m))); [apply keeps_refl|].
  destruct (o_val (sl_val (m_tab st m))) eqn:Ev; try apply keeps_refl.
  cbn [fst]. split.
  - intros H. cbn [with_slot set_tab m_tab]. unfold set_slot. rewrite Nat.eqb_sym, Hm.
    unfold kill_root. cbv zeta. rewrite H. cbn [sl_val o_val root_handle].
    rewrite Nat.eqb_sym, Hfr. reflexivity.
  - intros [t Ht]. cbn [with_slot set_tab set_root m_roots]. rewrite Nat.eqb_sym, Hfr. eauto.
Qed.
