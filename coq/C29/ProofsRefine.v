(* C29 — proofs, part C: over every history the model's JSON store (trees of std::map /
   std::vector nodes reached through pointers) answers exactly as the specification's
   path-indexed store requires, as long as the history stays inside the specification's
   preconditions. *)
From Coq Require Import List ZArith Bool Lia Arith.
From OV.C29 Require Import Types Model Spec Proofs ProofsTree.
Import ListNotations.
Local Open Scope Z_scope.

Definition rel_doc (t : json) (d : doc) : Prop := forall q, alpha t q = d q.

Definition rel_root (a : option json) (b : option doc) : Prop :=
  match a, b with
  | Some t, Some d => rel_doc t d
  | None, None => True
  | _, _ => False
  end.

Record R (st : mstate) (s : sstate) : Prop := mkR {
  R_next : m_next st = s_next s;
  R_tab : forall n, m_tab st n = s_tab s n;
  R_roots : forall r, rel_root (m_roots st r) (s_roots s r) }.

Lemma R_init : R m_init s_init.
Proof. constructor; cbn; auto. Qed.

(* ---------------------------------------------------------------- state plumbing *)
Lemma put_node_tab : forall st r p c, m_tab (put_node st r p c) = m_tab st.
Proof. intros. unfold put_node. destruct (m_roots st r); reflexivity. Qed.

Lemma put_node_next : forall st r p c, m_next (put_node st r p c) = m_next st.
Proof. intros. unfold put_node. destruct (m_roots st r); reflexivity. Qed.

Lemma put_node_root_same : forall st r p c t,
  m_roots st r = Some t -> m_roots (put_node st r p c) r = Some (modify_at p (fun _ => c) t).
Proof. intros. unfold put_node. rewrite H. cbn. rewrite Nat.eqb_refl. reflexivity. Qed.

Lemma put_node_root_other : forall st r p c r', r' <> r -> m_roots (put_node st r p c) r' = m_roots st r'.
Proof.
  intros. unfold put_node. destruct (m_roots st r); [|reflexivity]. cbn.
  destruct (Nat.eqb_spec r' r); [contradiction | reflexivity].
Qed.

Lemma kill_below_ext : forall r p T T' n, T n = T' n -> kill_below r p T n = kill_below r p T' n.
Proof. intros. unfold kill_below. rewrite H. reflexivity. Qed.

Lemma kill_root_ext : forall r T T' n, T n = T' n -> kill_root r T n = kill_root r T' n.
Proof. intros. unfold kill_root. rewrite H. reflexivity. Qed.

Lemma set_slot_ext : forall T T' n sl m, T m = T' m -> set_slot T n sl m = set_slot T' n sl m.
Proof. intros. unfold set_slot. destruct (Nat.eqb m n); auto. Qed.

Lemma R_kill : forall st s r p, R st s -> R (kill st r p) (s_kill s r p).
Proof.
  intros st s r p [Hn Ht Hr]. constructor; cbn; auto.
  intros n. apply kill_below_ext. apply Ht.
Qed.

Lemma R_with_slot : forall st s n sl, R st s -> R (with_slot st n sl) (s_with_slot s n sl).
Proof.
  intros st s n sl [Hn Ht Hr]. constructor; cbn; auto.
  intros m. apply set_slot_ext. apply Ht.
Qed.

(* the tree written through (r, p) against the grafted document *)
Lemma R_put : forall st s r p c c' t d g,
  R st s -> m_roots st r = Some t -> s_roots s r = Some d -> node_at p t = Some c ->
  (forall q, alpha c' q = g q) ->
  R (put_node st r p c') (s_set_root s r (Some (graft d p g))).
Proof.
  intros st s r p c c' t d g [Hn Ht Hr] Hmt Hsd Hc Hg.
  constructor.
  - rewrite put_node_next. exact Hn.
  - intros n. rewrite put_node_tab. apply Ht.
  - intros r'. cbn [s_set_root s_roots]. destruct (Nat.eqb_spec r' r).
    + subst r'. rewrite (put_node_root_same _ _ _ _ _ Hmt). cbn. intros q.
      rewrite (alpha_modify _ _ _ _ _ Hc). unfold graft.
      destruct (strip_prefix p q); [apply Hg|].
      specialize (Hr r). rewrite Hmt, Hsd in Hr. apply Hr.
    + rewrite put_node_root_other by assumption. apply Hr.
Qed.

(* writing back the node that is already there changes nothing the accessors can see *)
Lemma R_put_same : forall st s r p c t,
  R st s -> m_roots st r = Some t -> node_at p t = Some c -> R (put_node st r p c) s.
Proof.
  intros st s r p c t [Hn Ht Hr] Hmt Hc.
  constructor.
  - rewrite put_node_next. exact Hn.
  - intros n. rewrite put_node_tab. apply Ht.
  - intros r'. destruct (Nat.eq_dec r' r).
    + subst r'. rewrite (put_node_root_same _ _ _ _ _ Hmt).
      specialize (Hr r). rewrite Hmt in Hr. destruct (s_roots s r) as [d|]; [|contradiction].
      cbn in *. intros q. rewrite (alpha_modify _ _ _ _ _ Hc).
      destruct (strip_prefix p q) eqn:E; [|apply Hr].
      apply strip_prefix_Some in E. subst q. rewrite <- Hr. symmetry. apply alpha_app. exact Hc.
    + rewrite put_node_root_other by assumption. apply Hr.
Qed.

(* what open_handle / s_open agree on *)
Record opened (st : mstate) (s : sstate) (r : nat) (p : path) (t : json) (c : json) (d : doc) : Prop := mkOpened {
  op_mroot : m_roots st r = Some t;
  op_sroot : s_roots s r = Some d;
  op_node : node_at p t = Some c;
  op_rel : rel_doc t d }.

Lemma opened_kind : forall st s r p t c d, opened st s r p t c d -> kind_of c = d p.
Proof. intros st s r p t c d [H1 H2 H3 H4]. rewrite <- H4. unfold alpha. rewrite H3. reflexivity. Qed.

Lemma opened_sub : forall st s r p t c d, opened st s r p t c d -> forall q, alpha c q = sub d p q.
Proof. intros st s r p t c d [H1 H2 H3 H4] q. unfold sub. rewrite <- H4. symmetry. apply alpha_app. exact H3. Qed.

Lemma open_rel : forall st s n r p d,
  R st s -> s_open s n = Some (r, p, d) ->
  exists t c, open_handle st n = HGo r p c /\ opened st s r p t c d /\
              o_magic (sl_val (m_tab st n)) = true.
Proof.
  intros st s n r p d HR H. unfold s_open in H. rewrite <- (R_tab _ _ HR n) in H.
  destruct (o_magic (sl_val (m_tab st n))) eqn:Em; [|discriminate].
  destruct (tag_eqb (o_tag (sl_val (m_tab st n))) TJson) eqn:Et; [|discriminate].
  destruct (sl_ok (m_tab st n)) eqn:Eo; [|discriminate]. cbn [andb] in H.
  destruct (o_val (sl_val (m_tab st n))) eqn:Ev; try discriminate.
  destruct (s_roots s root) as [d0|] eqn:Es; [|discriminate].
  destruct (d0 p0) eqn:Ed; try discriminate; inversion H; subst r p0 d0;
    (pose proof (R_roots _ _ HR root) as Hr; rewrite Es in Hr;
     destruct (m_roots st root) as [t|] eqn:Emr; [|contradiction]; cbn in Hr;
     assert (Hp : alpha t p <> NAbsent) by (rewrite Hr, Ed; discriminate);
     apply alpha_present in Hp; destruct Hp as [c [Hc _]];
     exists t, c; split; [|split; [constructor; auto|reflexivity]];
     unfold open_handle; rewrite Em, Et, Eo, Ev, Emr, Hc; reflexivity).
Qed.

Lemma node_at_put : forall p t c c', node_at p t = Some c -> node_at p (modify_at p (fun _ => c') t) = Some c'.
Proof. intros. apply (node_at_modify_self p (fun _ => c') t c H). Qed.

(* if (!j_.isInitialized()) j_.asObject()/asArray()  against  s_auto *)
Lemma auto_rel : forall want st s r p t c d,
  R st s -> opened st s r p t c d ->
  let c1 := auto_cast want c in
  let st1 := put_node st r p c1 in
  let s1 := fst (s_auto want s r p d) in
  let d1 := snd (s_auto want s r p d) in
  R st1 s1 /\ (exists t1, opened st1 s1 r p t1 c1 d1) /\
  m_tab st1 = m_tab st /\ s_tab s1 = s_tab s /\
  (d p = NNone -> d1 p = if want then NObj else NArr 0) /\ (d p <> NNone -> d1 p = d p).
Proof.
  intros want st s r p t c d HR Ho c1 st1 s1 d1.
  pose proof (opened_kind _ _ _ _ _ _ _ Ho) as Hk.
  destruct Ho as [Hmt Hsd Hc Hrel].
  destruct c; cbn [auto_cast] in c1; subst c1;
    try (assert (Hne : d p <> NNone) by (rewrite <- Hk; discriminate);
         subst s1 d1; unfold s_auto; destruct (d p) eqn:Edp; try congruence;
         cbn [fst snd];
         (split; [eapply R_put_same; eauto|]);
         (split; [eexists; constructor;
                  [apply put_node_root_same; exact Hmt | exact Hsd
                  | eapply node_at_put; exact Hc | ];
                  intros q; rewrite (alpha_modify _ _ _ _ _ Hc);
                  destruct (strip_prefix p q) eqn:E; [|apply Hrel];
                  apply strip_prefix_Some in E; subst q; rewrite <- Hrel; symmetry; apply alpha_app; exact Hc|]);
         (split; [apply put_node_tab|]); (split; [reflexivity|]); split; intros; congruence).
  (* c = JNone *)
  cbn in Hk. subst s1 d1. unfold s_auto. rewrite <- Hk. cbn [fst snd].
  set (lf := leaf (if want then NObj else NArr 0)).
  assert (Hg : forall q, alpha (if want then JObj [] else JArr []) q = lf q).
  { intros q. subst lf. destruct want; destruct q as [|[k|i] q]; try reflexivity.
    unfold alpha. cbn. destruct i; reflexivity. }
  split; [eapply R_put; eauto; constructor; auto|].
  split.
  - eexists. constructor.
    + apply put_node_root_same. exact Hmt.
    + cbn. rewrite Nat.eqb_refl. reflexivity.
    + eapply node_at_put. exact Hc.
    + intros q. rewrite (alpha_modify _ _ _ _ _ Hc). unfold graft.
      destruct (strip_prefix p q); [apply Hg | apply Hrel].
  - split; [apply put_node_tab|]. split; [reflexivity|]. split.
    + intros _. unfold graft. rewrite strip_prefix_refl. subst lf. reflexivity.
    + intros H. congruence.
Qed.
