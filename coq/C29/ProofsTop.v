(* C29 — the lemmas that Properties_C29.v states as theorems, assembled from the other proof
   files. *)
From Coq Require Import List ZArith Bool.
From OV.C29 Require Import Types Model Spec Proofs ProofsTree ProofsRefine ProofsOps ProofsOps2 ProofsOps3
  ProofsHandles ProofsRound ProofsSurvive ProofsSurvive2.
Import ListNotations.
Local Open Scope Z_scope.

Lemma scalar_roundtrip_l : forall (F : fops) (k : kind) (v : Z),
  in_range k v = true ->
  let x := lit_otype (LScalar k v) in
  x = mkO true (TK k) (size_of k) false (PInt v) /\
  match prim_of cfg_fixed x with Ok p => newOccaType_prim F cfg_fixed p | Stop o => Stop o end = Ok x /\
  match prim_of cfg_fixed x with Ok p => newOccaType_prim_typed F cfg_fixed p (TK k) | Stop o => Stop o end = Ok x /\
  match prim_of_typed F cfg_fixed x (TK k) with Ok p => newOccaType_prim F cfg_fixed p | Stop o => Stop o end = Ok x /\
  (exists a, kernelArg cfg_fixed x = Ok a /\ ka_pt a = PTK k /\ ka_val a = PInt v /\
             ka_size a = size_of k /\ ka_isPointer a = false) /\
  kernel_reads cfg_fixed (LScalar k v) = OType x.
Proof.
  intros F k v H x. subst x. cbn [lit_otype].
  assert (Hc : s_conv k k v = Some v) by (unfold s_conv; rewrite kind_eqb_refl; reflexivity).
  split; [reflexivity|].
  split; [rewrite (prim_of_scalar _ _ H); apply newOccaType_prim_same; exact H|].
  split; [rewrite (prim_of_scalar _ _ H); apply (newOccaType_prim_typed_conv F _ _ _ _ H Hc)|].
  split; [rewrite (prim_of_typed_conv F _ _ _ _ H Hc); apply newOccaType_prim_same; exact H|].
  split.
  - exists (mkKA (PTK k) (PInt v) 0). split; [apply kernelArg_scalar; exact H|].
    repeat split; reflexivity.
  - destruct (echo_reads (LScalar k v) (OType (s_scalar k v))) as [H1 _]; [cbn; rewrite H; reflexivity|].
    exact H1.
Qed.

Lemma integer_cross_kind_l : forall (F : fops) (k0 k : kind) (v : Z),
  is_float k0 = false -> is_float k = false -> in_range k0 v = true -> in_range k v = true ->
  newOccaType_prim_typed F cfg_fixed (mkP (PTK k0) v) (TK k) = Ok (mkO true (TK k) (size_of k) false (PInt v)).
Proof.
  intros F k0 k v H0 H1 Hr0 Hr. apply (newOccaType_prim_typed_conv F k0 k v v Hr0).
  unfold s_conv. destruct (kind_eqb k0 k); [reflexivity|]. rewrite H0, H1, Hr. reflexivity.
Qed.

Lemma float_via_double_l : forall (F : fops) (v : Z),
  f32_of_f64 F (f64_of_f32 F v) = v ->
  match newOccaType_prim_typed F cfg_fixed (mkP (PTK KF32) v) (TK KF64) with
  | Ok d => newOccaType_prim_typed F cfg_fixed (mkP (PTK KF64) (pint d)) (TK KF32)
  | Stop o => Stop o
  end = Ok (mkO true (TK KF32) 4 false (PInt v)).
Proof. intros F v H. cbn. rewrite H. reflexivity. Qed.

Lemma scalar_roundtrip_object_l : forall (F : fops) (st : mstate) (n m : nat) (b : Z) (key' : bytes) (k : kind) (v : Z),
  key_ok (b :: key') = true -> in_range k v = true ->
  let st1 := fst (occaCreateJson st n) in
  let set := occaJsonObjectSet cfg_fixed st1 n (b :: key') (VLit (LScalar k v)) in
  let get := occaJsonObjectGet (fst set) n (b :: key') m LUndef in
  snd set = OUnit /\
  snd get = OType (mkO true TJson 8 false (PRef (m_next st) [SK (b :: key')])) /\
  snd (occaJsonGetNumber F cfg_fixed (fst get) m k) = OType (lit_otype (LScalar k v)).
Proof. intros. apply object_roundtrip_number_l; assumption. Qed.

Lemma bool_roundtrip_object_l : forall (st : mstate) (n m : nat) (b : Z) (key' : bytes) (v : Z),
  key_ok (b :: key') = true -> in_range KBool v = true ->
  let st1 := fst (occaCreateJson st n) in
  let set := occaJsonObjectSet cfg_fixed st1 n (b :: key') (VLit (LScalar KBool v)) in
  let get := occaJsonObjectGet (fst set) n (b :: key') m LUndef in
  snd (occaJsonGetBoolean (fst get) m) = OBool (v =? 1) /\
  snd (occaJsonIs (fst get) m) = OFlags true true false false false.
Proof. intros. apply (object_roundtrip_bool_l st n m b key' KBool v); auto. Qed.

Lemma scalar_roundtrip_array_l : forall (F : fops) (st : mstate) (n m : nat) (k : kind) (v : Z),
  in_range k v = true ->
  let st1 := fst (occaCreateJson st n) in
  let push := occaJsonArrayPush cfg_fixed st1 n (VLit (LScalar k v)) in
  let get := occaJsonArrayGet (fst push) n 0 m in
  snd push = OUnit /\
  snd (occaJsonGetNumber F cfg_fixed (fst get) m k) = OType (lit_otype (LScalar k v)).
Proof. intros. apply array_roundtrip_number_l; assumption. Qed.

Lemma json_roundtrip_l : forall (F : fops) (ops : list op),
  forallb op_guard ops = true ->
  Forall2 agrees (run F cfg_fixed ops) (s_run ops).
Proof. intros. apply run_refines_from; [assumption | apply R_init]. Qed.

Lemma scope_roundtrip_l : forall (isConst : bool) (k : kind) (v : Z),
  in_range k v = true -> is_unsigned k = false ->
  scope_decl cfg_fixed isConst (LScalar k v) = ODecl isConst (s_cname k) false /\
  scope_reads cfg_fixed (LScalar k v) = OType (lit_otype (LScalar k v)).
Proof. intros. split; [apply scope_decl_signed | apply scope_reads_signed]; assumption. Qed.

Lemma scope_unsigned_refuted_l :
  exists k v, in_range k v = true /\
    scope_decl cfg_fixed true (LScalar k v) <> ODecl true (s_cname k) false /\
    scope_reads cfg_fixed (LScalar k v) <> OType (lit_otype (LScalar k v)).
Proof. exists KU8, 200. split; [reflexivity|]. split; vm_compute; discriminate. Qed.

Lemma spec_store_read_back_l : forall (d : doc) (p q : path) (g : doc), graft d p g (p ++ q) = g q.
Proof. intros. unfold graft. rewrite strip_prefix_self. reflexivity. Qed.
Lemma spec_store_frame_l : forall (d : doc) (p q : path) (g : doc),
  strip_prefix p q = None -> graft d p g q = d q.
Proof. intros. unfold graft. rewrite H. reflexivity. Qed.
Lemma spec_object_set_read_back_l : forall (old vd : doc) (key : bytes) (q : path),
  g_oset old key vd (SK key :: q) = vd q.
Proof. intros. unfold g_oset. rewrite bytes_eqb_refl. reflexivity. Qed.
Lemma spec_object_set_frame_l : forall (old vd : doc) (key k2 : bytes) (q : path),
  bytes_eqb k2 key = false -> g_oset old key vd (SK k2 :: q) = old (SK k2 :: q).
Proof. intros. unfold g_oset. rewrite H. reflexivity. Qed.
Lemma spec_array_insert_shift_l : forall (old vd : doc) (len i j : nat) (q : path),
  g_ains old len i vd (SI j :: q) =
    if Nat.ltb j i then old (SI j :: q) else if Nat.eqb j i then vd q else old (SI (j - 1) :: q).
Proof. reflexivity. Qed.

Lemma handles_usable_l : forall (F : fops) (cf : cfg) (ops : list op) (n : nat),
  let st := fst (run_from F cf m_init ops) in
  o_magic (sl_val (m_tab st n)) = true ->
  o_tag (sl_val (m_tab st n)) = TJson ->
  sl_ok (m_tab st n) = true ->
  exists r p c, open_handle st n = HGo r p c.
Proof. intros F cf ops n st. apply usable_opens. apply run_inv. apply inv_init. Qed.

Lemma created_survives_l : forall (F : fops) (cf : cfg) (before after : list op) (n : nat),
  let st := fst (run_from F cf m_init before) in
  let st1 := fst (occaCreateJson st n) in
  quiet F cf st1 after n (m_next st) ->
  exists t, open_handle (fst (run_from F cf st1 after)) n = HGo (m_next st) [] t.
Proof.
  intros F cf before after n st st1 Hq. apply created_survives; [|exact Hq].
  apply run_inv. apply inv_init.
Qed.

Lemma bool_through_primitive_refuted_l : forall F : fops,
  exists v, in_range KBool v = true /\
    prim_of cfg_pinned (lit_otype (LScalar KBool v)) = Stop OErr /\
    newOccaType_prim F cfg_pinned (mkP (PTK KBool) v) = Ok occaUndefined /\
    newOccaType_prim_typed F cfg_pinned (mkP (PTK KBool) v) (TK KBool) = Ok occaUndefined.
Proof. intros. exists 1. vm_compute. auto. Qed.

Lemma bool_kernel_argument_refuted_l :
  exists v, in_range KBool v = true /\ kernelArg cfg_pinned (lit_otype (LScalar KBool v)) = Stop OErr.
Proof. exists 1. vm_compute. auto. Qed.
