(* C29 — executable model of the C API value conversions, transcribed branch for branch from
     src/occa/internal/c/types.cpp   (newOccaType overloads, primitive, kernelArg, inferJson,
                                      occaBool ... occaString, occaChar ... occaULong, occaFree)
     src/c/json.cpp                  (occaCreateJson, the occaJsonObject / occaJsonArray functions,
                                      occaJsonCastTo..., occaJsonGet..., occaJsonIs...)
     include/occa/types/primitive.hpp (primitive::to<T>, the converting constructors)
     include/occa/types/json.hpp / src/types/json.cpp (the json members those functions call:
                                      asX, operator[](const char* / int), has, operator+=)
     src/core/kernelArg.cpp          (addPointer, kernelArgData::size/isPointer)
   as they are in /repo's working tree *after* fixes/C29-1.patch and fixes/C29-2.patch; the two
   places the patches change are parameters (`cfg`), so the pinned variant stays expressible.
   Integers are Z with the C conversion written out per kind; float/double payloads are opaque
   32/64-bit patterns and every float computation goes through the record `fops`.
   No proofs in this file. *)
From Coq Require Import List ZArith Bool Lia.
From OV.C29 Require Import Types.
Import ListNotations.
Local Open Scope Z_scope.

(* ---------------------------------------------------------------- floats: an interface *)
Record fops := mkF {
  f32_of_f64 : Z -> Z;            (* (float) double, on bit patterns *)
  f64_of_f32 : Z -> Z;            (* (double) float *)
  f32_of_int : Z -> Z;            (* (float) integer *)
  f64_of_int : Z -> Z;            (* (double) integer *)
  f32_to_int : Z -> option Z;     (* truncation toward zero; None for NaN / infinities *)
  f64_to_int : Z -> option Z }.

(* The two places where the source was repaired:
     fix_bool_prim : primitive(occaType), primitive(occaType,type), newOccaType(primitive),
                     newOccaType(primitive,type) have a bool case          (fixes/C29-1.patch)
     fix_bool_karg : kernelArg(occaType) has a bool case                   (fixes/C29-2.patch) *)
Record cfg := mkCfg { fix_bool_prim : bool; fix_bool_karg : bool }.
Definition cfg_fixed : cfg := mkCfg true true.
Definition cfg_pinned : cfg := mkCfg false false.

Inductive res (A : Type) := Ok (a : A) | Stop (o : obs).
Arguments Ok {A} a.
Arguments Stop {A} o.

(* ---------------------------------------------------------------- C integer conversions *)
Definition wrapu (b v : Z) : Z := v mod 2 ^ b.
Definition wraps (b v : Z) : Z :=
  let m := v mod 2 ^ b in if m <? 2 ^ (b - 1) then m else m - 2 ^ b.

(* (T) v for an integer v and an integral (or bool) T *)
Definition int_cast (k : kind) (v : Z) : Z :=
  match k with
  | KBool => if v =? 0 then 0 else 1
  | KI8 => wraps 8 v | KU8 => wrapu 8 v
  | KI16 => wraps 16 v | KU16 => wrapu 16 v
  | KI32 => wraps 32 v | KU32 => wrapu 32 v
  | KI64 => wraps 64 v | KU64 => wrapu 64 v
  | KF32 | KF64 => v
  end.

(* x != 0 on bit patterns: +0 and -0 are the only zeros *)
Definition f32_nonzero (b : Z) : Z := if b mod 2 ^ 31 =? 0 then 0 else 1.
Definition f64_nonzero (b : Z) : Z := if b mod 2 ^ 63 =? 0 then 0 else 1.

(* (T) value.<src>_   —  one case of the switch in primitive::to<T>() *)
Definition cast_to (F : fops) (src dst : kind) (v : Z) : res Z :=
  match src with
  | KF32 =>
      match dst with
      | KF32 => Ok v
      | KF64 => Ok (f64_of_f32 F v)
      | KBool => Ok (f32_nonzero v)
      | _ => match f32_to_int F v with
             | Some z => if in_range dst z then Ok z else Stop OUB
             | None => Stop OUB
             end
      end
  | KF64 =>
      match dst with
      | KF64 => Ok v
      | KF32 => Ok (f32_of_f64 F v)
      | KBool => Ok (f64_nonzero v)
      | _ => match f64_to_int F v with
             | Some z => if in_range dst z then Ok z else Stop OUB
             | None => Stop OUB
             end
      end
  | _ =>
      match dst with
      | KF32 => Ok (f32_of_int F v)
      | KF64 => Ok (f64_of_int F v)
      | _ => Ok (int_cast dst v)
      end
  end.

(* ---------------------------------------------------------------- occaType constructors *)
(* newOccaType<T>(const T&): magic header, type, bytes = sizeof(T), value.<T>_ = value *)
Definition mk_scalar (k : kind) (v : Z) : otype := mkO true (TK k) (size_of k) false (PInt v).

Definition lit_otype (l : lit) : otype :=
  match l with
  | LScalar k v => mk_scalar k v                                   (* occaBool ... occaDouble *)
  | LStr s => mkO true TString (Z.of_nat (length s)) false (PBytes s)   (* occaString: bytes = strlen *)
  | LNull => occaNull
  | LUndef => occaUndefined
  | LDefault => occaDefault
  | LPtr nn => mkO true TPtr 8 false (if nn then PUser else PNull)      (* occaPtr *)
  | LStruct s => mkO true TStruct (Z.of_nat (length s)) false (PBytes s) (* occaStruct *)
  end.

Definition pint (o : otype) : Z := match o_val o with PInt v => v | _ => 0 end.

(* occaChar ... occaULong: newOccaIntType<TM>(isUnsigned, value) with TM the *signed* type
   of that width for both variants (LP64: char 1, short 2, int 4, long 8; char is signed) *)
Definition ct_size (c : ctype) : Z :=
  match c with CtChar | CtUChar => 1 | CtShort | CtUShort => 2 | CtInt | CtUInt => 4 | CtLong | CtULong => 8 end.
Definition ct_unsigned (c : ctype) : bool :=
  match c with CtUChar | CtUShort | CtUInt | CtULong => true | _ => false end.
Definition signed_kind (sz : Z) : kind :=
  if sz =? 1 then KI8 else if sz =? 2 then KI16 else if sz =? 4 then KI32 else KI64.
Definition unsigned_kind (sz : Z) : kind :=
  if sz =? 1 then KU8 else if sz =? 2 then KU16 else if sz =? 4 then KU32 else KU64.

Definition newOccaIntType (isUnsigned : bool) (sz : Z) (v : Z) : otype :=
  let tm := int_cast (signed_kind sz) v in                 (* the argument converted to TM *)
  let k := if isUnsigned then unsigned_kind sz else signed_kind sz in
  mk_scalar k (int_cast k tm).                             (* occaUIntN(value) / occaIntN(value) *)

Definition occa_amb (c : ctype) (v : Z) : otype := newOccaIntType (ct_unsigned c) (ct_size c) v.

(* ---------------------------------------------------------------- occa::primitive *)
Record prim := mkP { p_type : ptype; p_val : Z }.

(* primitive::to<T>() *)
Definition prim_to (F : fops) (dst : kind) (p : prim) : res Z :=
  match p_type p with
  | PTK src => cast_to F src dst (p_val p)
  | _ => Stop OErr                                          (* "Type not set" *)
  end.

(* occa::c::primitive(occaType) *)
Definition prim_of (c : cfg) (o : otype) : res prim :=
  match o_tag o with
  | TK KBool => if fix_bool_prim c then Ok (mkP (PTK KBool) (int_cast KBool (pint o))) else Stop OErr
  | TK k => Ok (mkP (PTK k) (pint o))
  | _ => Stop OErr                                          (* "Invalid value type" *)
  end.

(* newOccaType<T>(value) with value a primitive: the argument is converted by operator T() *)
Definition new_from_prim (F : fops) (k : kind) (p : prim) : res otype :=
  match prim_to F k p with
  | Ok v => Ok (mk_scalar k v)
  | Stop o => Stop o
  end.

(* occa::c::newOccaType(const primitive&) *)
Definition newOccaType_prim (F : fops) (c : cfg) (p : prim) : res otype :=
  match p_type p with
  | PTK KBool => if fix_bool_prim c then new_from_prim F KBool p else Ok occaUndefined
  | PTK k => new_from_prim F k p
  | _ => Ok occaUndefined
  end.

(* occa::c::newOccaType(const primitive&, const int type) *)
Definition newOccaType_prim_typed (F : fops) (c : cfg) (p : prim) (t : tag) : res otype :=
  match t with
  | TK KBool => if fix_bool_prim c then new_from_prim F KBool p else Ok occaUndefined
  | TK k => new_from_prim F k p
  | _ => Ok occaUndefined
  end.

(* occa::c::primitive(occaType, const int type) *)
Definition prim_of_typed (F : fops) (c : cfg) (o : otype) (t : tag) : res prim :=
  match prim_of c o with
  | Stop ob => Stop ob
  | Ok p =>
      match t with
      | TK KBool => if fix_bool_prim c
                    then match prim_to F KBool p with Ok v => Ok (mkP (PTK KBool) v) | Stop ob => Stop ob end
                    else Stop OErr
      | TK k => match prim_to F k p with Ok v => Ok (mkP (PTK k) v) | Stop ob => Stop ob end
      | _ => Stop OErr
      end
  end.

(* ---------------------------------------------------------------- kernel arguments *)
(* kernelArg::addPointer(void *arg, size_t bytes) *)
Definition addPointer (v : payload) (bytes : Z) : karg :=
  match v with
  | PNull => mkKA PTPtr PNull 0                 (* args.push_back((primitive) nullptr) *)
  | _ => mkKA PTPtr v bytes                     (* kernelArgData kArg(arg); kArg.ptrSize = bytes *)
  end.

(* occa::c::kernelArg(occaType) *)
Definition kernelArg (c : cfg) (o : otype) : res karg :=
  if negb (o_magic o) then Stop OErr            (* "A non-occaType argument was passed" *)
  else match o_tag o with
       | TPtr | TStruct | TString => Ok (addPointer (o_val o) (o_bytes o))
       | TK KBool => if fix_bool_karg c
                     then Ok (mkKA (PTK KBool) (PInt (int_cast KBool (pint o))) 0)
                     else Stop OErr
       | TK k => Ok (mkKA (PTK k) (PInt (pint o)) 0)
       | TNull => Ok (mkKA PTPtr PNull 0)       (* kernelArg(occa::null) -> addMemory(NULL) -> add(nullptr) *)
       | _ => Stop OErr                         (* memory handles are not part of this model *)
       end.

(* primitive::sizeof_(), kernelArgData::size(), kernelArgData::isPointer() *)
Definition pt_sizeof (t : ptype) : Z :=
  match t with PTNone => 0 | PTK k => size_of k | PTPtr => 8 end.
Definition ka_size (a : karg) : Z := if ka_psize a =? 0 then pt_sizeof (ka_pt a) else ka_psize a.
Definition ka_isPointer (a : karg) : bool :=
  if ka_psize a =? 0 then match ka_pt a with PTPtr => true | _ => false end else false.

(* What a Serial kernel whose parameter is declared with the literal's own C type reads from
   the argument built for that literal (serial::kernel::run passes arguments[i].ptr()). *)
Definition kernel_reads (c : cfg) (l : lit) : obs :=
  match kernelArg c (lit_otype l) with
  | Stop o => o
  | Ok a =>
      match l with
      | LScalar k _ =>
          match ka_pt a, ka_val a with
          | PTK k', PInt v => if kind_eqb k k' then OType (mk_scalar k v) else OUB
          | _, _ => OUB
          end
      | LStr _ | LStruct _ =>
          match ka_val a with PBytes s => OBytes s | _ => OUB end
      | LNull => match ka_val a with PNull => OType occaNull | _ => OUB end
      | LPtr nn => match ka_val a with
                   | PNull => OType occaNull
                   | _ => OType (lit_otype l)
                   end
      | _ => OUB
      end
  end.

Fixpoint first_stop (l : list obs) : option obs :=
  match l with
  | [] => None
  | o :: l' => match o with
               | OErr | OUB => Some o
               | _ => first_stop l'
               end
  end.

(* occaKernelPushArg for every argument, then occaKernelRunFromArgs: any raising conversion
   aborts the whole call *)
Definition kernel_run (c : cfg) (args : list lit) : obs :=
  let rs := map (kernel_reads c) args in
  match first_stop rs with Some o => o | None => OList rs end.

(* ---------------------------------------------------------------- scopes (src/c/scope.cpp) *)
(* occa::c::getDtype(occaType), as the *name* that dtype prints with.  The occa dtype system has
   no unsigned builtins: dtype::uint8 = dtype::get<uint8_t>() = dtype::char_, and likewise
   uint16 -> short_, uint32 -> int_, uint64 -> long_ (src/dtype/builtins.cpp:18-25, 80-118). *)
Definition getDtype (o : otype) : res cname :=
  match o_tag o with
  | TK KBool => Ok CNBool
  | TK KI8 => Ok CNChar | TK KU8 => Ok CNChar
  | TK KI16 => Ok CNShort | TK KU16 => Ok CNShort
  | TK KI32 => Ok CNInt | TK KU32 => Ok CNInt
  | TK KI64 => Ok CNLong | TK KU64 => Ok CNLong
  | TK KF32 => Ok CNFloat
  | TK KF64 => Ok CNDouble
  | TNull => Ok CNVoid
  | _ => Stop OErr                              (* "Invalid value type"; memory handles are not modelled *)
  end.

(* occa::addToScope: scope_.add({name, kernelArg(value), getDtype(value), isConst}) *)
Definition addToScope (c : cfg) (o : otype) : res (karg * cname) :=
  match kernelArg c o with
  | Stop ob => Stop ob
  | Ok a => match getDtype o with
            | Ok d => Ok (a, d)
            | Stop ob => Stop ob
            end
  end.

(* scopeKernelArg::getDeclaration(): [const] dtype [*]name *)
Definition scope_decl (c : cfg) (isConst : bool) (l : lit) : obs :=
  match addToScope c (lit_otype l) with
  | Ok (a, d) => ODecl isConst d (ka_isPointer a)
  | Stop ob => ob
  end.

(* the C scalar type behind a declared name *)
Definition decl_kind (d : cname) : option kind :=
  match d with
  | CNBool => Some KBool | CNChar => Some KI8 | CNUChar => Some KU8 | CNShort => Some KI16
  | CNUShort => Some KU16 | CNInt => Some KI32 | CNUInt => Some KU32 | CNLong => Some KI64
  | CNULong => Some KU64 | CNFloat => Some KF32 | CNDouble => Some KF64 | CNVoid => None
  end.

Definition same_class (kd k : kind) : bool :=
  (size_of kd =? size_of k) && Bool.eqb (is_float kd) (is_float k) &&
  Bool.eqb (kind_eqb kd KBool) (kind_eqb k KBool).

(* what the inlined kernel's parameter, declared with the scope entry's dtype, reads from the
   argument (kernelBuilder::run pushes scope.getArg(name); Serial passes a pointer to the
   primitive): the same bytes seen at the declared type *)
Definition scope_reads (c : cfg) (l : lit) : obs :=
  match addToScope c (lit_otype l) with
  | Stop ob => ob
  | Ok (a, d) =>
      match decl_kind d, ka_pt a, ka_val a with
      | Some kd, PTK k, PInt v =>
          if same_class kd k
          then OType (mk_scalar kd (if is_float kd then v else int_cast kd v))
          else OUB
      | None, PTPtr, PNull => OType occaNull
      | _, _, _ => OUB
      end
  end.

Definition scope_run (c : cfg) (args : list lit) : obs :=
  let rs := map (scope_reads c) args in
  match first_stop rs with Some o => o | None => OList rs end.

(* ---------------------------------------------------------------- occa::json *)
Inductive json :=
| JNone | JNull
| JNum (k : kind) (v : Z)                 (* number_; the primitive's type and value *)
| JStr (s : bytes)
| JArr (l : list json)                    (* std::vector<json> *)
| JObj (m : list (bytes * json)).         (* std::map<std::string,json>; iteration order is not observable through the accessors used *)

Fixpoint assoc_get (k : bytes) (m : list (bytes * json)) : option json :=
  match m with
  | [] => None
  | (k', c) :: m' => if bytes_eqb k k' then Some c else assoc_get k m'
  end.

Fixpoint assoc_set (k : bytes) (v : json) (m : list (bytes * json)) : list (bytes * json) :=
  match m with
  | [] => [(k, v)]
  | (k', c) :: m' => if bytes_eqb k k' then (k', v) :: m' else (k', c) :: assoc_set k v m'
  end.

Fixpoint assoc_modify (k : bytes) (g : json -> json) (m : list (bytes * json)) : list (bytes * json) :=
  match m with
  | [] => []
  | (k', c) :: m' => if bytes_eqb k k' then (k', g c) :: m' else (k', c) :: assoc_modify k g m'
  end.

Fixpoint list_modify (i : nat) (g : json -> json) (l : list json) : list json :=
  match l with
  | [] => []
  | c :: l' => match i with
               | O => g c :: l'
               | S i' => c :: list_modify i' g l'
               end
  end.

(* the node a json* obtained by following `p` from `t` points to *)
Fixpoint node_at (p : path) (t : json) : option json :=
  match p with
  | [] => Some t
  | SK k :: r => match t with
                 | JObj m => match assoc_get k m with Some c => node_at r c | None => None end
                 | _ => None
                 end
  | SI i :: r => match t with
                 | JArr l => match nth_error l i with Some c => node_at r c | None => None end
                 | _ => None
                 end
  end.

(* writing through such a pointer *)
Fixpoint modify_at (p : path) (f : json -> json) (t : json) : json :=
  match p with
  | [] => f t
  | SK k :: r => match t with
                 | JObj m => JObj (assoc_modify k (modify_at r f) m)
                 | _ => t
                 end
  | SI i :: r => match t with
                 | JArr l => JArr (list_modify i (modify_at r f) l)
                 | _ => t
                 end
  end.

Definition kind_of (c : json) : node :=
  match c with
  | JNone => NNone | JNull => NNull | JNum k v => NNum k v | JStr s => NStr s
  | JArr l => NArr (length l) | JObj _ => NObj
  end.

(* ---------------------------------------------------------------- state *)
Record mstate := mkM {
  m_roots : nat -> option json;       (* heap objects made by occaCreateJson; None = deleted *)
  m_next : nat;
  m_tab : table }.

Definition m_init : mstate := mkM (fun _ => None) 0%nat empty_table.

Definition set_root (st : mstate) (r : nat) (t : option json) : mstate :=
  mkM (fun r' => if Nat.eqb r' r then t else m_roots st r') (m_next st) (m_tab st).
Definition set_tab (st : mstate) (T : table) : mstate := mkM (m_roots st) (m_next st) T.

(* *ptr = c'  for the json* that (r, p) stands for *)
Definition put_node (st : mstate) (r : nat) (p : path) (c' : json) : mstate :=
  match m_roots st r with
  | Some t => set_root st r (Some (modify_at p (fun _ => c') t))
  | None => st
  end.

Inductive hres := HGo (r : nat) (p : path) (c : json) | HStop (o : obs).

(* occa::c::json(value) for the occaType in C variable n (the driver has already checked
   occaIsUndefined).  A variable whose node was destroyed is reported as OInvalid. *)
Definition open_handle (st : mstate) (n : nat) : hres :=
  let s := m_tab st n in
  let o := sl_val s in
  if negb (o_magic o) then HStop OUndef
  else if negb (tag_eqb (o_tag o) TJson) then HStop OErr     (* "Input is not an occaJson" *)
  else if negb (sl_ok s) then HStop OInvalid
  else match o_val o with
       | PRef r p =>
           match m_roots st r with
           | Some t => match node_at p t with Some c => HGo r p c | None => HStop OInvalid end
           | None => HStop OInvalid
           end
       | _ => HStop OInvalid
       end.

(* the occaType passed as a value argument: a literal or the contents of a C variable *)
Definition open_value (st : mstate) (v : vtok) : res slot :=
  match v with
  | VLit l => Ok (mkSlot (lit_otype l) true)
  | VSlot m =>
      let s := m_tab st m in
      if negb (o_magic (sl_val s)) then Stop OUndef
      else if tag_eqb (o_tag (sl_val s)) TJson && negb (sl_ok s) then Stop OInvalid
      else Ok s
  end.

(* occa::c::inferJson(occaType) — returns a copy *)
Definition inferJson (c : cfg) (st : mstate) (s : slot) : res json :=
  let o := sl_val s in
  match o_tag o with
  | TK KBool => Ok (JNum KBool (int_cast KBool (pint o)))         (* json((bool) value.int8_) *)
  | TK _ => match prim_of c o with                                  (* json(primitive(value)) *)
            | Ok p => match p_type p with PTK k => Ok (JNum k (p_val p)) | _ => Stop OErr end
            | Stop ob => Stop ob
            end
  | TString => match o_val o with PBytes b => Ok (JStr b) | _ => Stop OUB end
  | TJson =>
      match o_val o with
      | PRef r p =>
          match m_roots st r with
          | Some t => match node_at p t with Some cj => Ok cj | None => Stop OInvalid end
          | None => Stop OInvalid
          end
      | _ => Stop OInvalid
      end
  | TNull => Ok JNull
  | TPtr => match o_val o with PNull => Ok JNull | _ => Stop OErr end
  | _ => Stop OErr                                                  (* "Invalid value type" *)
  end.

(* occa::c::newOccaType(const json&, needsFree) for the node at (r, p) *)
Definition handle_to (r : nat) (p : path) (c : json) (needsFree : bool) : otype :=
  match c with
  | JNull => occaNull
  | _ => mkO true TJson 8 needsFree (PRef r p)
  end.

(* if (!j_.isInitialized()) j_.asObject() / j_.asArray() *)
Definition auto_cast (want_obj : bool) (c : json) : json :=
  match c with
  | JNone => if want_obj then JObj [] else JArr []
  | _ => c
  end.

Definition with_slot (st : mstate) (n : nat) (s : slot) : mstate := set_tab st (set_slot (m_tab st) n s).
Definition kill (st : mstate) (r : nat) (p : path) : mstate := set_tab st (kill_below r p (m_tab st)).

(* ---------------------------------------------------------------- src/c/json.cpp *)
Definition occaCreateJson (st : mstate) (n : nat) : mstate * obs :=
  let r := m_next st in
  let o := mkO true TJson 8 true (PRef r []) in
  let st1 := mkM (fun r' => if Nat.eqb r' r then Some JNone else m_roots st r') (S r) (m_tab st) in
  (with_slot st1 n (mkSlot o true), OType o).

Definition occaJsonObjectSet (cf : cfg) (st : mstate) (n : nat) (key : bytes) (v : vtok) : mstate * obs :=
  if negb (key_ok key) then (st, OOut) else
  if negb (o_magic (sl_val (m_tab st n))) then (st, OUndef) else
  match open_value st v with
  | Stop ob => (st, ob)
  | Ok vs =>
      match open_handle st n with
      | HStop ob => (st, ob)
      | HGo r p c =>
          let c1 := auto_cast true c in
          let st1 := put_node st r p c1 in
          match c1 with
          | JObj m =>
              match inferJson cf st1 vs with             (* right operand first (C++17) *)
              | Stop ob => (st1, ob)
              | Ok jv =>
                  match key with
                  | [] => (kill (put_node st1 r p jv) r p, OUnit)       (* j_[""] is j_ itself *)
                  | _ => (kill (put_node st1 r p (JObj (assoc_set key jv m))) r (p ++ [SK key]), OUnit)
                  end
              end
          | _ => (st1, OErr)                             (* "Input is not a JSON object" *)
          end
      end
  end.

Definition occaJsonObjectGet (st : mstate) (n : nat) (key : bytes) (mth : nat) (d : lit) : mstate * obs :=
  if negb (key_ok key) then (st, OOut) else
  match open_handle st n with
  | HStop ob => (st, ob)
  | HGo r p c =>
      let c1 := auto_cast true c in
      let st1 := put_node st r p c1 in
      match c1 with
      | JObj m =>
          let o :=
            match key with
            | [] => handle_to r p c1 false
            | _ => match assoc_get key m with
                   | Some ch => handle_to r (p ++ [SK key]) ch false
                   | None => lit_otype d
                   end
            end in
          (with_slot st1 mth (mkSlot o true), OType o)
      | _ => (st1, OErr)
      end
  end.

Definition occaJsonObjectHas (st : mstate) (n : nat) (key : bytes) : mstate * obs :=
  if negb (key_ok key) then (st, OOut) else
  match open_handle st n with
  | HStop ob => (st, ob)
  | HGo r p c =>
      let c1 := auto_cast true c in
      let st1 := put_node st r p c1 in
      match c1 with
      | JObj m =>
          (st1, OBool (match key with
                       | [] => true
                       | _ => match assoc_get key m with Some _ => true | None => false end
                       end))
      | _ => (st1, OErr)
      end
  end.

Definition occaJsonArraySize (st : mstate) (n : nat) : mstate * obs :=
  match open_handle st n with
  | HStop ob => (st, ob)
  | HGo r p c =>
      let c1 := auto_cast false c in
      let st1 := put_node st r p c1 in
      match c1 with
      | JArr l => (st1, OInt (Z.of_nat (length l)))
      | _ => (st1, OErr)                                 (* "Input is not a JSON array" *)
      end
  end.

(* json::operator[](const int n) grows the vector when n is past the end: the elements in
   between become null, the last one stays none_ *)
Definition occaJsonArrayGet (st : mstate) (n : nat) (i : Z) (mth : nat) : mstate * obs :=
  match open_handle st n with
  | HStop ob => (st, ob)
  | HGo r p c =>
      let c1 := auto_cast false c in
      let st1 := put_node st r p c1 in
      match c1 with
      | JArr l =>
          if i <? 0 then (st1, OUB)
          else
            let k := Z.to_nat i in
            match nth_error l k with
            | Some ch =>
                let o := handle_to r (p ++ [SI k]) ch false in
                (with_slot st1 mth (mkSlot o true), OType o)
            | None =>
                let l' := l ++ repeat JNull (k - length l) ++ [JNone] in
                let st2 := kill (put_node st1 r p (JArr l')) r p in
                let o := handle_to r (p ++ [SI k]) JNone false in
                (with_slot st2 mth (mkSlot o true), OType o)
            end
      | _ => (st1, OErr)
      end
  end.

Definition occaJsonArrayPush (cf : cfg) (st : mstate) (n : nat) (v : vtok) : mstate * obs :=
  if negb (o_magic (sl_val (m_tab st n))) then (st, OUndef) else
  match open_value st v with
  | Stop ob => (st, ob)
  | Ok vs =>
      match open_handle st n with
      | HStop ob => (st, ob)
      | HGo r p c =>
          let c1 := auto_cast false c in
          let st1 := put_node st r p c1 in
          match c1 with
          | JArr l =>
              match inferJson cf st1 vs with
              | Stop ob => (st1, ob)
              | Ok JNone => (st1, OUnit)                 (* operator+=: "Nothing to add" *)
              | Ok jv => (kill (put_node st1 r p (JArr (l ++ [jv]))) r p, OUnit)
              end
          | _ => (st1, OErr)
          end
      end
  end.

Definition occaJsonArrayPop (st : mstate) (n : nat) : mstate * obs :=
  match open_handle st n with
  | HStop ob => (st, ob)
  | HGo r p c =>
      let c1 := auto_cast false c in
      let st1 := put_node st r p c1 in
      match c1 with
      | JArr [] => (st1, OUB)                            (* pop_back on an empty vector *)
      | JArr l => (kill (put_node st1 r p (JArr (removelast l))) r p, OUnit)
      | _ => (st1, OErr)
      end
  end.

Definition occaJsonArrayInsert (cf : cfg) (st : mstate) (n : nat) (i : Z) (v : vtok) : mstate * obs :=
  if negb (o_magic (sl_val (m_tab st n))) then (st, OUndef) else
  match open_value st v with
  | Stop ob => (st, ob)
  | Ok vs =>
      match open_handle st n with
      | HStop ob => (st, ob)
      | HGo r p c =>
          let c1 := auto_cast false c in
          let st1 := put_node st r p c1 in
          match c1 with
          | JArr l =>
              if (0 <=? i) && (i <? Z.of_nat (length l)) then
                match inferJson cf st1 vs with
                | Stop ob => (st1, ob)
                | Ok jv =>
                    let k := Z.to_nat i in
                    (kill (put_node st1 r p (JArr (firstn k l ++ jv :: skipn k l))) r p, OUnit)
                end
              else (st1, OErr)                           (* "Index [i] is out of bounds" *)
          | _ => (st1, OErr)
          end
      end
  end.

Definition occaJsonArrayClear (st : mstate) (n : nat) : mstate * obs :=
  match open_handle st n with
  | HStop ob => (st, ob)
  | HGo r p c =>
      let c1 := auto_cast false c in
      let st1 := put_node st r p c1 in
      match c1 with
      | JArr _ => (kill (put_node st1 r p (JArr [])) r p, OUnit)
      | _ => (st1, OErr)
      end
  end.

(* (bool) number *)
Definition num_to_bool (k : kind) (v : Z) : Z :=
  match k with
  | KF32 => f32_nonzero v
  | KF64 => f64_nonzero v
  | _ => int_cast KBool v
  end.

(* json::asBoolean / asNumber / asString / asArray / asObject *)
Definition cast_json (cj : jcast) (c : json) : json :=
  match cj with
  | CBool => match c with JNum k v => JNum KBool (num_to_bool k v) | _ => JNum KBool 0 end
  | CNum => match c with JNum _ _ => c | _ => JNum KI32 0 end     (* clear() leaves number = (int) 0 *)
  | CStr => match c with JStr _ => c | _ => JStr [] end
  | CArr => match c with JArr _ => c | _ => JArr [] end
  | CObj => match c with JObj _ => c | _ => JObj [] end
  end.

(* asArray on an array and asObject on an object keep the children; every other cast goes
   through clear() or turns the node into a leaf *)
Definition cast_keeps (cj : jcast) (c : json) : bool :=
  match cj, c with
  | CArr, JArr _ => true
  | CObj, JObj _ => true
  | _, _ => false
  end.

Definition occaJsonCastTo (st : mstate) (n : nat) (cj : jcast) : mstate * obs :=
  match open_handle st n with
  | HStop ob => (st, ob)
  | HGo r p c =>
      let st1 := put_node st r p (cast_json cj c) in
      (if cast_keeps cj c then st1 else kill st1 r p, OUnit)
  end.

Definition occaJsonGetBoolean (st : mstate) (n : nat) : mstate * obs :=
  match open_handle st n with
  | HStop ob => (st, ob)
  | HGo r p c =>
      match c with
      | JNum KBool v => (st, OBool (negb (v =? 0)))       (* value_.number.value.bool_ *)
      | _ => (st, ONot)                                   (* driver: only when occaJsonIsBoolean *)
      end
  end.

Definition occaJsonGetNumber (F : fops) (cf : cfg) (st : mstate) (n : nat) (k : kind) : mstate * obs :=
  match open_handle st n with
  | HStop ob => (st, ob)
  | HGo r p c =>
      match c with
      | JNum k0 v =>
          match newOccaType_prim_typed F cf (mkP (PTK k0) v) (TK k) with
          | Ok o => (st, OType o)
          | Stop ob => (st, ob)
          end
      | _ => (st, ONot)                                   (* driver: only when occaJsonIsNumber *)
      end
  end.

Definition occaJsonGetString (st : mstate) (n : nat) : mstate * obs :=
  match open_handle st n with
  | HStop ob => (st, ob)
  | HGo r p c =>
      match c with
      | JStr s => (st, OBytes s)
      | _ => (st, ONot)                                   (* driver: only when occaJsonIsString *)
      end
  end.

Definition occaJsonIs (st : mstate) (n : nat) : mstate * obs :=
  match open_handle st n with
  | HStop ob => (st, ob)
  | HGo r p c =>
      (st, OFlags (match c with JNum KBool _ => true | _ => false end)
                  (match c with JNum _ _ => true | _ => false end)
                  (match c with JStr _ => true | _ => false end)
                  (match c with JArr _ => true | _ => false end)
                  (match c with JObj _ => true | _ => false end))
  end.

(* occaFree(occaType *value) — src/occa/internal/c/types.cpp *)
Definition occaFree (st : mstate) (n : nat) : mstate * obs :=
  let s := m_tab st n in
  let o := sl_val s in
  if negb (o_magic o) then (st, OUnit)                    (* occaIsUndefined: return *)
  else
    match o_tag o with
    | TJson =>
        if o_free o then
          if negb (sl_ok s) then (st, OInvalid)           (* delete of a deleted object *)
          else match o_val o with
               | PRef r _ =>
                   let st1 := set_tab (set_root st r None) (kill_root r (m_tab st)) in
                   (with_slot st1 n (mkSlot (mark_undefined o) false), OUnit)
               | _ => (st, OInvalid)
               end
        else (with_slot st n (mkSlot (mark_undefined o) (sl_ok s)), OUnit)
    | _ => (with_slot st n (mkSlot (mark_undefined o) (sl_ok s)), OUnit)
    end.

(* ---------------------------------------------------------------- one operation *)
Definition res_obs (r : res otype) : obs := match r with Ok o => OType o | Stop ob => ob end.

Definition step (F : fops) (cf : cfg) (st : mstate) (o : op) : mstate * obs :=
  match o with
  | OpC l => (st, OType (lit_otype l))
  | OpAmb c v => (st, OType (occa_amb c v))
  | OpP l => (st, match prim_of cf (lit_otype l) with
                  | Ok p => res_obs (newOccaType_prim F cf p)
                  | Stop ob => ob
                  end)
  | OpQ k l => (st, match prim_of cf (lit_otype l) with
                    | Ok p => res_obs (newOccaType_prim_typed F cf p (TK k))
                    | Stop ob => ob
                    end)
  | OpT k l => (st, match prim_of_typed F cf (lit_otype l) (TK k) with
                    | Ok p => res_obs (newOccaType_prim F cf p)
                    | Stop ob => ob
                    end)
  | OpK l => (st, match kernelArg cf (lit_otype l) with Ok a => OKArg a | Stop ob => ob end)
  | OpKRun args => (st, kernel_run cf args)
  | OpScopeDecl ic l => (st, scope_decl cf ic l)
  | OpScopeRun ic args => (st, scope_run cf args)
  | OpNew n => occaCreateJson st n
  | OpFree n => occaFree st n
  | OpIsUndef n => (st, OBool (negb (o_magic (sl_val (m_tab st n)))))
  | OpView n => (st, OType (sl_val (m_tab st n)))
  | OpOSet n key v => occaJsonObjectSet cf st n key v
  | OpOGet n key m d => occaJsonObjectGet st n key m d
  | OpOHas n key => occaJsonObjectHas st n key
  | OpAPush n v => occaJsonArrayPush cf st n v
  | OpAIns n i v => occaJsonArrayInsert cf st n i v
  | OpAGet n i m => occaJsonArrayGet st n i m
  | OpAPop n => occaJsonArrayPop st n
  | OpAClear n => occaJsonArrayClear st n
  | OpASize n => occaJsonArraySize st n
  | OpCast n c => occaJsonCastTo st n c
  | OpGetB n => occaJsonGetBoolean st n
  | OpGetN n k => occaJsonGetNumber F cf st n k
  | OpGetS n => occaJsonGetString st n
  | OpTy n => occaJsonIs st n
  end.

Fixpoint run_from (F : fops) (cf : cfg) (st : mstate) (ops : list op) : mstate * list obs :=
  match ops with
  | [] => (st, [])
  | o :: ops' =>
      let '(st1, ob) := step F cf st o in
      let '(st2, obs') := run_from F cf st1 ops' in
      (st2, ob :: obs')
  end.

Definition run (F : fops) (cf : cfg) (ops : list op) : list obs := snd (run_from F cf m_init ops).
