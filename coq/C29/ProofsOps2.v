(* C29 — proofs, part C (continued): array operations, casts, accessors, create/free. *)
From Coq Require Import List ZArith Bool Lia Arith.
From OV.C29 Require Import Types Model Spec Proofs ProofsTree ProofsRefine ProofsOps.
Import ListNotations.
Local Open Scope Z_scope.

(* common prologue of the array operations that accept an uninitialised node *)
Lemma arr_prologue : forall st s n r p d,
  R st s -> s_open s n = Some (r, p, d) -> (d p = NNone \/ exists k, d p = NArr k) ->
  exists c t1 l,
    open_handle st n = HGo r p c /\ o_magic (sl_val (m_tab st n)) = true /\
    auto_cast false c = JArr l /\
    R (put_node st r p (JArr l)) (fst (s_auto false s r p d)) /\
    opened (put_node st r p (JArr l)) (fst (s_auto false s r p d)) r p t1 (JArr l) (snd (s_auto false s r p d)) /\
    m_tab (put_node st r p (JArr l)) = m_tab st /\
    snd (s_auto false s r p d) p = NArr (length l) /\
    (d p <> NNone -> fst (s_auto false s r p d) = s /\ snd (s_auto false s r p d) = d).
Proof.
  intros st s n r p d HR Eo Hdp.
  destruct (open_rel _ _ _ _ _ _ HR Eo) as [t [c [Hoh [Hop Hmag]]]].
  pose proof (auto_rel false _ _ _ _ _ _ _ HR Hop) as Ha. cbv zeta in Ha.
  destruct Ha as [HR1 [[t1 Hop1] [Htab1 [Hstab1 [Hn1 Hn2]]]]].
  assert (Hd1 : exists k, snd (s_auto false s r p d) p = NArr k).
  { destruct Hdp as [E|[k E]]; [exists 0%nat; apply Hn1; exact E | exists k; rewrite Hn2; [exact E | rewrite E; discriminate]]. }
  destruct Hd1 as [k Hd1].
  pose proof (opened_kind _ _ _ _ _ _ _ Hop1) as Hk1. rewrite Hd1 in Hk1.
  destruct (kind_arr _ _ Hk1) as [l [Hl Hlen]]. rewrite Hl in *.
  exists c, t1, l.
  split; [exact Hoh|]. split; [exact Hmag|]. split; [exact Hl|]. split; [exact HR1|].
  split; [exact Hop1|]. split; [exact Htab1|].
  split; [rewrite Hd1, Hlen; reflexivity|].
  intros Hne. unfold s_auto. destruct (d p); try congruence; split; reflexivity.
Qed.

(* ---------------------------------------------------------------- push *)
Lemma apush_refines : forall st s n v s' rq,
  R st s -> sstep s (OpAPush n v) = Some (s', rq) ->
  R (fst (occaJsonArrayPush cfg_fixed st n v)) s' /\ agrees (snd (occaJsonArrayPush cfg_fixed st n v)) rq.
Proof.
  intros st s n v s' rq HR H. cbn [sstep] in H.
  destruct (s_open s n) as [[[r p] d]|] eqn:Eo; [|discriminate].
  assert (Hdp : (d p = NNone \/ exists k, d p = NArr k) /\
                (let '(s1, d1) := s_auto false s r p d in
                 match arr_len (d1 p), s_value s1 v with
                 | Some len, Some vd =>
                     Some (s_kill (s_set_root s1 r (Some (graft d1 p (g_ains (sub d1 p) len len vd)))) r p, Must OUnit)
                 | _, _ => None
                 end) = Some (s', rq)).
  { destruct (d p); try discriminate; eauto. }
  clear H. destruct Hdp as [Hdp H].
  destruct (arr_prologue _ _ _ _ _ _ HR Eo Hdp) as [c [t1 [l [Hoh [Hmag [Hc1 [HR1 [Hop1 [Htab1 [Hd1 _]]]]]]]]]].
  rewrite (pair_eta _ _ (s_auto false s r p d)) in H.
  set (s1 := fst (s_auto false s r p d)) in *. set (d1 := snd (s_auto false s r p d)) in *.
  rewrite Hd1 in H. cbn [arr_len] in H.
  destruct (s_value s1 v) as [vd|] eqn:Ev; [|discriminate]. inversion H; subst s' rq. clear H.
  destruct (value_rel _ _ _ _ HR1 Ev) as [vs [jv [Hov [Hij [Hjv Hne]]]]].
  rewrite (open_value_tab _ _ _ Htab1) in Hov.
  unfold occaJsonArrayPush. rewrite Hmag, Hov, Hoh. cbn [negb]. cbv zeta. rewrite Hc1, Hij.
  assert (Hgoal : R (kill (put_node (put_node st r p (JArr l)) r p (JArr (l ++ [jv]))) r p)
                    (s_kill (s_set_root s1 r (Some (graft d1 p (g_ains (sub d1 p) (length l) (length l) vd)))) r p)).
  { apply R_kill. pose proof (arr_sub _ _ _ _ _ _ _ Hop1) as Hsub. destruct Hop1 as [Hmt1 Hsd1 Hn1 Hrel1].
    eapply R_put; eauto. rewrite push_as_insert. apply arr_rel_insert; auto. }
  destruct jv; [contradiction Hne; reflexivity | | | | |]; cbn [fst snd]; (split; [exact Hgoal | reflexivity]).
Qed.

(* ---------------------------------------------------------------- insert *)
Lemma ains_refines : forall st s n i v s' rq,
  R st s -> sstep s (OpAIns n i v) = Some (s', rq) ->
  R (fst (occaJsonArrayInsert cfg_fixed st n i v)) s' /\ agrees (snd (occaJsonArrayInsert cfg_fixed st n i v)) rq.
Proof.
  intros st s n i v s' rq HR H. cbn [sstep] in H.
  destruct (s_open s n) as [[[r p] d]|] eqn:Eo; [|discriminate].
  destruct (d p) eqn:Edp; try discriminate. rename n0 into len.
  destruct ((0 <=? i) && (i <? Z.of_nat len)) eqn:Eb; [|discriminate].
  destruct (s_value s v) as [vd|] eqn:Ev; [|discriminate]. inversion H; subst s' rq. clear H.
  assert (Hdp : d p = NNone \/ exists k, d p = NArr k) by (right; eauto).
  destruct (arr_prologue _ _ _ _ _ _ HR Eo Hdp) as [c [t1 [l [Hoh [Hmag [Hc1 [HR1 [Hop1 [Htab1 [Hd1 Hsame]]]]]]]]]].
  destruct Hsame as [Hs1 Hds1]; [rewrite Edp; discriminate|]. rewrite Hs1, Hds1 in *.
  rewrite Edp in Hd1. inversion Hd1; subst len.
  destruct (value_rel _ _ _ _ HR1 Ev) as [vs [jv [Hov [Hij [Hjv Hne]]]]].
  rewrite (open_value_tab _ _ _ Htab1) in Hov.
  unfold occaJsonArrayInsert. rewrite Hmag, Hov, Hoh. cbn [negb]. cbv zeta. rewrite Hc1, Eb, Hij.
  cbn [fst snd]. split; [|reflexivity].
  apply andb_true_iff in Eb. destruct Eb as [Eb1 Eb2]. apply Z.leb_le in Eb1. apply Z.ltb_lt in Eb2.
  apply R_kill. pose proof (arr_sub _ _ _ _ _ _ _ Hop1) as Hsub. destruct Hop1 as [Hmt1 Hsd1 Hn1 Hrel1].
  eapply R_put; eauto. apply arr_rel_insert; auto. lia.
Qed.

(* ---------------------------------------------------------------- get (no growth) *)
Lemma arr_child : forall st s r p t l d k,
  opened st s r p t (JArr l) d ->
  d (p ++ [SI k]) = match nth_error l k with Some ch => kind_of ch | None => NAbsent end.
Proof.
  intros st s r p t l d k [H1 H2 H3 H4]. rewrite <- H4. rewrite (alpha_app _ _ _ _ H3).
  unfold alpha. cbn. destruct (nth_error l k); reflexivity.
Qed.

Lemma aget_refines : forall st s n i mth s' rq,
  R st s -> sstep s (OpAGet n i mth) = Some (s', rq) ->
  R (fst (occaJsonArrayGet st n i mth)) s' /\ agrees (snd (occaJsonArrayGet st n i mth)) rq.
Proof.
  intros st s n i mth s' rq HR H. cbn [sstep] in H.
  destruct (s_open s n) as [[[r p] d]|] eqn:Eo; [|discriminate].
  destruct (d p) eqn:Edp; try discriminate. rename n0 into len.
  destruct ((0 <=? i) && (i <? Z.of_nat len)) eqn:Eb; [|discriminate].
  cbv zeta in H. inversion H; subst s' rq. clear H.
  assert (Hdp : d p = NNone \/ exists k, d p = NArr k) by (right; eauto).
  destruct (arr_prologue _ _ _ _ _ _ HR Eo Hdp) as [c [t1 [l [Hoh [Hmag [Hc1 [HR1 [Hop1 [Htab1 [Hd1 Hsame]]]]]]]]]].
  destruct Hsame as [Hs1 Hds1]; [rewrite Edp; discriminate|]. rewrite Hs1, Hds1 in *.
  rewrite Edp in Hd1. inversion Hd1; subst len.
  apply andb_true_iff in Eb. destruct Eb as [Eb1 Eb2]. apply Z.leb_le in Eb1. apply Z.ltb_lt in Eb2.
  unfold occaJsonArrayGet. rewrite Hoh. cbv zeta. rewrite Hc1.
  destruct (Z.ltb_spec i 0); [lia|].
  rewrite (arr_child _ _ _ _ _ _ _ (Z.to_nat i) Hop1).
  destruct (nth_error l (Z.to_nat i)) as [ch|] eqn:En.
  - destruct ch; cbn [kind_of handle_to s_handle fst snd]; (split; [apply R_with_slot; exact HR1 | reflexivity]).
  - apply nth_error_None in En. lia.
Qed.

(* ---------------------------------------------------------------- pop / clear / size *)
Lemma apop_refines : forall st s n s' rq,
  R st s -> sstep s (OpAPop n) = Some (s', rq) ->
  R (fst (occaJsonArrayPop st n)) s' /\ agrees (snd (occaJsonArrayPop st n)) rq.
Proof.
  intros st s n s' rq HR H. cbn [sstep] in H.
  destruct (s_open s n) as [[[r p] d]|] eqn:Eo; [|discriminate].
  destruct (d p) eqn:Edp; try discriminate. destruct n0 as [|len]; [discriminate|].
  inversion H; subst s' rq. clear H.
  assert (Hdp : d p = NNone \/ exists k, d p = NArr k) by (right; eauto).
  destruct (arr_prologue _ _ _ _ _ _ HR Eo Hdp) as [c [t1 [l [Hoh [Hmag [Hc1 [HR1 [Hop1 [Htab1 [Hd1 Hsame]]]]]]]]]].
  destruct Hsame as [Hs1 Hds1]; [rewrite Edp; discriminate|]. rewrite Hs1, Hds1 in *.
  rewrite Edp in Hd1. inversion Hd1 as [Hlen].
  unfold occaJsonArrayPop. rewrite Hoh. cbv zeta. rewrite Hc1.
  destruct l as [|a l]; [discriminate Hlen|]. cbn [fst snd]. split; [|reflexivity].
  apply R_kill. pose proof (arr_sub _ _ _ _ _ _ _ Hop1) as Hsub. destruct Hop1 as [Hmt1 Hsd1 Hn1 Hrel1].
  eapply R_put; eauto.
  intros q. unfold g_apop. rewrite Hlen. destruct q as [|[k2|j] q].
  - unfold alpha. cbn [node_at kind_of]. rewrite length_removelast. reflexivity.
  - rewrite alpha_arr_key. rewrite <- Hsub. reflexivity.
  - rewrite alpha_arr_idx, nth_error_removelast.
    destruct (Nat.ltb j (length (a :: l) - 1)); [|reflexivity].
    rewrite <- Hsub, alpha_arr_idx. reflexivity.
Qed.

Lemma aclear_refines : forall st s n s' rq,
  R st s -> sstep s (OpAClear n) = Some (s', rq) ->
  R (fst (occaJsonArrayClear st n)) s' /\ agrees (snd (occaJsonArrayClear st n)) rq.
Proof.
  intros st s n s' rq HR H. cbn [sstep] in H.
  destruct (s_open s n) as [[[r p] d]|] eqn:Eo; [|discriminate].
  assert (Hdp : (d p = NNone \/ exists k, d p = NArr k) /\
                Some (s_kill (s_set_root s r (Some (graft d p (leaf (NArr 0))))) r p, Must OUnit) = Some (s', rq)).
  { destruct (d p); try discriminate; eauto. }
  clear H. destruct Hdp as [Hdp H]. inversion H; subst s' rq. clear H.
  destruct (open_rel _ _ _ _ _ _ HR Eo) as [t [c [Hoh [Hop Hmag]]]].
  pose proof (opened_kind _ _ _ _ _ _ _ Hop) as Hk.
  unfold occaJsonArrayClear. rewrite Hoh. cbv zeta.
  assert (Hc1 : exists l, auto_cast false c = JArr l).
  { destruct Hdp as [E|[k E]]; rewrite E in Hk; destruct c; try discriminate; cbn; eauto. }
  destruct Hc1 as [l Hc1]. rewrite Hc1. cbn [fst snd]. split; [|reflexivity].
  apply R_kill. destruct Hop as [Hmt Hsd Hn Hrel].
  (* two writes through the same pointer: only the last one is visible *)
  constructor.
  - rewrite !put_node_next. apply (R_next _ _ HR).
  - intros m. rewrite !put_node_tab. apply (R_tab _ _ HR).
  - intros r'. cbn [s_set_root s_roots]. destruct (Nat.eqb_spec r' r).
    + subst r'.
      rewrite (put_node_root_same _ _ _ _ _ (put_node_root_same _ _ _ _ _ Hmt)). cbn. intros q.
      rewrite (alpha_modify _ _ _ _ _ (node_at_put _ _ _ _ Hn)). unfold graft.
      destruct (strip_prefix p q) eqn:E; [apply alpha_JArr_nil|].
      rewrite (alpha_modify _ _ _ _ _ Hn), E. apply Hrel.
    + rewrite !put_node_root_other by assumption. apply (R_roots _ _ HR).
Qed.

Lemma asize_refines : forall st s n s' rq,
  R st s -> sstep s (OpASize n) = Some (s', rq) ->
  R (fst (occaJsonArraySize st n)) s' /\ agrees (snd (occaJsonArraySize st n)) rq.
Proof.
  intros st s n s' rq HR H. cbn [sstep] in H.
  destruct (s_open s n) as [[[r p] d]|] eqn:Eo; [|discriminate].
  assert (Hdp : (d p = NNone \/ exists k, d p = NArr k) /\
                (let '(s1, d1) := s_auto false s r p d in
                 match arr_len (d1 p) with
                 | Some len => Some (s1, Must (OInt (Z.of_nat len)))
                 | None => None
                 end) = Some (s', rq)).
  { destruct (d p); try discriminate; eauto. }
  clear H. destruct Hdp as [Hdp H].
  destruct (arr_prologue _ _ _ _ _ _ HR Eo Hdp) as [c [t1 [l [Hoh [Hmag [Hc1 [HR1 [Hop1 [Htab1 [Hd1 _]]]]]]]]]].
  rewrite (pair_eta _ _ (s_auto false s r p d)) in H.
  rewrite Hd1 in H. cbn [arr_len] in H. inversion H; subst s' rq. clear H.
  unfold occaJsonArraySize. rewrite Hoh. cbv zeta. rewrite Hc1. cbn [fst snd].
  split; [exact HR1 | reflexivity].
Qed.
