(* C29 — proofs, part B: paths, and what a write through a json pointer does to the abstract
   view (alpha) of the tree it points into. *)
From Coq Require Import List ZArith Bool Lia Arith.
From OV.C29 Require Import Types Model Spec.
Import ListNotations.
Local Open Scope Z_scope.

(* ---------------------------------------------------------------- keys, steps, prefixes *)
Lemma bytes_eqb_refl : forall a, bytes_eqb a a = true.
Proof. induction a; cbn; [reflexivity|]. rewrite Z.eqb_refl, IHa. reflexivity. Qed.

Lemma bytes_eqb_eq : forall a b, bytes_eqb a b = true -> a = b.
Proof.
  induction a; destruct b; cbn; intros H; try discriminate; [reflexivity|].
  apply andb_true_iff in H. destruct H as [H1 H2]. apply Z.eqb_eq in H1. f_equal; auto.
Qed.

Lemma bytes_eqb_sym : forall a b, bytes_eqb a b = bytes_eqb b a.
Proof.
  intros a b. destruct (bytes_eqb a b) eqn:E.
  - apply bytes_eqb_eq in E. subst. symmetry. apply bytes_eqb_refl.
  - destruct (bytes_eqb b a) eqn:E2; [|reflexivity]. apply bytes_eqb_eq in E2. subst.
    rewrite bytes_eqb_refl in E. discriminate.
Qed.

Lemma step_eqb_refl : forall a, step_eqb a a = true.
Proof. destruct a; cbn; [apply bytes_eqb_refl | apply Nat.eqb_refl]. Qed.

Lemma step_eqb_eq : forall a b, step_eqb a b = true -> a = b.
Proof.
  destruct a, b; cbn; intros H; try discriminate.
  - apply bytes_eqb_eq in H. subst. reflexivity.
  - apply Nat.eqb_eq in H. subst. reflexivity.
Qed.

Lemma strip_prefix_self : forall p r, strip_prefix p (p ++ r) = Some r.
Proof. induction p; cbn; intros; [reflexivity|]. rewrite step_eqb_refl. apply IHp. Qed.

Lemma strip_prefix_refl : forall p, strip_prefix p p = Some [].
Proof. intros. rewrite <- (app_nil_r p) at 2. apply strip_prefix_self. Qed.

Lemma strip_prefix_Some : forall p q r, strip_prefix p q = Some r -> q = p ++ r.
Proof.
  induction p; cbn; intros q r H.
  - inversion H. reflexivity.
  - destruct q; [discriminate|]. destruct (step_eqb a s) eqn:E; [|discriminate].
    apply step_eqb_eq in E. subst. f_equal. apply IHp. exact H.
Qed.

Lemma strip_prefix_app : forall p q r,
  strip_prefix (p ++ q) r = match strip_prefix p r with Some r' => strip_prefix q r' | None => None end.
Proof.
  induction p; cbn; intros; [reflexivity|].
  destruct r; [reflexivity|]. destruct (step_eqb a s); [apply IHp | reflexivity].
Qed.

Lemma strictly_below_self : forall p, strictly_below p p = false.
Proof. intros. unfold strictly_below. rewrite <- (app_nil_r p) at 2. rewrite strip_prefix_self. reflexivity. Qed.

Lemma strictly_below_app : forall p a r, strictly_below p (p ++ a :: r) = true.
Proof. intros. unfold strictly_below. rewrite strip_prefix_self. reflexivity. Qed.

(* ---------------------------------------------------------------- containers *)
Lemma assoc_get_modify_same : forall k g m c,
  assoc_get k m = Some c -> assoc_get k (assoc_modify k g m) = Some (g c).
Proof.
  induction m as [|[k' c'] m IH]; cbn; intros c H; [discriminate|].
  destruct (bytes_eqb k k') eqn:E; cbn; rewrite E.
  - inversion H. reflexivity.
  - apply IH. exact H.
Qed.

Lemma assoc_get_modify_other : forall k k2 g m,
  bytes_eqb k2 k = false -> assoc_get k2 (assoc_modify k g m) = assoc_get k2 m.
Proof.
  induction m as [|[k' c'] m IH]; cbn; intros H; [reflexivity|].
  destruct (bytes_eqb k k') eqn:E; cbn.
  - apply bytes_eqb_eq in E. subst. rewrite H. reflexivity.
  - destruct (bytes_eqb k2 k'); [reflexivity|]. apply IH. exact H.
Qed.

Lemma assoc_get_set_same : forall k v m, assoc_get k (assoc_set k v m) = Some v.
Proof.
  induction m as [|[k' c'] m IH]; cbn.
  - rewrite bytes_eqb_refl. reflexivity.
  - destruct (bytes_eqb k k') eqn:E; cbn; rewrite E; [reflexivity | exact IH].
Qed.

Lemma assoc_get_set_other : forall k k2 v m,
  bytes_eqb k2 k = false -> assoc_get k2 (assoc_set k v m) = assoc_get k2 m.
Proof.
  induction m as [|[k' c'] m IH]; cbn; intros H.
  - rewrite H. reflexivity.
  - destruct (bytes_eqb k k') eqn:E; cbn.
    + apply bytes_eqb_eq in E. subst. rewrite H. reflexivity.
    + destruct (bytes_eqb k2 k'); [reflexivity|]. apply IH. exact H.
Qed.

Lemma nth_error_modify_same : forall g l i c,
  nth_error l i = Some c -> nth_error (list_modify i g l) i = Some (g c).
Proof.
  induction l; destruct i; cbn; intros c H; try discriminate.
  - inversion H. reflexivity.
  - apply IHl. exact H.
Qed.

Lemma nth_error_modify_other : forall g l i j,
  i <> j -> nth_error (list_modify i g l) j = nth_error l j.
Proof.
  induction l; destruct i; destruct j; cbn; intros H; try reflexivity; try congruence.
  apply IHl. congruence.
Qed.

Lemma length_list_modify : forall g l i, length (list_modify i g l) = length l.
Proof. induction l; destruct i; cbn; auto. Qed.

(* ---------------------------------------------------------------- alpha *)
(* what the accessors can see at path q of tree t *)
Definition alpha (t : json) (q : path) : node :=
  match node_at q t with Some c => kind_of c | None => NAbsent end.

Lemma node_at_app : forall p q t,
  node_at (p ++ q) t = match node_at p t with Some c => node_at q c | None => None end.
Proof.
  induction p as [|a p IH]; cbn; intros; [reflexivity|].
  destruct a; destruct t; try reflexivity.
  - destruct (assoc_get k m); [apply IH | reflexivity].
  - destruct (nth_error l i); [apply IH | reflexivity].
Qed.

Lemma alpha_app : forall p q t c, node_at p t = Some c -> alpha t (p ++ q) = alpha c q.
Proof. intros. unfold alpha. rewrite node_at_app, H. reflexivity. Qed.

Lemma alpha_nil : forall t, alpha t [] = kind_of t.
Proof. reflexivity. Qed.

Lemma alpha_absent_app : forall p q t, alpha t p = NAbsent -> alpha t (p ++ q) = NAbsent.
Proof.
  intros p q t H. unfold alpha in *. rewrite node_at_app.
  destruct (node_at p t) eqn:E; [|reflexivity]. destruct j; discriminate.
Qed.

Lemma kind_of_not_absent : forall c, kind_of c <> NAbsent.
Proof. destruct c; discriminate. Qed.

Lemma alpha_present : forall t p, alpha t p <> NAbsent -> exists c, node_at p t = Some c /\ kind_of c = alpha t p.
Proof.
  intros t p H. unfold alpha in *. destruct (node_at p t) eqn:E; [|congruence]. eauto.
Qed.

(* writing f through the pointer (p) changes exactly what is at and below p *)
Lemma alpha_modify : forall p f t c q,
  node_at p t = Some c ->
  alpha (modify_at p f t) q =
    match strip_prefix p q with Some r => alpha (f c) r | None => alpha t q end.
Proof.
  induction p as [|a p IH]; intros f t c q H.
  - cbn in H. inversion H; subst. reflexivity.
  - destruct a as [k|i].
    + cbn in H. destruct t; try discriminate. destruct (assoc_get k m) eqn:Ek; [|discriminate].
      cbn [modify_at]. destruct q as [|b q].
      * reflexivity.
      * cbn [strip_prefix]. destruct b as [k2|i2].
        -- cbn [step_eqb]. destruct (bytes_eqb k k2) eqn:E.
           ++ apply bytes_eqb_eq in E. subst k2. unfold alpha. cbn [node_at].
              rewrite (assoc_get_modify_same _ _ _ _ Ek), Ek.
              specialize (IH f j c q H). unfold alpha in IH. exact IH.
           ++ unfold alpha. cbn [node_at]. rewrite assoc_get_modify_other; [reflexivity|].
              rewrite bytes_eqb_sym. exact E.
        -- reflexivity.
    + cbn in H. destruct t; try discriminate. destruct (nth_error l i) eqn:Ei; [|discriminate].
      cbn [modify_at]. destruct q as [|b q].
      * unfold alpha. cbn. rewrite length_list_modify. reflexivity.
      * cbn [strip_prefix]. destruct b as [k2|i2].
        -- reflexivity.
        -- cbn [step_eqb]. destruct (Nat.eqb i i2) eqn:E.
           ++ apply Nat.eqb_eq in E. subst i2. unfold alpha. cbn [node_at].
              rewrite (nth_error_modify_same _ _ _ _ Ei), Ei.
              specialize (IH f j c q H). unfold alpha in IH. exact IH.
           ++ apply Nat.eqb_neq in E. unfold alpha. cbn [node_at].
              rewrite nth_error_modify_other by exact E. reflexivity.
Qed.

Lemma node_at_modify_self : forall p f t c,
  node_at p t = Some c -> node_at p (modify_at p f t) = Some (f c).
Proof.
  induction p as [|a p IH]; intros f t c H.
  - cbn in *. inversion H. reflexivity.
  - destruct a as [k|i]; cbn in H; destruct t; try discriminate.
    + destruct (assoc_get k m) eqn:Ek; [|discriminate]. cbn.
      rewrite (assoc_get_modify_same _ _ _ _ Ek). apply IH. exact H.
    + destruct (nth_error l i) eqn:Ei; [|discriminate]. cbn.
      rewrite (nth_error_modify_same _ _ _ _ Ei). apply IH. exact H.
Qed.

(* one level of alpha for each node shape *)
Lemma alpha_leaf : forall c q, (forall m, c <> JObj m) -> (forall l, c <> JArr l) ->
  alpha c q = match q with [] => kind_of c | _ => NAbsent end.
Proof.
  intros c q Ho Ha. destruct q as [|a q]; [reflexivity|].
  unfold alpha. destruct a; destruct c; cbn; try reflexivity.
  - exfalso. eapply Ho. reflexivity.
  - exfalso. eapply Ha. reflexivity.
Qed.

Lemma alpha_obj_key : forall m k q,
  alpha (JObj m) (SK k :: q) = match assoc_get k m with Some c => alpha c q | None => NAbsent end.
Proof. intros. unfold alpha. cbn. destruct (assoc_get k m); reflexivity. Qed.

Lemma alpha_obj_idx : forall m i q, alpha (JObj m) (SI i :: q) = NAbsent.
Proof. reflexivity. Qed.

Lemma alpha_arr_idx : forall l i q,
  alpha (JArr l) (SI i :: q) = match nth_error l i with Some c => alpha c q | None => NAbsent end.
Proof. intros. unfold alpha. cbn. destruct (nth_error l i); reflexivity. Qed.

Lemma alpha_arr_key : forall l k q, alpha (JArr l) (SK k :: q) = NAbsent.
Proof. reflexivity. Qed.
