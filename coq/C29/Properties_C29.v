(* C29 — C API values keep their value and type through conversions.
   Vocabulary: Types.v (kinds, tags, occaType, paths, case language), Model.v (the C++ as it is
   after fixes/C29-1.patch and fixes/C29-2.patch; cfg_pinned = before them), Spec.v (what must
   be observed).  Floats are bit patterns; F : fops is any implementation of the float
   conversions (no positive theorem below needs a hypothesis about it, except
   float_via_double_roundtrip).  Proofs: Proofs*.v; this file only states. *)
From Coq Require Import List ZArith Bool.
From OV.C29 Require Import Types Model Spec ProofsSurvive ProofsSurvive2 ProofsTop.
Import ListNotations.
Local Open Scope Z_scope.

(* ------------------------------------------------------------------------------------------
   1. scalar_roundtrip: for every scalar kind k (bool, int8 ... uint64, float, double) and every
      value v of its C type, the occaType x made by the constructor has tag k, sizeof(k) bytes,
      needsFree = false and value v, and each conversion path gives back exactly x / v:
        newOccaType(primitive(x)), newOccaType(primitive(x), type k), newOccaType(primitive(x, type k)),
        kernelArg(x) (a primitive of kind k, value v, size sizeof(k), not a pointer), and what a
        Serial kernel parameter of that C type receives. *)
Theorem scalar_roundtrip : forall (F : fops) (k : kind) (v : Z),
  in_range k v = true ->
  let x := lit_otype (LScalar k v) in
  x = mkO true (TK k) (size_of k) false (PInt v) /\
  match prim_of cfg_fixed x with Ok p => newOccaType_prim F cfg_fixed p | Stop o => Stop o end = Ok x /\
  match prim_of cfg_fixed x with Ok p => newOccaType_prim_typed F cfg_fixed p (TK k) | Stop o => Stop o end = Ok x /\
  match prim_of_typed F cfg_fixed x (TK k) with Ok p => newOccaType_prim F cfg_fixed p | Stop o => Stop o end = Ok x /\
  (exists a, kernelArg cfg_fixed x = Ok a /\ ka_pt a = PTK k /\ ka_val a = PInt v /\
             ka_size a = size_of k /\ ka_isPointer a = false) /\
  kernel_reads cfg_fixed (LScalar k v) = OType x.
Proof. exact scalar_roundtrip_l. Qed.
Print Assumptions scalar_roundtrip.

(* the "ambiguous" constructors occaChar ... occaULong (LP64) keep the value and pick the tag of
   the same width and signedness *)
Theorem ambiguous_constructors : forall (c : ctype) (v : Z),
  in_range (ct_kind c) v = true -> occa_amb c v = mkO true (TK (ct_kind c)) (size_of (ct_kind c)) false (PInt v).
Proof. exact ProofsOps3.occa_amb_id. Qed.
Print Assumptions ambiguous_constructors.

(* an integer (or bool) read back at another integral kind that can hold it is unchanged *)
Theorem integer_cross_kind : forall (F : fops) (k0 k : kind) (v : Z),
  is_float k0 = false -> is_float k = false -> in_range k0 v = true -> in_range k v = true ->
  newOccaType_prim_typed F cfg_fixed (mkP (PTK k0) v) (TK k) = Ok (mkO true (TK k) (size_of k) false (PInt v)).
Proof. exact integer_cross_kind_l. Qed.
Print Assumptions integer_cross_kind.

(* float -> double -> float: the only theorem with a hypothesis on the float interface *)
Theorem float_via_double_roundtrip : forall (F : fops) (v : Z),
  f32_of_f64 F (f64_of_f32 F v) = v ->
  match newOccaType_prim_typed F cfg_fixed (mkP (PTK KF32) v) (TK KF64) with
  | Ok d => newOccaType_prim_typed F cfg_fixed (mkP (PTK KF64) (pint d)) (TK KF32)
  | Stop o => Stop o
  end = Ok (mkO true (TK KF32) 4 false (PInt v)).
Proof. exact float_via_double_l. Qed.
Print Assumptions float_via_double_roundtrip.

(* ------------------------------------------------------------------------------------------
   2. Through JSON.  From ANY state (any heap, any other variables): create a json in variable n,
      set a key to the scalar, get the key into variable m, read the number at the scalar's own
      kind: the observation is the constructor's occaType.  Same through array push / get. *)
Theorem scalar_roundtrip_object : forall (F : fops) (st : mstate) (n m : nat) (b : Z) (key' : bytes) (k : kind) (v : Z),
  key_ok (b :: key') = true -> in_range k v = true ->
  let st1 := fst (occaCreateJson st n) in
  let set := occaJsonObjectSet cfg_fixed st1 n (b :: key') (VLit (LScalar k v)) in
  let get := occaJsonObjectGet (fst set) n (b :: key') m LUndef in
  snd set = OUnit /\
  snd get = OType (mkO true TJson 8 false (PRef (m_next st) [SK (b :: key')])) /\
  snd (occaJsonGetNumber F cfg_fixed (fst get) m k) = OType (lit_otype (LScalar k v)).
Proof. exact scalar_roundtrip_object_l. Qed.
Print Assumptions scalar_roundtrip_object.

Theorem bool_roundtrip_object : forall (st : mstate) (n m : nat) (b : Z) (key' : bytes) (v : Z),
  key_ok (b :: key') = true -> in_range KBool v = true ->
  let st1 := fst (occaCreateJson st n) in
  let set := occaJsonObjectSet cfg_fixed st1 n (b :: key') (VLit (LScalar KBool v)) in
  let get := occaJsonObjectGet (fst set) n (b :: key') m LUndef in
  snd (occaJsonGetBoolean (fst get) m) = OBool (v =? 1) /\
  snd (occaJsonIs (fst get) m) = OFlags true true false false false.
Proof. exact bool_roundtrip_object_l. Qed.
Print Assumptions bool_roundtrip_object.

Theorem scalar_roundtrip_array : forall (F : fops) (st : mstate) (n m : nat) (k : kind) (v : Z),
  in_range k v = true ->
  let st1 := fst (occaCreateJson st n) in
  let push := occaJsonArrayPush cfg_fixed st1 n (VLit (LScalar k v)) in
  let get := occaJsonArrayGet (fst push) n 0 m in
  snd push = OUnit /\
  snd (occaJsonGetNumber F cfg_fixed (fst get) m k) = OType (lit_otype (LScalar k v)).
Proof. exact scalar_roundtrip_array_l. Qed.
Print Assumptions scalar_roundtrip_array.

(* ------------------------------------------------------------------------------------------
   3. json_roundtrip: for EVERY history of operations of the case language (constructors,
      conversions, kernel runs, create/free, object set/get/has, array push/insert/get/pop/
      clear/size, casts, accessors, over any number of C variables, with scalars, strings of
      arbitrary bytes, null, and JSON values copied through handles), every observation of the
      model is the one the specification's path-indexed last-write-wins store requires, for as
      long as the history stays inside the specification's preconditions (Spec.sstep = Some). *)
(* Guard: `op_guard` excludes only scope operations that carry an unsigned scalar (known finding
   scope_unsigned, see 2b); every other operation is unrestricted.  Full statement: the same
   without the guard — false for the library as it is (scope_unsigned_refuted). *)
Theorem json_roundtrip : forall (F : fops) (ops : list op),
  forallb op_guard ops = true ->
  Forall2 agrees (run F cfg_fixed ops) (s_run ops).
Proof. exact json_roundtrip_l. Qed.
Print Assumptions json_roundtrip.

(* ------------------------------------------------------------------------------------------
   2b. Scopes: a scalar added with occaScopeAdd / occaScopeAddConst is declared in the inlined
       (JIT) kernel's signature with the C type of its kind and the kernel reads the value that
       was added — for bool, the signed integer kinds, float and double.
       Full statement (scope_roundtrip for EVERY kind): false for the library as it is: the occa
       dtype system has no unsigned builtins (dtype::uint8 is dtype::char_ ...), so uint8/16/32/64
       scope values are declared `char/short/int/long` and values with the top bit set arrive
       negative (known finding scope_unsigned; witness below). *)
Theorem scope_roundtrip_partial : forall (isConst : bool) (k : kind) (v : Z),
  in_range k v = true -> is_unsigned k = false ->
  scope_decl cfg_fixed isConst (LScalar k v) = ODecl isConst (s_cname k) false /\
  scope_reads cfg_fixed (LScalar k v) = OType (lit_otype (LScalar k v)).
Proof. exact scope_roundtrip_l. Qed.
Print Assumptions scope_roundtrip_partial.

Theorem scope_unsigned_refuted :
  exists k v, in_range k v = true /\
    scope_decl cfg_fixed true (LScalar k v) <> ODecl true (s_cname k) false /\
    scope_reads cfg_fixed (LScalar k v) <> OType (lit_otype (LScalar k v)).
Proof. exact scope_unsigned_refuted_l. Qed.
Print Assumptions scope_unsigned_refuted.

(* what "last write wins" means in the specification's store *)
Theorem spec_store_read_back : forall (d : doc) (p q : path) (g : doc), graft d p g (p ++ q) = g q.
Proof. exact spec_store_read_back_l. Qed.
Theorem spec_store_frame : forall (d : doc) (p q : path) (g : doc),
  strip_prefix p q = None -> graft d p g q = d q.
Proof. exact spec_store_frame_l. Qed.
Theorem spec_object_set_read_back : forall (old vd : doc) (key : bytes) (q : path),
  g_oset old key vd (SK key :: q) = vd q.
Proof. exact spec_object_set_read_back_l. Qed.
Theorem spec_object_set_frame : forall (old vd : doc) (key k2 : bytes) (q : path),
  bytes_eqb k2 key = false -> g_oset old key vd (SK k2 :: q) = old (SK k2 :: q).
Proof. exact spec_object_set_frame_l. Qed.
Theorem spec_array_insert_shift : forall (old vd : doc) (len i j : nat) (q : path),
  g_ains old len i vd (SI j :: q) =
    if Nat.ltb j i then old (SI j :: q) else if Nat.eqb j i then vd q else old (SI (j - 1) :: q).
Proof. exact spec_array_insert_shift_l. Qed.
Print Assumptions spec_store_read_back.
Print Assumptions spec_object_set_read_back.

(* ------------------------------------------------------------------------------------------
   4. Handles.
      handles_valid_until_free_partial: after ANY history (and with either variant of the
      repaired branches), every C variable that is not marked undefined, holds a json handle and
      has not been made unusable by the model's rule designates a live heap object and an
      existing node: occa::c::json(value) dereferences valid memory of the model.
      created_handle_valid_until_free: the handle returned by occaCreateJson, after any history,
      still opens (same heap object, live) after every further history that neither frees that
      heap object nor assigns to the C variable (`quiet`).
      Full statement (not proved): "every handle stays valid in the C++ sense until occaFree".
      Missing: (a) for handles to nodes *inside* a document the model's rule is conservative —
      every structural change of a container (push, insert, pop, clear, growth by get, re-typing
      cast, assignment to a key) makes the handles strictly below it unusable, while std::vector
      without reallocation / std::map node reuse may keep some of them valid; (b) that "usable
      in the model" implies "valid memory in the process" is observed by ASan on the generated
      histories, not proved. *)
Theorem handles_valid_until_free_partial : forall (F : fops) (cf : cfg) (ops : list op) (n : nat),
  let st := fst (run_from F cf m_init ops) in
  o_magic (sl_val (m_tab st n)) = true ->
  o_tag (sl_val (m_tab st n)) = TJson ->
  sl_ok (m_tab st n) = true ->
  exists r p c, open_handle st n = HGo r p c.
Proof. exact handles_usable_l. Qed.
Print Assumptions handles_valid_until_free_partial.

Theorem created_handle_valid_until_free : forall (F : fops) (cf : cfg) (before after : list op) (n : nat),
  let st := fst (run_from F cf m_init before) in
  let st1 := fst (occaCreateJson st n) in
  quiet F cf st1 after n (m_next st) ->
  exists t, open_handle (fst (run_from F cf st1 after)) n = HGo (m_next st) [] t.
Proof. exact created_survives_l. Qed.
Print Assumptions created_handle_valid_until_free.

(* ------------------------------------------------------------------------------------------
   5. The pinned source (before the two patches) violates the property for bool. *)
Theorem bool_through_primitive_refuted : forall F : fops,
  exists v, in_range KBool v = true /\
    prim_of cfg_pinned (lit_otype (LScalar KBool v)) = Stop OErr /\
    newOccaType_prim F cfg_pinned (mkP (PTK KBool) v) = Ok occaUndefined /\
    newOccaType_prim_typed F cfg_pinned (mkP (PTK KBool) v) (TK KBool) = Ok occaUndefined.
Proof. exact bool_through_primitive_refuted_l. Qed.
Print Assumptions bool_through_primitive_refuted.

Theorem bool_kernel_argument_refuted :
  exists v, in_range KBool v = true /\ kernelArg cfg_pinned (lit_otype (LScalar KBool v)) = Stop OErr.
Proof. exact bool_kernel_argument_refuted_l. Qed.
Print Assumptions bool_kernel_argument_refuted.

(* ------------------------------------------------------------------------------------------
   Non-vacuity *)
Definition no_floats : fops := mkF (fun x => x) (fun x => x) (fun x => x) (fun x => x) (fun _ => None) (fun _ => None).

(* a history with nested JSON, a copy through a handle, an insert that shifts, and a free:
   the specification constrains every observation (no `Any`) and the model meets it *)
Definition demo : list op :=
  [OpNew 0; OpOSet 0 [107] (VLit (LScalar KI8 (-128))); OpNew 1; OpAPush 1 (VSlot 0);
   OpAPush 1 (VLit (LStr [255; 1])); OpAIns 1 0 (VLit (LScalar KU64 18446744073709551615));
   OpAGet 1 1 4; OpOGet 4 [107] 5 LUndef; OpGetN 5 KI8; OpGetN 5 KI64; OpAGet 1 0 6; OpGetN 6 KU64;
   OpAGet 1 2 7; OpGetS 7; OpFree 0; OpTy 4; OpIsUndef 0; OpFree 1].

Example demo_fully_constrained : forallb (fun r => match r with Any => false | Must _ => true end) (s_run demo) = true.
Proof. vm_compute. reflexivity. Qed.

Example demo_observations :
  nth 8 (run no_floats cfg_fixed demo) OErr = OType (mkO true (TK KI8) 1 false (PInt (-128))) /\
  nth 9 (run no_floats cfg_fixed demo) OErr = OType (mkO true (TK KI64) 8 false (PInt (-128))) /\
  nth 11 (run no_floats cfg_fixed demo) OErr = OType (mkO true (TK KU64) 8 false (PInt 18446744073709551615)) /\
  nth 13 (run no_floats cfg_fixed demo) OErr = OBytes [255; 1].
Proof. vm_compute. auto. Qed.

(* a handle below a restructured array is flagged, the handle of the array itself is not *)
Example conservative_flag :
  run no_floats cfg_fixed [OpNew 0; OpAPush 0 (VLit LNull); OpAPush 0 (VLit (LStr [97])); OpAGet 0 1 4;
                           OpAPush 0 (VLit LNull); OpGetS 4; OpASize 0] =
  [OType (mkO true TJson 8 true (PRef 0%nat [])); OUnit; OUnit;
   OType (mkO true TJson 8 false (PRef 0%nat [SI 1%nat])); OUnit; OInvalid; OInt 3].
Proof. vm_compute. reflexivity. Qed.

(* the hypothesis of created_handle_valid_until_free is satisfiable by a history that works on
   the document through other variables *)
Example quiet_example :
  quiet no_floats cfg_fixed (fst (occaCreateJson m_init 0))
        [OpOSet 0 [107] (VLit LNull); OpOGet 0 [107] 4 LUndef; OpNew 1; OpFree 1; OpCast 0 CArr] 0 0.
Proof. vm_compute. repeat split. Qed.
