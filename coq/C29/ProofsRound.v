(* C29 — proofs, part E: the round trips through a JSON object and a JSON array, computed on
   the model from an arbitrary state (any heap, any contents of the other C variables). *)
From Coq Require Import List ZArith Bool Lia Arith.
From OV.C29 Require Import Types Model Spec Proofs ProofsTree ProofsRefine ProofsOps.
Import ListNotations.
Local Open Scope Z_scope.

(* the JSON value a scalar literal is stored as *)
Lemma infer_scalar : forall st k v, in_range k v = true ->
  inferJson cfg_fixed st (mkSlot (lit_otype (LScalar k v)) true) = Ok (JNum k v).
Proof.
  intros st k v H. unfold inferJson. cbn [sl_val lit_otype mk_scalar o_tag].
  destruct k; try reflexivity. cbn. apply in_range_spec in H. cbn in H.
  destruct (Z.eqb_spec v 0); [subst; reflexivity | do 2 f_equal; lia].
Qed.

Lemma strictly_below_nil_r : forall p, strictly_below p [] = false.
Proof. destruct p; reflexivity. Qed.

Section FreshObject.
  Variables (F : fops) (st : mstate) (n m : nat) (key : bytes) (k : kind) (v : Z).
  Hypothesis Hkey : key_ok key = true.
  Hypothesis Hne : key <> [].
  Hypothesis Hv : in_range k v = true.

  Let r := m_next st.
  Let st1 := fst (occaCreateJson st n).
  Let set := occaJsonObjectSet cfg_fixed st1 n key (VLit (LScalar k v)).
  Let st2 := fst set.
  Let get := occaJsonObjectGet st2 n key m LUndef.
  Let st3 := fst get.

  Lemma fresh_open1 : open_handle st1 n = HGo r [] JNone.
  Proof.
    subst st1 r. unfold occaCreateJson, open_handle. cbv zeta. cbn [fst with_slot set_tab m_tab set_slot].
    rewrite Nat.eqb_refl. cbn. rewrite Nat.eqb_refl. reflexivity.
  Qed.

  Lemma fresh_set_obs : snd set = OUnit.
  Proof.
    subst set. unfold occaJsonObjectSet. rewrite Hkey. cbn [negb].
    assert (Hmag : o_magic (sl_val (m_tab st1 n)) = true).
    { subst st1. unfold occaCreateJson. cbv zeta. cbn. rewrite Nat.eqb_refl. reflexivity. }
    rewrite Hmag. cbn [negb open_value]. rewrite fresh_open1. cbv zeta. cbn [auto_cast].
    rewrite (infer_scalar _ _ _ Hv). destruct key; [contradiction Hne; reflexivity | reflexivity].
  Qed.

  Lemma fresh_state2 :
    m_roots st2 r = Some (JObj [(key, JNum k v)]) /\ m_tab st2 n = m_tab st1 n.
  Proof.
    subst st2 set. unfold occaJsonObjectSet. rewrite Hkey. cbn [negb].
    assert (Hmag : o_magic (sl_val (m_tab st1 n)) = true).
    { subst st1. unfold occaCreateJson. cbv zeta. cbn. rewrite Nat.eqb_refl. reflexivity. }
    rewrite Hmag. cbn [negb open_value]. rewrite fresh_open1. cbv zeta. cbn [auto_cast].
    rewrite (infer_scalar _ _ _ Hv).
    assert (Hroot : m_roots st1 r = Some JNone).
    { subst st1 r. unfold occaCreateJson. cbv zeta. cbn. rewrite Nat.eqb_refl. reflexivity. }
    destruct key as [|b key']; [contradiction Hne; reflexivity|]. cbn [fst].
    split.
    - cbn [kill set_tab m_roots]. unfold put_node at 1.
      rewrite (put_node_root_same _ _ _ _ _ Hroot). cbn. rewrite Nat.eqb_refl. reflexivity.
    - cbn [kill set_tab m_tab]. rewrite !put_node_tab. unfold kill_below. cbv zeta.
      assert (Hval : o_val (sl_val (m_tab st1 n)) = PRef r []).
      { subst st1 r. unfold occaCreateJson. cbv zeta. cbn. rewrite Nat.eqb_refl. reflexivity. }
      rewrite Hval. rewrite strictly_below_nil_r, andb_false_r. reflexivity.
  Qed.

  Lemma fresh_open2 : open_handle st2 n = HGo r [] (JObj [(key, JNum k v)]).
  Proof.
    destruct fresh_state2 as [Hr Ht]. unfold open_handle. rewrite Ht, Hr.
    subst st1 r. unfold occaCreateJson. cbv zeta. cbn. rewrite Nat.eqb_refl. cbn. reflexivity.
  Qed.

  Lemma fresh_get_obs : snd get = OType (mkO true TJson 8 false (PRef r [SK key])).
  Proof.
    subst get. unfold occaJsonObjectGet. rewrite Hkey. cbn [negb]. rewrite fresh_open2. cbv zeta.
    cbn [auto_cast]. destruct key as [|b key']; [contradiction Hne; reflexivity|].
    cbn [assoc_get]. rewrite bytes_eqb_refl. reflexivity.
  Qed.

  Lemma fresh_open3 : open_handle st3 m = HGo r [SK key] (JNum k v).
  Proof.
    subst st3 get. unfold occaJsonObjectGet. rewrite Hkey. cbn [negb]. rewrite fresh_open2. cbv zeta.
    cbn [auto_cast]. destruct key as [|b key'] eqn:Ek; [contradiction Hne; reflexivity|].
    cbn [assoc_get]. rewrite bytes_eqb_refl. cbn [handle_to fst].
    unfold open_handle. cbn [with_slot set_tab m_tab set_slot]. rewrite Nat.eqb_refl.
    cbn [sl_val sl_ok o_magic o_tag o_val negb]. change (tag_eqb TJson TJson) with true. cbn [negb].
    cbn [m_roots]. destruct fresh_state2 as [Hr _]. rewrite <- Ek in *.
    rewrite (put_node_root_same _ _ _ _ _ Hr). cbn [modify_at node_at].
    rewrite Ek. cbn [assoc_get]. rewrite bytes_eqb_refl. reflexivity.
  Qed.

  (* occaJsonGetNumber(occaJsonObjectGet(j, key), type-of-k) gives back the constructor's occaType *)
  Theorem object_roundtrip_number :
    snd (occaJsonGetNumber F cfg_fixed st3 m k) = OType (lit_otype (LScalar k v)).
  Proof.
    unfold occaJsonGetNumber. rewrite fresh_open3.
    assert (Hc : s_conv k k v = Some v) by (unfold s_conv; rewrite kind_eqb_refl; reflexivity).
    rewrite (newOccaType_prim_typed_conv F _ _ _ _ Hv Hc). reflexivity.
  Qed.

  Theorem object_roundtrip_bool : k = KBool ->
    snd (occaJsonGetBoolean st3 m) = OBool (v =? 1) /\
    snd (occaJsonIs st3 m) = OFlags true true false false false.
  Proof.
    intros ->. unfold occaJsonGetBoolean, occaJsonIs. rewrite fresh_open3. cbn [snd]. split; [|reflexivity].
    apply in_range_spec in Hv. cbn in Hv. f_equal.
    destruct (Z.eqb_spec v 0); destruct (Z.eqb_spec v 1); try reflexivity; lia.
  Qed.
End FreshObject.

Section FreshArray.
  Variables (F : fops) (st : mstate) (n m : nat) (k : kind) (v : Z).
  Hypothesis Hv : in_range k v = true.

  Let r := m_next st.
  Let st1 := fst (occaCreateJson st n).
  Let push := occaJsonArrayPush cfg_fixed st1 n (VLit (LScalar k v)).
  Let st2 := fst push.
  Let get := occaJsonArrayGet st2 n 0 m.
  Let st3 := fst get.

  Lemma afresh_open1 : open_handle st1 n = HGo r [] JNone.
  Proof.
    subst st1 r. unfold occaCreateJson, open_handle. cbv zeta. cbn [fst with_slot set_tab m_tab set_slot].
    rewrite Nat.eqb_refl. cbn. rewrite Nat.eqb_refl. reflexivity.
  Qed.

  Lemma afresh_state2 :
    snd push = OUnit /\ m_roots st2 r = Some (JArr [JNum k v]) /\ m_tab st2 n = m_tab st1 n.
  Proof.
    subst st2 push. unfold occaJsonArrayPush.
    assert (Hmag : o_magic (sl_val (m_tab st1 n)) = true).
    { subst st1. unfold occaCreateJson. cbv zeta. cbn. rewrite Nat.eqb_refl. reflexivity. }
    rewrite Hmag. cbn [negb open_value]. rewrite afresh_open1. cbv zeta. cbn [auto_cast].
    rewrite (infer_scalar _ _ _ Hv).
    assert (Hroot : m_roots st1 r = Some JNone).
    { subst st1 r. unfold occaCreateJson. cbv zeta. cbn. rewrite Nat.eqb_refl. reflexivity. }
    cbn [fst snd app]. split; [reflexivity|]. split.
    - cbn [kill set_tab m_roots]. unfold put_node at 1.
      rewrite (put_node_root_same _ _ _ _ _ Hroot). cbn. rewrite Nat.eqb_refl. reflexivity.
    - cbn [kill set_tab m_tab]. rewrite !put_node_tab. unfold kill_below. cbv zeta.
      assert (Hval : o_val (sl_val (m_tab st1 n)) = PRef r []).
      { subst st1 r. unfold occaCreateJson. cbv zeta. cbn. rewrite Nat.eqb_refl. reflexivity. }
      rewrite Hval. rewrite strictly_below_nil_r, andb_false_r. reflexivity.
  Qed.

  Lemma afresh_open2 : open_handle st2 n = HGo r [] (JArr [JNum k v]).
  Proof.
    destruct afresh_state2 as [_ [Hr Ht]]. unfold open_handle. rewrite Ht, Hr.
    subst st1 r. unfold occaCreateJson. cbv zeta. cbn. rewrite Nat.eqb_refl. cbn. reflexivity.
  Qed.

  Lemma afresh_open3 : open_handle st3 m = HGo r [SI 0%nat] (JNum k v).
  Proof.
    subst st3 get. unfold occaJsonArrayGet. rewrite afresh_open2. cbv zeta.
    cbn [auto_cast Z.ltb Z.compare Z.to_nat nth_error handle_to fst].
    unfold open_handle. cbn [with_slot set_tab m_tab set_slot]. rewrite Nat.eqb_refl.
    cbn [sl_val sl_ok o_magic o_tag o_val negb]. change (tag_eqb TJson TJson) with true. cbn [negb].
    cbn [m_roots]. destruct afresh_state2 as [_ [Hr _]].
    rewrite (put_node_root_same _ _ _ _ _ Hr). reflexivity.
  Qed.

  (* occaJsonGetNumber(occaJsonArrayGet(a, 0), type-of-k) after a push gives back the occaType *)
  Theorem array_roundtrip_number :
    snd (occaJsonGetNumber F cfg_fixed st3 m k) = OType (lit_otype (LScalar k v)).
  Proof.
    unfold occaJsonGetNumber. rewrite afresh_open3.
    assert (Hc : s_conv k k v = Some v) by (unfold s_conv; rewrite kind_eqb_refl; reflexivity).
    rewrite (newOccaType_prim_typed_conv F _ _ _ _ Hv Hc). reflexivity.
  Qed.
End FreshArray.
