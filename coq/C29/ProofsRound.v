(* C29 — proofs, part E: the round trips through a JSON object and a JSON array, computed on
   the model from an arbitrary state (any heap, any contents of the other C variables). *)
From Coq Require Import List ZArith Bool Lia Arith.
From OV.C29 Require Import Types Model Spec Proofs ProofsTree ProofsRefine ProofsOps.
Import ListNotations.
Local Open Scope Z_scope.

(* the JSON value a scalar literal is stored as *)
Lemma infer_scalar : forall st k v, in_range k v = true ->
  inferJson cfg_fixed st (mkSlot (lit_otype (LScalar k v)) true) = Ok (JNum k v).
Proof.
  intros st k v H. unfold inferJson. cbn [sl_val lit_otype mk_scalar o_tag].
  destruct k; try reflexivity. cbn. apply in_range_spec in H. cbn in H.
  destruct (Z.eqb_spec v 0); [subst; reflexivity | do 2 f_equal; lia].
Qed.

Lemma strictly_below_nil_r : forall p, strictly_below p [] = false.
Proof. destruct p; reflexivity. Qed.

Definition root_handle (r : nat) : otype := mkO true TJson 8 true (PRef r []).

Lemma create_tab : forall st n,
  m_tab (fst (occaCreateJson st n)) n = mkSlot (root_handle (m_next st)) true.
Proof.
  intros. unfold occaCreateJson. cbv zeta. cbn [fst with_slot set_tab m_tab]. unfold set_slot.
  rewrite Nat.eqb_refl. reflexivity.
Qed.

Lemma create_root : forall st n, m_roots (fst (occaCreateJson st n)) (m_next st) = Some JNone.
Proof.
  intros. unfold occaCreateJson. cbv zeta. cbn [fst with_slot set_tab m_roots]. rewrite Nat.eqb_refl. reflexivity.
Qed.

(* opening a variable that holds the handle of heap object r *)
Lemma open_root_handle : forall st n r t,
  m_tab st n = mkSlot (root_handle r) true -> m_roots st r = Some t -> open_handle st n = HGo r [] t.
Proof. intros st n r t Ht Hr. unfold open_handle. rewrite Ht. cbn. rewrite Hr. reflexivity. Qed.

Lemma kill_below_root_handle : forall r' p T n r,
  T n = mkSlot (root_handle r) true -> kill_below r' p T n = T n.
Proof.
  intros. unfold kill_below. cbv zeta. rewrite H. cbn [sl_val o_val root_handle].
  rewrite strictly_below_nil_r, andb_false_r. reflexivity.
Qed.

Section FreshObject.
  Variables (F : fops) (st : mstate) (n m : nat) (b : Z) (key' : bytes) (k : kind) (v : Z).
  Let key := b :: key'.
  Hypothesis Hkey : key_ok key = true.
  Hypothesis Hv : in_range k v = true.

  Let r := m_next st.
  Let st1 := fst (occaCreateJson st n).
  Let set := occaJsonObjectSet cfg_fixed st1 n key (VLit (LScalar k v)).
  Let st2 := fst set.
  Let get := occaJsonObjectGet st2 n key m LUndef.
  Let st3 := fst get.

  Lemma fresh_open1 : open_handle st1 n = HGo r [] JNone.
  Proof. apply open_root_handle; [apply create_tab | apply create_root]. Qed.

  Lemma fresh_set :
    set = (kill (put_node (put_node st1 r [] (JObj [])) r [] (JObj [(key, JNum k v)])) r [SK key], OUnit).
  Proof.
    subst set. unfold occaJsonObjectSet. rewrite Hkey. cbn [negb].
    assert (Ht1 : m_tab st1 n = mkSlot (root_handle r) true) by apply create_tab.
    rewrite Ht1. cbn [sl_val root_handle o_magic negb open_value].
    rewrite fresh_open1. cbv zeta. cbn [auto_cast].
    rewrite (infer_scalar _ _ _ Hv). subst key. reflexivity.
  Qed.

  Lemma fresh_state2 :
    m_roots st2 r = Some (JObj [(key, JNum k v)]) /\ m_tab st2 n = mkSlot (root_handle r) true.
  Proof.
    subst st2. rewrite fresh_set. cbn [fst]. split.
    - cbn [kill set_tab m_roots].
      assert (H1 : m_roots (put_node st1 r [] (JObj [])) r = Some (JObj [])).
      { rewrite (put_node_root_same _ _ _ _ _ (create_root st n)). reflexivity. }
      rewrite (put_node_root_same _ _ _ _ _ H1). reflexivity.
    - cbn [kill set_tab m_tab]. rewrite !put_node_tab.
      rewrite (kill_below_root_handle _ _ _ _ r (create_tab st n)). apply create_tab.
  Qed.

  Lemma fresh_open2 : open_handle st2 n = HGo r [] (JObj [(key, JNum k v)]).
  Proof. destruct fresh_state2 as [Hr Ht]. apply open_root_handle; assumption. Qed.

  Lemma fresh_get :
    get = (with_slot (put_node st2 r [] (JObj [(key, JNum k v)])) m
             (mkSlot (mkO true TJson 8 false (PRef r [SK key])) true),
           OType (mkO true TJson 8 false (PRef r [SK key]))).
  Proof.
    subst get. unfold occaJsonObjectGet. rewrite Hkey. cbn [negb]. rewrite fresh_open2. cbv zeta.
    cbn [auto_cast]. subst key. cbn [assoc_get]. rewrite bytes_eqb_refl. reflexivity.
  Qed.

  Lemma fresh_open3 : open_handle st3 m = HGo r [SK key] (JNum k v).
  Proof.
    subst st3. rewrite fresh_get. cbn [fst]. unfold open_handle.
    cbn [with_slot set_tab m_tab]. unfold set_slot. rewrite Nat.eqb_refl.
    cbn [sl_val sl_ok o_magic o_tag o_val negb]. change (tag_eqb TJson TJson) with true. cbn [negb].
    cbn [with_slot set_tab m_roots]. destruct fresh_state2 as [Hr _].
    rewrite (put_node_root_same _ _ _ _ _ Hr). cbn [modify_at node_at]. subst key.
    cbn [assoc_get]. rewrite bytes_eqb_refl. reflexivity.
  Qed.

  (* occaJsonGetNumber(occaJsonObjectGet(j, key), type-of-k) gives back the constructor's occaType *)
  Lemma object_roundtrip_number_l :
    snd set = OUnit /\
    snd get = OType (mkO true TJson 8 false (PRef r [SK key])) /\
    snd (occaJsonGetNumber F cfg_fixed st3 m k) = OType (lit_otype (LScalar k v)).
  Proof.
    split; [rewrite fresh_set; reflexivity|]. split; [rewrite fresh_get; reflexivity|].
    unfold occaJsonGetNumber. rewrite fresh_open3.
    assert (Hc : s_conv k k v = Some v) by (unfold s_conv; rewrite kind_eqb_refl; reflexivity).
    rewrite (newOccaType_prim_typed_conv F _ _ _ _ Hv Hc). reflexivity.
  Qed.

  Lemma object_roundtrip_bool_l : k = KBool ->
    snd (occaJsonGetBoolean st3 m) = OBool (v =? 1) /\
    snd (occaJsonIs st3 m) = OFlags true true false false false.
  Proof.
    intros Hk. unfold occaJsonGetBoolean, occaJsonIs. rewrite fresh_open3. rewrite Hk. cbn [snd].
    split; [|reflexivity]. rewrite Hk in Hv. apply in_range_spec in Hv. cbn in Hv. f_equal.
    destruct (Z.eqb_spec v 0); destruct (Z.eqb_spec v 1); try reflexivity; lia.
  Qed.
End FreshObject.

Section FreshArray.
  Variables (F : fops) (st : mstate) (n m : nat) (k : kind) (v : Z).
  Hypothesis Hv : in_range k v = true.

  Let r := m_next st.
  Let st1 := fst (occaCreateJson st n).
  Let push := occaJsonArrayPush cfg_fixed st1 n (VLit (LScalar k v)).
  Let st2 := fst push.
  Let get := occaJsonArrayGet st2 n 0 m.
  Let st3 := fst get.

  Lemma afresh_open1 : open_handle st1 n = HGo r [] JNone.
  Proof. apply open_root_handle; [apply create_tab | apply create_root]. Qed.

  Lemma afresh_push :
    push = (kill (put_node (put_node st1 r [] (JArr [])) r [] (JArr [JNum k v])) r [], OUnit).
  Proof.
    subst push. unfold occaJsonArrayPush.
    assert (Ht1 : m_tab st1 n = mkSlot (root_handle r) true) by apply create_tab.
    rewrite Ht1. cbn [sl_val root_handle o_magic negb open_value].
    rewrite afresh_open1. cbv zeta. cbn [auto_cast].
    rewrite (infer_scalar _ _ _ Hv). reflexivity.
  Qed.

  Lemma afresh_state2 :
    m_roots st2 r = Some (JArr [JNum k v]) /\ m_tab st2 n = mkSlot (root_handle r) true.
  Proof.
    subst st2. rewrite afresh_push. cbn [fst]. split.
    - cbn [kill set_tab m_roots].
      assert (H1 : m_roots (put_node st1 r [] (JArr [])) r = Some (JArr [])).
      { rewrite (put_node_root_same _ _ _ _ _ (create_root st n)). reflexivity. }
      rewrite (put_node_root_same _ _ _ _ _ H1). reflexivity.
    - cbn [kill set_tab m_tab]. rewrite !put_node_tab.
      rewrite (kill_below_root_handle _ _ _ _ r (create_tab st n)). apply create_tab.
  Qed.

  Lemma afresh_open2 : open_handle st2 n = HGo r [] (JArr [JNum k v]).
  Proof. destruct afresh_state2 as [Hr Ht]. apply open_root_handle; assumption. Qed.

  Lemma afresh_get :
    get = (with_slot (put_node st2 r [] (JArr [JNum k v])) m
             (mkSlot (mkO true TJson 8 false (PRef r [SI 0%nat])) true),
           OType (mkO true TJson 8 false (PRef r [SI 0%nat]))).
  Proof.
    subst get. unfold occaJsonArrayGet. rewrite afresh_open2. cbv zeta. reflexivity.
  Qed.

  Lemma afresh_open3 : open_handle st3 m = HGo r [SI 0%nat] (JNum k v).
  Proof.
    subst st3. rewrite afresh_get. cbn [fst]. unfold open_handle.
    cbn [with_slot set_tab m_tab]. unfold set_slot. rewrite Nat.eqb_refl.
    cbn [sl_val sl_ok o_magic o_tag o_val negb]. change (tag_eqb TJson TJson) with true. cbn [negb].
    cbn [with_slot set_tab m_roots]. destruct afresh_state2 as [Hr _].
    rewrite (put_node_root_same _ _ _ _ _ Hr). reflexivity.
  Qed.

  (* occaJsonGetNumber(occaJsonArrayGet(a, 0), type-of-k) after a push gives back the occaType *)
  Lemma array_roundtrip_number_l :
    snd push = OUnit /\
    snd (occaJsonGetNumber F cfg_fixed st3 m k) = OType (lit_otype (LScalar k v)).
  Proof.
    split; [rewrite afresh_push; reflexivity|].
    unfold occaJsonGetNumber. rewrite afresh_open3.
    assert (Hc : s_conv k k v = Some v) by (unfold s_conv; rewrite kind_eqb_refl; reflexivity).
    rewrite (newOccaType_prim_typed_conv F _ _ _ _ Hv Hc). reflexivity.
  Qed.
End FreshArray.
