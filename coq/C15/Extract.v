(* Extraction of the executable model and reference (ExtrOcamlBasic only). *)
From Coq Require Import Extraction ExtrOcamlBasic.
From OV.C12 Require Import OpDefs Model.
From OV.C15 Require Import Model Spec.
From OV.gen Require Import C12_OpTable C15_Flags.
Extraction Language OCaml.
Extraction "../_work/extract/C15/model.ml"
  pinned fixed tokenize tokenizer_ops ptoks_of sy_parse print parse_source comma_args spec_verdict.
