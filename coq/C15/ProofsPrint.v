(* C15: from printed text back to the tree, end to end, for the trees whose printed form separates all
   tokens by blanks: atoms joined by the binary operators that print as ` op ` (everything but comma and the
   member/scope operators).  Printing such a tree is printing its token sequence (C12's printSeq); C12's
   roundtrip_seq_partial gives the tokens back, ProofsParser.parse_toks gives the tree back. *)
From Coq Require Import List ZArith Bool Lia.
From OV.C12 Require Import OpDefs Model Spec Table ProofsSafety ProofsSafety2 ProofsRoundtrip ProofsPrim ProofsSeq ProofsTable.
From OV.C15 Require Import Model ProofsParser.
From OV.gen Require Import C12_OpTable.
Import ListNotations.
Local Open Scope Z_scope.

Definition atom_tok (a : atom) : token :=
  match a with
  | AId v => TIdent v
  | APrim v => TPrim v
  | AStr v => TString 0 v []
  | AChr v => TChar 0 v []
  end.

(* binary operators printed with a blank on either side *)
Definition spaced_op (b : oper) : bool := negb (dotlike b) && negb (is (op_type b) ot_comma).

Inductive btree : expr -> Prop :=
| BT_atom : forall a, good tok_ops (atom_tok a) = true -> btree (EAtom a)
| BT_bin : forall b l r, In b binops -> spaced_op b = true -> btree l -> btree r -> btree (EBin b l r).

Fixpoint ctoks (t : expr) : list token :=
  match t with
  | EAtom a => [atom_tok a]
  | EBin b l r => ctoks l ++ [TOp (lexop b)] ++ ctoks r
  | _ => []
  end.

Lemma lexop_sym : forall o, op_sym (lexop o) = op_sym o.
Proof.
  intros o. unfold lexop. destruct (find _ tokenizer_ops) eqn:F; auto.
  apply find_some in F. destruct F as [_ E]. apply list_eqb_eq in E. auto.
Qed.

Lemma printSeq_app : forall fx A B, A <> [] -> B <> [] ->
  printSeq fx (A ++ B) = printSeq fx A ++ [32] ++ printSeq fx B.
Proof.
  intros fx A B NA NB. induction A as [|a A IH]; [contradiction|].
  destruct A as [|a2 A].
  - cbn [app]. destruct B; [contradiction|]. reflexivity.
  - change ((a :: a2 :: A) ++ B) with (a :: (a2 :: A) ++ B).
    assert (E : (a2 :: A) ++ B = a2 :: (A ++ B)) by reflexivity.
    cbn [printSeq]. rewrite E. rewrite <- E. rewrite IH; [|discriminate].
    cbn [printSeq]. rewrite <- !app_assoc. reflexivity.
Qed.

Lemma ctoks_nonempty : forall t, btree t -> ctoks t <> [].
Proof. intros t B. destruct B; cbn [ctoks]; [discriminate|]. destruct (ctoks l); discriminate. Qed.

Lemma print_btree : forall c15fix t, btree t -> print fixed c15fix t = printSeq fixed (ctoks t).
Proof.
  intros c15fix t B. induction B.
  - destruct a; cbn [print print_atom ctoks atom_tok printSeq printToken printEncoding]; auto.
  - unfold spaced_op in H0. apply andb_true_iff in H0. destruct H0 as [D C]. apply negb_true_iff in D, C.
    cbn [print ctoks]. rewrite D, C.
    rewrite printSeq_app; [|apply ctoks_nonempty; auto|discriminate].
    rewrite (printSeq_app fixed [TOp (lexop b)] (ctoks r)); [|discriminate|apply ctoks_nonempty; auto].
    cbn [printSeq printToken]. rewrite lexop_sym. rewrite IHB1, IHB2. cbn [app]. rewrite <- ?app_assoc. reflexivity.
Qed.

Lemma ptoks_ctoks : forall t, btree t -> ptoks_of (ctoks t) = toks t.
Proof.
  intros t B. induction B.
  - destruct a; reflexivity.
  - cbn [ctoks toks].
    assert (G : forall A C, ptoks_of (A ++ C) = ptoks_of A ++ ptoks_of C).
    { induction A as [|x A IH]; intro C; cbn [app ptoks_of]; auto. destruct (ptok_of_token x); cbn [app]; rewrite IH; auto. }
    rewrite !G. rewrite IHB1, IHB2. reflexivity.
Qed.

(* the token of a binary operator is a good, guarded C12 token *)
Lemma binop_token_good : forall b, In b binops -> good tok_ops (TOp (lexop b)) = true.
Proof.
  assert (G : forallb (fun b => good tok_ops (TOp (lexop b))) binops = true) by (vm_compute; reflexivity).
  intros b I. rewrite forallb_forall in G. auto.
Qed.

Lemma ctoks_good : forall t, btree t -> Forall (fun x => good tok_ops x = true /\ guard x = true) (ctoks t).
Proof.
  intros t B. induction B; cbn [ctoks].
  - constructor; [|constructor]. split; auto. destruct a; reflexivity.
  - apply Forall_app. split; auto. constructor; auto. split; [apply binop_token_good; auto|reflexivity].
Qed.

Theorem reparse_spaced : forall t, btree t -> wfE None t ->
  parse_source fixed (print fixed true t ++ [0]) = Ok (Some t).
Proof.
  intros t B W. unfold parse_source. rewrite (print_btree true t B).
  pose proof (tokenize_seq tok_ops tok_ops_rt_ok (ctoks t) (ctoks_good t B)) as T.
  change tok_ops with tokenizer_ops in T. rewrite T. cbn [bind].
  rewrite (ptoks_ctoks t B). rewrite (parse_toks t W). reflexivity.
Qed.
