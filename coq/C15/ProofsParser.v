(* C15: the shunting-yard of expressionParser.cpp, run on the tokens of a tree of its image, rebuilds the tree.
   Fragment: atoms, prefix operators ! ~ + - * & ++ --, postfix ++ --, the binary operators the tokenizer knows,
   parentheses, calls, subscripts.

   Proof idea.  After the tokens of a tree t have been consumed on top of stacks (out0, ops0), the stacks are
   (sp_out t ++ out0, sp_ops t ++ ops0): the pending right spine of t.  Applying the pending operators rebuilds t
   (`rebuild`).  `wfE` says, constructor by constructor, what makes a tree reproducible: a parent operator pops all
   pending operators of its left operand, no operator on the left spine of its right operand pops it (precedence and
   associativity from the regenerated table), and the ambiguous spellings + - * & ++ -- :: are resolved the way the
   tree says by operatorIsLeftUnary (which looks at the neighbouring tokens). *)
From Coq Require Import List ZArith Bool Lia.
From OV.C12 Require Import OpDefs Model Spec.
From OV.C15 Require Import Model.
From OV.gen Require Import C12_OpTable C15_Flags.
Import ListNotations.
Local Open Scope Z_scope.

(* ---------------------------------------------------------------- operator classes of the fragment *)
Definition lexop (o : oper) : oper :=
  match find (fun x => list_eqb (op_sym x) (op_sym o)) tokenizer_ops with
  | Some x => x
  | None => o
  end.

Definition binops : list oper :=
  filter (fun o => (op_class o =? 2) && existsb (fun x => list_eqb (op_sym x) (op_sym o)) tokenizer_ops) all_ops.
Definition leftops : list oper :=
  [op_not_; op_tilde; op_positive; op_negative; op_dereference; op_address; op_leftIncrement; op_leftDecrement].
Definition rightops : list oper := [op_rightIncrement; op_rightDecrement].
Definition lpar := op_parenthesesStart.
Definition rpar := op_parenthesesEnd.
Definition lbrk := op_bracketStart.
Definition rbrk := op_bracketEnd.

Lemma oper_eqb_eq : forall a b, oper_eqb a b = true -> a = b.
Proof.
  intros a b E. unfold oper_eqb in E. repeat (apply andb_true_iff in E; destruct E as [E ?]).
  assert (L : forall x y, list_eqb x y = true -> x = y).
  { induction x as [|p x IH]; destruct y as [|q y]; simpl; intro K; try discriminate; auto.
    apply andb_true_iff in K. destruct K as [K1 K2]. apply Z.eqb_eq in K1. subst. f_equal. auto. }
  apply L in E, H. apply Z.eqb_eq in H0, H1. unfold ot_eqb in H2.
  apply andb_true_iff in H2. destruct H2 as [A B]. apply Z.eqb_eq in A, B.
  destruct a as [s1 [t1 t2] p1 c1 q1], b as [s2 [t3 t4] p2 c2 q2]. simpl in *. subst. auto.
Qed.

Definition opt_is (x : option oper) (b : oper) : bool :=
  match x with Some a => oper_eqb a b | None => false end.

(* the spelling-to-operator map of updateOperatorToken *)
Definition resolve (o : oper) (lu : bool) : option oper :=
  let t := op_type o in
  if is t ot_plus then Some (if lu then op_positive else op_add)
  else if is t ot_minus then Some (if lu then op_negative else op_sub)
  else if is t ot_asterisk then Some (if lu then op_dereference else op_mult)
  else if is t ot_ampersand then Some (if lu then op_address else op_bitAnd)
  else if is t ot_increment then Some (if lu then op_leftIncrement else op_rightIncrement)
  else if is t ot_decrement then Some (if lu then op_leftDecrement else op_rightDecrement)
  else if is t ot_scope then Some (if lu then op_globalScope else op_scope)
  else None.

Lemma updateOperator_eq : forall prev next o,
  updateOperator prev next o =
  if negb (is (op_type o) ot_ambiguous) then Some o
  else match operatorIsLeftUnary prev next o with None => None | Some lu => resolve o lu end.
Proof. reflexivity. Qed.

Definition opish (t : option ptok) : bool := is (optype_of t) (ot_or ot_unary ot_binary).
Definition only_unary (o : oper) : bool := is (op_type o) (ot_or ot_increment ot_decrement).
Definition chainable : optype := ot_or (ot_or ot_increment ot_decrement) ot_parentheses.

(* facts about each class, as boolean checks over the finite lists (vm_compute) *)
Definition bin_fact (b : oper) : bool :=
  let l := lexop b in
  negb (is (op_type l) ot_pairStart) && negb (is (op_type l) ot_pairEnd)
  && (if is (op_type l) ot_ambiguous then negb (only_unary l) && opt_is (resolve l false) b else oper_eqb l b)
  && is (op_type b) ot_binary && negb (is (op_type b) ot_pairStart) && negb (is (op_type b) ot_unary)
  && negb (is (op_type b) ot_leftUnary).
Definition left_fact (u : oper) : bool :=
  let l := lexop u in
  negb (is (op_type l) ot_pairStart) && negb (is (op_type l) ot_pairEnd)
  && (if is (op_type l) ot_ambiguous then opt_is (resolve l true) u else oper_eqb l u)
  && negb (is (op_type u) ot_binary) && is (op_type u) ot_leftUnary && negb (is (op_type u) ot_special)
  && negb (is (op_type u) ot_colon) && negb (is (op_type u) ot_pairStart)
  && is (op_type u) (ot_or ot_unary ot_binary).
Definition right_fact (r : oper) : bool :=
  let l := lexop r in
  negb (is (op_type l) ot_pairStart) && negb (is (op_type l) ot_pairEnd)
  && is (op_type l) ot_ambiguous && only_unary l && opt_is (resolve l false) r
  && negb (is (op_type r) ot_binary) && negb (is (op_type r) ot_leftUnary) && is (op_type r) ot_rightUnary
  && negb (is (op_type r) ot_pairStart) && is (op_type r) (ot_or ot_unary ot_binary).

Lemma bin_facts : forallb bin_fact binops = true. Proof. vm_compute. reflexivity. Qed.
Lemma left_facts : forallb left_fact leftops = true. Proof. vm_compute. reflexivity. Qed.
Lemma right_facts : forallb right_fact rightops = true. Proof. vm_compute. reflexivity. Qed.

(* ---------------------------------------------------------------- shape functions on trees *)
Fixpoint sp_out (t : expr) : list expr :=
  match t with
  | ELeft _ e => sp_out e
  | EBin _ l r => sp_out r ++ [l]
  | ERight _ e => [e]
  | _ => [t]
  end.
Fixpoint sp_ops (t : expr) : list oper :=
  match t with
  | ELeft o e => sp_ops e ++ [o]
  | EBin o _ r => sp_ops r ++ [o]
  | ERight o _ => [o]
  | _ => []
  end.
(* the operators of t that meet the operator below t on the stack *)
Fixpoint lspine (t : expr) : list oper :=
  match t with
  | ELeft o _ => [o]
  | EBin o l _ => o :: lspine l
  | ERight o e => o :: lspine e
  | _ => []
  end.

Fixpoint toks (t : expr) : list ptok :=
  match t with
  | EAtom a => [PAtom a]
  | ELeft o e => POp (lexop o) :: toks e
  | ERight o e => toks e ++ [POp (lexop o)]
  | EBin o l r => toks l ++ POp (lexop o) :: toks r
  | EParen e => POp lpar :: toks e ++ [POp rpar]
  | ECall f a => toks f ++ POp lpar :: toks a ++ [POp rpar]
  | ESub a i => toks a ++ POp lbrk :: toks i ++ [POp rbrk]
  | _ => []
  end.

(* the last token as the parser remembers it (prevToken, re-typed), and the first token as the tokenizer gives it *)
Fixpoint lastu (t : expr) : ptok :=
  match t with
  | EAtom a => PAtom a
  | ELeft _ e => lastu e
  | ERight o _ => POp o
  | EBin _ _ r => lastu r
  | EParen _ => POp rpar
  | ECall _ _ => POp rpar
  | ESub _ _ => POp rbrk
  | _ => POp rpar
  end.
Fixpoint first (t : expr) : ptok :=
  match t with
  | EAtom a => PAtom a
  | ELeft o _ => POp (lexop o)
  | ERight _ e => first e
  | EBin _ l _ => first l
  | EParen _ => POp lpar
  | ECall f _ => first f
  | ESub a _ => first a
  | _ => POp lpar
  end.

(* q, arriving, pops p (the test of applyFasterOperators) *)
Definition pops (q p : oper) : bool :=
  (op_prec p <? op_prec q) || ((op_prec q =? op_prec p) && assoc_left (op_prec p)).
Definition base_ok (q : oper) (stack : list oper) : bool :=
  match stack with
  | [] => true
  | p :: _ => is (op_type p) ot_pairStart || negb (pops q p)
  end.
Definition nop_ok (stack : list oper) (t : expr) : bool := forallb (fun q => base_ok q stack) (lspine t).
Definition allpop (q : oper) (t : expr) : bool := forallb (pops q) (sp_ops t).

Definition is_rightop_tok (t : ptok) : bool :=
  match t with POp o => existsb (oper_eqb o) rightops | _ => false end.
Definition plain_end (t : ptok) : bool :=       (* an operand end that is not a postfix operator *)
  match t with
  | PAtom _ => true
  | POp o => oper_eqb o rpar || oper_eqb o rbrk
  end.

Definition amb_ok (b : oper) (l r : expr) : bool :=
  if is (op_type (lexop b)) ot_ambiguous
  then ambfix || is_rightop_tok (lastu l) || negb (opish (Some (first r)))
  else true.
Definition right_next_ok (nxt : option ptok) : bool :=
  match nxt with None => true | Some _ => opish nxt end.

Inductive primary : expr -> Prop :=
| P_atom : forall a, primary (EAtom a)
| P_paren : forall e, primary (EParen e)
| P_call : forall f a, primary (ECall f a)
| P_sub : forall a i, primary (ESub a i).

(* trees the parser reproduces, given the token that follows them *)
Inductive wfE : option ptok -> expr -> Prop :=
| W_atom : forall nxt a, wfE nxt (EAtom a)
| W_left : forall nxt u e, In u leftops -> wfE nxt e -> nop_ok [u] e = true -> wfE nxt (ELeft u e)
| W_right : forall nxt r e, In r rightops -> wfE (Some (POp (lexop r))) e -> allpop r e = true ->
    plain_end (lastu e) = true -> right_next_ok nxt = true -> wfE nxt (ERight r e)
| W_bin : forall nxt b l r, In b binops -> wfE (Some (POp (lexop b))) l -> wfE nxt r ->
    allpop b l = true -> nop_ok [b] r = true -> amb_ok b l r = true -> wfE nxt (EBin b l r)
| W_paren : forall nxt e, wfE (Some (POp rpar)) e -> wfE nxt (EParen e)
| W_call0 : forall nxt f, primary f -> wfE (Some (POp lpar)) f -> wfE nxt (ECall f EEmpty)
| W_call : forall nxt f a, primary f -> wfE (Some (POp lpar)) f -> wfE (Some (POp rpar)) a -> wfE nxt (ECall f a)
| W_sub : forall nxt a i, primary a -> wfE (Some (POp lbrk)) a -> wfE (Some (POp rbrk)) i -> wfE nxt (ESub a i).

(* ---------------------------------------------------------------- facts extraction *)
Lemma bin_in : forall b, In b binops -> bin_fact b = true.
Proof. intros b I. pose proof bin_facts as F. rewrite forallb_forall in F. auto. Qed.
Lemma left_in : forall u, In u leftops -> left_fact u = true.
Proof. intros u I. pose proof left_facts as F. rewrite forallb_forall in F. auto. Qed.
Lemma right_in : forall r, In r rightops -> right_fact r = true.
Proof. intros r I. pose proof right_facts as F. rewrite forallb_forall in F. auto. Qed.

Ltac norm_fact F :=
  unfold bin_fact, left_fact, right_fact in F;
  repeat rewrite andb_true_iff in F; repeat rewrite negb_true_iff in F.
Ltac get F X := assert X by (clear - F; tauto).

(* ---------------------------------------------------------------- applying pending operators *)
Lemma finish_app : forall pis a b out,
  finish pis (a ++ b) out = match finish pis a out with Some o => finish pis b o | None => None end.
Proof.
  induction a as [|p a IH]; intros b out; cbn [app finish]; auto.
  destruct (applyOperator pis p out); auto.
Qed.

Lemma apply_bin : forall pis b l r out, In b binops -> applyOperator pis b (r :: l :: out) = Some (EBin b l r :: out).
Proof.
  intros pis b l r out I. pose proof (bin_in b I) as F. norm_fact F.
  get F (is (op_type b) ot_binary = true). unfold applyOperator. rewrite H. reflexivity.
Qed.

Lemma apply_left : forall pis u e out, In u leftops -> applyOperator pis u (e :: out) = Some (ELeft u e :: out).
Proof.
  intros pis u e out I. pose proof (left_in u I) as F. norm_fact F.
  get F (is (op_type u) ot_binary = false). get F (is (op_type u) ot_leftUnary = true).
  get F (is (op_type u) ot_special = false). get F (is (op_type u) ot_colon = false).
  unfold applyOperator, applyLeftUnary. rewrite H, H0, H1, H2. reflexivity.
Qed.

Lemma apply_right : forall pis r e out, In r rightops -> applyOperator pis r (e :: out) = Some (ERight r e :: out).
Proof.
  intros pis r e out I. pose proof (right_in r I) as F. norm_fact F.
  get F (is (op_type r) ot_binary = false). get F (is (op_type r) ot_leftUnary = false).
  get F (is (op_type r) ot_rightUnary = true).
  unfold applyOperator. rewrite H, H0, H1. reflexivity.
Qed.

Lemma rebuild : forall nxt t, wfE nxt t -> forall pis out,
  finish pis (sp_ops t) (sp_out t ++ out) = Some (t :: out).
Proof.
  induction 1; intros pis out; cbn [sp_ops sp_out finish app]; auto.
  - rewrite finish_app. rewrite IHwfE. cbn [finish]. rewrite apply_left; auto.
  - rewrite apply_right; auto.
  - rewrite finish_app. rewrite <- app_assoc. cbn [app]. rewrite IHwfE2. cbn [finish]. rewrite apply_bin; auto.
Qed.

(* the pending operators of a tree of the fragment are never brackets *)
Lemma sp_ops_nostart : forall nxt t, wfE nxt t -> forall p, In p (sp_ops t) -> is (op_type p) ot_pairStart = false.
Proof.
  induction 1; intros p I; cbn [sp_ops] in I; try (destruct I; fail).
  - apply in_app_or in I. destruct I as [I|[<-|[]]]; auto.
    pose proof (left_in u H) as F. norm_fact F. tauto.
  - destruct I as [<-|[]]. pose proof (right_in r H) as F. norm_fact F. tauto.
  - apply in_app_or in I. destruct I as [I|[<-|[]]]; auto.
    pose proof (bin_in b H) as F. norm_fact F. tauto.
Qed.

Lemma popFaster_pending : forall pis q pending base out,
  (forall p, In p pending -> is (op_type p) ot_pairStart = false /\ pops q p = true) ->
  popFaster pis q (pending ++ base) out =
  match finish pis pending out with Some o => popFaster pis q base o | None => None end.
Proof.
  induction pending as [|p pending IH]; intros base out H; cbn [app finish]; auto.
  destruct (H p (or_introl eq_refl)) as [A B]. cbn [popFaster]. rewrite A. unfold pops in B. rewrite B.
  destruct (applyOperator pis p out); auto. apply IH. intros x Hx. apply H. right; auto.
Qed.

Lemma popFaster_base : forall pis q base out, base_ok q base = true -> popFaster pis q base out = Some (base, out).
Proof.
  intros pis q [|p base] out H; cbn [popFaster]; auto. cbn [base_ok] in H.
  destruct (is (op_type p) ot_pairStart); auto. cbn [orb] in H. apply negb_true_iff in H. unfold pops in H. rewrite H. reflexivity.
Qed.

Lemma closeLoop_pending : forall pis c pending base out,
  (forall p, In p pending -> is (op_type p) ot_pairStart = false) ->
  closeLoop pis c (pending ++ base) out =
  match finish pis pending out with Some o => closeLoop pis c base o | None => None end.
Proof.
  induction pending as [|p pending IH]; intros base out H; cbn [app finish]; auto.
  cbn [closeLoop]. rewrite (H p (or_introl eq_refl)).
  destruct (applyOperator pis p out); auto. apply IH. intros x Hx. apply H. right; auto.
Qed.

(* ---------------------------------------------------------------- tokens of a tree *)
Lemma toks_first : forall nxt t, wfE nxt t -> exists tl_, toks t = first t :: tl_.
Proof.
  induction 1; cbn [toks first]; try (eexists; reflexivity).
  - destruct IHwfE as (x & E). rewrite E. eexists; reflexivity.
  - destruct IHwfE1 as (x & E). rewrite E. eexists; reflexivity.
  - destruct IHwfE as (x & E). rewrite E. eexists; reflexivity.
  - destruct IHwfE1 as (x & E). rewrite E. eexists; reflexivity.
  - destruct IHwfE1 as (x & E). rewrite E. eexists; reflexivity.
Qed.

Definition operand_end (t : ptok) : bool := plain_end t || is_rightop_tok t.

Lemma lastu_end : forall nxt t, wfE nxt t -> operand_end (lastu t) = true.
Proof.
  induction 1; cbn [lastu]; auto; unfold operand_end, plain_end, is_rightop_tok; try (vm_compute; reflexivity).
  cbn [existsb]. destruct H as [<-|[<-|[]]]; vm_compute; reflexivity.
Qed.

(* ---------------------------------------------------------------- operatorIsLeftUnary on the fragment's positions *)
(* tokens after which an operand may start *)
Definition prev_ok (p : option ptok) : Prop :=
  p = None \/ (exists o, p = Some (POp o) /\ (o = lpar \/ o = lbrk \/ In o binops \/ In o leftops)).

Lemma olu_left : forall prev nx l, prev_ok prev ->
  operatorIsLeftUnary prev (Some nx) l = Some true.
Proof.
  intros prev nx l [->|(o & -> & Ho)]; [reflexivity|].
  unfold operatorIsLeftUnary. cbn [optype_of].
  destruct Ho as [->|[->|[I|I]]].
  - reflexivity.
  - reflexivity.
  - pose proof (bin_in o I) as F. norm_fact F.
    get F (is (op_type o) ot_pairStart = false). get F (is (op_type o) ot_binary = true).
    get F (is (op_type o) ot_unary = false). get F (is (op_type o) ot_leftUnary = false).
    assert (U : forallb (fun o => is (op_type o) (ot_or ot_unary ot_binary)) binops = true) by (vm_compute; reflexivity).
    rewrite forallb_forall in U. specialize (U o I).
    rewrite H. rewrite U. rewrite H2, H0, H1. reflexivity.
  - pose proof (left_in o I) as F. norm_fact F.
    get F (is (op_type o) ot_pairStart = false). get F (is (op_type o) ot_leftUnary = true).
    get F (is (op_type o) (ot_or ot_unary ot_binary) = true).
    rewrite H. rewrite H1. rewrite H0. reflexivity.
Qed.

Lemma plain_end_types : forall p, plain_end p = true ->
  is (optype_of (Some p)) ot_pairStart = false /\ is (optype_of (Some p)) (ot_or ot_unary ot_binary) = false.
Proof.
  intros [a|o] H; cbn [plain_end optype_of] in *.
  - split; vm_compute; reflexivity.
  - apply orb_true_iff in H. destruct H as [H|H]; apply oper_eqb_eq in H; subst o; split; vm_compute; reflexivity.
Qed.

(* an ambiguous binary spelling between an operand end and the start of an operand *)
Lemma olu_binary : forall p nx l, operand_end p = true -> only_unary l = false ->
  ambfix || is_rightop_tok p || negb (opish (Some nx)) = true ->
  operatorIsLeftUnary (Some p) (Some nx) l = Some false.
Proof.
  intros p nx l E OU C. unfold operatorIsLeftUnary. fold (only_unary l). rewrite OU.
  unfold operand_end in E. destruct (is_rightop_tok p) eqn:R.
  - (* after a postfix operator *)
    destruct p as [a|o]; [discriminate|]. cbn [is_rightop_tok existsb rightops] in R.
    assert (O : o = op_rightIncrement \/ o = op_rightDecrement).
    { rewrite orb_false_r in R. apply orb_true_iff in R. destruct R as [R|R]; apply oper_eqb_eq in R; auto. }
    destruct O as [-> | ->]; vm_compute; reflexivity.
  - rewrite orb_false_r in E. rewrite orb_false_r in C.
    destruct (plain_end_types p E) as [A B]. rewrite A, B. cbn [negb andb].
    destruct ambfix; [reflexivity|]. cbn [orb andb] in *. apply negb_true_iff in C.
    unfold opish in C. rewrite C. reflexivity.
Qed.

(* ++ / -- after a plain operand end, before an operator or at the end *)
Lemma olu_postfix : forall p nxt l, plain_end p = true -> only_unary l = true -> right_next_ok nxt = true ->
  operatorIsLeftUnary (Some p) nxt l = Some false.
Proof.
  intros p nxt l E OU N. unfold operatorIsLeftUnary. fold (only_unary l). rewrite OU.
  destruct nxt as [nx|]; [|reflexivity].
  destruct (plain_end_types p E) as [A B]. rewrite A, B. cbn [negb].
  cbn [right_next_ok] in N. unfold opish in N. rewrite N. reflexivity.
Qed.

(* ---------------------------------------------------------------- one step per token class *)
Definition after (st : pstate) (prev : ptok) (out : list expr) (ops : list oper) : pstate :=
  mkState (Some prev) (mkScope (s_before (st_cur st)) out ops) (st_rest st).

Lemma step_left : forall st u nx, In u leftops -> prev_ok (st_prev st) -> base_ok u (opsk st) = true ->
  step st (POp (lexop u)) (Some nx) = Some (after st (POp u) (outs st) (u :: opsk st)).
Proof.
  intros st u nx I P B. pose proof (left_in u I) as F. norm_fact F.
  get F (is (op_type (lexop u)) ot_pairStart = false). get F (is (op_type (lexop u)) ot_pairEnd = false).
  get F ((if is (op_type (lexop u)) ot_ambiguous then opt_is (resolve (lexop u) true) u else oper_eqb (lexop u) u) = true).
  rename H1 into F6.
  unfold step. rewrite H, H0. unfold applyFaster. rewrite updateOperator_eq.
  assert (U : (if negb (is (op_type (lexop u)) ot_ambiguous) then Some (lexop u)
               else match operatorIsLeftUnary (st_prev st) (Some nx) (lexop u) with
                    | Some lu => resolve (lexop u) lu | None => None end) = Some u).
  { destruct (is (op_type (lexop u)) ot_ambiguous); cbn [negb].
    - rewrite olu_left; auto. unfold opt_is in F6. destruct (resolve (lexop u) true); [|discriminate].
      apply oper_eqb_eq in F6. subst; auto.
    - apply oper_eqb_eq in F6. rewrite F6. auto. }
  rewrite U. rewrite popFaster_base; auto.
Qed.

Lemma step_binary : forall st b nx nxt_l lft out0,
  In b binops -> wfE nxt_l lft ->
  st_prev st = Some (lastu lft) ->
  outs st = sp_out lft ++ out0 ->
  allpop b lft = true ->
  forall base, opsk st = sp_ops lft ++ base -> base_ok b base = true ->
  (is (op_type (lexop b)) ot_ambiguous = true -> ambfix || is_rightop_tok (lastu lft) || negb (opish (Some nx)) = true) ->
  step st (POp (lexop b)) (Some nx) = Some (after st (POp b) (lft :: out0) (b :: base)).
Proof.
  intros st b nx nxt_l lft out0 I W HP HO AP base HS HB HA.
  pose proof (bin_in b I) as F. norm_fact F.
  get F (is (op_type (lexop b)) ot_pairStart = false). get F (is (op_type (lexop b)) ot_pairEnd = false).
  get F ((if is (op_type (lexop b)) ot_ambiguous then negb (only_unary (lexop b)) && opt_is (resolve (lexop b) false) b
          else oper_eqb (lexop b) b) = true).
  rename H1 into F4.
  unfold step. rewrite H, H0. unfold applyFaster. rewrite updateOperator_eq.
  assert (U : (if negb (is (op_type (lexop b)) ot_ambiguous) then Some (lexop b)
               else match operatorIsLeftUnary (st_prev st) (Some nx) (lexop b) with
                    | Some lu => resolve (lexop b) lu | None => None end) = Some b).
  { destruct (is (op_type (lexop b)) ot_ambiguous) eqn:AM; cbn [negb].
    - apply andb_true_iff in F4. destruct F4 as [OU RS]. apply negb_true_iff in OU.
      rewrite HP. rewrite olu_binary; auto; [|eapply lastu_end; eauto].
      unfold opt_is in RS. destruct (resolve (lexop b) false); [|discriminate].
      apply oper_eqb_eq in RS. subst; auto.
    - apply oper_eqb_eq in F4. rewrite F4. auto. }
  rewrite U. rewrite HS, HO.
  rewrite popFaster_pending.
  2:{ intros p Hp. split; [eapply sp_ops_nostart; eauto|].
      unfold allpop in AP. rewrite forallb_forall in AP. auto. }
  rewrite (rebuild _ _ W). rewrite popFaster_base; auto.
Qed.

Lemma step_postfix : forall st r nxt nxt_e e out0,
  In r rightops -> wfE nxt_e e ->
  st_prev st = Some (lastu e) -> plain_end (lastu e) = true -> right_next_ok nxt = true ->
  outs st = sp_out e ++ out0 ->
  allpop r e = true ->
  forall base, opsk st = sp_ops e ++ base -> base_ok r base = true ->
  step st (POp (lexop r)) nxt = Some (after st (POp r) (e :: out0) (r :: base)).
Proof.
  intros st r nxt nxt_e e out0 I W HP PE RN HO AP base HS HB.
  pose proof (right_in r I) as F. norm_fact F.
  get F (is (op_type (lexop r)) ot_pairStart = false). get F (is (op_type (lexop r)) ot_pairEnd = false).
  get F (is (op_type (lexop r)) ot_ambiguous = true). get F (only_unary (lexop r) = true).
  get F (opt_is (resolve (lexop r) false) r = true). rename H3 into F5.
  unfold step. rewrite H, H0. unfold applyFaster. rewrite updateOperator_eq.
  rewrite H1. cbn [negb]. rewrite HP. rewrite olu_postfix; auto.
  unfold opt_is in F5. destruct (resolve (lexop r) false) eqn:RS; [|discriminate].
  apply oper_eqb_eq in F5. subst o.
  rewrite HS, HO. rewrite popFaster_pending.
  2:{ intros p Hp. split; [eapply sp_ops_nostart; eauto|].
      unfold allpop in AP. rewrite forallb_forall in AP. auto. }
  rewrite (rebuild _ _ W). rewrite popFaster_base; auto.
Qed.

(* ---------------------------------------------------------------- consuming the tokens of a tree *)
Lemma nop_ok_head : forall p base t, nop_ok (p :: base) t = nop_ok [p] t.
Proof. intros. unfold nop_ok. induction (lspine t) as [|q l IH]; cbn [forallb]; [reflexivity|]. rewrite IH. reflexivity. Qed.

Lemma hd_error_app_first : forall nxt t rest, wfE nxt t -> hd_error (toks t ++ rest) = Some (first t).
Proof. intros nxt t rest W. destruct (toks_first _ _ W) as (x & E). rewrite E. reflexivity. Qed.

Lemma applyTernary_id : forall nxt t out, wfE nxt t -> applyTernary (t :: out) = t :: out.
Proof.
  intros nxt t out W. destruct W; cbn [applyTernary]; auto.
  destruct out as [|x out]; auto. destruct x; auto. destruct out; auto.
  (* u is not the colon pseudo-operator *)
  assert (G : forallb (fun u => negb (ot_eqb (op_type u) ot_colon)) leftops = true) by (vm_compute; reflexivity).
  rewrite forallb_forall in G. specialize (G u H). apply negb_true_iff in G.
  rewrite G. rewrite andb_false_r. reflexivity.
Qed.

Lemma primary_sp : forall f, primary f -> sp_out f = [f] /\ sp_ops f = [] /\ lspine f = [].
Proof. intros f P. destruct P; repeat split; reflexivity. Qed.

Lemma lastu_not_start : forall nxt t, wfE nxt t -> is (optype_of (Some (lastu t))) ot_pairStart = false.
Proof.
  intros nxt t W. pose proof (lastu_end _ _ W) as E. unfold operand_end in E. apply orb_true_iff in E.
  destruct E as [E|E]; [apply plain_end_types; auto|].
  destruct (lastu t) as [a|o]; [discriminate|]. cbn [is_rightop_tok existsb rightops] in E.
  rewrite orb_false_r in E. apply orb_true_iff in E. destruct E as [E|E]; apply oper_eqb_eq in E; subst o; vm_compute; reflexivity.
Qed.

(* closing a bracket pair whose content e has been consumed in its own scope *)
Lemma close_content : forall nxt e (closer opener : oper) pis outer_ops outer_out,
  wfE nxt e ->
  is (op_type opener) ot_pairStart = true ->
  ot_eqb (op_type closer) (ot_shl1 (op_type opener)) = true ->
  pis = false ->
  is (op_type closer) ot_binary = false -> is (op_type closer) ot_leftUnary = false ->
  is (op_type closer) ot_rightUnary = false -> is (op_type closer) ot_pair = true ->
  closeLoop pis closer ((sp_ops e ++ [opener]) ++ outer_ops) (sp_out e ++ outer_out)
  = Some (outer_ops, EPair closer e :: outer_out).
Proof.
  intros nxt e closer opener pis outer_ops outer_out W PS MT -> B L R P.
  rewrite <- app_assoc. rewrite closeLoop_pending; [|intros p Hp; eapply sp_ops_nostart; eauto].
  rewrite (rebuild _ _ W). cbn [app closeLoop]. rewrite PS, MT.
  rewrite (applyTernary_id _ _ _ W). unfold applyOperator. rewrite B, L, R, P. reflexivity.
Qed.

(* attachPair (409-483) in the three positions of the fragment *)
Lemma rpar_types : is (op_type rpar) (ot_or ot_parentheses ot_braces) = true /\ is (op_type rpar) ot_parentheses = true
  /\ is (op_type rpar) ot_pairEnd = true /\ is (op_type rbrk) ot_pairEnd = true
  /\ is (op_type rbrk) ot_parentheses = false /\ is (op_type rbrk) ot_brackets = true
  /\ is (op_type lpar) ot_pairEnd = false /\ is (op_type lbrk) ot_pairEnd = false.
Proof. repeat split; vm_compute; reflexivity. Qed.

Lemma transform_paren : forall e out, transformLastPair (EPair rpar e :: out) = Some (EParen e :: out).
Proof.
  intros. unfold transformLastPair. destruct rpar_types as (A & B & _). rewrite A, B. reflexivity.
Qed.

Lemma not_pairEnd_bin : forall o, In o binops -> is (op_type o) ot_pairEnd = false.
Proof.
  assert (G : forallb (fun o => negb (is (op_type o) ot_pairEnd)) binops = true) by (vm_compute; reflexivity).
  intros o I. rewrite forallb_forall in G. apply negb_true_iff. auto.
Qed.
Lemma not_pairEnd_left : forall o, In o leftops -> is (op_type o) ot_pairEnd = false.
Proof.
  assert (G : forallb (fun o => negb (is (op_type o) ot_pairEnd)) leftops = true) by (vm_compute; reflexivity).
  intros o I. rewrite forallb_forall in G. apply negb_true_iff. auto.
Qed.

Lemma attach_paren : forall prev e out, prev_ok prev ->
  attachPair prev (EPair rpar e :: out) = Some (EParen e :: out).
Proof.
  intros prev e out HP. unfold attachPair.
  destruct (length (EPair rpar e :: out) <? 2)%nat; [apply transform_paren|].
  destruct HP as [->|(o & -> & Ho)]; cbn [is_output_tok orb negb]; [apply transform_paren|].
  assert (PE : is (op_type o) ot_pairEnd = false).
  { destruct rpar_types as (_ & _ & _ & _ & _ & _ & A & B).
    destruct Ho as [->|[->|[I|I]]]; auto using not_pairEnd_bin, not_pairEnd_left. }
  rewrite PE. cbn [negb]. apply transform_paren.
Qed.

Definition plain_tok (p : ptok) : Prop := (exists a, p = PAtom a) \/ p = POp rpar \/ p = POp rbrk.

Lemma primary_last : forall f, primary f -> plain_tok (lastu f).
Proof. intros f P. destruct P; cbn [lastu]; unfold plain_tok; eauto. Qed.

Lemma attach_call : forall p f a out, plain_tok p ->
  attachPair (Some p) (EPair rpar a :: f :: out) = Some (ECall f a :: out).
Proof.
  intros p f a out HP. unfold attachPair. cbn [length Nat.ltb Nat.leb].
  destruct rpar_types as (_ & B & C & D & _).
  destruct HP as [(x & ->)|[->| ->]]; cbn [is_output_tok orb negb]; rewrite ?C, ?D; cbn [negb]; rewrite B; reflexivity.
Qed.

Lemma attach_sub : forall p f a out, plain_tok p ->
  attachPair (Some p) (EPair rbrk a :: f :: out) = Some (ESub f a :: out).
Proof.
  intros p f a out HP. unfold attachPair. cbn [length Nat.ltb Nat.leb].
  destruct rpar_types as (_ & _ & C & D & E & F & _).
  destruct HP as [(x & ->)|[->| ->]]; cbn [is_output_tok orb negb]; rewrite ?C, ?D; cbn [negb]; rewrite E, F; reflexivity.
Qed.

Theorem consume : forall nxt t, wfE nxt t ->
  forall st rest,
    hd_error rest = nxt ->
    prev_ok (st_prev st) ->
    nop_ok (opsk st) t = true ->
    run st (toks t ++ rest) =
    run (after st (lastu t) (sp_out t ++ outs st) (sp_ops t ++ opsk st)) rest.
Proof.
  induction 1; intros st rest HN HP HB.
  - (* atom *)
    cbn [toks app run step lastu sp_out sp_ops]. reflexivity.
  - (* prefix operator *)
    cbn [toks app]. cbn [run].
    destruct (toks_first _ _ H0) as (x & E).
    assert (NX : hd_error (toks e ++ rest) = Some (first e)) by (rewrite E; reflexivity).
    assert (BU : base_ok u (opsk st) = true).
    { cbn [nop_ok lspine forallb] in HB. rewrite andb_true_r in HB. exact HB. }
    rewrite NX. rewrite (step_left st u (first e) H HP BU).
    assert (P2 : prev_ok (st_prev (after st (POp u) (outs st) (u :: opsk st)))).
    { unfold after. cbn [st_prev]. right. exists u. auto 6. }
    assert (B2 : nop_ok (opsk (after st (POp u) (outs st) (u :: opsk st))) e = true).
    { unfold after, opsk. cbn [st_cur s_ops]. rewrite nop_ok_head. auto. }
    rewrite (IHwfE _ rest HN P2 B2).
    cbn [lastu sp_out sp_ops]. unfold after, outs, opsk. cbn [st_cur s_out s_ops s_before st_rest]. rewrite <- app_assoc. reflexivity.
  - (* postfix operator *)
    cbn [toks]. rewrite <- app_assoc. cbn [app].
    cbn [nop_ok lspine forallb] in HB. apply andb_true_iff in HB. destruct HB as [HB1 HB2].
    rewrite (IHwfE st (POp (lexop r) :: rest) eq_refl HP HB2).
    cbn [run]. rewrite HN.
    rewrite (step_postfix (after st (lastu e) (sp_out e ++ outs st) (sp_ops e ++ opsk st)) r nxt _ e (outs st) H H0 eq_refl H2 H3 eq_refl H1 (opsk st) eq_refl HB1).
    cbn [lastu sp_out sp_ops app]. unfold after. cbn [st_cur s_before st_rest]. reflexivity.
  - (* binary operator *)
    cbn [toks]. rewrite <- app_assoc. cbn [app].
    cbn [nop_ok lspine forallb] in HB. apply andb_true_iff in HB. destruct HB as [HB1 HB2].
    rewrite (IHwfE1 st (POp (lexop b) :: toks r ++ rest) eq_refl HP HB2).
    cbn [run]. rewrite (hd_error_app_first _ _ rest H1).
    assert (AM : is (op_type (lexop b)) ot_ambiguous = true -> ambfix || is_rightop_tok (lastu l) || negb (opish (Some (first r))) = true).
    { intro AM. unfold amb_ok in H4. rewrite AM in H4. exact H4. }
    rewrite (step_binary (after st (lastu l) (sp_out l ++ outs st) (sp_ops l ++ opsk st)) b (first r) _ l (outs st) H H0 eq_refl eq_refl H2 (opsk st) eq_refl HB1 AM).
    assert (P2 : prev_ok (st_prev (after (after st (lastu l) (sp_out l ++ outs st) (sp_ops l ++ opsk st)) (POp b) (l :: outs st) (b :: opsk st)))).
    { unfold after. cbn [st_prev]. right. exists b. auto 6. }
    assert (B2 : nop_ok (opsk (after (after st (lastu l) (sp_out l ++ outs st) (sp_ops l ++ opsk st)) (POp b) (l :: outs st) (b :: opsk st))) r = true).
    { unfold after, opsk. cbn [st_cur s_ops]. rewrite nop_ok_head. auto. }
    rewrite (IHwfE2 _ rest HN P2 B2).
    cbn [lastu sp_out sp_ops]. unfold after, outs, opsk. cbn [st_cur s_out s_ops s_before st_rest].
    rewrite <- !app_assoc. reflexivity.
  - (* parentheses *)
    cbn [toks]. change ((POp lpar :: toks e ++ [POp rpar]) ++ rest) with (POp lpar :: (toks e ++ [POp rpar]) ++ rest).
    rewrite <- app_assoc. cbn [run]. rewrite (hd_error_app_first _ _ ([POp rpar] ++ rest) H).
    assert (S1 : step st (POp lpar) (Some (first e)) =
                 Some (mkState (Some (POp lpar)) (mkScope (st_prev st) [] [lpar]) (st_cur st :: st_rest st))) by reflexivity.
    rewrite S1.
    assert (P2 : prev_ok (st_prev (mkState (Some (POp lpar)) (mkScope (st_prev st) [] [lpar]) (st_cur st :: st_rest st)))).
    { right. exists lpar. auto. }
    assert (B2 : nop_ok (opsk (mkState (Some (POp lpar)) (mkScope (st_prev st) [] [lpar]) (st_cur st :: st_rest st))) e = true).
    { unfold nop_ok, opsk. cbn [st_cur s_ops]. apply forallb_forall. intros q _. reflexivity. }
    rewrite (IHwfE _ ([POp rpar] ++ rest) eq_refl P2 B2).
    cbn [app run]. unfold after at 1. cbn [st_cur s_before st_rest outs opsk s_out s_ops].
    (* the closing parenthesis *)
    unfold step. change (is (op_type rpar) ot_pairStart) with false. change (is (op_type rpar) ot_pairEnd) with true. cbv iota.
    cbn [st_rest st_cur s_before s_ops s_out]. rewrite !app_nil_r.
    unfold prevIsStart. cbn [st_prev]. rewrite (lastu_not_start _ _ H).
    rewrite (close_content _ e rpar lpar false (s_ops (st_cur st)) (s_out (st_cur st)) H); [|vm_compute; reflexivity ..].
    rewrite (attach_paren _ e _ HP).
    cbn [lastu sp_out sp_ops app]. unfold after. cbn [st_cur s_before st_rest]. reflexivity.
  - (* call without arguments *)
    destruct (primary_sp f H) as (SO & SP & LS).
    cbn [toks]. rewrite <- app_assoc. cbn [app].
    rewrite IHwfE; auto.
    2:{ unfold nop_ok. rewrite LS. reflexivity. }
    rewrite SO, SP. cbn [app run hd_error].
    assert (S1 : forall s, step s (POp lpar) (Some (POp rpar)) =
                 Some (mkState (Some (POp lpar)) (mkScope (st_prev s) [] [lpar]) (st_cur s :: st_rest s))) by reflexivity.
    rewrite S1. unfold after at 1. cbn [st_prev st_cur st_rest].
    unfold step. change (is (op_type rpar) ot_pairStart) with false. change (is (op_type rpar) ot_pairEnd) with true. cbv iota.
    cbn [st_rest st_cur s_before s_ops s_out app]. unfold prevIsStart. cbn [st_prev optype_of].
    change (is (op_type lpar) ot_pairStart) with true.
    cbn [closeLoop]. change (is (op_type lpar) ot_pairStart) with true.
    change (ot_eqb (op_type rpar) (ot_shl1 (op_type lpar))) with true. cbv iota.
    unfold after. cbn [st_cur s_out s_ops s_before st_rest].
    assert (AT0 : applyTernary (f :: outs st) = f :: outs st) by (destruct H; reflexivity).
    rewrite AT0.
    assert (AO : applyOperator true rpar (f :: outs st) = Some (EPair rpar EEmpty :: f :: outs st)) by (vm_compute; reflexivity).
    rewrite AO.
    rewrite (attach_call _ f EEmpty (outs st) (primary_last f H)).
    cbn [lastu sp_out sp_ops app]. unfold after. cbn [st_cur s_before st_rest]. reflexivity.
  - (* call with arguments *)
    destruct (primary_sp f H) as (SO & SP & LS).
    cbn [toks]. rewrite <- app_assoc. cbn [app].
    rewrite IHwfE1; auto.
    2:{ unfold nop_ok. rewrite LS. reflexivity. }
    rewrite SO, SP. cbn [app run].
    replace ((toks a ++ [POp rpar]) ++ rest) with (toks a ++ [POp rpar] ++ rest) by (rewrite app_assoc; reflexivity).
    rewrite (hd_error_app_first _ _ ([POp rpar] ++ rest) H1).
    assert (S1 : forall s, step s (POp lpar) (Some (first a)) =
                 Some (mkState (Some (POp lpar)) (mkScope (st_prev s) [] [lpar]) (st_cur s :: st_rest s))) by reflexivity.
    rewrite S1. rewrite IHwfE2; auto.
    2:{ right. exists lpar. auto. }
    2:{ unfold nop_ok, opsk. cbn [st_cur s_ops]. apply forallb_forall. intros q _. reflexivity. }
    cbn [app run]. unfold after at 1. cbn [st_cur s_before st_rest outs opsk s_out s_ops st_prev].
    unfold step. change (is (op_type rpar) ot_pairStart) with false. change (is (op_type rpar) ot_pairEnd) with true. cbv iota.
    cbn [st_rest st_cur s_before s_ops s_out]. rewrite !app_nil_r.
    unfold prevIsStart. cbn [st_prev]. rewrite (lastu_not_start _ _ H1).
    unfold after. cbn [st_cur s_ops s_out s_before st_rest].
    rewrite (close_content _ a rpar lpar false (opsk st) (f :: outs st) H1); [|vm_compute; reflexivity ..].
    cbn [st_prev]. rewrite (attach_call _ f a (outs st) (primary_last f H)).
    cbn [lastu sp_out sp_ops app]. reflexivity.
  - (* subscript *)
    destruct (primary_sp a H) as (SO & SP & LS).
    cbn [toks]. rewrite <- app_assoc. cbn [app].
    rewrite IHwfE1; auto.
    2:{ unfold nop_ok. rewrite LS. reflexivity. }
    rewrite SO, SP. cbn [app run].
    replace ((toks i ++ [POp rbrk]) ++ rest) with (toks i ++ [POp rbrk] ++ rest) by (rewrite app_assoc; reflexivity).
    rewrite (hd_error_app_first _ _ ([POp rbrk] ++ rest) H1).
    assert (S1 : forall s, step s (POp lbrk) (Some (first i)) =
                 Some (mkState (Some (POp lbrk)) (mkScope (st_prev s) [] [lbrk]) (st_cur s :: st_rest s))) by reflexivity.
    rewrite S1. rewrite IHwfE2; auto.
    2:{ right. exists lbrk. auto. }
    2:{ unfold nop_ok, opsk. cbn [st_cur s_ops]. apply forallb_forall. intros q _. reflexivity. }
    cbn [app run]. unfold after at 1. cbn [st_cur s_before st_rest outs opsk s_out s_ops st_prev].
    unfold step. change (is (op_type rbrk) ot_pairStart) with false. change (is (op_type rbrk) ot_pairEnd) with true. cbv iota.
    cbn [st_rest st_cur s_before s_ops s_out]. rewrite !app_nil_r.
    unfold prevIsStart. cbn [st_prev]. rewrite (lastu_not_start _ _ H1).
    unfold after. cbn [st_cur s_ops s_out s_before st_rest].
    rewrite (close_content _ i rbrk lbrk false (opsk st) (a :: outs st) H1); [|vm_compute; reflexivity ..].
    cbn [st_prev]. rewrite (attach_sub _ a i (outs st) (primary_last a H)).
    cbn [lastu sp_out sp_ops app]. reflexivity.
Qed.

(* ---------------------------------------------------------------- the whole parse *)
Theorem parse_toks : forall t, wfE None t -> sy_parse (toks t) = Some t.
Proof.
  intros t W. unfold sy_parse.
  destruct (toks_first _ _ W) as (x & E). rewrite E. rewrite <- E.
  pose proof (consume None t W init_state [] eq_refl (or_introl eq_refl)) as C.
  rewrite app_nil_r in C. rewrite C.
  2:{ unfold nop_ok, init_state, opsk. cbn [st_cur s_ops]. apply forallb_forall. intros q _. reflexivity. }
  cbn [run].
  set (S := after init_state (lastu t) (sp_out t ++ outs init_state) (sp_ops t ++ opsk init_state)).
  assert (OP : opsk S = sp_ops t) by (unfold S, after, opsk, outs, init_state; cbn [st_cur s_ops s_out]; apply app_nil_r).
  assert (OU : outs S = sp_out t) by (unfold S, after, opsk, outs, init_state; cbn [st_cur s_ops s_out]; apply app_nil_r).
  rewrite OP, OU.
  pose proof (rebuild None t W (prevIsStart S) []) as R.
  rewrite app_nil_r in R. rewrite R. clear. destruct t; reflexivity.
Qed.
