(* C15 model: occa::lang::expressionParser (src/occa/internal/lang/expr/expressionParser.cpp, the
   shunting-yard with scopes per bracket pair, ambiguous-operator resolution, pairs, ternary) and the
   print methods of the expression nodes (expr/binaryOpNode.cpp:63-77, leftUnaryOpNode.cpp, rightUnaryOpNode.cpp,
   parenthesesNode.cpp, callNode.cpp, subscriptNode.cpp, ternaryOpNode.cpp, primitiveNode.cpp, identifierNode.cpp,
   stringNode.cpp, charNode.cpp, sizeofNode.cpp, throwNode.cpp, tupleNode.cpp).  Tokens come from the C12
   tokenizer model; the operator table (symbols, types, precedences, associativity, type masks) is the one
   regenerated from operator.cpp (coq/gen/C12_OpTable.v).

   Lists that the C++ keeps as std::list with push_back/pop_back are Coq lists with the *back at the head*.
   A call keeps the expression between its parentheses as parsed (a left-nested comma tree); the C++
   callNode stores extractArgs of it and prints the same text; the drivers flatten it for comparison.

   Not modelled: type tokens and casts (the expression parser sees identifiers), new/delete, cuda calls,
   lambdas, the line wrapping of long call arguments (callNode.cpp:66-110), error messages.
   `c15fix` switches the repairs of fixes/C15-1.patch (a blank between two left-unary operators that
   would otherwise lex as one operator) and fixes/C15-2.patch (sizeof(x) no longer prints as sizeof((x))). *)
From Coq Require Import List ZArith Bool.
From OV.C12 Require Import OpDefs Model.
From OV.gen Require Import C12_OpTable C15_Flags.
Import ListNotations.
Local Open Scope Z_scope.

(* ---------------------------------------------------------------- tokens seen by the expression parser *)
Inductive atom : Type :=
| AId (v : list Z)
| APrim (src : list Z)
| AStr (v : list Z)        (* stringNode keeps the value only: encoding prefix and suffix are dropped *)
| AChr (v : list Z).

Inductive ptok : Type :=
| PAtom (a : atom)
| POp (o : oper).

(* newline, comment and unknown tokens never reach the shunting-yard (statements strip the first two,
   getInitialExpression ignores token types that are neither output nor operator) *)
Definition ptok_of_token (t : token) : option ptok :=
  match t with
  | TIdent v => Some (PAtom (AId v))
  | TPrim v => Some (PAtom (APrim v))
  | TString _ v _ => Some (PAtom (AStr v))
  | TChar _ v _ => Some (PAtom (AChr v))
  | TOp o => Some (POp o)
  | TNewline | TComment _ | TUnknown _ => None
  end.
Fixpoint ptoks_of (ts : list token) : list ptok :=
  match ts with
  | [] => []
  | t :: r => match ptok_of_token t with Some p => p :: ptoks_of r | None => ptoks_of r end
  end.

(* ---------------------------------------------------------------- expression nodes *)
Inductive expr : Type :=
| EAtom (a : atom)
| ELeft (o : oper) (e : expr)        (* leftUnaryOpNode *)
| ERight (o : oper) (e : expr)       (* rightUnaryOpNode *)
| EBin (o : oper) (l r : expr)       (* binaryOpNode *)
| EParen (e : expr)                  (* parenthesesNode *)
| ECall (f : expr) (a : expr)        (* callNode: a is the comma tree (or EEmpty) between the parentheses *)
| ESub (a i : expr)                  (* subscriptNode *)
| ETern (c a b : expr)               (* ternaryOpNode *)
| ESizeof (e : expr)
| EThrow (e : expr)
| ETuple (a : expr)
| EEmpty                             (* noExprNode *)
| EPair (o : oper) (e : expr).       (* pairNode: only inside the parser *)

(* token_t::getOpType *)
Definition optype_of (t : option ptok) : optype :=
  match t with
  | Some (POp o) => op_type o
  | _ => ot_none
  end.

Definition is (a mask : optype) : bool := ot_has a mask.

(* bitfield << 1 on two 64-bit words *)
Definition ot_shl1 (a : optype) : optype :=
  let two64 := 18446744073709551616 in
  ((fst a * 2 + snd a / 9223372036854775808) mod two64, (snd a * 2) mod two64).

(* ---------------------------------------------------------------- parser state *)
Record scope : Type := mkScope {
  s_before : option ptok;       (* beforePairToken *)
  s_out : list expr;            (* output, back first *)
  s_ops : list oper }.          (* operators, back first *)

(* state.beforePairToken is not a field: it is written by pushPair/popPair and read only by attachPair
   directly after popPair, where it equals the popped scope's s_before *)
Record pstate : Type := mkState {
  st_prev : option ptok;        (* prevToken *)
  st_cur : scope;               (* scopedStates.back() *)
  st_rest : list scope }.       (* the enclosing scopes *)

Definition outs (st : pstate) := s_out (st_cur st).
Definition opsk (st : pstate) := s_ops (st_cur st).

(* applyTernary (777-816): [.. check, ?true, :false] -> ternary *)
Definition applyTernary (o : list expr) : list expr :=
  match o with
  | ELeft o2 f :: ELeft o1 t :: c :: rest =>
    if ot_eqb (op_type o1) ot_questionMark && ot_eqb (op_type o2) ot_colon
    then ETern c t f :: rest else o
  | _ => o
  end.

(* applyLeftUnaryOperator (721-775); None = hasError *)
Definition applyLeftUnary (o : oper) (v : expr) : option expr :=
  if negb (is (op_type o) ot_special) then Some (ELeft o v)
  else if is (op_type o) ot_parenCast then None            (* needs a type node: not in this model *)
  else if is (op_type o) ot_sizeof_ then Some (ESizeof v)
  else if is (op_type o) ot_new_ then None
  else if is (op_type o) ot_delete_ then None
  else if is (op_type o) ot_throw_ then Some (EThrow v)
  else None.

(* applyOperator (658-719) on the current scope's output; prevIsStart = prevToken is a pairStart *)
Definition applyOperator (prevIsStart : bool) (o : oper) (out : list expr) : option (list expr) :=
  if is (op_type o) ot_binary then
    match out with
    | r :: l :: rest => Some (EBin o l r :: rest)
    | _ => None
    end
  else if is (op_type o) ot_leftUnary then
    match out with
    | v :: rest =>
      match applyLeftUnary o v with
      | Some e => Some (if is (op_type o) ot_colon then applyTernary (e :: rest) else e :: rest)
      | None => None
      end
    | [] => None
    end
  else if is (op_type o) ot_rightUnary then
    match out with
    | v :: rest => Some (ERight o v :: rest)
    | [] => None
    end
  else if is (op_type o) ot_pair then
    match out with
    | v :: rest => if prevIsStart then Some (EPair o EEmpty :: out) else Some (EPair o v :: rest)
    | [] => Some [EPair o EEmpty]
    end
  else Some out.

(* operatorIsLeftUnary (485-561); None = hasError ("Ambiguous operator").
   `ambfix` (coq/gen/C15_Flags.v, written by tools/C15_flags.py from the source) tells whether the source
   has the branch that makes + - * & binary after an operand whatever follows. *)
Definition operatorIsLeftUnary (prev next : option ptok) (o : oper) : option bool :=
  let opType := op_type o in
  let chainable := ot_or (ot_or ot_increment ot_decrement) ot_parentheses in
  let onlyUnary := is opType (ot_or ot_increment ot_decrement) in
  match prev, next with
  | None, _ => Some true
  | Some _, None => Some false
  | Some _, Some nx =>
    let prevOpType := optype_of prev in
    if is prevOpType ot_pairStart then Some true
    else
      let prevTokenIsOp := is prevOpType (ot_or ot_unary ot_binary) in
      let early :=
        if prevTokenIsOp then
          if is prevOpType ot_leftUnary || (is prevOpType ot_binary && negb (is prevOpType ot_unary))
          then Some true
          else if negb onlyUnary then Some false else None
        else if ambfix && negb onlyUnary then Some false      (* fixes/C14-7.patch, when present in the source *)
        else None in
      match early with
      | Some b => Some b
      | None =>
        let nextTokenIsOp := is (optype_of next) (ot_or ot_unary ot_binary) in
        if negb (Bool.eqb prevTokenIsOp nextTokenIsOp)
        then Some (if onlyUnary then prevTokenIsOp else nextTokenIsOp)
        else if negb prevTokenIsOp
        then (if onlyUnary then None else Some false)
        else
          let nextOpType := optype_of next in
          if is prevOpType chainable && is nextOpType chainable then None
          else Some (negb (is prevOpType chainable))
      end
  end.

(* updateOperatorToken (563-621) *)
Definition updateOperator (prev next : option ptok) (o : oper) : option oper :=
  if negb (is (op_type o) ot_ambiguous) then Some o
  else
    match operatorIsLeftUnary prev next o with
    | None => None
    | Some lu =>
      let t := op_type o in
      if is t ot_plus then Some (if lu then op_positive else op_add)
      else if is t ot_minus then Some (if lu then op_negative else op_sub)
      else if is t ot_asterisk then Some (if lu then op_dereference else op_mult)
      else if is t ot_ampersand then Some (if lu then op_address else op_bitAnd)
      else if is t ot_increment then Some (if lu then op_leftIncrement else op_rightIncrement)
      else if is t ot_decrement then Some (if lu then op_leftDecrement else op_rightDecrement)
      else if is t ot_scope then Some (if lu then op_globalScope else op_scope)
      else None
    end.

Definition assoc_left (prec : Z) : bool := nth (Z.to_nat prec) associativity 0 =? 0.

(* the loop of applyFasterOperators (631-651) *)
Fixpoint popFaster (prevIsStart : bool) (o : oper) (stack : list oper) (out : list expr)
  : option (list oper * list expr) :=
  match stack with
  | [] => Some ([], out)
  | p :: rest =>
    if is (op_type p) ot_pairStart then Some (stack, out)
    else if (op_prec p <? op_prec o) || ((op_prec o =? op_prec p) && assoc_left (op_prec p)) then
      match applyOperator prevIsStart p out with
      | Some out' => popFaster prevIsStart o rest out'
      | None => None
      end
    else Some (stack, out)
  end.

Definition prevIsStart (st : pstate) : bool := is (optype_of (st_prev st)) ot_pairStart.

(* applyFasterOperators (623-656): returns the state and the (possibly re-typed) operator *)
Definition applyFaster (st : pstate) (next : option ptok) (o : oper) : option (pstate * oper) :=
  match updateOperator (st_prev st) next o with
  | None => None
  | Some o' =>
    match popFaster (prevIsStart st) o' (opsk st) (outs st) with
    | None => None
    | Some (stk, out) =>
      Some (mkState (st_prev st) (mkScope (s_before (st_cur st)) out (o' :: stk)) (st_rest st), o')
    end
  end.

(* closePair (303-344) after the closing operator has been popped: apply operators down to the opener *)
Fixpoint closeLoop (pis : bool) (closer : oper) (stack : list oper) (out : list expr)
  : option (list oper * list expr) :=
  match stack with
  | [] => None
  | p :: rest =>
    if is (op_type p) ot_pairStart then
      if ot_eqb (op_type closer) (ot_shl1 (op_type p)) then
        match applyOperator pis closer (applyTernary out) with
        | Some out' => Some (rest, out')
        | None => None
        end
      else None
    else
      match applyOperator pis p out with
      | Some out' => closeLoop pis closer rest out'
      | None => None
      end
  end.

Definition is_output_tok (t : option ptok) : bool := match t with Some (PAtom _) => true | _ => false end.

(* transformLastPair (373-407) *)
Definition transformLastPair (out : list expr) : option (list expr) :=
  match out with
  | EPair po v :: rest =>
    if negb (is (op_type po) (ot_or ot_parentheses ot_braces)) then None
    else if is (op_type po) ot_parentheses then Some (EParen v :: rest)
    else Some (ETuple v :: rest)
  | _ => None
  end.

(* attachPair (409-483) *)
Definition attachPair (before : option ptok) (out : list expr) : option (list expr) :=
  if (length out <? 2)%nat then transformLastPair out
  else if negb (is_output_tok before || match before with Some (POp _) => true | _ => false end)
  then transformLastPair out
  else if (match before with Some (POp b) => negb (is (op_type b) ot_pairEnd) | _ => false end)
  then transformLastPair out
  else
    match out with
    | EPair po a :: value :: rest =>
      if is (op_type po) ot_parentheses then Some (ECall value a :: rest)
      else if is (op_type po) ot_brackets then Some (ESub value a :: rest)
      else None
    | _ => None
    end.

(* one iteration of getInitialExpression (216-263) *)
Definition step (st : pstate) (tok : ptok) (next : option ptok) : option pstate :=
  match tok with
  | PAtom a =>
    Some (mkState (Some tok) (mkScope (s_before (st_cur st)) (EAtom a :: outs st) (opsk st)) (st_rest st))
  | POp o =>
    if is (op_type o) ot_pairStart then
      (* pushPair(prevToken); pushOperator *)
      Some (mkState (Some tok) (mkScope (st_prev st) [] [o]) (st_cur st :: st_rest st))
    else if is (op_type o) ot_pairEnd then
      (* pushOperator; popPair: the scope's left-overs are appended to the enclosing scope; closePair; attachPair *)
      match st_rest st with
      | [] => None        (* popPair on the last scope: scopedStates would be empty (undefined behaviour in the C++) *)
      | outer :: rest =>
        let before := s_before (st_cur st) in
        let mops := s_ops (st_cur st) ++ s_ops outer in
        let mout := s_out (st_cur st) ++ s_out outer in
        match closeLoop (prevIsStart st) o mops mout with
        | None => None
        | Some (stk, out) =>
          match attachPair before out with
          | None => None
          | Some out' => Some (mkState (Some tok) (mkScope (s_before outer) out' stk) rest)
          end
        end
      end
    else
      match applyFaster st next o with
      | None => None
      | Some (st', o') => Some (mkState (Some (POp o')) (st_cur st') (st_rest st'))
      end
  end.

Fixpoint run (st : pstate) (toks : list ptok) : option pstate :=
  match toks with
  | [] => Some st
  | t :: r =>
    match step st t (hd_error r) with
    | None => None
    | Some st' => run st' r
    end
  end.

(* the tail of parse() (189-213): apply what is left in the current scope *)
Fixpoint finish (pis : bool) (stack : list oper) (out : list expr) : option (list expr) :=
  match stack with
  | [] => Some out
  | p :: rest =>
    match applyOperator pis p out with
    | Some out' => finish pis rest out'
    | None => None
    end
  end.

Definition init_state : pstate := mkState None (mkScope None [] []) [].

(* expressionParser::parse: None = NULL (error) *)
Definition sy_parse (toks : list ptok) : option expr :=
  match toks with
  | [] => Some EEmpty
  | _ =>
    match run init_state toks with
    | None => None
    | Some st =>
      match finish (prevIsStart st) (opsk st) (outs st) with
      | None => None
      | Some out =>
        match out with
        | [] => Some EEmpty
        | [e] => Some (hd e (applyTernary out))
        | _ => None
        end
      end
    end
  end.

(* ---------------------------------------------------------------- printers *)
Definition sym_last (o : oper) : Z := last (op_sym o) 0.
Definition sym_first (o : oper) : Z := hd 0 (op_sym o).

(* fixes/C15-1.patch: a blank when the inner left-unary operator starts with the byte this one ends with
   and the two would lex as one operator (+ -, &) *)
Definition glue_space (c15fix : bool) (o : oper) (e : expr) : bool :=
  c15fix &&
  match e with
  | ELeft o2 _ => (sym_last o =? sym_first o2) && inb (sym_last o) [43; 45; 38]
  | _ => false
  end.

Definition dotlike (o : oper) : bool :=
  is (op_type o) (ot_or ot_scope (ot_or ot_dot (ot_or ot_dotStar (ot_or ot_arrow ot_arrowStar)))).

Section Print.
Variable fx : fixes.          (* C12 repairs: escape *)
Variable c15fix : bool.

Definition print_atom (a : atom) : list Z :=
  match a with
  | AId v => v
  | APrim v => v
  | AStr v => [34] ++ escape fx 34 v ++ [34]
  | AChr v => [39] ++ escape fx 39 v ++ [39]
  end.

Fixpoint print (e : expr) : list Z :=
  match e with
  | EAtom a => print_atom a
  | ELeft o v => op_sym o ++ (if glue_space c15fix o v then [32] else []) ++ print v
  | ERight o v => print v ++ op_sym o
  | EBin o l r =>
    if dotlike o then print l ++ op_sym o ++ print r
    else if is (op_type o) ot_comma then print l ++ [44; 32] ++ print r
    else print l ++ [32] ++ op_sym o ++ [32] ++ print r
  | EParen v => [40] ++ print v ++ [41]
  | ECall f a => print f ++ [40] ++ print a ++ [41]
  | ESub a i => print a ++ [91] ++ print i ++ [93]
  | ETern c a b => print c ++ [32; 63; 32] ++ print a ++ [32; 58; 32] ++ print b
  | ESizeof v =>
    match v with
    | EParen _ => if c15fix then [115; 105; 122; 101; 111; 102] ++ print v          (* fixes/C15-2.patch *)
                  else [115; 105; 122; 101; 111; 102; 40] ++ print v ++ [41]
    | _ => [115; 105; 122; 101; 111; 102; 40] ++ print v ++ [41]
    end
  | EThrow v => [116; 104; 114; 111; 119] ++ match v with EEmpty => [] | _ => [32] ++ print v end
  | ETuple a => [123] ++ print a ++ [125]
  | EEmpty => []
  | EPair _ _ => []
  end.

End Print.

(* ---------------------------------------------------------------- source text -> tree *)
Definition parse_source (fx : fixes) (buf : list Z) : res (option expr) :=
  ts <- tokenize fx tokenizer_ops buf ;; Ok (sy_parse (ptoks_of ts)).

(* extractArgs (346-371): the arguments of a call, in order *)
Fixpoint comma_args (a : expr) : list expr :=
  match a with
  | EBin o l r => if is (op_type o) ot_comma then comma_args l ++ [r] else [a]
  | _ => [a]
  end.
