(* C15 reference semantics.
   (1) Round trip: for a source text that the expression parser accepts with tree t, the printed text of
       t parses to t again.
   (2) Meaning: the tree is the one the C++ grammar assigns.  The reference is a precedence-climbing
       parser with the operator levels of the C++ standard written out here (not taken from
       operator.cpp), over the fragment: literals, identifiers, parentheses, prefix operators
       ! ~ - + * & ++ --, postfix ++ --, calls, subscripts, member access, and the binary operators
       from multiplicative down to comma.
   The two token shapes that the expression parser rejects although they are valid C are described
   by `occa_rejects` (an ambiguous binary operator + - * & followed by an operator token; a postfix
   ++/-- followed by a closing bracket); the property is conditional on a successful parse. *)
From Coq Require Import List ZArith Bool.
From OV.C12 Require Import OpDefs Model.
From OV.C15 Require Import Model.
From OV.gen Require Import C12_OpTable C15_Flags.
Import ListNotations.
Local Open Scope Z_scope.

(* level and right-associativity of the binary operators, by spelling (C++ standard [expr]) *)
Definition ref_binary (sym : list Z) : option (Z * bool) :=
  let is_ s := list_eqb sym s in
  if is_ [58; 58] then Some (1, false)                                         (* ::            *)
  else if is_ [46] || is_ [45; 62] then Some (2, false)                        (* . ->          *)
  else if is_ [46; 42] || is_ [45; 62; 42] then Some (4, false)                (* .* ->*        *)
  else if is_ [42] || is_ [47] || is_ [37] then Some (5, false)                (* * / %         *)
  else if is_ [43] || is_ [45] then Some (6, false)                            (* + -           *)
  else if is_ [60; 60] || is_ [62; 62] then Some (7, false)                    (* << >>         *)
  else if is_ [60] || is_ [60; 61] || is_ [62] || is_ [62; 61] then Some (9, false)   (* < <= > >=  *)
  else if is_ [61; 61] || is_ [33; 61] then Some (10, false)                   (* == !=         *)
  else if is_ [38] then Some (11, false)                                       (* &             *)
  else if is_ [94] then Some (12, false)                                       (* ^             *)
  else if is_ [124] then Some (13, false)                                      (* |             *)
  else if is_ [38; 38] then Some (14, false)                                   (* &&            *)
  else if is_ [124; 124] then Some (15, false)                                 (* ||            *)
  else if is_ [61] || is_ [43; 61] || is_ [45; 61] || is_ [42; 61] || is_ [47; 61] || is_ [37; 61]
          || is_ [38; 61] || is_ [124; 61] || is_ [94; 61] || is_ [60; 60; 61] || is_ [62; 62; 61]
       then Some (17, true)                                                    (* assignment    *)
  else if is_ [44] then Some (18, false)                                       (* ,             *)
  else None.

Definition ref_prefix (sym : list Z) : bool :=
  existsb (list_eqb sym) [[33]; [126]; [45]; [43]; [42]; [38]; [43; 43]; [45; 45]].
Definition ref_postfix (sym : list Z) : bool :=
  existsb (list_eqb sym) [[43; 43]; [45; 45]].

(* the operator objects the nodes carry, by role *)
Definition find_role (sym : list Z) (klass : Z) (mask : optype) : option oper :=
  find (fun o => list_eqb (op_sym o) sym && (op_class o =? klass) && ot_has (op_type o) mask
                 && negb (ot_has (op_type o) ot_special)) all_ops.
Definition binary_op (sym : list Z) := find_role sym 2 ot_binary.
Definition prefix_op (sym : list Z) := find_role sym 1 ot_leftUnary.
Definition postfix_op (sym : list Z) := find_role sym 1 ot_rightUnary.

Definition sym_is (t : ptok) (s : list Z) : bool :=
  match t with POp o => list_eqb (op_sym o) s | _ => false end.

(* expression whose top operator has level <= maxl; fuel bounds the recursion depth *)
Fixpoint ref_expr (fuel : nat) (maxl : Z) (ts : list ptok) : option (expr * list ptok) :=
  match fuel with
  | O => None
  | S f =>
    (* operand: prefix operator (level 3), primary *)
    let operand : option (expr * list ptok) :=
      match ts with
      | PAtom a :: r => Some (EAtom a, r)
      | POp o :: r =>
        if list_eqb (op_sym o) [40] then
          match ref_expr f 18 r with
          | Some (e, t2 :: r2) => if sym_is t2 [41] then Some (EParen e, r2) else None
          | _ => None
          end
        else if ref_prefix (op_sym o) && (3 <=? maxl) then
          match prefix_op (op_sym o), ref_expr f 3 r with
          | Some po, Some (e, r2) => Some (ELeft po e, r2)
          | _, _ => None
          end
        else None
      | [] => None
      end in
    match operand with
    | None => None
    | Some (e0, r0) =>
      (* operators after an operand: postfix (level 2), binary *)
      (fix loop (n : nat) (lhs : expr) (rest : list ptok) {struct n} : option (expr * list ptok) :=
         match n with
         | O => None
         | S n' =>
           match rest with
           | POp o :: r =>
             if list_eqb (op_sym o) [40] && (2 <=? maxl) then
               if (match r with t2 :: _ => sym_is t2 [41] | [] => false end)
               then loop n' (ECall lhs EEmpty) (tl r)
               else match ref_expr f 18 r with
                    | Some (a, t2 :: r2) => if sym_is t2 [41] then loop n' (ECall lhs a) r2 else None
                    | _ => None
                    end
             else if list_eqb (op_sym o) [91] && (2 <=? maxl) then
               match ref_expr f 18 r with
               | Some (i, t2 :: r2) => if sym_is t2 [93] then loop n' (ESub lhs i) r2 else None
               | _ => None
               end
             else if ref_postfix (op_sym o) && (2 <=? maxl)
                     && negb (match r with PAtom _ :: _ => true | POp o2 :: _ => list_eqb (op_sym o2) [40] | [] => false end) then
               match postfix_op (op_sym o) with
               | Some po => loop n' (ERight po lhs) r
               | None => None
               end
             else
               match ref_binary (op_sym o) with
               | Some (lv, rassoc) =>
                 if lv <=? maxl then
                   match binary_op (op_sym o), ref_expr f (if rassoc then lv else lv - 1) r with
                   | Some bo, Some (rhs, r2) => loop n' (EBin bo lhs rhs) r2
                   | _, _ => None
                   end
                 else Some (lhs, rest)
               | None => Some (lhs, rest)
               end
           | _ => Some (lhs, rest)
           end
         end) (S (length r0)) e0 r0
    end
  end.

Definition ref_parse (ts : list ptok) : option expr :=
  match ref_expr (S (length ts)) 18 ts with
  | Some (e, []) => Some e
  | _ => None
  end.

(* the two shapes of valid C that expressionParser::operatorIsLeftUnary rejects *)
Definition is_opish (t : ptok) : bool :=
  match t with POp o => ot_has (op_type o) (ot_or ot_unary ot_binary) | _ => false end.
Definition is_operand_end (t : ptok) : bool :=
  match t with PAtom _ => true | POp o => ot_has (op_type o) ot_pairEnd end.
Fixpoint occa_rejects (prev : option ptok) (ts : list ptok) : bool :=
  match ts with
  | [] => false
  | t :: r =>
    (match prev, t, r with
     | Some p, POp o, nx :: _ =>
       is_operand_end p &&
       ((negb ambfix && existsb (list_eqb (op_sym o)) [[43]; [45]; [42]; [38]] && is_opish nx)
        || (existsb (list_eqb (op_sym o)) [[43; 43]; [45; 45]]
            && match nx with POp o2 => ot_has (op_type o2) ot_pairEnd | _ => false end))
     | _, _, _ => false
     end) || occa_rejects (Some t) r
  end.

(* what the implementation must answer for a source in the reference fragment *)
Inductive verdict : Type :=
| VTree (e : expr)       (* parses to e, and the printed form parses to e *)
| VRejected              (* one of the documented rejected shapes *)
| VOutside.              (* not in the reference fragment: only the round trip is required *)

Definition spec_verdict (ts : list ptok) : verdict :=
  if occa_rejects None ts then VRejected
  else match ref_parse ts with
       | Some e => VTree e
       | None => VOutside
       end.
