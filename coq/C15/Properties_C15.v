From OV.C12 Require Import OpDefs Model.
From OV.C15 Require Import Model Spec.
From Coq Require Import List ZArith.
Import ListNotations.
Local Open Scope Z_scope.
Example placeholder : sy_parse [] = Some EEmpty.
Proof. reflexivity. Qed.
Print Assumptions placeholder.
