(* C15 — printing a parsed program preserves its meaning and re-parses identically.
   Vocabulary: C15/Model.v (expressionParser's shunting-yard `sy_parse`, the node printers `print`,
   `parse_source` = C12 tokenizer + sy_parse), C15/Spec.v (reference levels of the C++ standard),
   C15/ProofsParser.v (`toks`: the token sequence of a tree; `wfE`: the trees the parser reproduces),
   coq/gen/C12_OpTable.v (operator table regenerated from operator.cpp).
   Level: partial.  Proved: the expression fragment below.  Ternary, sizeof, declarations, statements and
   programs are tested by the check (print -> re-parse -> dump comparison, g++ values), not proved. *)
From Coq Require Import List ZArith Bool.
From OV.C12 Require Import OpDefs Model Spec Table ProofsRoundtrip ProofsTable.
From OV.C15 Require Import Model Spec ProofsParser ProofsPrint.
From OV.gen Require Import C12_OpTable C15_Flags.
Import ListNotations.
Local Open Scope Z_scope.

(* ---------------------------------------------------------------- the regenerated operator table *)
(* every binary operator of the tokenizer has the level and the associativity the C++ standard gives it
   (written out in Spec.ref_binary); prefix operators are level 3, right-associative; postfix ++/-- level 2 *)
Theorem table_ok :
  forallb (fun b => match ref_binary (op_sym b) with
                    | Some (lv, rassoc) => (op_prec b =? lv) && Bool.eqb (negb (assoc_left (op_prec b))) rassoc
                    | None => false
                    end) binops = true
  /\ forallb (fun u => (op_prec u =? 3) && negb (assoc_left 3)) leftops = true
  /\ forallb (fun r => (op_prec r =? 2) && assoc_left 2) rightops = true
  /\ forallb bin_fact binops = true /\ forallb left_fact leftops = true /\ forallb right_fact rightops = true
  /\ length binops = 35%nat.
Proof. repeat split; vm_compute; reflexivity. Qed.
Print Assumptions table_ok.

(* ---------------------------------------------------------------- the shunting-yard rebuilds its image
   wfE nxt t (ProofsParser.v): t is built from atoms, the prefix operators ! ~ + - * & ++ --, postfix ++ --,
   the tokenizer's binary operators, parentheses, calls and subscripts such that
     - a binary or postfix operator pops every pending operator of its left operand (allpop),
     - no operator on the left spine of a right operand / prefix operand pops its parent (nop_ok),
       both by the table's precedence and associativity,
     - the spellings + - * & ++ -- are resolved as the tree says by operatorIsLeftUnary (amb_ok,
       right_next_ok; nxt is the token after t). *)
Theorem shunting_yard_identity : forall t, wfE None t -> sy_parse (toks t) = Some t.
Proof. exact parse_toks. Qed.
Print Assumptions shunting_yard_identity.

(* the general step: the tokens of a well-formed tree, consumed on top of any stacks, leave the pending
   right spine of the tree on those stacks *)
Theorem shunting_yard_consume : forall nxt t, wfE nxt t -> forall st rest,
  hd_error rest = nxt -> prev_ok (st_prev st) -> nop_ok (opsk st) t = true ->
  run st (toks t ++ rest) =
  run (after st (lastu t) (sp_out t ++ outs st) (sp_ops t ++ opsk st)) rest.
Proof. exact consume. Qed.
Print Assumptions shunting_yard_consume.

(* ---------------------------------------------------------------- printed text -> same tree
   Full statement (the property, expression part):
     forall t, wfE None t -> atoms of t are good C12 tokens ->
       parse_source fixed (print fixed true t ++ [0]) = Ok (Some t).
   Proved here for the trees whose printed form separates all tokens by blanks (btree: atoms joined by the
   binary operators that print as ` op `); for the other constructors (prefix/postfix operators,
   parentheses, calls, subscripts, comma, member access) the parser half is shunting_yard_identity and
   the lexing of the unspaced neighbours (`-a`, `f(`, `a[`, `a,`) is C12's tokenizer model, proved there for
   blank-separated tokens only; the check's differential runs cover them. *)
Theorem reparse_identity_partial : forall t, btree t -> wfE None t ->
  parse_source fixed (print fixed true t ++ [0]) = Ok (Some t).
Proof. exact reparse_spaced. Qed.
Print Assumptions reparse_identity_partial.

(* printing such a tree is printing its tokens, one blank apart *)
Theorem print_is_token_sequence : forall c15fix t, btree t ->
  print fixed c15fix t = printSeq fixed (ctoks t) /\ ptoks_of (ctoks t) = toks t.
Proof. intros. split; [apply print_btree | apply ptoks_ctoks]; auto. Qed.
Print Assumptions print_is_token_sequence.

(* ---------------------------------------------------------------- the code as found *)
Definition x_ : expr := EAtom (AId [120]).

(* - -x, + +x, & &x, - --x print as --x, ++x, &&x, ---x and come back as other trees or not at all *)
Theorem unary_glue_refuted :
  parse_source fixed (print fixed false (ELeft op_negative (ELeft op_negative x_)) ++ [0]) = Ok (Some (ELeft op_leftDecrement x_)) /\
  parse_source fixed (print fixed false (ELeft op_positive (ELeft op_positive x_)) ++ [0]) = Ok (Some (ELeft op_leftIncrement x_)) /\
  parse_source fixed (print fixed false (ELeft op_address (ELeft op_address x_)) ++ [0]) = Ok None /\
  parse_source fixed (print fixed false (ELeft op_negative (ELeft op_leftDecrement x_)) ++ [0])
    = Ok (Some (ELeft op_leftDecrement (ELeft op_negative x_))) /\
  wfE None (ELeft op_negative (ELeft op_negative x_)).
Proof.
  repeat split; try (vm_compute; reflexivity).
  apply W_left; [cbn; auto | | vm_compute; reflexivity].
  apply W_left; [cbn; auto | apply W_atom | vm_compute; reflexivity].
Qed.
Print Assumptions unary_glue_refuted.

(* with fixes/C15-1.patch they come back unchanged *)
Theorem unary_glue_fixed :
  parse_source fixed (print fixed true (ELeft op_negative (ELeft op_negative x_)) ++ [0]) = Ok (Some (ELeft op_negative (ELeft op_negative x_))) /\
  parse_source fixed (print fixed true (ELeft op_positive (ELeft op_positive x_)) ++ [0]) = Ok (Some (ELeft op_positive (ELeft op_positive x_))) /\
  parse_source fixed (print fixed true (ELeft op_address (ELeft op_address x_)) ++ [0]) = Ok (Some (ELeft op_address (ELeft op_address x_))) /\
  parse_source fixed (print fixed true (ELeft op_negative (ELeft op_leftDecrement x_)) ++ [0])
    = Ok (Some (ELeft op_negative (ELeft op_leftDecrement x_))).
Proof. repeat split; vm_compute; reflexivity. Qed.
Print Assumptions unary_glue_fixed.

(* sizeof(x) printed as sizeof((x)) (as found) / sizeof(x) (fixes/C15-2.patch) *)
Theorem sizeof_parentheses_refuted :
  parse_source fixed (print fixed false (ESizeof (EParen x_)) ++ [0]) = Ok (Some (ESizeof (EParen (EParen x_)))) /\
  parse_source fixed (print fixed true (ESizeof (EParen x_)) ++ [0]) = Ok (Some (ESizeof (EParen x_))).
Proof. split; vm_compute; reflexivity. Qed.
Print Assumptions sizeof_parentheses_refuted.

(* valid C that expressionParser does not parse (outside the property, which is conditional on a parse):
   a + -b (unless the source has fixes/C14-7.patch: ambfix),  (a++),  a ? b ? c : d : e *)
Theorem rejected_shapes :
  (ambfix = false -> parse_source fixed ([97; 32; 43; 32; 45; 98] ++ [0]) = Ok None) /\
  parse_source fixed ([40; 97; 43; 43; 41] ++ [0]) = Ok None /\
  parse_source fixed ([97; 63; 98; 63; 99; 58; 100; 58; 101] ++ [0]) = Ok None.
Proof.
  repeat split; try (vm_compute; reflexivity); intro H; vm_compute in H; try discriminate; vm_compute; reflexivity.
Qed.
Print Assumptions rejected_shapes.

(* ---------------------------------------------------------------- non-vacuity *)
Definition id_ (c : Z) : expr := EAtom (AId [c]).

(* a = f(x, y)[i]++ + (b - c) / !d *)
Definition example_tree : expr :=
  EBin op_assign (id_ 97)
    (EBin op_add
       (ERight op_rightIncrement (ESub (ECall (id_ 102) (EBin op_comma (id_ 120) (id_ 121))) (id_ 105)))
       (EBin op_div (EParen (EBin op_sub (id_ 98) (id_ 99))) (ELeft op_not_ (id_ 100)))).

Example example_wf : wfE None example_tree.
Proof.
  unfold example_tree, id_.
  apply W_bin; [vm_compute; tauto | apply W_atom | | vm_compute; reflexivity ..].
  apply W_bin; [vm_compute; tauto | | | vm_compute; reflexivity ..].
  - apply W_right; [cbn; auto | | vm_compute; reflexivity ..].
    apply W_sub; [constructor | | apply W_atom].
    apply W_call; [constructor | apply W_atom | ].
    apply W_bin; [vm_compute; tauto | apply W_atom | apply W_atom | vm_compute; reflexivity ..].
  - apply W_bin; [vm_compute; tauto | | | vm_compute; reflexivity ..].
    + apply W_paren. apply W_bin; [vm_compute; tauto | apply W_atom | apply W_atom | vm_compute; reflexivity ..].
    + apply W_left; [cbn; auto | apply W_atom | vm_compute; reflexivity].
Qed.

Example example_end_to_end :
  parse_source fixed (print fixed true example_tree ++ [0]) = Ok (Some example_tree)
  /\ print fixed true example_tree =
     [97; 32; 61; 32; 102; 40; 120; 44; 32; 121; 41; 91; 105; 93; 43; 43; 32; 43; 32; 40; 98; 32; 45; 32; 99; 41; 32; 47; 32; 33; 100].
Proof. split; vm_compute; reflexivity. Qed.

(* a << b + c * d : spaced, parsed with + and * below << *)
Definition example_btree : expr :=
  EBin op_leftShift (id_ 97) (EBin op_add (id_ 98) (EBin op_mult (id_ 99) (id_ 100))).
Example example_btree_ok : btree example_btree /\ wfE None example_btree
  /\ spec_verdict (toks example_btree) = VTree example_btree.
Proof.
  unfold example_btree, id_. split; [|split].
  - repeat (apply BT_bin; [vm_compute; tauto | vm_compute; reflexivity | | ]); apply BT_atom; vm_compute; reflexivity.
  - apply W_bin; [vm_compute; tauto | apply W_atom | | vm_compute; reflexivity ..].
    apply W_bin; [vm_compute; tauto | apply W_atom | | vm_compute; reflexivity ..].
    apply W_bin; [vm_compute; tauto | apply W_atom | apply W_atom | vm_compute; reflexivity ..].
  - vm_compute. reflexivity.
Qed.
