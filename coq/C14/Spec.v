(* C14 — the reference semantics: what a C++17 compiler computes for a constant expression on
   an LP64 target (x86-64 Linux / g++), written from the standard and independently of Model.v.

     [lex.icon]     type of an integer literal: the first type of the suffix's list that can
                    represent the value
     [conv.prom]    integral promotion (bool -> int; every other type here has rank >= int)
     [expr]/11      usual arithmetic conversions
     [conv.integral] to unsigned: modulo 2^N; to signed: unchanged when representable, otherwise
                    implementation-defined (g++: modulo 2^N)
     [expr]/4       a result that is not mathematically defined or not representable is undefined
     [expr.shift]   result has the promoted left operand's type; count must be in [0, width)
     [expr.log.and] [expr.log.or] [expr.cond]   only the operands that are needed are evaluated
                    (the others must still be well-typed); ?: yields the common type

   [cpp_eval e = None] means: ill-formed, or undefined (not a constant expression).
   Floating point arithmetic goes through the interface of Syntax.v. *)
From Coq Require Import List ZArith Bool.
From OV.C14 Require Import Syntax.
Import ListNotations.
Local Open Scope Z_scope.

Inductive ityp := TBool | TInt | TUInt | TLong | TULong | TLLong | TULLong.
Inductive ctype := TI (t : ityp) | TFloat | TDouble.

Definition ityp_eqb (a b : ityp) : bool :=
  match a, b with
  | TBool, TBool | TInt, TInt | TUInt, TUInt | TLong, TLong
  | TULong, TULong | TLLong, TLLong | TULLong, TULLong => true
  | _, _ => false
  end.
Definition ctype_eqb (a b : ctype) : bool :=
  match a, b with
  | TI x, TI y => ityp_eqb x y
  | TFloat, TFloat | TDouble, TDouble => true
  | _, _ => false
  end.

(* LP64 *)
Definition twidth (t : ityp) : Z :=
  match t with TBool => 1 | TInt | TUInt => 32 | _ => 64 end.
Definition tsigned (t : ityp) : bool :=
  match t with TInt | TLong | TLLong => true | _ => false end.
(* integer conversion rank [conv.rank] *)
Definition crank (t : ityp) : Z :=
  match t with TBool => 0 | TInt | TUInt => 1 | TLong | TULong => 2 | TLLong | TULLong => 3 end.

Definition tmin (t : ityp) : Z := if tsigned t then - 2 ^ (twidth t - 1) else 0.
Definition tmax (t : ityp) : Z := if tsigned t then 2 ^ (twidth t - 1) - 1 else 2 ^ (twidth t) - 1.
Definition repr (t : ityp) (z : Z) : bool := (tmin t <=? z) && (z <=? tmax t).

(* conversion of an integer value to an integer type *)
Definition cvt (t : ityp) (z : Z) : Z :=
  match t with
  | TBool => if z =? 0 then 0 else 1
  | _ =>
      if tsigned t then
        (if repr t z then z
         else let m := z mod 2 ^ (twidth t) in
              if m <? 2 ^ (twidth t - 1) then m else m - 2 ^ (twidth t))
      else z mod 2 ^ (twidth t)
  end.

Definition ipromote (t : ityp) : ityp := match t with TBool => TInt | _ => t end.
Definition unsigned_of (t : ityp) : ityp :=
  match t with TInt => TUInt | TLong => TULong | TLLong => TULLong | _ => t end.

(* usual arithmetic conversions on two integer types *)
Definition uac_int (a b : ityp) : ityp :=
  let a := ipromote a in
  let b := ipromote b in
  if ityp_eqb a b then a
  else if Bool.eqb (tsigned a) (tsigned b) then (if crank a <? crank b then b else a)
  else
    let u := if tsigned a then b else a in
    let s := if tsigned a then a else b in
    if crank s <=? crank u then u
    else if tmax u <=? tmax s then s
    else unsigned_of s.

Definition uac (a b : ctype) : ctype :=
  match a, b with
  | TDouble, _ | _, TDouble => TDouble
  | TFloat, _ | _, TFloat => TFloat
  | TI x, TI y => TI (uac_int x y)
  end.

(* ------------------------------------------------------------------ literals *)
Definition radix (b : base) : Z := match b with Dec => 10 | Oct => 8 | Hex => 16 | Bin => 2 end.

Definition lit_value (b : base) (ds : list Z) : Z := fold_left (fun a d => a * radix b + d) ds 0.

Definition digits_ok (b : base) (ds : list Z) : bool :=
  forallb (fun d => (0 <=? d) && (d <? radix b)) ds &&
  match b, ds with
  | Oct, _ => true                      (* "0" alone is an octal literal *)
  | Dec, d :: _ => negb (d =? 0)        (* a decimal literal does not start with 0 *)
  | _, [] => false
  | _, _ => true
  end.

(* [lex.icon] table 7 *)
Definition candidates (dec uns : bool) (longs : Z) : list ityp :=
  if longs =? 0 then
    (if uns then [TUInt; TULong; TULLong]
     else if dec then [TInt; TLong; TLLong] else [TInt; TUInt; TLong; TULong; TLLong; TULLong])
  else if longs =? 1 then
    (if uns then [TULong; TULLong]
     else if dec then [TLong; TLLong] else [TLong; TULong; TLLong; TULLong])
  else if longs =? 2 then
    (if uns then [TULLong]
     else if dec then [TLLong] else [TLLong; TULLong])
  else [].

Fixpoint first_fit (ts : list ityp) (z : Z) : option ityp :=
  match ts with
  | [] => None
  | t :: ts' => if repr t z then Some t else first_fit ts' z
  end.

Definition lit_type (l : ilit) : option ityp :=
  if digits_ok (l_base l) (l_digits l) then
    first_fit (candidates (match l_base l with Dec => true | _ => false end) (l_uns l) (l_longs l))
              (lit_value (l_base l) (l_digits l))
  else None.

Section Spec.
Context {F : Type} (ops : fops F).

Inductive cval := CI (t : ityp) (v : Z) | CFl (f : F) | CDb (f : F).

Definition ctype_of (v : cval) : ctype :=
  match v with CI t _ => TI t | CFl _ => TFloat | CDb _ => TDouble end.

Definition lit_eval (l : lit F) : option cval :=
  match l with
  | LBool b => Some (CI TBool (b2z b))
  | LInt il =>
      match lit_type il with
      | Some t => Some (CI t (lit_value (l_base il) (l_digits il)))
      | None => None
      end
  | LFloat s f => if ffinite ops f then Some (if s then CFl f else CDb f) else None
  end.

(* contextual conversion to bool *)
Definition truth (v : cval) : bool :=
  match v with CI _ z => negb (z =? 0) | CFl f | CDb f => fnonzero ops f end.

Definition cbool (b : bool) : cval := CI TBool (b2z b).

(* conversion of a value to an arithmetic type (only the widening directions the usual
   arithmetic conversions can ask for; the others are not needed: None) *)
Definition convert (t : ctype) (v : cval) : option cval :=
  match t, v with
  | TI t', CI _ z => Some (CI t' (cvt t' z))
  | TFloat, CI _ z => Some (CFl (f_of_Z ops true z))
  | TFloat, CFl f => Some (CFl f)
  | TDouble, CI _ z => Some (CDb (f_of_Z ops false z))
  | TDouble, CFl f => Some (CDb (f64_of_f32 ops f))
  | TDouble, CDb f => Some (CDb f)
  | _, _ => None
  end.

(* a floating result must be representable (finite) *)
Definition fres (s : bool) (f : F) : option cval :=
  if ffinite ops f then Some (if s then CFl f else CDb f) else None.

(* an integer result of type t with mathematical value r *)
Definition ires (t : ityp) (r : Z) : option cval :=
  if tsigned t then (if repr t r then Some (CI t r) else None)
  else Some (CI t (r mod 2 ^ (twidth t))).

(* ------------------------------------------------------------------ static types *)
Definition is_arith_op (o : binop) : bool := match o with Add | Sub | Mul | Div => true | _ => false end.
Definition is_int_op (o : binop) : bool := match o with Mod | BAnd | BOr | BXor => true | _ => false end.
Definition is_shift_op (o : binop) : bool := match o with Shl | Shr => true | _ => false end.

Definition bin_type (o : binop) (ta tb : ctype) : option ctype :=
  if is_arith_op o then Some (uac ta tb)
  else if is_int_op o then
    match ta, tb with TI x, TI y => Some (TI (uac_int x y)) | _, _ => None end
  else if is_shift_op o then
    match ta, tb with TI x, TI _ => Some (TI (ipromote x)) | _, _ => None end
  else Some (TI TBool).

Definition un_type (o : unop) (t : ctype) : option ctype :=
  match o, t with
  | UNot, _ => Some (TI TBool)
  | UTilde, TI x => Some (TI (ipromote x))
  | UTilde, _ => None
  | _, TI x => Some (TI (ipromote x))
  | _, t => Some t
  end.

(* [expr.cond]: same type -> that type; otherwise the usual arithmetic conversions *)
Definition cond_type (ta tb : ctype) : ctype := if ctype_eqb ta tb then ta else uac ta tb.

Fixpoint type_of (e : expr F) : option ctype :=
  match e with
  | ELit (LBool _) => Some (TI TBool)
  | ELit (LInt il) => match lit_type il with Some t => Some (TI t) | None => None end
  | ELit (LFloat s _) => Some (if s then TFloat else TDouble)
  | EUn o a => match type_of a with Some t => un_type o t | None => None end
  | EBin o a b =>
      match type_of a, type_of b with
      | Some ta, Some tb => bin_type o ta tb
      | _, _ => None
      end
  | ETern c a b =>
      match type_of c, type_of a, type_of b with
      | Some _, Some ta, Some tb => Some (cond_type ta tb)
      | _, _, _ => None
      end
  end.

(* ------------------------------------------------------------------ evaluation *)
Definition un_eval (o : unop) (v : cval) : option cval :=
  match o, v with
  | UNot, _ => Some (cbool (negb (truth v)))
  | UPlus, CI t z => Some (CI (ipromote t) z)
  | UPlus, _ => Some v
  | UNeg, CI t z => ires (ipromote t) (- z)
  | UNeg, CFl f => Some (CFl (fneg ops f))
  | UNeg, CDb f => Some (CDb (fneg ops f))
  | UTilde, CI t z =>
      let t' := ipromote t in
      Some (CI t' (if tsigned t' then - z - 1 else 2 ^ (twidth t') - 1 - z))
  | UTilde, _ => None
  end.

Definition int_arith (o : binop) (t : ityp) (x y : Z) : option cval :=
  match o with
  | Add => ires t (x + y)
  | Sub => ires t (x - y)
  | Mul => ires t (x * y)
  | Div => if y =? 0 then None else ires t (Z.quot x y)
  | Mod => if y =? 0 then None
           else if repr t (Z.quot x y) then ires t (Z.rem x y) else None
  | BAnd => Some (CI t (cvt t (Z.land x y)))
  | BOr => Some (CI t (cvt t (Z.lor x y)))
  | BXor => Some (CI t (cvt t (Z.lxor x y)))
  | _ => None
  end.

Definition int_cmp (o : binop) (x y : Z) : option cval :=
  match o with
  | Lt => Some (cbool (x <? y))
  | Le => Some (cbool (x <=? y))
  | Eq => Some (cbool (x =? y))
  | Ne => Some (cbool (negb (x =? y)))
  | Ge => Some (cbool (x >=? y))
  | Gt => Some (cbool (x >? y))
  | _ => None
  end.

Definition float_arith (o : binop) (s : bool) (x y : F) : option cval :=
  match o with
  | Add => fres s (fadd ops s x y)
  | Sub => fres s (fsub ops s x y)
  | Mul => fres s (fmul ops s x y)
  | Div => if fnonzero ops y then fres s (fdiv ops s x y) else None
  | Lt => Some (cbool (flt ops x y))
  | Le => Some (cbool (fle ops x y))
  | Eq => Some (cbool (feq ops x y))
  | Ne => Some (cbool (negb (feq ops x y)))
  | Ge => Some (cbool (fle ops y x))
  | Gt => Some (cbool (flt ops y x))
  | _ => None
  end.

Definition is_cmp (o : binop) : bool := match o with Lt | Le | Eq | Ne | Ge | Gt => true | _ => false end.

(* E1 << E2, E1 >> E2 on the promoted left operand (type t, value x) and the count n *)
Definition shift_eval (o : binop) (t : ityp) (x n : Z) : option cval :=
  if (0 <=? n) && (n <? twidth t) then
    match o with
    | Shl =>
        if tsigned t then
          (if (0 <=? x) && (x * 2 ^ n <=? tmax (unsigned_of t)) then Some (CI t (cvt t (x * 2 ^ n))) else None)
        else Some (CI t ((x * 2 ^ n) mod 2 ^ (twidth t)))
    | _ => Some (CI t (cvt t (x / 2 ^ n)))
    end
  else None.

(* both operands evaluated *)
Definition bin_eval (o : binop) (va vb : cval) : option cval :=
  match o with
  | LAnd => Some (cbool (truth va && truth vb))
  | LOr => Some (cbool (truth va || truth vb))
  | Shl | Shr =>
      match va, vb with
      | CI ta x, CI tb n => shift_eval o (ipromote ta) x n
      | _, _ => None
      end
  | _ =>
      match uac (ctype_of va) (ctype_of vb) with
      | TI t =>
          match va, vb with
          | CI _ x, CI _ y => if is_cmp o then int_cmp o (cvt t x) (cvt t y) else int_arith o t (cvt t x) (cvt t y)
          | _, _ => None
          end
      | TFloat =>
          match convert TFloat va, convert TFloat vb with
          | Some (CFl x), Some (CFl y) => float_arith o true x y
          | _, _ => None
          end
      | TDouble =>
          match convert TDouble va, convert TDouble vb with
          | Some (CDb x), Some (CDb y) => float_arith o false x y
          | _, _ => None
          end
      end
  end.

Fixpoint cpp_eval (e : expr F) : option cval :=
  match e with
  | ELit l => lit_eval l
  | EUn o a => match cpp_eval a with Some v => un_eval o v | None => None end
  | EBin LAnd a b =>
      match cpp_eval a, type_of b with
      | Some va, Some _ =>
          if truth va then
            match cpp_eval b with Some vb => Some (cbool (truth vb)) | None => None end
          else Some (cbool false)
      | _, _ => None
      end
  | EBin LOr a b =>
      match cpp_eval a, type_of b with
      | Some va, Some _ =>
          if truth va then Some (cbool true)
          else match cpp_eval b with Some vb => Some (cbool (truth vb)) | None => None end
      | _, _ => None
      end
  | EBin o a b =>
      match cpp_eval a, cpp_eval b with
      | Some va, Some vb => bin_eval o va vb
      | _, _ => None
      end
  | ETern c a b =>
      match cpp_eval c, type_of a, type_of b with
      | Some vc, Some ta, Some tb =>
          match cpp_eval (if truth vc then a else b) with
          | Some v => convert (cond_type ta tb) v
          | None => None
          end
      | _, _, _ => None
      end
  end.

(* ------------------------------------------------------------------ known divergences
   Guards that exclude the three recorded findings (known_findings: tilde_bool, bitop_bool,
   ternary_type), stated on the static C++ types of the operands. *)
Definition is_bool (t : option ctype) : bool := match t with Some (TI TBool) => true | _ => false end.
Definition is_bitop (o : binop) : bool := match o with BAnd | BOr | BXor => true | _ => false end.

Definition same_type (a b : option ctype) : bool :=
  match a, b with Some x, Some y => ctype_eqb x y | _, _ => true end.

Fixpoint no_tilde_bool (e : expr F) : bool :=
  match e with
  | ELit _ => true
  | EUn o a => no_tilde_bool a && negb (match o with UTilde => is_bool (type_of a) | _ => false end)
  | EBin _ a b => no_tilde_bool a && no_tilde_bool b
  | ETern c a b => no_tilde_bool c && no_tilde_bool a && no_tilde_bool b
  end.

Fixpoint no_bitop_bool (e : expr F) : bool :=
  match e with
  | ELit _ => true
  | EUn _ a => no_bitop_bool a
  | EBin o a b => no_bitop_bool a && no_bitop_bool b &&
                  negb (is_bitop o && is_bool (type_of a) && is_bool (type_of b))
  | ETern c a b => no_bitop_bool c && no_bitop_bool a && no_bitop_bool b
  end.

Fixpoint tern_same_type (e : expr F) : bool :=
  match e with
  | ELit _ => true
  | EUn _ a => tern_same_type a
  | EBin _ a b => tern_same_type a && tern_same_type b
  | ETern c a b => tern_same_type c && tern_same_type a && tern_same_type b &&
                   same_type (type_of a) (type_of b)
  end.

Definition guards (e : expr F) : bool := no_tilde_bool e && no_bitop_bool e && tern_same_type e.

End Spec.

Arguments CI {F}. Arguments CFl {F}. Arguments CDb {F}.
