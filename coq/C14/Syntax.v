(* C14 — abstract syntax of constant expressions (shared by Model.v and Spec.v) and the
   floating-point interface.

   Integer literals are kept as what was written: base, digit values, suffixes.  Floating
   literals carry an abstract payload [F] (floats are not computed inside Coq): every
   definition and theorem is parameterised by a type [F] and a record [fops F] of the
   operations the folder needs; theorems hold for every implementation of the interface that
   satisfies the hypotheses they name.  The OCaml drivers instantiate it with IEEE doubles
   (binary32 values kept rounded). *)
From Coq Require Import List ZArith Bool.
Import ListNotations.
Local Open Scope Z_scope.

(* s = true: binary32 (`float`); s = false: binary64 (`double`) *)
Record fops (F : Type) : Type := mk_fops {
  fadd : bool -> F -> F -> F;
  fsub : bool -> F -> F -> F;
  fmul : bool -> F -> F -> F;
  fdiv : bool -> F -> F -> F;
  fneg : F -> F;
  flt : F -> F -> bool;          (* IEEE <  *)
  fle : F -> F -> bool;          (* IEEE <= *)
  feq : F -> F -> bool;          (* IEEE == *)
  fnonzero : F -> bool;          (* x != 0, i.e. conversion to bool *)
  ffinite : F -> bool;           (* neither infinite nor NaN *)
  f_of_Z : bool -> Z -> F;       (* integer -> float/double conversion *)
  f64_of_f32 : F -> F;           (* float -> double (exact) *)
  f32_of_f64 : F -> F;           (* double -> float (rounds) *)
  fbits : bool -> F -> Z;        (* IEEE bit pattern, as an unsigned 32/64-bit number *)
}.
Arguments fadd {F}. Arguments fsub {F}. Arguments fmul {F}. Arguments fdiv {F}.
Arguments fneg {F}. Arguments flt {F}. Arguments fle {F}. Arguments feq {F}.
Arguments fnonzero {F}. Arguments ffinite {F}. Arguments f_of_Z {F}.
Arguments f64_of_f32 {F}. Arguments f32_of_f64 {F}. Arguments fbits {F}.

Inductive base := Dec | Oct | Hex | Bin.

(* An integer literal as written, without sign (the tokenizer never includes one):
     Dec : l_digits are all the digits (the first one is not 0)
     Oct : l_digits are the digits after the leading 0 (none for the literal "0")
     Hex / Bin : the digits after 0x / 0b
   l_uns: a u/U suffix is present; l_longs: number of l/L characters in the suffix. *)
Record ilit := mk_ilit { l_base : base; l_digits : list Z; l_uns : bool; l_longs : Z }.

Inductive lit (F : Type) :=
| LBool (b : bool)
| LInt (l : ilit)
| LFloat (s : bool) (f : F).
Arguments LBool {F}. Arguments LInt {F}. Arguments LFloat {F}.

Inductive unop := UNot | UPlus | UNeg | UTilde.
Inductive binop :=
| Add | Sub | Mul | Div | Mod
| Lt | Le | Eq | Ne | Ge | Gt
| LAnd | LOr
| BAnd | BOr | BXor
| Shl | Shr.

Inductive expr (F : Type) :=
| ELit (l : lit F)
| EUn (o : unop) (a : expr F)
| EBin (o : binop) (a b : expr F)
| ETern (c a b : expr F).
Arguments ELit {F}. Arguments EUn {F}. Arguments EBin {F}. Arguments ETern {F}.

Definition b2z (b : bool) : Z := if b then 1 else 0.
