(* C14 — integer conversions: to<T>() with OCCA's retType against the C++ usual arithmetic
   conversions (the 7 x 7 operand type pairs), and the proof tactics shared by ProofsOps.v. *)
From Coq Require Import List ZArith Bool Lia ZifyBool.
From OV.C14 Require Import Syntax Model Spec ProofsLit.
Import ListNotations.
Local Open Scope Z_scope.
Ltac Zify.zify_post_hook ::= Z.to_euclidean_division_equations.

(* ------------------------------------------------------------------ tactics *)
Ltac pows :=
  change (2 ^ 1) with 2 in *; change (2 ^ (1 - 1)) with 1 in *;
  change (2 ^ 32) with 4294967296 in *; change (2 ^ (32 - 1)) with 2147483648 in *;
  change (2 ^ 64) with 18446744073709551616 in *; change (2 ^ (64 - 1)) with 9223372036854775808 in *.

Ltac unf :=
  cbv beta iota zeta delta
    [conv cvt wrap ibits isigned imin imax in_range promote erase_t ipromote twidth tsigned tmin tmax repr
     ret_arith ret_bits ires unsigned_of] in *;
  pows.

Ltac split_ifs :=
  repeat match goal with
  | H : context [if ?c then _ else _] |- _ => let E := fresh "E" in destruct c eqn:E
  | |- context [if ?c then _ else _] => let E := fresh "E" in destruct c eqn:E
  end.

(* ------------------------------------------------------------------ conversions *)
Lemma conv_cvt : forall t z, t <> TBool -> conv (erase_t t) z = cvt t z.
Proof.
  intros t z Ht. destruct t; try congruence; unf; split_ifs; lia.
Qed.

Lemma cvt_repr : forall t z, repr t (cvt t z) = true.
Proof.
  intros t z. destruct t; unf; split_ifs; lia.
Qed.

Lemma repr_abs_lt : forall t z, repr t z = true -> - M64 < z < M64.
Proof. intros t z H. unfold M64. destruct t; unf; lia. Qed.

Definition rt_kind (ka kb : ikind) : ikind := if irank ka >? irank kb then ka else kb.

(* which C++ common type goes with which OCCA retType *)
Inductive compat : ikind -> ityp -> Prop :=
| c_bool : compat KBool TInt
| c_i32 : compat KI32 TInt
| c_u32 : compat KU32 TUInt
| c_l : compat KI64 TLong
| c_ll : compat KI64 TLLong
| c_ul : compat KU64 TULong
| c_ull : compat KU64 TULLong.

Lemma uac_compat : forall ta tb, compat (rt_kind (erase_t ta) (erase_t tb)) (uac_int ta tb).
Proof. destruct ta, tb; vm_compute; constructor. Qed.

Lemma rt_bool : forall ta tb, rt_kind (erase_t ta) (erase_t tb) = KBool -> ta = TBool /\ tb = TBool.
Proof. destruct ta, tb; vm_compute; intros H; try discriminate; auto. Qed.

(* to<T>() on an operand of type ta or tb agrees with the conversion to the C++ common type *)
Lemma conv_agree_l : forall ta tb x, repr ta x = true ->
  conv (rt_kind (erase_t ta) (erase_t tb)) x = cvt (uac_int ta tb) x /\
  ((cvt (uac_int ta tb) x =? 0) = (x =? 0)) /\
  (rt_kind (erase_t ta) (erase_t tb) = KBool -> 0 <= cvt (uac_int ta tb) x <= 1).
Proof.
  intros ta tb x H.
  destruct ta, tb;
    match goal with
    | |- context [rt_kind ?a ?b] =>
        let T := eval vm_compute in (rt_kind a b) in change (rt_kind a b) with T
    end;
    match goal with
    | |- context [uac_int ?a ?b] =>
        let t := eval vm_compute in (uac_int a b) in change (uac_int a b) with t
    end;
    unf; (repeat split); try discriminate; split_ifs; lia.
Qed.

Lemma conv_agree_r : forall ta tb y, repr tb y = true ->
  conv (rt_kind (erase_t ta) (erase_t tb)) y = cvt (uac_int ta tb) y /\
  ((cvt (uac_int ta tb) y =? 0) = (y =? 0)) /\
  (rt_kind (erase_t ta) (erase_t tb) = KBool -> 0 <= cvt (uac_int ta tb) y <= 1).
Proof.
  intros ta tb y H.
  destruct ta, tb;
    match goal with
    | |- context [rt_kind ?a ?b] =>
        let T := eval vm_compute in (rt_kind a b) in change (rt_kind a b) with T
    end;
    match goal with
    | |- context [uac_int ?a ?b] =>
        let t := eval vm_compute in (uac_int a b) in change (uac_int a b) with t
    end;
    unf; (repeat split); try discriminate; split_ifs; lia.
Qed.

