(* C14 — integer literals: the repaired primitive::load gives every well-formed literal the type
   and value of C++17 [lex.icon]. *)
From Coq Require Import List ZArith Bool Lia ZifyBool.
From OV.C14 Require Import Syntax Model Spec.
Import ListNotations.
Local Open Scope Z_scope.
Ltac Zify.zify_post_hook ::= Z.to_euclidean_division_equations.

Definition M64 : Z := 18446744073709551616.
Lemma M64_eq : 2 ^ 64 = M64. Proof. reflexivity. Qed.

Definition erase_t (t : ityp) : ikind :=
  match t with
  | TBool => KBool | TInt => KI32 | TUInt => KU32
  | TLong | TLLong => KI64 | TULong | TULLong => KU64
  end.

(* ------------------------------------------------------------------ digits *)
Definition digits_in (r : Z) (ds : list Z) : Prop := Forall (fun d => 0 <= d < r) ds.

Lemma forallb_digits : forall r ds,
  forallb (fun d => (0 <=? d) && (d <? r)) ds = true -> digits_in r ds.
Proof.
  induction ds as [|d ds IH]; intros H; constructor; cbn in H; apply andb_true_iff in H; destruct H as [H1 H2].
  - lia.
  - apply IH; exact H2.
Qed.

Lemma digits_ok_in : forall b ds, digits_ok b ds = true -> digits_in (radix b) ds.
Proof.
  intros b ds H. unfold digits_ok in H. apply andb_true_iff in H. destruct H as [H _].
  apply forallb_digits; exact H.
Qed.

Lemma horner_nonneg : forall r ds acc, 0 < r -> digits_in r ds -> 0 <= acc ->
  0 <= fold_left (fun a d => a * r + d) ds acc.
Proof.
  induction ds as [|d ds IH]; intros acc Hr Hd Ha; cbn [fold_left]; [exact Ha|].
  inversion Hd; subst. apply IH; [exact Hr|assumption|nia].
Qed.

Lemma horner_lt_pow : forall r ds acc k, 0 < r -> digits_in r ds -> 0 <= k -> 0 <= acc < r ^ k ->
  fold_left (fun a d => a * r + d) ds acc < r ^ (k + Z.of_nat (length ds)).
Proof.
  induction ds as [|d ds IH]; intros acc k Hr Hd Hk Ha; cbn [fold_left length].
  - replace (k + Z.of_nat 0) with k by lia. lia.
  - inversion Hd; subst.
    replace (k + Z.of_nat (S (length ds))) with ((k + 1) + Z.of_nat (length ds)) by lia.
    apply IH; try assumption; try lia.
    rewrite Z.pow_add_r by lia. rewrite Z.pow_1_r. nia.
Qed.

(* the model's 64-bit accumulation equals the exact value modulo 2^64 *)
Lemma parse_dec_mod : forall ds acc acc', digits_in 10 ds -> acc' = acc mod M64 ->
  fold_left (fun r d => u64 (u64 (r * 10) + d)) ds acc' =
  (fold_left (fun a d => a * 10 + d) ds acc) mod M64.
Proof.
  induction ds as [|d ds IH]; intros acc acc' Hd He; cbn [fold_left]; [exact He|].
  inversion Hd; subst. apply IH; [assumption|].
  unfold u64. rewrite M64_eq. unfold M64. lia.
Qed.

Lemma parse_oct_mod : forall ds acc acc', digits_in 8 ds -> acc' = acc mod M64 ->
  fold_left (fun r d => u64 (u64 (Z.shiftl r 3) + d)) ds acc' =
  (fold_left (fun a d => a * 8 + d) ds acc) mod M64.
Proof.
  induction ds as [|d ds IH]; intros acc acc' Hd He; cbn [fold_left]; [exact He|].
  inversion Hd; subst. apply IH; [assumption|].
  rewrite Z.shiftl_mul_pow2 by lia. change (2 ^ 3) with 8.
  unfold u64. rewrite M64_eq. unfold M64. lia.
Qed.

Lemma lor_low : forall a d k, 0 <= k -> 0 <= d < 2 ^ k -> a mod 2 ^ k = 0 -> Z.lor a d = a + d.
Proof.
  intros a d k Hk Hd Ha.
  assert (Hl : Z.land a d = 0).
  { apply Z.bits_inj'. intros n Hn. rewrite Z.land_spec, Z.bits_0.
    destruct (Z.lt_ge_cases n k) as [Hlt|Hge].
    - rewrite <- (Z.mod_pow2_bits_low a k n) by lia. rewrite Ha, Z.bits_0. reflexivity.
    - destruct (Z.eq_dec d 0) as [->|Hnz]; [rewrite Z.bits_0; apply andb_false_r|].
      rewrite (Z.bits_above_log2 d n); [apply andb_false_r|lia|].
      apply Z.log2_lt_pow2; [lia|].
      apply Z.lt_le_trans with (2 ^ k); [lia|]. apply Z.pow_le_mono_r; lia. }
  rewrite <- Z.lxor_lor by exact Hl. rewrite <- Z.add_nocarry_lxor by exact Hl. reflexivity.
Qed.

Lemma load_shift_mod : forall bp ds acc acc', (bp = 1 \/ bp = 4) -> digits_in (2 ^ bp) ds -> acc' = acc mod M64 ->
  fold_left (fun v d => Z.lor (u64 (Z.shiftl v bp)) d) ds acc' =
  (fold_left (fun a d => a * 2 ^ bp + d) ds acc) mod M64.
Proof.
  induction ds as [|d ds IH]; intros acc acc' Hbp Hd He; cbn [fold_left]; [exact He|].
  inversion Hd; subst. apply IH; [assumption|assumption|].
  rewrite Z.shiftl_mul_pow2 by lia.
  rewrite (lor_low _ d bp); [| lia | assumption |].
  - unfold u64. rewrite M64_eq. unfold M64. destruct Hbp as [-> | ->].
    + change (2 ^ 1) with 2 in *. lia.
    + change (2 ^ 4) with 16 in *. lia.
  - unfold u64. rewrite M64_eq. unfold M64. destruct Hbp as [-> | ->].
    + change (2 ^ 1) with 2 in *. lia.
    + change (2 ^ 4) with 16 in *. lia.
Qed.

(* ------------------------------------------------------------------ conversions on small values *)
Lemma conv_id_u64 : forall v, 0 <= v < M64 -> conv KU64 v = v.
Proof. intros v H. unfold conv, wrap, ibits, isigned, M64 in *. change (2 ^ 64) with 18446744073709551616. lia. Qed.
Lemma conv_id_i64 : forall v, 0 <= v <= 9223372036854775807 -> conv KI64 v = v.
Proof. intros v H. unfold conv, wrap, ibits, isigned.
  change (2 ^ 64) with 18446744073709551616. change (2 ^ (64 - 1)) with 9223372036854775808. lia. Qed.
Lemma conv_id_u32 : forall v, 0 <= v <= 4294967295 -> conv KU32 v = v.
Proof. intros v H. unfold conv, wrap, ibits, isigned. change (2 ^ 32) with 4294967296. lia. Qed.
Lemma conv_id_i32 : forall v, 0 <= v <= 2147483647 -> conv KI32 v = v.
Proof. intros v H. unfold conv, wrap, ibits, isigned.
  change (2 ^ 32) with 4294967296. change (2 ^ (32 - 1)) with 2147483648. lia. Qed.
Lemma conv_id_u16 : forall v, 0 <= v <= 65535 -> conv KU16 v = v.
Proof. intros v H. unfold conv, wrap, ibits, isigned. change (2 ^ 16) with 65536. lia. Qed.
Lemma conv_id_u8 : forall v, 0 <= v <= 255 -> conv KU8 v = v.
Proof. intros v H. unfold conv, wrap, ibits, isigned. change (2 ^ 8) with 256. lia. Qed.

(* first_fit picks a type that represents the value *)
Lemma first_fit_repr : forall ts z t, first_fit ts z = Some t -> repr t z = true.
Proof.
  induction ts as [|t' ts IH]; intros z t H; cbn in H; [discriminate|].
  destruct (repr t' z) eqn:E; [inversion H; subst; exact E| apply IH; exact H].
Qed.

Lemma repr_bounds : forall t z, repr t z = true -> tmin t <= z <= tmax t.
Proof. intros t z H. unfold repr in H. lia. Qed.

Lemma tmax_lt_M64 : forall t, tmax t < M64.
Proof. destruct t; vm_compute; reflexivity. Qed.

(* unfolded, closed forms of repr *)
Lemma repr_TInt : forall z, repr TInt z = (-2147483648 <=? z) && (z <=? 2147483647).
Proof. reflexivity. Qed.
Lemma repr_TUInt : forall z, repr TUInt z = (0 <=? z) && (z <=? 4294967295).
Proof. reflexivity. Qed.
Lemma repr_TLong : forall z, repr TLong z = (-9223372036854775808 <=? z) && (z <=? 9223372036854775807).
Proof. reflexivity. Qed.
Lemma repr_TLLong : forall z, repr TLLong z = (-9223372036854775808 <=? z) && (z <=? 9223372036854775807).
Proof. reflexivity. Qed.
Lemma repr_TULong : forall z, repr TULong z = (0 <=? z) && (z <=? 18446744073709551615).
Proof. reflexivity. Qed.
Lemma repr_TULLong : forall z, repr TULLong z = (0 <=? z) && (z <=? 18446744073709551615).
Proof. reflexivity. Qed.

Ltac unfold_repr :=
  rewrite ?repr_TInt, ?repr_TUInt, ?repr_TLong, ?repr_TLLong, ?repr_TULong, ?repr_TULLong in *.

Section Lit.
Context {F : Type}.

(* the typing decision of the repaired decimal/octal branch, on the exact value *)
Lemma dec_oct_typing : forall (octal uns : bool) (longs v : Z) t,
  0 <= v ->
  first_fit (candidates (negb octal) uns longs) v = Some t ->
  (if (longs =? 0) && negb uns && (v <=? 0x7FFFFFFF) then @PI F KI32 (conv KI32 v)
   else if (longs =? 0) && (v <=? 0xFFFFFFFF) && (uns || octal) then PI KU32 (conv KU32 v)
   else if negb uns && (v <=? 0x7FFFFFFFFFFFFFFF) then PI KI64 (conv KI64 v)
   else if uns || octal then PI KU64 (conv KU64 v)
   else PI KI64 (conv KI64 v)) = PI (erase_t t) v.
Proof.
  intros octal uns longs v t Hv H.
  unfold candidates in H.
  destruct (longs =? 0) eqn:L0; [|destruct (longs =? 1) eqn:L1; [|destruct (longs =? 2) eqn:L2; [|discriminate]]];
  destruct uns, octal; cbn [negb first_fit andb orb] in *; unfold_repr;
  repeat match type of H with
  | (if ?c then _ else _) = _ => let E := fresh "E" in destruct c eqn:E
  end; try discriminate; inversion H; subst; cbn [erase_t];
  repeat match goal with
  | |- (if ?c then _ else _) = _ => let E := fresh "E" in destruct c eqn:E
  end; try lia;
  first [ rewrite conv_id_i32 by lia | rewrite conv_id_u32 by lia | rewrite conv_id_i64 by lia
        | rewrite conv_id_u64 by (unfold M64; lia) ]; reflexivity.
Qed.

Lemma hex_bin_typing : forall (uns : bool) (longs v : Z) t,
  0 <= v < M64 ->
  first_fit (candidates false uns longs) v = Some t ->
  (if negb ((1 <=? longs) || (0xFFFFFFFF <? v))
   then (if uns || (0x7FFFFFFF <? v) then @PI F KU32 (conv KU32 v) else PI KI32 (conv KI32 v))
   else (if uns || (0x7FFFFFFFFFFFFFFF <? v) then PI KU64 (conv KU64 v) else PI KI64 (conv KI64 v)))
  = PI (erase_t t) v.
Proof.
  intros uns longs v t Hv H.
  unfold candidates in H.
  destruct (longs =? 0) eqn:L0; [|destruct (longs =? 1) eqn:L1; [|destruct (longs =? 2) eqn:L2; [|discriminate]]];
  destruct uns; cbn [negb first_fit andb orb] in *; unfold_repr;
  repeat match type of H with
  | (if ?c then _ else _) = _ => let E := fresh "E" in destruct c eqn:E
  end; try discriminate; inversion H; subst; cbn [erase_t];
  repeat match goal with
  | |- (if ?c then _ else _) = _ => let E := fresh "E" in destruct c eqn:E
  end; try (unfold M64 in *; lia);
  first [ rewrite conv_id_i32 by lia | rewrite conv_id_u32 by lia | rewrite conv_id_i64 by lia
        | rewrite conv_id_u64 by (unfold M64 in *; lia) ]; reflexivity.
Qed.

(* the uint8/16/32/64 intermediate of loadHex / loadBinary keeps the value *)
Lemma hexbin_intermediate : forall bits v, 0 <= bits -> 0 <= v < 2 ^ bits -> v < M64 ->
  conv (if bits <? 8 then KU8 else if bits <? 16 then KU16 else if bits <? 32 then KU32 else KU64) v = v.
Proof.
  intros bits v Hb Hv Hm.
  destruct (bits <? 8) eqn:E8; [|destruct (bits <? 16) eqn:E16; [|destruct (bits <? 32) eqn:E32]].
  - apply conv_id_u8. assert (2 ^ bits <= 2 ^ 7) by (apply Z.pow_le_mono_r; lia). change (2 ^ 7) with 128 in *. lia.
  - apply conv_id_u16. assert (2 ^ bits <= 2 ^ 15) by (apply Z.pow_le_mono_r; lia). change (2 ^ 15) with 32768 in *. lia.
  - apply conv_id_u32. assert (2 ^ bits <= 2 ^ 31) by (apply Z.pow_le_mono_r; lia). change (2 ^ 31) with 2147483648 in *. lia.
  - apply conv_id_u64. lia.
Qed.

Theorem load_int_agrees : forall l t,
  lit_type l = Some t ->
  @load_int F fixed l = PI (erase_t t) (lit_value (l_base l) (l_digits l)).
Proof.
  intros [b ds uns longs] t H. unfold lit_type in H. cbn [l_base l_digits l_uns l_longs] in *.
  destruct (digits_ok b ds) eqn:Hok; [|discriminate].
  pose proof (digits_ok_in _ _ Hok) as Hin.
  set (v := lit_value b ds) in *.
  assert (Hv0 : 0 <= v).
  { unfold v, lit_value. apply horner_nonneg; [destruct b; cbn; lia | exact Hin | lia]. }
  assert (HvM : v < M64).
  { pose proof (first_fit_repr _ _ _ H) as Hr. apply repr_bounds in Hr. pose proof (tmax_lt_M64 t). lia. }
  unfold load_int. cbn [l_base l_digits l_uns l_longs fix_dec fix_hex fixed].
  destruct b.
  - (* Dec *)
    assert (Hp : parse_dec ds = v).
    { unfold parse_dec. rewrite (parse_dec_mod ds 0 0 Hin eq_refl).
      change (fold_left (fun a d => a * 10 + d) ds 0) with v. unfold M64 in *. lia. }
    rewrite Hp. change (match Dec with Oct => true | _ => false end) with false.
    change (match Dec with Dec => true | _ => false end) with true in H.
    exact (dec_oct_typing false uns longs v t Hv0 H).
  - (* Oct *)
    assert (Hp : parse_oct ds = v).
    { unfold parse_oct. rewrite (parse_oct_mod ds 0 0 Hin eq_refl).
      change (fold_left (fun a d => a * 8 + d) ds 0) with v. unfold M64 in *. lia. }
    rewrite Hp. change (match Oct with Oct => true | _ => false end) with true.
    change (match Oct with Dec => true | _ => false end) with false in H.
    exact (dec_oct_typing true uns longs v t Hv0 H).
  - (* Hex *)
    assert (Hp : load_shift 4 ds = v).
    { unfold load_shift. rewrite (load_shift_mod 4 ds 0 0 (or_intror eq_refl) Hin eq_refl).
      change (fold_left (fun a d => a * 2 ^ 4 + d) ds 0) with v. unfold M64 in *. lia. }
    rewrite Hp.
    assert (Hlt : v < 2 ^ (4 * Z.of_nat (length ds))).
    { pose proof (horner_lt_pow 16 ds 0 0 ltac:(lia) Hin ltac:(lia) ltac:(cbn; lia)) as Hb.
      change (fold_left (fun a d => a * 16 + d) ds 0) with v in Hb.
      rewrite Z.add_0_l in Hb. change 16 with (2 ^ 4) in Hb. rewrite <- Z.pow_mul_r in Hb by lia. exact Hb. }
    rewrite (hexbin_intermediate (4 * Z.of_nat (length ds)) v) by lia.
    rewrite conv_id_u64 by lia.
    change (match Hex with Dec => true | _ => false end) with false in H.
    pose proof (hex_bin_typing uns longs v t (conj Hv0 HvM) H) as Hh.
    rewrite (conv_id_u64 v) in Hh by lia. exact Hh.
  - (* Bin *)
    assert (Hp : load_shift 1 ds = v).
    { unfold load_shift. rewrite (load_shift_mod 1 ds 0 0 (or_introl eq_refl) Hin eq_refl).
      change (fold_left (fun a d => a * 2 ^ 1 + d) ds 0) with v. unfold M64 in *. lia. }
    rewrite Hp.
    assert (Hlt : v < 2 ^ (1 * Z.of_nat (length ds))).
    { pose proof (horner_lt_pow 2 ds 0 0 ltac:(lia) Hin ltac:(lia) ltac:(cbn; lia)) as Hb.
      change (fold_left (fun a d => a * 2 + d) ds 0) with v in Hb.
      rewrite Z.add_0_l in Hb. rewrite Z.mul_1_l. exact Hb. }
    rewrite (hexbin_intermediate (1 * Z.of_nat (length ds)) v) by lia.
    rewrite conv_id_u64 by lia.
    change (match Bin with Dec => true | _ => false end) with false in H.
    pose proof (hex_bin_typing uns longs v t (conj Hv0 HvM) H) as Hh.
    rewrite (conv_id_u64 v) in Hh by lia. exact Hh.
Qed.

End Lit.
