(* Extraction of the executable model and specification (ExtrOcamlBasic only; Z stays the
   extracted inductive).  coqc runs from /verif/coq, so the path is relative to it. *)
From Coq Require Import Extraction ExtrOcamlBasic.
From OV.C14 Require Import Syntax Model Spec.
Extraction Language OCaml.
Extraction "../_work/extract/C14/model.ml"
  eval load pinned fixed irank rank_float rank_double
  cpp_eval type_of guards no_tilde_bool no_bitop_bool tern_same_type.
