(* C14 — per-operator agreement between the repaired folder (Model, cfg = fixed) and the C++17
   specification (Spec), on already-evaluated operands. *)
From Coq Require Import List ZArith Bool Lia ZifyBool.
From OV.C14 Require Import Syntax Model Spec ProofsLit ProofsConv.
Import ListNotations.
Local Open Scope Z_scope.
Ltac Zify.zify_post_hook ::= Z.to_euclidean_division_equations.

Section Ops.
Context {F : Type} (ops : fops F).

(* the two facts about the float implementation that the repaired && || ! rely on *)
Hypothesis H_nz_of_Z : forall s z, - M64 < z < M64 -> fnonzero ops (f_of_Z ops s z) = negb (z =? 0).
Hypothesis H_nz_ext : forall f, fnonzero ops (f64_of_f32 ops f) = fnonzero ops f.

(* a C++ value seen as an OCCA primitive: long/long long -> int64, unsigned long (long) -> uint64 *)
Definition erase (v : @cval F) : @prim F :=
  match v with
  | CI t z => PI (erase_t t) z
  | CFl f => PF true f
  | CDb f => PF false f
  end.

Definition wf (v : @cval F) : Prop :=
  match v with CI t z => repr t z = true | _ => True end.

(* ---- `a.to<T>() op b.to<T>()` against the C++ operation in the common type *)
Lemma int_arith_agree : forall T t o x y v,
  compat T t -> repr t x = true -> repr t y = true ->
  (T = KBool -> 0 <= x <= 1 /\ 0 <= y <= 1) ->
  (o = Add \/ o = Sub \/ o = Mul \/ o = Div \/ o = Mod) ->
  int_arith o t x y = Some v ->
  int_binop o T x y = Val (erase v) /\ wf v.
Proof.
  intros T t o x y v Hc Hx Hy Hb Ho H.
  destruct Ho as [-> | [-> | [-> | [-> | ->]]]]; inversion Hc; subst; cbn [int_arith int_binop] in *;
    try (specialize (Hb eq_refl)); clear Hc;
    unf; cbn [andb] in *; split_ifs; try discriminate; try lia;
    inversion H; subst; cbn [erase wf erase_t]; unf; (split; [try reflexivity; f_equal; f_equal; lia | lia]).
Qed.

Lemma int_bit_agree : forall T t o x y v,
  compat T t -> T <> KBool ->
  (o = BAnd \/ o = BOr \/ o = BXor) ->
  int_arith o t x y = Some v ->
  int_binop o T x y = Val (erase v) /\ wf v.
Proof.
  intros T t o x y v Hc Hnb Ho H.
  assert (Ht : t <> TBool) by (inversion Hc; congruence).
  assert (HT : T = erase_t t) by (inversion Hc; subst; try reflexivity; congruence).
  assert (HP : promote T = T) by (inversion Hc; subst; try reflexivity; congruence).
  destruct Ho as [-> | [-> | ->]]; cbn [int_arith int_binop] in *; inversion H; subst;
    rewrite HP; (destruct (erase_t t) eqn:Ek; [congruence | ..]); rewrite <- Ek;
    unfold ret_bits; rewrite conv_cvt by exact Ht; cbn [erase wf]; (split; [reflexivity | apply cvt_repr]).
Qed.

Lemma int_cmp_agree : forall T o x y v,
  int_cmp o x y = Some v ->
  int_binop o T x y = Val (erase v) /\ wf v.
Proof.
  intros T o x y v H.
  destruct o; cbn [int_cmp int_binop] in *; try discriminate; inversion H; subst;
    unfold pbool, cbool; cbn [erase wf erase_t]; rewrite ?Z.geb_leb, ?Z.gtb_ltb;
    (split; [ reflexivity | match goal with |- repr TBool (b2z ?b) = true => destruct b; reflexivity end ]).
Qed.

(* ------------------------------------------------------------------ unary operators *)
Lemma un_agree : forall o v v',
  wf v -> un_eval ops o v = Some v' ->
  ~ (o = UTilde /\ ctype_of v = TI TBool) ->
  unop_eval ops fixed o (erase v) = Val (erase v') /\ wf v'.
Proof.
  intros o v v' Hw H Hg.
  destruct v as [t z | f | f].
  - destruct o; cbn [un_eval unop_eval erase] in *.
    + (* ! *)
      inversion H; subst. unfold truth, cbool, pbool. rewrite negb_involutive. cbn [erase wf erase_t].
      split; [reflexivity | destruct (z =? 0); reflexivity].
    + (* + *)
      inversion H; subst. cbn [wf] in *.
      destruct t; unf; split_ifs; try lia; cbn [erase erase_t wf]; unf;
        (split; [try reflexivity; f_equal; f_equal; lia | lia]).
    + (* - *)
      cbn [wf] in *.
      destruct t; unf; split_ifs; try discriminate; try lia; inversion H; subst; cbn [erase erase_t wf]; unf;
        (split; [try reflexivity; f_equal; f_equal; lia | lia]).
    + (* ~ *)
      cbn [wf] in *. inversion H; subst.
      destruct t; [exfalso; apply Hg; split; reflexivity | ..];
        cbn [erase erase_t promote ipromote unop_eval]; unfold ret_bits, Z.lnot, Z.pred; unf;
        cbn [erase erase_t wf]; unf; (split; [f_equal; f_equal; lia | lia]).
  - destruct o; cbn [un_eval unop_eval erase fix_lfloat fixed] in *; try discriminate; inversion H; subst;
      cbn [erase wf truth]; unfold pbool, cbool; cbn [erase wf erase_t];
      (split; [reflexivity | try exact I; match goal with |- repr TBool (b2z ?b) = true => destruct b; reflexivity end]).
  - destruct o; cbn [un_eval unop_eval erase fix_lfloat fixed] in *; try discriminate; inversion H; subst;
      cbn [erase wf truth]; unfold pbool, cbool; cbn [erase wf erase_t];
      (split; [reflexivity | try exact I; match goal with |- repr TBool (b2z ?b) = true => destruct b; reflexivity end]).
Qed.

(* ------------------------------------------------------------------ binary operators, integer operands *)
Lemma ret_type_int : forall ka kb (x y : Z),
  ret_type (@PI F ka x) (PI kb y) = RI (rt_kind ka kb).
Proof. intros. unfold ret_type, rt_kind, prank, pkind. destruct (irank ka >? irank kb); reflexivity. Qed.

Lemma truthy_erase : forall v, truthy ops (erase v) = truth ops v.
Proof. destruct v; reflexivity. Qed.

Lemma wf_cbool : forall b, wf (cbool b).
Proof. destruct b; reflexivity. Qed.

Definition plain_op (o : binop) : bool :=
  match o with LAnd | LOr | Shl | Shr => false | _ => true end.

Lemma int_bin_agree : forall o ta tb x y v,
  repr ta x = true -> repr tb y = true -> plain_op o = true ->
  ~ (is_bitop o = true /\ ta = TBool /\ tb = TBool) ->
  bin_eval ops o (CI ta x) (CI tb y) = Some v ->
  binop_eval ops fixed o (PI (erase_t ta) x) (PI (erase_t tb) y) = Val (erase v) /\ wf v.
Proof.
  intros o ta tb x y v Hx Hy Hp Hg H.
  unfold binop_eval. replace (is_shift o && fix_shift fixed) with false by (destruct o; try reflexivity; discriminate).
  rewrite ret_type_int. cbn [to_int].
  destruct (conv_agree_l ta tb x Hx) as [Hcx [Hzx Hbx]].
  destruct (conv_agree_r ta tb y Hy) as [Hcy [Hzy Hby]].
  rewrite Hcx, Hcy.
  assert (Hs : bin_eval ops o (CI ta x) (CI tb y) =
               if is_cmp o then int_cmp o (cvt (uac_int ta tb) x) (cvt (uac_int ta tb) y)
               else int_arith o (uac_int ta tb) (cvt (uac_int ta tb) x) (cvt (uac_int ta tb) y)).
  { destruct o; try discriminate; reflexivity. }
  rewrite Hs in H. clear Hs.
  pose proof (uac_compat ta tb) as Hc.
  destruct (is_cmp o) eqn:Ecmp.
  - apply int_cmp_agree; exact H.
  - destruct (is_bitop o) eqn:Ebit.
    + apply (int_bit_agree _ (uac_int ta tb)); try assumption.
      * intros HT. apply rt_bool in HT. apply Hg. tauto.
      * destruct o; try discriminate; auto.
    + apply (int_arith_agree _ (uac_int ta tb)); try assumption; try apply cvt_repr.
      * intros HT. split; auto.
      * destruct o; try discriminate; auto 6.
Qed.

Lemma logic_int_agree : forall o ta tb x y,
  repr ta x = true -> repr tb y = true -> (o = LAnd \/ o = LOr) ->
  binop_eval ops fixed o (PI (erase_t ta) x) (PI (erase_t tb) y) =
  Val (erase (cbool (match o with LAnd => negb (x =? 0) && negb (y =? 0) | _ => negb (x =? 0) || negb (y =? 0) end))).
Proof.
  intros o ta tb x y Hx Hy Ho.
  unfold binop_eval. replace (is_shift o && fix_shift fixed) with false by (destruct Ho; subst; reflexivity).
  rewrite ret_type_int. cbn [to_int].
  destruct (conv_agree_l ta tb x Hx) as [Hcx [Hzx _]].
  destruct (conv_agree_r ta tb y Hy) as [Hcy [Hzy _]].
  rewrite Hcx, Hcy.
  destruct Ho; subst; cbn [int_binop]; rewrite Hzx, Hzy; reflexivity.
Qed.

(* ------------------------------------------------------------------ shifts *)
Lemma shift_agree : forall o ta tb x n v,
  repr ta x = true -> (o = Shl \/ o = Shr) ->
  shift_eval o (ipromote ta) x n = Some v ->
  binop_eval ops fixed o (PI (erase_t ta) x) (PI (erase_t tb) n) = Val (erase v) /\ wf v.
Proof.
  intros o ta tb x n v Hx Ho H.
  unfold binop_eval. replace (is_shift o && fix_shift fixed) with true by (destruct Ho; subst; reflexivity).
  unfold shift_eval in H.
  destruct ((0 <=? n) && (n <? twidth (ipromote ta))) eqn:Hn; [|discriminate].
  assert (Hn64 : 0 <= n < 64) by (destruct ta; unf; lia).
  assert (Hcn : conv KI64 n = n) by (unf; lia).
  assert (Hcx : conv (erase_t ta) x = x) by (destruct ta; unf; split_ifs; lia).
  rewrite Hcn, Hcx.
  assert (Ht : ipromote ta <> TBool) by (destruct ta; discriminate).
  assert (HP : promote (erase_t ta) = erase_t (ipromote ta)) by (destruct ta; reflexivity).
  rewrite HP.
  destruct Ho; subst.
  - (* << *)
    unfold shl. rewrite Z.shiftl_mul_pow2 by lia.
    set (p := x * 2 ^ n) in *.
    replace ((n <? 0) || (ibits (erase_t (ipromote ta)) <=? n)) with false by (destruct ta; unf; lia).
    destruct ta; cbn [ipromote erase_t isigned tsigned] in *; unf; split_ifs; try discriminate; try lia;
      inversion H; subst; cbn [erase erase_t wf]; unf; (split; [try reflexivity; f_equal; f_equal; lia | split_ifs; lia]).
  - (* >> *)
    unfold shr. rewrite Z.shiftr_div_pow2 by lia.
    replace ((n <? 0) || (ibits (erase_t (ipromote ta)) <=? n)) with false by (destruct ta; unf; lia).
    inversion H; subst. rewrite conv_cvt by exact Ht. cbn [erase wf].
    split; [reflexivity | apply cvt_repr].
Qed.

End Ops.
