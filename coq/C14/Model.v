(* C14 — executable model of OCCA's constant folder, transcribed from
     src/types/primitive.cpp            primitive::load / loadHex / loadBinary (19-232), unary
                                        operators (284-354), boolean operators (433-590),
                                        binary operators (595-783)
     include/occa/types/primitive.hpp   primitiveType constants (21-53), constructors (101-154),
                                        primitive::to<T>() (307-327)
     src/occa/internal/utils/string.cpp parseInt / parseBinary (199-333)
     src/occa/internal/lang/expr/{binaryOpNode,ternaryOpNode,leftUnaryOpNode,primitiveNode}.cpp  evaluate()
     src/occa/internal/lang/operator.cpp unaryOperator_t / binaryOperator_t ::operator() (586-641)

   A primitive is (kind, Z) for the nine integral kinds, or a float/double payload.  The C++
   expression inside each `case T: return primitive(a.to<T>() op b.to<T>())` is evaluated by the
   C++ compiler *after integer promotion* of T, and the primitive constructor is picked by the
   type of that promoted expression; [promote] and [ret_arith] model exactly that, including the
   places where the library's own arithmetic is undefined behaviour (result [UB]: signed
   overflow, division by zero, shift count out of range) and where it throws ([Err]).

   The record [cfg] parameterises the branches that the fix patches fixes/C14-*.patch change, so
   that both the pinned code ([pinned]) and the repaired code ([fixed]) are expressible.
   No proofs in this file. *)
From Coq Require Import List ZArith Bool.
From OV.C14 Require Import Syntax.
Import ListNotations.
Local Open Scope Z_scope.

(* primitiveType: bool_ .. uint64_ ; [irank] is the exponent n of the constant (1 << n) *)
Inductive ikind := KBool | KI8 | KU8 | KI16 | KU16 | KI32 | KU32 | KI64 | KU64.

Definition irank (k : ikind) : Z :=
  match k with
  | KBool => 1 | KI8 => 2 | KU8 => 3 | KI16 => 4 | KU16 => 5
  | KI32 => 6 | KU32 => 7 | KI64 => 8 | KU64 => 9
  end.
Definition rank_float : Z := 10.
Definition rank_double : Z := 11.

Definition ibits (k : ikind) : Z :=
  match k with
  | KBool => 1 | KI8 | KU8 => 8 | KI16 | KU16 => 16 | KI32 | KU32 => 32 | KI64 | KU64 => 64
  end.
Definition isigned (k : ikind) : bool :=
  match k with KI8 | KI16 | KI32 | KI64 => true | _ => false end.

(* two's complement reduction to [bits] bits *)
Definition wrap (bits : Z) (signed : bool) (z : Z) : Z :=
  if signed then (z + 2 ^ (bits - 1)) mod 2 ^ bits - 2 ^ (bits - 1)
  else z mod 2 ^ bits.

(* (T) z for an integer z: modulo for the integer types, z != 0 for bool *)
Definition conv (k : ikind) (z : Z) : Z :=
  match k with
  | KBool => if z =? 0 then 0 else 1
  | _ => wrap (ibits k) (isigned k) z
  end.

Definition imin (k : ikind) : Z := if isigned k then - 2 ^ (ibits k - 1) else 0.
Definition imax (k : ikind) : Z := if isigned k then 2 ^ (ibits k - 1) - 1 else 2 ^ (ibits k) - 1.
Definition in_range (k : ikind) (z : Z) : bool := (imin k <=? z) && (z <=? imax k).

(* the type of the C++ expression `T op T` / `op T` (integer promotion on LP64) *)
Definition promote (k : ikind) : ikind :=
  match k with KBool | KI8 | KU8 | KI16 | KU16 => KI32 | _ => k end.

(* which of the repairs are in the tree *)
Record cfg := mk_cfg {
  fix_dec : bool;     (* fixes/C14-1: decimal/octal literals typed by value; parseInt keeps 64 bits *)
  fix_hex : bool;     (* fixes/C14-2: hex/binary literals typed by value *)
  fix_feq : bool;     (* fixes/C14-3: == and != convert both operands to the floating type *)
  fix_shift : bool;   (* fixes/C14-4: shifts typed by the left operand *)
  fix_sc : bool;      (* fixes/C14-5: && and || do not evaluate a right operand that C++ skips *)
  fix_lfloat : bool;  (* fixes/C14-6: ! && || accept floating operands *)
}.
Definition pinned : cfg := mk_cfg false false false false false false.
Definition fixed : cfg := mk_cfg true true true true true true.

Section Model.
Context {F : Type} (ops : fops F).

Inductive prim := PI (k : ikind) (v : Z) | PF (s : bool) (f : F).

(* outcome of an evaluation: a value, a thrown occa::exception, or undefined behaviour of the
   library's own C++ (what UBSan / SIGFPE report) *)
Inductive res := Val (p : prim) | Err | UB.

Definition pbool (b : bool) : prim := PI KBool (b2z b).

(* ------------------------------------------------------------------ literals *)
Definition u64 (z : Z) : Z := z mod 2 ^ 64.

(* parseInt: ret *= 10; ret += digit  (udim_t arithmetic) *)
Definition parse_dec (ds : list Z) : Z :=
  fold_left (fun r d => u64 (u64 (r * 10) + d)) ds 0.
(* parseBinary with bits = 3: ret <<= 3; ret += digit *)
Definition parse_oct (ds : list Z) : Z :=
  fold_left (fun r d => u64 (u64 (Z.shiftl r 3) + d)) ds 0.
(* loadHex / loadBinary: value_ = (value_ << bp) | digit *)
Definition load_shift (bp : Z) (ds : list Z) : Z :=
  fold_left (fun v d => Z.lor (u64 (Z.shiftl v bp)) d) ds 0.

(* the tail of parseInt in the pinned code: the value is cut to the suffix's type and widened back *)
Definition parseInt_trunc (uns : bool) (longs : Z) (ret : Z) : Z :=
  if longs =? 0 then (if uns then u64 (conv KU32 ret) else u64 (conv KI32 ret))
  else if longs =? 1 then (if uns then u64 (conv KU64 ret) else u64 (conv KI64 ret))
  else ret.

(* primitive::load on an unsigned integer literal *)
Definition load_int (c : cfg) (l : ilit) : prim :=
  let ds := l_digits l in
  let uns := l_uns l in
  let longs := l_longs l in
  match l_base l with
  | Hex | Bin =>
      let bp := match l_base l with Hex => 4 | _ => 1 end in
      let value0 := load_shift bp ds in
      let bits := bp * Z.of_nat (length ds) in
      (* loadHex/loadBinary return uint8/16/32/64 by digit count *)
      let pk := if bits <? 8 then KU8 else if bits <? 16 then KU16 else if bits <? 32 then KU32 else KU64 in
      let pv := conv pk value0 in
      if fix_hex c then
        let value_ := conv KU64 pv in
        let isWide := (1 <=? longs) || (0xFFFFFFFF <? value_) in
        if negb isWide then
          (if uns || (0x7FFFFFFF <? value_) then PI KU32 (conv KU32 pv) else PI KI32 (conv KI32 pv))
        else
          (if uns || (0x7FFFFFFFFFFFFFFF <? value_) then PI KU64 (conv KU64 pv) else PI KI64 (conv KI64 pv))
      else
        if longs =? 0 then (if uns then PI KU32 (conv KU32 pv) else PI KI32 (conv KI32 pv))
        else (if uns then PI KU64 (conv KU64 pv) else PI KI64 (conv KI64 pv))
  | Dec | Oct =>
      let octal := match l_base l with Oct => true | _ => false end in
      let ret := if octal then parse_oct ds else parse_dec ds in
      if fix_dec c then
        let value_ := ret in
        if (longs =? 0) && negb uns && (value_ <=? 0x7FFFFFFF) then PI KI32 (conv KI32 value_)
        else if (longs =? 0) && (value_ <=? 0xFFFFFFFF) && (uns || octal) then PI KU32 (conv KU32 value_)
        else if negb uns && (value_ <=? 0x7FFFFFFFFFFFFFFF) then PI KI64 (conv KI64 value_)
        else if uns || octal then PI KU64 (conv KU64 value_)
        else PI KI64 (conv KI64 value_)
      else
        let value_ := if octal then ret else parseInt_trunc uns longs ret in
        if longs =? 0 then (if uns then PI KU32 (conv KU32 value_) else PI KI32 (conv KI32 value_))
        else (if uns then PI KU64 (conv KU64 value_) else PI KI64 (conv KI64 value_))
  end.

Definition load (c : cfg) (l : lit F) : prim :=
  match l with
  | LBool b => pbool b
  | LInt il => load_int c il
  | LFloat s f => PF s f
  end.

(* ------------------------------------------------------------------ conversions *)
Inductive rkind := RI (k : ikind) | RF (s : bool).

Definition prank (p : prim) : Z :=
  match p with PI k _ => irank k | PF true _ => rank_float | PF false _ => rank_double end.
Definition pkind (p : prim) : rkind :=
  match p with PI k _ => RI k | PF s _ => RF s end.

(* const int retType = (a.type > b.type) ? a.type : b.type; *)
Definition ret_type (a b : prim) : rkind := if prank a >? prank b then pkind a else pkind b.

(* p.to<T>() for an integral T.  From a floating value only T = bool is ever requested by the
   code paths modelled here (retType is floating as soon as one operand is); the other
   float->integer conversions are not modelled ([None]). *)
Definition to_int (k : ikind) (p : prim) : option Z :=
  match p with
  | PI _ v => Some (conv k v)
  | PF _ f => match k with KBool => Some (b2z (fnonzero ops f)) | _ => None end
  end.

(* p.to<float>() (s = true) / p.to<double>() (s = false) *)
Definition to_f (s : bool) (p : prim) : F :=
  match p with
  | PI _ v => f_of_Z ops s v
  | PF s' f =>
      if s then (if s' then f else f32_of_f64 ops f)
      else (if s' then f64_of_f32 ops f else f)
  end.

(* (bool) p *)
Definition truthy (p : prim) : bool :=
  match p with PI _ v => negb (v =? 0) | PF _ f => fnonzero ops f end.

(* primitive(e) where the C++ expression e has integral type P and mathematical value z:
   signed overflow is undefined behaviour, unsigned arithmetic wraps *)
Definition ret_arith (P : ikind) (z : Z) : res :=
  if isigned P then (if in_range P z then Val (PI P z) else UB)
  else Val (PI P (conv P z)).

(* results that cannot overflow (bit operations): conv is the identity on them *)
Definition ret_bits (P : ikind) (z : Z) : res := Val (PI P (conv P z)).

(* x << n and x >> n in the promoted type P (C++17 [expr.shift], as UBSan checks it) *)
Definition shl (P : ikind) (x n : Z) : res :=
  if (n <? 0) || (ibits P <=? n) then UB
  else if isigned P then
         (if x <? 0 then UB
          else if Z.shiftl x n <=? 2 ^ (ibits P) - 1 then Val (PI P (conv P (Z.shiftl x n)))
          else UB)
       else Val (PI P (conv P (Z.shiftl x n))).
Definition shr (P : ikind) (x n : Z) : res :=
  if (n <? 0) || (ibits P <=? n) then UB
  else Val (PI P (conv P (Z.shiftr x n))).

(* ------------------------------------------------------------------ unary operators *)
Definition unop_eval (c : cfg) (o : unop) (p : prim) : res :=
  match o, p with
  | UNot, PI _ v => Val (pbool (v =? 0))
  | UNot, PF _ f => if fix_lfloat c then Val (pbool (negb (fnonzero ops f))) else Err
  | UPlus, PI k v => ret_arith (promote k) v
  | UPlus, PF s f => Val (PF s f)
  | UNeg, PI k v => ret_arith (promote k) (- v)
  | UNeg, PF s f => Val (PF s (fneg ops f))
  | UTilde, PI KBool v => Val (pbool (v =? 0))        (* case bool_: !p.value.bool_ *)
  | UTilde, PI k v => ret_bits (promote k) (Z.lnot v)
  | UTilde, PF _ _ => Err
  end.

(* ------------------------------------------------------------------ binary operators *)
(* `a.to<T>() op b.to<T>()` for integral T on the converted operands x y *)
Definition int_binop (o : binop) (T : ikind) (x y : Z) : res :=
  let P := promote T in
  match o with
  | Add => ret_arith P (x + y)
  | Sub => ret_arith P (x - y)
  | Mul => ret_arith P (x * y)
  | Div => if y =? 0 then UB else ret_arith P (Z.quot x y)
  | Mod => if y =? 0 then UB
           else if isigned P && (x =? imin P) && (y =? -1) then UB
           else ret_arith P (Z.rem x y)
  | Lt => Val (pbool (x <? y))
  | Le => Val (pbool (x <=? y))
  | Eq => Val (pbool (x =? y))
  | Ne => Val (pbool (negb (x =? y)))
  | Ge => Val (pbool (y <=? x))
  | Gt => Val (pbool (y <? x))
  | LAnd => Val (pbool (negb (x =? 0) && negb (y =? 0)))
  | LOr => Val (pbool (negb (x =? 0) || negb (y =? 0)))
  | BAnd => match T with KBool => Err | _ => ret_bits P (Z.land x y) end
  | BOr => match T with KBool => Err | _ => ret_bits P (Z.lor x y) end
  | BXor => match T with KBool => Err | _ => ret_bits P (Z.lxor x y) end
  | Shl => shl P x y
  | Shr => shr P x y
  end.

(* reading a.value.float_ / a.value.double_ straight out of the union (pinned == and !=):
   the bytes of the stored member, the remaining bytes of the union taken as zero *)
Definition raw_bits (p : prim) : Z :=
  match p with
  | PI KBool v => v
  | PI k v => v mod 2 ^ (ibits k)
  | PF s f => fbits ops s f
  end.
Definition raw_read (s : bool) (p : prim) : Z := raw_bits p mod 2 ^ (if s then 32 else 64).

Definition float_binop (c : cfg) (o : binop) (s : bool) (a b : prim) : res :=
  let x := to_f s a in
  let y := to_f s b in
  match o with
  | Add => Val (PF s (fadd ops s x y))
  | Sub => Val (PF s (fsub ops s x y))
  | Mul => Val (PF s (fmul ops s x y))
  | Div => Val (PF s (fdiv ops s x y))
  | Lt => Val (pbool (flt ops x y))
  | Le => Val (pbool (fle ops x y))
  | Ge => Val (pbool (fle ops y x))
  | Gt => Val (pbool (flt ops y x))
  | Eq => if fix_feq c then Val (pbool (feq ops x y))
          else Val (pbool (raw_read s a =? raw_read s b))
  | Ne => if fix_feq c then Val (pbool (negb (feq ops x y)))
          else Val (pbool (negb (raw_read s a =? raw_read s b)))
  | LAnd => if fix_lfloat c then Val (pbool (fnonzero ops x && fnonzero ops y)) else Err
  | LOr => if fix_lfloat c then Val (pbool (fnonzero ops x || fnonzero ops y)) else Err
  | Mod | BAnd | BOr | BXor | Shl | Shr => Err
  end.

Definition is_shift (o : binop) : bool := match o with Shl | Shr => true | _ => false end.

(* binaryOperator_t::operator() -> primitive::<op>(a, b) *)
Definition binop_eval (c : cfg) (o : binop) (a b : prim) : res :=
  if is_shift o && fix_shift c then
    (* const int retType = (b.type & isFloat) ? b.type : a.type;  count = b.to<int64_t>() *)
    match a, b with
    | _, PF _ _ => Err
    | PF _ _, _ => Err
    | PI ka va, PI _ vb =>
        let x := conv ka va in
        let n := conv KI64 vb in
        match o with Shl => shl (promote ka) x n | _ => shr (promote ka) x n end
    end
  else
    match ret_type a b with
    | RI T =>
        match to_int T a, to_int T b with
        | Some x, Some y => int_binop o T x y
        | _, _ => Err
        end
    | RF s => float_binop c o s a b
    end.

(* ------------------------------------------------------------------ tree evaluation *)
Fixpoint eval (c : cfg) (e : expr F) : res :=
  match e with
  | ELit l => Val (load c l)
  | EUn o a =>
      match eval c a with
      | Val p => unop_eval c o p
      | r => r
      end
  | EBin o a b =>
      match eval c a with
      | Val pa =>
          let skip :=
            fix_sc c &&
            match o with LAnd => negb (truthy pa) | LOr => truthy pa | _ => false end in
          if skip then Val (pbool (match o with LOr => true | _ => false end))
          else match eval c b with
               | Val pb => binop_eval c o pa pb
               | r => r
               end
      | r => r
      end
  | ETern x a b =>
      match eval c x with
      | Val px => if truthy px then eval c a else eval c b
      | r => r
      end
  end.

End Model.

Arguments PI {F}. Arguments PF {F}. Arguments Val {F}. Arguments Err {F}. Arguments UB {F}.
