(* C14 — floating and mixed operands, and the main theorem by induction on the expression. *)
From Coq Require Import List ZArith Bool Lia ZifyBool.
From OV.C14 Require Import Syntax Model Spec ProofsLit ProofsConv ProofsOps.
Import ListNotations.
Local Open Scope Z_scope.
Ltac Zify.zify_post_hook ::= Z.to_euclidean_division_equations.

Lemma binop_eq_dec_and : forall o : binop, {o = LAnd} + {o <> LAnd}.
Proof. destruct o; try (left; reflexivity); right; discriminate. Qed.
Lemma binop_eq_dec_or : forall o : binop, {o = LOr} + {o <> LOr}.
Proof. destruct o; try (left; reflexivity); right; discriminate. Qed.

Section Main.
Context {F : Type} (ops : fops F).
Hypothesis H_nz_of_Z : forall s z, - M64 < z < M64 -> fnonzero ops (f_of_Z ops s z) = negb (z =? 0).
Hypothesis H_nz_ext : forall f, fnonzero ops (f64_of_f32 ops f) = fnonzero ops f.

Notation erase := (@erase F).
Notation wf := (@wf F).

Definition is_float_val (v : @cval F) : bool := match v with CI _ _ => false | _ => true end.

Lemma fres_inv : forall s f v, fres ops s f = Some v -> v = (if s then CFl f else CDb f).
Proof. intros s f v H. unfold fres in H. destruct (ffinite ops f); [inversion H; reflexivity | discriminate]. Qed.

Ltac float_case H :=
  repeat match type of H with
  | (if ?c then _ else _) = Some _ => destruct c; [|discriminate]
  end;
  first [ apply fres_inv in H; subst; cbn [erase]; split; [reflexivity | exact I]
        | inversion H; subst; unfold pbool, cbool; cbn [erase erase_t];
          split; [reflexivity | apply wf_cbool] ].

(* at least one floating operand, operator other than && || *)
Lemma float_bin_agree : forall o va vb v,
  wf va -> wf vb -> is_float_val va || is_float_val vb = true ->
  o <> LAnd -> o <> LOr ->
  bin_eval ops o va vb = Some v ->
  binop_eval ops fixed o (erase va) (erase vb) = Val (erase v) /\ wf v.
Proof.
  intros o va vb v Hwa Hwb Hf Hna Hno H.
  destruct va as [ta x | fa | fa], vb as [tb y | fb | fb]; cbn [is_float_val orb] in Hf; try discriminate;
    try destruct ta; try destruct tb;
    destruct o; try congruence;
    cbn [bin_eval uac ctype_of convert float_arith is_cmp] in H; try discriminate;
    cbn [erase erase_t binop_eval is_shift andb fix_shift fixed ret_type prank pkind irank rank_float rank_double
         float_binop to_f fix_feq fix_lfloat];
    try (change (1 >? 10) with false); try (change (6 >? 10) with false); try (change (7 >? 10) with false);
    try (change (8 >? 10) with false); try (change (9 >? 10) with false);
    try (change (1 >? 11) with false); try (change (6 >? 11) with false); try (change (7 >? 11) with false);
    try (change (8 >? 11) with false); try (change (9 >? 11) with false);
    try (change (10 >? 1) with true); try (change (10 >? 6) with true); try (change (10 >? 7) with true);
    try (change (10 >? 8) with true); try (change (10 >? 9) with true);
    try (change (11 >? 1) with true); try (change (11 >? 6) with true); try (change (11 >? 7) with true);
    try (change (11 >? 8) with true); try (change (11 >? 9) with true);
    try (change (10 >? 10) with false); try (change (11 >? 11) with false);
    try (change (10 >? 11) with false); try (change (11 >? 10) with true);
    cbn [float_binop to_f fix_feq fix_lfloat fixed];
    float_case H.
Qed.

(* && and || with both operands evaluated *)
Lemma truth_of_Z : forall s t z, repr t z = true -> fnonzero ops (f_of_Z ops s z) = negb (z =? 0).
Proof. intros s t z H. apply H_nz_of_Z. apply (repr_abs_lt t). exact H. Qed.

Lemma ret_type_if : forall k x s f, ret_type (@PI F k x) (PF s f) = RF s.
Proof. destruct k, s; reflexivity. Qed.
Lemma ret_type_fi : forall k x s f, ret_type (PF s f) (@PI F k x) = RF s.
Proof. destruct k, s; reflexivity. Qed.
Lemma ret_type_ff : forall s f s' f', ret_type (@PF F s f) (PF s' f') = RF (s && s').
Proof. destruct s, s'; reflexivity. Qed.

Lemma logic_agree : forall o va vb,
  wf va -> wf vb -> (o = LAnd \/ o = LOr) ->
  binop_eval ops fixed o (erase va) (erase vb) =
  Val (erase (cbool (match o with LAnd => truth ops va && truth ops vb | _ => truth ops va || truth ops vb end))).
Proof.
  intros o va vb Hwa Hwb Ho.
  destruct va as [ta x | fa | fa], vb as [tb y | fb | fb]; cbn [ProofsOps.wf] in *;
    try (cbn [ProofsOps.erase truth]; apply logic_int_agree; assumption);
    unfold binop_eval; replace (is_shift o && fix_shift fixed) with false by (destruct Ho; subst; reflexivity);
    cbn [ProofsOps.erase]; rewrite ?ret_type_if, ?ret_type_fi, ?ret_type_ff; cbn [andb];
    destruct Ho; subst; cbn [float_binop to_f fix_lfloat fixed truth];
    rewrite ?H_nz_ext; erewrite ?truth_of_Z by eassumption; reflexivity.
Qed.

(* every binary operator, both operands evaluated *)
Lemma bin_agree : forall o va vb v,
  wf va -> wf vb ->
  ~ (is_bitop o = true /\ ctype_of va = TI TBool /\ ctype_of vb = TI TBool) ->
  bin_eval ops o va vb = Some v ->
  binop_eval ops fixed o (erase va) (erase vb) = Val (erase v) /\ wf v.
Proof.
  intros o va vb v Hwa Hwb Hg H.
  destruct (binop_eq_dec_and o) as [Ea | Hna].
  - subst. cbn [bin_eval] in H. inversion H; subst.
    rewrite (logic_agree LAnd va vb Hwa Hwb (or_introl eq_refl)). split; [reflexivity | apply wf_cbool].
  - destruct (binop_eq_dec_or o) as [Eo | Hno].
    + subst. cbn [bin_eval] in H. inversion H; subst.
      rewrite (logic_agree LOr va vb Hwa Hwb (or_intror eq_refl)). split; [reflexivity | apply wf_cbool].
    + destruct (is_float_val va || is_float_val vb) eqn:Ef.
      * apply float_bin_agree; assumption.
      * destruct va as [ta x | |], vb as [tb y | |]; cbn [is_float_val orb] in Ef; try discriminate.
        cbn [erase ProofsOps.erase wf ProofsOps.wf] in *.
        destruct (plain_op o) eqn:Ep.
        -- apply (int_bin_agree ops); try assumption.
           intros [Hb [Ha Hb']]. apply Hg. subst. cbn [ctype_of]. auto.
        -- assert (Hs : o = Shl \/ o = Shr) by (destruct o; try discriminate; try congruence; auto).
           apply (shift_agree ops); try assumption.
           destruct Hs; subst; exact H.
Qed.

(* ------------------------------------------------------------------ static types are sound *)
Lemma ityp_eqb_eq : forall a b, ityp_eqb a b = true -> a = b.
Proof. destruct a, b; cbn; intros; try discriminate; reflexivity. Qed.
Lemma ctype_eqb_eq : forall a b, ctype_eqb a b = true -> a = b.
Proof. destruct a, b; cbn; intros H; try discriminate; try reflexivity. f_equal. apply ityp_eqb_eq; exact H. Qed.

Lemma convert_type : forall t v v', convert ops t v = Some v' -> ctype_of v' = t.
Proof. destruct t, v; cbn; intros v' H; try discriminate; inversion H; reflexivity. Qed.

Lemma cvt_id : forall t z, repr t z = true -> cvt t z = z.
Proof. intros t z H. destruct t; unf; split_ifs; lia. Qed.

Lemma convert_same : forall v, wf v -> convert ops (ctype_of v) v = Some v.
Proof. destruct v; cbn; intros H; try reflexivity. rewrite cvt_id by exact H. reflexivity. Qed.

Lemma un_eval_type : forall o v v', un_eval ops o v = Some v' -> un_type o (ctype_of v) = Some (ctype_of v').
Proof.
  intros o v v' H. destruct o, v; cbn in *; try discriminate;
    try (unfold ires in H; split_ifs; try discriminate); inversion H; subst; reflexivity.
Qed.

Lemma bin_eval_type : forall o va vb v, bin_eval ops o va vb = Some v ->
  bin_type o (ctype_of va) (ctype_of vb) = Some (ctype_of v).
Proof.
  intros o va vb v H.
  destruct o, va, vb; cbn [bin_eval bin_type ctype_of uac convert is_cmp is_arith_op is_int_op is_shift_op
                           int_arith int_cmp float_arith] in *;
    try discriminate;
    unfold ires, fres, shift_eval, cbool in H; split_ifs; try discriminate; inversion H; subst; reflexivity.
Qed.

Lemma cpp_eval_type : forall e v, cpp_eval ops e = Some v -> type_of e = Some (ctype_of v).
Proof.
  induction e as [l | o a IHa | o a IHa b IHb | c IHc a IHa b IHb]; intros v H.
  - destruct l as [b | il | s f]; cbn in *.
    + inversion H; reflexivity.
    + destruct (lit_type il); [inversion H; reflexivity | discriminate].
    + destruct (ffinite ops f); [|discriminate]. destruct s; inversion H; reflexivity.
  - cbn in *. destruct (cpp_eval ops a) as [va|] eqn:Ea; [|discriminate].
    rewrite (IHa va eq_refl). apply un_eval_type; exact H.
  - assert (Hgen : forall va vb, cpp_eval ops a = Some va -> cpp_eval ops b = Some vb ->
                   bin_eval ops o va vb = Some v -> type_of (EBin o a b) = Some (ctype_of v)).
    { intros va vb Ea Eb Hb. cbn [type_of]. rewrite (IHa va Ea), (IHb vb Eb). apply bin_eval_type; exact Hb. }
    destruct o; cbn [cpp_eval] in H;
      try (destruct (cpp_eval ops a) as [va|] eqn:Ea; [|discriminate];
           destruct (cpp_eval ops b) as [vb|] eqn:Eb; [|discriminate];
           exact (Hgen va vb eq_refl eq_refl H)).
    + (* && *)
      destruct (cpp_eval ops a) as [va|] eqn:Ea; [|discriminate].
      destruct (type_of b) as [tb|] eqn:Tb; [|discriminate].
      cbn [type_of]. rewrite (IHa va eq_refl), Tb. cbn.
      destruct (truth ops va); [destruct (cpp_eval ops b); [|discriminate]|]; inversion H; reflexivity.
    + (* || *)
      destruct (cpp_eval ops a) as [va|] eqn:Ea; [|discriminate].
      destruct (type_of b) as [tb|] eqn:Tb; [|discriminate].
      cbn [type_of]. rewrite (IHa va eq_refl), Tb. cbn.
      destruct (truth ops va); [|destruct (cpp_eval ops b); [|discriminate]]; inversion H; reflexivity.
  - cbn [cpp_eval] in H. cbn [type_of].
    destruct (cpp_eval ops c) as [vc|] eqn:Ec; [|discriminate].
    rewrite (IHc vc eq_refl).
    destruct (type_of a) as [ta|]; [|discriminate]. destruct (type_of b) as [tb|]; [|discriminate].
    destruct (cpp_eval ops (if truth ops vc then a else b)) as [v0|]; [|discriminate].
    rewrite (convert_type _ _ _ H). reflexivity.
Qed.

(* ------------------------------------------------------------------ the main theorem *)
Lemma guards_un : forall o a, guards (@EUn F o a) = true ->
  guards a = true /\ (o = UTilde -> is_bool (type_of a) = false).
Proof.
  intros o a H. unfold guards in *. cbn [no_tilde_bool no_bitop_bool tern_same_type] in H.
  repeat match goal with Hx : _ && _ = true |- _ => apply andb_true_iff in Hx; destruct Hx end.
  split.
  - repeat (apply andb_true_iff; split); assumption.
  - intros ->. match goal with Hn : negb _ = true |- _ => apply negb_true_iff in Hn; exact Hn end.
Qed.

Lemma guards_bin : forall o a b, guards (@EBin F o a b) = true ->
  guards a = true /\ guards b = true /\
  (is_bitop o && is_bool (type_of a) && is_bool (type_of b) = false).
Proof.
  intros o a b H. unfold guards in *. cbn [no_tilde_bool no_bitop_bool tern_same_type] in H.
  repeat match goal with Hx : _ && _ = true |- _ => apply andb_true_iff in Hx; destruct Hx end.
  repeat split; try (repeat (apply andb_true_iff; split); assumption).
  match goal with Hn : negb _ = true |- _ => apply negb_true_iff in Hn; exact Hn end.
Qed.

Lemma guards_tern : forall c a b, guards (@ETern F c a b) = true ->
  guards c = true /\ guards a = true /\ guards b = true /\ same_type (type_of a) (type_of b) = true.
Proof.
  intros c a b H. unfold guards in *. cbn [no_tilde_bool no_bitop_bool tern_same_type] in H.
  repeat match goal with Hx : _ && _ = true |- _ => apply andb_true_iff in Hx; destruct Hx end.
  repeat split; try (repeat (apply andb_true_iff; split); assumption).
Qed.

Theorem fold_agrees_guarded : forall e v,
  guards e = true -> cpp_eval ops e = Some v ->
  eval ops fixed e = Val (erase v) /\ wf v.
Proof.
  induction e as [l | o a IHa | o a IHa b IHb | c IHc a IHa b IHb]; intros v Hg H.
  - (* literals *)
    destruct l as [b | il | s f]; cbn [cpp_eval lit_eval eval load] in *.
    + inversion H; subst. split; [reflexivity | destruct b; reflexivity].
    + destruct (lit_type il) as [t|] eqn:Et; [|discriminate]. inversion H; subst.
      rewrite (load_int_agrees il t Et). split; [reflexivity|].
      cbn [ProofsOps.wf]. unfold lit_type in Et. destruct (digits_ok (l_base il) (l_digits il)); [|discriminate].
      apply (first_fit_repr _ _ _ Et).
    + destruct (ffinite ops f); [|discriminate]. destruct s; inversion H; subst; split; reflexivity || exact I.
  - (* unary *)
    apply guards_un in Hg. destruct Hg as [Hga Hgt].
    cbn [cpp_eval eval] in *.
    destruct (cpp_eval ops a) as [va|] eqn:Ea; [|discriminate].
    destruct (IHa va Hga eq_refl) as [Hea Hwa]. rewrite Hea.
    apply (un_agree ops); try assumption.
    intros [-> Hb]. specialize (Hgt eq_refl).
    rewrite (cpp_eval_type a va Ea), Hb in Hgt. discriminate.
  - (* binary *)
    apply guards_bin in Hg. destruct Hg as [Hga [Hgb Hgo]].
    assert (Hgen : forall va vb, cpp_eval ops a = Some va -> cpp_eval ops b = Some vb ->
              bin_eval ops o va vb = Some v -> o <> LAnd -> o <> LOr ->
              eval ops fixed (EBin o a b) = Val (erase v) /\ wf v).
    { intros va vb Ea Eb Hb Hna Hno. cbn [eval].
      destruct (IHa va Hga Ea) as [Hea Hwa]. destruct (IHb vb Hgb Eb) as [Heb Hwb]. rewrite Hea.
      replace (fix_sc fixed && match o with LAnd => negb (truthy ops (erase va)) | LOr => truthy ops (erase va) | _ => false end)
        with false by (destruct o; try reflexivity; congruence).
      rewrite Heb. apply bin_agree; try assumption.
      intros [Hbit [Hta Htb]].
      rewrite (cpp_eval_type a va Ea), (cpp_eval_type b vb Eb), Hbit, Hta, Htb in Hgo. discriminate. }
    destruct o; cbn [cpp_eval] in H;
      try (destruct (cpp_eval ops a) as [va|] eqn:Ea; [|discriminate];
           destruct (cpp_eval ops b) as [vb|] eqn:Eb; [|discriminate];
           apply (Hgen va vb eq_refl eq_refl H); discriminate).
    + (* && *)
      destruct (cpp_eval ops a) as [va|] eqn:Ea; [|discriminate].
      destruct (type_of b) as [tb|]; [|discriminate].
      destruct (IHa va Hga eq_refl) as [Hea Hwa]. cbn [eval]. rewrite Hea.
      cbn [fix_sc fixed andb]. rewrite truthy_erase.
      destruct (truth ops va) eqn:Tv; cbn [negb].
      * destruct (cpp_eval ops b) as [vb|] eqn:Eb; [|discriminate]. inversion H; subst.
        destruct (IHb vb Hgb eq_refl) as [Heb Hwb]. rewrite Heb.
        rewrite (logic_agree LAnd va vb Hwa Hwb (or_introl eq_refl)). rewrite Tv. cbn [andb].
        split; [reflexivity | apply wf_cbool].
      * inversion H; subst. split; reflexivity.
    + (* || *)
      destruct (cpp_eval ops a) as [va|] eqn:Ea; [|discriminate].
      destruct (type_of b) as [tb|]; [|discriminate].
      destruct (IHa va Hga eq_refl) as [Hea Hwa]. cbn [eval]. rewrite Hea.
      cbn [fix_sc fixed andb]. rewrite truthy_erase.
      destruct (truth ops va) eqn:Tv.
      * inversion H; subst. split; reflexivity.
      * destruct (cpp_eval ops b) as [vb|] eqn:Eb; [|discriminate]. inversion H; subst.
        destruct (IHb vb Hgb eq_refl) as [Heb Hwb]. rewrite Heb.
        rewrite (logic_agree LOr va vb Hwa Hwb (or_intror eq_refl)). rewrite Tv. cbn [orb].
        split; [reflexivity | apply wf_cbool].
  - (* conditional *)
    apply guards_tern in Hg. destruct Hg as [Hgc [Hga [Hgb Hst]]].
    cbn [cpp_eval eval] in *.
    destruct (cpp_eval ops c) as [vc|] eqn:Ec; [|discriminate].
    destruct (IHc vc Hgc eq_refl) as [Hec Hwc]. rewrite Hec, truthy_erase.
    destruct (type_of a) as [ta|] eqn:Ta; [|discriminate].
    destruct (type_of b) as [tb|] eqn:Tb; [|discriminate].
    cbn [same_type] in Hst. apply ctype_eqb_eq in Hst. subst tb.
    assert (Hct : cond_type ta ta = ta).
    { unfold cond_type. destruct (ctype_eqb ta ta) eqn:E; [reflexivity|]. destruct ta as [[]| |]; discriminate. }
    rewrite Hct in H.
    destruct (truth ops vc).
    + destruct (cpp_eval ops a) as [v0|] eqn:Ea; [|discriminate].
      destruct (IHa v0 Hga eq_refl) as [Hea Hwa].
      pose proof (cpp_eval_type a v0 Ea) as Hty. rewrite Ta in Hty. inversion Hty; subst ta.
      rewrite (convert_same v0 Hwa) in H. inversion H; subst. split; assumption.
    + destruct (cpp_eval ops b) as [v0|] eqn:Eb; [|discriminate].
      destruct (IHb v0 Hgb eq_refl) as [Heb Hwb].
      pose proof (cpp_eval_type b v0 Eb) as Hty. rewrite Tb in Hty. inversion Hty; subst ta.
      rewrite (convert_same v0 Hwb) in H. inversion H; subst. split; assumption.
Qed.

End Main.
