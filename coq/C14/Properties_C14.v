(* C14 — constant folding computes what C++ computes.

   Vocabulary: Syntax.expr (literals as written, unary/binary/conditional operators), Model.eval
   (OCCA's folder; cfg = fixed is the tree with fixes/C14-1..6 applied, cfg = pinned the tree
   before them), Spec.cpp_eval (C++17 on LP64; None = ill-formed or undefined), Spec.type_of,
   Spec.guards.  erase maps a C++ value to the OCCA primitive with the same value, signedness and
   width (long and long long are both int64, unsigned long and unsigned long long both uint64).

   Floats: every theorem holds for every type F and every implementation `ops : fops F` of the
   float interface that satisfies the two hypotheses spelled out in the statements
   (conversion of a non-zero 64-bit integer gives a non-zero float; float -> double keeps
   zero-ness).

   FULL STATEMENT (false on the current code, see the *_refuted theorems on cfg = fixed):
       forall e v, cpp_eval ops e = Some v -> eval ops fixed e = Val (erase v)
   What is missing from fold_agrees_partial is exactly the hypothesis `guards e = true`, which
   excludes three recorded findings: `~` applied to a bool operand, `& | ^` applied to two bool
   operands, `?:` whose second and third operands have different types. *)
From Coq Require Import List ZArith Bool.
From OV.C14 Require Import Syntax Model Spec ProofsLit ProofsConv ProofsOps Proofs.
Import ListNotations.
Local Open Scope Z_scope.

Theorem fold_agrees_partial :
  forall (F : Type) (ops : fops F),
    (forall s z, - 2 ^ 64 < z < 2 ^ 64 -> fnonzero ops (f_of_Z ops s z) = negb (z =? 0)) ->
    (forall f, fnonzero ops (f64_of_f32 ops f) = fnonzero ops f) ->
    forall (e : expr F) (v : cval),
      guards e = true ->
      cpp_eval ops e = Some v ->
      eval ops fixed e = Val (erase v).
Proof.
  intros F ops H1 H2 e v Hg H.
  exact (proj1 (fold_agrees_guarded ops H1 H2 e v Hg H)).
Qed.
Print Assumptions fold_agrees_partial.

(* the value the specification defines is always representable in its type, and the static type
   of the expression is the type of its value *)
Theorem cpp_eval_sound :
  forall (F : Type) (ops : fops F) (e : expr F) (v : cval),
    cpp_eval ops e = Some v -> type_of e = Some (ctype_of v).
Proof. intros F ops e v H. exact (cpp_eval_type ops e v H). Qed.
Print Assumptions cpp_eval_sound.

(* literal text gets the type C++ gives it ([lex.icon]) and its exact value *)
Theorem literal_typing_agrees :
  forall (F : Type) (l : ilit) (t : ityp),
    lit_type l = Some t ->
    @load_int F fixed l = PI (erase_t t) (lit_value (l_base l) (l_digits l)).
Proof. intros F l t H. exact (load_int_agrees l t H). Qed.
Print Assumptions literal_typing_agrees.

(* the conversion step of the usual arithmetic conversions is part of both sides: an integer operand
   compared with a float (double) operand is first converted into that floating type (f_of_Z with
   s = true / false), and only then compared; so 16777217 == 16777216.0f is decided in float, where
   both are 2^24 (instance of fold_agrees_partial, spelled out; holds for every float implementation) *)
Theorem mixed_compare_converts_first :
  forall (F : Type) (ops : fops F) (s : bool) (il : ilit) (t : ityp) (f : F),
    lit_type il = Some t -> ffinite ops f = true ->
    let z := lit_value (l_base il) (l_digits il) in
    let e := EBin Eq (ELit (LInt il)) (ELit (LFloat s f)) in
    cpp_eval ops e = Some (CI TBool (b2z (feq ops (f_of_Z ops s z) f))) /\
    eval ops fixed e = Val (PI KBool (b2z (feq ops (f_of_Z ops s z) f))).
Proof.
  intros F ops s il t f Ht Hf z e. subst e. split.
  - cbn [cpp_eval lit_eval]. rewrite Ht, Hf. destruct s; reflexivity.
  - cbn [eval load]. rewrite (load_int_agrees il t Ht).
    cbn [fix_sc fixed andb]. unfold binop_eval. cbn [is_shift andb].
    rewrite ret_type_if. destruct s; reflexivity.
Qed.
Print Assumptions mixed_compare_converts_first.

(* operands that C++ does not evaluate are not evaluated: whatever b is (even if evaluating it is
   undefined behaviour in the library), a false left operand of && decides the result *)
Theorem and_skips_right :
  forall (F : Type) (ops : fops F),
    (forall s z, - 2 ^ 64 < z < 2 ^ 64 -> fnonzero ops (f_of_Z ops s z) = negb (z =? 0)) ->
    (forall f, fnonzero ops (f64_of_f32 ops f) = fnonzero ops f) ->
    forall (a b : expr F) (va : cval),
      guards a = true -> cpp_eval ops a = Some va -> truth ops va = false ->
      eval ops fixed (EBin LAnd a b) = Val (PI KBool 0).
Proof.
  intros F ops H1 H2 a b va Hg Ha Ht. cbn [eval].
  rewrite (proj1 (fold_agrees_guarded ops H1 H2 a va Hg Ha)).
  cbn [fix_sc fixed andb]. rewrite truthy_erase, Ht. reflexivity.
Qed.
Print Assumptions and_skips_right.

Theorem or_skips_right :
  forall (F : Type) (ops : fops F),
    (forall s z, - 2 ^ 64 < z < 2 ^ 64 -> fnonzero ops (f_of_Z ops s z) = negb (z =? 0)) ->
    (forall f, fnonzero ops (f64_of_f32 ops f) = fnonzero ops f) ->
    forall (a b : expr F) (va : cval),
      guards a = true -> cpp_eval ops a = Some va -> truth ops va = true ->
      eval ops fixed (EBin LOr a b) = Val (PI KBool 1).
Proof.
  intros F ops H1 H2 a b va Hg Ha Ht. cbn [eval].
  rewrite (proj1 (fold_agrees_guarded ops H1 H2 a va Hg Ha)).
  cbn [fix_sc fixed andb]. rewrite truthy_erase, Ht. reflexivity.
Qed.
Print Assumptions or_skips_right.

(* ------------------------------------------------------------------ literals used below *)
Definition dec (ds : list Z) : ilit := mk_ilit Dec ds false 0.
Definition decu (ds : list Z) : ilit := mk_ilit Dec ds true 0.
Definition hex (ds : list Z) : ilit := mk_ilit Hex ds false 0.
Definition zero : ilit := mk_ilit Oct [] false 0.          (* the literal "0" is an octal literal *)
Definition ilit_e {F} (l : ilit) : expr F := ELit (LInt l).

(* ------------------------------------------------------------------ the pinned code violates the property
   (one witness per repaired defect; cfg = pinned) *)
Theorem big_decimal_refuted :        (* 4294967296 is (long) 4294967296 in C++, (int) 0 in OCCA *)
  forall (F : Type) (ops : fops F), exists (e : expr F) v,
    cpp_eval ops e = Some v /\ eval ops pinned e <> Val (erase v).
Proof.
  intros. exists (ilit_e (dec [4;2;9;4;9;6;7;2;9;6])), (CI TLong 4294967296).
  split; [vm_compute; reflexivity | vm_compute; discriminate].
Qed.
Print Assumptions big_decimal_refuted.

Theorem hex_topbit_refuted :         (* 0x80000000 is (unsigned) 2147483648 in C++, (int) -2147483648 in OCCA *)
  forall (F : Type) (ops : fops F), exists (e : expr F) v,
    cpp_eval ops e = Some v /\ eval ops pinned e <> Val (erase v).
Proof.
  intros. exists (ilit_e (hex [8;0;0;0;0;0;0;0])), (CI TUInt 2147483648).
  split; [vm_compute; reflexivity | vm_compute; discriminate].
Qed.
Print Assumptions hex_topbit_refuted.

Theorem shift_type_refuted :         (* -1 >> 1u is (int) -1 in C++, (unsigned) 2147483647 in OCCA *)
  forall (F : Type) (ops : fops F), exists (e : expr F) v,
    cpp_eval ops e = Some v /\ eval ops pinned e <> Val (erase v).
Proof.
  intros. exists (EBin Shr (EUn UNeg (ilit_e (dec [1]))) (ilit_e (decu [1]))), (CI TInt (-1)).
  split; [vm_compute; reflexivity | vm_compute; discriminate].
Qed.
Print Assumptions shift_type_refuted.

Theorem eager_and_refuted :          (* 0 && (1 / 0) is false in C++; OCCA divides by zero *)
  forall (F : Type) (ops : fops F), exists (e : expr F) v,
    cpp_eval ops e = Some v /\ eval ops pinned e = UB.
Proof.
  intros. exists (EBin LAnd (ilit_e zero) (EBin Div (ilit_e (dec [1])) (ilit_e zero))), (CI TBool 0).
  split; vm_compute; reflexivity.
Qed.
Print Assumptions eager_and_refuted.

Theorem mixed_eq_refuted :           (* 1 == 1.0 is true in C++; OCCA compares the bytes of (int) 1 with those of 1.0 *)
  forall (F : Type) (ops : fops F) (one : F),
    ffinite ops one = true ->
    feq ops (f_of_Z ops false 1) one = true ->          (* `one` is the double 1.0 *)
    (fbits ops false one) mod 2 ^ 64 <> 1 ->             (* whose bit pattern is not that of the integer 1 *)
    exists (e : expr F) v,
      cpp_eval ops e = Some v /\ eval ops pinned e <> Val (erase v).
Proof.
  intros F ops one Hfin Heq Hbits.
  exists (EBin Eq (ilit_e (dec [1])) (ELit (LFloat false one))), (CI TBool 1).
  split.
  - cbn. rewrite Hfin. cbn. rewrite Heq. reflexivity.
  - assert (Hm : eval ops pinned (EBin Eq (ilit_e (dec [1])) (ELit (LFloat false one))) =
                 Val (pbool (1 =? fbits ops false one mod 2 ^ 64))) by reflexivity.
    rewrite Hm. destruct (1 =? fbits ops false one mod 2 ^ 64) eqn:E.
    + apply Z.eqb_eq in E. congruence.
    + intro Hc. inversion Hc.
Qed.
Print Assumptions mixed_eq_refuted.

Theorem not_float_refuted :          (* !x for a double x is a bool in C++; OCCA throws *)
  forall (F : Type) (ops : fops F) (x : F),
    ffinite ops x = true ->
    exists (e : expr F) v,
      cpp_eval ops e = Some v /\ eval ops pinned e = Err.
Proof.
  intros F ops x Hfin.
  exists (EUn UNot (ELit (LFloat false x))), (CI TBool (b2z (negb (fnonzero ops x)))).
  split; cbn; [rewrite Hfin; reflexivity | reflexivity].
Qed.
Print Assumptions not_float_refuted.

(* ------------------------------------------------------------------ recorded findings: the repaired code
   still violates the full statement on these (cfg = fixed); they are what `guards` excludes *)
Theorem tilde_bool_refuted :         (* ~true is (int) -2 in C++, (bool) false in OCCA *)
  forall (F : Type) (ops : fops F), exists (e : expr F) v,
    guards e = false /\ cpp_eval ops e = Some v /\ eval ops fixed e <> Val (erase v).
Proof.
  intros. exists (EUn UTilde (ELit (LBool true))), (CI TInt (-2)).
  repeat split; vm_compute; try reflexivity; discriminate.
Qed.
Print Assumptions tilde_bool_refuted.

Theorem bitop_bool_refuted :         (* true & true is (int) 1 in C++; OCCA throws *)
  forall (F : Type) (ops : fops F), exists (e : expr F) v,
    guards e = false /\ cpp_eval ops e = Some v /\ eval ops fixed e = Err.
Proof.
  intros. exists (EBin BAnd (ELit (LBool true)) (ELit (LBool true))), (CI TInt 1).
  repeat split; vm_compute; reflexivity.
Qed.
Print Assumptions bitop_bool_refuted.

Theorem ternary_type_refuted :       (* 1 ? 1 : 2.0 is the double 1.0 in C++, (int) 1 in OCCA *)
  forall (F : Type) (ops : fops F) (two : F), exists (e : expr F) v,
    guards e = false /\ cpp_eval ops e = Some v /\ eval ops fixed e <> Val (erase v).
Proof.
  intros F ops two.
  exists (ETern (ilit_e (dec [1])) (ilit_e (dec [1])) (ELit (LFloat false two))), (CDb (f_of_Z ops false 1)).
  repeat split; try (vm_compute; reflexivity). cbn. discriminate.
Qed.
Print Assumptions ternary_type_refuted.

(* ------------------------------------------------------------------ non-vacuity *)
(* (2147483647 + 1u) * 3L  ==  (long) 6442450944 : promotions, unsigned wrap-free sum, widening *)
Example fold_example :
  forall (F : Type) (ops : fops F),
    let e : expr F :=
      EBin Mul (EBin Add (ilit_e (dec [2;1;4;7;4;8;3;6;4;7])) (ilit_e (decu [1])))
               (ilit_e (mk_ilit Dec [3] false 1)) in
    guards e = true /\ cpp_eval ops e = Some (CI TLong 6442450944) /\
    eval ops fixed e = Val (PI KI64 6442450944).
Proof. intros. repeat split; vm_compute; reflexivity. Qed.

(* the theorem's hypotheses are met by an expression whose unevaluated operand is undefined *)
Example guarded_division_example :
  forall (F : Type) (ops : fops F),
    let e : expr F :=
      EBin LOr (ilit_e (dec [1])) (EBin Div (ilit_e (dec [1])) (ilit_e zero)) in
    guards e = true /\ cpp_eval ops e = Some (CI TBool 1) /\ eval ops fixed e = Val (PI KBool 1) /\
    eval ops pinned e = UB.
Proof. intros. repeat split; vm_compute; reflexivity. Qed.
