(* C27 — hash_t strings are faithful and hashing has no undefined behaviour.
   Vocabulary: Model.v (the code of src/utils/hash.cpp + string.hpp as it is after fixes/C27-1 and
   fixes/C27-2; `pinned` = the code before them), Spec.v (hash values as 8 unsigned words, full string
   = hexadecimal text of the 32 bytes, short string = its first 16 characters), Statements.v. *)
From Coq Require Import List ZArith Bool.
From OV.C27 Require Import Syntax Model Spec Statements Proofs.
Import ListNotations.
Local Open Scope Z_scope.

(* 1. Reading back the full string of any hash value gives the same hash (no UB on the way). *)
Theorem from_full_roundtrip : forall h : list Z,
  length h = 8%nat -> Forall i32 h ->
  option_map h_h (fromString (getFullString h)) = Some h.
Proof. exact Proofs.roundtrip_words. Qed.
Print Assumptions from_full_roundtrip.

(* the full string is the lower-case hexadecimal text of the value's bytes, for every value *)
Theorem full_string_is_hex_text : forall h : list Z,
  getFullString h = s_full (map to_u32 h).
Proof. exact Proofs.full_spec. Qed.
Print Assumptions full_string_is_hex_text.

(* 2. After every history of constructions, assignments, fromString, ^=, clear and getString calls
      over hash_t variables, getString of every variable is the first 16 characters of its full
      string (this includes all-zero and other combined values, and cached strings). *)
Theorem short_is_prefix16 : forall (ops : list op) (rs : regs) (out : list obs) (i : nat),
  Forall wf_op ops -> m_run fixed ops = Some (rs, out) ->
  fst (getString fixed (getr rs i)) = firstn 16 (getFullString (h_h (getr rs i))).
Proof. exact Proofs.short_is_prefix16_l. Qed.
Print Assumptions short_is_prefix16.

(* ... and of the object returned by hash(ptr, bytes) *)
Theorem short_is_prefix16_of_hash : forall (bs : list Z) (x : hobj),
  hash_bytes fixed bs = Some x ->
  fst (getString fixed x) = firstn 16 (getFullString (h_h x)).
Proof. exact Proofs.short_of_hash_l. Qed.
Print Assumptions short_is_prefix16_of_hash.

(* Every history runs without undefined behaviour, and everything it observes (short strings, full
   strings, fromString(getFullString) and its comparison with the original, ==, !=, <, getInt) is what the
   specification says; hash(bytes) and fromString of non-hexadecimal ASCII text are defined (their values
   are masked: the property does not fix them). *)
Theorem history_refines_spec : forall ops : list op,
  Forall wf_op ops ->
  exists out, run_now ops = Some out /\ map mask out = s_run ops.
Proof. exact Proofs.history_refines_spec_l. Qed.
Print Assumptions history_refines_spec.

(* 3. Hashing any byte string performs no undefined behaviour and yields 8 ints. *)
Theorem hash_no_ub : forall bs : list Z,
  exists h, hash_words fixed bs = Some h /\ length h = 8%nat /\ Forall i32 h.
Proof. exact Proofs.hash_no_ub_l. Qed.
Print Assumptions hash_no_ub.

(* the repaired multiplication is the wrapped signed product, so wherever the pinned code was defined
   the value is the same (and on two's complement hardware it is the value the pinned code produced) *)
Theorem hash_mul_is_wrapped_product : forall a b : Z,
  mul_int fixed a b = Some (to_i32 (a * b)).
Proof. exact Proofs.mul_fixed. Qed.
Print Assumptions hash_mul_is_wrapped_product.

Theorem hash_agrees_with_pinned_where_defined : forall (bs h : list Z),
  hash_words pinned bs = Some h -> hash_words fixed bs = Some h.
Proof. exact Proofs.hash_pinned_fixed_l. Qed.
Print Assumptions hash_agrees_with_pinned_where_defined.

(* combining hashes: ints stay ints, and the result is the word-wise exclusive or *)
Theorem combine_no_ub : forall a b : list Z,
  length a = 8%nat -> length b = 8%nat ->
  length (xor_words a b) = 8%nat /\ Forall i32 (xor_words a b) /\
  map to_u32 (xor_words a b) = s_xor (map to_u32 a) (map to_u32 b).
Proof. exact Proofs.combine_in_range_l. Qed.
Print Assumptions combine_no_ub.

(* 4. hash(ptr, n) depends on the n bytes at ptr only: not on the address, not on other memory. *)
Theorem hash_deterministic : forall (v : variant) (mem1 : Z -> Z) (p1 : Z) (mem2 : Z -> Z) (p2 : Z) (n : nat),
  (forall i, (i < n)%nat -> mem1 (p1 + Z.of_nat i) = mem2 (p2 + Z.of_nat i)) ->
  hash_ptr v mem1 p1 n = hash_ptr v mem2 p2 n.
Proof. exact Proofs.hash_deterministic_l. Qed.
Print Assumptions hash_deterministic.

(* operator== decides equality of the values *)
Theorem eq_decides_equality : forall a b : list Z,
  length a = length b -> (words_eq a b = true <-> a = b).
Proof. exact Proofs.eq_iff_l. Qed.
Print Assumptions eq_decides_equality.

(* fromString itself: no undefined behaviour on any string without characters >= 0x80 *)
Theorem fromString_no_ub_ascii : forall s : list Z,
  Forall (fun c => 0 <= c) s -> exists x, fromString s = Some x.
Proof. exact Proofs.fromString_ascii. Qed.
Print Assumptions fromString_no_ub_ascii.

(* ---- the pinned code (before the fixes) violates the property ------------------------------- *)

(* the all-zero hash: its short string is empty *)
Theorem zero_hash_short_refuted : exists (ops : list op) (rs : regs) (out : list obs) (i : nat),
  Forall wf_op ops /\ m_run pinned ops = Some (rs, out) /\
  fst (getString pinned (getr rs i)) <> firstn 16 (getFullString (h_h (getr rs i))).
Proof.
  exists [OInts 0 [0;0;0;0;0;0;0;0]], (setr init_regs 0 (assign pinned mk_default (mk_ints [0;0;0;0;0;0;0;0]))), [], 0%nat.
  split; [repeat constructor|]. split; [reflexivity|]. vm_compute. discriminate.
Qed.
Print Assumptions zero_hash_short_refuted.

(* a hash combined with itself after its short string was read: the short string of the OLD value *)
Theorem stale_short_refuted : exists (ops : list op) (s1 s2 : list Z),
  Forall wf_op ops /\
  run_pinned ops = Some [VShort s1; VShort s2] /\
  s_run ops = [VShort s1; VShort (s_short [0;0;0;0;0;0;0;0])] /\
  s2 = s1 /\ s2 <> s_short [0;0;0;0;0;0;0;0].
Proof.
  exists [OInts 0 [1;2;3;4;5;6;7;8]; OShort 0; OXor 0 0; OShort 0].
  eexists. eexists. split; [repeat constructor|].
  split; [vm_compute; reflexivity|]. split; [vm_compute; reflexivity|]. split; [reflexivity|].
  vm_compute. discriminate.
Qed.
Print Assumptions stale_short_refuted.

(* every non-empty input overflows `int` in the very first multiplication (101527 * 102679) *)
Theorem signed_overflow_refuted : forall (c : Z) (bs : list Z), hash_words pinned (c :: bs) = None.
Proof. exact Proofs.signed_overflow_l. Qed.
Print Assumptions signed_overflow_refuted.

(* outside the statement of the property, recorded: fromString on a character >= 0x80 shifts a negative
   value left (string.hpp:232), undefined before C++20 *)
Example fromString_non_ascii_is_ub : fromString [-23; -23] = None.
Proof. reflexivity. Qed.

(* ---- non-vacuity --------------------------------------------------------------------------- *)
Definition sample_history : list op :=
  [OInts 0 [1;2;3;4;5;6;7;8]; OShort 0; OXor 0 0; OShort 0; OFull 0; ORound 0; OCmp 0 1;
   OFrom 2 [102;70;48;49]; OFull 2; OHash [97; -23]; OParse [122; 33]].

Example sample_history_wf : Forall wf_op sample_history.
Proof. repeat constructor; cbv; discriminate. Qed.

Example sample_history_runs :
  option_map (map mask) (run_now sample_history) = Some (s_run sample_history)
  /\ nth 1 (s_run sample_history) VHashM = VShort [48;48;48;48;48;48;48;48;48;48;48;48;48;48;48;48].
Proof. split; vm_compute; reflexivity. Qed.

Example hash_of_a_byte : hash_words fixed [97] =
  Some [1834756336; 1837400670; 1843697924; 1844312106; 1847387848; 1851058700; 1852287368; 1855560292].
Proof. vm_compute. reflexivity. Qed.

Example roundtrip_extremes :
  option_map h_h (fromString (getFullString [-1; -2147483648; 2147483647; 305419896; -305419896; 255; 256; -256]))
  = Some [-1; -2147483648; 2147483647; 305419896; -305419896; 255; 256; -256].
Proof. vm_compute. reflexivity. Qed.
