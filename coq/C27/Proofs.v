(* C27 — proofs.  Bit-level facts about single characters / bytes are finite sweeps
   (forallb ... = true by vm_compute, lifted by forallb_forall); everything about words,
   strings, hash values and histories is proved for all of them by arithmetic (lia) and
   induction. *)
From Coq Require Import List ZArith Bool Lia.
From OV.C27 Require Import Syntax Model Spec Statements.
Import ListNotations.
Local Open Scope Z_scope.

Ltac Zify.zify_post_hook ::= Z.div_mod_to_equations.

(* ------------------------------------------------------------------------------------------- *)
(* finite ranges                                                                                *)
Definition zseq (lo : Z) (n : nat) : list Z := map (fun i => lo + Z.of_nat i) (seq 0 n).

Lemma in_zseq lo n x : lo <= x < lo + Z.of_nat n -> In x (zseq lo n).
Proof.
  intros H. unfold zseq. apply in_map_iff. exists (Z.to_nat (x - lo)). split; [lia|].
  apply in_seq. lia.
Qed.

Lemma sweep lo n (P : Z -> bool) :
  forallb P (zseq lo n) = true -> forall x, lo <= x < lo + Z.of_nat n -> P x = true.
Proof. intros H x Hx. rewrite forallb_forall in H. apply H, in_zseq, Hx. Qed.

Fixpoint zlist_eqb (a b : list Z) : bool :=
  match a, b with
  | [], [] => true
  | x :: a', y :: b' => (x =? y) && zlist_eqb a' b'
  | _, _ => false
  end.

Lemma zlist_eqb_eq a : forall b, zlist_eqb a b = true -> a = b.
Proof.
  induction a as [|x a IH]; intros [|y b] H; cbn in H; try discriminate; auto.
  apply andb_true_iff in H. destruct H as [H1 H2]. apply Z.eqb_eq in H1. subst. f_equal. auto.
Qed.

Definition char_rng (c : Z) : Prop := -128 <= c < 128.

Lemma to_char_rng z : char_rng (to_char z).
Proof. unfold char_rng, to_char. lia. Qed.

Lemma to_char_mod b : 0 <= b < 256 -> to_char b mod 256 = b.
Proof. unfold to_char. lia. Qed.

Lemma to_char_id c : char_rng c -> to_char c = c.
Proof. unfold char_rng, to_char. lia. Qed.

(* ------------------------------------------------------------------------------------------- *)
(* sweep A: encoding one byte gives the two digits of the specification                          *)
Definition enc_ok (b : Z) : bool := zlist_eqb (hex_pair (to_char b)) (byte_hex b).

Lemma enc_sweep : forallb enc_ok (zseq 0 256) = true.
Proof. vm_compute. reflexivity. Qed.

Lemma hex_pair_spec b : 0 <= b < 256 -> hex_pair (to_char b) = byte_hex b.
Proof. intros H. apply zlist_eqb_eq. apply (sweep 0 256 enc_ok enc_sweep). lia. Qed.

(* sweep B: decoding the two characters written for a char gives the char back, without UB      *)
Definition hiC (ci : Z) : Z := toHexChar (to_char (Z.land (Z.shiftr ci 4) 15)).
Definition loC (ci : Z) : Z := toHexChar (to_char (Z.land ci 15)).

Lemma hex_pair_eq ci : hex_pair ci = [hiC ci; loC ci].
Proof. reflexivity. Qed.

Definition dec_ok (ci : Z) : bool :=
  (0 <=? fromHexChar (hiC ci)) &&
  (to_char (Z.lor (fromHexChar (hiC ci) * 16) (fromHexChar (loC ci))) =? ci).

Lemma dec_sweep : forallb dec_ok (zseq (-128) 256) = true.
Proof. vm_compute. reflexivity. Qed.

Lemma dec_enc ci : char_rng ci ->
  (fromHexChar (hiC ci) <? 0) = false /\
  to_char (Z.lor (fromHexChar (hiC ci) * 16) (fromHexChar (loC ci))) = ci.
Proof.
  intros H. assert (D : dec_ok ci = true).
  { apply (sweep (-128) 256 dec_ok dec_sweep). unfold char_rng in H. lia. }
  unfold dec_ok in D. apply andb_true_iff in D. destruct D as [D1 D2].
  apply Z.leb_le in D1. apply Z.eqb_eq in D2. split; [apply Z.ltb_ge; exact D1 | exact D2].
Qed.

(* sweep C: decoding two hexadecimal digit characters (either case) gives 16*d1 + d2, without UB *)
Definition hexchars : list Z := zseq 48 10 ++ zseq 97 6 ++ zseq 65 6.

Lemma is_hex_in c : is_hex c = true -> In c hexchars.
Proof.
  unfold is_hex, hexchars. intros H.
  apply orb_true_iff in H. destruct H as [H|H].
  - apply orb_true_iff in H. destruct H as [H|H]; apply andb_true_iff in H; destruct H as [H1 H2];
      apply Z.leb_le in H1; apply Z.leb_le in H2.
    + apply in_or_app. left. apply in_zseq. lia.
    + apply in_or_app. right. apply in_or_app. left. apply in_zseq. lia.
  - apply andb_true_iff in H; destruct H as [H1 H2]; apply Z.leb_le in H1; apply Z.leb_le in H2.
    apply in_or_app. right. apply in_or_app. right. apply in_zseq. lia.
Qed.

Definition par_ok (a b : Z) : bool :=
  (0 <=? fromHexChar a) &&
  (to_char (Z.lor (fromHexChar a * 16) (fromHexChar b)) mod 256 =? 16 * digit_val a + digit_val b).

Lemma par_sweep : forallb (fun a => forallb (par_ok a) hexchars) hexchars = true.
Proof. vm_compute. reflexivity. Qed.

Lemma par_hex a b : is_hex a = true -> is_hex b = true ->
  (fromHexChar a <? 0) = false /\
  to_char (Z.lor (fromHexChar a * 16) (fromHexChar b)) mod 256 = 16 * digit_val a + digit_val b.
Proof.
  intros Ha Hb. pose proof par_sweep as P. rewrite forallb_forall in P.
  specialize (P a (is_hex_in a Ha)). rewrite forallb_forall in P.
  specialize (P b (is_hex_in b Hb)). unfold par_ok in P.
  apply andb_true_iff in P. destruct P as [P1 P2]. apply Z.leb_le in P1. apply Z.eqb_eq in P2.
  split; [apply Z.ltb_ge; exact P1 | exact P2].
Qed.

(* ------------------------------------------------------------------------------------------- *)
(* words and their bytes                                                                        *)
Lemma i32_bounds w : i32 w <-> -2147483648 <= w <= 2147483647.
Proof.
  unfold i32, in_i32. rewrite andb_true_iff, !Z.leb_le. tauto.
Qed.

Lemma to_i32_i32 z : i32 (to_i32 z).
Proof. apply i32_bounds. unfold to_i32. lia. Qed.

Lemma to_i32_to_u32 w : i32 w -> to_i32 (to_u32 w) = w.
Proof. rewrite i32_bounds. unfold to_i32, to_u32. lia. Qed.

Lemma to_u32_rng z : 0 <= to_u32 z < 4294967296.
Proof. unfold to_u32. lia. Qed.

Lemma to_u32_to_i32 u : 0 <= u < 4294967296 -> to_u32 (to_i32 u) = u.
Proof. unfold to_i32, to_u32. lia. Qed.

Lemma to_u32_small u : 0 <= u < 4294967296 -> to_u32 u = u.
Proof. unfold to_u32. lia. Qed.

Lemma signed_to_u32 w : i32 w -> s_signed (to_u32 w) = w.
Proof.
  rewrite i32_bounds. unfold s_signed, to_u32. intros H.
  destruct (w mod 4294967296 <? 2147483648) eqn:E;
    [apply Z.ltb_lt in E | apply Z.ltb_ge in E]; lia.
Qed.

Lemma byte0 w : w mod 256 = (w mod 4294967296) mod 256.
Proof. lia. Qed.
Lemma byte1 w : (w / 256) mod 256 = ((w mod 4294967296) / 256) mod 256.
Proof. lia. Qed.
Lemma byte2 w : (w / 65536) mod 256 = ((w mod 4294967296) / 65536) mod 256.
Proof. lia. Qed.
Lemma byte3 w : (w / 16777216) mod 256 = ((w mod 4294967296) / 16777216) mod 256.
Proof. lia. Qed.

Lemma int_chars_bytes w : int_chars w = map to_char (word_bytes (to_u32 w)).
Proof.
  unfold int_chars, word_bytes, to_u32. cbn [map].
  rewrite <- byte0, <- byte1, <- byte2, <- byte3. reflexivity.
Qed.

Lemma word_bytes_rng u : Forall (fun b => 0 <= b < 256) (word_bytes u).
Proof. unfold word_bytes. repeat constructor; lia. Qed.

Lemma word_sum u : 0 <= u < 4294967296 ->
  u mod 256 + 256 * ((u / 256) mod 256) + 65536 * ((u / 65536) mod 256)
  + 16777216 * ((u / 16777216) mod 256) = u.
Proof. intros H. lia. Qed.

Lemma flat_map_hex_pair bs : Forall (fun b => 0 <= b < 256) bs ->
  flat_map hex_pair (map to_char bs) = flat_map byte_hex bs.
Proof.
  induction 1 as [|b bs Hb _ IH]; [reflexivity|].
  cbn [map flat_map]. rewrite hex_pair_spec by exact Hb. rewrite IH. reflexivity.
Qed.

Lemma toHex_int_spec w : toHex_int w = flat_map byte_hex (word_bytes (to_u32 w)).
Proof.
  unfold toHex_int. rewrite int_chars_bytes. apply flat_map_hex_pair, word_bytes_rng.
Qed.

(* the model's full string is the specification's, for every list of ints *)
Lemma full_spec h : getFullString h = s_full (map to_u32 h).
Proof.
  unfold getFullString, s_full. induction h as [|w h IH]; [reflexivity|].
  cbn [map flat_map]. rewrite toHex_int_spec, IH. reflexivity.
Qed.

Lemma toHex_int_length w : length (toHex_int w) = 8%nat.
Proof. reflexivity. Qed.

Lemma full_length h : length (getFullString h) = (8 * length h)%nat.
Proof.
  unfold getFullString. induction h as [|w h IH]; [reflexivity|].
  cbn [flat_map]. rewrite app_length, IH, toHex_int_length. cbn [length]. lia.
Qed.

(* ------------------------------------------------------------------------------------------- *)
(* round trip on the model                                                                      *)
Lemma fromHex_loop_S n a b s :
  fromHex_loop (S n) (a :: b :: s) =
  if fromHexChar a <? 0 then None
  else match fromHex_loop n s with
       | Some r => Some (to_char (Z.lor (fromHexChar a * 16) (fromHexChar b)) :: r)
       | None => None
       end.
Proof. reflexivity. Qed.

Lemma loop_enc cs : forall rest, Forall char_rng cs ->
  fromHex_loop (length cs) (flat_map hex_pair cs ++ rest) = Some cs.
Proof.
  induction cs as [|c cs IH]; intros rest H; [reflexivity|].
  inversion H as [|c' cs' Hc Hcs]; subst.
  cbn [length flat_map]. rewrite hex_pair_eq. cbn [app].
  rewrite fromHex_loop_S. destruct (dec_enc c Hc) as [E1 E2]. rewrite E1, IH, E2 by exact Hcs.
  reflexivity.
Qed.

Lemma int_chars_rng w : Forall char_rng (int_chars w).
Proof. unfold int_chars. repeat constructor; apply to_char_rng. Qed.

Lemma flat_int_chars_rng h : Forall char_rng (flat_map int_chars h).
Proof.
  induction h as [|w h IH]; [constructor|]. cbn [flat_map]. apply Forall_app. split; [apply int_chars_rng | exact IH].
Qed.

Lemma flat_int_chars_length h : length (flat_map int_chars h) = (4 * length h)%nat.
Proof.
  induction h as [|w h IH]; [reflexivity|]. cbn [flat_map]. rewrite app_length, IH. cbn [length int_chars]. lia.
Qed.

Lemma full_as_chars h : getFullString h = flat_map hex_pair (flat_map int_chars h).
Proof.
  unfold getFullString, toHex_int. induction h as [|w h IH]; [reflexivity|].
  cbn [flat_map]. rewrite flat_map_app, IH. reflexivity.
Qed.

Lemma ints_of_int_chars w : i32 w ->
  to_i32 (to_char (w mod 256) mod 256 + 256 * (to_char ((w / 256) mod 256) mod 256)
          + 65536 * (to_char ((w / 65536) mod 256) mod 256)
          + 16777216 * (to_char ((w / 16777216) mod 256) mod 256)) = w.
Proof.
  intros H. rewrite !to_char_mod by lia.
  rewrite byte0, byte1, byte2, byte3. rewrite word_sum by lia. apply (to_i32_to_u32 w H).
Qed.

Lemma ints_of_chars_enc h : Forall i32 h ->
  ints_of_chars (length h) (flat_map int_chars h) = h.
Proof.
  induction 1 as [|w h Hw _ IH]; [reflexivity|].
  cbn [length flat_map]. unfold int_chars at 1. cbn [app ints_of_chars].
  rewrite ints_of_int_chars by exact Hw. rewrite IH. reflexivity.
Qed.

Lemma fromHex_full h : length h = 8%nat ->
  fromHex (getFullString h) 32 = Some (flat_map int_chars h).
Proof.
  intros L. unfold fromHex. rewrite full_length, L.
  change (Z.to_nat (if Z.of_nat (8 * 8) >? 2 * 32 then 32 else Z.of_nat (8 * 8) / 2)) with 32%nat.
  rewrite full_as_chars.
  assert (L4 : length (flat_map int_chars h) = 32%nat) by (rewrite flat_int_chars_length, L; reflexivity).
  rewrite <- (app_nil_r (flat_map hex_pair (flat_map int_chars h))).
  rewrite <- L4 at 1. rewrite loop_enc by apply flat_int_chars_rng.
  rewrite L4. cbn [Z.to_nat Pos.to_nat Pos.iter_op Nat.add Nat.sub repeat]. rewrite app_nil_r. reflexivity.
Qed.

Lemma roundtrip_words h : length h = 8%nat -> Forall i32 h ->
  option_map h_h (fromString (getFullString h)) = Some h.
Proof.
  intros L H. unfold fromString. rewrite fromHex_full by exact L. cbn [option_map h_h].
  rewrite <- L. rewrite ints_of_chars_enc by exact H. reflexivity.
Qed.

(* ------------------------------------------------------------------------------------------- *)
(* parsing hexadecimal text                                                                     *)
Definition b256 (c : Z) : Z := c mod 256.

Lemma loop_hex : forall n s, Forall (fun c => is_hex c = true) s ->
  exists out, fromHex_loop n s = Some out /\ map b256 out = firstn n (hex_bytes s).
Proof.
  induction n as [|n IH]; intros s H.
  - exists []. split; [destruct s; reflexivity | reflexivity].
  - destruct s as [|a [|b s]].
    + exists []. split; reflexivity.
    + exists []. split; reflexivity.
    + inversion H as [|? ? Ha H1]; subst. inversion H1 as [|? ? Hb H2]; subst.
      destruct (IH s H2) as [out [E M]]. destruct (par_hex a b Ha Hb) as [P1 P2].
      exists (to_char (Z.lor (fromHexChar a * 16) (fromHexChar b)) :: out). split.
      * rewrite fromHex_loop_S, P1, E. reflexivity.
      * cbn [map hex_bytes firstn]. unfold b256 at 1. rewrite P2, M. reflexivity.
Qed.

Lemma hex_bytes_length : forall n s, (length s <= n)%nat -> length (hex_bytes s) = Nat.div2 (length s).
Proof.
  induction n as [|n IH]; intros s H.
  - destruct s; [reflexivity | cbn in H; lia].
  - destruct s as [|a [|b s]]; try reflexivity.
    cbn [hex_bytes length Nat.div2]. f_equal. apply IH. cbn in H. lia.
Qed.

Lemma firstn_repeat_le : forall (k m : nat), (k <= m)%nat -> firstn k (repeat 0 m) = repeat 0 k.
Proof.
  induction k as [|k IH]; intros m H; [reflexivity|].
  destruct m as [|m]; [lia|]. cbn [repeat firstn]. f_equal. apply IH. lia.
Qed.

Lemma firstn_app_repeat : forall (hb : list Z) (k m : nat), (k <= m)%nat ->
  firstn k (hb ++ repeat 0 m) = firstn k (hb ++ repeat 0 k).
Proof.
  induction hb as [|y hb IH]; intros k m H.
  - cbn [app]. rewrite !firstn_repeat_le by lia. reflexivity.
  - destruct k as [|k]; [reflexivity|]. cbn [app firstn]. f_equal.
    rewrite (IH k m) by lia. rewrite (IH k (S k)) by lia. reflexivity.
Qed.

Lemma pad_firstn : forall (hb : list Z) (k : nat),
  firstn (Nat.min k (length hb)) hb ++ repeat 0 (k - Nat.min k (length hb)) = firstn k (hb ++ repeat 0 k).
Proof.
  induction hb as [|x hb IH]; intros k.
  - cbn [length]. rewrite Nat.min_0_r, Nat.sub_0_r. cbn [firstn app].
    rewrite firstn_repeat_le by lia. reflexivity.
  - destruct k as [|k]; [reflexivity|].
    cbn [length Nat.min firstn app Nat.sub]. f_equal.
    rewrite IH. symmetry. apply firstn_app_repeat. lia.
Qed.

Lemma map_b256_repeat k : map b256 (repeat 0 k) = repeat 0 k.
Proof. induction k as [|k IH]; [reflexivity|]. cbn [repeat map]. rewrite IH. reflexivity. Qed.

Lemma div2_of_nat n : Z.of_nat (Nat.div2 n) = Z.of_nat n / 2.
Proof. rewrite Nat.div2_div, Nat2Z.inj_div. reflexivity. Qed.

Lemma fromHex_hex s : Forall (fun c => is_hex c = true) s ->
  exists out, fromHex s 32 = Some out /\
              map b256 out = firstn 32 (hex_bytes s ++ repeat 0 32).
Proof.
  intros H. unfold fromHex.
  set (n := Z.to_nat (if Z.of_nat (length s) >? 2 * 32 then 32 else Z.of_nat (length s) / 2)).
  destruct (loop_hex n s H) as [out [E M]]. rewrite E.
  exists (out ++ repeat 0 (Z.to_nat 32 - length out)). split; [reflexivity|].
  assert (Lhb : length (hex_bytes s) = Nat.div2 (length s)) by (apply (hex_bytes_length (length s)); lia).
  assert (Hn : n = Nat.min 32 (length (hex_bytes s))).
  { unfold n. rewrite Lhb.
    destruct (Z.of_nat (length s) >? 2 * 32) eqn:G.
    - apply Z.gtb_lt in G. pose proof (div2_of_nat (length s)). lia.
    - assert (G' : Z.of_nat (length s) <= 64) by (rewrite Z.gtb_ltb in G; apply Z.ltb_ge in G; lia).
      pose proof (div2_of_nat (length s)). lia. }
  assert (Lout : length out = n).
  { rewrite <- (map_length b256 out), M, firstn_length, Hn. lia. }
  rewrite map_app, M, map_b256_repeat, Lout.
  change (Z.to_nat 32) with 32%nat. rewrite Hn. apply pad_firstn.
Qed.

Lemma ints_of_chars_words : forall n cs,
  map to_u32 (ints_of_chars n cs) = bytes_words n (map b256 cs).
Proof.
  induction n as [|n IH]; intros cs; [reflexivity|].
  destruct cs as [|a [|b [|c [|d r]]]]; try reflexivity.
  cbn [ints_of_chars bytes_words map]. rewrite IH. f_equal.
  unfold b256. apply to_u32_to_i32. lia.
Qed.

Lemma ints_of_chars_i32 : forall n cs, Forall i32 (ints_of_chars n cs).
Proof.
  induction n as [|n IH]; intros cs; [constructor|].
  destruct cs as [|a [|b [|c [|d r]]]]; try constructor. apply to_i32_i32. apply IH.
Qed.

Lemma ints_of_chars_length : forall n cs, (4 * n <= length cs)%nat -> length (ints_of_chars n cs) = n.
Proof.
  induction n as [|n IH]; intros cs H; [reflexivity|].
  destruct cs as [|a [|b [|c [|d r]]]]; cbn [length] in H; try lia.
  cbn [ints_of_chars length]. f_equal. apply IH. lia.
Qed.

Lemma pad_len (o : list Z) (k : nat) : (k <= length (o ++ repeat 0%Z (k - length o)))%nat.
Proof. rewrite app_length, repeat_length. lia. Qed.

Lemma fromHex_length s out : fromHex s 32 = Some out -> (32 <= length out)%nat.
Proof.
  unfold fromHex. destruct (fromHex_loop _ s) as [o|]; [|discriminate].
  intros E. assert (E' : out = o ++ repeat 0 (Z.to_nat 32 - length o)) by congruence.
  rewrite E'. apply (pad_len o 32).
Qed.

Lemma fromString_words s x : fromString s = Some x ->
  length (h_h x) = 8%nat /\ Forall i32 (h_h x) /\ h_sh x = zeros8 /\ h_str x = [].
Proof.
  unfold fromString. destruct (fromHex s 32) as [out|] eqn:E; [|discriminate].
  intros X.
  assert (Ex : x = {| h_init := true; h_h := ints_of_chars 8 out; h_sh := zeros8; h_str := [] |}) by congruence.
  rewrite Ex. cbn [h_h h_sh h_str]. repeat split.
  - apply ints_of_chars_length. apply fromHex_length in E. lia.
  - apply ints_of_chars_i32.
Qed.

Lemma fromString_hex s : Forall (fun c => is_hex c = true) s ->
  exists x, fromString s = Some x /\ map to_u32 (h_h x) = s_parse s.
Proof.
  intros H. destruct (fromHex_hex s H) as [out [E M]]. unfold fromString. rewrite E.
  eexists. split; [reflexivity|]. cbn [h_h]. rewrite ints_of_chars_words, M. reflexivity.
Qed.

(* fromString is free of undefined behaviour on every string without characters >= 0x80 *)
Lemma fromHexChar_nonneg c : 0 <= c -> 0 <= fromHexChar c.
Proof.
  intros H. unfold fromHexChar.
  destruct ((48 <=? c) && (c <=? 57)) eqn:E1.
  - apply andb_true_iff in E1. destruct E1 as [A B]. apply Z.leb_le in A. apply Z.leb_le in B. unfold to_char. lia.
  - destruct ((97 <=? c) && (c <=? 122)) eqn:E2.
    + apply andb_true_iff in E2. destruct E2 as [A B]. apply Z.leb_le in A. apply Z.leb_le in B. unfold to_char. lia.
    + destruct ((65 <=? c) && (c <=? 90)) eqn:E3; [|exact H].
      apply andb_true_iff in E3. destruct E3 as [A B]. apply Z.leb_le in A. apply Z.leb_le in B. unfold to_char. lia.
Qed.

Lemma loop_ascii : forall n s, Forall (fun c => 0 <= c) s -> exists out, fromHex_loop n s = Some out.
Proof.
  induction n as [|n IH]; intros s H.
  - exists []. destruct s; reflexivity.
  - destruct s as [|a [|b s]]; try (exists []; reflexivity).
    inversion H as [|? ? Ha H1]; subst. inversion H1 as [|? ? Hb H2]; subst.
    destruct (IH s H2) as [out E]. rewrite fromHex_loop_S, E.
    pose proof (fromHexChar_nonneg a Ha) as P. apply Z.ltb_ge in P. rewrite P. eexists. reflexivity.
Qed.

Lemma fromString_ascii s : Forall (fun c => 0 <= c) s -> exists x, fromString s = Some x.
Proof.
  intros H. unfold fromString, fromHex.
  destruct (loop_ascii (Z.to_nat (if Z.of_nat (length s) >? 2 * 32 then 32 else Z.of_nat (length s) / 2)) s H) as [out E].
  rewrite E. eexists. reflexivity.
Qed.

(* ------------------------------------------------------------------------------------------- *)
(* exclusive or                                                                                 *)
Lemma lxor_u32 a b : 0 <= a < 4294967296 -> 0 <= b < 4294967296 -> 0 <= Z.lxor a b < 4294967296.
Proof.
  intros Ha Hb. assert (N : 0 <= Z.lxor a b) by (apply Z.lxor_nonneg; lia).
  split; [exact N|].
  destruct (Z.eq_dec (Z.lxor a b) 0) as [E|E]; [lia|].
  change 4294967296 with (2 ^ 32). apply Z.log2_lt_pow2; [lia|].
  pose proof (Z.log2_lxor a b ltac:(lia) ltac:(lia)) as L.
  assert (La : Z.log2 a < 32).
  { destruct (Z.eq_dec a 0) as [->|]; [cbn; lia|]. apply Z.log2_lt_pow2; [lia|]. change (2 ^ 32) with 4294967296. lia. }
  assert (Lb : Z.log2 b < 32).
  { destruct (Z.eq_dec b 0) as [->|]; [cbn; lia|]. apply Z.log2_lt_pow2; [lia|]. change (2 ^ 32) with 4294967296. lia. }
  lia.
Qed.

Lemma to_u32_xor_int a b : to_u32 (xor_int a b) = Z.lxor (to_u32 a) (to_u32 b).
Proof. unfold xor_int. apply to_u32_to_i32. apply lxor_u32; apply to_u32_rng. Qed.

Lemma xor_words_spec : forall a b, map to_u32 (xor_words a b) = s_xor (map to_u32 a) (map to_u32 b).
Proof.
  induction a as [|x a IH]; intros [|y b]; try reflexivity.
  cbn [xor_words map s_xor]. rewrite to_u32_xor_int, IH. reflexivity.
Qed.

Lemma xor_words_i32 : forall a b, Forall i32 (xor_words a b).
Proof.
  induction a as [|x a IH]; intros [|y b]; try constructor. apply to_i32_i32. apply IH.
Qed.

Lemma xor_words_length : forall a b, length a = length b -> length (xor_words a b) = length a.
Proof.
  induction a as [|x a IH]; intros [|y b] H; try reflexivity; try discriminate.
  cbn [xor_words length]. f_equal. apply IH. cbn in H. lia.
Qed.

(* ------------------------------------------------------------------------------------------- *)
(* comparisons                                                                                  *)
Lemma to_u32_inj a b : i32 a -> i32 b -> to_u32 a = to_u32 b -> a = b.
Proof. rewrite !i32_bounds. unfold to_u32. lia. Qed.

Lemma words_neq_negb : forall a b, words_neq a b = negb (words_eq a b).
Proof.
  induction a as [|x a IH]; intros [|y b]; try reflexivity.
  cbn [words_neq words_eq]. destruct (x =? y); cbn [negb]; [apply IH | reflexivity].
Qed.

Lemma words_eq_spec : forall a b, length a = length b -> Forall i32 a -> Forall i32 b ->
  words_eq a b = s_eq (map to_u32 a) (map to_u32 b).
Proof.
  induction a as [|x a IH]; intros [|y b] L Ha Hb; try reflexivity; try discriminate.
  inversion Ha as [|? ? Hx Ha']; inversion Hb as [|? ? Hy Hb']; subst. cbn [words_eq map s_eq].
  destruct (x =? y) eqn:E.
  - apply Z.eqb_eq in E. subst. rewrite Z.eqb_refl. cbn [negb andb]. apply IH; auto.
  - cbn [negb]. destruct (to_u32 x =? to_u32 y) eqn:E2; [|reflexivity].
    apply Z.eqb_eq in E2. apply to_u32_inj in E2; auto. apply Z.eqb_neq in E. contradiction.
Qed.

Lemma words_eq_true : forall a b, length a = length b -> words_eq a b = true -> a = b.
Proof.
  induction a as [|x a IH]; intros [|y b] L H; try reflexivity; try discriminate.
  cbn [words_eq] in H. destruct (x =? y) eqn:E; cbn [negb] in H; [|discriminate].
  apply Z.eqb_eq in E. subst. f_equal. apply IH; auto.
Qed.

Lemma words_eq_refl : forall a, words_eq a a = true.
Proof. induction a as [|x a IH]; [reflexivity|]. cbn [words_eq]. rewrite Z.eqb_refl. exact IH. Qed.

Lemma words_lt_spec : forall a b, Forall i32 a -> Forall i32 b ->
  words_lt a b = s_lt (map to_u32 a) (map to_u32 b).
Proof.
  induction a as [|x a IH]; intros [|y b] Ha Hb; try reflexivity.
  inversion Ha as [|? ? Hx Ha']; inversion Hb as [|? ? Hy Hb']; subst. cbn [words_lt map s_lt].
  rewrite !signed_to_u32 by assumption.
  destruct (x ?= y) eqn:C.
  - apply Z.compare_eq in C. subst. rewrite Z.ltb_irrefl, Z.gtb_ltb, Z.ltb_irrefl. apply IH; auto.
  - rewrite Z.compare_lt_iff in C. apply Z.ltb_lt in C. rewrite C. reflexivity.
  - rewrite Z.compare_gt_iff in C. assert (F1 : x <? y = false) by (apply Z.ltb_ge; lia).
    assert (F2 : x >? y = true) by (rewrite Z.gtb_ltb; apply Z.ltb_lt; lia). rewrite F1, F2. reflexivity.
Qed.

(* ------------------------------------------------------------------------------------------- *)
(* the short string cache                                                                       *)
Definition short_of (h : list Z) : list Z := firstn 16 (getFullString h).

Lemma substr16 (full : list Z) :
  (if Z.of_nat (length full) <? 16 then full else firstn 16 full) = firstn 16 full.
Proof.
  destruct (Z.of_nat (length full) <? 16) eqn:E; [|reflexivity].
  apply Z.ltb_lt in E. symmetry. apply firstn_all2. lia.
Qed.

Lemma short_nonempty h : length h = 8%nat -> short_of h <> [].
Proof.
  intros L E. assert (length (short_of h) = 16%nat).
  { unfold short_of. rewrite firstn_length, full_length, L. reflexivity. }
  rewrite E in H. discriminate.
Qed.

(* object invariant: 8 ints each, and a non-empty cached string is the short string of sh *)
Definition wf_obj (o : hobj) : Prop :=
  length (h_h o) = 8%nat /\ Forall i32 (h_h o) /\ length (h_sh o) = 8%nat /\
  (h_str o = [] \/ h_str o = short_of (h_sh o)).

Lemma getString_fixed o : wf_obj o ->
  fst (getString fixed o) = short_of (h_h o) /\ wf_obj (snd (getString fixed o)) /\
  h_h (snd (getString fixed o)) = h_h o.
Proof.
  intros (L & R & Ls & C). unfold getString. cbn [cache_by_string fixed].
  destruct (is_nil (h_str o) || words_neq (h_h o) (h_sh o)) eqn:E.
  - rewrite substr16. cbn [fst snd h_h]. split; [reflexivity|]. split; [|reflexivity].
    unfold wf_obj. cbn [h_h h_sh h_str]. repeat split; auto.
  - apply orb_false_iff in E. destruct E as [E1 E2]. cbn [fst snd]. split; [|split; [unfold wf_obj; auto | reflexivity]].
    destruct C as [C|C]; [rewrite C in E1; discriminate|].
    rewrite words_neq_negb in E2. apply negb_false_iff in E2.
    apply words_eq_true in E2; [|lia]. rewrite C, E2. reflexivity.
Qed.

Lemma wf_default : wf_obj mk_default.
Proof.
  unfold wf_obj, mk_default. cbn [h_h h_sh h_str]. repeat split; auto.
  repeat constructor.
Qed.

Lemma wf_assign_fixed dst src : length (h_h src) = 8%nat -> Forall i32 (h_h src) -> wf_obj (assign fixed dst src).
Proof.
  intros L R. unfold wf_obj, assign. cbn [h_h h_sh h_str cache_by_string fixed]. repeat split; auto.
Qed.

(* ------------------------------------------------------------------------------------------- *)
(* hashing                                                                                      *)
Lemma mul_fixed a b : mul_int fixed a b = Some (to_i32 (a * b)).
Proof.
  unfold mul_int. cbn [unsigned_mul fixed]. f_equal. unfold to_u32, to_i32.
  rewrite <- Z.mul_mod by lia. rewrite Zplus_mod_idemp_l. reflexivity.
Qed.

Lemma mul_pinned_fixed a b m : mul_int pinned a b = Some m -> mul_int fixed a b = Some m.
Proof.
  unfold mul_int at 1. cbn [unsigned_mul pinned]. destruct (in_i32 (a * b)) eqn:E; [|discriminate].
  intros X. inversion X. subst. rewrite mul_fixed. f_equal.
  assert (I : i32 (a * b)) by exact E. apply i32_bounds in I. set (p := a * b) in *. unfold to_i32. lia.
Qed.

Lemma hash_step_fixed : forall hs ps c, exists r, hash_step fixed hs ps c = Some r /\
  Forall i32 r /\ length r = Nat.min (length hs) (length ps).
Proof.
  induction hs as [|h hs IH]; intros ps c.
  - exists []. repeat split. constructor.
  - destruct ps as [|p ps].
    + exists []. repeat split. constructor.
    + destruct (IH ps c) as [r [E [R L]]]. cbn [hash_step]. rewrite mul_fixed, E.
      eexists. split; [reflexivity|]. split.
      * constructor; [apply to_i32_i32 | exact R].
      * cbn [length Nat.min]. rewrite L. reflexivity.
Qed.

Lemma hash_loop_fixed : forall bs hs, length hs = 8%nat ->
  exists r, hash_loop fixed hs bs = Some r /\ length r = 8%nat /\ (Forall i32 hs -> Forall i32 r).
Proof.
  induction bs as [|c bs IH]; intros hs L.
  - exists hs. repeat split; auto.
  - destruct (hash_step_fixed hs primes c) as [r [E [R Lr]]]. cbn [hash_loop]. rewrite E.
    assert (L8 : length r = 8%nat) by (rewrite Lr, L; reflexivity).
    destruct (IH r L8) as [r' [E' [L' R']]]. exists r'. repeat split; auto.
Qed.

Lemma hash_step_pinned_fixed : forall hs ps c r,
  hash_step pinned hs ps c = Some r -> hash_step fixed hs ps c = Some r.
Proof.
  induction hs as [|h hs IH]; intros ps c r H; [exact H|].
  destruct ps as [|p ps]; [exact H|]. cbn [hash_step] in *.
  destruct (mul_int pinned h p) as [m|] eqn:M; [|discriminate].
  rewrite (mul_pinned_fixed _ _ _ M).
  destruct (hash_step pinned hs ps c) as [r'|] eqn:S; [|discriminate].
  rewrite (IH _ _ _ S). exact H.
Qed.

Lemma hash_loop_pinned_fixed : forall bs hs r,
  hash_loop pinned hs bs = Some r -> hash_loop fixed hs bs = Some r.
Proof.
  induction bs as [|c bs IH]; intros hs r H; [exact H|]. cbn [hash_loop] in *.
  destruct (hash_step pinned hs primes c) as [hs'|] eqn:S; [|discriminate].
  rewrite (hash_step_pinned_fixed _ _ _ _ S). apply IH. exact H.
Qed.

Lemma read_mem_ext mem1 p1 mem2 p2 n :
  (forall i, (i < n)%nat -> mem1 (p1 + Z.of_nat i) = mem2 (p2 + Z.of_nat i)) ->
  read_mem mem1 p1 n = read_mem mem2 p2 n.
Proof.
  intros H. unfold read_mem. apply map_ext_in. intros i Hi. apply in_seq in Hi. apply H. lia.
Qed.

(* ------------------------------------------------------------------------------------------- *)
(* histories: the model run is the specification run                                            *)
Definition robj (o : hobj) (x : sval) : Prop := wf_obj o /\ map to_u32 (h_h o) = x.

Lemma robj_default : robj mk_default s_default.
Proof. split; [apply wf_default | reflexivity]. Qed.

Lemma robj_get : forall rs ss i, Forall2 robj rs ss -> robj (getr rs i) (s_get ss i).
Proof.
  intros rs ss i H. revert i. induction H as [|o x rs ss Hox _ IH]; intros i.
  - destruct i; apply robj_default.
  - destruct i as [|i]; [exact Hox | apply IH].
Qed.

Lemma robj_set : forall rs ss i o x, Forall2 robj rs ss -> robj o x ->
  Forall2 robj (setr rs i o) (s_set ss i x).
Proof.
  intros rs ss i o x H Hox. revert i. induction H as [|o' x' rs ss Hox' Hr IH]; intros i.
  - destruct i; constructor.
  - destruct i as [|i]; cbn [setr s_set]; constructor; auto.
Qed.

Lemma robj_set_same : forall rs ss i o, Forall2 robj rs ss -> robj o (s_get ss i) ->
  Forall2 robj (setr rs i o) ss.
Proof.
  intros rs ss i o H. revert i. induction H as [|o' x' rs ss Hox' Hr IH]; intros i Hox.
  - destruct i; constructor.
  - destruct i as [|i]; cbn [setr]; constructor; auto.
Qed.

Lemma robj_assign dst src x : length (h_h src) = 8%nat -> Forall i32 (h_h src) ->
  map to_u32 (h_h src) = x -> robj (assign fixed dst src) x.
Proof. intros L R M. split; [apply wf_assign_fixed; auto | exact M]. Qed.

Lemma default_u32 : map to_u32 default_h = s_default.
Proof. reflexivity. Qed.

Lemma step_sim rs ss o : Forall2 robj rs ss -> wf_op o ->
  exists rs' out, m_step fixed rs o = Some (rs', out) /\
                  Forall2 robj rs' (fst (s_step ss o)) /\ map mask out = snd (s_step ss o).
Proof.
  intros R W. destruct o as [i ws|i s|i j|i j|i|i|i|i|i j|i|bs|s]; cbn [m_step s_step fst snd].
  - destruct W as [L I]. eexists _, _. split; [reflexivity|]. split; [|reflexivity].
    apply robj_set; auto. apply robj_assign; auto.
  - destruct (fromString_hex s W) as [x [E M]]. rewrite E.
    destruct (fromString_words s x E) as (L & I & _ & _).
    eexists _, _. split; [reflexivity|]. split; [|reflexivity].
    apply robj_set; auto. apply robj_assign; auto.
  - eexists _, _. split; [reflexivity|]. split; [|reflexivity].
    destruct (robj_get rs ss j R) as ((L & I & _) & M).
    apply robj_set; auto. apply robj_assign; auto.
  - eexists _, _. split; [reflexivity|]. split; [|reflexivity].
    destruct (robj_get rs ss i R) as ((Li & Ii & _) & Mi).
    destruct (robj_get rs ss j R) as ((Lj & Ij & _) & Mj).
    apply robj_set; auto. unfold hxor_assign. apply robj_assign.
    + cbn [hxor h_h copy assign]. rewrite xor_words_length; lia.
    + cbn [hxor h_h]. apply xor_words_i32.
    + cbn [hxor h_h copy assign]. rewrite xor_words_spec, Mi, Mj. reflexivity.
  - eexists _, _. split; [reflexivity|]. split; [|reflexivity].
    apply robj_set; auto. apply robj_assign; try reflexivity. apply wf_default.
  - destruct (robj_get rs ss i R) as (Wi & Mi).
    destruct (getString_fixed _ Wi) as (S1 & S2 & S3).
    destruct (getString fixed (getr rs i)) as [s x] eqn:G. cbn [fst snd] in *.
    eexists _, _. split; [reflexivity|]. split.
    + (* the specification keeps the value; the model only updated the cache *)
      apply robj_set_same; auto. split; [exact S2 | rewrite S3; exact Mi].
    + cbn [map mask]. rewrite S1. unfold short_of, s_short. rewrite full_spec, Mi. reflexivity.
  - destruct (robj_get rs ss i R) as (Wi & Mi).
    eexists _, _. split; [reflexivity|]. split; [exact R|].
    cbn [map mask]. rewrite full_spec, Mi. reflexivity.
  - destruct (robj_get rs ss i R) as ((Li & Ii & _) & Mi).
    pose proof (roundtrip_words _ Li Ii) as RT.
    destruct (fromString (getFullString (h_h (getr rs i)))) as [d|]; [|discriminate].
    cbn [option_map] in RT. inversion RT as [RT'].
    eexists _, _. split; [reflexivity|]. split; [exact R|].
    cbn [map mask]. rewrite RT', words_eq_refl. rewrite <- Mi, map_map.
    f_equal. f_equal. rewrite <- (map_id (h_h (getr rs i))) at 1. apply map_ext_in.
    intros w Hw. symmetry. apply signed_to_u32. rewrite Forall_forall in Ii. apply Ii, Hw.
  - destruct (robj_get rs ss i R) as ((Li & Ii & _) & Mi).
    destruct (robj_get rs ss j R) as ((Lj & Ij & _) & Mj).
    eexists _, _. split; [reflexivity|]. split; [exact R|].
    cbn [map mask]. rewrite words_neq_negb, <- Mi, <- Mj.
    rewrite <- words_eq_spec by (auto; lia). rewrite <- words_lt_spec by auto. reflexivity.
  - destruct (robj_get rs ss i R) as ((Li & Ii & _) & Mi).
    eexists _, _. split; [reflexivity|]. split; [exact R|].
    cbn [map mask]. rewrite <- Mi.
    destruct (h_h (getr rs i)) as [|w r]; [discriminate|]. cbn [map nth].
    inversion Ii; subst. rewrite signed_to_u32 by assumption. reflexivity.
  - unfold hash_bytes, hash_words. destruct (hash_loop_fixed bs default_h eq_refl) as [r [E _]]. rewrite E.
    eexists _, _. split; [reflexivity|]. split; [exact R | reflexivity].
  - destruct (fromString_ascii s W) as [x E]. rewrite E.
    eexists _, _. split; [reflexivity|]. split; [exact R | reflexivity].
Qed.

Lemma run_sim : forall ops rs ss, Forall2 robj rs ss -> Forall wf_op ops ->
  exists rs' out, m_run_from fixed rs ops = Some (rs', out) /\
                  Forall (fun o => wf_obj o) rs' /\ map mask out = s_run_from ss ops.
Proof.
  induction ops as [|o ops IH]; intros rs ss R W.
  - exists rs, []. split; [reflexivity|]. split; [|reflexivity].
    clear W. induction R as [|a b rs ss [Hab _] _ IHR]; constructor; auto.
  - inversion W as [|? ? Wo Wops]; subst.
    destruct (step_sim rs ss o R Wo) as (rs1 & out1 & E1 & R1 & M1).
    cbn [m_run_from s_run_from]. rewrite E1.
    destruct (s_step ss o) as [ss1 sout1] eqn:Es. cbn [fst snd] in *.
    destruct (IH rs1 ss1 R1 Wops) as (rs2 & out2 & E2 & W2 & M2). rewrite E2.
    eexists _, _. split; [reflexivity|]. split; [exact W2|].
    rewrite map_app, M1, M2. reflexivity.
Qed.

Lemma init_rel : Forall2 robj init_regs s_init.
Proof. unfold init_regs, s_init, NREG. repeat constructor; apply robj_default. Qed.

Lemma forall_nth_wf rs i : Forall (fun o => wf_obj o) rs -> wf_obj (getr rs i).
Proof.
  intros H. revert i. induction H as [|o rs Ho _ IH]; intros i.
  - destruct i; apply wf_default.
  - destruct i as [|i]; [exact Ho | apply IH].
Qed.

(* ------------------------------------------------------------------------------------------- *)
(* the statements of Properties_C27.v                                                           *)
Lemma history_refines_spec_l : forall ops, Forall wf_op ops ->
  exists out, run_now ops = Some out /\ map mask out = s_run ops.
Proof.
  intros ops W. destruct (run_sim ops init_regs s_init init_rel W) as (rs & out & E & _ & M).
  exists out. unfold run_now, m_run. rewrite E. split; [reflexivity | exact M].
Qed.

Lemma short_is_prefix16_l : forall ops rs out i, Forall wf_op ops -> m_run fixed ops = Some (rs, out) ->
  fst (getString fixed (getr rs i)) = firstn 16 (getFullString (h_h (getr rs i))).
Proof.
  intros ops rs out i W E. destruct (run_sim ops init_regs s_init init_rel W) as (rs' & out' & E' & Wf & _).
  unfold m_run in E. rewrite E' in E. assert (rs' = rs) by congruence. subst rs'.
  apply (getString_fixed _ (forall_nth_wf rs i Wf)).
Qed.

(* the same for the object returned by hash() *)
Lemma short_of_hash_l : forall bs x, hash_bytes fixed bs = Some x ->
  fst (getString fixed x) = firstn 16 (getFullString (h_h x)).
Proof.
  intros bs x E. unfold hash_bytes, hash_words in E.
  destruct (hash_loop_fixed bs default_h eq_refl) as [r [Er [L I]]]. rewrite Er in E.
  assert (Ex : x = {| h_init := true; h_h := r; h_sh := zeros8; h_str := [] |}) by congruence.
  apply getString_fixed. rewrite Ex. unfold wf_obj. cbn [h_h h_sh h_str]. repeat split; auto.
  apply I. repeat constructor.
Qed.

Lemma hash_no_ub_l : forall bs, exists h, hash_words fixed bs = Some h /\ length h = 8%nat /\ Forall i32 h.
Proof.
  intros bs. destruct (hash_loop_fixed bs default_h eq_refl) as [r [E [L I]]].
  exists r. repeat split; auto. apply I. repeat constructor.
Qed.

Lemma hash_pinned_fixed_l : forall bs h, hash_words pinned bs = Some h -> hash_words fixed bs = Some h.
Proof. intros bs h. apply hash_loop_pinned_fixed. Qed.

Lemma hash_deterministic_l : forall v mem1 p1 mem2 p2 n,
  (forall i, (i < n)%nat -> mem1 (p1 + Z.of_nat i) = mem2 (p2 + Z.of_nat i)) ->
  hash_ptr v mem1 p1 n = hash_ptr v mem2 p2 n.
Proof. intros v mem1 p1 mem2 p2 n H. unfold hash_ptr. rewrite (read_mem_ext _ _ _ _ _ H). reflexivity. Qed.

Lemma signed_overflow_l : forall c bs, hash_words pinned (c :: bs) = None.
Proof. intros c bs. reflexivity. Qed.

Lemma combine_in_range_l : forall a b, length a = 8%nat -> length b = 8%nat ->
  length (xor_words a b) = 8%nat /\ Forall i32 (xor_words a b) /\
  map to_u32 (xor_words a b) = s_xor (map to_u32 a) (map to_u32 b).
Proof.
  intros a b La Lb. split; [rewrite xor_words_length; lia|]. split; [apply xor_words_i32 | apply xor_words_spec].
Qed.

Lemma eq_iff_l : forall a b, length a = length b -> (words_eq a b = true <-> a = b).
Proof.
  intros a b L. split; [apply words_eq_true; exact L | intros ->; apply words_eq_refl].
Qed.
