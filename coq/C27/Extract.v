(* Extraction of the executable model and specification (ExtrOcamlBasic only; Z stays the
   extracted inductive).  coqc is run from /verif/coq by the Makefile. *)
From Coq Require Import Extraction ExtrOcamlBasic.
From OV.C27 Require Import Syntax Model Spec.
Extraction Language OCaml.
Extraction "../_work/extract/C27/model.ml" run_now run_pinned s_run mask.
