(* C27 — the specification, written without reference to Model.v.
   A hash value is eight unsigned 32-bit words.  Its full string is the lower-case hexadecimal
   text of its 32 bytes (each word least significant byte first, each byte high digit first); its
   short string is the first 16 characters of the full string; reading a hexadecimal text back
   gives the bytes it denotes (missing bytes are zero, bytes beyond 32 are ignored).  Combining is
   word-wise exclusive or.  Every variable of a case simply holds a value: there is no cache. *)
From Coq Require Import List ZArith Bool.
From OV.C27 Require Import Syntax.
Import ListNotations.
Local Open Scope Z_scope.

Definition sval := list Z.     (* 8 words, each in [0, 2^32) *)

Definition hexdigits : list Z := [48;49;50;51;52;53;54;55;56;57;97;98;99;100;101;102].  (* 0-9a-f *)
Definition digit (n : Z) : Z := nth (Z.to_nat n) hexdigits 0.
Definition byte_hex (b : Z) : list Z := [digit (b / 16); digit (b mod 16)].
Definition word_bytes (u : Z) : list Z :=
  [u mod 256; (u / 256) mod 256; (u / 65536) mod 256; (u / 16777216) mod 256].

Definition s_full (v : sval) : list Z := flat_map (fun u => flat_map byte_hex (word_bytes u)) v.
Definition s_short (v : sval) : list Z := firstn 16 (s_full v).

Definition s_signed (u : Z) : Z := if u <? 2147483648 then u else u - 4294967296.
Definition s_unsigned (w : Z) : Z := w mod 4294967296.

(* value of a hexadecimal digit character, either case *)
Definition digit_val (c : Z) : Z :=
  if (48 <=? c) && (c <=? 57) then c - 48
  else if (97 <=? c) && (c <=? 102) then c - 87
  else if (65 <=? c) && (c <=? 70) then c - 55
  else 0.
Definition is_hex (c : Z) : bool :=
  ((48 <=? c) && (c <=? 57)) || ((97 <=? c) && (c <=? 102)) || ((65 <=? c) && (c <=? 70)).

Fixpoint hex_bytes (s : list Z) : list Z :=
  match s with
  | a :: b :: r => (16 * digit_val a + digit_val b) :: hex_bytes r
  | _ => []
  end.

Fixpoint bytes_words (n : nat) (bs : list Z) : list Z :=
  match n with
  | O => []
  | S n' =>
      match bs with
      | a :: b :: c :: d :: r => (a + 256 * b + 65536 * c + 16777216 * d) :: bytes_words n' r
      | _ => []
      end
  end.

Definition s_parse (s : list Z) : sval :=
  bytes_words 8 (firstn 32 (hex_bytes s ++ repeat 0 32)).

Definition s_default : sval := [101527;101531;101533;101537;101561;101573;101581;101599].

Fixpoint s_xor (a b : sval) : sval :=
  match a, b with
  | x :: a', y :: b' => Z.lxor x y :: s_xor a' b'
  | _, _ => []
  end.

Fixpoint s_eq (a b : sval) : bool :=
  match a, b with
  | [], [] => true
  | x :: a', y :: b' => (x =? y) && s_eq a' b'
  | _, _ => false
  end.

(* operator< orders hashes lexicographically by their words read as signed ints *)
Fixpoint s_lt (a b : sval) : bool :=
  match a, b with
  | x :: a', y :: b' =>
      match s_signed x ?= s_signed y with
      | Lt => true
      | Gt => false
      | Eq => s_lt a' b'
      end
  | _, _ => false
  end.

Definition sregs := list sval.
Definition s_init : sregs := repeat s_default NREG.
Definition s_get (rs : sregs) (i : nat) : sval := nth i rs s_default.
Fixpoint s_set (rs : sregs) (i : nat) (x : sval) : sregs :=
  match rs, i with
  | [], _ => []
  | _ :: r, O => x :: r
  | y :: r, S i' => y :: s_set r i' x
  end.

Definition s_step (rs : sregs) (o : op) : sregs * list obs :=
  match o with
  | OInts i ws => (s_set rs i (map s_unsigned ws), [])
  | OFrom i s => (s_set rs i (s_parse s), [])
  | OAssign i j => (s_set rs i (s_get rs j), [])
  | OXor i j => (s_set rs i (s_xor (s_get rs i) (s_get rs j)), [])
  | OClear i => (s_set rs i s_default, [])
  | OShort i => (rs, [VShort (s_short (s_get rs i))])
  | OFull i => (rs, [VFull (s_full (s_get rs i))])
  | ORound i => (rs, [VRound (map s_signed (s_get rs i)) true])     (* reading back gives the same hash *)
  | OCmp i j =>
      let e := s_eq (s_get rs i) (s_get rs j) in
      (rs, [VCmp e (negb e) (s_lt (s_get rs i) (s_get rs j))])
  | OInt i => (rs, [VInt (s_signed (nth 0 (s_get rs i) 0))])
  | OHash _ => (rs, [VHashM])        (* defined for every byte string *)
  | OParse _ => (rs, [VParseM])
  end.

Fixpoint s_run_from (rs : sregs) (ops : list op) : list obs :=
  match ops with
  | [] => []
  | o :: ops' => let (rs', out) := s_step rs o in out ++ s_run_from rs' ops'
  end.

Definition s_run (ops : list op) : list obs := s_run_from s_init ops.
