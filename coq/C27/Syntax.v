(* C27 — vocabulary shared by Model.v and Spec.v: the operations of a case (a history over a
   small file of hash_t variables) and what is observed.  No semantics here.
   Characters are C++ `char` on x86-64 (signed): Z in [-128,127]; strings are lists of them;
   an `int` is a Z in [-2^31, 2^31). *)
From Coq Require Import List ZArith.
Import ListNotations.
Local Open Scope Z_scope.

Definition NREG : nat := 4.

Inductive op : Type :=
| OInts   (i : nat) (ws : list Z)   (* r[i] = hash_t(ws)                       *)
| OFrom   (i : nat) (s : list Z)    (* r[i] = hash_t::fromString(s)            *)
| OAssign (i j : nat)               (* r[i] = r[j]                             *)
| OXor    (i j : nat)               (* r[i] ^= r[j]                            *)
| OClear  (i : nat)                 (* r[i].clear()                            *)
| OShort  (i : nat)                 (* observe r[i].getString()                *)
| OFull   (i : nat)                 (* observe r[i].getFullString()            *)
| ORound  (i : nat)                 (* observe fromString(r[i].getFullString()) and == r[i] *)
| OCmp    (i j : nat)               (* observe r[i]==r[j], r[i]!=r[j], r[i]<r[j] *)
| OInt    (i : nat)                 (* observe r[i].getInt()                   *)
| OHash   (bs : list Z)             (* observe hash(bs.data(), bs.size())      *)
| OParse  (s : list Z).             (* observe fromString(s) for an arbitrary string *)

Inductive obs : Type :=
| VShort (s : list Z)
| VFull  (s : list Z)
| VRound (ws : list Z) (same : bool)
| VCmp   (e n l : bool)
| VInt   (z : Z)
| VHash  (full short : list Z) (ws : list Z)
| VParse (ws : list Z)
| VHashM                            (* a hash was computed (its value is not part of the property) *)
| VParseM.

(* what of an observation the property speaks about: the value of hash(bytes) and the result of
   parsing a string that is not a full string are not fixed by the property, only that they exist *)
Definition mask (o : obs) : obs :=
  match o with
  | VHash _ _ _ => VHashM
  | VParse _ => VParseM
  | _ => o
  end.
