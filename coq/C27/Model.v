(* C27 — executable model of occa::hash_t and occa::hash(const void *, udim_t):
     src/utils/hash.cpp            (constructors, operator=, ==, !=, <, ^, ^=, getInt,
                                    getFullString, getString with its sh/h_string cache,
                                    fromString, hash(ptr, bytes))
     include/occa/utils/hash.hpp   (class layout: initialized, h[8], mutable h_string, mutable sh[8])
     src/occa/internal/utils/string.hpp  (toHexChar, fromHexChar, toHex<int>, fromHex<int>)
   transcribed branch for branch, with the C++ conversions written out:
     int   = Z in [-2^31,2^31)   (to_i32 is the conversion to int, to_u32 the one to unsigned)
     char  = Z in [-128,127]     (x86-64: plain char is signed; to_char is the conversion to char)
   A computation that is undefined behaviour in C++17 returns None (signed overflow of `*`,
   left shift of a negative value); UBSan in the asan flavour stops on the same events.

   The code is modelled as it is AFTER fixes/C27-1.patch and fixes/C27-2.patch; the two changed
   places are parameters (`variant`), so that the pinned code stays expressible (`pinned`).
   No proofs in this file. *)
From Coq Require Import List ZArith Bool.
From OV.C27 Require Import Syntax.
Import ListNotations.
Local Open Scope Z_scope.

(* ---- integer conversions ------------------------------------------------------------------ *)
Definition to_u32 (z : Z) : Z := z mod 4294967296.
Definition to_i32 (z : Z) : Z := (z + 2147483648) mod 4294967296 - 2147483648.   (* wrap32 *)
Definition to_char (z : Z) : Z := (z + 128) mod 256 - 128.
Definition in_i32 (z : Z) : bool := (-2147483648 <=? z) && (z <=? 2147483647).

(* ---- the two places changed by the fixes -------------------------------------------------- *)
Record variant : Type := {
  unsigned_mul : bool;      (* hash(): h[j]*p[j] done in unsigned int (fix 2) / in int (pinned)       *)
  cache_by_string : bool    (* getString(): cache valid iff h_string non-empty and sh == h, and
                               operator= clears h_string (fix 1) / valid iff sh == h (pinned)        *)
}.
Definition pinned : variant := {| unsigned_mul := false; cache_by_string := false |}.
Definition fixed  : variant := {| unsigned_mul := true;  cache_by_string := true  |}.

(* ---- string.hpp:179-198 ------------------------------------------------------------------- *)
(* inline char toHexChar(const char c) { if (c < 16) return c + ((c < 10) ? '0' : 'W'); return c; } *)
Definition toHexChar (c : Z) : Z :=
  if c <? 16 then to_char (c + (if c <? 10 then 48 else 87)) else c.

Definition fromHexChar (c : Z) : Z :=
  if (48 <=? c) && (c <=? 57) then to_char (c - 48)
  else if (97 <=? c) && (c <=? 122) then to_char (10 + (c - 97))
  else if (65 <=? c) && (c <=? 90) then to_char (10 + (c - 65))
  else c.

(* the object representation of an int, little endian, read through a const char pointer *)
Definition int_chars (w : Z) : list Z :=
  [to_char (w mod 256); to_char ((w / 256) mod 256);
   to_char ((w / 65536) mod 256); to_char ((w / 16777216) mod 256)].

(* string.hpp:206-210:  str += toHexChar((ci >> 4) & 0xF); str += toHexChar(ci & 0xF); *)
Definition hex_pair (ci : Z) : list Z :=
  [toHexChar (to_char (Z.land (Z.shiftr ci 4) 15)); toHexChar (to_char (Z.land ci 15))].

Definition toHex_int (w : Z) : list Z := flat_map hex_pair (int_chars w).

(* string.hpp:216-234, fromHex(str, out, bytes): the loop body; None = `c1 << 4` with c1 < 0 *)
Fixpoint fromHex_loop (n : nat) (s : list Z) : option (list Z) :=
  match n, s with
  | S n', a :: b :: s' =>
      let c1 := fromHexChar a in
      let c2 := fromHexChar b in
      if c1 <? 0 then None
      else match fromHex_loop n' s' with
           | Some r => Some (to_char (Z.lor (c1 * 16) c2) :: r)
           | None => None
           end
  | _, _ => Some []
  end.

(* returns the `bytes` chars of the out buffer (memset 0 first) *)
Definition fromHex (s : list Z) (bytes : Z) : option (list Z) :=
  let chars := Z.of_nat (length s) in
  let hexChars := if chars >? 2 * bytes then bytes else chars / 2 in
  match fromHex_loop (Z.to_nat hexChars) s with
  | None => None
  | Some out => Some (out ++ repeat 0 (Z.to_nat bytes - length out))
  end.

(* reading n ints back out of the chars written through the char pointer `out` *)
Fixpoint ints_of_chars (n : nat) (cs : list Z) : list Z :=
  match n with
  | O => []
  | S n' =>
      match cs with
      | a :: b :: c :: d :: r =>
          to_i32 (a mod 256 + 256 * (b mod 256) + 65536 * (c mod 256) + 16777216 * (d mod 256))
          :: ints_of_chars n' r
      | _ => []
      end
  end.

(* ---- hash_t (hash.hpp:25-31) --------------------------------------------------------------- *)
Record hobj : Type := {
  h_init : bool;
  h_h : list Z;       (* int h[8] *)
  h_sh : list Z;      (* mutable int sh[8] *)
  h_str : list Z      (* mutable std::string h_string *)
}.

Definition zeros8 : list Z := [0;0;0;0;0;0;0;0].
Definition default_h : list Z := [101527;101531;101533;101537;101561;101573;101581;101599].

(* hash.cpp:11-20 *)
Definition mk_default : hobj :=
  {| h_init := false; h_h := default_h; h_sh := zeros8; h_str := [] |}.
(* hash.cpp:22-30 *)
Definition mk_ints (ws : list Z) : hobj :=
  {| h_init := true; h_h := ws; h_sh := zeros8; h_str := [] |}.
(* hash.cpp:36-45, operator=: h_string of the destination is kept by the pinned code *)
Definition assign (v : variant) (dst src : hobj) : hobj :=
  {| h_init := h_init src; h_h := h_h src; h_sh := zeros8;
     h_str := if cache_by_string v then [] else h_str dst |}.
(* hash.cpp:32-34, copy constructor: a fresh object, then operator= *)
Definition copy (v : variant) (src : hobj) : hobj :=
  assign v {| h_init := false; h_h := []; h_sh := []; h_str := [] |} src.

(* hash.cpp:51-60 *)
Fixpoint words_lt (a b : list Z) : bool :=
  match a, b with
  | x :: a', y :: b' => if x <? y then true else if x >? y then false else words_lt a' b'
  | _, _ => false
  end.
(* hash.cpp:62-69 *)
Fixpoint words_eq (a b : list Z) : bool :=
  match a, b with
  | x :: a', y :: b' => if negb (x =? y) then false else words_eq a' b'
  | _, _ => true
  end.
(* hash.cpp:71-78 *)
Fixpoint words_neq (a b : list Z) : bool :=
  match a, b with
  | x :: a', y :: b' => if negb (x =? y) then true else words_neq a' b'
  | _, _ => false
  end.

(* `a ^ b` on ints: bitwise on the two's complement representations *)
Definition xor_int (a b : Z) : Z := to_i32 (Z.lxor (to_u32 a) (to_u32 b)).

Fixpoint xor_words (a b : list Z) : list Z :=
  match a, b with
  | x :: a', y :: b' => xor_int x y :: xor_words a' b'
  | _, _ => []
  end.

(* hash.cpp:80-88, operator^ (const hash_t&) *)
Definition hxor (a b : hobj) : hobj :=
  {| h_init := true; h_h := xor_words (h_h a) (h_h b); h_sh := zeros8; h_str := [] |}.
(* hash.cpp:90-93, operator^= (const hash_t hash): argument by value *)
Definition hxor_assign (v : variant) (a b : hobj) : hobj :=
  assign v a (hxor a (copy v b)).

(* hash.cpp:99-105 *)
Definition getFullString (h : list Z) : list Z := flat_map toHex_int h.

Definition is_nil (l : list Z) : bool := match l with [] => true | _ => false end.

(* hash.cpp:107-116: returns the string and the object with its mutable members updated *)
Definition getString (v : variant) (o : hobj) : list Z * hobj :=
  let stale := if cache_by_string v
               then is_nil (h_str o) || words_neq (h_h o) (h_sh o)
               else words_neq (h_h o) (h_sh o) in
  if stale then
    let full := getFullString (h_h o) in
    let s := if Z.of_nat (length full) <? 16 then full else firstn 16 full in
    (s, {| h_init := h_init o; h_h := h_h o; h_sh := h_h o; h_str := s |})
  else (h_str o, o).

(* hash.cpp:122-127 *)
Definition fromString (s : list Z) : option hobj :=
  match fromHex s 32 with
  | None => None
  | Some out => Some {| h_init := true; h_h := ints_of_chars 8 out; h_sh := zeros8; h_str := [] |}
  end.

(* ---- hash(const void *ptr, udim_t bytes), hash.cpp:149-170 -------------------------------- *)
Definition primes : list Z := [102679;102701;102761;102763;102769;102793;102797;102811].

(* h[j] * p[j]: in int (undefined on overflow) or, after fix 2, (int)((unsigned)h[j] * (unsigned)p[j]) *)
Definition mul_int (v : variant) (a b : Z) : option Z :=
  if unsigned_mul v then Some (to_i32 ((to_u32 a * to_u32 b) mod 4294967296))
  else if in_i32 (a * b) then Some (a * b) else None.

(* for (j < 8) h[j] = (h[j] * p[j]) ^ c[i];   c[i] is a char, promoted to int *)
Fixpoint hash_step (v : variant) (hs ps : list Z) (c : Z) : option (list Z) :=
  match hs, ps with
  | h :: hs', p :: ps' =>
      match mul_int v h p with
      | None => None
      | Some m =>
          match hash_step v hs' ps' c with
          | None => None
          | Some r => Some (xor_int m c :: r)
          end
      end
  | _, _ => Some []
  end.

Fixpoint hash_loop (v : variant) (hs : list Z) (bs : list Z) : option (list Z) :=
  match bs with
  | [] => Some hs
  | c :: bs' =>
      match hash_step v hs primes c with
      | None => None
      | Some hs' => hash_loop v hs' bs'
      end
  end.

Definition hash_words (v : variant) (bs : list Z) : option (list Z) := hash_loop v default_h bs.

Definition hash_bytes (v : variant) (bs : list Z) : option hobj :=
  match hash_words v bs with
  | None => None
  | Some h => Some {| h_init := true; h_h := h; h_sh := zeros8; h_str := [] |}
  end.

(* the same through memory: the loop reads c[0..bytes-1] and nothing else *)
Definition read_mem (mem : Z -> Z) (ptr : Z) (n : nat) : list Z :=
  map (fun i => mem (ptr + Z.of_nat i)) (seq 0 n).
Definition hash_ptr (v : variant) (mem : Z -> Z) (ptr : Z) (n : nat) : option (list Z) :=
  hash_words v (read_mem mem ptr n).

(* ---- the case machine: NREG variables of type hash_t ---------------------------------------- *)
Definition regs := list hobj.
Definition init_regs : regs := repeat mk_default NREG.
Definition getr (rs : regs) (i : nat) : hobj := nth i rs mk_default.
Fixpoint setr (rs : regs) (i : nat) (o : hobj) : regs :=
  match rs, i with
  | [], _ => []
  | _ :: r, O => o :: r
  | x :: r, S i' => x :: setr r i' o
  end.

(* one operation: None = undefined behaviour (the process is stopped by UBSan) *)
Definition m_step (v : variant) (rs : regs) (o : op) : option (regs * list obs) :=
  match o with
  | OInts i ws => Some (setr rs i (assign v (getr rs i) (mk_ints ws)), [])
  | OFrom i s =>
      match fromString s with
      | None => None
      | Some x => Some (setr rs i (assign v (getr rs i) x), [])
      end
  | OAssign i j => Some (setr rs i (assign v (getr rs i) (getr rs j)), [])
  | OXor i j => Some (setr rs i (hxor_assign v (getr rs i) (getr rs j)), [])
  | OClear i => Some (setr rs i (assign v (getr rs i) mk_default), [])
  | OShort i =>
      let (s, x) := getString v (getr rs i) in Some (setr rs i x, [VShort s])
  | OFull i => Some (rs, [VFull (getFullString (h_h (getr rs i)))])
  | ORound i =>
      match fromString (getFullString (h_h (getr rs i))) with
      | None => None
      | Some d => Some (rs, [VRound (h_h d) (words_eq (h_h d) (h_h (getr rs i)))])
      end
  | OCmp i j =>
      let a := h_h (getr rs i) in
      let b := h_h (getr rs j) in
      Some (rs, [VCmp (words_eq a b) (words_neq a b) (words_lt a b)])
  | OInt i => Some (rs, [VInt (nth 0 (h_h (getr rs i)) 0)])
  | OHash bs =>
      match hash_bytes v bs with
      | None => None
      | Some x => Some (rs, [VHash (getFullString (h_h x)) (fst (getString v x)) (h_h x)])
      end
  | OParse s =>
      match fromString s with
      | None => None
      | Some x => Some (rs, [VParse (h_h x)])
      end
  end.

Fixpoint m_run_from (v : variant) (rs : regs) (ops : list op) : option (regs * list obs) :=
  match ops with
  | [] => Some (rs, [])
  | o :: ops' =>
      match m_step v rs o with
      | None => None
      | Some (rs', out) =>
          match m_run_from v rs' ops' with
          | None => None
          | Some (rs'', out') => Some (rs'', out ++ out')
          end
      end
  end.

Definition m_run (v : variant) (ops : list op) : option (regs * list obs) :=
  m_run_from v init_regs ops.

(* the code in the tree now *)
Definition run_now (ops : list op) : option (list obs) :=
  match m_run fixed ops with Some (_, out) => Some out | None => None end.
Definition run_pinned (ops : list op) : option (list obs) :=
  match m_run pinned ops with Some (_, out) => Some out | None => None end.
