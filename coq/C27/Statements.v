(* C27 — small definitions used in the statements of Properties_C27.v. *)
From Coq Require Import List ZArith Bool.
From OV.C27 Require Import Syntax Model Spec.
Import ListNotations.
Local Open Scope Z_scope.

(* w is a value of type int *)
Definition i32 (w : Z) : Prop := in_i32 w = true.

(* what a case may contain: the constructor from an int array gets 8 ints; OFrom reads hexadecimal text of any
   length in either case (the strings the property speaks about, and their prefixes); OParse reads
   any string without characters >= 0x80; OHash takes every byte string. *)
Definition wf_op (o : op) : Prop :=
  match o with
  | OInts _ ws => length ws = 8%nat /\ Forall i32 ws
  | OFrom _ s => Forall (fun c => is_hex c = true) s
  | OParse s => Forall (fun c => 0 <= c) s
  | _ => True
  end.
