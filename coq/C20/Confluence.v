(* C20/Confluence.v — deterministic labelled systems whose steps satisfy the diamond property on an
   invariant have a unique terminal state: every complete schedule ends in the same state.
   (The permutation argument behind launch_eq_seq and omp_eq_serial.) *)
From Coq Require Import List.
Import ListNotations.

Section Confluence.
  Variables (S L : Type).
  Variable step : L -> S -> option S.
  Variable Inv : S -> Prop.
  Variable L_dec : forall a b : L, {a = b} + {a <> b}.

  Hypothesis Inv_step : forall l s s', Inv s -> step l s = Some s' -> Inv s'.
  Hypothesis diamond : forall t u s a b, Inv s -> t <> u ->
    step t s = Some a -> step u s = Some b ->
    exists c, step u a = Some c /\ step t b = Some c.

  (* strict runs: every scheduled label must be enabled *)
  Fixpoint runs (sched : list L) (s : S) : option S :=
    match sched with
    | [] => Some s
    | l :: r => match step l s with Some s' => runs r s' | None => None end
    end.

  Definition terminal (s : S) : Prop := forall l, step l s = None.

  Lemma runs_app a b s : runs (a ++ b) s = match runs a s with Some s' => runs b s' | None => None end.
  Proof. revert s; induction a; simpl; intros; auto. destruct (step a s); auto. Qed.

  Lemma runs_Inv sched s e : Inv s -> runs sched s = Some e -> Inv e.
  Proof.
    revert s; induction sched; simpl; intros s Hs H.
    - inversion H; subst; auto.
    - destruct (step a s) eqn:E; try discriminate. eauto.
  Qed.

  (* an enabled step can be pulled to the front of any complete run *)
  Lemma pull_front : forall sched s t a e,
    Inv s -> step t s = Some a -> runs sched s = Some e -> terminal e ->
    exists sched', runs sched' a = Some e /\ length sched = Datatypes.S (length sched').
  Proof.
    induction sched as [|u r IH]; simpl; intros s t a e Hs Ht Hr Hterm.
    - inversion Hr; subst. rewrite Hterm in Ht. discriminate.
    - destruct (step u s) as [b|] eqn:Hu; try discriminate.
      destruct (L_dec t u) as [->|Hne].
      + rewrite Ht in Hu. inversion Hu; subst. exists r. auto.
      + destruct (diamond t u s a b Hs Hne Ht Hu) as [c [Hc1 Hc2]].
        destruct (IH b t c e) as [r' [Hr' Hl]]; eauto.
        exists (u :: r'). simpl. rewrite Hc1. split; auto.
  Qed.

  Theorem unique_terminal : forall s1 s s2 e1 e2,
    Inv s -> runs s1 s = Some e1 -> terminal e1 -> runs s2 s = Some e2 -> terminal e2 -> e1 = e2.
  Proof.
    induction s1 as [|t r1 IH]; simpl; intros s s2 e1 e2 Hs H1 T1 H2 T2.
    - inversion H1; subst. destruct s2; simpl in H2.
      + inversion H2; auto.
      + rewrite T1 in H2. discriminate.
    - destruct (step t s) as [a|] eqn:Ht; try discriminate.
      destruct (pull_front s2 s t a e2 Hs Ht H2 T2) as [s2' [H2' _]].
      apply (IH a s2' e1 e2); eauto.
  Qed.

  (* all complete schedules have the same length *)
  Theorem same_length : forall s1 s s2 e1 e2,
    Inv s -> runs s1 s = Some e1 -> terminal e1 -> runs s2 s = Some e2 -> terminal e2 -> length s1 = length s2.
  Proof.
    induction s1 as [|t r1 IH]; simpl; intros s s2 e1 e2 Hs H1 T1 H2 T2.
    - inversion H1; subst. destruct s2; simpl in H2; auto. rewrite T1 in H2. discriminate.
    - destruct (step t s) as [a|] eqn:Ht; try discriminate.
      destruct (pull_front s2 s t a e2 Hs Ht H2 T2) as [s2' [H2' Hl]].
      rewrite Hl. f_equal. apply (IH a s2' e1 e2); eauto.
  Qed.
  (* no run is longer than a complete one *)
  Theorem run_length_bound : forall s1 s e1, Inv s -> runs s1 s = Some e1 -> terminal e1 ->
    forall s2 e2, runs s2 s = Some e2 -> length s2 <= length s1.
  Proof.
    intros s1 s e1 Hs H1 T1 s2. revert s1 s e1 Hs H1 T1.
    induction s2 as [|t r2 IH]; simpl; intros s1 s e1 Hs H1 T1 e2 H2.
    - apply le_0_n.
    - destruct (step t s) as [a|] eqn:Ht; try discriminate.
      destruct (pull_front s1 s t a e1 Hs Ht H1 T1) as [s1' [H1' Hl]].
      rewrite Hl. apply le_n_S. apply (IH s1' a e1 (Inv_step _ _ _ Hs Ht) H1' T1 e2 H2).
  Qed.
End Confluence.
