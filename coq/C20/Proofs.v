(* C20/Proofs.v — launch_eq_seq and the @exclusive array lemmas. *)
From Coq Require Import List ZArith Lia Bool Arith.
From OV.C20 Require Import Util Confluence Lang Spec Model Frame Diamond SeqRun.
Import ListNotations.
Open Scope nat_scope.

Lemma gruns_runs E secs sched s :
  gruns false E secs sched s = runs gst label (gstep false E secs) sched s.
Proof. revert s; induction sched; simpl; intros; auto. destruct (gstep false E secs a s); auto. Qed.

Lemma independent_ob_okS v ob : independent_ob ob = true ->
  forall s, In s (ob_secs ob) -> okS (mk_senv (v_args v) ob) (sec_wr s) false (sec_body s) = true.
Proof. unfold independent_ob. rewrite forallb_forall. intros H s Hs. apply (H s Hs). Qed.

Lemma init_Inv E u ob no G :
  (forall s, In s (ob_secs ob) -> okS E (sec_wr s) false (sec_body s) = true) ->
  Inv E (ob_secs ob) (init_gst E u ob no G).
Proof.
  intros Hind b B HB. simpl in HB. apply nth_error_In in HB. apply repeat_spec in HB. subst B.
  unfold blk_ok, init_blk; simpl. split; [apply repeat_length|]. split; [|split].
  - intros i p Hp. apply nth_error_In in Hp. apply repeat_spec in Hp. subst p. apply entry_ok'; auto.
  - intros H0 i p Hp. apply nth_error_In in Hp. apply repeat_spec in Hp. subst p. simpl.
    destruct (ob_secs ob); simpl in *; auto; discriminate.
  - lia.
Qed.

(* the sequential schedule is complete and computes the sequential reading *)
Lemma seq_schedule_exists v ob G :
  exists sched, launch_oblock false v ob sched G = Some (seq_oblock v G ob).
Proof.
  unfold launch_oblock, seq_oblock. set (E := mk_senv (v_args v) ob).
  destruct (blocks_run E (v_uninit v) ob (extents (v_args v) (ob_odims ob))
              (extents (v_args v) (ob_odims ob)) 0 G
              (repeat (init_blk E (v_uninit v) ob) (extents (v_args v) (ob_odims ob))))
    as [sched [s' [R [HG Hf]]]]; auto.
  - apply repeat_length.
  - intros c _ Hc. apply nth_error_repeat; auto.
  - intros c B Hc. lia.
  - exists sched. unfold init_gst. rewrite R, Hf, HG. reflexivity.
Qed.

Theorem launch_oblock_eq_seq v ob sched G G' :
  independent_ob ob = true -> launch_oblock false v ob sched G = Some G' -> G' = seq_oblock v G ob.
Proof.
  intros Hind HL. destruct (seq_schedule_exists v ob G) as [sched0 H0].
  unfold launch_oblock in *. set (E := mk_senv (v_args v) ob) in *.
  set (s0 := init_gst E (v_uninit v) ob (extents (v_args v) (ob_odims ob)) G) in *.
  pose proof (independent_ob_okS v ob Hind) as Hok. fold E in Hok.
  assert (HI : Inv E (ob_secs ob) s0) by (apply init_Inv; auto).
  destruct (gruns false E (ob_secs ob) sched s0) as [e1|] eqn:R1; try discriminate.
  destruct (gruns false E (ob_secs ob) sched0 s0) as [e2|] eqn:R2; try discriminate.
  destruct (finished (ob_secs ob) e1) eqn:F1; try discriminate.
  destruct (finished (ob_secs ob) e2) eqn:F2; try discriminate.
  inversion HL as [HG1]; inversion H0 as [HG2].
  rewrite gruns_runs in R1, R2.
  assert (e1 = e2).
  { eapply (unique_terminal gst label (gstep false E (ob_secs ob)) (Inv E (ob_secs ob)) label_dec).
    - intros. eapply Inv_step; eauto.
    - intros. eapply diamond; eauto.
    - exact HI.
    - exact R1.
    - intros l. apply finished_terminal; auto.
      eapply runs_Inv; eauto. intros. eapply Inv_step; eauto.
    - exact R2.
    - intros l. apply finished_terminal; auto.
      eapply runs_Inv; eauto. intros. eapply Inv_step; eauto. }
  congruence.
Qed.

Theorem launch_eq_seq : forall k v scheds G G',
  independent k = true -> run_launch scheds k v G = Some G' -> G' = run_seq k v G.
Proof.
  unfold run_launch, run_seq, independent.
  induction k as [|ob k IH]; intros v scheds G G' Hind HL; destruct scheds as [|sc scheds]; simpl in *; try discriminate.
  - inversion HL; auto.
  - apply andb_true_iff in Hind as [H1 H2].
    destruct (launch_oblock false v ob sc G) as [G1|] eqn:HL1; try discriminate.
    apply launch_oblock_eq_seq in HL1; auto. subst G1. eapply IH; eauto.
Qed.

Theorem launch_complete_exists : forall k v G, exists scheds, run_launch scheds k v G = Some (run_seq k v G).
Proof.
  unfold run_launch, run_seq. induction k as [|ob k IH]; intros v G.
  - exists []. reflexivity.
  - destruct (seq_schedule_exists v ob G) as [sc Hsc]. destruct (IH v (seq_oblock v G ob)) as [scs Hscs].
    exists (sc :: scs). simpl. rewrite Hsc. exact Hscs.
Qed.

(* ------------------------------------------------------------------ @exclusive *)

Definition prodn (l : list nat) : nat := fold_right Nat.mul 1 l.

Lemma seq_app' a x y : seq a (x + y) = seq a x ++ seq (a + x) y.
Proof. revert a; induction x; simpl; intros. - f_equal. lia. - f_equal. rewrite IHx. f_equal. f_equal. lia. Qed.

Lemma prodn_S d r : prodn (S d :: r) = prodn r + prodn (d :: r).
Proof. reflexivity. Qed.

Lemma excl_nest_spec : forall dims cnt, excl_nest dims cnt = (seq cnt (prodn dims), cnt + prodn dims).
Proof.
  induction dims as [|d r IH]; intros cnt.
  - simpl. f_equal. lia.
  - induction d in cnt |- *.
    + simpl. f_equal. lia.
    + rewrite prodn_S. cbn [excl_nest]. rewrite IH.
      change ((fix iter (k cnt0 : nat) {struct k} : list nat * nat :=
                 match k with
                 | 0 => ([], cnt0)
                 | S k' => let '(u1, c1) := excl_nest r cnt0 in let '(u2, c2) := iter k' c1 in (u1 ++ u2, c2)
                 end) d (cnt + prodn r)) with (excl_nest (d :: r) (cnt + prodn r)).
      rewrite IHd. rewrite seq_app'. f_equal. lia.
Qed.

Theorem excl_trace_spec dims : excl_trace dims = seq 0 (prodn dims).
Proof. unfold excl_trace. rewrite excl_nest_spec. reflexivity. Qed.

Lemma fold_left_mul l a : fold_left Nat.mul l a = a * prodn l.
Proof. revert a; induction l; simpl; intros. - lia. - rewrite IHl. lia. Qed.

Lemma extents_prodn args l : extents args l = prodn (map (extent args) l).
Proof. unfold extents. rewrite fold_left_mul. lia. Qed.

Lemma known_dims_extents args l : forall p, known_dims l = Some p ->
  (forall z, In (BConst z) l -> (0 <= z)%Z) -> Z.of_nat (prodn (map (extent args) l)) = p /\ (0 <= p)%Z.
Proof.
  induction l as [|b l IH]; simpl; intros p H Hnn.
  - inversion H. split; reflexivity || lia.
  - destruct b as [z|n]; try discriminate.
    destruct (known_dims l) as [q|] eqn:Hq; try discriminate. inversion H; subst.
    destruct (IH q eq_refl) as [H1 H2]; [intros; apply Hnn; auto|].
    assert (0 <= z)%Z by (apply Hnn; auto).
    unfold extent at 1. rewrite Nat2Z.inj_mul, H1, Z2Nat.id by auto. split; [auto|nia].
Qed.

(* the index scheme visits 0, 1, ..., (product of the inner extents) - 1: distinct cells, and in bounds
   exactly when the array is at least that long *)
Theorem excl_in_bounds_iff dims size :
  Forall (fun i => i < size) (excl_trace dims) <-> prodn dims <= size.
Proof.
  rewrite excl_trace_spec, Forall_forall. split.
  - intros H. destruct (prodn dims) as [|n] eqn:Hp; [lia|].
    specialize (H n). rewrite in_seq in H. lia.
  - intros H i Hi. rewrite in_seq in Hi. lia.
Qed.

Theorem excl_const_dims_ok dflt args idims maxd :
  (forall z, In (BConst z) idims -> (0 <= z)%Z) -> known_dims idims <> None ->
  excl_trace (map (extent args) idims) = seq 0 (Z.to_nat (excl_array_size dflt idims maxd)).
Proof.
  intros Hnn Hk. unfold excl_array_size. destruct (known_dims idims) as [p|] eqn:Hp; try congruence.
  destruct (known_dims_extents args idims p Hp Hnn) as [H1 H2].
  rewrite excl_trace_spec. f_equal. lia.
Qed.
