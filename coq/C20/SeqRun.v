(* C20/SeqRun.v — the launch model has a complete schedule whose final global memory is run_seq's:
   blocks in order; per block the sections in order, each thread run to the end of its section in
   inner-loop order, then the barrier step.  (statement machine vs. big-step exec, then bookkeeping.) *)
From Coq Require Import List ZArith Lia Bool Arith.
From OV.C20 Require Import Util Lang Spec Model Diamond.
Import ListNotations.
Open Scope nat_scope.

(* ------------------------------------------------------------------ one thread: machine steps = exec *)
Section Thread.
  Variables (E : senv) (lo li : nat).

  Fixpoint titer (n : nat) (c : priv * mem * mem) : option (priv * mem * mem) :=
    match n with
    | O => Some c
    | S n' => let '(p, G, Sh) := c in
              match tstep false E lo li G Sh p with
              | Some (p', act) => titer n' (p', apply_G act G, apply_S act Sh)
              | None => None
              end
    end.

  Lemma titer_app n m c : titer (n + m) c = match titer n c with Some c' => titer m c' | None => None end.
  Proof.
    revert c; induction n; simpl; intros; auto. destruct c as [[p G] Sh].
    destruct (tstep false E lo li G Sh p) as [[p' act]|]; auto.
  Qed.

  Definition cfg_of (st : bst) (k : list item) : priv * mem * mem :=
    ({| p_ex := b_ex st; p_lo := b_lo st; p_k := k |}, b_G st, b_S st).

  Lemma step_loop_in st j c n s k : (c <? n)%Z = true ->
    titer 1 (cfg_of st (ILoop j c n s :: k)) = Some (cfg_of (set_lo st j c) (IS s :: ILoop j (c + 1) n s :: k)).
  Proof. intros H. unfold cfg_of, titer, tstep. cbn [p_k p_ex p_lo]. rewrite H. reflexivity. Qed.

  Lemma step_loop_out st j c n s k : (c <? n)%Z = false ->
    titer 1 (cfg_of st (ILoop j c n s :: k)) = Some (cfg_of (set_lo st j c) k).
  Proof. intros H. unfold cfg_of, titer, tstep. cbn [p_k p_ex p_lo]. rewrite H. reflexivity. Qed.

  Lemma step_if st c a b k :
    titer 1 (cfg_of st (IS (SIf c a b) :: k)) =
    Some (cfg_of st (IS (if (bev E lo li st c =? 0)%Z then b else a) :: k)).
  Proof. reflexivity. Qed.

  Lemma step_first st s k :
    titer 1 (cfg_of st (IS (SFirst s) :: k)) = Some (cfg_of st (if Nat.eqb li 0 then IS s :: k else k)).
  Proof. reflexivity. Qed.

  Lemma step_seq st a b k : titer 1 (cfg_of st (IS (SSeq a b) :: k)) = Some (cfg_of st (IS a :: IS b :: k)).
  Proof. reflexivity. Qed.

  Lemma step_for st j b s k :
    titer 1 (cfg_of st (IS (SFor j b s) :: k)) = Some (cfg_of st (ILoop j 0 (bound_eval E b) s :: k)).
  Proof. reflexivity. Qed.

  Lemma loop_steps (s : stmt) (j : nat) (n : Z) (k : list item)
    (IHs : forall st k, exists m, titer m (cfg_of st (IS s :: k)) = Some (cfg_of (exec E lo li s st) k)) :
    forall kf c st, Z.to_nat (n - c) = kf ->
      exists m, titer m (cfg_of st (ILoop j c n s :: k)) = Some (cfg_of (loop (exec E lo li s) j n kf c st) k).
  Proof.
    induction kf; intros c st Hk.
    - exists 1. assert (Hc : (c <? n)%Z = false) by (apply Z.ltb_ge; lia).
      rewrite step_loop_out by auto. reflexivity.
    - assert (Hc : (c <? n)%Z = true) by (apply Z.ltb_lt; lia).
      destruct (IHs (set_lo st j c) (ILoop j (c + 1) n s :: k)) as [m1 H1].
      destruct (IHkf (c + 1)%Z (exec E lo li s (set_lo st j c))) as [m2 H2]; [lia|].
      exists (1 + (m1 + m2)). rewrite titer_app. rewrite step_loop_in by auto.
      rewrite titer_app. rewrite H1. cbn [loop]. rewrite Hc. exact H2.
  Qed.

  Lemma exec_steps (s : stmt) : forall st k,
    exists m, titer m (cfg_of st (IS s :: k)) = Some (cfg_of (exec E lo li s st) k).
  Proof.
    induction s; intros st k.
    - exists 1. reflexivity.
    - destruct (IHs1 st (IS s2 :: k)) as [m1 H1]. destruct (IHs2 (exec E lo li s1 st) k) as [m2 H2].
      exists (1 + (m1 + m2)). rewrite titer_app, step_seq, titer_app, H1. exact H2.
    - exists 1. reflexivity.
    - exists 1. reflexivity.
    - exists 1. reflexivity.
    - exists 1. reflexivity.
    - exists 1. reflexivity.
    - exists 1. reflexivity.
    - cbn [exec]. destruct (bev E lo li st c =? 0)%Z eqn:Hc.
      + destruct (IHs2 (chk st (binb E lo li st c)) k) as [m H]. exists (1 + m). rewrite titer_app, step_if, Hc. exact H.
      + destruct (IHs1 (chk st (binb E lo li st c)) k) as [m H]. exists (1 + m). rewrite titer_app, step_if, Hc. exact H.
    - cbn [exec]. destruct (Nat.eqb li 0) eqn:Hl.
      + destruct (IHs st k) as [m H]. exists (1 + m). rewrite titer_app, step_first, Hl. exact H.
      + exists 1. rewrite step_first, Hl. reflexivity.
    - destruct (loop_steps s j (bound_eval E b) k IHs (Z.to_nat (bound_eval E b)) 0%Z st) as [m H].
      { f_equal. lia. }
      exists (1 + m). rewrite titer_app, step_for. exact H.
  Qed.
End Thread.

(* ------------------------------------------------------------------ small list facts *)
Lemma upd_same_nth_error {A} n (x : A) l : nth_error l n = Some x -> upd n x l = l.
Proof. revert n; induction l; destruct n; simpl; intros H; try discriminate; auto.
       - inversion H; auto. - f_equal; auto. Qed.

Lemma map_upd {A B} (f : A -> B) n x l : map f (upd n x l) = upd n (f x) (map f l).
Proof. revert n; induction l; destruct n; simpl; auto. f_equal; auto. Qed.

Lemma nth_error_nth' {A} (l : list A) n x d : nth_error l n = Some x -> nth n l d = x.
Proof. revert n; induction l; destruct n; simpl; intros H; try discriminate; auto. inversion H; auto. Qed.

Lemma nth_error_repeat {A} (x : A) n i : i < n -> nth_error (repeat x n) i = Some x.
Proof. revert i; induction n; destruct i; simpl; intros; try lia; auto. apply IHn. lia. Qed.

Lemma map_repeat {A B} (f : A -> B) x n : map f (repeat x n) = repeat (f x) n.
Proof. induction n; simpl; auto. f_equal; auto. Qed.

Lemma seq_thread_eq E lo body G Sh exs li :
  seq_thread E lo body (G, Sh, exs) li =
  let st := exec E lo li body {| b_G := G; b_S := Sh; b_ex := nth li exs zero_store; b_lo := zero_store; b_ok := true |} in
  (b_G st, b_S st, upd li (b_ex st) exs).
Proof. reflexivity. Qed.

(* ------------------------------------------------------------------ runs of the launch model *)
Section Runs.
  Variables (E : senv) (secs : list section).
  Notation gruns' := (gruns false E secs).
  Notation step := (gstep false E secs).

  Lemma gruns_app a b s : gruns' (a ++ b) s = match gruns' a s with Some s' => gruns' b s' | None => None end.
  Proof. revert s; induction a; simpl; intros; auto. destruct (step a s); auto. Qed.

  (* "block b can go from (G, B) to (G', B')", whatever the other blocks are *)
  Definition breach (b : nat) (G : mem) (B : blk) (G' : mem) (B' : blk) : Prop :=
    forall blks, nth_error blks b = Some B ->
      exists sched, gruns' sched {| s_G := G; s_blks := blks |} = Some {| s_G := G'; s_blks := upd b B' blks |}.

  Lemma breach_refl b G B : breach b G B G B.
  Proof. intros blks HB. exists []. simpl. rewrite upd_same_nth_error; auto. Qed.

  Lemma breach_trans b G B G1 B1 G2 B2 : breach b G B G1 B1 -> breach b G1 B1 G2 B2 -> breach b G B G2 B2.
  Proof.
    intros H1 H2 blks HB. destruct (H1 blks HB) as [s1 R1].
    destruct (H2 (upd b B1 blks)) as [s2 R2].
    { apply nth_error_upd_eq. eapply nth_error_lt; eauto. }
    exists (s1 ++ s2). rewrite gruns_app, R1, R2. rewrite upd_upd. auto.
  Qed.

  Lemma breach_thread b i n : forall G B p p' G' S',
    nth_error (k_thr B) i = Some p ->
    titer E b i n (p, G, k_sh B) = Some (p', G', S') ->
    breach b G B G' {| k_phase := k_phase B; k_sh := S'; k_thr := upd i p' (k_thr B) |}.
  Proof.
    induction n; intros G B p p' G' S' Hp Ht.
    - simpl in Ht. inversion Ht; subst. rewrite upd_same_nth_error by auto.
      destruct B; simpl. apply breach_refl.
    - simpl in Ht. destruct (tstep false E b i G (k_sh B) p) as [[p1 act]|] eqn:Hs; try discriminate.
      set (B1 := {| k_phase := k_phase B; k_sh := apply_S act (k_sh B); k_thr := upd i p1 (k_thr B) |}).
      eapply breach_trans with (G1 := apply_G act G) (B1 := B1).
      + intros blks HB. exists [LThr b i]. simpl. rewrite HB, Hp, Hs. reflexivity.
      + specialize (IHn (apply_G act G) B1 p1 p' G' S'). simpl in IHn. rewrite upd_upd in IHn.
        apply IHn; auto. apply nth_error_upd_eq. eapply nth_error_lt; eauto.
  Qed.

  Lemma breach_bar b G B : k_phase B < length secs -> forallb (fun p => is_nil (p_k p)) (k_thr B) = true ->
    breach b G B G (bar_blk secs B).
  Proof.
    intros Hlt Hnil blks HB. exists [LBar b]. simpl. rewrite HB.
    apply Nat.ltb_lt in Hlt. rewrite Hlt, Hnil. reflexivity.
  Qed.

  (* ---------------------------------------------------------------- one section of one block *)
  Section Sec.
    Variables (b q : nat) (body : stmt).

    (* threads below i have finished the section, the others are at its start *)
    Definition sec_inv (i : nat) (exs : list store) (thr : list priv) : Prop :=
      length thr = e_mi E /\ map p_ex thr = exs /\
      forall j p, nth_error thr j = Some p ->
        (i <= j -> p_lo p = zero_store /\ p_k p = [IS body]) /\ (j < i -> p_k p = []).

    Lemma section_run : forall cnt i G Sh exs thr, i + cnt = e_mi E -> sec_inv i exs thr ->
      exists thr',
        let '(G', Sh', exs') := fold_left (seq_thread E b body) (seq i cnt) (G, Sh, exs) in
        breach b G {| k_phase := q; k_sh := Sh; k_thr := thr |} G' {| k_phase := q; k_sh := Sh'; k_thr := thr' |} /\
        sec_inv (e_mi E) exs' thr'.
    Proof.
      induction cnt; intros i G Sh exs thr Hi Hinv.
      - simpl. exists thr. split; [apply breach_refl|]. replace (e_mi E) with i by lia. auto.
      - destruct Hinv as [Hlen [Hex Hthr]].
        assert (Hil : i < length thr) by lia.
        destruct (nth_error thr i) as [p|] eqn:Hp; [|apply nth_error_None in Hp; lia].
        destruct (Hthr i p Hp) as [[Hlo Hk] _]; auto.
        destruct p as [pex plo pk]. simpl in Hlo, Hk. subst plo pk. simpl p_ex in *.
        assert (Hexi : nth i exs zero_store = pex).
        { apply nth_error_nth'. rewrite <- Hex, nth_error_map, Hp. reflexivity. }
        change (seq i (S cnt)) with (i :: seq (S i) cnt). cbn [fold_left]. rewrite seq_thread_eq. rewrite Hexi. cbv zeta.
        set (st0 := {| b_G := G; b_S := Sh; b_ex := pex; b_lo := zero_store; b_ok := true |}).
        set (st1 := exec E b i body st0).
        destruct (exec_steps E b i body st0 []) as [m Hm]. fold st1 in Hm.
        set (p1 := {| p_ex := b_ex st1; p_lo := b_lo st1; p_k := [] |}).
        specialize (IHcnt (S i) (b_G st1) (b_S st1) (upd i (b_ex st1) exs) (upd i p1 thr)).
        destruct IHcnt as [thr' IH]; [lia| |].
        { split; [rewrite upd_length; auto|]. split; [rewrite map_upd, Hex; reflexivity|].
          intros j pj Hj. destruct (Nat.eq_dec i j) as [<-|Hij].
          - rewrite nth_error_upd_eq in Hj by auto. inversion Hj; subst. split; [lia|auto].
          - rewrite nth_error_upd_neq in Hj by auto. destruct (Hthr j pj Hj) as [H1 H2].
            split; intros; [apply H1; lia|apply H2; lia]. }
        exists thr'.
        destruct (fold_left (seq_thread E b body) (seq (S i) cnt) (b_G st1, b_S st1, upd i (b_ex st1) exs))
          as [[G' Sh'] exs'] eqn:Hf.
        destruct IH as [Hbr Hinv']. split; auto.
        eapply breach_trans; [|exact Hbr].
        pose proof (breach_thread b i m G {| k_phase := q; k_sh := Sh; k_thr := thr |} _ p1 (b_G st1) (b_S st1) Hp) as Ht.
        simpl in Ht. apply Ht. exact Hm.
    Qed.
  End Sec.
End Runs.

Lemma skipn_cons_inv {A} (l : list A) q x r : skipn q l = x :: r -> nth_error l q = Some x /\ skipn (S q) l = r.
Proof.
  revert q; induction l; destruct q; simpl; intros H; try discriminate.
  - inversion H; auto.
  - apply IHl in H. destruct H. split; auto.
Qed.

Section Blocks.
  Variables (E : senv) (u : Z) (ob : oblock).
  Let secs := ob_secs ob.

  Definition at_start (q : nat) (exs : list store) (thr : list priv) : Prop :=
    length thr = e_mi E /\ map p_ex thr = exs /\
    forall j p, nth_error thr j = Some p -> p_lo p = zero_store /\ p_k p = sec_entry secs q.

  Lemma sections_run b : forall rest q G Sh exs thr, q <= length secs -> rest = skipn q secs -> at_start q exs thr ->
    exists Sh' thr',
      breach E secs b G {| k_phase := q; k_sh := Sh; k_thr := thr |}
             (fst (fst (fold_left (seq_section E b) rest (G, Sh, exs))))
             {| k_phase := length secs; k_sh := Sh'; k_thr := thr' |}.
  Proof.
    induction rest as [|sec rest IH]; intros q G Sh exs thr Hq Hrest Hst.
    - assert (q = length secs).
      { pose proof (skipn_length q secs) as HL. rewrite <- Hrest in HL. simpl in HL. lia. }
      subst q. simpl. exists Sh, thr. apply breach_refl.
    - symmetry in Hrest. apply skipn_cons_inv in Hrest as [Hsec Hrest].
      destruct Hst as [Hlen [Hex Hthr]].
      assert (Hentry : sec_entry secs q = [IS (sec_body sec)]) by (unfold sec_entry; rewrite Hsec; auto).
      destruct (section_run E secs b q (sec_body sec) (e_mi E) 0 G Sh exs thr) as [thr1 H1]; auto.
      { split; auto. split; auto. intros j p Hp. destruct (Hthr j p Hp) as [Hl Hk]. split; [|lia].
        intros _. rewrite <- Hentry. auto. }
      cbn [fold_left]. change (seq_section E b (G, Sh, exs) sec)
        with (fold_left (seq_thread E b (sec_body sec)) (seq 0 (e_mi E)) (G, Sh, exs)).
      destruct (fold_left (seq_thread E b (sec_body sec)) (seq 0 (e_mi E)) (G, Sh, exs)) as [[G1 Sh1] exs1].
      destruct H1 as [Hbr [Hlen1 [Hex1 Hthr1]]].
      assert (Hqlt : q < length secs) by (eapply nth_error_lt; eauto).
      assert (Hnil : forallb (fun p => is_nil (p_k p)) thr1 = true).
      { apply forallb_forall. intros p Hin. apply In_nth_error in Hin as [j Hj].
        destruct (Hthr1 j p Hj) as [_ Hk]. rewrite Hk; auto. rewrite <- Hlen1. eapply nth_error_lt; eauto. }
      destruct (IH (S q) G1 Sh1 exs1 (map (enter secs (S q)) thr1)) as [Sh' [thr' Hbr2]]; auto.
      { split; [rewrite map_length; auto|]. split.
        - rewrite map_map. rewrite <- Hex1. apply map_ext. reflexivity.
        - intros j p Hp. rewrite nth_error_map in Hp. destruct (nth_error thr1 j); inversion Hp; subst. auto. }
      exists Sh', thr'.
      eapply breach_trans; [exact Hbr|]. eapply breach_trans; [|exact Hbr2].
      pose proof (breach_bar E secs b G1 {| k_phase := q; k_sh := Sh1; k_thr := thr1 |}) as Hb.
      unfold bar_blk in Hb. simpl in Hb. apply Hb; auto.
  Qed.

  Lemma block_run b G : 
    exists Bfin, k_phase Bfin = length secs /\
      breach E secs b G (init_blk E u ob) (seq_block E u ob G b) Bfin.
  Proof.
    destruct (sections_run b secs 0 G (init_shared u ob) (repeat (const_store u) (e_mi E))
                (repeat (init_thread u secs) (e_mi E))) as [Sh' [thr' H]]; auto; try lia.
    - split; [apply repeat_length|]. split; [rewrite map_repeat; reflexivity|].
      intros j p Hp. apply nth_error_In in Hp. apply repeat_spec in Hp. subst. auto.
    - exists {| k_phase := length secs; k_sh := Sh'; k_thr := thr' |}. split; auto.
      unfold seq_block. fold secs.
      destruct (fold_left (seq_section E b) secs (G, init_shared u ob, repeat (const_store u) (e_mi E)))
        as [[G' S'] e']. exact H.
  Qed.

  Lemma blocks_run no : forall cnt b G blks, b + cnt = no -> length blks = no ->
    (forall c, b <= c -> c < no -> nth_error blks c = Some (init_blk E u ob)) ->
    (forall c B, c < b -> nth_error blks c = Some B -> k_phase B = length secs) ->
    exists sched s', gruns false E secs sched {| s_G := G; s_blks := blks |} = Some s' /\
      s_G s' = fold_left (seq_block E u ob) (seq b cnt) G /\ finished secs s' = true.
  Proof.
    induction cnt; intros b G blks Hb Hlen Hinit Hdone.
    - exists [], {| s_G := G; s_blks := blks |}. simpl. split; auto. split; auto.
      unfold finished. simpl. apply forallb_forall. intros B Hin. apply In_nth_error in Hin as [c Hc].
      apply Nat.eqb_eq. apply (Hdone c B); auto. assert (c < length blks) by (eapply nth_error_lt; eauto). lia.
    - destruct (block_run b G) as [Bfin [Hph Hbr]].
      destruct (Hbr blks) as [s1 R1]; [apply Hinit; lia|].
      destruct (IHcnt (S b) (seq_block E u ob G b) (upd b Bfin blks)) as [s2 [s' [R2 [HG Hfin]]]].
      + lia.
      + rewrite upd_length; auto.
      + intros c H1 H2. rewrite nth_error_upd_neq by lia. apply Hinit; lia.
      + intros c B Hc HB. destruct (Nat.eq_dec b c) as [<-|Hne].
        * rewrite nth_error_upd_eq in HB by lia. inversion HB; subst; auto.
        * rewrite nth_error_upd_neq in HB by auto. apply (Hdone c B); auto. lia.
      + exists (s1 ++ s2), s'. rewrite gruns_app, R1. split; auto.
  Qed.
End Blocks.
