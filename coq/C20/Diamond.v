(* C20/Diamond.v — `independent_commutes`: on the reachable states of the launch model of an outer block that
   passes the syntactic check, enabled steps of different labels commute (diamond property). *)
From Coq Require Import List ZArith Lia Bool Arith.
From OV.C20 Require Import Util Lang Spec Model Frame.
Import ListNotations.
Open Scope nat_scope.

Lemma nth_error_upd_eq {A} n (v : A) l : n < length l -> nth_error (upd n v l) n = Some v.
Proof. revert n; induction l; destruct n; simpl; intros; try lia; auto. apply IHl. lia. Qed.

Lemma nth_error_upd_neq {A} n m (v : A) l : n <> m -> nth_error (upd n v l) m = nth_error l m.
Proof. revert n m; induction l; destruct n, m; simpl; intros; try congruence; auto. Qed.

Lemma nth_error_lt {A} (l : list A) n x : nth_error l n = Some x -> n < length l.
Proof. intros H. apply nth_error_Some. congruence. Qed.

Section Block.
  Variables (E : senv) (secs : list section).
  Hypothesis Hind : forall s, In s secs -> okS E (sec_wr s) false (sec_body s) = true.

  Definition Wof (q : nat) : list nat := match nth_error secs q with Some s => sec_wr s | None => [] end.

  Definition blk_ok (B : blk) : Prop :=
    length (k_thr B) = e_mi E /\
    (forall i p, nth_error (k_thr B) i = Some p -> ok_priv E (Wof (k_phase B)) i p) /\
    (k_phase B = length secs -> forall i p, nth_error (k_thr B) i = Some p -> p_k p = []) /\
    k_phase B <= length secs.

  Definition Inv (s : gst) : Prop := forall b B, nth_error (s_blks s) b = Some B -> blk_ok B.

  Notation step := (gstep false E secs).

  Lemma entry_ok q i : ok_priv E (Wof q) i {| p_ex := zero_store; p_lo := zero_store; p_k := sec_entry secs q |}.
  Proof.
    unfold ok_priv, sec_entry, Wof; simpl. destruct (nth_error secs q) eqn:Hq; simpl; auto.
    rewrite okS_mono; auto. apply Hind. eapply nth_error_In; eauto.
  Qed.

  Lemma entry_ok' q i ex lc : ok_priv E (Wof q) i {| p_ex := ex; p_lo := lc; p_k := sec_entry secs q |}.
  Proof. exact (entry_ok q i). Qed.

  Lemma entry_last : sec_entry secs (length secs) = [].
  Proof. unfold sec_entry. replace (nth_error secs (length secs)) with (@None section); auto.
         symmetry. apply nth_error_None. lia. Qed.

  (* ---------------------------------------------------------------- inversion / introduction of steps *)

  Lemma thr_inv b i s s' : step (LThr b i) s = Some s' ->
    exists B p p' act, nth_error (s_blks s) b = Some B /\ nth_error (k_thr B) i = Some p /\
      tstep false E b i (s_G s) (k_sh B) p = Some (p', act) /\
      s' = {| s_G := apply_G act (s_G s);
              s_blks := upd b {| k_phase := k_phase B; k_sh := apply_S act (k_sh B); k_thr := upd i p' (k_thr B) |} (s_blks s) |}.
  Proof.
    simpl. destruct (nth_error (s_blks s) b) as [B|] eqn:HB; try discriminate.
    destruct (nth_error (k_thr B) i) as [p|] eqn:Hp; try discriminate.
    destruct (tstep false E b i (s_G s) (k_sh B) p) as [[p' act]|] eqn:Ht; try discriminate.
    intros H; inversion H; subst. exists B, p, p', act. auto.
  Qed.

  Lemma thr_intro b i s B p p' act : nth_error (s_blks s) b = Some B -> nth_error (k_thr B) i = Some p ->
      tstep false E b i (s_G s) (k_sh B) p = Some (p', act) ->
      step (LThr b i) s =
      Some {| s_G := apply_G act (s_G s);
              s_blks := upd b {| k_phase := k_phase B; k_sh := apply_S act (k_sh B); k_thr := upd i p' (k_thr B) |} (s_blks s) |}.
  Proof. simpl. intros -> -> ->. auto. Qed.

  Definition bar_blk (B : blk) : blk :=
    {| k_phase := S (k_phase B); k_sh := k_sh B; k_thr := map (enter secs (S (k_phase B))) (k_thr B) |}.

  Lemma bar_inv b s s' : step (LBar b) s = Some s' ->
    exists B, nth_error (s_blks s) b = Some B /\ k_phase B < length secs /\
      forallb (fun p => is_nil (p_k p)) (k_thr B) = true /\
      s' = {| s_G := s_G s; s_blks := upd b (bar_blk B) (s_blks s) |}.
  Proof.
    simpl. destruct (nth_error (s_blks s) b) as [B|] eqn:HB; try discriminate.
    destruct ((k_phase B <? length secs) && forallb (fun p => is_nil (p_k p)) (k_thr B)) eqn:Hc; try discriminate.
    apply andb_true_iff in Hc as [H1 H2]. apply Nat.ltb_lt in H1.
    intros H; inversion H; subst. exists B. auto.
  Qed.

  Lemma bar_intro b s B : nth_error (s_blks s) b = Some B -> k_phase B < length secs ->
      forallb (fun p => is_nil (p_k p)) (k_thr B) = true ->
      step (LBar b) s = Some {| s_G := s_G s; s_blks := upd b (bar_blk B) (s_blks s) |}.
  Proof.
    simpl. intros -> H1 H2. apply Nat.ltb_lt in H1. rewrite H1, H2. auto.
  Qed.

  (* ---------------------------------------------------------------- the invariant is preserved *)

  Lemma Inv_step l s s' : Inv s -> step l s = Some s' -> Inv s'.
  Proof.
    intros HI H. destruct l as [b i|b].
    - apply thr_inv in H as [B [p [p' [act [HB [Hp [Ht ->]]]]]]].
      intros c C HC. simpl in HC. destruct (Nat.eq_dec b c) as [->|Hne].
      + rewrite nth_error_upd_eq in HC by (eapply nth_error_lt; eauto). inversion HC; subst; clear HC.
        destruct (HI c B HB) as [H1 [H2 [H3 H4]]]. split; [|split; [|split]]; simpl; auto.
        * rewrite upd_length; auto.
        * intros j q Hq. destruct (Nat.eq_dec i j) as [->|Hij].
          -- rewrite nth_error_upd_eq in Hq by (eapply nth_error_lt; eauto). inversion Hq; subst.
             eapply tstep_ok; eauto.
          -- rewrite nth_error_upd_neq in Hq by auto. eauto.
        * intros Hph. specialize (H3 Hph i p Hp). unfold tstep in Ht. rewrite H3 in Ht. discriminate.
      + rewrite nth_error_upd_neq in HC by auto. eauto.
    - apply bar_inv in H as [B [HB [Hlt [Hnil ->]]]].
      intros c C HC. simpl in HC. destruct (Nat.eq_dec b c) as [->|Hne].
      + rewrite nth_error_upd_eq in HC by (eapply nth_error_lt; eauto). inversion HC; subst; clear HC.
        destruct (HI c B HB) as [H1 [H2 [H3 H4]]]. split; [|split; [|split]]; simpl; auto.
        * rewrite map_length; auto.
        * intros j q Hq. rewrite nth_error_map in Hq. destruct (nth_error (k_thr B) j); try discriminate.
          inversion Hq; subst. apply entry_ok'.
        * intros Hph j q Hq. rewrite nth_error_map in Hq. destruct (nth_error (k_thr B) j); try discriminate.
          inversion Hq; subst. simpl. rewrite Hph. apply entry_last.
      + rewrite nth_error_upd_neq in HC by auto. eauto.
  Qed.

  (* ---------------------------------------------------------------- diamond *)

  Lemma thr_lt s b B i p : Inv s -> nth_error (s_blks s) b = Some B -> nth_error (k_thr B) i = Some p -> i < e_mi E.
  Proof. intros HI HB Hp. destruct (HI b B HB) as [H1 _]. rewrite <- H1. eapply nth_error_lt; eauto. Qed.

  Lemma diamond_thr_thr s b i c j sa sb : Inv s -> (b, i) <> (c, j) ->
    step (LThr b i) s = Some sa -> step (LThr c j) s = Some sb ->
    exists sc, step (LThr c j) sa = Some sc /\ step (LThr b i) sb = Some sc.
  Proof.
    intros HI Hne Ha Hb.
    apply thr_inv in Ha as [B [p [p' [a1 [HB [Hp [Ht1 ->]]]]]]].
    apply thr_inv in Hb as [C [q [q' [a2 [HC [Hq [Ht2 ->]]]]]]].
    assert (Hi : i < e_mi E) by (exact (thr_lt s b B i p HI HB Hp)).
    assert (Hj : j < e_mi E) by (exact (thr_lt s c C j q HI HC Hq)).
    destruct (HI b B HB) as [_ [HokB _]]. destruct (HI c C HC) as [_ [HokC _]].
    pose proof (HokB i p Hp) as Hokp. pose proof (HokC j q Hq) as Hokq.
    destruct (tstep_ok _ _ _ _ _ _ _ _ _ Hokp Ht1) as [_ Hal1].
    destruct (tstep_ok _ _ _ _ _ _ _ _ _ Hokq Ht2) as [_ Hal2].
    assert (Hb_lt : b < length (s_blks s)) by (eapply nth_error_lt; eauto).
    assert (Hc_lt : c < length (s_blks s)) by (eapply nth_error_lt; eauto).
    destruct (Nat.eq_dec b c) as [Hbc|Hbc].
    - (* same block *)
      subst c. rewrite HB in HC. inversion HC; subst C; clear HC.
      assert (Hij : i <> j) by congruence.
      eexists. split.
      + erewrite thr_intro; simpl.
        * reflexivity.
        * apply nth_error_upd_eq; auto.
        * simpl. rewrite nth_error_upd_neq by auto. eauto.
        * simpl. rewrite <- Ht2. symmetry. eapply tstep_frame; eauto.
          -- apply (allowed_agreeG E (Wof (k_phase B)) b j b i a1); auto; congruence.
          -- apply (allowed_agreeS E (Wof (k_phase B)) b j i a1); auto.
      + erewrite thr_intro; simpl; cycle 1.
        * apply nth_error_upd_eq; auto.
        * simpl. rewrite nth_error_upd_neq by auto. eauto.
        * simpl. rewrite <- Ht1. symmetry. eapply tstep_frame; eauto.
          -- apply (allowed_agreeG E (Wof (k_phase B)) b i b j a2); auto.
          -- apply (allowed_agreeS E (Wof (k_phase B)) b i j a2); auto.
        * rewrite !upd_upd. simpl.
          rewrite (apply_G_comm E (Wof (k_phase B)) (Wof (k_phase B)) b i b j a1 a2) by auto.
          rewrite (apply_S_comm E (Wof (k_phase B)) i j b b a1 a2) by auto.
          rewrite (upd_comm i j) by auto. reflexivity.
    - (* different blocks *)
      eexists. split.
      + erewrite thr_intro; simpl.
        * reflexivity.
        * rewrite nth_error_upd_neq by auto. eauto.
        * eauto.
        * rewrite <- Ht2. symmetry. eapply tstep_frame; eauto.
          -- apply (allowed_agreeG E (Wof (k_phase B)) c j b i a1); auto; congruence.
          -- apply agreeS_refl.
      + erewrite thr_intro; simpl; cycle 1.
        * rewrite nth_error_upd_neq by auto. eauto.
        * eauto.
        * rewrite <- Ht1. symmetry. eapply tstep_frame; eauto.
          -- apply (allowed_agreeG E (Wof (k_phase C)) b i c j a2); auto.
          -- apply agreeS_refl.
        * rewrite (apply_G_comm E (Wof (k_phase B)) (Wof (k_phase C)) b i c j a1 a2) by auto.
          rewrite (upd_comm b c) by auto. reflexivity.
  Qed.

  Lemma diamond_thr_bar s b i c sa sb : Inv s ->
    step (LThr b i) s = Some sa -> step (LBar c) s = Some sb ->
    exists sc, step (LBar c) sa = Some sc /\ step (LThr b i) sb = Some sc.
  Proof.
    intros HI Ha Hb.
    apply thr_inv in Ha as [B [p [p' [a1 [HB [Hp [Ht1 ->]]]]]]].
    apply bar_inv in Hb as [C [HC [Hlt [Hnil ->]]]].
    destruct (Nat.eq_dec b c) as [Hbc|Hbc].
    - subst c. rewrite HB in HC. inversion HC; subst C.
      rewrite forallb_forall in Hnil. apply nth_error_In in Hp. apply Hnil in Hp.
      unfold tstep in Ht1. destruct (p_k p); simpl in Hp; discriminate.
    - eexists. split.
      + erewrite bar_intro; simpl; eauto. rewrite nth_error_upd_neq by auto. eauto.
      + erewrite thr_intro; simpl; cycle 1.
        * rewrite nth_error_upd_neq by auto. eauto.
        * eauto.
        * eauto.
        * simpl. rewrite (upd_comm b c) by auto. reflexivity.
  Qed.

  Lemma diamond_bar_bar s b c sa sb : b <> c ->
    step (LBar b) s = Some sa -> step (LBar c) s = Some sb ->
    exists sc, step (LBar c) sa = Some sc /\ step (LBar b) sb = Some sc.
  Proof.
    intros Hbc Ha Hb.
    apply bar_inv in Ha as [B [HB [HltB [HnilB ->]]]].
    apply bar_inv in Hb as [C [HC [Hlt [Hnil ->]]]].
    eexists. split.
    - erewrite bar_intro; simpl; eauto. rewrite nth_error_upd_neq by auto. eauto.
    - erewrite bar_intro; simpl; cycle 1.
      + rewrite nth_error_upd_neq by auto. eauto.
      + auto.
      + auto.
      + simpl. rewrite (upd_comm b c) by auto. reflexivity.
  Qed.

  Theorem diamond t u s a b : Inv s -> t <> u -> step t s = Some a -> step u s = Some b ->
    exists c, step u a = Some c /\ step t b = Some c.
  Proof.
    intros HI Hne Ha Hb. destruct t as [b1 i1|b1], u as [b2 i2|b2].
    - eapply diamond_thr_thr; eauto; congruence.
    - eapply diamond_thr_bar; eauto.
    - destruct (diamond_thr_bar s b2 i2 b1 b a HI Hb Ha) as [c [H1 H2]]. exists c. auto.
    - eapply diamond_bar_bar; eauto; congruence.
  Qed.

  (* ---------------------------------------------------------------- finished states are terminal *)

  Lemma finished_terminal s : Inv s -> finished secs s = true -> forall l, step l s = None.
  Proof.
    intros HI Hf l. unfold finished in Hf. rewrite forallb_forall in Hf.
    destruct (step l s) eqn:Hs; auto. exfalso. destruct l as [b i|b].
    - apply thr_inv in Hs as [B [p [p' [act [HB [Hp [Ht _]]]]]]].
      destruct (HI b B HB) as [_ [_ [H3 _]]].
      assert (Hph : k_phase B = length secs) by (apply Nat.eqb_eq, Hf; eapply nth_error_In; eauto).
      unfold tstep in Ht. rewrite (H3 Hph i p Hp) in Ht. discriminate.
    - apply bar_inv in Hs as [B [HB [Hlt _]]].
      assert (Hph : k_phase B = length secs) by (apply Nat.eqb_eq, Hf; eapply nth_error_In; eauto). lia.
  Qed.
End Block.
