(* C20/Util.v — lists as memories: positional update, reads with a default, commutation of
   updates at different positions.  Shared by C20 and C21. *)
From Coq Require Import List ZArith Lia Bool Arith.
Import ListNotations.
Open Scope Z_scope.

Fixpoint upd {A} (n : nat) (v : A) (l : list A) : list A :=
  match l, n with
  | [], _ => []
  | _ :: r, O => v :: r
  | x :: r, S k => x :: upd k v r
  end.

Lemma upd_length {A} n (v : A) l : length (upd n v l) = length l.
Proof. revert n; induction l; destruct n; simpl; auto. Qed.

Lemma nth_upd_eq {A} n (v d : A) l : (n < length l)%nat -> nth n (upd n v l) d = v.
Proof. revert n; induction l; destruct n; simpl; intros; try lia; auto. apply IHl; lia. Qed.

Lemma nth_upd_neq {A} n m (v d : A) l : n <> m -> nth m (upd n v l) d = nth m l d.
Proof.
  revert n m; induction l; destruct n, m; simpl; intros; try congruence; auto.
Qed.

Lemma upd_comm {A} n m (v w : A) l : n <> m -> upd n v (upd m w l) = upd m w (upd n v l).
Proof.
  revert n m; induction l; destruct n, m; simpl; intros; try congruence; auto.
  f_equal. apply IHl. congruence.
Qed.

Lemma upd_oob {A} n (v : A) l : (length l <= n)%nat -> upd n v l = l.
Proof. revert n; induction l; destruct n; simpl; intros; try lia; auto. f_equal. apply IHl. lia. Qed.

Lemma upd_upd {A} n (v w : A) l : upd n v (upd n w l) = upd n v l.
Proof. revert n; induction l; destruct n; simpl; intros; auto. f_equal. apply IHl. Qed.

Lemma upd_nth_same {A} n (d : A) l : upd n (nth n l d) l = l.
Proof. revert n; induction l; destruct n; simpl; intros; auto. f_equal. apply IHl. Qed.

(* one array: cells addressed by Z; negative and too large indices read 0 and are not written *)
Definition rd (l : list Z) (i : Z) : Z := if i <? 0 then 0 else nth (Z.to_nat i) l 0.
Definition wr (l : list Z) (i : Z) (v : Z) : list Z := if i <? 0 then l else upd (Z.to_nat i) v l.

Lemma wr_length l i v : length (wr l i v) = length l.
Proof. unfold wr. destruct (i <? 0); auto using upd_length. Qed.

Lemma rd_wr_neq l i j v : i <> j -> rd (wr l i v) j = rd l j.
Proof.
  unfold rd, wr; intros. destruct (j <? 0) eqn:Hj; auto. destruct (i <? 0) eqn:Hi; auto.
  apply nth_upd_neq. apply Z.ltb_ge in Hi, Hj. lia.
Qed.

Lemma wr_comm l i j v w : i <> j -> wr (wr l j w) i v = wr (wr l i v) j w.
Proof.
  unfold wr; intros. destruct (i <? 0) eqn:Hi, (j <? 0) eqn:Hj; auto.
  apply upd_comm. apply Z.ltb_ge in Hi, Hj. lia.
Qed.

(* a memory = a list of arrays *)
Definition mem := list (list Z).
Definition rd2 (M : mem) (a : nat) (i : Z) : Z := rd (nth a M []) i.
Definition wr2 (M : mem) (a : nat) (i : Z) (v : Z) : mem := upd a (wr (nth a M []) i v) M.

Lemma wr2_length M a i v : length (wr2 M a i v) = length M.
Proof. apply upd_length. Qed.

Lemma nth_wr2_neq M a b i v : a <> b -> nth b (wr2 M a i v) [] = nth b M [].
Proof. intros; unfold wr2. apply nth_upd_neq; auto. Qed.

Lemma nth_wr2_eq M a i v : nth a (wr2 M a i v) [] = wr (nth a M []) i v.
Proof.
  unfold wr2. destruct (Nat.lt_ge_cases a (length M)).
  - apply nth_upd_eq; auto.
  - rewrite upd_oob by lia. rewrite (nth_overflow M) by lia. unfold wr. destruct (i <? 0); auto.
    destruct (Z.to_nat i); reflexivity.
Qed.

Lemma rd2_wr2_other M a b i j v : (a <> b \/ i <> j) -> rd2 (wr2 M a i v) b j = rd2 M b j.
Proof.
  intros H. unfold rd2. destruct (Nat.eq_dec a b) as [->|Hab].
  - rewrite nth_wr2_eq. apply rd_wr_neq. destruct H; congruence.
  - rewrite nth_wr2_neq; auto.
Qed.

Lemma wr2_comm M a b i j v w : (a <> b \/ i <> j) ->
  wr2 (wr2 M b j w) a i v = wr2 (wr2 M a i v) b j w.
Proof.
  intros H. unfold wr2 at 1 3. destruct (Nat.eq_dec a b) as [->|Hab].
  - rewrite !nth_wr2_eq. unfold wr2. rewrite !upd_upd. f_equal. apply wr_comm. destruct H; congruence.
  - rewrite !nth_wr2_neq by congruence. unfold wr2. apply upd_comm; auto.
Qed.

(* read-modify-write of one cell *)
Definition add2 (f : Z -> Z -> Z) (M : mem) (a : nat) (i v : Z) : mem := wr2 M a i (f (rd2 M a i) v).

(* in-bounds cells *)
Definition inb (M : mem) (a : nat) (i : Z) : bool :=
  (a <? length M)%nat && (0 <=? i) && (Z.to_nat i <? length (nth a M []))%nat.

Lemma wr2_oob M a i v : inb M a i = false -> wr2 M a i v = M.
Proof.
  unfold inb, wr2. intros H.
  destruct (a <? length M)%nat eqn:Ha; simpl in H.
  - destruct (0 <=? i) eqn:Hi; simpl in H.
    + apply Nat.ltb_ge in H. unfold wr. apply Z.leb_le in Hi.
      destruct (i <? 0) eqn:Hn; [apply Z.ltb_lt in Hn; lia|].
      rewrite (upd_oob (Z.to_nat i)) by lia. apply upd_nth_same.
    + unfold wr. apply Z.leb_gt in Hi. destruct (i <? 0) eqn:Hn; [|apply Z.ltb_ge in Hn; lia].
      apply upd_nth_same.
  - apply Nat.ltb_ge in Ha. apply upd_oob. lia.
Qed.

Lemma rd2_wr2_same M a i v : inb M a i = true -> rd2 (wr2 M a i v) a i = v.
Proof.
  unfold inb. intros H. apply andb_true_iff in H as [H H3]. apply andb_true_iff in H as [H1 H2].
  apply Nat.ltb_lt in H1, H3. apply Z.leb_le in H2.
  unfold rd2. rewrite nth_wr2_eq. unfold rd, wr.
  destruct (i <? 0) eqn:Hn; [apply Z.ltb_lt in Hn; lia|]. apply nth_upd_eq; auto.
Qed.

Lemma wr2_wr2_same M a i v w : wr2 (wr2 M a i v) a i w = wr2 M a i w.
Proof.
  unfold wr2 at 1. rewrite nth_wr2_eq. unfold wr2. rewrite upd_upd. f_equal.
  unfold wr. destruct (i <? 0); auto. apply upd_upd.
Qed.

Lemma add2_wr2_comm f M a b i j v w : (a <> b \/ i <> j) ->
  add2 f (wr2 M a i v) b j w = wr2 (add2 f M b j w) a i v.
Proof.
  intros H. unfold add2. rewrite rd2_wr2_other by auto. apply wr2_comm. destruct H; auto.
Qed.

Lemma add2_comm f M a b i j v w : (forall x, f (f x v) w = f (f x w) v) ->
  add2 f (add2 f M a i v) b j w = add2 f (add2 f M b j w) a i v.
Proof.
  intros Hf. destruct (Nat.eq_dec a b) as [->|Hab]; [destruct (Z.eq_dec i j) as [->|Hij]|].
  - destruct (inb M b j) eqn:Hin.
    + unfold add2. rewrite !rd2_wr2_same by auto. rewrite !wr2_wr2_same. rewrite Hf. auto.
    + unfold add2. rewrite (wr2_oob M b j (f (rd2 M b j) v)) by auto.
      rewrite (wr2_oob M b j (f (rd2 M b j) w)) by auto. rewrite !wr2_oob by auto. auto.
  - unfold add2. rewrite (rd2_wr2_other M b b i j) by (right; congruence).
    rewrite (rd2_wr2_other M b b j i) by (right; congruence). apply wr2_comm. right; congruence.
  - unfold add2. rewrite (rd2_wr2_other M a b i j) by (left; congruence).
    rewrite (rd2_wr2_other M b a j i) by (left; congruence). apply wr2_comm. left; congruence.
Qed.
