(* C20/Model.v — (1) the launch model of the GPU back ends (CUDA, HIP, OpenCL, Metal, DPC++ translations of
   withLauncher.cpp: one kernel per outer-most @outer loop, @outer tuples = blocks, @inner tuples = threads,
   inner loops replaced by their bodies, a barrier between consecutive inner loops, @shared = one array per
   block, @exclusive and locals = per thread) as a labelled transition system: any thread of any block may take
   its next statement-level step; a block passes a barrier when all its threads have arrived;
   (2) the syntactic independence condition of the generator; (3) serial.cpp's @exclusive scheme
   (setupExclusiveIndices / defineExclusiveVariableAsArray).  No proofs here. *)
From Coq Require Import List ZArith Bool Arith.
From OV.C20 Require Import Util Lang Spec.
Import ListNotations.
Open Scope Z_scope.

(* ------------------------------------------------------------------ (1) launch model *)

Record blk := { k_phase : nat; k_sh : mem; k_thr : list priv }.
Record gst := { s_G : mem; s_blks : list blk }.

Inductive label := LThr (b i : nat) | LBar (b : nat).

Definition label_dec (a b : label) : {a = b} + {a <> b}.
Proof. decide equality; apply Nat.eq_dec. Defined.

Definition is_nil {A} (l : list A) : bool := match l with [] => true | _ => false end.

Definition sec_entry (secs : list section) (q : nat) : list item :=
  match nth_error secs q with Some s => [IS (sec_body s)] | None => [] end.

Definition enter (secs : list section) (q : nat) (p : priv) : priv :=
  {| p_ex := p_ex p; p_lo := zero_store; p_k := sec_entry secs q |}.

Definition gstep (split : bool) (E : senv) (secs : list section) (l : label) (s : gst) : option gst :=
  match l with
  | LThr b i =>
    match nth_error (s_blks s) b with
    | Some B =>
      match nth_error (k_thr B) i with
      | Some p =>
        match tstep split E b i (s_G s) (k_sh B) p with
        | Some (p', act) =>
          Some {| s_G := apply_G act (s_G s);
                  s_blks := upd b {| k_phase := k_phase B; k_sh := apply_S act (k_sh B);
                                     k_thr := upd i p' (k_thr B) |} (s_blks s) |}
        | None => None
        end
      | None => None
      end
    | None => None
    end
  | LBar b =>
    match nth_error (s_blks s) b with
    | Some B =>
      if (k_phase B <? length secs)%nat && forallb (fun p => is_nil (p_k p)) (k_thr B)
      then Some {| s_G := s_G s;
                   s_blks := upd b {| k_phase := S (k_phase B); k_sh := k_sh B;
                                      k_thr := map (enter secs (S (k_phase B))) (k_thr B) |} (s_blks s) |}
      else None
    | None => None
    end
  end.

Definition init_thread (u : Z) (secs : list section) : priv :=
  {| p_ex := const_store u; p_lo := zero_store; p_k := sec_entry secs 0 |}.

Definition init_blk (E : senv) (u : Z) (ob : oblock) : blk :=
  {| k_phase := 0; k_sh := init_shared u ob; k_thr := repeat (init_thread u (ob_secs ob)) (e_mi E) |}.

Definition init_gst (E : senv) (u : Z) (ob : oblock) (no : nat) (G : mem) : gst :=
  {| s_G := G; s_blks := repeat (init_blk E u ob) no |}.

Fixpoint gruns (split : bool) (E : senv) (secs : list section) (sched : list label) (s : gst) : option gst :=
  match sched with
  | [] => Some s
  | l :: r => match gstep split E secs l s with Some s' => gruns split E secs r s' | None => None end
  end.

Definition finished (secs : list section) (s : gst) : bool :=
  forallb (fun B => Nat.eqb (k_phase B) (length secs)) (s_blks s).

(* launch of one outer block under a schedule: None when the schedule names a step that is not
   enabled or stops before every block has finished *)
Definition launch_oblock (split : bool) (v : env) (ob : oblock) (sched : list label) (G : mem) : option mem :=
  let E := mk_senv (v_args v) ob in
  match gruns split E (ob_secs ob) sched (init_gst E (v_uninit v) ob (extents (v_args v) (ob_odims ob)) G) with
  | Some s => if finished (ob_secs ob) s then Some (s_G s) else None
  | None => None
  end.

(* the launcher runs the kernels of the outer blocks one after the other *)
Fixpoint run_launch_gen (split : bool) (scheds : list (list label)) (k : kernel) (v : env) (G : mem) : option mem :=
  match k, scheds with
  | [], [] => Some G
  | ob :: k', sc :: scheds' =>
    match launch_oblock split v ob sc G with
    | Some G' => run_launch_gen split scheds' k' v G'
    | None => None
    end
  | _, _ => None
  end.

Definition run_launch := run_launch_gen false.

(* ------------------------------------------------------------------ (2) independence, syntactically *)

Section Ok.
  Variables (kinds : list gkind) (sst : list nat) (W : list nat).

  Definition memb (x : nat) (l : list nat) : bool := existsb (Nat.eqb x) l.

  Fixpoint ok_expr (e : expr) : bool :=
    match e with
    | EConst _ | ELoc _ | EExc _ | EOut _ | EInn _ | EArg _ => true
    | EBin _ a b => ok_expr a && ok_expr b
    | EModP a _ => ok_expr a
    | ERdG a i => (match nth a kinds KNone with KIn => true | _ => false end) && ok_expr i
    | ERdOwn a d => match nth a kinds KNone with KThr st => (d <? st)%nat | _ => false end
    | ERdSh s i => negb (memb s W) && ok_expr i
    | ERdShOwn s d => (d <? nth s sst 0)%nat
    end.

  Fixpoint ok_stmt (first : bool) (s : stmt) : bool :=
    match s with
    | SSkip => true
    | SSeq a b => ok_stmt first a && ok_stmt first b
    | SLoc _ e | SExc _ e => ok_expr e
    | SWrOwn a d e => (match nth a kinds KNone with KThr st => (d <? st)%nat | _ => false end) && ok_expr e
    | SWrBlk a d e => first && (match nth a kinds KNone with KBlk st => (d <? st)%nat | _ => false end) && ok_expr e
    | SWrSh s d e => memb s W && (d <? nth s sst 0)%nat && ok_expr e
    | SAtom a i e => (match nth a kinds KNone with KAtom => true | _ => false end) && ok_expr i && ok_expr e
    | SIf c a b => ok_expr c && ok_stmt first a && ok_stmt first b
    | SFirst s => ok_stmt true s
    | SFor _ _ s => ok_stmt first s
    end.
End Ok.

Definition independent_ob (ob : oblock) : bool :=
  forallb (fun sec => ok_stmt (ob_kinds ob) (map fst (ob_shared ob)) (sec_wr sec) false (sec_body sec)) (ob_secs ob).

Definition independent (k : kernel) : bool := forallb independent_ob k.

(* ------------------------------------------------------------------ (3) serial.cpp's @exclusive scheme *)

(* defineExclusiveVariableAsArray: the array gets the product of the inner extents when all are
   compile-time constants, else the product of @max_inner_dims when given, else `dflt` (1024 in the code) *)
Fixpoint known_dims (l : list bound) : option Z :=
  match l with
  | [] => Some 1
  | BConst z :: r => match known_dims r with Some p => Some (z * p) | None => None end
  | BArg _ :: _ => None
  end.

Definition excl_array_size (dflt : Z) (idims : list bound) (max_inner : option (list Z)) : Z :=
  match known_dims idims with
  | Some p => p
  | None => match max_inner with Some l => fold_left Z.mul l 1 | None => dflt end
  end.

(* setupExclusiveIndices: `_occa_exclusive_index = 0;` before the outer-most inner loop, `++_occa_exclusive_index;`
   as the last statement of the inner-most inner loop.  excl_trace lists the value of the index that each
   inner iteration (in loop order) uses for its accesses; the counter is the state threaded through. *)
Fixpoint excl_nest (dims : list nat) (cnt : nat) : list nat * nat :=
  match dims with
  | [] => ([cnt], S cnt)                       (* inner-most body: uses cnt, then ++cnt *)
  | d :: r =>
    (fix iter (k : nat) (cnt : nat) : list nat * nat :=
       match k with
       | O => ([], cnt)
       | S k' => let '(u1, c1) := excl_nest r cnt in
                 let '(u2, c2) := iter k' c1 in (u1 ++ u2, c2)
       end) d cnt
  end.

Definition excl_trace (dims : list nat) : list nat := fst (excl_nest dims 0).

(* the variant seeded in DESIGN 9.1: increment in the OUTER-most inner loop *)
Fixpoint excl_nest_bad (dims : list nat) (cnt : nat) (top : bool) : list nat * nat :=
  match dims with
  | [] => ([cnt], cnt)
  | d :: r =>
    (fix iter (k : nat) (cnt : nat) : list nat * nat :=
       match k with
       | O => ([], cnt)
       | S k' => let '(u1, c1) := excl_nest_bad r cnt false in
                 let c1' := if top then S c1 else c1 in
                 let '(u2, c2) := iter k' c1' in (u1 ++ u2, c2)
       end) d cnt
  end.

(* the scheme with an explicit "increment at the end of this loop's body" flag per nesting level (the code sets it
   for the inner-most inner loop only); used to show what a second increment in a middle loop does *)
Fixpoint excl_nest_inc (dims : list (nat * bool)) (cnt : nat) : list nat * nat :=
  match dims with
  | [] => ([cnt], cnt)
  | (d, inc) :: r =>
    (fix iter (k : nat) (cnt : nat) : list nat * nat :=
       match k with
       | O => ([], cnt)
       | S k' => let '(u1, c1) := excl_nest_inc r cnt in
                 let c1' := if inc then S c1 else c1 in
                 let '(u2, c2) := iter k' c1' in (u1 ++ u2, c2)
       end) d cnt
  end.
