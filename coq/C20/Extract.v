(* Extraction of the executable model and specification (ExtrOcamlBasic only; nat and Z stay the extracted
   inductives).  coqc is run from /verif/coq, so the path is relative to that directory. *)
From Coq Require Import Extraction ExtrOcamlBasic.
From OV.C20 Require Import Util Lang Spec Model.
Extraction Language OCaml.
Extraction "../_work/extract/C20/model.ml"
  run_seq in_bounds independent gstep init_gst finished mk_senv extents launch_oblock run_launch
  excl_array_size excl_trace.
