(* C20/Examples.v — the concrete kernels used by the Examples of Properties_C20.v and Properties_C21.v. *)
From Coq Require Import List ZArith Bool Arith.
From OV.C20 Require Import Util Lang Spec Model.
Import ListNotations.
Open Scope nat_scope.

(* first enabled label of a priority list, repeatedly *)
Fixpoint auto_sched (fuel : nat) (E : senv) (secs : list section) (prio : list label) (s : gst) : list label :=
  match fuel with
  | O => []
  | S f =>
    match find (fun l => match gstep false E secs l s with Some _ => true | None => false end) prio with
    | Some l => match gstep false E secs l s with
                | Some s' => l :: auto_sched f E secs prio s'
                | None => []
                end
    | None => []
    end
  end.

Definition ex_ob : oblock :=
  {| ob_odims := [BConst 2]; ob_idims := [BArg 0];
     ob_kinds := [KIn; KThr 1; KAtom]; ob_shared := [(1, 4)];
     ob_secs := [
       {| sec_wr := [0];
          sec_body := SSeq (SExc 0 (EBin OAdd (ERdG 0 (EModP (EBin OAdd (EBin OMul (EOut 0) (EConst 3)) (EInn 0)) 6)) (EConst 1)))
                           (SWrSh 0 0 (EBin OMul (EExc 0) (EConst 2))) |};
       {| sec_wr := [];
          sec_body := SSeq (SLoc 0 (ERdSh 0 (EModP (EBin OAdd (EInn 0) (EConst 1)) 3)))
                     (SSeq (SWrOwn 1 0 (EBin OAdd (ELoc 0) (EExc 0)))
                           (SAtom 2 (EConst 0) (EExc 0))) |} ] |}.
Definition ex_env : env := {| v_args := [3%Z]; v_uninit := 0%Z |}.
Definition ex_G : mem := [[1; 2; 3; 4; 5; 6]; [0; 0; 0; 0; 0; 0]; [0]]%Z.
Definition ex_E := mk_senv (v_args ex_env) ex_ob.
(* threads in reverse order, block 1 before block 0 *)
Definition ex_prio : list label := [LThr 1 2; LThr 1 1; LThr 1 0; LBar 1; LThr 0 2; LThr 0 1; LThr 0 0; LBar 0].
Definition ex_sched := auto_sched 200 ex_E (ob_secs ex_ob) ex_prio (init_gst ex_E 0 ex_ob 2 ex_G).

