(* C20 — translated kernels compute what the OKL kernel means: the launch model of the GPU back ends and
   serial.cpp's @exclusive scheme against the sequential reading of the mini-OKL (Lang.v / Spec.v / Model.v). *)
From Coq Require Import List ZArith Bool Arith.
From OV.C20 Require Import Util Confluence Lang Spec Model Frame Diamond SeqRun Proofs Examples.
Import ListNotations.

(* launch_eq_seq.  For every kernel that passes the syntactic independence check, every argument list, every
   initial memory and EVERY complete schedule of the launch model (one schedule per outer block = per launched
   kernel; a schedule is any sequence of enabled steps "thread i of block b executes its next statement" /
   "block b passes its barrier" that ends with all blocks finished), the final global memory is the one of the
   sequential reading.  (DESIGN.md states it with an extra hypothesis in_bounds k env; it is not needed: memories
   are total here, out-of-range accesses read 0 / write nothing in both readings.  Spec.in_bounds is the executable
   check the tie uses to keep generated kernels inside their arrays.) *)
Theorem launch_eq_seq : forall (k : kernel) (v : env) (scheds : list (list label)) (G G' : mem),
  independent k = true -> run_launch scheds k v G = Some G' -> G' = run_seq k v G.
Proof. exact Proofs.launch_eq_seq. Qed.
Print Assumptions launch_eq_seq.

(* complete schedules exist (the statement above is not vacuous): the block-by-block, section-by-section,
   thread-by-thread schedule is complete and computes run_seq — for every kernel, independent or not *)
Theorem launch_complete_exists : forall (k : kernel) (v : env) (G : mem),
  exists scheds, run_launch scheds k v G = Some (run_seq k v G).
Proof. exact Proofs.launch_complete_exists. Qed.
Print Assumptions launch_complete_exists.

(* independent_commutes (proved, not assumed).  On every state reachable in the launch of an outer block that
   passes the check (Inv is preserved by every step and holds initially), two different enabled steps commute:
   taking them in either order is possible and leads to the same state. *)
Theorem independent_commutes : forall (v : env) (ob : oblock) (s a b : gst) (t u : label),
  independent_ob ob = true ->
  Inv (mk_senv (v_args v) ob) (ob_secs ob) s -> t <> u ->
  gstep false (mk_senv (v_args v) ob) (ob_secs ob) t s = Some a ->
  gstep false (mk_senv (v_args v) ob) (ob_secs ob) u s = Some b ->
  exists c, gstep false (mk_senv (v_args v) ob) (ob_secs ob) u a = Some c /\
            gstep false (mk_senv (v_args v) ob) (ob_secs ob) t b = Some c.
Proof.
  intros v ob s a b t u Hind HI Hne Ha Hb.
  eapply diamond; eauto using independent_ob_okS.
Qed.
Print Assumptions independent_commutes.

Theorem independent_invariant : forall (v : env) (ob : oblock) (no : nat) (G : mem) (l : label) (s s' : gst),
  independent_ob ob = true ->
  Inv (mk_senv (v_args v) ob) (ob_secs ob) (init_gst (mk_senv (v_args v) ob) (v_uninit v) ob no G) /\
  (Inv (mk_senv (v_args v) ob) (ob_secs ob) s ->
   gstep false (mk_senv (v_args v) ob) (ob_secs ob) l s = Some s' -> Inv (mk_senv (v_args v) ob) (ob_secs ob) s').
Proof.
  intros v ob no G l s s' Hind. split.
  - apply init_Inv. apply independent_ob_okS; auto.
  - intros. eapply Inv_step; eauto using independent_ob_okS.
Qed.
Print Assumptions independent_invariant.

(* the statement machine of one thread agrees with the big-step reading of its inner-loop body *)
Theorem thread_machine_is_exec : forall (E : senv) (lo li : nat) (s : stmt) (st : bst) (k : list item),
  exists m, titer E lo li m (cfg_of st (IS s :: k)) = Some (cfg_of (exec E lo li s st) k).
Proof. intros. apply exec_steps. Qed.
Print Assumptions thread_machine_is_exec.

(* serial_exclusive_array_ok.  serial.cpp's scheme (index reset before the outer-most inner loop, incremented at the
   end of the inner-most inner loop) makes the inner iterations, in loop order, use the indices 0, 1, ..., P-1
   (P = product of the inner extents): pairwise distinct cells; all inside an array of `size` cells iff P <= size. *)
Theorem serial_exclusive_array_ok : forall (dims : list nat) (size : nat),
  excl_trace dims = seq 0 (prodn dims) /\
  NoDup (excl_trace dims) /\
  (Forall (fun i => i < size) (excl_trace dims) <-> prodn dims <= size).
Proof.
  intros. split; [apply excl_trace_spec|]. split; [rewrite excl_trace_spec; apply seq_NoDup|apply excl_in_bounds_iff].
Qed.
Print Assumptions serial_exclusive_array_ok.

(* when every inner extent is a literal, the array defineExclusiveVariableAsArray declares is exactly that long *)
Theorem serial_exclusive_const_dims_ok : forall (dflt : Z) (args : list Z) (idims : list bound) (maxd : option (list Z)),
  (forall z, In (BConst z) idims -> (0 <= z)%Z) -> known_dims idims <> None ->
  excl_trace (map (extent args) idims) = seq 0 (Z.to_nat (excl_array_size dflt idims maxd)).
Proof. exact Proofs.excl_const_dims_ok. Qed.
Print Assumptions serial_exclusive_const_dims_ok.

(* KNOWN FINDING excl_runtime_inner_gt_1024: with a run-time inner extent and no @max_inner_dims the array has
   1024 cells, and 1025 inner iterations use index 1024 *)
Theorem serial_exclusive_runtime_dims_refuted :
  exists (args : list Z), excl_array_size 1024 [BArg 0] None = 1024%Z /\
    In 1024 (excl_trace (map (extent args) [BArg 0])).
Proof. exists [1025%Z]. split; [reflexivity|]. rewrite excl_trace_spec. apply in_seq. vm_compute. split; auto with arith. Qed.

(* the seeded variant (increment in the outer-most inner loop) reuses cells in a 2-D inner nest *)
Example excl_increment_in_outer_inner_loop_collides :
  fst (excl_nest_bad [2; 2] 0 true) = [0; 0; 1; 1] /\ excl_trace [2; 2] = [0; 1; 2; 3].
Proof. vm_compute. auto. Qed.

(* three nested inner loops 2 x 3 x 4: the code's scheme (increment in the inner-most loop only) uses 0..23; a second
   increment at the end of the middle loop (seeded/C20-a) reaches index 28 in arrays of 24 cells *)
Example excl_three_deep :
  excl_trace [2; 3; 4] = seq 0 24 /\
  fst (excl_nest_inc [(2, false); (3, false); (4, true)] 0) = excl_trace [2; 3; 4] /\
  list_max (fst (excl_nest_inc [(2, false); (3, true); (4, true)] 0)) = 28.
Proof. vm_compute. auto. Qed.

(* components of a linear index over three nested loops with extents 2, 3, 4: 17 = (1*3 + 1)*4 + 1 *)
Example comp_three_deep : map (fun k => comp [2; 3; 4]%Z k 17%Z) [0; 1; 2] = [1; 1; 1]%Z /\
                          map (fun k => comp [2; 3; 4]%Z k 23%Z) [0; 1; 2] = [1; 2; 3]%Z.
Proof. vm_compute. auto. Qed.

(* ------------------------------------------------------------------ non-vacuity on concrete kernels *)

Example ex_independent : independent [ex_ob] = true.
Proof. vm_compute. reflexivity. Qed.

Example ex_seq_value : run_seq [ex_ob] ex_env ex_G = [[1; 2; 3; 4; 5; 6]; [8; 11; 8; 17; 20; 17]; [27]]%Z.
Proof. vm_compute. reflexivity. Qed.

Example ex_launch_reversed_schedule :
  hd_error ex_sched = Some (LThr 1 2) /\ run_launch [ex_sched] [ex_ob] ex_env ex_G = Some (run_seq [ex_ob] ex_env ex_G).
Proof. vm_compute. auto. Qed.

(* without independence the readings differ: every thread reads its neighbour's @shared cell in the inner loop
   that writes it *)
Definition dep_ob : oblock :=
  {| ob_odims := [BConst 1]; ob_idims := [BConst 3];
     ob_kinds := [KIn; KThr 1]; ob_shared := [(1, 3)];
     ob_secs := [ {| sec_wr := [0];
                     sec_body := SSeq (SWrSh 0 0 (EBin OAdd (EInn 0) (EConst 10)))
                                      (SWrOwn 1 0 (ERdSh 0 (EModP (EBin OAdd (EInn 0) (EConst 1)) 3))) |} ] |}.
Definition dep_env : env := {| v_args := []; v_uninit := 0%Z |}.
Definition dep_G : mem := [[0]; [0; 0; 0]]%Z.
Definition dep_E := mk_senv [] dep_ob.
Definition dep_sched := auto_sched 100 dep_E (ob_secs dep_ob) [LThr 0 2; LThr 0 1; LThr 0 0; LBar 0] (init_gst dep_E 0 dep_ob 1 dep_G).

Example independence_is_needed :
  independent [dep_ob] = false /\
  exists G', run_launch [dep_sched] [dep_ob] dep_env dep_G = Some G' /\ G' <> run_seq [dep_ob] dep_env dep_G.
Proof. split; [vm_compute; reflexivity|]. eexists. split; [vm_compute; reflexivity|]. vm_compute. discriminate. Qed.

(* the OpenCL/Metal finding at model level: when `@atomic x += v` is emitted as a plain `x += v` (a load step and a
   store step, split = true), a schedule loses an update *)
Definition at_ob : oblock :=
  {| ob_odims := [BConst 1]; ob_idims := [BConst 2]; ob_kinds := [KAtom]; ob_shared := [];
     ob_secs := [ {| sec_wr := []; sec_body := SAtom 0 (EConst 0) (EConst 5) |} ] |}.
Definition at_E := mk_senv [] at_ob.

Example plain_update_is_lost :
  run_seq [at_ob] dep_env [[0]]%Z = [[10]]%Z /\
  run_launch_gen true [[LThr 0 0; LThr 0 1; LThr 0 0; LThr 0 1; LBar 0]] [at_ob] dep_env [[0]]%Z = Some [[5]]%Z.
Proof. vm_compute. auto. Qed.
