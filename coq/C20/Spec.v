(* C20/Spec.v — kernels of the mini-OKL and their sequential reading (run_seq): outer tuples in loop
   order; inside one outer tuple the inner loops ("sections") one after the other, each over the inner
   tuples in loop order.  @shared arrays and @exclusive variables are declared inside the outer body:
   fresh (value `uninit`) for every outer tuple; an @exclusive variable has one value per inner tuple.
   Locals of an inner body are declared and zero-initialised at the top of that body. *)
From Coq Require Import List ZArith Bool Arith.
From OV.C20 Require Import Util Lang.
Import ListNotations.
Open Scope Z_scope.

Record section := { sec_wr : list nat;      (* the @shared arrays this inner loop writes *)
                    sec_body : stmt }.

Record oblock := {
  ob_odims : list bound;            (* extents of the nested @outer loops (1 to 3) *)
  ob_idims : list bound;            (* extents of the nested @inner loops (1 to 3), the same for every section *)
  ob_kinds : list gkind;            (* how this outer block uses each global array *)
  ob_shared : list (nat * nat);     (* (stride, size) of each @shared array *)
  ob_secs : list section
}.

Definition kernel := list oblock.

Record env := { v_args : list Z; v_uninit : Z }.

Definition extent (args : list Z) (b : bound) : nat :=
  Z.to_nat (match b with BConst z => z | BArg n => nth n args 0 end).
Definition extents (args : list Z) (l : list bound) : nat := fold_left Nat.mul (map (extent args) l) 1%nat.
Definition mk_senv (args : list Z) (ob : oblock) : senv :=
  {| e_args := args;
     e_od := map (fun b => Z.of_nat (extent args b)) (ob_odims ob);
     e_id := map (fun b => Z.of_nat (extent args b)) (ob_idims ob);
     e_mi := extents args (ob_idims ob);
     e_kinds := ob_kinds ob;
     e_sst := map fst (ob_shared ob) |}.

Definition zero_store : store := fun _ => 0.
Definition const_store (u : Z) : store := fun _ => u.
Definition init_shared (u : Z) (ob : oblock) : mem := map (fun ss => repeat u (snd ss)) (ob_shared ob).

(* one inner tuple of one section *)
Definition seq_thread (E : senv) (lo : nat) (body : stmt) (acc : mem * mem * list store) (li : nat)
  : mem * mem * list store :=
  let '(G, Sh, exs) := acc in
  let st := exec E lo li body {| b_G := G; b_S := Sh; b_ex := nth li exs zero_store; b_lo := zero_store; b_ok := true |} in
  (b_G st, b_S st, upd li (b_ex st) exs).

Definition seq_section (E : senv) (lo : nat) (acc : mem * mem * list store) (sec : section) :=
  fold_left (seq_thread E lo (sec_body sec)) (seq 0 (e_mi E)) acc.

Definition seq_block (E : senv) (u : Z) (ob : oblock) (G : mem) (lo : nat) : mem :=
  let '(G', _, _) := fold_left (seq_section E lo) (ob_secs ob)
                               (G, init_shared u ob, repeat (const_store u) (e_mi E)) in G'.

Definition seq_oblock (v : env) (G : mem) (ob : oblock) : mem :=
  let E := mk_senv (v_args v) ob in
  fold_left (seq_block E (v_uninit v) ob) (seq 0 (extents (v_args v) (ob_odims ob))) G.

Definition run_seq (k : kernel) (v : env) (G : mem) : mem := fold_left (seq_oblock v) k G.

(* ------------------------------------------------------------------ in_bounds: the same traversal, keeping only
   "did every array access of the sequential reading stay inside its array" *)
Definition chk_thread (E : senv) (lo : nat) (body : stmt) (acc : mem * mem * list store * bool) (li : nat) :=
  let '(G, Sh, exs, ok) := acc in
  let st := exec E lo li body {| b_G := G; b_S := Sh; b_ex := nth li exs zero_store; b_lo := zero_store; b_ok := ok |} in
  (b_G st, b_S st, upd li (b_ex st) exs, b_ok st).

Definition chk_section (E : senv) (lo : nat) (acc : mem * mem * list store * bool) (sec : section) :=
  fold_left (chk_thread E lo (sec_body sec)) (seq 0 (e_mi E)) acc.

Definition chk_block (E : senv) (u : Z) (ob : oblock) (acc : mem * bool) (lo : nat) : mem * bool :=
  let '(G, ok) := acc in
  let '(G', _, _, ok') := fold_left (chk_section E lo) (ob_secs ob)
                               (G, init_shared u ob, repeat (const_store u) (e_mi E), ok) in (G', ok').

Definition chk_oblock (v : env) (acc : mem * bool) (ob : oblock) : mem * bool :=
  let E := mk_senv (v_args v) ob in
  fold_left (chk_block E (v_uninit v) ob) (seq 0 (extents (v_args v) (ob_odims ob))) acc.

Definition in_bounds (k : kernel) (v : env) (G : mem) : bool := snd (fold_left (chk_oblock v) k (G, true)).
