(* C20/Lang.v — the mini-OKL shared by C20 and C21: syntax, expression evaluation, the statement-level
   machine of one (outer tuple, inner tuple) "thread" (tstep, used by the launch and OpenMP models) and the
   big-step reading of a statement (exec, used by the sequential reading).  No proofs here.

   What a generated kernel looks like (tools/C20_okl.py prints exactly this):

     @kernel void k(const int p0, ..., int *g0, ...) {
       for (int o0 = 0; o0 < N0; ++o0; @outer) {  [ for (int o1 = 0; o1 < N1; ++o1; @outer) { ]
         @shared int s0[SIZE]; ...   @exclusive int x0; ...
         for (int i0 = 0; i0 < M0; ++i0; @inner) { [ for (int i1 ...; @inner) { ]      <- section 0
           int v0 = 0, v1 = 0, ...;  body_0 }
         [@barrier();]
         for (int i0 ...; @inner) { ... body_1 }                                         <- section 1
       } }
       for (...; @outer) { ... }                                                         <- next outer block
     }

   An outer tuple is identified by its row-major linear index lo (up to three nested loops: o0 = lo / (N1*N2),
   o1 = (lo mod (N1*N2)) / N2, o2 = lo mod N2), an inner tuple by li in the same way; nested loops run in increasing
   linear index.  Values are C
   ints: + - * wrap to 32 bits (the kernels are compiled with -fwrapv). *)
From Coq Require Import List ZArith Bool Arith.
From OV.C20 Require Import Util.
Import ListNotations.
Open Scope Z_scope.

Definition wrap32 (z : Z) : Z := (z + 2147483648) mod 4294967296 - 2147483648.

Inductive binop := OAdd | OSub | OMul | OLt | OLe | OEq | ONe
  | OHlp.   (* call of the kernel file's helper function  int h0(const int a, const int b) { return a * 2 + b; } *)

Definition b2z (b : bool) : Z := if b then 1 else 0.

Definition binop_eval (o : binop) (a b : Z) : Z :=
  match o with
  | OAdd => wrap32 (a + b) | OSub => wrap32 (a - b) | OMul => wrap32 (a * b)
  | OLt => b2z (a <? b) | OLe => b2z (a <=? b) | OEq => b2z (a =? b) | ONe => b2z (negb (a =? b))
  | OHlp => wrap32 (wrap32 (a * 2) + b)
  end.

(* how an oblock uses a global array *)
Inductive gkind :=
| KIn                 (* only read, at any index *)
| KThr (st : nat)     (* cell ((lo*MI + li)*st + d), d < st, belongs to thread (lo, li) *)
| KBlk (st : nat)     (* cell (lo*st + d), d < st, belongs to inner tuple 0 of outer tuple lo *)
| KAtom               (* only updated by @atomic += , never read *)
| KNone.              (* not used by this oblock *)

Inductive bound := BConst (z : Z) | BArg (n : nat).

Inductive expr :=
| EConst (z : Z)
| ELoc (x : nat)                 (* local of the inner body *)
| EExc (x : nat)                 (* @exclusive scalar *)
| EOut (k : nat)                 (* outer loop variable o_k *)
| EInn (k : nat)                 (* inner loop variable i_k *)
| EArg (n : nat)                 (* scalar kernel argument *)
| EBin (o : binop) (a b : expr)
| EModP (a : expr) (c : Z)       (* ((a % c) + c) % c  with a literal c > 0 *)
| ERdG (a : nat) (i : expr)      (* g_a[i] *)
| ERdOwn (a : nat) (d : nat)     (* g_a[((lo*MI + li)*st + d)] *)
| ERdSh (s : nat) (i : expr)     (* s_s[i] *)
| ERdShOwn (s : nat) (d : nat).  (* s_s[li*st + d] *)

Inductive stmt :=
| SSkip
| SSeq (a b : stmt)
| SLoc (x : nat) (e : expr)                (* v_x = e; *)
| SExc (x : nat) (e : expr)                (* x_x = e; *)
| SWrOwn (a : nat) (d : nat) (e : expr)    (* g_a[(lo*MI + li)*st + d] = e; *)
| SWrBlk (a : nat) (d : nat) (e : expr)    (* g_a[lo*st + d] = e; *)
| SWrSh (s : nat) (d : nat) (e : expr)     (* s_s[li*st + d] = e; *)
| SAtom (a : nat) (i : expr) (e : expr)    (* @atomic g_a[i] += e; *)
| SIf (c : expr) (a b : stmt)
| SFirst (s : stmt)                        (* if (li == 0) { s } *)
| SFor (j : nat) (b : bound) (s : stmt).   (* for (v_j = 0; v_j < b; ++v_j) { s } *)

(* what a thread needs to know besides the memories *)
Record senv := {
  e_args : list Z;        (* scalar arguments *)
  e_od : list Z;          (* extents of the nested @outer loops, outer-most first (1 to 3) *)
  e_id : list Z;          (* extents of the nested @inner loops, outer-most first (1 to 3) *)
  e_mi : nat;             (* inner tuples per outer tuple *)
  e_kinds : list gkind;
  e_sst : list nat        (* strides of the @shared arrays *)
}.

Definition kind_of (E : senv) (a : nat) : gkind := nth a (e_kinds E) KNone.
Definition gstride (E : senv) (a : nat) : nat :=
  match kind_of E a with KThr st => st | KBlk st => st | _ => 0%nat end.
Definition sstride (E : senv) (s : nat) : nat := nth s (e_sst E) 0%nat.

Definition own_idx (E : senv) (lo li a d : nat) : Z :=
  (Z.of_nat lo * Z.of_nat (e_mi E) + Z.of_nat li) * Z.of_nat (gstride E a) + Z.of_nat d.
Definition blk_idx (E : senv) (lo a d : nat) : Z := Z.of_nat lo * Z.of_nat (gstride E a) + Z.of_nat d.
Definition sh_idx (E : senv) (li s d : nat) : Z := Z.of_nat li * Z.of_nat (sstride E s) + Z.of_nat d.

Definition bound_eval (E : senv) (b : bound) : Z :=
  match b with BConst z => z | BArg n => nth n (e_args E) 0 end.

(* component k of the row-major linear index x over the extents dims:
   x = (c0*d1 + c1)*d2 + c2  gives  c0 = x / (d1*d2), c1 = (x mod (d1*d2)) / d2, c2 = x mod d2 *)
Definition prodZ (l : list Z) : Z := fold_right Z.mul 1 l.
Fixpoint comp (dims : list Z) (k : nat) (x : Z) : Z :=
  match dims, k with
  | [], _ => x
  | _ :: r, O => x / prodZ r
  | _ :: r, S k' => comp r k' (x mod prodZ r)
  end.

Definition store := nat -> Z.
Definition sset (f : store) (x : nat) (v : Z) : store := fun y => if Nat.eqb y x then v else f y.

Section Eval.
  Variables (E : senv) (lo li : nat) (G : mem) (Sh : mem) (ex lc : store).

  Fixpoint eval (e : expr) : Z :=
    match e with
    | EConst z => z
    | ELoc x => lc x
    | EExc x => ex x
    | EOut k => comp (e_od E) k (Z.of_nat lo)
    | EInn k => comp (e_id E) k (Z.of_nat li)
    | EArg n => nth n (e_args E) 0
    | EBin o a b => binop_eval o (eval a) (eval b)
    | EModP a c => (eval a) mod c
    | ERdG a i => rd2 G a (eval i)
    | ERdOwn a d => rd2 G a (own_idx E lo li a d)
    | ERdSh s i => rd2 Sh s (eval i)
    | ERdShOwn s d => rd2 Sh s (sh_idx E li s d)
    end.

  (* every array read made while evaluating e is inside its array (and % has a positive literal) *)
  Fixpoint eval_inb (e : expr) : bool :=
    match e with
    | EBin _ a b => eval_inb a && eval_inb b
    | EModP a c => eval_inb a && (0 <? c)
    | ERdG a i => eval_inb i && inb G a (eval i)
    | ERdOwn a d => inb G a (own_idx E lo li a d)
    | ERdSh s i => eval_inb i && inb Sh s (eval i)
    | ERdShOwn s d => inb Sh s (sh_idx E li s d)
    | _ => true
    end.
End Eval.

(* ---------------------------------------------------------------- the statement machine of one thread *)

Inductive item :=
| IS (s : stmt)
| ILoop (j : nat) (c n : Z) (s : stmt)        (* running plain for loop: counter c, bound n *)
| IPend (a : nat) (i v : Z).                  (* second half of a NON-atomic += (only when split = true) *)

Inductive action :=
| ANone
| AWrG (a : nat) (i v : Z)        (* plain store to a global cell *)
| AAddG (a : nat) (i v : Z)       (* atomic += on a global cell *)
| AWrS (s : nat) (i v : Z).       (* store to a @shared cell of the thread's block *)

Record priv := { p_ex : store; p_lo : store; p_k : list item }.

Definition add32 (old v : Z) : Z := wrap32 (old + v).

Definition apply_G (act : action) (G : mem) : mem :=
  match act with
  | AWrG a i v => wr2 G a i v
  | AAddG a i v => add2 add32 G a i v
  | _ => G
  end.
Definition apply_S (act : action) (Sh : mem) : mem :=
  match act with AWrS s i v => wr2 Sh s i v | _ => Sh end.

(* one step of thread (lo, li).  split = false: `@atomic x += v` is one indivisible step (what
   `#pragma omp atomic` / atomicAdd give); split = true: the translation emitted a plain `x += v`,
   i.e. a load step followed by a store step. *)
Definition tstep (split : bool) (E : senv) (lo li : nat) (G Sh : mem) (p : priv) : option (priv * action) :=
  let ev := eval E lo li G Sh (p_ex p) (p_lo p) in
  let mk ex lc k := {| p_ex := ex; p_lo := lc; p_k := k |} in
  match p_k p with
  | [] => None
  | IS s :: k =>
    Some (match s with
    | SSkip => (mk (p_ex p) (p_lo p) k, ANone)
    | SSeq a b => (mk (p_ex p) (p_lo p) (IS a :: IS b :: k), ANone)
    | SLoc x e => (mk (p_ex p) (sset (p_lo p) x (ev e)) k, ANone)
    | SExc x e => (mk (sset (p_ex p) x (ev e)) (p_lo p) k, ANone)
    | SWrOwn a d e => (mk (p_ex p) (p_lo p) k, AWrG a (own_idx E lo li a d) (ev e))
    | SWrBlk a d e => (mk (p_ex p) (p_lo p) k, AWrG a (blk_idx E lo a d) (ev e))
    | SWrSh s d e => (mk (p_ex p) (p_lo p) k, AWrS s (sh_idx E li s d) (ev e))
    | SAtom a i e =>
        if split then (mk (p_ex p) (p_lo p) (IPend a (ev i) (add32 (rd2 G a (ev i)) (ev e)) :: k), ANone)
        else (mk (p_ex p) (p_lo p) k, AAddG a (ev i) (ev e))
    | SIf c a b => (mk (p_ex p) (p_lo p) (IS (if ev c =? 0 then b else a) :: k), ANone)
    | SFirst s => (mk (p_ex p) (p_lo p) (if Nat.eqb li 0 then IS s :: k else k), ANone)
    | SFor j b s => (mk (p_ex p) (p_lo p) (ILoop j 0 (bound_eval E b) s :: k), ANone)
    end)
  | ILoop j c n s :: k =>
    Some (if c <? n
          then (mk (p_ex p) (sset (p_lo p) j c) (IS s :: ILoop j (c + 1) n s :: k), ANone)
          else (mk (p_ex p) (sset (p_lo p) j c) k, ANone))
  | IPend a i v :: k => Some (mk (p_ex p) (p_lo p) k, AWrG a i v)
  end.

(* ---------------------------------------------------------------- big-step reading of a statement *)

(* b_ok: all array accesses so far were inside their arrays (bookkeeping only: nothing depends on it) *)
Record bst := { b_G : mem; b_S : mem; b_ex : store; b_lo : store; b_ok : bool }.

Section Exec.
  Variables (E : senv) (lo li : nat).

  Definition bev (st : bst) (e : expr) : Z := eval E lo li (b_G st) (b_S st) (b_ex st) (b_lo st) e.
  Definition binb (st : bst) (e : expr) : bool := eval_inb E lo li (b_G st) (b_S st) (b_ex st) (b_lo st) e.
  Definition set_lo (st : bst) (x : nat) (v : Z) : bst :=
    {| b_G := b_G st; b_S := b_S st; b_ex := b_ex st; b_lo := sset (b_lo st) x v; b_ok := b_ok st |}.
  Definition set_ex (st : bst) (x : nat) (v : Z) : bst :=
    {| b_G := b_G st; b_S := b_S st; b_ex := sset (b_ex st) x v; b_lo := b_lo st; b_ok := b_ok st |}.
  Definition set_G (st : bst) (G : mem) : bst :=
    {| b_G := G; b_S := b_S st; b_ex := b_ex st; b_lo := b_lo st; b_ok := b_ok st |}.
  Definition set_S (st : bst) (S : mem) : bst :=
    {| b_G := b_G st; b_S := S; b_ex := b_ex st; b_lo := b_lo st; b_ok := b_ok st |}.
  Definition chk (st : bst) (b : bool) : bst :=
    {| b_G := b_G st; b_S := b_S st; b_ex := b_ex st; b_lo := b_lo st; b_ok := b_ok st && b |}.

  (* for (v_j = c; v_j < n; ++v_j) body   with k >= the number of iterations left *)
  Definition loop (body : bst -> bst) (j : nat) (n : Z) : nat -> Z -> bst -> bst :=
    fix go (k : nat) (c : Z) (st : bst) : bst :=
      match k with
      | O => set_lo st j c
      | S k' => if c <? n then go k' (c + 1) (body (set_lo st j c)) else set_lo st j c
      end.

  Fixpoint exec (s : stmt) (st : bst) : bst :=
    match s with
    | SSkip => st
    | SSeq a b => exec b (exec a st)
    | SLoc x e => set_lo (chk st (binb st e)) x (bev st e)
    | SExc x e => set_ex (chk st (binb st e)) x (bev st e)
    | SWrOwn a d e => set_G (chk st (binb st e && inb (b_G st) a (own_idx E lo li a d)))
                            (wr2 (b_G st) a (own_idx E lo li a d) (bev st e))
    | SWrBlk a d e => set_G (chk st (binb st e && inb (b_G st) a (blk_idx E lo a d)))
                            (wr2 (b_G st) a (blk_idx E lo a d) (bev st e))
    | SWrSh s d e => set_S (chk st (binb st e && inb (b_S st) s (sh_idx E li s d)))
                           (wr2 (b_S st) s (sh_idx E li s d) (bev st e))
    | SAtom a i e => set_G (chk st (binb st i && binb st e && inb (b_G st) a (bev st i)))
                           (add2 add32 (b_G st) a (bev st i) (bev st e))
    | SIf c a b => if bev st c =? 0 then exec b (chk st (binb st c)) else exec a (chk st (binb st c))
    | SFirst s => if Nat.eqb li 0 then exec s st else st
    | SFor j b s => let n := bound_eval E b in loop (exec s) j n (Z.to_nat n) 0 st
    end.
End Exec.
