(* C20/Frame.v — what one thread step may read and write when its code passes the syntactic check:
   frame lemmas for eval/tstep, the shape of the actions, and commutation of the actions of different threads. *)
From Coq Require Import List ZArith Lia Bool Arith.
From OV.C20 Require Import Util Lang Spec Model.
Import ListNotations.
Open Scope Z_scope.

(* ------------------------------------------------------------ arithmetic of the owned cells *)

Lemma lin_inj (x x' st d d' : Z) : 0 <= d < st -> 0 <= d' < st -> x * st + d = x' * st + d' -> x = x'.
Proof. intros. nia. Qed.

Lemma lin2_inj (lo lo' li li' mi : Z) : 0 <= li < mi -> 0 <= li' < mi -> lo * mi + li = lo' * mi + li' -> lo = lo' /\ li = li'.
Proof. intros. assert (lo = lo') by nia. subst. lia. Qed.

Lemma own_idx_inj E lo li lo' li' a d d' :
  (li < e_mi E)%nat -> (li' < e_mi E)%nat -> (d < gstride E a)%nat -> (d' < gstride E a)%nat ->
  own_idx E lo li a d = own_idx E lo' li' a d' -> lo = lo' /\ li = li'.
Proof.
  unfold own_idx; intros Hl Hl' Hd Hd' H.
  apply lin_inj in H; try lia.
  apply lin2_inj in H; try lia.
Qed.

Lemma blk_idx_inj E lo lo' a d d' :
  (d < gstride E a)%nat -> (d' < gstride E a)%nat -> blk_idx E lo a d = blk_idx E lo' a d' -> lo = lo'.
Proof. unfold blk_idx; intros Hd Hd' H. apply lin_inj in H; lia. Qed.

Lemma sh_idx_inj E li li' s d d' :
  (d < sstride E s)%nat -> (d' < sstride E s)%nat -> sh_idx E li s d = sh_idx E li' s d' -> li = li'.
Proof. unfold sh_idx; intros Hd Hd' H. apply lin_inj in H; lia. Qed.

(* ------------------------------------------------------------ agreement on what a thread may read *)

Definition agreeG (E : senv) (lo li : nat) (G G' : mem) : Prop :=
  (forall a, kind_of E a = KIn -> nth a G [] = nth a G' []) /\
  (forall a st d, kind_of E a = KThr st -> (d < st)%nat ->
     rd2 G a (own_idx E lo li a d) = rd2 G' a (own_idx E lo li a d)).

Definition agreeS (E : senv) (W : list nat) (li : nat) (S S' : mem) : Prop :=
  (forall s, memb s W = false -> nth s S [] = nth s S' []) /\
  (forall s d, (d < sstride E s)%nat -> rd2 S s (sh_idx E li s d) = rd2 S' s (sh_idx E li s d)).

Lemma agreeG_refl E lo li G : agreeG E lo li G G.
Proof. split; auto. Qed.
Lemma agreeS_refl E W li S : agreeS E W li S S.
Proof. split; auto. Qed.

Definition okE (E : senv) (W : list nat) := ok_expr (e_kinds E) (e_sst E) W.
Definition okS (E : senv) (W : list nat) := ok_stmt (e_kinds E) (e_sst E) W.

Lemma eval_frame E W lo li G G' S S' ex lc e :
  okE E W e = true -> agreeG E lo li G G' -> agreeS E W li S S' ->
  eval E lo li G S ex lc e = eval E lo li G' S' ex lc e.
Proof.
  intros Hok [HG1 HG2] [HS1 HS2]. induction e; simpl in *; auto.
  - apply andb_true_iff in Hok as [H1 H2]. rewrite IHe1, IHe2; auto.
  - rewrite IHe; auto.
  - apply andb_true_iff in Hok as [H1 H2]. rewrite IHe; auto. unfold rd2. rewrite (HG1 a); auto.
    unfold kind_of. destruct (nth a (e_kinds E) KNone); try discriminate; auto.
  - destruct (nth a (e_kinds E) KNone) eqn:K; try discriminate. apply (HG2 a st d); auto.
    apply Nat.ltb_lt; auto.
  - apply andb_true_iff in Hok as [H1 H2]. rewrite IHe; auto. unfold rd2. rewrite (HS1 s); auto.
    apply negb_true_iff; auto.
  - apply HS2. unfold sstride. apply Nat.ltb_lt; auto.
Qed.

(* ------------------------------------------------------------ the run-time form of the syntactic check *)

Definition ok_item (E : senv) (W : list nat) (first : bool) (it : item) : bool :=
  match it with
  | IS s => okS E W first s
  | ILoop _ _ _ s => okS E W first s
  | IPend _ _ _ => false
  end.

Definition ok_priv (E : senv) (W : list nat) (li : nat) (p : priv) : Prop :=
  forallb (ok_item E W (Nat.eqb li 0)) (p_k p) = true.

Lemma okS_mono E W s : okS E W false s = true -> forall f, okS E W f s = true.
Proof.
  unfold okS. induction s; simpl; intros H f; auto.
  - apply andb_true_iff in H as [H1 H2]. rewrite IHs1, IHs2; auto.
  - discriminate.
  - apply andb_true_iff in H as [H1 H2]. apply andb_true_iff in H1 as [H0 H1]. rewrite H0, IHs1, IHs2; auto.
Qed.

Lemma tstep_frame E W lo li G G' S S' p :
  ok_priv E W li p -> agreeG E lo li G G' -> agreeS E W li S S' ->
  tstep false E lo li G S p = tstep false E lo li G' S' p.
Proof.
  unfold ok_priv, tstep. intros Hok HG HS.
  destruct (p_k p) as [|it k]; auto. simpl in Hok. apply andb_true_iff in Hok as [Hit Hk].
  destruct it as [s|j c n s|a i v]; auto.
  destruct s; simpl in Hit; unfold okS in Hit; simpl in Hit; auto;
    repeat match goal with H : _ && _ = true |- _ => apply andb_true_iff in H as [? ?] end;
    repeat (erewrite (eval_frame E W lo li G G' S S'); [ | eassumption | eassumption | eassumption ]); auto.
Qed.

(* ------------------------------------------------------------ shape of the actions *)

Definition allowed (E : senv) (W : list nat) (lo li : nat) (act : action) : Prop :=
  match act with
  | ANone => True
  | AWrG a i _ =>
      (exists st d, kind_of E a = KThr st /\ (d < st)%nat /\ i = own_idx E lo li a d) \/
      (exists st d, kind_of E a = KBlk st /\ (d < st)%nat /\ li = 0%nat /\ i = blk_idx E lo a d)
  | AAddG a _ _ => kind_of E a = KAtom
  | AWrS s i _ => memb s W = true /\ exists d, (d < sstride E s)%nat /\ i = sh_idx E li s d
  end.

Ltac rw_true := repeat match goal with H : ?x = true |- context[?x] => rewrite H end; simpl; auto.

Lemma tstep_ok E W lo li G S p p' act :
  ok_priv E W li p -> tstep false E lo li G S p = Some (p', act) ->
  ok_priv E W li p' /\ allowed E W lo li act.
Proof.
  unfold ok_priv, tstep. intros Hok H.
  destruct (p_k p) as [|it k]; try discriminate. simpl in Hok. apply andb_true_iff in Hok as [Hit Hk].
  destruct it as [s|j c n s|a i v].
  - destruct s; inversion H; subst; clear H; simpl in *; unfold okS in *; simpl in Hit;
      repeat match goal with H : _ && _ = true |- _ => apply andb_true_iff in H as [? ?] end.
    + split; auto.
    + split; auto. rw_true. Show.
Abort.
