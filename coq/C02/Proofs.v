(* C02 — proofs, part 4: one step of the model (cfg fixed) refines the specification and keeps the
   invariant; part 5: histories; accepted requests are in range; rejected requests change nothing. *)
From Coq Require Import List ZArith Bool Lia.
From OV.C02 Require Import Base Model Spec Statements Arith Lists.
Import ListNotations.
Local Open Scope Z_scope.

(* ------------------------------------------------------------------ states *)
Lemma wfm_of_wf s m : wf s -> wf_mem s m -> wfm m.
Proof.
  intros (_ & Hb & _) (H1 & H2 & H3 & H4 & H5). pose proof (Hb (mbuf m)). unfold wfm. repeat split; try lia; apply H5.
Qed.

Lemma geth_map (l : list (option mem)) i :
  geth (map (option_map m2v) l) i = option_map m2v (geth l i).
Proof. unfold geth. change (@None view) with (option_map m2v None) at 1. apply map_nth. Qed.

Lemma getbuf_setbuf s b l b' :
  getbuf (setbuf s b l) b' = if (b' =? b)%nat && (b <? length (bufs s))%nat then l else getbuf s b'.
Proof. unfold getbuf, setbuf; cbn [bufs]. apply nth_setnth. Qed.

Lemma zlen_getbuf_setbuf s b l : zlen l = zlen (getbuf s b) ->
  forall b', zlen (getbuf (setbuf s b l) b') = zlen (getbuf s b').
Proof.
  intros E b'. rewrite getbuf_setbuf.
  destruct (Nat.eqb_spec b' b) as [-> |]; cbn [andb]; [| reflexivity].
  destruct (b <? length (bufs s))%nat; auto.
Qed.

Lemma wf_mem_mono s s' m :
  (length (bufs s) <= length (bufs s'))%nat ->
  (forall b, (b < length (bufs s))%nat -> zlen (getbuf s' b) = zlen (getbuf s b)) ->
  wf_mem s m -> wf_mem s' m.
Proof.
  intros Hl Hz (H1 & H2 & H3 & H4 & H5). unfold wf_mem. rewrite Hz by assumption. repeat split; try lia; apply H5.
Qed.

Lemma wf_sethandle s d h : wf s -> (forall m, h = Some m -> wf_mem s m) -> wf (sethandle s d h).
Proof.
  intros (Hh & Hb & Hw) Hm. split; [| split]; cbn [sethandle bufs hs wraps]; auto.
  intros i m. rewrite geth_seth.
  destruct ((i =? d)%nat && (d <? length (hs s))%nat); intros E.
  - apply (wf_mem_mono s); auto. 
  - apply (wf_mem_mono s); auto. apply (Hh i); assumption.
Qed.

Lemma wf_setbuf s b l : wf s -> zlen l = zlen (getbuf s b) -> wf (setbuf s b l).
Proof.
  intros (Hh & Hb & Hw) E. pose proof (zlen_getbuf_setbuf s b l E) as Z.
  split; [| split].
  - intros i m Hi. cbn [setbuf hs] in Hi. apply (wf_mem_mono s).
    + cbn [setbuf bufs]. rewrite setnth_length. lia.
    + intros; apply Z.
    + apply (Hh i); assumption.
  - intros b'. rewrite Z. apply Hb.
  - intros b' Hi. cbn [setbuf bufs wraps] in *. rewrite setnth_length. apply Hw; assumption.
Qed.

Lemma Rel_sethandle ms ss d h : Rel ms ss -> Rel (sethandle ms d h) (with_handle ss d (option_map m2v h)).
Proof.
  intros [R1 R2 R3 R4]. constructor; cbn [sethandle with_handle bufs hs wraps slens smap shs swraps]; auto.
  rewrite map_seth, R3. reflexivity.
Qed.

Lemma slens_setbuf ms b l : zlen l = zlen (getbuf ms b) ->
  map zlen (bufs (setbuf ms b l)) = map zlen (bufs ms).
Proof.
  intros E. cbn [setbuf bufs]. rewrite map_setnth, E. unfold getbuf.
  rewrite <- (map_nth zlen (bufs ms) [] b). apply setnth_same.
Qed.

(* a write of `data` at absolute position `start` of buffer b, against the map update *)
Lemma Rel_write ms ss b start data g :
  Rel ms ss -> (b < length (bufs ms))%nat -> 0 <= start -> start + zlen data <= zlen (getbuf ms b) ->
  (forall k, 0 <= k < zlen data -> nth (Z.to_nat k) data 0 = g (start + k)) ->
  Rel (setbuf ms b (wr (getbuf ms b) start data)) (with_map ss (upd (smap ss) b start (zlen data) g)).
Proof.
  intros [R1 R2 R3 R4] Hb Hs Hr Hg.
  assert (E : zlen (wr (getbuf ms b) start data) = zlen (getbuf ms b)) by (unfold zlen; rewrite wr_length; auto).
  constructor; cbn [with_map slens smap shs swraps]; auto.
  - rewrite slens_setbuf by assumption. assumption.
  - intros b' Hb'. cbn [setbuf bufs] in Hb'. rewrite setnth_length in Hb'.
    rewrite getbuf_setbuf. unfold upd.
    destruct (Nat.eqb_spec b' b) as [-> |]; cbn [andb].
    + apply Nat.ltb_lt in Hb. rewrite Hb.
      apply (Rbuf_wr _ (smap ss b)); auto.
    + apply R2; assumption.
Qed.

(* ------------------------------------------------------------------ the backend on in-range requests *)
Lemma do_read_ok s m bytes off : wf_mem s m -> within m bytes off ->
  do_read s m bytes off = Ret (rd (getbuf s (mbuf m)) (moff m + off) bytes).
Proof.
  intros (H1 & H2 & H3 & H4 & H5) (W1 & W2 & W3). unfold do_read.
  destruct (Z.eqb_spec bytes 0) as [-> |]; [reflexivity |].
  unfold in_buf.
  destruct (Z.leb_spec 0 (moff m + off)); [| lia].
  destruct (Z.leb_spec 0 bytes); [| lia].
  destruct (Z.leb_spec (moff m + off + bytes) (zlen (getbuf s (mbuf m)))); [| lia].
  reflexivity.
Qed.

Lemma wr_nil l start : 0 <= start -> wr l start [] = l.
Proof. intros. unfold wr. cbn [app length]. rewrite Nat.add_0_r. apply firstn_skipn. Qed.

Lemma setbuf_same s b : setbuf s b (getbuf s b) = s.
Proof. destruct s as [bs h w]. unfold setbuf, getbuf; cbn. f_equal. apply setnth_same. Qed.

Lemma do_write_ok s m off data : wf_mem s m -> within m (zlen data) off ->
  do_write s m off data = Ret (setbuf s (mbuf m) (wr (getbuf s (mbuf m)) (moff m + off) data)).
Proof.
  intros (H1 & H2 & H3 & H4 & H5) (W1 & W2 & W3). unfold do_write.
  destruct (Z.eqb_spec (zlen data) 0) as [E |].
  - destruct data; [| unfold zlen in E; cbn in E; lia]. rewrite wr_nil by lia. rewrite setbuf_same. reflexivity.
  - unfold in_buf.
    destruct (Z.leb_spec 0 (moff m + off)); [| lia].
    destruct (Z.leb_spec 0 (zlen data)); [| lia].
    destruct (Z.leb_spec (moff m + off + zlen data) (zlen (getbuf s (mbuf m)))); [| lia].
    reflexivity.
Qed.

Lemma zlen_rd l start len : 0 <= start -> 0 <= len -> start + len <= zlen l -> zlen (rd l start len) = len.
Proof. intros. unfold zlen. rewrite rd_length by assumption. lia. Qed.

Lemma do_copy_ok s dst src bytes doff soff :
  wf_mem s dst -> wf_mem s src -> within dst bytes doff -> within src bytes soff ->
  do_copy fixed s dst src bytes doff soff =
  Ret (setbuf s (mbuf dst) (wr (getbuf s (mbuf dst)) (moff dst + doff)
                               (rd (getbuf s (mbuf src)) (moff src + soff) bytes))).
Proof.
  intros Hd Hs Wd Ws. unfold do_copy. cbn [fixed fx_move negb andb].
  pose proof Hs as (S1 & S2 & S3 & S4 & S5). pose proof Ws as (V1 & V2 & V3).
  pose proof Hd as (D1 & D2 & D3 & D4 & D5). pose proof Wd as (U1 & U2 & U3).
  destruct (Z.eqb_spec bytes 0) as [-> |].
  - unfold rd. cbn [Z.to_nat firstn]. rewrite wr_nil by lia. rewrite setbuf_same. reflexivity.
  - rewrite do_read_ok by assumption. cbn [bind].
    rewrite do_write_ok; auto. rewrite zlen_rd by lia. assumption.
Qed.

(* ------------------------------------------------------------------ allocation *)
Definition alloc_state (s : state) (content : list Z) (wrapped : bool) : state :=
  mkState (bufs s ++ [content]) (hs s) (if wrapped then wraps s ++ [length (bufs s)] else wraps s).

Lemma getbuf_alloc_old s c w b : (b < length (bufs s))%nat -> getbuf (alloc_state s c w) b = getbuf s b.
Proof. intros. unfold getbuf, alloc_state; cbn [bufs]. apply app_nth1; assumption. Qed.

Lemma getbuf_alloc_new s c w : getbuf (alloc_state s c w) (length (bufs s)) = c.
Proof. unfold getbuf, alloc_state; cbn [bufs]. apply nth_middle. Qed.

Lemma getbuf_beyond s b : (length (bufs s) <= b)%nat -> getbuf s b = [].
Proof. intros. unfold getbuf. apply nth_overflow; assumption. Qed.

Lemma wf_alloc s c w : wf s -> zlen c < BMAX -> wf (alloc_state s c w).
Proof.
  intros (Hh & Hb & Hw) Hc. split; [| split].
  - intros i m Hi. cbn [alloc_state hs] in Hi. apply (wf_mem_mono s).
    + cbn [alloc_state bufs]. rewrite app_length. lia.
    + intros; rewrite getbuf_alloc_old; auto.
    + apply (Hh i); assumption.
  - intros b. destruct (Nat.lt_total b (length (bufs s))) as [L | [-> | L]].
    + rewrite getbuf_alloc_old; auto.
    + rewrite getbuf_alloc_new; auto.
    + rewrite getbuf_beyond; [reflexivity |]. cbn [alloc_state bufs]. rewrite app_length; cbn; lia.
  - intros b Hi. cbn [alloc_state bufs wraps] in *. rewrite app_length; cbn [length].
    destruct w.
    + apply in_app_or in Hi as [Hi | [<- | []]]; [apply Hw in Hi |]; lia.
    + apply Hw in Hi. lia.
Qed.

Definition alloc_spec (ss : sstate) (n : Z) (wrapped : bool) (g : Z -> Z) : sstate :=
  mkS (upd (smap ss) (length (slens ss)) 0 n g) (slens ss ++ [n]) (shs ss)
      (if wrapped then swraps ss ++ [length (slens ss)] else swraps ss).

Lemma Rel_alloc ms ss c n w g : Rel ms ss -> zlen c = n ->
  (forall k, 0 <= k < n -> nth (Z.to_nat k) c 0 = g k) ->
  Rel (alloc_state ms c w) (alloc_spec ss n w g).
Proof.
  intros [R1 R2 R3 R4] Hc Hg.
  assert (EL : length (slens ss) = length (bufs ms)) by (rewrite R1, map_length; reflexivity).
  constructor; cbn [alloc_state alloc_spec slens smap shs swraps bufs hs wraps]; auto.
  - rewrite map_app, R1. cbn [map]. rewrite Hc. reflexivity.
  - intros b Hb. rewrite app_length in Hb; cbn [length] in Hb. unfold upd. rewrite EL.
    destruct (Nat.eqb_spec b (length (bufs ms))) as [-> | Hne]; cbn [andb].
    + rewrite getbuf_alloc_new. intros i Hi. rewrite Hc in Hi.
      destruct (Z.leb_spec 0 i); [| lia]. destruct (Z.ltb_spec i (0 + n)); [| lia]. cbn [andb].
      apply Hg; lia.
    + rewrite getbuf_alloc_old by lia. apply R2; lia.
  - rewrite R4, EL. reflexivity.
Qed.

Lemma Rel_ext ms ss f : Rel ms ss -> (forall b i, f b i = smap ss b i) ->
  Rel ms (mkS f (slens ss) (shs ss) (swraps ss)).
Proof.
  intros [R1 R2 R3 R4] E. constructor; cbn [slens smap shs swraps]; auto.
  intros b Hb i Hi. rewrite E. apply R2; assumption.
Qed.

(* ------------------------------------------------------------------ one step *)
Definition good (ms : state) (ss : sstate) (o : op) : Prop :=
  snd (step fixed ms o) = snd (s_step ss o) /\
  Rel (fst (step fixed ms o)) (fst (s_step ss o)) /\
  wf (fst (step fixed ms o)) /\ ~ is_crash (snd (step fixed ms o)).

Lemma step_throw s o : frontend fixed s o = Throw -> step fixed s o = (s, ERR).
Proof. intros E. unfold step. rewrite E. reflexivity. Qed.

Lemma step_ret s o p r : frontend fixed s o = Ret p -> exec fixed s o p = Ret r -> step fixed s o = r.
Proof. intros E1 E2. unfold step. rewrite E1. cbn [bind]. rewrite E2. reflexivity. Qed.

Lemma good_intro ms ss o ms' ss' ob :
  step fixed ms o = (ms', ob) -> s_step ss o = (ss', ob) -> Rel ms' ss' -> wf ms' -> ~ is_crash ob ->
  good ms ss o.
Proof. intros E1 E2 HR Hw Hc. unfold good. rewrite E1, E2. cbn [fst snd]. auto. Qed.

Lemma spec_handle ms ss i : Rel ms ss -> geth (shs ss) i = option_map m2v (geth (hs ms) i).
Proof. intros [_ _ R3 _]. rewrite R3. apply geth_map. Qed.

Lemma good_OSlice ms ss d sidx off cnt : wf ms -> Rel ms ss -> small off -> small cnt ->
  good ms ss (OSlice d sidx off cnt).
Proof.
  intros Hwf HR Hoff Hcnt.
  pose proof (spec_handle ms ss sidx HR) as EH.
  destruct (geth (hs ms) sidx) as [m |] eqn:Em.
  - assert (Hm : wf_mem ms m) by (destruct Hwf as (Hh & _); apply (Hh sidx); assumption).
    pose proof (wfm_of_wf _ _ Hwf Hm) as Hmm.
    pose proof (memory_slice_char m off cnt Hmm Hoff Hcnt) as Ec. cbv zeta in Ec.
    cbn [option_map] in EH.
    destruct ((0 <=? off) && (0 <=? (if cnt =? -1 then m_len m - off else cnt)) &&
              ((off + (if cnt =? -1 then m_len m - off else cnt)) * mdt m <=? msize m)) eqn:Cond.
    + set (c := if cnt =? -1 then m_len m - off else cnt) in *.
      set (m' := mkMem (mbuf m) (moff m + off * mdt m) (c * mdt m) (mdt m)) in *.
      apply (good_intro _ _ _ (sethandle ms d (Some m')) (with_handle ss d (option_map m2v (Some m'))) OK).
      * apply (step_ret _ _ (PSetHandle (Some m'))); [| reflexivity].
        cbn [frontend]. rewrite Em, Ec. reflexivity.
      * cbn [s_step]. rewrite EH. unfold s_slice, erange, slice_count, elems. cbn [m2v vb vlo vlen vdt].
        fold (m_len m). fold c. rewrite Cond. reflexivity.
      * apply Rel_sethandle; assumption.
      * apply wf_sethandle; auto. intros x Ex; inversion Ex; subst x.
        apply andb_true_iff in Cond as [Cond C3]. apply andb_true_iff in Cond as [C1 C2].
        apply Z.leb_le in C1, C2, C3. destruct Hm as (M1 & M2 & M3 & M4 & M5).
        unfold wf_mem, m'; cbn [mbuf moff msize mdt]. unfold dt_ok in *. repeat split; try assumption; try nia.
      * intros [].
    + apply (good_intro _ _ _ ms ss ERR); auto.
      * apply step_throw. cbn [frontend]. rewrite Em, Ec. reflexivity.
      * cbn [s_step]. rewrite EH. unfold s_slice, erange, slice_count, elems. cbn [m2v vb vlo vlen vdt].
        fold (m_len m). rewrite Cond. reflexivity.
  - cbn [option_map] in EH. apply (good_intro _ _ _ ms ss ERR); auto.
    + apply step_throw. cbn [frontend]. rewrite Em. reflexivity.
    + cbn [s_step]. rewrite EH. reflexivity.
Qed.

Lemma wf_get ms i m : wf ms -> geth (hs ms) i = Some m -> wf_mem ms m /\ wfm m.
Proof. intros Hwf E. assert (wf_mem ms m) by (destruct Hwf as (Hh & _); apply (Hh i); assumption).
  split; auto. apply (wfm_of_wf ms); auto. Qed.

Lemma good_OCast ms ss d sidx dt : wf ms -> Rel ms ss -> dt_ok dt -> good ms ss (OCast d sidx dt).
Proof.
  intros Hwf HR Hdt.
  pose proof (spec_handle ms ss sidx HR) as EH.
  destruct (geth (hs ms) sidx) as [m |] eqn:Em; cbn [option_map] in EH.
  - destruct (wf_get _ _ _ Hwf Em) as (Hm & Hmm).
    set (m' := mkMem (mbuf m) (moff m) (m_len m * mdt m) dt).
    apply (good_intro _ _ _ (sethandle ms d (Some m')) (with_handle ss d (option_map m2v (Some m'))) OK).
    + apply (step_ret _ _ (PSetHandle (Some m'))); [| reflexivity].
      cbn [frontend]. rewrite Em, memory_cast_char by assumption. reflexivity.
    + cbn [s_step]. rewrite EH. reflexivity.
    + apply Rel_sethandle; assumption.
    + apply wf_sethandle; auto. intros x Ex; inversion Ex; subst x.
      destruct Hm as (M1 & M2 & M3 & M4 & M5). destruct Hmm as (_ & _ & _ & D).
      destruct (div_bounds (msize m) (mdt m)) as (L0 & L1 & L2); [unfold dt_ok in D; lia | lia |].
      unfold wf_mem, m', m_len; cbn [mbuf moff msize mdt]. repeat split; try assumption; try nia; apply Hdt.
    + intros [].
  - apply (good_intro _ _ _ ms ss ERR); auto.
    + apply step_throw. cbn [frontend]. rewrite Em. reflexivity.
    + cbn [s_step]. rewrite EH. reflexivity.
Qed.

Lemma good_OAssign ms ss d sidx : wf ms -> Rel ms ss -> good ms ss (OAssign d sidx).
Proof.
  intros Hwf HR. pose proof (spec_handle ms ss sidx HR) as EH.
  apply (good_intro _ _ _ (sethandle ms d (geth (hs ms) sidx))
                    (with_handle ss d (option_map m2v (geth (hs ms) sidx))) OK).
  - reflexivity.
  - cbn [s_step]. rewrite EH. reflexivity.
  - apply Rel_sethandle; assumption.
  - apply wf_sethandle; auto. intros m E. apply (wf_get _ _ _ Hwf E).
  - intros [].
Qed.

Lemma good_OReset ms ss d : wf ms -> Rel ms ss -> good ms ss (OReset d).
Proof.
  intros Hwf HR.
  apply (good_intro _ _ _ (sethandle ms d None) (with_handle ss d (option_map m2v None)) OK).
  - reflexivity.
  - reflexivity.
  - apply Rel_sethandle; assumption.
  - apply wf_sethandle; auto. intros m E; discriminate.
  - intros [].
Qed.

Lemma good_OSize ms ss a : wf ms -> Rel ms ss -> good ms ss (OSize a).
Proof.
  intros Hwf HR. pose proof (spec_handle ms ss a HR) as EH.
  apply (good_intro _ _ _ ms ss
           (OKN (match geth (hs ms) a with None => [0; 0; 0] | Some m => [m_len m; msize m; mdt m] end))).
  - reflexivity.
  - cbn [s_step]. rewrite EH. destruct (geth (hs ms) a); reflexivity.
  - assumption.
  - assumption.
  - intros [].
Qed.

Lemma zseq_all_nth l : map (fun i => nth (Z.to_nat i) l 0) (zseq 0 (zlen l)) = l.
Proof.
  apply list_eq_nth.
  - rewrite map_length, zseq_length. unfold zlen. lia.
  - intros k Hk. rewrite map_length, zseq_length in Hk. unfold zlen in Hk.
    rewrite nth_indep with (d' := (fun i => nth (Z.to_nat i) l 0) 0) by (rewrite map_length, zseq_length; unfold zlen; lia).
    rewrite (map_nth (fun i => nth (Z.to_nat i) l 0)). rewrite nth_zseq by (unfold zlen; lia).
    f_equal. lia.
Qed.

Lemma good_OHostRead ms ss k : wf ms -> Rel ms ss -> good ms ss (OHostRead k).
Proof.
  intros Hwf HR. pose proof HR as [R1 R2 R3 R4].
  apply (good_intro _ _ _ ms ss
           (match nth_error (wraps ms) k with Some b => OKB (getbuf ms b) | None => OKN [] end)).
  - reflexivity.
  - cbn [s_step]. rewrite R4. destruct (nth_error (wraps ms) k) as [b |] eqn:E; [| reflexivity].
    assert (Hb : (b < length (bufs ms))%nat).
    { destruct Hwf as (_ & _ & Hw). apply Hw. eapply nth_error_In; eauto. }
    assert (Er : read ss b 0 (nth b (slens ss) 0) = getbuf ms b).
    { unfold read. rewrite R1. change 0 with (zlen (@nil Z)) at 2. rewrite map_nth. fold (getbuf ms b).
      transitivity (map (fun i => nth (Z.to_nat i) (getbuf ms b) 0) (zseq 0 (zlen (getbuf ms b)))).
      - apply map_ext_in. intros i Hi. apply in_zseq in Hi. symmetry. apply R2; [assumption | lia].
      - apply zseq_all_nth. }
    rewrite Er. reflexivity.
  - assumption.
  - assumption.
  - destruct (nth_error (wraps ms) k); intros [].
Qed.
