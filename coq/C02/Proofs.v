(* C02 — proofs, part 4: one step of the model (cfg fixed) refines the specification and keeps the
   invariant; part 5: histories; accepted requests are in range; rejected requests change nothing. *)
From Coq Require Import List ZArith Bool Lia.
From OV.C02 Require Import Base Model Spec Statements Arith Lists.
Import ListNotations.
Local Open Scope Z_scope.

(* ------------------------------------------------------------------ states *)
Lemma wfm_of_wf s m : wf s -> wf_mem s m -> wfm m.
Proof.
  intros (_ & Hb & _) (H1 & H2 & H3 & H4 & H5). pose proof (Hb (mbuf m)). unfold wfm. repeat split; try lia; apply H5.
Qed.

Lemma geth_map (l : list (option mem)) i :
  geth (map (option_map m2v) l) i = option_map m2v (geth l i).
Proof. unfold geth. change (@None view) with (option_map m2v None) at 1. apply map_nth. Qed.

Lemma getbuf_setbuf s b l b' :
  getbuf (setbuf s b l) b' = if (b' =? b)%nat && (b <? length (bufs s))%nat then l else getbuf s b'.
Proof. unfold getbuf, setbuf; cbn [bufs]. apply nth_setnth. Qed.

Lemma zlen_getbuf_setbuf s b l : zlen l = zlen (getbuf s b) ->
  forall b', zlen (getbuf (setbuf s b l) b') = zlen (getbuf s b').
Proof.
  intros E b'. rewrite getbuf_setbuf.
  destruct (Nat.eqb_spec b' b) as [-> |]; cbn [andb]; [| reflexivity].
  destruct (b <? length (bufs s))%nat; auto.
Qed.

Lemma wf_mem_mono s s' m :
  (length (bufs s) <= length (bufs s'))%nat ->
  (forall b, (b < length (bufs s))%nat -> zlen (getbuf s' b) = zlen (getbuf s b)) ->
  wf_mem s m -> wf_mem s' m.
Proof.
  intros Hl Hz (H1 & H2 & H3 & H4 & H5). unfold wf_mem. rewrite Hz by assumption. repeat split; try lia; apply H5.
Qed.

Lemma wf_sethandle s d h : wf s -> (forall m, h = Some m -> wf_mem s m) -> wf (sethandle s d h).
Proof.
  intros (Hh & Hb & Hw) Hm. split; [| split]; cbn [sethandle bufs hs wraps]; auto.
  intros i m. rewrite geth_seth.
  destruct ((i =? d)%nat && (d <? length (hs s))%nat); intros E.
  - apply (wf_mem_mono s); auto. 
  - apply (wf_mem_mono s); auto. apply (Hh i); assumption.
Qed.

Lemma wf_setbuf s b l : wf s -> zlen l = zlen (getbuf s b) -> wf (setbuf s b l).
Proof.
  intros (Hh & Hb & Hw) E. pose proof (zlen_getbuf_setbuf s b l E) as Z.
  split; [| split].
  - intros i m Hi. cbn [setbuf hs] in Hi. apply (wf_mem_mono s).
    + cbn [setbuf bufs]. rewrite setnth_length. lia.
    + intros; apply Z.
    + apply (Hh i); assumption.
  - intros b'. rewrite Z. apply Hb.
  - intros b' Hi. cbn [setbuf bufs wraps] in *. rewrite setnth_length. apply Hw; assumption.
Qed.

Lemma Rel_sethandle ms ss d h : Rel ms ss -> Rel (sethandle ms d h) (with_handle ss d (option_map m2v h)).
Proof.
  intros [R1 R2 R3 R4]. constructor; cbn [sethandle with_handle bufs hs wraps slens smap shs swraps]; auto.
  rewrite map_seth, R3. reflexivity.
Qed.

Lemma slens_setbuf ms b l : zlen l = zlen (getbuf ms b) ->
  map zlen (bufs (setbuf ms b l)) = map zlen (bufs ms).
Proof.
  intros E. cbn [setbuf bufs]. rewrite map_setnth, E. unfold getbuf.
  rewrite <- (map_nth zlen (bufs ms) [] b). apply setnth_same.
Qed.

(* a write of `data` at absolute position `start` of buffer b, against the map update *)
Lemma Rel_write ms ss b start data g :
  Rel ms ss -> (b < length (bufs ms))%nat -> 0 <= start -> start + zlen data <= zlen (getbuf ms b) ->
  (forall k, 0 <= k < zlen data -> nth (Z.to_nat k) data 0 = g (start + k)) ->
  Rel (setbuf ms b (wr (getbuf ms b) start data)) (with_map ss (upd (smap ss) b start (zlen data) g)).
Proof.
  intros [R1 R2 R3 R4] Hb Hs Hr Hg.
  assert (E : zlen (wr (getbuf ms b) start data) = zlen (getbuf ms b)) by (unfold zlen; rewrite wr_length; auto).
  constructor; cbn [with_map slens smap shs swraps]; auto.
  - rewrite slens_setbuf by assumption. assumption.
  - intros b' Hb'. cbn [setbuf bufs] in Hb'. rewrite setnth_length in Hb'.
    rewrite getbuf_setbuf. unfold upd.
    destruct (Nat.eqb_spec b' b) as [-> |]; cbn [andb].
    + apply Nat.ltb_lt in Hb. rewrite Hb.
      apply (Rbuf_wr _ (smap ss b)); auto.
    + apply R2; assumption.
Qed.

(* ------------------------------------------------------------------ the backend on in-range requests *)
Lemma do_read_ok s m bytes off : wf_mem s m -> within m bytes off ->
  do_read s m bytes off = Ret (rd (getbuf s (mbuf m)) (moff m + off) bytes).
Proof.
  intros (H1 & H2 & H3 & H4 & H5) (W1 & W2 & W3). unfold do_read.
  destruct (Z.eqb_spec bytes 0) as [-> |]; [reflexivity |].
  unfold in_buf.
  destruct (Z.leb_spec 0 (moff m + off)); [| lia].
  destruct (Z.leb_spec 0 bytes); [| lia].
  destruct (Z.leb_spec (moff m + off + bytes) (zlen (getbuf s (mbuf m)))); [| lia].
  reflexivity.
Qed.

Lemma wr_nil l start : 0 <= start -> wr l start [] = l.
Proof. intros. unfold wr. cbn [app length]. rewrite Nat.add_0_r. apply firstn_skipn. Qed.

Lemma setbuf_same s b : setbuf s b (getbuf s b) = s.
Proof. destruct s as [bs h w]. unfold setbuf, getbuf; cbn. f_equal. apply setnth_same. Qed.

Lemma do_write_ok s m off data : wf_mem s m -> within m (zlen data) off ->
  do_write s m off data = Ret (setbuf s (mbuf m) (wr (getbuf s (mbuf m)) (moff m + off) data)).
Proof.
  intros (H1 & H2 & H3 & H4 & H5) (W1 & W2 & W3). unfold do_write.
  destruct (Z.eqb_spec (zlen data) 0) as [E |].
  - destruct data; [| unfold zlen in E; cbn in E; lia]. rewrite wr_nil by lia. rewrite setbuf_same. reflexivity.
  - unfold in_buf.
    destruct (Z.leb_spec 0 (moff m + off)); [| lia].
    destruct (Z.leb_spec 0 (zlen data)); [| lia].
    destruct (Z.leb_spec (moff m + off + zlen data) (zlen (getbuf s (mbuf m)))); [| lia].
    reflexivity.
Qed.

Lemma zlen_rd l start len : 0 <= start -> 0 <= len -> start + len <= zlen l -> zlen (rd l start len) = len.
Proof. intros. unfold zlen. rewrite rd_length by assumption. lia. Qed.

Lemma do_copy_ok s dst src bytes doff soff :
  wf_mem s dst -> wf_mem s src -> within dst bytes doff -> within src bytes soff ->
  do_copy fixed s dst src bytes doff soff =
  Ret (setbuf s (mbuf dst) (wr (getbuf s (mbuf dst)) (moff dst + doff)
                               (rd (getbuf s (mbuf src)) (moff src + soff) bytes))).
Proof.
  intros Hd Hs Wd Ws. unfold do_copy. cbn [fixed fx_move negb andb].
  pose proof Hs as (S1 & S2 & S3 & S4 & S5). pose proof Ws as (V1 & V2 & V3).
  pose proof Hd as (D1 & D2 & D3 & D4 & D5). pose proof Wd as (U1 & U2 & U3).
  destruct (Z.eqb_spec bytes 0) as [-> |].
  - unfold rd. cbn [Z.to_nat firstn]. rewrite wr_nil by lia. rewrite setbuf_same. reflexivity.
  - rewrite do_read_ok by assumption. cbn [bind].
    rewrite do_write_ok; auto. rewrite zlen_rd by lia. assumption.
Qed.

(* ------------------------------------------------------------------ allocation *)
Definition alloc_state (s : state) (content : list Z) (wrapped : bool) : state :=
  mkState (bufs s ++ [content]) (hs s) (if wrapped then wraps s ++ [length (bufs s)] else wraps s).

Lemma getbuf_alloc_old s c w b : (b < length (bufs s))%nat -> getbuf (alloc_state s c w) b = getbuf s b.
Proof. intros. unfold getbuf, alloc_state; cbn [bufs]. apply app_nth1; assumption. Qed.

Lemma getbuf_alloc_new s c w : getbuf (alloc_state s c w) (length (bufs s)) = c.
Proof. unfold getbuf, alloc_state; cbn [bufs]. apply nth_middle. Qed.

Lemma getbuf_beyond s b : (length (bufs s) <= b)%nat -> getbuf s b = [].
Proof. intros. unfold getbuf. apply nth_overflow; assumption. Qed.

Lemma wf_alloc s c w : wf s -> zlen c < BMAX -> wf (alloc_state s c w).
Proof.
  intros (Hh & Hb & Hw) Hc. split; [| split].
  - intros i m Hi. cbn [alloc_state hs] in Hi. apply (wf_mem_mono s).
    + cbn [alloc_state bufs]. rewrite app_length. lia.
    + intros; rewrite getbuf_alloc_old; auto.
    + apply (Hh i); assumption.
  - intros b. destruct (Nat.lt_total b (length (bufs s))) as [L | [-> | L]].
    + rewrite getbuf_alloc_old; auto.
    + rewrite getbuf_alloc_new; auto.
    + rewrite getbuf_beyond; [reflexivity |]. cbn [alloc_state bufs]. rewrite app_length; cbn; lia.
  - intros b Hi. cbn [alloc_state bufs wraps] in *. rewrite app_length; cbn [length].
    destruct w.
    + apply in_app_or in Hi as [Hi | [<- | []]]; [apply Hw in Hi |]; lia.
    + apply Hw in Hi. lia.
Qed.

Definition alloc_spec (ss : sstate) (n : Z) (wrapped : bool) (g : Z -> Z) : sstate :=
  mkS (upd (smap ss) (length (slens ss)) 0 n g) (slens ss ++ [n]) (shs ss)
      (if wrapped then swraps ss ++ [length (slens ss)] else swraps ss).

Lemma Rel_alloc ms ss c n w g : Rel ms ss -> zlen c = n ->
  (forall k, 0 <= k < n -> nth (Z.to_nat k) c 0 = g k) ->
  Rel (alloc_state ms c w) (alloc_spec ss n w g).
Proof.
  intros [R1 R2 R3 R4] Hc Hg.
  assert (EL : length (slens ss) = length (bufs ms)) by (rewrite R1, map_length; reflexivity).
  constructor; cbn [alloc_state alloc_spec slens smap shs swraps bufs hs wraps]; auto.
  - rewrite map_app, R1. cbn [map]. rewrite Hc. reflexivity.
  - intros b Hb. rewrite app_length in Hb; cbn [length] in Hb. unfold upd. rewrite EL.
    destruct (Nat.eqb_spec b (length (bufs ms))) as [-> | Hne]; cbn [andb].
    + rewrite getbuf_alloc_new. intros i Hi. rewrite Hc in Hi.
      destruct (Z.leb_spec 0 i); [| lia]. destruct (Z.ltb_spec i (0 + n)); [| lia]. cbn [andb].
      apply Hg; lia.
    + rewrite getbuf_alloc_old by lia. apply R2; lia.
  - rewrite R4, EL. reflexivity.
Qed.

Lemma Rel_ext ms ss f : Rel ms ss -> (forall b i, f b i = smap ss b i) ->
  Rel ms (mkS f (slens ss) (shs ss) (swraps ss)).
Proof.
  intros [R1 R2 R3 R4] E. constructor; cbn [slens smap shs swraps]; auto.
  intros b Hb i Hi. rewrite E. apply R2; assumption.
Qed.

(* ------------------------------------------------------------------ one step *)
Definition good (ms : state) (ss : sstate) (o : op) : Prop :=
  snd (step fixed ms o) = snd (s_step ss o) /\
  Rel (fst (step fixed ms o)) (fst (s_step ss o)) /\
  wf (fst (step fixed ms o)) /\ ~ is_crash (snd (step fixed ms o)).

Lemma step_throw s o : frontend fixed s o = Throw -> step fixed s o = (s, ERR).
Proof. intros E. unfold step. rewrite E. reflexivity. Qed.

Lemma step_ret s o p r : frontend fixed s o = Ret p -> exec fixed s o p = Ret r -> step fixed s o = r.
Proof. intros E1 E2. unfold step. rewrite E1. cbn [bind]. rewrite E2. reflexivity. Qed.

Lemma good_intro ms ss o ms' ss' ob :
  step fixed ms o = (ms', ob) -> s_step ss o = (ss', ob) -> Rel ms' ss' -> wf ms' -> ~ is_crash ob ->
  good ms ss o.
Proof. intros E1 E2 HR Hw Hc. unfold good. rewrite E1, E2. cbn [fst snd]. auto. Qed.

Lemma spec_handle ms ss i : Rel ms ss -> geth (shs ss) i = option_map m2v (geth (hs ms) i).
Proof. intros [_ _ R3 _]. rewrite R3. apply geth_map. Qed.

Lemma good_OSlice ms ss d sidx off cnt : wf ms -> Rel ms ss -> small off -> small cnt ->
  good ms ss (OSlice d sidx off cnt).
Proof.
  intros Hwf HR Hoff Hcnt.
  pose proof (spec_handle ms ss sidx HR) as EH.
  destruct (geth (hs ms) sidx) as [m |] eqn:Em.
  - assert (Hm : wf_mem ms m) by (destruct Hwf as (Hh & _); apply (Hh sidx); assumption).
    pose proof (wfm_of_wf _ _ Hwf Hm) as Hmm.
    pose proof (memory_slice_char m off cnt Hmm Hoff Hcnt) as Ec. cbv zeta in Ec.
    cbn [option_map] in EH.
    destruct ((0 <=? off) && (0 <=? (if cnt =? -1 then m_len m - off else cnt)) &&
              ((off + (if cnt =? -1 then m_len m - off else cnt)) * mdt m <=? msize m)) eqn:Cond.
    + set (c := if cnt =? -1 then m_len m - off else cnt) in *.
      set (m' := mkMem (mbuf m) (moff m + off * mdt m) (c * mdt m) (mdt m)) in *.
      apply (good_intro _ _ _ (sethandle ms d (Some m')) (with_handle ss d (option_map m2v (Some m'))) OK).
      * apply (step_ret _ _ (PSetHandle (Some m'))); [| reflexivity].
        cbn [frontend]. rewrite Em, Ec. reflexivity.
      * cbn [s_step]. rewrite EH. unfold s_slice, erange, slice_count, elems. cbn [m2v vb vlo vlen vdt].
        fold (m_len m). fold c. rewrite Cond. reflexivity.
      * apply Rel_sethandle; assumption.
      * apply wf_sethandle; auto. intros x Ex; inversion Ex; subst x.
        apply andb_true_iff in Cond as [Cond C3]. apply andb_true_iff in Cond as [C1 C2].
        apply Z.leb_le in C1, C2, C3. destruct Hm as (M1 & M2 & M3 & M4 & M5).
        unfold wf_mem, m'; cbn [mbuf moff msize mdt]. unfold dt_ok in *. repeat split; try assumption; try nia.
      * intros [].
    + apply (good_intro _ _ _ ms ss ERR); auto.
      * apply step_throw. cbn [frontend]. rewrite Em, Ec. reflexivity.
      * cbn [s_step]. rewrite EH. unfold s_slice, erange, slice_count, elems. cbn [m2v vb vlo vlen vdt].
        fold (m_len m). rewrite Cond. reflexivity.
  - cbn [option_map] in EH. apply (good_intro _ _ _ ms ss ERR); auto.
    + apply step_throw. cbn [frontend]. rewrite Em. reflexivity.
    + cbn [s_step]. rewrite EH. reflexivity.
Qed.

Lemma wf_get ms i m : wf ms -> geth (hs ms) i = Some m -> wf_mem ms m /\ wfm m.
Proof. intros Hwf E. assert (wf_mem ms m) by (destruct Hwf as (Hh & _); apply (Hh i); assumption).
  split; auto. apply (wfm_of_wf ms); auto. Qed.

Lemma good_OCast ms ss d sidx dt : wf ms -> Rel ms ss -> dt_ok dt -> good ms ss (OCast d sidx dt).
Proof.
  intros Hwf HR Hdt.
  pose proof (spec_handle ms ss sidx HR) as EH.
  destruct (geth (hs ms) sidx) as [m |] eqn:Em; cbn [option_map] in EH.
  - destruct (wf_get _ _ _ Hwf Em) as (Hm & Hmm).
    set (m' := mkMem (mbuf m) (moff m) (m_len m * mdt m) dt).
    apply (good_intro _ _ _ (sethandle ms d (Some m')) (with_handle ss d (option_map m2v (Some m'))) OK).
    + apply (step_ret _ _ (PSetHandle (Some m'))); [| reflexivity].
      cbn [frontend]. rewrite Em, memory_cast_char by assumption. reflexivity.
    + cbn [s_step]. rewrite EH. reflexivity.
    + apply Rel_sethandle; assumption.
    + apply wf_sethandle; auto. intros x Ex; inversion Ex; subst x.
      destruct Hm as (M1 & M2 & M3 & M4 & M5). destruct Hmm as (_ & _ & _ & D).
      destruct (div_bounds (msize m) (mdt m)) as (L0 & L1 & L2); [unfold dt_ok in D; lia | lia |].
      unfold wf_mem, m', m_len; cbn [mbuf moff msize mdt]. repeat split; try assumption; try nia; apply Hdt.
    + intros [].
  - apply (good_intro _ _ _ ms ss ERR); auto.
    + apply step_throw. cbn [frontend]. rewrite Em. reflexivity.
    + cbn [s_step]. rewrite EH. reflexivity.
Qed.

Lemma good_OAssign ms ss d sidx : wf ms -> Rel ms ss -> good ms ss (OAssign d sidx).
Proof.
  intros Hwf HR. pose proof (spec_handle ms ss sidx HR) as EH.
  apply (good_intro _ _ _ (sethandle ms d (geth (hs ms) sidx))
                    (with_handle ss d (option_map m2v (geth (hs ms) sidx))) OK).
  - reflexivity.
  - cbn [s_step]. rewrite EH. reflexivity.
  - apply Rel_sethandle; assumption.
  - apply wf_sethandle; auto. intros m E. apply (wf_get _ _ _ Hwf E).
  - intros [].
Qed.

Lemma good_OReset ms ss d : wf ms -> Rel ms ss -> good ms ss (OReset d).
Proof.
  intros Hwf HR.
  apply (good_intro _ _ _ (sethandle ms d None) (with_handle ss d (option_map m2v None)) OK).
  - reflexivity.
  - reflexivity.
  - apply Rel_sethandle; assumption.
  - apply wf_sethandle; auto. intros m E; discriminate.
  - intros [].
Qed.

Lemma good_OSize ms ss a : wf ms -> Rel ms ss -> good ms ss (OSize a).
Proof.
  intros Hwf HR. pose proof (spec_handle ms ss a HR) as EH.
  apply (good_intro _ _ _ ms ss
           (OKN (match geth (hs ms) a with None => [0; 0; 0] | Some m => [m_len m; msize m; mdt m] end))).
  - reflexivity.
  - cbn [s_step]. rewrite EH. destruct (geth (hs ms) a); reflexivity.
  - assumption.
  - assumption.
  - intros [].
Qed.

Lemma zseq_all_nth l : map (fun i => nth (Z.to_nat i) l 0) (zseq 0 (zlen l)) = l.
Proof.
  apply list_eq_nth.
  - rewrite map_length, zseq_length. unfold zlen. lia.
  - intros k Hk. rewrite map_length, zseq_length in Hk. unfold zlen in Hk.
    rewrite nth_indep with (d' := (fun i => nth (Z.to_nat i) l 0) 0) by (rewrite map_length, zseq_length; unfold zlen; lia).
    rewrite (map_nth (fun i => nth (Z.to_nat i) l 0)). rewrite nth_zseq by (unfold zlen; lia).
    f_equal. lia.
Qed.

Lemma good_OHostRead ms ss k : wf ms -> Rel ms ss -> good ms ss (OHostRead k).
Proof.
  intros Hwf HR. pose proof HR as [R1 R2 R3 R4].
  apply (good_intro _ _ _ ms ss
           (match nth_error (wraps ms) k with Some b => OKB (getbuf ms b) | None => OKN [] end)).
  - reflexivity.
  - cbn [s_step]. rewrite R4. destruct (nth_error (wraps ms) k) as [b |] eqn:E; [| reflexivity].
    assert (Hb : (b < length (bufs ms))%nat).
    { destruct Hwf as (_ & _ & Hw). apply Hw. eapply nth_error_In; eauto. }
    assert (Er : read ss b 0 (nth b (slens ss) 0) = getbuf ms b).
    { unfold read. rewrite R1. change 0 with (zlen (@nil Z)) at 2. rewrite map_nth. fold (getbuf ms b).
      transitivity (map (fun i => nth (Z.to_nat i) (getbuf ms b) 0) (zseq 0 (zlen (getbuf ms b)))).
      - apply map_ext_in. intros i Hi. apply in_zseq in Hi. symmetry. apply R2; [assumption | lia].
      - apply zseq_all_nth. }
    rewrite Er. reflexivity.
  - assumption.
  - assumption.
  - destruct (nth_error (wraps ms) k); intros [].
Qed.

Lemma host_cond_within m off c :
  (0 <=? off) && (0 <=? c) && ((off + c) * mdt m <=? msize m) = true -> dt_ok (mdt m) ->
  within m (c * mdt m) (off * mdt m).
Proof.
  intros Cond D. apply andb_true_iff in Cond as [Cond C3]. apply andb_true_iff in Cond as [C1 C2].
  apply Z.leb_le in C1, C2, C3. unfold within, dt_ok in *. repeat split; nia.
Qed.

Lemma good_OCopyToH ms ss a cnt off : wf ms -> Rel ms ss -> small cnt -> small off ->
  good ms ss (OCopyToH a cnt off).
Proof.
  intros Hwf HR Hc Hoff.
  pose proof (spec_handle ms ss a HR) as EH.
  destruct (geth (hs ms) a) as [m |] eqn:Em; cbn [option_map] in EH.
  - destruct (wf_get _ _ _ Hwf Em) as (Hm & Hmm).
    pose proof (host_copy_args_char m cnt off Hmm Hc Hoff) as Ec. cbv zeta in Ec.
    set (c := if cnt =? -1 then m_len m else cnt) in *.
    destruct ((0 <=? off) && (0 <=? c) && ((off + c) * mdt m <=? msize m)) eqn:Cond.
    + pose proof (host_cond_within m off c Cond (proj2 (proj2 (proj2 Hmm)))) as W.
      apply (good_intro _ _ _ ms ss (OKB (rd (getbuf ms (mbuf m)) (moff m + off * mdt m) (c * mdt m)))); auto.
      * apply (step_ret _ _ (PRead m (c * mdt m) (off * mdt m))).
        -- cbn [frontend]. rewrite Em. unfold memory_copyToH. rewrite Ec. reflexivity.
        -- cbn [exec]. rewrite do_read_ok by assumption. reflexivity.
      * cbn [s_step]. rewrite EH. unfold erange, copy_count, elems. cbn [m2v vb vlo vlen vdt].
        fold (m_len m). fold c. rewrite Cond. unfold read.
        destruct HR as [R1 R2 R3 R4]. destruct Hm as (M1 & M2 & M3 & M4 & M5). destruct W as (W1 & W2 & W3).
        rewrite (rd_map _ (smap ss (mbuf m))); auto; lia.
    + apply (good_intro _ _ _ ms ss ERR); auto.
      * apply step_throw. cbn [frontend]. rewrite Em. unfold memory_copyToH. rewrite Ec. reflexivity.
      * cbn [s_step]. rewrite EH. unfold erange, copy_count, elems. cbn [m2v vb vlo vlen vdt].
        fold (m_len m). fold c. rewrite Cond. reflexivity.
  - apply (good_intro _ _ _ ms ss ERR); auto.
    + apply step_throw. cbn [frontend]. rewrite Em. reflexivity.
    + cbn [s_step]. rewrite EH. reflexivity.
Qed.

Lemma good_OCopyFromH ms ss a cnt off seed : wf ms -> Rel ms ss -> small cnt -> small off ->
  good ms ss (OCopyFromH a cnt off seed).
Proof.
  intros Hwf HR Hc Hoff.
  pose proof (spec_handle ms ss a HR) as EH.
  destruct (geth (hs ms) a) as [m |] eqn:Em; cbn [option_map] in EH.
  - destruct (wf_get _ _ _ Hwf Em) as (Hm & Hmm).
    pose proof (host_copy_args_char m cnt off Hmm Hc Hoff) as Ec. cbv zeta in Ec.
    set (c := if cnt =? -1 then m_len m else cnt) in *.
    destruct ((0 <=? off) && (0 <=? c) && ((off + c) * mdt m <=? msize m)) eqn:Cond.
    + pose proof (host_cond_within m off c Cond (proj2 (proj2 (proj2 Hmm)))) as W.
      pose proof W as (W1 & W2 & W3). pose proof Hm as (M1 & M2 & M3 & M4 & M5).
      set (data := patl seed (c * mdt m)).
      assert (Zd : zlen data = c * mdt m) by (apply zlen_patl; assumption).
      set (start := moff m + off * mdt m).
      apply (good_intro _ _ _ (setbuf ms (mbuf m) (wr (getbuf ms (mbuf m)) start data))
               (with_map ss (upd (smap ss) (mbuf m) start (zlen data) (fun i => pat seed (i - start)))) OK).
      * apply (step_ret _ _ (PWrite m (c * mdt m) (off * mdt m))).
        -- cbn [frontend]. rewrite Em. unfold memory_copyFromH. rewrite Ec. reflexivity.
        -- cbn [exec seed_of]. fold data. rewrite do_write_ok; [reflexivity | assumption |].
           rewrite Zd. assumption.
      * cbn [s_step]. rewrite EH. unfold erange, copy_count, elems. cbn [m2v vb vlo vlen vdt].
        fold (m_len m). fold c. rewrite Cond. fold start. rewrite Zd. reflexivity.
      * apply Rel_write; auto; try (unfold start; lia).
        intros k Hk. unfold data. rewrite nth_patl by lia. f_equal. lia.
      * apply wf_setbuf; auto. unfold zlen. rewrite wr_length; auto; unfold start; lia.
      * intros [].
    + apply (good_intro _ _ _ ms ss ERR); auto.
      * apply step_throw. cbn [frontend]. rewrite Em. unfold memory_copyFromH. rewrite Ec. reflexivity.
      * cbn [s_step]. rewrite EH. unfold erange, copy_count, elems. cbn [m2v vb vlo vlen vdt].
        fold (m_len m). fold c. rewrite Cond. reflexivity.
  - apply (good_intro _ _ _ ms ss ERR); auto.
    + apply step_throw. cbn [frontend]. rewrite Em. reflexivity.
    + cbn [s_step]. rewrite EH. reflexivity.
Qed.

Lemma copy_effect ms ss dst src n dB sB :
  wf ms -> Rel ms ss -> wf_mem ms dst -> wf_mem ms src -> within dst n dB -> within src n sB ->
  let ms' := setbuf ms (mbuf dst) (wr (getbuf ms (mbuf dst)) (moff dst + dB)
                                      (rd (getbuf ms (mbuf src)) (moff src + sB) n)) in
  do_copy fixed ms dst src n dB sB = Ret ms' /\ wf ms' /\
  Rel ms' (with_map ss (upd (smap ss) (mbuf dst) (moff dst + dB) n
                            (fun i => smap ss (mbuf src) (moff src + sB + (i - (moff dst + dB)))))).
Proof.
  intros Hwf HR Hd Hs Wd Ws ms'.
  pose proof Hs as (S1 & S2 & S3 & S4 & S5). pose proof Ws as (V1 & V2 & V3).
  pose proof Hd as (D1 & D2 & D3 & D4 & D5). pose proof Wd as (U1 & U2 & U3).
  set (data := rd (getbuf ms (mbuf src)) (moff src + sB) n) in *.
  assert (Zd : zlen data = n) by (apply zlen_rd; lia).
  split; [apply do_copy_ok; assumption |]. split.
  - apply wf_setbuf; auto. unfold zlen. rewrite wr_length; auto; lia.
  - rewrite <- Zd at 1. apply Rel_write; auto; try lia.
    intros k Hk. unfold data. replace k with (Z.of_nat (Z.to_nat k)) at 1 by lia.
    rewrite nth_rd by lia. destruct HR as [R1 R2 R3 R4].
    rewrite (R2 (mbuf src) S1) by lia. f_equal. lia.
Qed.

Lemma copy_cond_within dst src n doff soff :
  (0 <=? n) && (0 <=? doff) && (0 <=? soff) && (doff * mdt dst + n <=? msize dst) && (soff * mdt src + n <=? msize src) = true ->
  dt_ok (mdt dst) -> dt_ok (mdt src) ->
  within dst n (doff * mdt dst) /\ within src n (soff * mdt src).
Proof.
  intros Cond D1 D2. repeat (apply andb_true_iff in Cond as [Cond ?]).
  repeat match goal with H : (_ <=? _) = true |- _ => apply Z.leb_le in H end.
  unfold within, dt_ok in *. repeat split; nia.
Qed.

Lemma good_OCopyFromM ms ss a b cnt doff soff : wf ms -> Rel ms ss -> small cnt -> small doff -> small soff ->
  good ms ss (OCopyFromM a b cnt doff soff).
Proof.
  intros Hwf HR Hc Hd Hso.
  pose proof (spec_handle ms ss a HR) as EHa. pose proof (spec_handle ms ss b HR) as EHb.
  destruct (geth (hs ms) a) as [m |] eqn:Ea; cbn [option_map] in EHa.
  - destruct (geth (hs ms) b) as [sm |] eqn:Eb; cbn [option_map] in EHb.
    + destruct (wf_get _ _ _ Hwf Ea) as (Hm & Hmm). destruct (wf_get _ _ _ Hwf Eb) as (Hsm & Hsmm).
      pose proof (memory_copyFromM_char m sm cnt doff soff Hmm Hsmm Hc Hd Hso) as Ec. cbv zeta in Ec.
      set (n := (if cnt =? -1 then m_len m else cnt) * mdt m) in *.
      destruct ((0 <=? n) && (0 <=? doff) && (0 <=? soff) && (doff * mdt m + n <=? msize m)
                && (soff * mdt sm + n <=? msize sm)) eqn:Cond.
      * destruct (copy_cond_within m sm n doff soff Cond (proj2 (proj2 (proj2 Hmm))) (proj2 (proj2 (proj2 Hsmm)))) as (Wd & Ws).
        destruct (copy_effect ms ss m sm n (doff * mdt m) (soff * mdt sm) Hwf HR Hm Hsm Wd Ws) as (E1 & W1 & R1).
        eapply good_intro; [| | exact R1 | exact W1 | ].
        -- apply (step_ret _ _ (PCopy m sm n (doff * mdt m) (soff * mdt sm))).
           ++ cbn [frontend]. rewrite Ea, Eb, Ec. reflexivity.
           ++ cbn [exec]. rewrite E1. reflexivity.
        -- cbn [s_step]. rewrite EHa, EHb. unfold copy_count, elems. cbn [m2v vb vlo vlen vdt].
           fold (m_len m). fold n. rewrite Cond. reflexivity.
        -- intros [].
      * apply (good_intro _ _ _ ms ss ERR); auto.
        -- apply step_throw. cbn [frontend]. rewrite Ea, Eb, Ec. reflexivity.
        -- cbn [s_step]. rewrite EHa, EHb. unfold copy_count, elems. cbn [m2v vb vlo vlen vdt].
           fold (m_len m). fold n. rewrite Cond. reflexivity.
    + apply (good_intro _ _ _ ms ss ERR); auto.
      * apply step_throw. cbn [frontend]. rewrite Ea, Eb. reflexivity.
      * cbn [s_step]. rewrite EHa, EHb. reflexivity.
  - apply (good_intro _ _ _ ms ss ERR); auto.
    + apply step_throw. cbn [frontend]. rewrite Ea. destruct (geth (hs ms) b); reflexivity.
    + cbn [s_step]. rewrite EHa. reflexivity.
Qed.

Lemma good_OCopyToM ms ss a b cnt doff soff : wf ms -> Rel ms ss -> small cnt -> small doff -> small soff ->
  good ms ss (OCopyToM a b cnt doff soff).
Proof.
  intros Hwf HR Hc Hd Hso.
  pose proof (spec_handle ms ss a HR) as EHa. pose proof (spec_handle ms ss b HR) as EHb.
  destruct (geth (hs ms) a) as [m |] eqn:Ea; cbn [option_map] in EHa.
  - destruct (geth (hs ms) b) as [dm |] eqn:Eb; cbn [option_map] in EHb.
    + destruct (wf_get _ _ _ Hwf Ea) as (Hm & Hmm). destruct (wf_get _ _ _ Hwf Eb) as (Hdm & Hdmm).
      pose proof (memory_copyToM_char m dm cnt doff soff Hmm Hdmm Hc Hd Hso) as Ec. cbv zeta in Ec.
      set (n := (if cnt =? -1 then m_len m else cnt) * mdt m) in *.
      destruct ((0 <=? n) && (0 <=? doff) && (0 <=? soff) && (doff * mdt dm + n <=? msize dm)
                && (soff * mdt m + n <=? msize m)) eqn:Cond.
      * destruct (copy_cond_within dm m n doff soff Cond (proj2 (proj2 (proj2 Hdmm))) (proj2 (proj2 (proj2 Hmm)))) as (Wd & Ws).
        destruct (copy_effect ms ss dm m n (doff * mdt dm) (soff * mdt m) Hwf HR Hdm Hm Wd Ws) as (E1 & W1 & R1).
        eapply good_intro; [| | exact R1 | exact W1 | ].
        -- apply (step_ret _ _ (PCopy dm m n (doff * mdt dm) (soff * mdt m))).
           ++ cbn [frontend]. rewrite Ea, Eb, Ec. reflexivity.
           ++ cbn [exec]. rewrite E1. reflexivity.
        -- cbn [s_step]. rewrite EHa, EHb. unfold copy_count, elems. cbn [m2v vb vlo vlen vdt].
           fold (m_len m). fold n. rewrite Cond. reflexivity.
        -- intros [].
      * apply (good_intro _ _ _ ms ss ERR); auto.
        -- apply step_throw. cbn [frontend]. rewrite Ea, Eb, Ec. reflexivity.
        -- cbn [s_step]. rewrite EHa, EHb. unfold copy_count, elems. cbn [m2v vb vlo vlen vdt].
           fold (m_len m). fold n. rewrite Cond. reflexivity.
    + apply (good_intro _ _ _ ms ss ERR); auto.
      * apply step_throw. cbn [frontend]. rewrite Ea, Eb. reflexivity.
      * cbn [s_step]. rewrite EHa, EHb. reflexivity.
  - apply (good_intro _ _ _ ms ss ERR); auto.
    + apply step_throw. cbn [frontend]. rewrite Ea. destruct (geth (hs ms) b); reflexivity.
    + cbn [s_step]. rewrite EHa. reflexivity.
Qed.

Lemma Rel_lens ms ss : Rel ms ss -> length (slens ss) = length (bufs ms).
Proof. intros [R1 _ _ _]. rewrite R1, map_length. reflexivity. Qed.

Lemma wf_mem_fresh ms content w n dt : zlen content = n -> 0 <= n -> dt_ok dt ->
  wf_mem (alloc_state ms content w) (mkMem (length (bufs ms)) 0 n dt).
Proof.
  intros Hc Hn Hdt. unfold wf_mem. cbn [mbuf moff msize mdt]. rewrite getbuf_alloc_new.
  cbn [alloc_state bufs]. rewrite app_length. cbn [length]. repeat split; try lia; apply Hdt.
Qed.

(* malloc without source / with a host source / wrapMemory *)
Lemma alloc_plain ms ss d n dt w content g :
  wf ms -> Rel ms ss -> 0 <= n < BMAX -> dt_ok dt -> zlen content = n ->
  (forall k, 0 <= k < n -> nth (Z.to_nat k) content 0 = g k) ->
  let ms' := sethandle (alloc_state ms content w) d (Some (mkMem (length (bufs ms)) 0 n dt)) in
  wf ms' /\ Rel ms' (new_buffer ss d n dt w g).
Proof.
  intros Hwf HR Hn Hdt Hc Hg ms'. split.
  - apply wf_sethandle; [apply wf_alloc; auto; lia |].
    intros m E; inversion E; subst m. apply wf_mem_fresh; auto; lia.
  - pose proof (Rel_sethandle _ _ d (Some (mkMem (length (bufs ms)) 0 n dt)) (Rel_alloc ms ss content n w g HR Hc Hg)) as H.
    unfold new_buffer. unfold with_handle, alloc_spec, m2v in H. cbn [smap slens shs swraps option_map mbuf moff msize mdt] in H.
    rewrite (Rel_lens ms ss HR) in *. exact H.
Qed.

(* malloc with a memory source / clone *)
Lemma alloc_copy ms ss d n dt src :
  wf ms -> Rel ms ss -> 0 <= n < BMAX -> dt_ok dt -> wf_mem ms src -> n <= msize src ->
  let b := length (bufs ms) in
  let fresh := mkMem b 0 n dt in
  let s1 := alloc_state ms (repeat undef (Z.to_nat n)) false in
  exists s2, do_copy fixed s1 fresh src n 0 0 = Ret s2 /\
    wf (sethandle s2 d (Some fresh)) /\
    Rel (sethandle s2 d (Some fresh)) (new_buffer ss d n dt false (fun i => smap ss (mbuf src) (moff src + i))).
Proof.
  intros Hwf HR Hn Hdt Hsrc Hle b fresh s1.
  assert (Zc : zlen (repeat undef (Z.to_nat n)) = n) by (apply zlen_repeat; lia).
  assert (W1 : wf s1) by (apply wf_alloc; auto; lia).
  assert (R1 : Rel s1 (alloc_spec ss n false (fun _ => undef))).
  { apply Rel_alloc; auto. intros k Hk. apply nth_repeat_lt. lia. }
  assert (Hf : wf_mem s1 fresh) by (apply wf_mem_fresh; auto; lia).
  pose proof Hsrc as (S1 & S2 & S3 & S4 & S5).
  assert (Hs : wf_mem s1 src).
  { apply (wf_mem_mono ms); auto.
    - unfold s1; cbn [alloc_state bufs]. rewrite app_length. lia.
    - intros; unfold s1; rewrite getbuf_alloc_old; auto. }
  assert (Wd : within fresh n 0) by (unfold within, fresh; cbn [msize]; lia).
  assert (Ws : within src n 0) by (unfold within; lia).
  destruct (copy_effect s1 _ fresh src n 0 0 W1 R1 Hf Hs Wd Ws) as (E & W2 & R2).
  eexists. split; [exact E |]. split.
  - apply wf_sethandle; auto. intros m Em; inversion Em; subst m.
    apply (wf_mem_mono s1); auto.
    + cbn [setbuf bufs]. rewrite setnth_length. lia.
    + intros. apply zlen_getbuf_setbuf. unfold zlen. rewrite wr_length; auto.
      * unfold fresh; cbn [moff]. lia.
      * unfold fresh; cbn [moff mbuf]. rewrite zlen_rd.
        -- unfold s1, b. rewrite getbuf_alloc_new. lia.
        -- lia.
        -- lia.
        -- unfold s1. rewrite getbuf_alloc_old by assumption. lia.
  - match type of R2 with Rel ?s ?x => set (X := x) in *; set (s2 := s) in * end.
    assert (R3 : Rel s2 (mkS (upd (smap ss) (length (slens ss)) 0 n (fun i => smap ss (mbuf src) (moff src + i)))
                              (slens X) (shs X) (swraps X))).
    { apply Rel_ext; auto. intros b' i. unfold X, alloc_spec, with_map, upd. cbn [smap slens shs swraps fresh mbuf moff].
      unfold b. rewrite <- (Rel_lens ms ss HR).
      destruct (Nat.eqb_spec b' (length (slens ss))) as [-> | Hne]; cbn [andb]; [| reflexivity].
      replace (0 + 0) with 0 by lia.
      destruct ((0 <=? i) && (i <? 0 + n)) eqn:Ci; [| reflexivity].
      destruct (Nat.eqb_spec (mbuf src) (length (slens ss))) as [Eq | _]; cbn [andb].
      - rewrite (Rel_lens ms ss HR) in Eq. lia.
      - f_equal. lia. }
    pose proof (Rel_sethandle _ _ d (Some fresh) R3) as H.
    unfold new_buffer. unfold with_handle, m2v in H. unfold X, alloc_spec, with_map in H.
    cbn [smap slens shs swraps option_map fresh mbuf moff msize mdt] in H.
    unfold b in H. rewrite (Rel_lens ms ss HR) in *. exact H.
Qed.

(* the allocation requests the library rejects: negative counts and byte sizes above max_bytes *)
Definition rej (n dt : Z) : bool := (n <? 0) || (max_bytes <? n * dt).

Lemma rej_false n dt : dt_ok dt -> rej n dt = false -> 0 <= n /\ 0 <= n * dt < BMAX.
Proof.
  unfold rej, dt_ok. intros Hdt E. apply orb_false_iff in E as [E1 E2]. apply Z.ltb_ge in E1, E2.
  consts_in. nia.
Qed.

Lemma good_alloc_plain ms ss o d n dt w i content g :
  wf ms -> Rel ms ss -> 0 <= n < BMAX -> dt_ok dt -> slot_of o = d ->
  frontend fixed ms o = Ret (PAlloc n dt w i) ->
  (match i with IHost seed => content = patl seed n | INone => content = repeat undef (Z.to_nat n) | IMem _ _ _ _ => False end) ->
  zlen content = n -> (forall k, 0 <= k < n -> nth (Z.to_nat k) content 0 = g k) ->
  s_step ss o = (new_buffer ss d n dt w g, OK) ->
  good ms ss o.
Proof.
  intros Hwf HR Hn Hdt Hd Ef Hi Hc Hg Es.
  destruct (alloc_plain ms ss d n dt w content g Hwf HR Hn Hdt Hc Hg) as (W & R).
  eapply good_intro; [| exact Es | exact R | exact W | intros []].
  apply (step_ret _ _ _ _ Ef). cbn [exec]. rewrite Hd.
  destruct i as [| seed |]; [subst content; reflexivity | subst content; reflexivity | destruct Hi].
Qed.

Lemma good_OMalloc ms ss d n dt : wf ms -> Rel ms ss -> dt_ok dt -> good ms ss (OMalloc d n dt).
Proof.
  intros Hwf HR Hdt.
  assert (Ef : frontend fixed ms (OMalloc d n dt) =
               if n =? 0 then Ret (PSetHandle None) else if rej n dt then Throw else Ret (PAlloc (n * dt) dt false INone)).
  { cbn [frontend]. rewrite device_malloc_bytes_char by assumption. fold (rej n dt).
    destruct (n =? 0); [reflexivity |]. destruct (rej n dt); reflexivity. }
  destruct (Z.eqb_spec n 0) as [E0 | E0].
  - apply (good_intro _ _ _ (sethandle ms d None) (with_handle ss d (option_map m2v None)) OK).
    + apply (step_ret _ _ _ _ Ef). reflexivity.
    + cbn [s_step]. destruct (Z.eqb_spec n 0); [reflexivity | lia].
    + apply Rel_sethandle; assumption.
    + apply wf_sethandle; auto. intros m E; discriminate.
    + intros [].
  - destruct (rej n dt) eqn:Er.
    + apply (good_intro _ _ _ ms ss ERR); auto.
      * apply step_throw. exact Ef.
      * cbn [s_step]. change alloc_limit with max_bytes. fold (rej n dt).
        destruct (Z.eqb_spec n 0); [lia |]. rewrite Er. reflexivity.
    + destruct (rej_false n dt Hdt Er) as (Hn0 & Hb).
      apply (good_alloc_plain ms ss _ d (n * dt) dt false INone (repeat undef (Z.to_nat (n * dt))) (fun _ => undef)); auto.
      * apply zlen_repeat; lia.
      * intros k Hk. apply nth_repeat_lt. lia.
      * cbn [s_step]. change alloc_limit with max_bytes. fold (rej n dt).
        destruct (Z.eqb_spec n 0); [lia |]. rewrite Er. reflexivity.
Qed.

Lemma good_OMallocH ms ss d n dt seed uhp : wf ms -> Rel ms ss -> dt_ok dt ->
  good ms ss (OMallocH d n dt seed uhp).
Proof.
  intros Hwf HR Hdt.
  assert (Ef : frontend fixed ms (OMallocH d n dt seed uhp) =
               if n =? 0 then Ret (PSetHandle None) else if rej n dt then Throw else Ret (PAlloc (n * dt) dt uhp (IHost seed))).
  { cbn [frontend]. rewrite device_malloc_bytes_char by assumption. fold (rej n dt).
    destruct (n =? 0); [reflexivity |]. destruct (rej n dt); reflexivity. }
  destruct (Z.eqb_spec n 0) as [E0 | E0].
  - apply (good_intro _ _ _ (sethandle ms d None) (with_handle ss d (option_map m2v None)) OK).
    + apply (step_ret _ _ _ _ Ef). reflexivity.
    + cbn [s_step]. destruct (Z.eqb_spec n 0); [reflexivity | lia].
    + apply Rel_sethandle; assumption.
    + apply wf_sethandle; auto. intros m E; discriminate.
    + intros [].
  - destruct (rej n dt) eqn:Er.
    + apply (good_intro _ _ _ ms ss ERR); auto.
      * apply step_throw. exact Ef.
      * cbn [s_step]. change alloc_limit with max_bytes. fold (rej n dt).
        destruct (Z.eqb_spec n 0); [lia |]. rewrite Er. reflexivity.
    + destruct (rej_false n dt Hdt Er) as (Hn0 & Hb).
      apply (good_alloc_plain ms ss _ d (n * dt) dt uhp (IHost seed) (patl seed (n * dt)) (pat seed)); auto.
      * apply zlen_patl; lia.
      * intros k Hk. apply nth_patl. lia.
      * cbn [s_step]. change alloc_limit with max_bytes. fold (rej n dt).
        destruct (Z.eqb_spec n 0); [lia |]. rewrite Er. reflexivity.
Qed.

Lemma good_OWrap ms ss d n dt seed : wf ms -> Rel ms ss -> dt_ok dt -> good ms ss (OWrap d n dt seed).
Proof.
  intros Hwf HR Hdt.
  assert (Ef : frontend fixed ms (OWrap d n dt seed) =
               if rej n dt then Throw else Ret (PAlloc (n * dt) dt true (IHost seed))).
  { cbn [frontend]. apply device_wrap_char; assumption. }
  destruct (rej n dt) eqn:Er.
  - apply (good_intro _ _ _ ms ss ERR); auto.
    + apply step_throw. exact Ef.
    + cbn [s_step]. change alloc_limit with max_bytes. fold (rej n dt). rewrite Er. reflexivity.
  - destruct (rej_false n dt Hdt Er) as (Hn0 & Hb).
    apply (good_alloc_plain ms ss _ d (n * dt) dt true (IHost seed) (patl seed (n * dt)) (pat seed)); auto.
    + apply zlen_patl; lia.
    + intros k Hk. apply nth_patl. lia.
    + cbn [s_step]. change alloc_limit with max_bytes. fold (rej n dt). rewrite Er. reflexivity.
Qed.

Lemma good_alloc_copy ms ss o d n dt src :
  wf ms -> Rel ms ss -> 0 <= n < BMAX -> dt_ok dt -> slot_of o = d -> wf_mem ms src -> n <= msize src ->
  frontend fixed ms o = Ret (PAlloc n dt false (IMem src n 0 0)) ->
  s_step ss o = (new_buffer ss d n dt false (fun i => smap ss (mbuf src) (moff src + i)), OK) ->
  good ms ss o.
Proof.
  intros Hwf HR Hn Hdt Hd Hsrc Hle Ef Es.
  destruct (alloc_copy ms ss d n dt src Hwf HR Hn Hdt Hsrc Hle) as (s2 & E & W & R).
  eapply good_intro; [| exact Es | exact R | exact W | intros []].
  apply (step_ret _ _ _ _ Ef). cbn [exec]. rewrite Hd.
  unfold alloc_state in E. rewrite E. reflexivity.
Qed.

Lemma good_OMallocM ms ss d n dt sidx : wf ms -> Rel ms ss -> dt_ok dt -> good ms ss (OMallocM d n dt sidx).
Proof.
  intros Hwf HR Hdt.
  pose proof (spec_handle ms ss sidx HR) as EH.
  assert (Ef : frontend fixed ms (OMallocM d n dt sidx) =
               if n =? 0 then Ret (PSetHandle None) else if rej n dt then Throw else
               match geth (hs ms) sidx with
               | None => Ret (PAlloc (n * dt) dt false INone)
               | Some sm => if n * dt <=? msize sm then Ret (PAlloc (n * dt) dt false (IMem sm (n * dt) 0 0)) else Throw
               end).
  { cbn [frontend]. apply device_mallocM_char; auto. intros sm E. apply (wf_get _ _ _ Hwf E). }
  destruct (Z.eqb_spec n 0) as [E0 | E0].
  - apply (good_intro _ _ _ (sethandle ms d None) (with_handle ss d (option_map m2v None)) OK).
    + apply (step_ret _ _ _ _ Ef). reflexivity.
    + cbn [s_step]. destruct (Z.eqb_spec n 0); [reflexivity | lia].
    + apply Rel_sethandle; assumption.
    + apply wf_sethandle; auto. intros m E; discriminate.
    + intros [].
  - destruct (rej n dt) eqn:Er.
    + apply (good_intro _ _ _ ms ss ERR); auto.
      * apply step_throw. exact Ef.
      * cbn [s_step]. change alloc_limit with max_bytes. fold (rej n dt).
        destruct (Z.eqb_spec n 0); [lia |]. rewrite Er. reflexivity.
    + destruct (rej_false n dt Hdt Er) as (Hn0 & Hb).
      destruct (geth (hs ms) sidx) as [sm |] eqn:Es; cbn [option_map] in EH.
      * destruct (Z.leb_spec (n * dt) (msize sm)) as [Hle | Hgt].
        -- destruct (wf_get _ _ _ Hwf Es) as (Hsm & _).
           apply (good_alloc_copy ms ss _ d (n * dt) dt sm); auto.
           cbn [s_step]. change alloc_limit with max_bytes. fold (rej n dt).
           destruct (Z.eqb_spec n 0); [lia |]. rewrite Er.
           rewrite EH. cbn [m2v vlen vb vlo]. destruct (Z.leb_spec (n * dt) (msize sm)); [reflexivity | lia].
        -- apply (good_intro _ _ _ ms ss ERR); auto.
           ++ apply step_throw. exact Ef.
           ++ cbn [s_step]. change alloc_limit with max_bytes. fold (rej n dt).
              destruct (Z.eqb_spec n 0); [lia |]. rewrite Er.
              rewrite EH. cbn [m2v vlen vb vlo]. destruct (Z.leb_spec (n * dt) (msize sm)); [lia | reflexivity].
      * apply (good_alloc_plain ms ss _ d (n * dt) dt false INone (repeat undef (Z.to_nat (n * dt))) (fun _ => undef)); auto.
        -- apply zlen_repeat; lia.
        -- intros k Hk. apply nth_repeat_lt. lia.
        -- cbn [s_step]. change alloc_limit with max_bytes. fold (rej n dt).
           destruct (Z.eqb_spec n 0); [lia |]. rewrite Er.
           rewrite EH. reflexivity.
Qed.

Lemma good_OClone ms ss d sidx : wf ms -> Rel ms ss -> good ms ss (OClone d sidx).
Proof.
  intros Hwf HR. pose proof (spec_handle ms ss sidx HR) as EH.
  destruct (geth (hs ms) sidx) as [m |] eqn:Em; cbn [option_map] in EH.
  - destruct (wf_get _ _ _ Hwf Em) as (Hm & Hmm).
    assert (Ef : frontend fixed ms (OClone d sidx) =
                 if msize m =? 0 then Throw else Ret (PAlloc (msize m) (mdt m) false (IMem m (msize m) 0 0))).
    { cbn [frontend]. rewrite Em. apply memory_clone_char; assumption. }
    destruct (Z.eqb_spec (msize m) 0) as [E0 | E0].
    + apply (good_intro _ _ _ ms ss ERR); auto.
      * apply step_throw. exact Ef.
      * cbn [s_step]. rewrite EH. cbn [m2v vlen]. destruct (Z.eqb_spec (msize m) 0); [reflexivity | lia].
    + destruct Hmm as (A1 & A2 & A3 & A4).
      apply (good_alloc_copy ms ss _ d (msize m) (mdt m) m); auto; try lia.
      cbn [s_step]. rewrite EH. cbn [m2v vlen vb vlo vdt]. destruct (Z.eqb_spec (msize m) 0); [lia | reflexivity].
  - apply (good_intro _ _ _ ms ss ERR); auto.
    + apply step_throw. cbn [frontend]. rewrite Em. reflexivity.
    + cbn [s_step]. rewrite EH. reflexivity.
Qed.

(* ------------------------------------------------------------------ every operation *)
Theorem step_good ms ss o : wf ms -> Rel ms ss -> op_ok o -> good ms ss o.
Proof.
  intros Hwf HR Hok. destruct o; cbn [op_ok] in Hok.
  - apply good_OMalloc; tauto.
  - apply good_OMallocH; tauto.
  - apply good_OMallocM; tauto.
  - apply good_OWrap; tauto.
  - apply good_OSlice; tauto.
  - apply good_OCast; tauto.
  - apply good_OClone; tauto.
  - apply good_OCopyFromH; tauto.
  - apply good_OCopyToH; tauto.
  - apply good_OCopyFromM; tauto.
  - apply good_OCopyToM; tauto.
  - apply good_OAssign; tauto.
  - apply good_OReset; tauto.
  - apply good_OSize; tauto.
  - apply good_OHostRead; tauto.
Qed.

(* ------------------------------------------------------------------ part 5: histories *)
Lemma wf_init : wf init.
Proof.
  split; [| split].
  - intros i m H. unfold init, geth in H. cbn [hs] in H.
    assert (nth i (repeat (@None mem) nslots) None = None).
    { clear. generalize nslots. intros n. revert i. induction n; intros [| i]; cbn; auto. }
    congruence.
  - intros b. unfold getbuf, init; cbn. destruct b; reflexivity.
  - intros b [].
Qed.

Lemma Rel_init : Rel init sinit.
Proof.
  constructor; cbn; auto.
  intros b Hb. lia.
Qed.

Lemma run_refines_gen h : forall ms ss, wf ms -> Rel ms ss -> ops_ok h ->
  run fixed ms h = s_run ss h /\ Forall (fun ob => ~ is_crash ob) (run fixed ms h).
Proof.
  induction h as [| o h IH]; intros ms ss Hwf HR Hok; cbn [run s_run].
  - split; constructor.
  - inversion Hok as [| ? ? Ho Hh]; subst.
    destruct (step_good ms ss o Hwf HR Ho) as (E & R' & W' & NC).
    destruct (IH _ _ W' R' Hh) as (E2 & F2).
    split; [rewrite E, E2; reflexivity | constructor; assumption].
Qed.


Lemma wf_final h : forall ms ss, wf ms -> Rel ms ss -> ops_ok h -> wf (final fixed ms h).
Proof.
  induction h as [| o h IH]; intros ms ss Hwf HR Hok; cbn [final]; auto.
  inversion Hok as [| ? ? Ho Hh]; subst.
  destruct (step_good ms ss o Hwf HR Ho) as (E & R' & W' & NC). eapply IH; eauto.
Qed.

(* ------------------------------------------------------------------ rejected requests change nothing *)
Lemma exec_not_err c s o p s' ob : exec c s o p = Ret (s', ob) -> ob <> ERR.
Proof.
  destruct p; cbn [exec]; intros E.
  - inversion E; subst. destruct o; discriminate.
  - inversion E; discriminate.
  - destruct (do_read s m bytes off); cbn [bind] in E; inversion E; discriminate.
  - destruct (do_write s m off _); cbn [bind] in E; inversion E; discriminate.
  - destruct (do_copy c s dst src bytes doff soff); cbn [bind] in E; inversion E; discriminate.
  - match type of E with (bind ?x _) = _ => destruct x end; cbn [bind] in E; inversion E; discriminate.
  - inversion E; discriminate.
  - inversion E; subst. destruct (nth_error (wraps s') k); discriminate.
Qed.

Lemma step_err_unchanged c s o s' : step c s o = (s', ERR) -> s' = s.
Proof.
  unfold step. destruct (frontend c s o) as [p | | k]; cbn [bind].
  - destruct (exec c s o p) as [[s'' ob] | | k] eqn:E; intros H; inversion H; subst; auto.
    exfalso. eapply exec_not_err; eauto.
  - intros H; inversion H; reflexivity.
  - intros H; inversion H.
Qed.


(* ------------------------------------------------------------------ accepted requests are in range *)
Lemma ret_inj {A} (a b : A) : Ret a = Ret b -> a = b.
Proof. intros H; inversion H; reflexivity. Qed.

Theorem frontend_in_range s o p : wf s -> op_ok o -> frontend fixed s o = Ret p ->
  plan_in_range (parent_of s o) p.
Proof.
  intros Hwf Hok E. destruct o; cbn [op_ok] in Hok; cbn [frontend parent_of] in *.
  - (* OMalloc *) destruct Hok as (Hn & Hdt).
    rewrite device_malloc_bytes_char in E by assumption. fold (rej n dt) in E.
    destruct (Z.eqb_spec n 0); [apply ret_inj in E; subst p; exact I |].
    destruct (rej n dt) eqn:Er; [discriminate |]. apply ret_inj in E; subst p. cbn.
    apply (rej_false n dt Hdt Er).
  - (* OMallocH *) destruct Hok as (Hn & Hdt).
    rewrite device_malloc_bytes_char in E by assumption. fold (rej n dt) in E.
    destruct (Z.eqb_spec n 0); [apply ret_inj in E; subst p; exact I |].
    destruct (rej n dt) eqn:Er; [discriminate |]. apply ret_inj in E; subst p. cbn.
    apply (rej_false n dt Hdt Er).
  - (* OMallocM *) destruct Hok as (Hn & Hdt).
    rewrite device_mallocM_char in E; auto; [| intros sm Es; apply (wf_get _ _ _ Hwf Es)]. fold (rej n dt) in E.
    destruct (Z.eqb_spec n 0); [apply ret_inj in E; subst p; exact I |].
    destruct (rej n dt) eqn:Er; [discriminate |].
    destruct (rej_false n dt Hdt Er) as (Hn0 & Hb).
    destruct (geth (hs s) s0) as [sm |]; [| apply ret_inj in E; subst p; cbn; lia].
    destruct (Z.leb_spec (n * dt) (msize sm)); [| discriminate].
    apply ret_inj in E; subst p. cbn. unfold within. lia.
  - (* OWrap *) destruct Hok as (Hn & Hdt). rewrite device_wrap_char in E by assumption. fold (rej n dt) in E.
    destruct (rej n dt) eqn:Er; [discriminate |]. apply ret_inj in E; subst p. cbn.
    apply (rej_false n dt Hdt Er).
  - (* OSlice *) destruct Hok as (Hoff & Hcnt).
    destruct (geth (hs s) s0) as [m |] eqn:Em; [| discriminate].
    destruct (wf_get _ _ _ Hwf Em) as (Hm & Hmm).
    rewrite memory_slice_char in E by assumption. cbv zeta in E.
    destruct ((0 <=? off) && _ && _) eqn:Cond in E; [| discriminate].
    cbn [bind] in E. apply ret_inj in E; subst p. cbn [plan_in_range].
    apply andb_true_iff in Cond as [Cond C3]. apply andb_true_iff in Cond as [C1 C2].
    apply Z.leb_le in C1, C2, C3. destruct Hmm as (A1 & A2 & A3 & A4). unfold dt_ok in A4.
    unfold subview; cbn [mbuf moff msize]. repeat split; nia.
  - (* OCast *)
    destruct (geth (hs s) s0) as [m |] eqn:Em; [| discriminate].
    destruct (wf_get _ _ _ Hwf Em) as (Hm & Hmm).
    rewrite memory_cast_char in E by assumption. cbn [bind] in E. apply ret_inj in E; subst p.
    cbn [plan_in_range]. destruct Hmm as (A1 & A2 & A3 & A4).
    destruct (div_bounds (msize m) (mdt m)) as (L0 & L1 & L2); [unfold dt_ok in A4; lia | lia |].
    unfold subview, m_len; cbn [mbuf moff msize]. repeat split; nia.
  - (* OClone *)
    destruct (geth (hs s) s0) as [m |] eqn:Em; [| discriminate].
    destruct (wf_get _ _ _ Hwf Em) as (Hm & Hmm).
    rewrite memory_clone_char in E by assumption.
    destruct (Z.eqb_spec (msize m) 0); [discriminate |]. apply ret_inj in E; subst p.
    destruct Hmm as (A1 & A2 & A3 & A4). cbn. unfold within. lia.
  - (* OCopyFromH *) destruct Hok as (Hc & Hoff).
    destruct (geth (hs s) a) as [m |] eqn:Em; [| discriminate].
    destruct (wf_get _ _ _ Hwf Em) as (Hm & Hmm).
    unfold memory_copyFromH in E. rewrite host_copy_args_char in E by assumption. cbv zeta in E.
    destruct ((0 <=? off) && _ && _) eqn:Cond in E; [| discriminate].
    cbn [bind fst snd] in E. apply ret_inj in E; subst p. cbn [plan_in_range].
    apply host_cond_within; [assumption | apply Hmm].
  - (* OCopyToH *) destruct Hok as (Hc & Hoff).
    destruct (geth (hs s) a) as [m |] eqn:Em; [| discriminate].
    destruct (wf_get _ _ _ Hwf Em) as (Hm & Hmm).
    unfold memory_copyToH in E. rewrite host_copy_args_char in E by assumption. cbv zeta in E.
    destruct ((0 <=? off) && _ && _) eqn:Cond in E; [| discriminate].
    cbn [bind fst snd] in E. apply ret_inj in E; subst p. cbn [plan_in_range].
    apply host_cond_within; [assumption | apply Hmm].
  - (* OCopyFromM *) destruct Hok as (Hc & Hd & Hso).
    destruct (geth (hs s) a) as [m |] eqn:Ea; [| destruct (geth (hs s) b); discriminate].
    destruct (geth (hs s) b) as [sm |] eqn:Eb; [| discriminate].
    destruct (wf_get _ _ _ Hwf Ea) as (Hm & Hmm). destruct (wf_get _ _ _ Hwf Eb) as (Hsm & Hsmm).
    rewrite memory_copyFromM_char in E by assumption. cbv zeta in E.
    destruct (_ && _ && _ && _ && _) eqn:Cond in E; [| discriminate].
    apply ret_inj in E; subst p. cbn [plan_in_range].
    apply copy_cond_within; [assumption | apply Hmm | apply Hsmm].
  - (* OCopyToM *) destruct Hok as (Hc & Hd & Hso).
    destruct (geth (hs s) a) as [m |] eqn:Ea; [| destruct (geth (hs s) b); discriminate].
    destruct (geth (hs s) b) as [dm |] eqn:Eb; [| discriminate].
    destruct (wf_get _ _ _ Hwf Ea) as (Hm & Hmm). destruct (wf_get _ _ _ Hwf Eb) as (Hdm & Hdmm).
    rewrite memory_copyToM_char in E by assumption. cbv zeta in E.
    destruct (_ && _ && _ && _ && _) eqn:Cond in E; [| discriminate].
    apply ret_inj in E; subst p. cbn [plan_in_range].
    apply copy_cond_within; [assumption | apply Hdmm | apply Hmm].
  - (* OAssign *) apply ret_inj in E; subst p. cbn [plan_in_range].
    destruct (geth (hs s) s0) as [m |] eqn:Em; [| exact I].
    destruct (wf_get _ _ _ Hwf Em) as ((M1 & M2 & M3 & M4 & M5) & _). unfold subview. lia.
  - apply ret_inj in E; subst p. exact I.
  - apply ret_inj in E; subst p. exact I.
  - apply ret_inj in E; subst p. exact I.
Qed.

(* every access of an in-range request lies inside its buffer: the backend does not fault *)
Theorem in_range_in_buffer s m bytes off : wf_mem s m -> within m bytes off ->
  0 <= moff m + off /\ moff m + off + bytes <= zlen (getbuf s (mbuf m)).
Proof. intros (H1 & H2 & H3 & H4 & H5) (W1 & W2 & W3). lia. Qed.

(* ------------------------------------------------------------------ uninitialized handles *)
Theorem uninit_raises_gen s o : uses_uninit s o -> step fixed s o = (s, ERR).
Proof.
  intros H. apply step_throw. destruct o; cbn [uses_uninit] in H; try contradiction; cbn [frontend].
  - rewrite H. reflexivity.
  - rewrite H. reflexivity.
  - rewrite H. reflexivity.
  - rewrite H. reflexivity.
  - rewrite H. reflexivity.
  - destruct H as [H | H]; rewrite H; [destruct (geth (hs s) b); reflexivity |].
    destruct (geth (hs s) a); reflexivity.
  - destruct H as [H | H]; rewrite H; [destruct (geth (hs s) b); reflexivity |].
    destruct (geth (hs s) a); reflexivity.
Qed.
