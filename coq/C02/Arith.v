(* C02 — proofs, part 1: C integer arithmetic under the guard; part 2: characterisation of the argument
   checks of memory.cpp / device.cpp (what they accept, and what request they hand to the backend). *)
From Coq Require Import List ZArith Bool Lia.
From OV.C02 Require Import Base Model Spec Statements.
Import ListNotations.
Local Open Scope Z_scope.

(* ------------------------------------------------------------------ part 1: arithmetic *)
Lemma two64_eq : two64 = 2 * two63. Proof. reflexivity. Qed.
Lemma two63_pos : 0 < two63. Proof. reflexivity. Qed.

Lemma in64_true x : - two63 <= x < two63 -> in64 x = true.
Proof. intros; unfold in64; apply andb_true_intro; split; [apply Z.leb_le | apply Z.ltb_lt]; lia. Qed.

Lemma toU_id x : 0 <= x < two64 -> toU x = x.
Proof. intros; unfold toU; apply Z.mod_small; lia. Qed.

Lemma toU_toU x : toU (toU x) = toU x.
Proof. unfold toU; apply Z.mod_mod; discriminate. Qed.

Lemma toS_mod x : toS (x mod two64) = toS x.
Proof. unfold toS; rewrite Z.mod_mod by discriminate; reflexivity. Qed.

Lemma toS_id x : - two63 <= x < two63 -> toS x = x.
Proof.
  intros H; unfold toS.
  destruct (Z_lt_le_dec x 0) as [Hn | Hp].
  - assert (E : x mod two64 = x + two64).
    { symmetry; apply Z.mod_unique with (q := -1); rewrite two64_eq in *; lia. }
    rewrite E. destruct (Z.ltb_spec (x + two64) two63); rewrite two64_eq in *; lia.
  - rewrite Z.mod_small by (rewrite two64_eq; lia).
    destruct (Z.ltb_spec x two63); lia.
Qed.

Lemma umul_eq a b : umul a b = (a * b) mod two64.
Proof. unfold umul, toU; rewrite <- Z.mul_mod by discriminate; reflexivity. Qed.

Lemma umul_toU_r a b : umul a (toU b) = umul a b.
Proof. unfold umul; rewrite toU_toU; reflexivity. Qed.

Lemma toS_umul a b : - two63 <= a * b < two63 -> toS (umul a b) = a * b.
Proof. intros; rewrite umul_eq, toS_mod; apply toS_id; assumption. Qed.

Lemma smul_ret a b : - two63 <= a * b < two63 -> smul a b = Ret (a * b).
Proof. intros; unfold smul; rewrite in64_true; auto. Qed.

Lemma sadd_ret a b : - two63 <= a + b < two63 -> sadd a b = Ret (a + b).
Proof. intros; unfold sadd; rewrite in64_true; auto. Qed.

Lemma consts : two63 = 9223372036854775808 /\ BMAX = 4611686018427387904
               /\ two64 = 18446744073709551616 /\ DTMAX = 2147483647 /\ max_bytes = 4611686018427387903.
Proof. repeat split. Qed.

(* a <= m / d  <->  a * d <= m *)
Lemma le_div_iff a m d : 0 < d -> (a <=? m / d) = (a * d <=? m).
Proof.
  intros Hd. apply eq_true_iff_eq. rewrite !Z.leb_le. split; intros H.
  - pose proof (Z.mul_div_le m d Hd). nia.
  - apply Z.div_le_lower_bound; lia.
Qed.

Lemma div_bounds m d : 0 < d -> 0 <= m -> 0 <= m / d /\ 0 <= d * (m / d) <= m /\ m / d <= m.
Proof.
  intros Hd Hm. pose proof (Z.mul_div_le m d Hd). assert (0 <= m / d) by (apply Z.div_pos; lia).
  repeat split; auto; nia.
Qed.

(* ------------------------------------------------------------------ part 2: the argument checks *)
(* the arithmetic part of well-formedness *)
Definition wfm (m : mem) : Prop :=
  0 <= moff m /\ 0 <= msize m /\ moff m + msize m < BMAX /\ dt_ok (mdt m).

Ltac consts_in :=
  let K1 := fresh "K" in let K2 := fresh "K" in let K3 := fresh "K" in
  let K4 := fresh "K" in let K5 := fresh "K" in
  pose proof consts as (K1 & K2 & K3 & K4 & K5).

Lemma toS_toU x : small x -> toS (toU x) = x.
Proof. intros. unfold toU. rewrite toS_mod. apply toS_id; assumption. Qed.

Lemma leb_mul_pos d c : 1 <= d -> (0 <=? d * c) = (0 <=? c).
Proof. intros. apply eq_true_iff_eq. rewrite !Z.leb_le. nia. Qed.

(* occa::entriesToBytes accepts exactly the non-negative counts whose product is at most max_bytes *)
Lemma e2b_char entries dt : 1 <= dt ->
  entries_to_bytes entries dt =
  if (0 <=? entries) && (entries * dt <=? max_bytes) then Ret (entries * dt) else Throw.
Proof.
  intros Hdt. unfold entries_to_bytes. consts_in.
  destruct (Z.leb_spec 0 entries); cbn [check bind andb]; [| reflexivity].
  destruct (Z.leb_spec dt 0); [lia |]. cbn [orb].
  rewrite le_div_iff by lia.
  destruct (Z.leb_spec (entries * dt) max_bytes); cbn [check bind]; [| reflexivity].
  apply smul_ret. nia.
Qed.

(* the element count of a copy as a dim_t: (count == -1) ? length() : count *)
Lemma copy_elems m cnt : wfm m -> small cnt ->
  toS (if cnt =? -1 then m_len m else toU cnt) = (if cnt =? -1 then m_len m else cnt).
Proof.
  intros (Ho & Hs & Hb & Hdt) Hc. unfold m_len.
  destruct (div_bounds (msize m) (mdt m)) as (L0 & L1 & L2); [unfold dt_ok in Hdt; lia | lia |].
  consts_in. destruct (cnt =? -1); [apply toS_id; lia | apply toS_toU; assumption].
Qed.

Lemma host_copy_args_char m cnt off : wfm m -> small cnt -> small off ->
  host_copy_args fixed m cnt off =
  (let c := if cnt =? -1 then m_len m else cnt in
   if (0 <=? off) && (0 <=? c) && ((off + c) * mdt m <=? msize m)
   then Ret (c * mdt m, off * mdt m) else Throw).
Proof.
  intros Hm Hc Hoff. pose proof Hm as (Ho & Hs & Hb & Hdt).
  unfold host_copy_args, bytes_of, offset_of. cbn [fixed fx_ovf].
  rewrite (copy_elems m cnt Hm Hc). cbv zeta.
  set (c := if cnt =? -1 then m_len m else cnt).
  consts_in. unfold dt_ok in *.
  rewrite !e2b_char by lia.
  destruct (Z.leb_spec 0 c) as [C0 | C0]; cbn [andb bind]; [| rewrite andb_false_r; reflexivity].
  destruct (Z.leb_spec (c * mdt m) max_bytes) as [C1 | C1]; cbn [bind].
  2:{ destruct (Z.leb_spec 0 off); cbn [andb]; [| reflexivity].
      destruct (Z.leb_spec ((off + c) * mdt m) (msize m)); [nia | reflexivity]. }
  destruct (Z.leb_spec 0 off) as [O0 | O0]; cbn [andb bind]; [| reflexivity].
  destruct (Z.leb_spec (off * mdt m) max_bytes) as [O1 | O1]; cbn [bind].
  2:{ destruct (Z.leb_spec ((off + c) * mdt m) (msize m)); [nia | reflexivity]. }
  destruct (Z.leb_spec (-1) (c * mdt m)); [| nia]. cbn [check bind].
  destruct (Z.leb_spec 0 (off * mdt m)); [| nia]. cbn [check bind].
  rewrite sadd_ret by nia. cbn [bind]. rewrite toU_id by nia.
  replace (c * mdt m + off * mdt m) with ((off + c) * mdt m) by ring.
  destruct (Z.leb_spec ((off + c) * mdt m) (msize m)); cbn [check bind]; [| reflexivity].
  rewrite !toU_id by nia. reflexivity.
Qed.

Lemma memory_slice_char m off cnt : wfm m -> small off -> small cnt ->
  memory_slice fixed (Some m) off cnt =
  (let c := if cnt =? -1 then m_len m - off else cnt in
   if (0 <=? off) && (0 <=? c) && ((off + c) * mdt m <=? msize m)
   then Ret (Some (mkMem (mbuf m) (moff m + off * mdt m) (c * mdt m) (mdt m))) else Throw).
Proof.
  intros Hm Hoff Hc. pose proof Hm as (Ho & Hs & Hb & Hdt).
  unfold memory_slice, bytes_of, offset_of. cbn [fixed fx_negoff fx_ovf negb orb].
  unfold m_len in *.
  destruct (div_bounds (msize m) (mdt m)) as (L0 & L1 & L2); [unfold dt_ok in Hdt; lia | lia |].
  consts_in. unfold dt_ok, small in *.
  cbv zeta. rewrite !e2b_char by lia.
  destruct (Z.leb_spec 0 off) as [O0 | O0]; cbn [check bind andb]; [| reflexivity].
  set (c := if cnt =? -1 then msize m / mdt m - off else cnt).
  assert (Ee : toS (if cnt =? -1 then toU (msize m / mdt m - off) else toU cnt) = c).
  { subst c. destruct (cnt =? -1); apply toS_toU; unfold small; lia. }
  rewrite Ee.
  destruct (Z.leb_spec (off * mdt m) max_bytes) as [O1 | O1]; cbn [andb bind].
  2:{ destruct (Z.leb_spec 0 c); cbn [andb]; [| reflexivity].
      destruct (Z.leb_spec ((off + c) * mdt m) (msize m)); [nia | reflexivity]. }
  destruct (Z.leb_spec 0 c) as [C0 | C0]; cbn [andb bind]; [| reflexivity].
  destruct (Z.leb_spec (c * mdt m) max_bytes) as [C1 | C1]; cbn [bind].
  2:{ destruct (Z.leb_spec ((off + c) * mdt m) (msize m)); [nia | reflexivity]. }
  destruct (Z.leb_spec 0 (c * mdt m)); [| nia]. cbn [check bind].
  assert (Bcnt : -1 <= cnt <= max_bytes).
  { subst c. destruct (Z.eqb_spec cnt (-1)); nia. }
  rewrite sadd_ret by nia. cbn [bind].
  rewrite toS_id by lia.
  assert (Ec : (off + cnt <=? msize m / mdt m) = ((off + c) * mdt m <=? msize m)).
  { subst c. destruct (Z.eqb_spec cnt (-1)) as [-> | Hne].
    - apply eq_true_iff_eq. rewrite !Z.leb_le. split; intros; nia.
    - apply le_div_iff. lia. }
  rewrite Ec.
  destruct (Z.leb_spec ((off + c) * mdt m) (msize m)) as [Hr | Hr]; cbn [check bind]; [| reflexivity].
  unfold mm_slice. rewrite sadd_ret by nia. cbn [bind].
  destruct (Z.leb_spec 0 (moff m + off * mdt m)); [| nia]. cbn [check bind].
  rewrite toU_id by nia. unfold set_dt. cbn [mbuf moff msize mdt]. reflexivity.
Qed.

Lemma memory_copyFromM_char m sm cnt doff soff : wfm m -> wfm sm -> small cnt -> small doff -> small soff ->
  memory_copyFromM fixed (Some m) (Some sm) cnt doff soff =
  (let n := (if cnt =? -1 then m_len m else cnt) * mdt m in
   if (0 <=? n) && (0 <=? doff) && (0 <=? soff) && (doff * mdt m + n <=? msize m) && (soff * mdt sm + n <=? msize sm)
   then Ret (PCopy m sm n (doff * mdt m) (soff * mdt sm)) else Throw).
Proof.
  intros Hm Hsm Hc Hd Hso. pose proof Hm as (Ho & Hs & Hb & Hdt). pose proof Hsm as (Ho' & Hs' & Hb' & Hdt').
  unfold memory_copyFromM, bytes_of, offset_of. cbn [fixed fx_other fx_ovf negb orb check bind deref_dt deref_size].
  rewrite (copy_elems m cnt Hm Hc). cbv zeta.
  set (c := if cnt =? -1 then m_len m else cnt).
  consts_in. unfold dt_ok in *.
  rewrite !e2b_char by lia.
  replace (0 <=? c * mdt m) with (0 <=? c) by (rewrite Z.mul_comm, leb_mul_pos by lia; reflexivity).
  destruct (Z.leb_spec 0 c) as [C0 | C0]; cbn [andb bind]; [| reflexivity].
  destruct (Z.leb_spec (c * mdt m) max_bytes) as [C1 | C1]; cbn [bind].
  2:{ destruct (Z.leb_spec 0 doff); cbn [andb]; [| reflexivity].
      destruct (Z.leb_spec 0 soff); cbn [andb]; [| reflexivity].
      destruct (Z.leb_spec (doff * mdt m + c * mdt m) (msize m)); [nia | reflexivity]. }
  destruct (Z.leb_spec 0 doff) as [D0 | D0]; cbn [andb bind]; [| reflexivity].
  destruct (Z.leb_spec (doff * mdt m) max_bytes) as [D1 | D1]; cbn [bind].
  2:{ destruct (Z.leb_spec 0 soff); cbn [andb]; [| reflexivity].
      destruct (Z.leb_spec (doff * mdt m + c * mdt m) (msize m)); [nia | reflexivity]. }
  destruct (Z.leb_spec 0 soff) as [S0 | S0]; cbn [andb bind]; [| rewrite ?andb_false_r; reflexivity].
  destruct (Z.leb_spec (soff * mdt sm) max_bytes) as [S1 | S1]; cbn [bind].
  2:{ destruct (Z.leb_spec (soff * mdt sm + c * mdt m) (msize sm)); [nia | rewrite ?andb_false_r; reflexivity]. }
  destruct (Z.leb_spec (-1) (c * mdt m)); [| nia]. cbn [check bind].
  destruct (Z.leb_spec 0 (doff * mdt m)); [| nia]. cbn [check bind].
  destruct (Z.leb_spec 0 (soff * mdt sm)); [| nia]. cbn [check bind].
  rewrite sadd_ret by nia. cbn [bind]. rewrite toU_id by nia.
  replace (c * mdt m + soff * mdt sm) with (soff * mdt sm + c * mdt m) by ring.
  destruct (Z.leb_spec (soff * mdt sm + c * mdt m) (msize sm)) as [R1 | R1]; cbn [check bind];
    [| rewrite ?andb_false_r; reflexivity].
  rewrite sadd_ret by nia. cbn [bind]. rewrite toU_id by nia.
  replace (c * mdt m + doff * mdt m) with (doff * mdt m + c * mdt m) by ring.
  destruct (Z.leb_spec (doff * mdt m + c * mdt m) (msize m)) as [R2 | R2]; cbn [check bind andb]; [| reflexivity].
  rewrite !toU_id by nia. reflexivity.
Qed.

Lemma memory_copyToM_char m dm cnt doff soff : wfm m -> wfm dm -> small cnt -> small doff -> small soff ->
  memory_copyToM fixed (Some m) (Some dm) cnt doff soff =
  (let n := (if cnt =? -1 then m_len m else cnt) * mdt m in
   if (0 <=? n) && (0 <=? doff) && (0 <=? soff) && (doff * mdt dm + n <=? msize dm) && (soff * mdt m + n <=? msize m)
   then Ret (PCopy dm m n (doff * mdt dm) (soff * mdt m)) else Throw).
Proof.
  intros Hm Hsm Hc Hd Hso. pose proof Hm as (Ho & Hs & Hb & Hdt). pose proof Hsm as (Ho' & Hs' & Hb' & Hdt').
  unfold memory_copyToM, bytes_of, offset_of. cbn [fixed fx_other fx_ovf negb orb check bind deref_dt deref_size].
  rewrite (copy_elems m cnt Hm Hc). cbv zeta.
  set (c := if cnt =? -1 then m_len m else cnt).
  consts_in. unfold dt_ok in *.
  rewrite !e2b_char by lia.
  replace (0 <=? c * mdt m) with (0 <=? c) by (rewrite Z.mul_comm, leb_mul_pos by lia; reflexivity).
  destruct (Z.leb_spec 0 c) as [C0 | C0]; cbn [andb bind]; [| reflexivity].
  destruct (Z.leb_spec (c * mdt m) max_bytes) as [C1 | C1]; cbn [bind].
  2:{ destruct (Z.leb_spec 0 doff); cbn [andb]; [| reflexivity].
      destruct (Z.leb_spec 0 soff); cbn [andb]; [| reflexivity].
      destruct (Z.leb_spec (soff * mdt m + c * mdt m) (msize m)); [nia | rewrite ?andb_false_r; reflexivity]. }
  destruct (Z.leb_spec 0 doff) as [D0 | D0]; cbn [andb bind]; [| reflexivity].
  destruct (Z.leb_spec (doff * mdt dm) max_bytes) as [D1 | D1]; cbn [bind].
  2:{ destruct (Z.leb_spec 0 soff); cbn [andb]; [| reflexivity].
      destruct (Z.leb_spec (doff * mdt dm + c * mdt m) (msize dm)); [nia | reflexivity]. }
  destruct (Z.leb_spec 0 soff) as [S0 | S0]; cbn [andb bind]; [| rewrite ?andb_false_r; reflexivity].
  destruct (Z.leb_spec (soff * mdt m) max_bytes) as [S1 | S1]; cbn [bind].
  2:{ destruct (Z.leb_spec (soff * mdt m + c * mdt m) (msize m)); [nia | rewrite ?andb_false_r; reflexivity]. }
  destruct (Z.leb_spec (-1) (c * mdt m)); [| nia]. cbn [check bind].
  destruct (Z.leb_spec 0 (doff * mdt dm)); [| nia]. cbn [check bind].
  destruct (Z.leb_spec 0 (soff * mdt m)); [| nia]. cbn [check bind].
  rewrite sadd_ret by nia. cbn [bind]. rewrite toU_id by nia.
  replace (c * mdt m + soff * mdt m) with (soff * mdt m + c * mdt m) by ring.
  destruct (Z.leb_spec (soff * mdt m + c * mdt m) (msize m)) as [R1 | R1]; cbn [check bind];
    [| rewrite ?andb_false_r; reflexivity].
  rewrite sadd_ret by nia. cbn [bind]. rewrite toU_id by nia.
  replace (c * mdt m + doff * mdt dm) with (doff * mdt dm + c * mdt m) by ring.
  destruct (Z.leb_spec (doff * mdt dm + c * mdt m) (msize dm)) as [R2 | R2]; cbn [check bind andb]; [| reflexivity].
  rewrite !toU_id by nia. reflexivity.
Qed.

Lemma e2b_char' n dt : 1 <= dt ->
  entries_to_bytes n dt = if (n <? 0) || (max_bytes <? n * dt) then Throw else Ret (n * dt).
Proof.
  intros. rewrite e2b_char by assumption.
  destruct (Z.leb_spec 0 n); destruct (Z.ltb_spec n 0); try lia; cbn [andb orb]; try reflexivity.
  destruct (Z.leb_spec (n * dt) max_bytes); destruct (Z.ltb_spec max_bytes (n * dt)); try lia; reflexivity.
Qed.

Lemma device_malloc_bytes_char n dt : dt_ok dt ->
  device_malloc_bytes fixed n dt =
  if n =? 0 then Ret None else if (n <? 0) || (max_bytes <? n * dt) then Throw else Ret (Some (n * dt)).
Proof.
  intros Hdt. unfold device_malloc_bytes. cbn [fixed fx_ovf]. unfold dt_ok in *.
  destruct (Z.eqb_spec n 0); [reflexivity |].
  rewrite e2b_char' by lia.
  destruct ((n <? 0) || (max_bytes <? n * dt)) eqn:E; cbn [bind]; [reflexivity |].
  apply orb_false_iff in E as [E1 E2]. apply Z.ltb_ge in E1, E2.
  destruct (Z.leb_spec 0 (n * dt)); [reflexivity | nia].
Qed.

Lemma memory_cast_char m dt : wfm m ->
  memory_cast fixed (Some m) dt = Ret (Some (mkMem (mbuf m) (moff m) (m_len m * mdt m) dt)).
Proof.
  intros Hm. pose proof Hm as (Ho & Hs & Hb & Hdt).
  unfold memory_cast. rewrite memory_slice_char; auto; try (unfold small; consts_in; lia).
  cbv zeta. change (-1 =? -1) with true. cbv iota.
  unfold m_len.
  destruct (div_bounds (msize m) (mdt m)) as (L0 & L1 & L2); [unfold dt_ok in Hdt; lia | lia |].
  replace (0 + (msize m / mdt m - 0)) with (msize m / mdt m) by ring.
  replace (msize m / mdt m - 0) with (msize m / mdt m) by ring.
  destruct (Z.leb_spec 0 (msize m / mdt m)); [| lia].
  destruct (Z.leb_spec (msize m / mdt m * mdt m) (msize m)); [| lia].
  cbn [Z.leb andb bind set_dtype set_dt mbuf moff msize mdt].
  replace (moff m + 0 * mdt m) with (moff m) by ring. reflexivity.
Qed.

Lemma device_mallocM_char b n dt src fdt : dt_ok dt ->
  (forall sm, src = Some sm -> wfm sm) ->
  device_mallocM fixed b n dt src fdt =
  if n =? 0 then Ret (PSetHandle None) else if (n <? 0) || (max_bytes <? n * dt) then Throw else
  match src with
  | None => Ret (PAlloc (n * dt) fdt false INone)
  | Some sm => if n * dt <=? msize sm then Ret (PAlloc (n * dt) fdt false (IMem sm (n * dt) 0 0)) else Throw
  end.
Proof.
  intros Hdt Hsrc. unfold device_mallocM. rewrite device_malloc_bytes_char by assumption.
  destruct (Z.eqb_spec n 0); [reflexivity |].
  destruct ((n <? 0) || (max_bytes <? n * dt)) eqn:E; [reflexivity |]. cbn [bind].
  apply orb_false_iff in E as [E1 E2]. apply Z.ltb_ge in E1, E2.
  destruct src as [sm |]; [| reflexivity]. cbn [fixed fx_src].
  consts_in.
  assert (Hf : wfm (mkMem b 0 (n * dt) dt)).
  { unfold wfm; cbn. unfold dt_ok in *. nia. }
  rewrite memory_copyFromM_char; auto; try (unfold small; lia).
  cbv zeta. change (-1 =? -1) with true. cbv iota.
  unfold m_len. cbn [msize mdt]. rewrite Z_div_mult by (unfold dt_ok in Hdt; lia).
  unfold dt_ok in *.
  destruct (Z.leb_spec 0 (n * dt)); [| nia].
  replace (0 * dt + n * dt) with (n * dt) by ring.
  replace (0 * mdt sm + n * dt) with (n * dt) by ring.
  rewrite !Z.leb_refl. cbn [Z.leb andb].
  destruct (Z.leb_spec (n * dt) (msize sm)); rewrite ?Z.leb_refl; cbn [andb bind]; [| reflexivity].
  replace (0 * dt) with 0 by ring. replace (0 * mdt sm) with 0 by ring. reflexivity.
Qed.

Lemma memory_clone_char b m : wfm m ->
  memory_clone fixed b (Some m) =
  if msize m =? 0 then Throw else Ret (PAlloc (msize m) (mdt m) false (IMem m (msize m) 0 0)).
Proof.
  intros Hm. pose proof Hm as (Ho & Hs & Hb & Hdt). unfold memory_clone.
  rewrite device_mallocM_char; try (unfold dt_ok; consts_in; lia).
  - rewrite Z.mul_1_r. destruct (Z.eqb_spec (msize m) 0); [reflexivity |].
    consts_in.
    destruct (Z.ltb_spec (msize m) 0); [lia |]. destruct (Z.ltb_spec max_bytes (msize m)); [lia |].
    cbn [orb]. rewrite Z.leb_refl. reflexivity.
  - intros sm E; inversion E; subst; assumption.
Qed.

Lemma device_wrap_char n dt seed : dt_ok dt ->
  device_wrap fixed n dt seed =
  if (n <? 0) || (max_bytes <? n * dt) then Throw else Ret (PAlloc (n * dt) dt true (IHost seed)).
Proof.
  intros Hdt. unfold device_wrap. cbn [fixed fx_ovf]. unfold dt_ok in *.
  rewrite e2b_char' by lia.
  destruct ((n <? 0) || (max_bytes <? n * dt)) eqn:E; cbn [bind]; [reflexivity |].
  apply orb_false_iff in E as [E1 E2]. apply Z.ltb_ge in E1, E2.
  destruct (Z.leb_spec 0 (n * dt)); [reflexivity | nia].
Qed.
