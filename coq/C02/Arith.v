(* C02 — proofs, part 1: C integer arithmetic under the guard; part 2: characterisation of the argument
   checks of memory.cpp / device.cpp (what they accept, and what request they hand to the backend). *)
From Coq Require Import List ZArith Bool Lia.
From OV.C02 Require Import Base Model Spec Statements.
Import ListNotations.
Local Open Scope Z_scope.

(* ------------------------------------------------------------------ part 1: arithmetic *)
Lemma two64_eq : two64 = 2 * two63. Proof. reflexivity. Qed.
Lemma two63_pos : 0 < two63. Proof. reflexivity. Qed.

Lemma in64_true x : - two63 <= x < two63 -> in64 x = true.
Proof. intros; unfold in64; apply andb_true_intro; split; [apply Z.leb_le | apply Z.ltb_lt]; lia. Qed.

Lemma toU_id x : 0 <= x < two64 -> toU x = x.
Proof. intros; unfold toU; apply Z.mod_small; lia. Qed.

Lemma toU_toU x : toU (toU x) = toU x.
Proof. unfold toU; apply Z.mod_mod; discriminate. Qed.

Lemma toS_mod x : toS (x mod two64) = toS x.
Proof. unfold toS; rewrite Z.mod_mod by discriminate; reflexivity. Qed.

Lemma toS_id x : - two63 <= x < two63 -> toS x = x.
Proof.
  intros H; unfold toS.
  destruct (Z_lt_le_dec x 0) as [Hn | Hp].
  - assert (E : x mod two64 = x + two64).
    { symmetry; apply Z.mod_unique with (q := -1); rewrite two64_eq in *; lia. }
    rewrite E. destruct (Z.ltb_spec (x + two64) two63); rewrite two64_eq in *; lia.
  - rewrite Z.mod_small by (rewrite two64_eq; lia).
    destruct (Z.ltb_spec x two63); lia.
Qed.

Lemma umul_eq a b : umul a b = (a * b) mod two64.
Proof. unfold umul, toU; rewrite <- Z.mul_mod by discriminate; reflexivity. Qed.

Lemma umul_toU_r a b : umul a (toU b) = umul a b.
Proof. unfold umul; rewrite toU_toU; reflexivity. Qed.

Lemma toS_umul a b : - two63 <= a * b < two63 -> toS (umul a b) = a * b.
Proof. intros; rewrite umul_eq, toS_mod; apply toS_id; assumption. Qed.

Lemma smul_ret a b : - two63 <= a * b < two63 -> smul a b = Ret (a * b).
Proof. intros; unfold smul; rewrite in64_true; auto. Qed.

Lemma sadd_ret a b : - two63 <= a + b < two63 -> sadd a b = Ret (a + b).
Proof. intros; unfold sadd; rewrite in64_true; auto. Qed.

Lemma mul_small_bound a b : dt_ok a -> small b -> - (DTMAX * ARG) < a * b < DTMAX * ARG.
Proof.
  unfold dt_ok, small; intros [Ha1 Ha2] [Hb1 Hb2].
  assert (0 < DTMAX) by reflexivity. assert (0 < ARG) by reflexivity.
  destruct (Z_lt_le_dec b 0).
  - split; [| nia]. assert (a * (- b) <= DTMAX * (- b)) by (apply Z.mul_le_mono_nonneg_r; lia). nia.
  - split; [nia |]. assert (a * b <= DTMAX * b) by (apply Z.mul_le_mono_nonneg_r; lia). nia.
Qed.

Lemma consts : DTMAX * ARG = 1152921504606846976 /\ two63 = 9223372036854775808 /\ BMAX = 2305843009213693952
               /\ two64 = 18446744073709551616 /\ ARG = 1099511627776 /\ DTMAX = 1048576.
Proof. repeat split. Qed.

(* a <= m / d  <->  a * d <= m *)
Lemma le_div_iff a m d : 0 < d -> (a <=? m / d) = (a * d <=? m).
Proof.
  intros Hd. apply eq_true_iff_eq. rewrite !Z.leb_le. split; intros H.
  - pose proof (Z.mul_div_le m d Hd). nia.
  - apply Z.div_le_lower_bound; lia.
Qed.

Lemma div_bounds m d : 0 < d -> 0 <= m -> 0 <= m / d /\ 0 <= d * (m / d) <= m /\ m / d <= m.
Proof.
  intros Hd Hm. pose proof (Z.mul_div_le m d Hd). assert (0 <= m / d) by (apply Z.div_pos; lia).
  repeat split; auto; nia.
Qed.

(* ------------------------------------------------------------------ part 2: the argument checks *)
(* the arithmetic part of well-formedness *)
Definition wfm (m : mem) : Prop :=
  0 <= moff m /\ 0 <= msize m /\ moff m + msize m < BMAX /\ dt_ok (mdt m).

Ltac consts_in :=
  let K1 := fresh "K" in let K2 := fresh "K" in let K3 := fresh "K" in
  let K4 := fresh "K" in let K5 := fresh "K" in let K6 := fresh "K" in
  pose proof consts as (K1 & K2 & K3 & K4 & K5 & K6).

(* the unsigned product of the copies: dtypeSize * ((count == -1) ? length() : count), back in dim_t *)
Lemma copy_bytes m cnt : wfm m -> small cnt ->
  toS (umul (mdt m) (if cnt =? -1 then m_len m else toU cnt)) = mdt m * (if cnt =? -1 then m_len m else cnt).
Proof.
  intros (Ho & Hs & Hb & Hdt) Hc. unfold m_len.
  pose proof (mul_small_bound _ _ Hdt Hc) as B2.
  destruct (div_bounds (msize m) (mdt m)) as (L0 & L1 & L2); [unfold dt_ok in Hdt; lia | lia |].
  consts_in.
  destruct (cnt =? -1).
  - apply toS_umul. lia.
  - rewrite umul_toU_r. apply toS_umul. lia.
Qed.

Lemma leb_mul_pos d c : 1 <= d -> (0 <=? d * c) = (0 <=? c).
Proof. intros. apply eq_true_iff_eq. rewrite !Z.leb_le. nia. Qed.

(* -1 <= d*c, where c is not the sentinel -1 or is a length *)
Lemma leb_m1_mul d c : 1 <= d -> c <> -1 -> (-1 <=? d * c) = (0 <=? c).
Proof. intros. apply eq_true_iff_eq. rewrite !Z.leb_le. nia. Qed.

Lemma host_copy_args_char m cnt off : wfm m -> small cnt -> small off ->
  host_copy_args m cnt off =
  (let c := if cnt =? -1 then m_len m else cnt in
   if (0 <=? off) && (0 <=? c) && ((off + c) * mdt m <=? msize m)
   then Ret (c * mdt m, off * mdt m) else Throw).
Proof.
  intros Hm Hc Hoff. pose proof Hm as (Ho & Hs & Hb & Hdt).
  unfold host_copy_args. rewrite (copy_bytes m cnt Hm Hc).
  pose proof (mul_small_bound _ _ Hdt Hoff) as B1.
  pose proof (mul_small_bound _ _ Hdt Hc) as B2.
  unfold m_len in *.
  destruct (div_bounds (msize m) (mdt m)) as (L0 & L1 & L2); [unfold dt_ok in Hdt; lia | lia |].
  consts_in. unfold dt_ok, small in *.
  set (c := if cnt =? -1 then msize m / mdt m else cnt).
  assert (Hcne : c <> -1).
  { subst c. destruct (Z.eqb_spec cnt (-1)); lia. }
  assert (Bc : - (DTMAX * ARG) < mdt m * c < BMAX).
  { subst c. destruct (Z.eqb_spec cnt (-1)); lia. }
  rewrite smul_ret by lia. cbn [bind].
  rewrite leb_m1_mul by lia.
  rewrite leb_mul_pos by lia.
  cbv zeta.
  destruct (Z.leb_spec 0 c) as [C0 | C0]; cbn [check bind]; [| rewrite ?andb_false_r; reflexivity].
  destruct (Z.leb_spec 0 off) as [O0 | O0]; cbn [check bind andb]; [| reflexivity].
  rewrite sadd_ret by nia. cbn [bind].
  rewrite toU_id by nia.
  replace (mdt m * c + mdt m * off) with ((off + c) * mdt m) by ring.
  destruct (Z.leb_spec ((off + c) * mdt m) (msize m)); cbn [check bind]; [| reflexivity].
  rewrite !toU_id by nia. f_equal. f_equal; ring.
Qed.

Lemma memory_slice_char m off cnt : wfm m -> small off -> small cnt ->
  memory_slice fixed (Some m) off cnt =
  (let c := if cnt =? -1 then m_len m - off else cnt in
   if (0 <=? off) && (0 <=? c) && ((off + c) * mdt m <=? msize m)
   then Ret (Some (mkMem (mbuf m) (moff m + off * mdt m) (c * mdt m) (mdt m))) else Throw).
Proof.
  intros Hm Hoff Hc. pose proof Hm as (Ho & Hs & Hb & Hdt).
  unfold memory_slice. cbn [fixed fx_negoff negb orb].
  pose proof (mul_small_bound _ _ Hdt Hoff) as B1.
  pose proof (mul_small_bound _ _ Hdt Hc) as B2.
  unfold m_len in *.
  destruct (div_bounds (msize m) (mdt m)) as (L0 & L1 & L2); [unfold dt_ok in Hdt; lia | lia |].
  consts_in. unfold dt_ok, small in *.
  cbv zeta.
  destruct (Z.leb_spec 0 off) as [O0 | O0]; cbn [check bind andb]; [| reflexivity].
  rewrite smul_ret by lia. cbn [bind].
  set (c := if cnt =? -1 then msize m / mdt m - off else cnt).
  assert (Eb : toS (umul (mdt m) (if cnt =? -1 then toU (msize m / mdt m - off) else toU cnt)) = mdt m * c).
  { subst c. destruct (cnt =? -1); rewrite umul_toU_r; apply toS_umul; nia. }
  rewrite Eb. rewrite leb_mul_pos by lia.
  destruct (Z.leb_spec 0 c) as [C0 | C0]; cbn [check bind andb]; [| reflexivity].
  rewrite sadd_ret by lia. cbn [bind].
  rewrite toS_id by lia.
  assert (Ec : (off + cnt <=? msize m / mdt m) = ((off + c) * mdt m <=? msize m)).
  { subst c. destruct (Z.eqb_spec cnt (-1)) as [-> | Hne].
    - apply eq_true_iff_eq. rewrite !Z.leb_le. split; intros; nia.
    - apply le_div_iff. lia. }
  rewrite Ec.
  destruct (Z.leb_spec ((off + c) * mdt m) (msize m)) as [Hr | Hr]; cbn [check bind]; [| reflexivity].
  unfold mm_slice. rewrite sadd_ret by nia. cbn [bind].
  destruct (Z.leb_spec 0 (moff m + mdt m * off)); [| nia]. cbn [check bind].
  rewrite toU_id by nia. unfold set_dt. cbn [mbuf moff msize mdt].
  f_equal. f_equal. f_equal; ring.
Qed.

Lemma memory_copyFromM_char m sm cnt doff soff : wfm m -> wfm sm -> small cnt -> small doff -> small soff ->
  memory_copyFromM fixed (Some m) (Some sm) cnt doff soff =
  (let n := (if cnt =? -1 then m_len m else cnt) * mdt m in
   if (0 <=? n) && (0 <=? doff) && (0 <=? soff) && (doff * mdt m + n <=? msize m) && (soff * mdt sm + n <=? msize sm)
   then Ret (PCopy m sm n (doff * mdt m) (soff * mdt sm)) else Throw).
Proof.
  intros Hm Hsm Hc Hd Hso. pose proof Hm as (Ho & Hs & Hb & Hdt). pose proof Hsm as (Ho' & Hs' & Hb' & Hdt').
  unfold memory_copyFromM. cbn [fixed fx_other negb orb check bind deref_dt deref_size].
  rewrite (copy_bytes m cnt Hm Hc).
  pose proof (mul_small_bound _ _ Hdt Hd) as B1.
  pose proof (mul_small_bound _ _ Hdt' Hso) as B2.
  pose proof (mul_small_bound _ _ Hdt Hc) as B3.
  unfold m_len in *.
  destruct (div_bounds (msize m) (mdt m)) as (L0 & L1 & L2); [unfold dt_ok in Hdt; lia | lia |].
  consts_in. unfold dt_ok, small in *.
  set (c := if cnt =? -1 then msize m / mdt m else cnt).
  assert (Hcne : c <> -1) by (subst c; destruct (Z.eqb_spec cnt (-1)); lia).
  assert (Bc : - (DTMAX * ARG) < mdt m * c < BMAX) by (subst c; destruct (Z.eqb_spec cnt (-1)); lia).
  rewrite !smul_ret by lia. cbn [bind].
  rewrite leb_m1_mul by lia.
  cbv zeta. replace (c * mdt m) with (mdt m * c) by ring.
  rewrite (leb_mul_pos (mdt m) c), (leb_mul_pos (mdt m) doff), (leb_mul_pos (mdt sm) soff) by lia.
  destruct (Z.leb_spec 0 c) as [C0 | C0]; cbn [check bind andb]; [| reflexivity].
  destruct (Z.leb_spec 0 doff) as [D0 | D0]; cbn [check bind andb]; [| reflexivity].
  destruct (Z.leb_spec 0 soff) as [S0 | S0]; cbn [check bind andb]; [| rewrite ?andb_false_r; reflexivity].
  rewrite sadd_ret by nia. cbn [bind]. rewrite toU_id by nia.
  replace (mdt m * c + mdt sm * soff) with (soff * mdt sm + mdt m * c) by ring.
  replace (mdt m * c + mdt m * doff) with (doff * mdt m + mdt m * c) by ring.
  destruct (Z.leb_spec (soff * mdt sm + mdt m * c) (msize sm)) as [R1 | R1]; cbn [check bind];
    [| rewrite ?andb_false_r; reflexivity].
  rewrite sadd_ret by nia. cbn [bind]. rewrite toU_id by nia.
  replace (mdt m * c + mdt m * doff) with (doff * mdt m + mdt m * c) by ring.
  destruct (Z.leb_spec (doff * mdt m + mdt m * c) (msize m)) as [R2 | R2]; cbn [check bind andb]; [| reflexivity].
  rewrite !toU_id by nia. f_equal. f_equal; ring.
Qed.

Lemma memory_copyToM_char m dm cnt doff soff : wfm m -> wfm dm -> small cnt -> small doff -> small soff ->
  memory_copyToM fixed (Some m) (Some dm) cnt doff soff =
  (let n := (if cnt =? -1 then m_len m else cnt) * mdt m in
   if (0 <=? n) && (0 <=? doff) && (0 <=? soff) && (doff * mdt dm + n <=? msize dm) && (soff * mdt m + n <=? msize m)
   then Ret (PCopy dm m n (doff * mdt dm) (soff * mdt m)) else Throw).
Proof.
  intros Hm Hsm Hc Hd Hso. pose proof Hm as (Ho & Hs & Hb & Hdt). pose proof Hsm as (Ho' & Hs' & Hb' & Hdt').
  unfold memory_copyToM. cbn [fixed fx_other negb orb check bind deref_dt deref_size].
  rewrite (copy_bytes m cnt Hm Hc).
  pose proof (mul_small_bound _ _ Hdt' Hd) as B1.
  pose proof (mul_small_bound _ _ Hdt Hso) as B2.
  pose proof (mul_small_bound _ _ Hdt Hc) as B3.
  unfold m_len in *.
  destruct (div_bounds (msize m) (mdt m)) as (L0 & L1 & L2); [unfold dt_ok in Hdt; lia | lia |].
  consts_in. unfold dt_ok, small in *.
  set (c := if cnt =? -1 then msize m / mdt m else cnt).
  assert (Hcne : c <> -1) by (subst c; destruct (Z.eqb_spec cnt (-1)); lia).
  assert (Bc : - (DTMAX * ARG) < mdt m * c < BMAX) by (subst c; destruct (Z.eqb_spec cnt (-1)); lia).
  rewrite !smul_ret by lia. cbn [bind].
  rewrite leb_m1_mul by lia.
  cbv zeta. replace (c * mdt m) with (mdt m * c) by ring.
  rewrite (leb_mul_pos (mdt m) c), (leb_mul_pos (mdt dm) doff), (leb_mul_pos (mdt m) soff) by lia.
  destruct (Z.leb_spec 0 c) as [C0 | C0]; cbn [check bind andb]; [| reflexivity].
  destruct (Z.leb_spec 0 doff) as [D0 | D0]; cbn [check bind andb]; [| reflexivity].
  destruct (Z.leb_spec 0 soff) as [S0 | S0]; cbn [check bind andb]; [| rewrite ?andb_false_r; reflexivity].
  rewrite sadd_ret by nia. cbn [bind]. rewrite toU_id by nia.
  replace (mdt m * c + mdt m * soff) with (soff * mdt m + mdt m * c) by ring.
  destruct (Z.leb_spec (soff * mdt m + mdt m * c) (msize m)) as [R1 | R1]; cbn [check bind];
    [| rewrite ?andb_false_r; reflexivity].
  rewrite sadd_ret by nia. cbn [bind]. rewrite toU_id by nia.
  replace (mdt m * c + mdt dm * doff) with (doff * mdt dm + mdt m * c) by ring.
  destruct (Z.leb_spec (doff * mdt dm + mdt m * c) (msize dm)) as [R2 | R2]; cbn [check bind andb]; [| reflexivity].
  rewrite !toU_id by nia. f_equal. f_equal; ring.
Qed.

Lemma device_malloc_bytes_char n dt : dt_ok dt -> - (DTMAX * ARG) < n * dt < BMAX ->
  device_malloc_bytes n dt = if n =? 0 then Ret None else if n <? 0 then Throw else Ret (Some (n * dt)).
Proof.
  intros Hdt Hb. unfold device_malloc_bytes. consts_in. unfold dt_ok in *.
  destruct (Z.eqb_spec n 0); [reflexivity |].
  rewrite smul_ret by lia. cbn [bind].
  destruct (Z.ltb_spec n 0); destruct (Z.leb_spec 0 (n * dt)); cbn [check bind]; try reflexivity; nia.
Qed.

Lemma memory_cast_char m dt : wfm m ->
  memory_cast fixed (Some m) dt = Ret (Some (mkMem (mbuf m) (moff m) (m_len m * mdt m) dt)).
Proof.
  intros Hm. pose proof Hm as (Ho & Hs & Hb & Hdt).
  unfold memory_cast. rewrite memory_slice_char; auto; try (unfold small; consts_in; lia).
  cbv zeta. change (-1 =? -1) with true. cbv iota.
  unfold m_len.
  destruct (div_bounds (msize m) (mdt m)) as (L0 & L1 & L2); [unfold dt_ok in Hdt; lia | lia |].
  replace (0 + (msize m / mdt m - 0)) with (msize m / mdt m) by ring.
  replace (msize m / mdt m - 0) with (msize m / mdt m) by ring.
  destruct (Z.leb_spec 0 (msize m / mdt m)); [| lia].
  destruct (Z.leb_spec (msize m / mdt m * mdt m) (msize m)); [| lia].
  cbn [Z.leb andb bind set_dtype set_dt mbuf moff msize mdt]. 
  replace (moff m + 0 * mdt m) with (moff m) by ring. reflexivity.
Qed.

Lemma device_mallocM_char b n dt src fdt : dt_ok dt -> - (DTMAX * ARG) < n * dt < BMAX ->
  (forall sm, src = Some sm -> wfm sm) ->
  device_mallocM fixed b n dt src fdt =
  if n =? 0 then Ret (PSetHandle None) else if n <? 0 then Throw else
  match src with
  | None => Ret (PAlloc (n * dt) fdt false INone)
  | Some sm => if n * dt <=? msize sm then Ret (PAlloc (n * dt) fdt false (IMem sm (n * dt) 0 0)) else Throw
  end.
Proof.
  intros Hdt Hb Hsrc. unfold device_mallocM. rewrite device_malloc_bytes_char by assumption.
  destruct (Z.eqb_spec n 0); [reflexivity |].
  destruct (Z.ltb_spec n 0); [reflexivity |]. cbn [bind].
  destruct src as [sm |]; [| reflexivity]. cbn [fixed fx_src].
  assert (Hf : wfm (mkMem b 0 (n * dt) dt)).
  { unfold wfm; cbn. unfold dt_ok in *. nia. }
  rewrite memory_copyFromM_char; auto; try (unfold small; consts_in; lia).
  cbv zeta. change (-1 =? -1) with true. cbv iota.
  unfold m_len. cbn [msize mdt]. rewrite Z_div_mult by (unfold dt_ok in Hdt; lia).
  unfold dt_ok in *.
  destruct (Z.leb_spec 0 (n * dt)); [| nia].
  replace (0 * dt + n * dt) with (n * dt) by ring.
  replace (0 * mdt sm + n * dt) with (n * dt) by ring.
  rewrite !Z.leb_refl. cbn [Z.leb andb].
  destruct (Z.leb_spec (n * dt) (msize sm)); rewrite ?Z.leb_refl; cbn [andb bind]; [| reflexivity].
  replace (0 * dt) with 0 by ring. replace (0 * mdt sm) with 0 by ring. reflexivity.
Qed.

Lemma memory_clone_char b m : wfm m ->
  memory_clone fixed b (Some m) =
  if msize m =? 0 then Throw else Ret (PAlloc (msize m) (mdt m) false (IMem m (msize m) 0 0)).
Proof.
  intros Hm. pose proof Hm as (Ho & Hs & Hb & Hdt). unfold memory_clone.
  rewrite device_mallocM_char; try (unfold dt_ok; consts_in; lia).
  - rewrite Z.mul_1_r. destruct (Z.eqb_spec (msize m) 0); [reflexivity |].
    destruct (Z.ltb_spec (msize m) 0); [lia |]. rewrite Z.leb_refl. reflexivity.
  - intros sm E; inversion E; subst; assumption.
Qed.

Lemma device_wrap_char n dt seed : dt_ok dt -> small n ->
  device_wrap n dt seed = if n <? 0 then Throw else Ret (PAlloc (n * dt) dt true (IHost seed)).
Proof.
  intros Hdt Hn. unfold device_wrap. pose proof (mul_small_bound _ _ Hdt Hn) as B. consts_in.
  unfold dt_ok, small in *. rewrite smul_ret by nia. cbn [bind].
  destruct (Z.ltb_spec n 0); destruct (Z.leb_spec 0 (n * dt)); cbn [check bind]; try reflexivity; nia.
Qed.
