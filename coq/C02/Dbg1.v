From Coq Require Import List ZArith Bool Lia.
From OV.C02 Require Import Base Model Spec Statements Arith Lists Proofs.
Import ListNotations.
Local Open Scope Z_scope.

Lemma host_cond_within m off c :
  (0 <=? off) && (0 <=? c) && ((off + c) * mdt m <=? msize m) = true -> dt_ok (mdt m) ->
  within m (c * mdt m) (off * mdt m).
Proof.
  intros Cond D. apply andb_true_iff in Cond as [Cond C3]. apply andb_true_iff in Cond as [C1 C2].
  apply Z.leb_le in C1, C2, C3. unfold within, dt_ok in *. repeat split; nia.
Qed.

Lemma good_OCopyToH ms ss a cnt off : wf ms -> Rel ms ss -> small cnt -> small off ->
  good ms ss (OCopyToH a cnt off).
Proof.
  intros Hwf HR Hc Hoff.
  pose proof (spec_handle ms ss a HR) as EH.
  destruct (geth (hs ms) a) as [m |] eqn:Em; cbn [option_map] in EH.
  - destruct (wf_get _ _ _ Hwf Em) as (Hm & Hmm).
    pose proof (host_copy_args_char m cnt off Hmm Hc Hoff) as Ec. cbv zeta in Ec.
    set (c := if cnt =? -1 then m_len m else cnt) in *.
    destruct ((0 <=? off) && (0 <=? c) && ((off + c) * mdt m <=? msize m)) eqn:Cond.
    + pose proof (host_cond_within m off c Cond (proj2 (proj2 (proj2 Hmm)))) as W.
      apply (good_intro _ _ _ ms ss (OKB (rd (getbuf ms (mbuf m)) (moff m + off * mdt m) (c * mdt m)))); auto.
      * apply (step_ret _ _ (PRead m (c * mdt m) (off * mdt m))).
        -- cbn [frontend]. rewrite Em. unfold memory_copyToH. rewrite Ec. reflexivity.
        -- cbn [exec]. rewrite do_read_ok by assumption. reflexivity.
      * cbn [s_step]. rewrite EH. unfold erange, copy_count, elems. cbn [m2v vb vlo vlen vdt].
        fold (m_len m). fold c. rewrite Cond. unfold read.
        destruct HR as [R1 R2 R3 R4]. destruct Hm as (M1 & M2 & M3 & M4 & M5). destruct W as (W1 & W2 & W3).
        rewrite (rd_map _ (smap ss (mbuf m))); auto; lia.
    + apply (good_intro _ _ _ ms ss ERR); auto.
      * apply step_throw. cbn [frontend]. rewrite Em. unfold memory_copyToH. rewrite Ec. reflexivity.
      * cbn [s_step]. rewrite EH. unfold erange, copy_count, elems. cbn [m2v vb vlo vlen vdt].
        fold (m_len m). fold c. rewrite Cond. reflexivity.
  - apply (good_intro _ _ _ ms ss ERR); auto.
    + apply step_throw. cbn [frontend]. rewrite Em. reflexivity.
    + cbn [s_step]. rewrite EH. reflexivity.
Qed.

Lemma good_OCopyFromH ms ss a cnt off seed : wf ms -> Rel ms ss -> small cnt -> small off ->
  good ms ss (OCopyFromH a cnt off seed).
Proof.
  intros Hwf HR Hc Hoff.
  pose proof (spec_handle ms ss a HR) as EH.
  destruct (geth (hs ms) a) as [m |] eqn:Em; cbn [option_map] in EH.
  - destruct (wf_get _ _ _ Hwf Em) as (Hm & Hmm).
    pose proof (host_copy_args_char m cnt off Hmm Hc Hoff) as Ec. cbv zeta in Ec.
    set (c := if cnt =? -1 then m_len m else cnt) in *.
    destruct ((0 <=? off) && (0 <=? c) && ((off + c) * mdt m <=? msize m)) eqn:Cond.
    + pose proof (host_cond_within m off c Cond (proj2 (proj2 (proj2 Hmm)))) as W.
      pose proof W as (W1 & W2 & W3). pose proof Hm as (M1 & M2 & M3 & M4 & M5).
      set (data := patl seed (c * mdt m)).
      assert (Zd : zlen data = c * mdt m) by (apply zlen_patl; assumption).
      set (start := moff m + off * mdt m).
      apply (good_intro _ _ _ (setbuf ms (mbuf m) (wr (getbuf ms (mbuf m)) start data))
               (with_map ss (upd (smap ss) (mbuf m) start (zlen data) (fun i => pat seed (i - start)))) OK).
      * apply (step_ret _ _ (PWrite m (c * mdt m) (off * mdt m))).
        -- cbn [frontend]. rewrite Em. unfold memory_copyFromH. rewrite Ec. reflexivity.
        -- cbn [exec seed_of]. fold data. rewrite do_write_ok; [reflexivity | assumption |].
           rewrite Zd. assumption.
      * cbn [s_step]. rewrite EH. unfold erange, copy_count, elems. cbn [m2v vb vlo vlen vdt].
        fold (m_len m). fold c. rewrite Cond. fold start. rewrite Zd. reflexivity.
      * apply Rel_write; auto; try (unfold start; lia).
        intros k Hk. unfold data. rewrite nth_patl by lia. f_equal. lia.
      * apply wf_setbuf; auto. unfold zlen. rewrite wr_length; auto; unfold start; lia.
      * intros [].
    + apply (good_intro _ _ _ ms ss ERR); auto.
      * apply step_throw. cbn [frontend]. rewrite Em. unfold memory_copyFromH. rewrite Ec. reflexivity.
      * cbn [s_step]. rewrite EH. unfold erange, copy_count, elems. cbn [m2v vb vlo vlen vdt].
        fold (m_len m). fold c. rewrite Cond. reflexivity.
  - apply (good_intro _ _ _ ms ss ERR); auto.
    + apply step_throw. cbn [frontend]. rewrite Em. reflexivity.
    + cbn [s_step]. rewrite EH. reflexivity.
Qed.

Lemma copy_effect ms ss dst src n dB sB :
  wf ms -> Rel ms ss -> wf_mem ms dst -> wf_mem ms src -> within dst n dB -> within src n sB ->
  let ms' := setbuf ms (mbuf dst) (wr (getbuf ms (mbuf dst)) (moff dst + dB)
                                      (rd (getbuf ms (mbuf src)) (moff src + sB) n)) in
  do_copy fixed ms dst src n dB sB = Ret ms' /\ wf ms' /\
  Rel ms' (with_map ss (upd (smap ss) (mbuf dst) (moff dst + dB) n
                            (fun i => smap ss (mbuf src) (moff src + sB + (i - (moff dst + dB)))))).
Proof.
  intros Hwf HR Hd Hs Wd Ws ms'.
  pose proof Hs as (S1 & S2 & S3 & S4 & S5). pose proof Ws as (V1 & V2 & V3).
  pose proof Hd as (D1 & D2 & D3 & D4 & D5). pose proof Wd as (U1 & U2 & U3).
  set (data := rd (getbuf ms (mbuf src)) (moff src + sB) n) in *.
  assert (Zd : zlen data = n) by (apply zlen_rd; lia).
  split; [apply do_copy_ok; assumption |]. split.
  - apply wf_setbuf; auto. unfold zlen. rewrite wr_length; auto; lia.
  - rewrite <- Zd at 1. apply Rel_write; auto; try lia.
    intros k Hk. unfold data. replace k with (Z.of_nat (Z.to_nat k)) at 1 by lia.
    rewrite nth_rd by lia. destruct HR as [R1 R2 R3 R4].
    rewrite (R2 (mbuf src) S1) by lia. f_equal. lia.
Qed.

Lemma copy_cond_within dst src n doff soff :
  (0 <=? n) && (0 <=? doff) && (0 <=? soff) && (doff * mdt dst + n <=? msize dst) && (soff * mdt src + n <=? msize src) = true ->
  dt_ok (mdt dst) -> dt_ok (mdt src) ->
  within dst n (doff * mdt dst) /\ within src n (soff * mdt src).
Proof.
  intros Cond D1 D2. repeat (apply andb_true_iff in Cond as [Cond ?]).
  repeat match goal with H : (_ <=? _) = true |- _ => apply Z.leb_le in H end.
  unfold within, dt_ok in *. repeat split; nia.
Qed.

Lemma good_OCopyFromM ms ss a b cnt doff soff : wf ms -> Rel ms ss -> small cnt -> small doff -> small soff ->
  good ms ss (OCopyFromM a b cnt doff soff).
Proof.
  intros Hwf HR Hc Hd Hso.
  pose proof (spec_handle ms ss a HR) as EHa. pose proof (spec_handle ms ss b HR) as EHb.
  destruct (geth (hs ms) a) as [m |] eqn:Ea; cbn [option_map] in EHa.
  - destruct (geth (hs ms) b) as [sm |] eqn:Eb; cbn [option_map] in EHb.
    + destruct (wf_get _ _ _ Hwf Ea) as (Hm & Hmm). destruct (wf_get _ _ _ Hwf Eb) as (Hsm & Hsmm).
      pose proof (memory_copyFromM_char m sm cnt doff soff Hmm Hsmm Hc Hd Hso) as Ec. cbv zeta in Ec.
      set (n := (if cnt =? -1 then m_len m else cnt) * mdt m) in *.
      destruct ((0 <=? n) && (0 <=? doff) && (0 <=? soff) && (doff * mdt m + n <=? msize m)
                && (soff * mdt sm + n <=? msize sm)) eqn:Cond.
      * destruct (copy_cond_within m sm n doff soff Cond (proj2 (proj2 (proj2 Hmm))) (proj2 (proj2 (proj2 Hsmm)))) as (Wd & Ws).
        destruct (copy_effect ms ss m sm n (doff * mdt m) (soff * mdt sm) Hwf HR Hm Hsm Wd Ws) as (E1 & W1 & R1).
        eapply good_intro; [| | exact R1 | exact W1 | ].
        -- apply (step_ret _ _ (PCopy m sm n (doff * mdt m) (soff * mdt sm))).
           ++ cbn [frontend]. rewrite Ea, Eb, Ec. reflexivity.
           ++ cbn [exec]. rewrite E1. reflexivity.
        -- cbn [s_step]. rewrite EHa, EHb. unfold copy_count, elems. cbn [m2v vb vlo vlen vdt].
           fold (m_len m). fold n. rewrite Cond. reflexivity.
        -- intros [].
      * apply (good_intro _ _ _ ms ss ERR); auto.
        -- apply step_throw. cbn [frontend]. rewrite Ea, Eb, Ec. reflexivity.
        -- cbn [s_step]. rewrite EHa, EHb. unfold copy_count, elems. cbn [m2v vb vlo vlen vdt].
           fold (m_len m). fold n. rewrite Cond. reflexivity.
    + apply (good_intro _ _ _ ms ss ERR); auto.
      * apply step_throw. cbn [frontend]. rewrite Ea, Eb. reflexivity.
      * cbn [s_step]. rewrite EHa, EHb. reflexivity.
  - apply (good_intro _ _ _ ms ss ERR); auto.
    + apply step_throw. cbn [frontend]. rewrite Ea. destruct (geth (hs ms) b); reflexivity.
    + cbn [s_step]. rewrite EHa. reflexivity.
Qed.

Lemma good_OCopyToM ms ss a b cnt doff soff : wf ms -> Rel ms ss -> small cnt -> small doff -> small soff ->
  good ms ss (OCopyToM a b cnt doff soff).
Proof.
  intros Hwf HR Hc Hd Hso.
  pose proof (spec_handle ms ss a HR) as EHa. pose proof (spec_handle ms ss b HR) as EHb.
  destruct (geth (hs ms) a) as [m |] eqn:Ea; cbn [option_map] in EHa.
  - destruct (geth (hs ms) b) as [dm |] eqn:Eb; cbn [option_map] in EHb.
    + destruct (wf_get _ _ _ Hwf Ea) as (Hm & Hmm). destruct (wf_get _ _ _ Hwf Eb) as (Hdm & Hdmm).
      pose proof (memory_copyToM_char m dm cnt doff soff Hmm Hdmm Hc Hd Hso) as Ec. cbv zeta in Ec.
      set (n := (if cnt =? -1 then m_len m else cnt) * mdt m) in *.
      destruct ((0 <=? n) && (0 <=? doff) && (0 <=? soff) && (doff * mdt dm + n <=? msize dm)
                && (soff * mdt m + n <=? msize m)) eqn:Cond.
      * destruct (copy_cond_within dm m n doff soff Cond (proj2 (proj2 (proj2 Hdmm))) (proj2 (proj2 (proj2 Hmm)))) as (Wd & Ws).
        destruct (copy_effect ms ss dm m n (doff * mdt dm) (soff * mdt m) Hwf HR Hdm Hm Wd Ws) as (E1 & W1 & R1).
        eapply good_intro; [| | exact R1 | exact W1 | ].
        -- apply (step_ret _ _ (PCopy dm m n (doff * mdt dm) (soff * mdt m))).
           ++ cbn [frontend]. rewrite Ea, Eb, Ec. reflexivity.
           ++ cbn [exec]. rewrite E1. reflexivity.
        -- cbn [s_step]. rewrite EHa, EHb. unfold copy_count, elems. cbn [m2v vb vlo vlen vdt].
           fold (m_len m). fold n. rewrite Cond. reflexivity.
        -- intros [].
      * apply (good_intro _ _ _ ms ss ERR); auto.
        -- apply step_throw. cbn [frontend]. rewrite Ea, Eb, Ec. reflexivity.
        -- cbn [s_step]. rewrite EHa, EHb. unfold copy_count, elems. cbn [m2v vb vlo vlen vdt].
           fold (m_len m). fold n. rewrite Cond. reflexivity.
    + apply (good_intro _ _ _ ms ss ERR); auto.
      * apply step_throw. cbn [frontend]. rewrite Ea, Eb. reflexivity.
      * cbn [s_step]. rewrite EHa, EHb. reflexivity.
  - apply (good_intro _ _ _ ms ss ERR); auto.
    + apply step_throw. cbn [frontend]. rewrite Ea. destruct (geth (hs ms) b); reflexivity.
    + cbn [s_step]. rewrite EHa. reflexivity.
Qed.
