(* C02 — proofs, part 3: byte lists (the model's buffers) versus byte maps (the specification's store);
   handle-slot updates. *)
From Coq Require Import List ZArith Bool Lia.
From OV.C02 Require Import Base Model Spec Statements.
Import ListNotations.
Local Open Scope Z_scope.

Lemma zlen_nonneg {A} (l : list A) : 0 <= zlen l.
Proof. unfold zlen; lia. Qed.

Lemma zlen_app {A} (l1 l2 : list A) : zlen (l1 ++ l2) = zlen l1 + zlen l2.
Proof. unfold zlen; rewrite app_length; lia. Qed.

(* ---- nth through firstn / skipn *)
Lemma nth_firstn_lt {A} (d : A) : forall n i l, (i < n)%nat -> nth i (firstn n l) d = nth i l d.
Proof.
  induction n; intros i l H; [lia |].
  destruct l; [destruct i; reflexivity |].
  destruct i; cbn; [reflexivity | apply IHn; lia].
Qed.

Lemma nth_skipn_add {A} (d : A) : forall n i l, nth i (skipn n l) d = nth (n + i) l d.
Proof.
  induction n; intros i l; [reflexivity |].
  destruct l; cbn; [destruct i; reflexivity | apply IHn].
Qed.

Lemma zseq_length lo n : length (zseq lo n) = Z.to_nat n.
Proof. unfold zseq; rewrite map_length, seq_length; reflexivity. Qed.

Lemma nth_zseq lo n k : (k < Z.to_nat n)%nat -> nth k (zseq lo n) 0 = lo + Z.of_nat k.
Proof.
  intros H. pose (g := fun j : nat => lo + Z.of_nat j).
  change (zseq lo n) with (map g (seq 0 (Z.to_nat n))).
  rewrite nth_indep with (d' := g 0%nat) by (rewrite map_length, seq_length; lia).
  rewrite map_nth, seq_nth by lia. reflexivity.
Qed.

Lemma in_zseq lo n i : In i (zseq lo n) -> lo <= i < lo + n.
Proof.
  unfold zseq; rewrite in_map_iff; intros (k & <- & Hk). apply in_seq in Hk. lia.
Qed.

(* ---- reading *)
Lemma rd_length l start len : 0 <= start -> 0 <= len -> start + len <= zlen l ->
  length (rd l start len) = Z.to_nat len.
Proof.
  intros. unfold rd, zlen in *. rewrite firstn_length, skipn_length. lia.
Qed.

Lemma nth_rd l start len k : 0 <= start -> (k < Z.to_nat len)%nat ->
  nth k (rd l start len) 0 = nth (Z.to_nat (start + Z.of_nat k)) l 0.
Proof.
  intros Hs Hk. unfold rd. rewrite nth_firstn_lt by lia. rewrite nth_skipn_add.
  f_equal. lia.
Qed.

Lemma list_eq_nth (l1 l2 : list Z) : length l1 = length l2 ->
  (forall k, (k < length l1)%nat -> nth k l1 0 = nth k l2 0) -> l1 = l2.
Proof. intros H1 H2. apply nth_ext with (d := 0) (d' := 0); auto. Qed.

(* a read of an in-range region is the byte map over that region *)
Lemma rd_map l f start len : Rbuf l f -> 0 <= start -> 0 <= len -> start + len <= zlen l ->
  rd l start len = map f (zseq start len).
Proof.
  intros HR Hs Hl Hr. apply list_eq_nth.
  - rewrite rd_length, map_length, zseq_length by lia. reflexivity.
  - intros k Hk. rewrite rd_length in Hk by lia.
    rewrite nth_rd by lia.
    rewrite nth_indep with (d' := f 0) (l := map f _) by (rewrite map_length, zseq_length; lia).
    rewrite map_nth, nth_zseq by lia. apply HR. lia.
Qed.

(* ---- writing *)
Lemma wr_length l start new : 0 <= start -> start + zlen new <= zlen l ->
  length (wr l start new) = length l.
Proof.
  intros Hs Hr. unfold wr, zlen in *. rewrite !app_length, firstn_length, skipn_length. lia.
Qed.

Lemma nth_wr l start new i : 0 <= start -> start + zlen new <= zlen l -> 0 <= i ->
  nth (Z.to_nat i) (wr l start new) 0 =
  if (start <=? i) && (i <? start + zlen new) then nth (Z.to_nat (i - start)) new 0 else nth (Z.to_nat i) l 0.
Proof.
  intros Hs Hr Hi. unfold wr, zlen in *.
  destruct (Z.leb_spec start i) as [H1 | H1]; cbn [andb].
  - rewrite app_nth2 by (rewrite firstn_length; lia).
    rewrite firstn_length. replace (Nat.min (Z.to_nat start) (length l)) with (Z.to_nat start) by lia.
    destruct (Z.ltb_spec i (start + Z.of_nat (length new))) as [H2 | H2].
    + rewrite app_nth1 by lia. f_equal. lia.
    + rewrite app_nth2 by lia. rewrite nth_skipn_add. f_equal. lia.
  - rewrite app_nth1 by (rewrite firstn_length; lia). apply nth_firstn_lt. lia.
Qed.

Lemma Rbuf_wr l f start new g : Rbuf l f -> 0 <= start -> start + zlen new <= zlen l ->
  (forall k, 0 <= k < zlen new -> nth (Z.to_nat k) new 0 = g (start + k)) ->
  Rbuf (wr l start new) (fun i => if (start <=? i) && (i <? start + zlen new) then g i else f i).
Proof.
  intros HR Hs Hr Hg i Hi.
  assert (zlen (wr l start new) = zlen l) by (unfold zlen; rewrite wr_length; auto).
  rewrite nth_wr by lia.
  destruct ((start <=? i) && (i <? start + zlen new)) eqn:E.
  - apply andb_true_iff in E as [E1 E2]. apply Z.leb_le in E1. apply Z.ltb_lt in E2.
    rewrite Hg by lia. f_equal. lia.
  - apply HR. lia.
Qed.

Lemma Rbuf_ext l f g : Rbuf l f -> (forall i, 0 <= i < zlen l -> f i = g i) -> Rbuf l g.
Proof. intros H E i Hi. rewrite <- E by assumption. apply H; assumption. Qed.

(* ---- host patterns and fresh buffers *)
Lemma patl_length seed n : length (patl seed n) = Z.to_nat n.
Proof. unfold patl. rewrite map_length, zseq_length. reflexivity. Qed.

Lemma zlen_patl seed n : 0 <= n -> zlen (patl seed n) = n.
Proof. intros. unfold zlen. rewrite patl_length. lia. Qed.

Lemma nth_patl seed n k : 0 <= k < n -> nth (Z.to_nat k) (patl seed n) 0 = pat seed k.
Proof.
  intros Hk. unfold patl.
  rewrite nth_indep with (d' := pat seed 0) by (rewrite map_length, zseq_length; lia).
  rewrite map_nth, nth_zseq by lia. f_equal. lia.
Qed.

Lemma zlen_repeat {A} (x : A) n : 0 <= n -> zlen (repeat x (Z.to_nat n)) = n.
Proof. intros. unfold zlen. rewrite repeat_length. lia. Qed.

Lemma nth_repeat_lt {A} (x d : A) n k : (k < n)%nat -> nth k (repeat x n) d = x.
Proof. revert k; induction n; intros k H; [lia |]. destruct k; cbn; [reflexivity | apply IHn; lia]. Qed.

(* ---- slot and buffer updates *)
Lemma seth_length {A} (l : list (option A)) i v : length (seth l i v) = length l.
Proof. revert i; induction l; intros [| i]; cbn; auto. Qed.

Lemma geth_seth {A} (l : list (option A)) i v j :
  geth (seth l i v) j = if (j =? i)%nat && (i <? length l)%nat then v else geth l j.
Proof.
  unfold geth. revert i j; induction l as [| x l IH]; intros i j.
  - cbn. rewrite andb_false_r. reflexivity.
  - destruct i, j; cbn [seth nth length]; try reflexivity.
    rewrite IH. cbn [Nat.eqb]. 
    replace (S i <? S (length l))%nat with (i <? length l)%nat; [reflexivity |].
    apply eq_true_iff_eq. rewrite !Nat.ltb_lt. lia.
Qed.

Lemma map_seth {A B} (f : option A -> option B) (l : list (option A)) i v :
  map f (seth l i v) = seth (map f l) i (f v).
Proof. revert i; induction l; intros [| i]; cbn; auto. f_equal. apply IHl. Qed.

Lemma setnth_length {A} (l : list A) i v : length (setnth l i v) = length l.
Proof. revert i; induction l; intros [| i]; cbn; auto. Qed.

Lemma nth_setnth {A} (d : A) (l : list A) i v j :
  nth j (setnth l i v) d = if (j =? i)%nat && (i <? length l)%nat then v else nth j l d.
Proof.
  revert i j; induction l as [| x l IH]; intros i j.
  - cbn. rewrite andb_false_r. reflexivity.
  - destruct i, j; cbn [setnth nth length]; try reflexivity.
    rewrite IH. cbn [Nat.eqb].
    replace (S i <? S (length l))%nat with (i <? length l)%nat; [reflexivity |].
    apply eq_true_iff_eq. rewrite !Nat.ltb_lt. lia.
Qed.

Lemma map_setnth {A B} (f : A -> B) (l : list A) i v : map f (setnth l i v) = setnth (map f l) i (f v).
Proof. revert i; induction l; intros [| i]; cbn; auto. f_equal. apply IHl. Qed.

Lemma setnth_same {A} (d : A) (l : list A) i : setnth l i (nth i l d) = l.
Proof. revert i; induction l; intros [| i]; cbn; auto. f_equal. apply IHl. Qed.
