(* C02 — vocabulary shared by the model (Model.v) and the specification (Spec.v): the operations
   of a history (the inputs), the observations, the byte pattern the drivers put in host arrays,
   and handle-slot lists.  No semantics of occa::memory lives here. *)
From Coq Require Import List ZArith Bool Lia.
Import ListNotations.
Local Open Scope Z_scope.

(* A history is run against a fixed array of handle slots (occa::memory variables h[0..]); slots are
   named by index.  Integers are the C++ call's arguments as written (dim_t), dtypes are given by
   their size in bytes. *)
Inductive op : Type :=
| OMalloc   (d : nat) (n dt : Z)                     (* h[d] = dev.malloc(n, dtype)                       *)
| OMallocH  (d : nat) (n dt seed : Z) (uhp : bool)   (* h[d] = dev.malloc(n, dtype, hostptr[, use_host_pointer]) *)
| OMallocM  (d : nat) (n dt : Z) (s : nat)           (* h[d] = dev.malloc(n, dtype, h[s])                 *)
| OWrap     (d : nat) (n dt seed : Z)                (* h[d] = dev.wrapMemory(hostptr, n, dtype)          *)
| OSlice    (d s : nat) (off cnt : Z)                (* h[d] = h[s].slice(off, cnt)   (cnt=-1: h[s] + off) *)
| OCast     (d s : nat) (dt : Z)                     (* h[d] = h[s].cast(dtype)                           *)
| OClone    (d s : nat)                              (* h[d] = h[s].clone()                               *)
| OCopyFromH (a : nat) (cnt off seed : Z)            (* h[a].copyFrom(hostptr, cnt, off)                  *)
| OCopyToH  (a : nat) (cnt off : Z)                  (* h[a].copyTo(hostptr, cnt, off)  -> bytes read     *)
| OCopyFromM (a b : nat) (cnt doff soff : Z)         (* h[a].copyFrom(h[b], cnt, doff, soff)              *)
| OCopyToM  (a b : nat) (cnt doff soff : Z)          (* h[a].copyTo(h[b], cnt, doff, soff)                *)
| OAssign   (d s : nat)                              (* h[d] = h[s]                                       *)
| OReset    (d : nat)                                (* h[d] = occa::memory()                             *)
| OSize     (a : nat)                                (* h[a].length(), byte_size(), dtype().bytes()       *)
| OHostRead (k : nat).                               (* contents of the k-th host array given to wrapMemory / use_host_pointer *)

Inductive crash : Type := CNull | COob | COvf | COverlap.

Inductive obs : Type :=
| OK                      (* accepted, nothing to show *)
| OKB (data : list Z)     (* accepted, bytes read (a value outside 0..255 stands for "never written") *)
| OKN (nums : list Z)     (* accepted, numbers *)
| ERR                     (* occa::exception *)
| CRASH (c : crash).      (* null dereference / access outside the allocation / signed overflow / memcpy overlap *)

(* byte i of the host array the drivers build from `seed` *)
Definition pat (seed i : Z) : Z := (seed + 31 * i) mod 256.

(* "never written" marker for bytes of a malloc without source *)
Definition undef : Z := -1.

(* [lo, lo+1, ..., lo+n-1] *)
Definition zseq (lo n : Z) : list Z := map (fun k => lo + Z.of_nat k) (seq 0 (Z.to_nat n)).

Definition zlen {A} (l : list A) : Z := Z.of_nat (length l).

(* handle slots *)
Section Slots.
  Context {A : Type}.
  Definition geth (l : list (option A)) (i : nat) : option A := nth i l None.
  Fixpoint seth (l : list (option A)) (i : nat) (v : option A) : list (option A) :=
    match l, i with
    | [], _ => []
    | _ :: t, O => v :: t
    | x :: t, S j => x :: seth t j v
    end.
End Slots.

Definition nslots : nat := 6.
