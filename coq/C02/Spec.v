(* C02 — the specification: device memory as an abstract byte map with views.

   The store is a total map  (buffer id, absolute byte index) |-> byte  plus the length of every buffer
   (one buffer per root allocation: malloc, wrapMemory, clone).  A handle is either uninitialized or a
   view (buffer, first byte, length in bytes, element size).  Slices and casts are views into the
   *same* buffer (they alias), clones and malloc-with-source are *new* buffers (they do not).
   All range conditions are plain inequalities over Z in elements of the view's dtype; there are
   no machine integers here.  Conventions taken from the API, not from its implementation:
     - count = -1 means "all elements" for copies and "up to the end" for slices;
     - an allocation of 0 entries yields an uninitialized handle (zero-byte allocations do not exist),
       hence cloning an empty view is an error; wrapMemory of 0 entries is a valid empty view;
     - an uninitialized source given to malloc(entries, dtype, src) means "no source";
     - cast(dtype) is slice(0) retyped: it covers the whole elements of the view it is taken from;
     - every other request involving an uninitialized handle is an error;
     - a single allocation (malloc, wrapMemory) of more than alloc_limit = 2^62-1 bytes is an error;
     - an error leaves the store and the handles unchanged.
   Written independently of Model.v (shares only the input/observation vocabulary of Base.v). *)
From Coq Require Import List ZArith Bool Lia.
From OV.C02 Require Import Base.
Import ListNotations.
Local Open Scope Z_scope.

Record view : Type := mkView { vb : nat; vlo : Z; vlen : Z; vdt : Z }.

Record sstate : Type := mkS {
  smap   : nat -> Z -> Z;            (* (buffer, absolute index) |-> byte *)
  slens  : list Z;                   (* length of each buffer; next buffer id = length slens *)
  shs    : list (option view);       (* handle slots *)
  swraps : list nat                  (* buffers that are caller-owned host arrays *)
}.

Definition sinit : sstate := mkS (fun _ _ => undef) [] (repeat None nslots) [].

Definition elems (v : view) : Z := vlen v / vdt v.

(* the largest byte count the library accepts for one allocation *)
Definition alloc_limit : Z := 4611686018427387903.

(* element range [off, off+c) of view v, as (first absolute byte, number of bytes) *)
Definition erange (v : view) (off c : Z) : option (Z * Z) :=
  if (0 <=? off) && (0 <=? c) && ((off + c) * vdt v <=? vlen v)
  then Some (vlo v + off * vdt v, c * vdt v) else None.

Definition copy_count (v : view) (count : Z) : Z := if count =? -1 then elems v else count.
Definition slice_count (v : view) (off count : Z) : Z := if count =? -1 then elems v - off else count.

Definition read (st : sstate) (b : nat) (lo n : Z) : list Z := map (smap st b) (zseq lo n).

(* overwrite bytes [lo, lo+n) of buffer b with g(i) *)
Definition upd (f : nat -> Z -> Z) (b : nat) (lo n : Z) (g : Z -> Z) : nat -> Z -> Z :=
  fun b' i => if (b' =? b)%nat && (lo <=? i) && (i <? lo + n) then g i else f b' i.

Definition with_map (st : sstate) (f : nat -> Z -> Z) : sstate := mkS f (slens st) (shs st) (swraps st).
Definition with_handle (st : sstate) (d : nat) (h : option view) : sstate :=
  mkS (smap st) (slens st) (seth (shs st) d h) (swraps st).

(* a new buffer of n bytes with contents g, bound to slot d with element size dt *)
Definition new_buffer (st : sstate) (d : nat) (n dt : Z) (wrapped : bool) (g : Z -> Z) : sstate :=
  let b := length (slens st) in
  mkS (upd (smap st) b 0 n g) (slens st ++ [n])
      (seth (shs st) d (Some (mkView b 0 n dt)))
      (if wrapped then swraps st ++ [b] else swraps st).

Definition s_slice (v : view) (off count : Z) : option view :=
  match erange v off (slice_count v off count) with
  | Some (lo, n) => Some (mkView (vb v) lo n (vdt v))
  | None => None
  end.

Definition s_step (st : sstate) (o : op) : sstate * obs :=
  let H := geth (shs st) in
  match o with
  | OMalloc d n dt =>
      if n =? 0 then (with_handle st d None, OK)
      else if (n <? 0) || (alloc_limit <? n * dt) then (st, ERR)
      else (new_buffer st d (n * dt) dt false (fun _ => undef), OK)
  | OMallocH d n dt seed uhp =>
      if n =? 0 then (with_handle st d None, OK)
      else if (n <? 0) || (alloc_limit <? n * dt) then (st, ERR)
      else (new_buffer st d (n * dt) dt uhp (pat seed), OK)
  | OMallocM d n dt s =>
      if n =? 0 then (with_handle st d None, OK)
      else if (n <? 0) || (alloc_limit <? n * dt) then (st, ERR)
      else match H s with
           | None => (new_buffer st d (n * dt) dt false (fun _ => undef), OK)
           | Some v =>
               if n * dt <=? vlen v
               then (new_buffer st d (n * dt) dt false (fun i => smap st (vb v) (vlo v + i)), OK)
               else (st, ERR)
           end
  | OWrap d n dt seed =>
      if (n <? 0) || (alloc_limit <? n * dt) then (st, ERR) else (new_buffer st d (n * dt) dt true (pat seed), OK)
  | OSlice d s off cnt =>
      match H s with
      | None => (st, ERR)
      | Some v => match s_slice v off cnt with
                  | Some v' => (with_handle st d (Some v'), OK)
                  | None => (st, ERR)
                  end
      end
  | OCast d s dt =>
      match H s with
      | None => (st, ERR)
      | Some v => (with_handle st d (Some (mkView (vb v) (vlo v) (elems v * vdt v) dt)), OK)
      end
  | OClone d s =>
      match H s with
      | None => (st, ERR)
      | Some v =>
          if vlen v =? 0 then (st, ERR)
          else (new_buffer st d (vlen v) (vdt v) false (fun i => smap st (vb v) (vlo v + i)), OK)
      end
  | OCopyFromH a cnt off seed =>
      match H a with
      | None => (st, ERR)
      | Some v => match erange v off (copy_count v cnt) with
                  | Some (lo, n) => (with_map st (upd (smap st) (vb v) lo n (fun i => pat seed (i - lo))), OK)
                  | None => (st, ERR)
                  end
      end
  | OCopyToH a cnt off =>
      match H a with
      | None => (st, ERR)
      | Some v => match erange v off (copy_count v cnt) with
                  | Some (lo, n) => (st, OKB (read st (vb v) lo n))
                  | None => (st, ERR)
                  end
      end
  | OCopyFromM a b cnt doff soff =>
      (* h[a] is the destination and gives the count's unit *)
      match H a, H b with
      | Some vd, Some vs =>
          let n := copy_count vd cnt * vdt vd in
          if (0 <=? n) && (0 <=? doff) && (0 <=? soff)
             && (doff * vdt vd + n <=? vlen vd) && (soff * vdt vs + n <=? vlen vs)
          then let dlo := vlo vd + doff * vdt vd in
               let slo := vlo vs + soff * vdt vs in
               (with_map st (upd (smap st) (vb vd) dlo n (fun i => smap st (vb vs) (slo + (i - dlo)))), OK)
          else (st, ERR)
      | _, _ => (st, ERR)
      end
  | OCopyToM a b cnt doff soff =>
      (* h[a] is the source and gives the count's unit *)
      match H a, H b with
      | Some vs, Some vd =>
          let n := copy_count vs cnt * vdt vs in
          if (0 <=? n) && (0 <=? doff) && (0 <=? soff)
             && (doff * vdt vd + n <=? vlen vd) && (soff * vdt vs + n <=? vlen vs)
          then let dlo := vlo vd + doff * vdt vd in
               let slo := vlo vs + soff * vdt vs in
               (with_map st (upd (smap st) (vb vd) dlo n (fun i => smap st (vb vs) (slo + (i - dlo)))), OK)
          else (st, ERR)
      | _, _ => (st, ERR)
      end
  | OAssign d s => (with_handle st d (H s), OK)
  | OReset d => (with_handle st d None, OK)
  | OSize a =>
      (st, OKN (match H a with None => [0; 0; 0] | Some v => [elems v; vlen v; vdt v] end))
  | OHostRead k =>
      (st, match nth_error (swraps st) k with
           | Some b => OKB (read st b 0 (nth b (slens st) 0))
           | None => OKN []
           end)
  end.

Fixpoint s_run (st : sstate) (h : list op) : list obs :=
  match h with
  | [] => []
  | o :: h' => let r := s_step st o in snd r :: s_run (fst r) h'
  end.
