(* C02 — device memory behaves like an aliased byte array; misuse raises.

   Vocabulary: Model.step c s o is one C++ statement of a history on the model of occa::memory (cfg
   `fixed` = /repo with fixes/C02-1..7, `pinned` = the code before them, `fixed6` = C02-1..6 only);
   Spec.s_step is the abstract byte-map specification (slices/casts are views of the same buffer, clones and
   malloc(src) are new buffers, misuse is ERR and changes nothing).  `ops_ok h` is not a guard but the domain
   of the C++ interface: every integer argument is a dim_t value (-2^63 <= x < 2^63, ALL of them, including
   INT64_MIN and INT64_MAX) and every dtype size is a positive `int`.  With fixes/C02-7 (entriesToBytes) no
   product or sum of the bound checks wraps; the wrapping arithmetic of the code before it is refuted by the
   `wrapped_*_refuted` witnesses below. *)
From Coq Require Import List ZArith Bool Lia.
From OV.C02 Require Import Base Model Spec Statements Arith Lists Proofs.
Import ListNotations.
Local Open Scope Z_scope.

(* Every read returns what the byte-array specification predicts, every misuse is an error exactly
   where the specification says so: the whole observation sequence of every history agrees. *)
Theorem refines_views : forall h : list op, ops_ok h -> run fixed init h = s_run sinit h.
Proof. intros h H. exact (proj1 (run_refines_gen h init sinit wf_init Rel_init H)). Qed.
Print Assumptions refines_views.

(* No request crashes: no null dereference, no access outside an allocation, no signed overflow,
   no overlapping memcpy. *)
Theorem no_crash : forall h : list op, ops_ok h -> Forall (fun ob => ~ is_crash ob) (run fixed init h).
Proof. intros h H. exact (proj2 (run_refines_gen h init sinit wf_init Rel_init H)). Qed.
Print Assumptions no_crash.

(* An accepted request touches only bytes inside the handle's own range [offset, offset+size); a new
   view lies inside the view it was taken from ("out of range requests raise"), in every reachable state. *)
Theorem accepted_in_range : forall (h : list op) (o : op) (p : plan), ops_ok h -> op_ok o ->
  frontend fixed (final fixed init h) o = Ret p ->
  plan_in_range (parent_of (final fixed init h) o) p.
Proof.
  intros h o p Hh Ho E. apply frontend_in_range; auto. apply (wf_final h init sinit wf_init Rel_init Hh).
Qed.
Print Assumptions accepted_in_range.

(* ... and a handle's own range lies inside its buffer, so such an access is inside the allocation. *)
Theorem own_range_in_buffer : forall (h : list op) (i : nat) (m : mem) (bytes off : Z), ops_ok h ->
  geth (hs (final fixed init h)) i = Some m -> within m bytes off ->
  0 <= moff m + off /\ moff m + off + bytes <= zlen (getbuf (final fixed init h) (mbuf m)).
Proof.
  intros h i m bytes off Hh E W. apply in_range_in_buffer; auto.
  apply (wf_get _ i m (wf_final h init sinit wf_init Rel_init Hh) E).
Qed.
Print Assumptions own_range_in_buffer.

(* A rejected request changes nothing: holds for every variant of the code, every state, every argument. *)
Theorem rejected_unchanged : forall (c : cfg) (s s' : state) (o : op), step c s o = (s', ERR) -> s' = s.
Proof. intros c s s' o. apply step_err_unchanged. Qed.
Print Assumptions rejected_unchanged.

(* A request with an uninitialized handle in an argument position raises, for all arguments (no guard). *)
Theorem uninit_raises : forall (s : state) (o : op), uses_uninit s o -> step fixed s o = (s, ERR).
Proof. exact uninit_raises_gen. Qed.
Print Assumptions uninit_raises.

Ltac solve_ops_ok :=
  unfold ops_ok; repeat (apply Forall_cons; [cbn [op_ok]; unfold small, dt_ok, two63, DTMAX; repeat split; try lia |]);
  apply Forall_nil.

(* ---- non-vacuity: a history that slices, casts, clones, copies host<->device and device<->device *)
Definition demo : list op :=
  [ OMallocH 0 16 1 7 false; OSlice 1 0 4 8; OCast 2 1 4; OCopyFromH 2 1 1 100; OCopyToH 0 (-1) 0;
    OClone 3 0; OCopyFromH 3 (-1) 0 200; OCopyToH 0 4 4; OCopyFromM 0 0 8 2 0; OCopyToH 0 (-1) 0;
    OSlice 4 1 (-1) 1; OCopyToM 5 0 1 0 0; OCopyToH 2 3 0 ].
Example demo_ok : ops_ok demo.
Proof. unfold demo. solve_ops_ok. Qed.
Example demo_run :
  run fixed init demo =
  [ OK; OK; OK; OK;
    OKB [7; 38; 69; 100; 131; 162; 193; 224; 100; 131; 162; 193; 123; 154; 185; 216];   (* the write through the cast slice is seen through the root *)
    OK; OK;
    OKB [131; 162; 193; 224];                                                             (* the write through the clone is not *)
    OK;
    OKB [7; 38; 7; 38; 69; 100; 131; 162; 193; 224; 162; 193; 123; 154; 185; 216];        (* overlapping copy = memmove *)
    ERR; ERR; ERR ].
Proof. vm_compute. reflexivity. Qed.
Example demo_spec : s_run sinit demo = run fixed init demo.
Proof. symmetry. apply refines_views. exact demo_ok. Qed.

(* non-vacuity at the ends of the dim_t range: every such request is in the theorems' domain and raises *)
Definition extremes : list op :=
  [ OMallocH 0 16 1 7 false; OCast 1 0 4;
    OCopyToH 1 9223372036854775807 9223372036854775807; OCopyToH 1 (-9223372036854775808) 0;
    OCopyFromH 0 4611686018427387904 1 9; OSlice 2 1 9223372036854775807 (-1); OSlice 2 1 1 9223372036854775807;
    OCopyFromM 1 0 2305843009213693952 0 4611686018427387904; OCopyToM 1 0 (-9223372036854775808) 9223372036854775807 0;
    OMalloc 3 9223372036854775807 2147483647; OWrap 3 (-9223372036854775808) 8 1; OMallocM 3 4611686018427387904 1 0;
    OCopyToH 0 (-1) 0 ].
Example extremes_ok : ops_ok extremes.
Proof. unfold extremes. solve_ops_ok. Qed.
Example extremes_run :
  run fixed init extremes =
  [ OK; OK; ERR; ERR; ERR; ERR; ERR; ERR; ERR; ERR; ERR; ERR;
    OKB [7; 38; 69; 100; 131; 162; 193; 224; 255; 30; 61; 92; 123; 154; 185; 216] ].
Proof. vm_compute. reflexivity. Qed.

(* ---- the pinned code (before fixes/C02-1..6) violates the property: witnesses *)

(* C02-2 (DESIGN 8 #4): a negative offset on a slice of a slice is accepted and reads the parent's bytes *)
Theorem neg_offset_slice_refuted :
  let h := [OMallocH 0 16 1 7 false; OSlice 1 0 8 (-1); OSlice 2 1 (-4) 2; OCopyToH 2 (-1) 0] in
  ops_ok h /\ run pinned init h = [OK; OK; OK; OKB [131; 162]] /\ s_run sinit h = [OK; OK; ERR; ERR].
Proof. split; [| split]; [solve_ops_ok | vm_compute; reflexivity ..]. Qed.
Print Assumptions neg_offset_slice_refuted.

(* C02-1 (DESIGN 8 #3): a.copyTo(u) / a.copyFrom(u) with u uninitialized dereference null *)
Theorem uninit_copy_crash_refuted :
  run pinned init [OMallocH 0 16 1 7 false; OCopyToM 0 1 (-1) 0 0] = [OK; CRASH CNull] /\
  run pinned init [OMallocH 0 16 1 7 false; OCopyFromM 0 1 (-1) 0 0] = [OK; CRASH CNull].
Proof. split; vm_compute; reflexivity. Qed.
Print Assumptions uninit_copy_crash_refuted.

(* C02-3 (DESIGN 8 #5): copies on an uninitialized `this` return silently *)
Theorem uninit_this_silent_refuted :
  run pinned init [OCopyToH 0 (-1) 0; OCopyFromH 0 2 1 9; OCopyToM 0 1 (-1) 0 0] = [OKB []; OK; OK] /\
  s_run sinit [OCopyToH 0 (-1) 0; OCopyFromH 0 2 1 9; OCopyToM 0 1 (-1) 0 0] = [ERR; ERR; ERR].
Proof. split; vm_compute; reflexivity. Qed.
Print Assumptions uninit_this_silent_refuted.

(* C02-4: slice / clone of an uninitialized handle return an uninitialized handle silently *)
Theorem uninit_slice_clone_silent_refuted :
  run pinned init [OSlice 1 0 0 (-1); OClone 2 0; OSize 1] = [OK; OK; OKN [0; 0; 0]] /\
  s_run sinit [OSlice 1 0 0 (-1); OClone 2 0; OSize 1] = [ERR; ERR; OKN [0; 0; 0]].
Proof. split; vm_compute; reflexivity. Qed.
Print Assumptions uninit_slice_clone_silent_refuted.

(* C02-5: a source with fewer bytes than one element of its dtype (size() == 0) is skipped silently:
   a malloc from a 3-byte view typed float has unspecified contents (so has its clone) *)
Theorem short_source_refuted :
  let h := [OMallocH 0 16 1 7 false; OSlice 1 0 0 3; OCast 2 1 4; OMallocM 3 3 1 2; OCopyToH 3 (-1) 0] in
  ops_ok h /\ run pinned init h = [OK; OK; OK; OK; OKB [undef; undef; undef]] /\
  s_run sinit h = [OK; OK; OK; OK; OKB [7; 38; 69]].
Proof. split; [| split]; [solve_ops_ok | vm_compute; reflexivity ..]. Qed.
Print Assumptions short_source_refuted.

(* C02-6: a device-to-device copy between overlapping views of one buffer is a memcpy with overlap *)
Theorem overlap_memcpy_refuted :
  run pinned init [OMallocH 0 16 1 7 false; OCopyFromM 0 0 8 2 0] = [OK; CRASH COverlap].
Proof. vm_compute; reflexivity. Qed.
Print Assumptions overlap_memcpy_refuted.

(* ---- the wrapping arithmetic before fixes/C02-7 (cfg fixed6 = C02-1..6 applied, as well as pinned): arguments
   near the ends of the dim_t range.  On the repaired code the same requests raise. *)

(* the unsigned product dtypeSize * count wraps: a count of 2^62+1 floats is accepted as 4 bytes *)
Theorem wrapped_count_accepted_refuted :
  let h := [OMallocH 0 16 1 7 false; OCast 1 0 4; OCopyToH 1 4611686018427387905 0] in
  ops_ok h /\ run fixed6 init h = [OK; OK; OKB [7; 38; 69; 100]] /\ run pinned init h = [OK; OK; OKB [7; 38; 69; 100]] /\
  s_run sinit h = [OK; OK; ERR] /\ run fixed init h = [OK; OK; ERR].
Proof. split; [solve_ops_ok | repeat split; vm_compute; reflexivity]. Qed.
Print Assumptions wrapped_count_accepted_refuted.

(* the signed product dtypeSize * offset and the signed sum bytes + offset overflow (undefined behaviour) *)
Theorem wrapped_overflow_ub_refuted :
  let h1 := [OMallocH 0 16 1 7 false; OCast 1 0 4; OCopyToH 1 1 4611686018427387905] in
  let h2 := [OMallocH 0 16 1 7 false; OCopyToH 0 9223372036854775807 1] in
  let h3 := [OMalloc 0 (-9223372036854775808) 4] in
  ops_ok h1 /\ ops_ok h2 /\ ops_ok h3 /\
  run fixed6 init h1 = [OK; OK; CRASH COvf] /\ run fixed6 init h2 = [OK; CRASH COvf] /\ run fixed6 init h3 = [CRASH COvf] /\
  run fixed init h1 = [OK; OK; ERR] /\ run fixed init h2 = [OK; ERR] /\ run fixed init h3 = [ERR].
Proof. split; [solve_ops_ok | split; [solve_ops_ok | split; [solve_ops_ok | repeat split; vm_compute; reflexivity]]]. Qed.
Print Assumptions wrapped_overflow_ub_refuted.

(* bytes = -1 passes `bytes >= -1`: with a 3-byte dtype, count (2^64-1)/3 and offset 1 are accepted and the
   backend is asked to copy 2^64-1 bytes *)
Theorem wrapped_count_out_of_bounds_refuted :
  let h := [OMallocH 0 16 1 7 false; OCast 1 0 3; OCopyToH 1 6148914691236517205 1] in
  ops_ok h /\ run fixed6 init h = [OK; OK; CRASH COob] /\ run fixed init h = [OK; OK; ERR].
Proof. split; [solve_ops_ok | split; vm_compute; reflexivity]. Qed.
Print Assumptions wrapped_count_out_of_bounds_refuted.
