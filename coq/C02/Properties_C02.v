From OV.C02 Require Import Base Model Spec.
From Coq Require Import List ZArith.
Import ListNotations.
Local Open Scope Z_scope.
Example placeholder : run fixed init [OSize 0%nat] = [OKN [0;0;0]].
Proof. reflexivity. Qed.
Print Assumptions placeholder.
