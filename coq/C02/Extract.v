(* Extraction of the executable model and specification (ExtrOcamlBasic only; Z and nat stay the
   extracted inductives).  coqc runs from /verif/coq, so the path is relative to that directory. *)
From Coq Require Import Extraction ExtrOcamlBasic ZArith.
From OV.C02 Require Import Base Model Spec.
Extraction Language OCaml.
Extraction "../_work/extract/C02/model.ml"
  Z.add Z.mul Z.opp
  init step fixed pinned fx_other
  sinit s_step.
