(* C02 — executable model of occa::memory on the host (Serial / OpenMP) backends.

   Transcribed from
     src/core/memory.cpp            slice (167-188), copyFrom/copyTo x4 (190-300), cast (322), clone (328)
     src/occa/internal/core/memory.cpp   modeMemory_t::slice (77-87)
     src/occa/internal/modes/serial/buffer.cpp   malloc / wrapMemory / slice (29-46)
     src/occa/internal/modes/serial/memory.cpp   copyTo / copyFrom / copyFrom(modeMemory) (27-58)
     src/occa/internal/modes/serial/device.cpp   malloc / wrapMemory (440-471)
     src/core/device.cpp            malloc(entries,dtype,host pointer), malloc(entries,dtype,memory), wrapMemory (444-531)
   with the C types spelled out: dim_t = int64_t, udim_t = uint64_t, dtypeSize = int.
     * `dtypeSize * offset`, `entries * dtype.bytes()`, `offset + count`, `bytes + offset_`,
       `offset + offset_` are signed 64-bit operations: a result outside int64 is undefined
       behaviour (UBSan: signed integer overflow) and is reported as `Crash COvf`;
     * `dtypeSize * ((count == -1) ? length() : count)` is an *unsigned* product (the conditional has type
       udim_t), converted back to dim_t: it wraps silently;
     * `udim_t(bytes + offset_) <= size` compares after conversion to unsigned.
   A step is `frontend` (argument validation in memory.cpp / device.cpp, producing the request that is
   handed to the backend) followed by `exec` (what serial::memory / serial::buffer do with it).

   The seven behaviours that fixes/C02-1..7 change are parameters (record cfg) so that both the pinned and
   the repaired code are expressible; `fixed` is the code after the patches, `pinned` the code before.
   With C02-7 every `dtypeSize * entries` goes through occa::entriesToBytes (src/occa/internal/core/memory.cpp),
   which raises for a negative count and for a product above (2^63-1)/2: the wrapping products of the
   pinned code are the branch `fx_ovf = false`.
   No proofs in this file. *)
From Coq Require Import List ZArith Bool Lia.
From OV.C02 Require Import Base.
Import ListNotations.
Local Open Scope Z_scope.

Record cfg : Type := mkCfg {
  fx_other  : bool;  (* C02-1: copyFrom(memory)/copyTo(memory) assert the other operand is initialized       *)
  fx_negoff : bool;  (* C02-2: slice rejects a negative offset                                               *)
  fx_this   : bool;  (* C02-3: copies on an uninitialized `this` raise instead of returning                  *)
  fx_null   : bool;  (* C02-4: slice/clone of an uninitialized handle raise instead of returning memory()    *)
  fx_src    : bool;  (* C02-5: malloc(entries,dtype,memory src) copies when src.isInitialized() (was src.size()) *)
  fx_move   : bool;  (* C02-6: serial::memory::copyFrom(modeMemory_t ptr) uses memmove (was memcpy)             *)
  fx_ovf    : bool   (* C02-7: entries -> bytes through the overflow-checked entriesToBytes                     *)
}.
Definition fixed  : cfg := mkCfg true true true true true true true.
Definition pinned : cfg := mkCfg false false false false false false false.
(* the code after fixes C02-1..6 only (wrapping arithmetic still in place) *)
Definition fixed6 : cfg := mkCfg true true true true true true false.

(* ---------------------------------------------------------------- C integer arithmetic *)
Definition two63 : Z := 9223372036854775808.
Definition two64 : Z := 18446744073709551616.
Definition in64 (x : Z) : bool := (- two63 <=? x) && (x <? two63).
Definition toU (x : Z) : Z := x mod two64.                                   (* conversion to udim_t *)
Definition toS (x : Z) : Z := let y := x mod two64 in if y <? two63 then y else y - two64.  (* to dim_t *)
Definition umul (a b : Z) : Z := (toU a * toU b) mod two64.                  (* unsigned product *)

Inductive res (A : Type) : Type :=
| Ret (a : A)
| Throw                 (* OCCA_ERROR -> occa::exception *)
| Crash (c : crash).
Arguments Ret {A} a.
Arguments Throw {A}.
Arguments Crash {A} c.

Definition bind {A B} (r : res A) (f : A -> res B) : res B :=
  match r with Ret a => f a | Throw => Throw | Crash c => Crash c end.
Notation "x <- r ;; k" := (bind r (fun x => k)) (at level 61, r at next level, right associativity).

Definition smul (a b : Z) : res Z := if in64 (a * b) then Ret (a * b) else Crash COvf.
Definition sadd (a b : Z) : res Z := if in64 (a + b) then Ret (a + b) else Crash COvf.
(* OCCA_ERROR(msg, cond) *)
Definition check (cond : bool) : res unit := if cond then Ret tt else Throw.

(* occa::entriesToBytes(entries, dtypeSize): maxBytes = numeric_limits<dim_t>::max() / 2 *)
Definition max_bytes : Z := 4611686018427387903.
Definition entries_to_bytes (entries dt : Z) : res Z :=
  _ <- check (0 <=? entries) ;;
  _ <- check ((dt <=? 0) || (entries <=? max_bytes / dt)) ;;
  smul entries dt.

(* dtypeSize * <udim_t expression>, stored in a dim_t: the wrapping unsigned product of the pinned code, or
   entriesToBytes applied to the expression converted to dim_t *)
Definition bytes_of (c : cfg) (dt elemsU : Z) : res Z :=
  if fx_ovf c then entries_to_bytes (toS elemsU) dt else Ret (toS (umul dt elemsU)).
(* dtypeSize * offset: signed product of the pinned code, or entriesToBytes *)
Definition offset_of (c : cfg) (dt offset : Z) : res Z :=
  if fx_ovf c then entries_to_bytes offset dt else smul dt offset.

(* ---------------------------------------------------------------- state *)
(* modeMemory_t: buffer, absolute byte offset into it, size in bytes, dtype size *)
Record mem : Type := mkMem { mbuf : nat; moff : Z; msize : Z; mdt : Z }.
Definition set_dt (m : mem) (dt : Z) : mem := mkMem (mbuf m) (moff m) (msize m) dt.

(* bufs: one byte list per modeBuffer_t, in creation order; hs: the handle slots (None = modeMemory NULL);
   wraps: buffers that are host arrays owned by the caller, in creation order *)
Record state : Type := mkState { bufs : list (list Z); hs : list (option mem); wraps : list nat }.
Definition init : state := mkState [] (repeat None nslots) [].

(* memory::length() = modeMemory->size / dtype_->bytes() *)
Definition m_len (m : mem) : Z := msize m / mdt m.

(* ---------------------------------------------------------------- requests handed to the backend *)
Inductive source : Type :=
| INone                                             (* nothing copied in: contents unspecified *)
| IHost (seed : Z)                                  (* bytes of a host array *)
| IMem (src : mem) (bytes doff soff : Z).           (* mem->copyFrom(src.modeMemory, bytes, doff, soff) on the new memory *)

Inductive plan : Type :=
| PSkip                                             (* returned without doing anything *)
| PSetHandle (h : option mem)                       (* result handle (slice / cast / malloc of 0 entries / ...) *)
| PRead  (m : mem) (bytes off : Z)                  (* m->copyTo(host, bytes, off)                *)
| PWrite (m : mem) (bytes off : Z)                  (* m->copyFrom(host, bytes, off)              *)
| PCopy  (dst src : mem) (bytes doff soff : Z)      (* dst->copyFrom(src, bytes, doff, soff)      *)
| PAlloc (bytes dt : Z) (wrapped : bool) (i : source)  (* new buffer of `bytes` bytes + memory at offset 0, final dtype dt *)
| PSize (h : option mem)
| PHostRead (k : nat).

(* ---------------------------------------------------------------- src/core/memory.cpp *)

(* modeMemory_t::slice(offset_, bytes) -> buffer::slice(offset + offset_, bytes): new serial::memory,
   dtype_ = &dtype::byte *)
Definition mm_slice (m : mem) (offset_ bytesU : Z) : res mem :=
  abs <- sadd (moff m) offset_ ;;
  _ <- check (0 <=? abs) ;;
  Ret (mkMem (mbuf m) abs bytesU 1).

(* memory::slice(offset, count) *)
Definition memory_slice (c : cfg) (h : option mem) (offset count : Z) : res (option mem) :=
  match h with
  | None => if fx_null c then Throw else Ret None
  | Some m =>
      _ <- check (negb (fx_negoff c) || (0 <=? offset)) ;;
      let dt := mdt m in
      offset_ <- offset_of c dt offset ;;
      let elems := if count =? -1 then toU (m_len m - offset) else toU count in
      bytes <- bytes_of c dt elems ;;
      _ <- check (0 <=? bytes) ;;
      sum <- sadd offset count ;;
      _ <- check (sum <=? toS (m_len m)) ;;
      m' <- mm_slice m offset_ (toU bytes) ;;
      Ret (Some (set_dt m' dt))
  end.

(* the part that host-pointer copyFrom and copyTo share: (bytes, offset_) as udim_t *)
Definition host_copy_args (c : cfg) (m : mem) (count offset : Z) : res (Z * Z) :=
  let dt := mdt m in
  let elems := if count =? -1 then m_len m else toU count in
  bytes <- bytes_of c dt elems ;;
  offset_ <- offset_of c dt offset ;;
  _ <- check (-1 <=? bytes) ;;
  _ <- check (0 <=? offset_) ;;
  t <- sadd bytes offset_ ;;
  _ <- check (toU t <=? msize m) ;;
  Ret (toU bytes, toU offset_).

Definition memory_copyFromH (c : cfg) (h : option mem) (count offset : Z) : res plan :=
  match h with
  | None => if fx_this c then Throw else Ret PSkip
  | Some m => a <- host_copy_args c m count offset ;; Ret (PWrite m (fst a) (snd a))
  end.

Definition memory_copyToH (c : cfg) (h : option mem) (count offset : Z) : res plan :=
  match h with
  | None => if fx_this c then Throw else Ret PSkip
  | Some m => a <- host_copy_args c m count offset ;; Ret (PRead m (fst a) (snd a))
  end.

(* src.modeMemory->dtype_->bytes(): a null modeMemory is dereferenced *)
Definition deref_dt (h : option mem) : res Z :=
  match h with None => Crash CNull | Some m => Ret (mdt m) end.
Definition deref_size (h : option mem) : res Z :=
  match h with None => Crash CNull | Some m => Ret (msize m) end.

(* memory::copyFrom(const memory src, count, destOffset, srcOffset) *)
Definition memory_copyFromM (c : cfg) (this src : option mem) (count destOffset srcOffset : Z) : res plan :=
  match this, src with
  | None, None => if fx_this c then Throw else Ret PSkip
  | None, Some _ => Throw                                      (* assertInitialized() *)
  | Some m, _ =>
      _ <- check (negb (fx_other c) || match src with Some _ => true | None => false end) ;;
      let dt := mdt m in
      let elems := if count =? -1 then m_len m else toU count in
      bytes <- bytes_of c dt elems ;;
      destOffset_ <- offset_of c dt destOffset ;;
      sdt <- deref_dt src ;;
      srcOffset_ <- offset_of c sdt srcOffset ;;
      _ <- check (-1 <=? bytes) ;;
      _ <- check (0 <=? destOffset_) ;;
      _ <- check (0 <=? srcOffset_) ;;
      t1 <- sadd bytes srcOffset_ ;;
      ssz <- deref_size src ;;
      _ <- check (toU t1 <=? ssz) ;;
      t2 <- sadd bytes destOffset_ ;;
      _ <- check (toU t2 <=? msize m) ;;
      match src with
      | Some sm => Ret (PCopy m sm (toU bytes) (toU destOffset_) (toU srcOffset_))
      | None => Crash CNull
      end
  end.

(* memory::copyTo(memory dest, count, destOffset, srcOffset) const *)
Definition memory_copyToM (c : cfg) (this dest : option mem) (count destOffset srcOffset : Z) : res plan :=
  match this, dest with
  | None, None => if fx_this c then Throw else Ret PSkip
  | None, Some _ => Throw
  | Some m, _ =>
      _ <- check (negb (fx_other c) || match dest with Some _ => true | None => false end) ;;
      let dt := mdt m in
      let elems := if count =? -1 then m_len m else toU count in
      bytes <- bytes_of c dt elems ;;
      ddt <- deref_dt dest ;;
      destOffset_ <- offset_of c ddt destOffset ;;
      srcOffset_ <- offset_of c dt srcOffset ;;
      _ <- check (-1 <=? bytes) ;;
      _ <- check (0 <=? destOffset_) ;;
      _ <- check (0 <=? srcOffset_) ;;
      t1 <- sadd bytes srcOffset_ ;;
      _ <- check (toU t1 <=? msize m) ;;
      t2 <- sadd bytes destOffset_ ;;
      dsz <- deref_size dest ;;
      _ <- check (toU t2 <=? dsz) ;;
      match dest with
      | Some dm => Ret (PCopy dm m (toU bytes) (toU destOffset_) (toU srcOffset_))
      | None => Crash CNull
      end
  end.

(* memory::setDtype on a handle: assertInitialized() *)
Definition set_dtype (h : option mem) (dt : Z) : res (option mem) :=
  match h with None => Throw | Some m => Ret (Some (set_dt m dt)) end.

(* memory::cast(dtype): slice(0) then setDtype *)
Definition memory_cast (c : cfg) (h : option mem) (dt : Z) : res (option mem) :=
  r <- memory_slice c h 0 (-1) ;;
  set_dtype r dt.

(* ---------------------------------------------------------------- src/core/device.cpp *)

(* device::malloc(entries, dtype, const void *src, props): (bytes) of the new memory, None when entries == 0 *)
Definition device_malloc_bytes (c : cfg) (entries dt : Z) : res (option Z) :=
  if entries =? 0 then Ret None else
  bytes <- (if fx_ovf c then entries_to_bytes entries dt else smul entries dt) ;;
  _ <- check (0 <=? bytes) ;;
  Ret (Some bytes).

(* device::malloc(entries, dtype, const occa::memory src, props); `b` is the buffer the allocation would get;
   fdt is the dtype the caller sets afterwards (clone: mem.setDtype(dtype())) *)
Definition device_mallocM (c : cfg) (b : nat) (entries dt : Z) (src : option mem) (fdt : Z) : res plan :=
  ob <- device_malloc_bytes c entries dt ;;
  match ob with
  | None => Ret (PSetHandle None)
  | Some bytes =>
      let fresh := mkMem b 0 bytes dt in
      let docopy := match src with
                    | None => false
                    | Some sm => if fx_src c then true else negb (m_len sm =? 0)
                    end in
      if docopy then
        p <- memory_copyFromM c (Some fresh) src (-1) 0 0 ;;
        match p with
        | PCopy _ sm n d s => Ret (PAlloc bytes fdt false (IMem sm n d s))
        | _ => Ret (PAlloc bytes fdt false INone)
        end
      else Ret (PAlloc bytes fdt false INone)
  end.

(* memory::clone(): device.malloc<void>(byte_size(), *this, properties()); mem.setDtype(dtype()) *)
Definition memory_clone (c : cfg) (b : nat) (h : option mem) : res plan :=
  match h with
  | None => if fx_null c then Throw else Ret (PSetHandle None)
  | Some m =>
      p <- device_mallocM c b (msize m) 1 h (mdt m) ;;
      match p with
      | PSetHandle None => Throw          (* setDtype on the uninitialized result of malloc(0, ...) *)
      | _ => Ret p
      end
  end.

(* device::wrapMemory(ptr, entries, dtype) *)
Definition device_wrap (c : cfg) (entries dt seed : Z) : res plan :=
  bytes <- (if fx_ovf c then entries_to_bytes entries dt else smul entries dt) ;;
  _ <- check (0 <=? bytes) ;;
  Ret (PAlloc bytes dt true (IHost seed)).

(* ---------------------------------------------------------------- dispatch *)
Definition frontend (c : cfg) (s : state) (o : op) : res plan :=
  let H := geth (hs s) in
  let nb := length (bufs s) in
  match o with
  | OMalloc d n dt =>
      ob <- device_malloc_bytes c n dt ;;
      Ret (match ob with None => PSetHandle None | Some bytes => PAlloc bytes dt false INone end)
  | OMallocH d n dt seed uhp =>
      ob <- device_malloc_bytes c n dt ;;
      Ret (match ob with None => PSetHandle None | Some bytes => PAlloc bytes dt uhp (IHost seed) end)
  | OMallocM d n dt sidx => device_mallocM c nb n dt (H sidx) dt
  | OWrap d n dt seed => device_wrap c n dt seed
  | OSlice d sidx off cnt => r <- memory_slice c (H sidx) off cnt ;; Ret (PSetHandle r)
  | OCast d sidx dt => r <- memory_cast c (H sidx) dt ;; Ret (PSetHandle r)
  | OClone d sidx => memory_clone c nb (H sidx)
  | OCopyFromH a cnt off seed => memory_copyFromH c (H a) cnt off
  | OCopyToH a cnt off => memory_copyToH c (H a) cnt off
  | OCopyFromM a b cnt doff soff => memory_copyFromM c (H a) (H b) cnt doff soff
  | OCopyToM a b cnt doff soff => memory_copyToM c (H a) (H b) cnt doff soff
  | OAssign d sidx => Ret (PSetHandle (H sidx))
  | OReset d => Ret (PSetHandle None)
  | OSize a => Ret (PSize (H a))
  | OHostRead k => Ret (PHostRead k)
  end.

(* ---------------------------------------------------------------- backend: serial::memory / serial::buffer *)
Definition rd (l : list Z) (start len : Z) : list Z := firstn (Z.to_nat len) (skipn (Z.to_nat start) l).
Definition wr (l : list Z) (start : Z) (new : list Z) : list Z :=
  firstn (Z.to_nat start) l ++ new ++ skipn (Z.to_nat start + length new) l.
Definition in_buf (l : list Z) (start len : Z) : bool :=
  (0 <=? start) && (0 <=? len) && (start + len <=? zlen l).

Definition getbuf (s : state) (b : nat) : list Z := nth b (bufs s) [].
Fixpoint setnth {A} (l : list A) (i : nat) (v : A) : list A :=
  match l, i with
  | [], _ => []
  | _ :: t, O => v :: t
  | x :: t, S j => x :: setnth t j v
  end.
Definition setbuf (s : state) (b : nat) (l : list Z) : state :=
  mkState (setnth (bufs s) b l) (hs s) (wraps s).
Definition sethandle (s : state) (d : nat) (h : option mem) : state :=
  mkState (bufs s) (seth (hs s) d h) (wraps s).

Definition patl (seed n : Z) : list Z := map (pat seed) (zseq 0 n).

(* ::memcpy(dest, ptr + off, bytes): reads [moff + off, +bytes) of the buffer; a zero-length memcpy touches nothing *)
Definition do_read (s : state) (m : mem) (bytes off : Z) : res (list Z) :=
  if bytes =? 0 then Ret [] else
  let l := getbuf s (mbuf m) in
  if in_buf l (moff m + off) bytes then Ret (rd l (moff m + off) bytes) else Crash COob.

Definition do_write (s : state) (m : mem) (off : Z) (data : list Z) : res state :=
  if zlen data =? 0 then Ret s else
  let l := getbuf s (mbuf m) in
  if in_buf l (moff m + off) (zlen data) then Ret (setbuf s (mbuf m) (wr l (moff m + off) data)) else Crash COob.

(* serial::memory::copyFrom(const modeMemory_t *src, bytes, destOffset, srcOffset) *)
Definition do_copy (c : cfg) (s : state) (dst src : mem) (bytes doff soff : Z) : res state :=
  if bytes =? 0 then Ret s else
  let d0 := moff dst + doff in
  let s0 := moff src + soff in
  let overlap := (mbuf dst =? mbuf src)%nat && negb (d0 =? s0) && (d0 <? s0 + bytes) && (s0 <? d0 + bytes) in
  if negb (fx_move c) && overlap then Crash COverlap else
  data <- do_read s src bytes soff ;;
  do_write s dst doff data.

Definition slot_of (o : op) : nat :=
  match o with
  | OMalloc d _ _ | OMallocH d _ _ _ _ | OMallocM d _ _ _ | OWrap d _ _ _ | OSlice d _ _ _ | OCast d _ _
  | OClone d _ | OAssign d _ | OReset d => d
  | _ => O
  end.
Definition seed_of (o : op) : Z :=
  match o with
  | OMallocH _ _ _ seed _ | OWrap _ _ _ seed | OCopyFromH _ _ _ seed => seed
  | _ => 0
  end.

Definition exec (c : cfg) (s : state) (o : op) (p : plan) : res (state * obs) :=
  match p with
  | PSkip => Ret (s, match o with OCopyToH _ _ _ => OKB [] | _ => OK end)   (* the caller's array is left as it was *)
  | PSetHandle h => Ret (sethandle s (slot_of o) h, OK)
  | PRead m bytes off => data <- do_read s m bytes off ;; Ret (s, OKB data)
  | PWrite m bytes off => s' <- do_write s m off (patl (seed_of o) bytes) ;; Ret (s', OK)
  | PCopy dst src bytes doff soff => s' <- do_copy c s dst src bytes doff soff ;; Ret (s', OK)
  | PAlloc bytes dt wrapped i =>
      let b := length (bufs s) in
      let fresh := mkMem b 0 bytes dt in
      let content0 := match i with IHost seed => patl seed bytes | _ => repeat undef (Z.to_nat bytes) end in
      let s1 := mkState (bufs s ++ [content0]) (hs s) (if wrapped then wraps s ++ [b] else wraps s) in
      s2 <- match i with
            | IMem src n doff soff => do_copy c s1 fresh src n doff soff
            | _ => Ret s1
            end ;;
      Ret (sethandle s2 (slot_of o) (Some fresh), OK)
  | PSize h =>
      Ret (s, OKN (match h with None => [0; 0; 0] | Some m => [m_len m; msize m; mdt m] end))
  | PHostRead k =>
      Ret (s, match nth_error (wraps s) k with Some b => OKB (getbuf s b) | None => OKN [] end)
  end.

(* one C++ statement of the history: an exception or a crash leaves the state as it was (the crash ends the run) *)
Definition step (c : cfg) (s : state) (o : op) : state * obs :=
  match (p <- frontend c s o ;; exec c s o p) with
  | Ret r => r
  | Throw => (s, ERR)
  | Crash k => (s, CRASH k)
  end.

Fixpoint run (c : cfg) (s : state) (h : list op) : list obs :=
  match h with
  | [] => []
  | o :: h' => let r := step c s o in snd r :: run c (fst r) h'
  end.
