(* C02 — small definitions used by the theorem statements: the guard under which no 64-bit product or
   sum of the bound checks wraps, well-formed model states, the access ranges of a backend request and the
   correspondence between model states and specification states. *)
From Coq Require Import List ZArith Bool Lia.
From OV.C02 Require Import Base Model Spec.
Import ListNotations.
Local Open Scope Z_scope.

(* the domain of the C++ interface: integer arguments are dim_t (int64_t), a dtype size is a positive `int`;
   reachable buffers are at most max_bytes = 2^62-1 bytes long (entriesToBytes) *)
Definition DTMAX : Z := 2147483647.               (* INT_MAX *)
Definition BMAX : Z := 4611686018427387904.       (* max_bytes + 1 = 2^62 *)
Definition small (x : Z) : Prop := - two63 <= x < two63.     (* x is a dim_t value *)
Definition dt_ok (dt : Z) : Prop := 1 <= dt <= DTMAX.

Definition op_ok (o : op) : Prop :=
  match o with
  | OMalloc _ n dt => small n /\ dt_ok dt
  | OMallocH _ n dt _ _ => small n /\ dt_ok dt
  | OMallocM _ n dt _ => small n /\ dt_ok dt
  | OWrap _ n dt _ => small n /\ dt_ok dt
  | OSlice _ _ off cnt => small off /\ small cnt
  | OCast _ _ dt => dt_ok dt
  | OClone _ _ => True
  | OCopyFromH _ cnt off _ => small cnt /\ small off
  | OCopyToH _ cnt off => small cnt /\ small off
  | OCopyFromM _ _ cnt doff soff => small cnt /\ small doff /\ small soff
  | OCopyToM _ _ cnt doff soff => small cnt /\ small doff /\ small soff
  | OAssign _ _ | OReset _ | OSize _ | OHostRead _ => True
  end.

(* a modeMemory whose range [moff, moff+msize) lies inside its buffer *)
Definition wf_mem (s : state) (m : mem) : Prop :=
  (mbuf m < length (bufs s))%nat /\ 0 <= moff m /\ 0 <= msize m /\
  moff m + msize m <= zlen (getbuf s (mbuf m)) /\ dt_ok (mdt m).

Definition wf (s : state) : Prop :=
  (forall i m, geth (hs s) i = Some m -> wf_mem s m) /\
  (forall b, zlen (getbuf s b) < BMAX) /\
  (forall b, In b (wraps s) -> (b < length (bufs s))%nat).

(* [off, off+bytes) relative to the memory's own first byte lies inside the memory's own range *)
Definition within (m : mem) (bytes off : Z) : Prop := 0 <= off /\ 0 <= bytes /\ off + bytes <= msize m.

(* h' is a view of bytes of h only *)
Definition subview (h : mem) (h' : mem) : Prop :=
  mbuf h' = mbuf h /\ moff h <= moff h' /\ moff h' + msize h' <= moff h + msize h /\ 0 <= msize h'.

(* every access a request makes stays inside the handles' own ranges; a new view stays inside the
   handle it was made from (`parent`) *)
Definition plan_in_range (parent : option mem) (p : plan) : Prop :=
  match p with
  | PRead m bytes off | PWrite m bytes off => within m bytes off
  | PCopy dst src bytes doff soff => within dst bytes doff /\ within src bytes soff
  | PAlloc bytes _ _ (IMem src n doff soff) => within src n soff /\ 0 <= doff /\ doff + n <= bytes
  | PAlloc bytes _ _ _ => 0 <= bytes
  | PSetHandle (Some m') =>
      match parent with Some m => subview m m' | None => True end
  | _ => True
  end.

(* the handle a slice / cast / assignment is taken from *)
Definition parent_of (s : state) (o : op) : option mem :=
  match o with
  | OSlice _ i _ _ | OCast _ i _ | OAssign _ i => geth (hs s) i
  | _ => None
  end.

(* ---- correspondence with the specification's states *)
Definition m2v (m : mem) : view := mkView (mbuf m) (moff m) (msize m) (mdt m).

Definition Rbuf (l : list Z) (f : Z -> Z) : Prop :=
  forall i, 0 <= i < zlen l -> nth (Z.to_nat i) l 0 = f i.

Record Rel (ms : state) (ss : sstate) : Prop := mkRel {
  R_len : slens ss = map zlen (bufs ms);
  R_buf : forall b, (b < length (bufs ms))%nat -> Rbuf (getbuf ms b) (smap ss b);
  R_hs  : shs ss = map (option_map m2v) (hs ms);
  R_wr  : swraps ss = wraps ms
}.

Definition is_crash (o : obs) : Prop := match o with CRASH _ => True | _ => False end.
Definition ops_ok (h : list op) : Prop := Forall op_ok h.

(* the state reached by a history *)
Fixpoint final (c : cfg) (s : state) (h : list op) : state :=
  match h with [] => s | o :: h' => final c (fst (step c s o)) h' end.

(* the operation has an uninitialized handle in an argument position (for malloc(entries, dtype, src) an
   uninitialized src means "no source" and is not misuse) *)
Definition uses_uninit (s : state) (o : op) : Prop :=
  match o with
  | OSlice _ i _ _ | OCast _ i _ | OClone _ i | OCopyFromH i _ _ _ | OCopyToH i _ _ => geth (hs s) i = None
  | OCopyFromM a b _ _ _ | OCopyToM a b _ _ _ => geth (hs s) a = None \/ geth (hs s) b = None
  | _ => False
  end.

