(* C24 — determinism: an object is a std::map, so its representation (and therefore its dump and
   its hash) depends only on the finite map it denotes, not on the order of insertions. *)
From Coq Require Import List NArith ZArith Bool Lia.
From OV.C24 Require Import Model Spec PBytes.
Import ListNotations.

Section Det.
  Variables F32 F64 : Type.
  Notation json := (json F32 F64).
  Notation jobj := (list (bytes * json)).
  Notation sorted := (fun m : jobj => keys_sorted F32 F64 m = true).
  Notation find := (obj_find F32 F64).
  Notation set := (obj_set F32 F64).

  (* the binding a sequence of insertions leaves for k: the last one *)
  Fixpoint assoc_last (k : bytes) (l : list (bytes * json)) : option json :=
    match l with
    | [] => None
    | (k', v) :: t => match assoc_last k t with
                      | Some w => Some w
                      | None => if bytes_eqb k k' then Some v else None
                      end
    end.

  Lemma sorted_tail : forall kv (m : jobj), sorted (kv :: m) -> sorted m.
  Proof.
    intros [k v] m H. cbn [keys_sorted] in H. destruct m as [|[k2 v2] m]; [reflexivity|].
    now apply andb_true_iff in H as [_ H].
  Qed.

  Lemma sorted_head_lt : forall k (v : json) (m : jobj), sorted ((k, v) :: m) ->
    forall k', In k' (map fst m) -> bytes_ltb k k' = true.
  Proof.
    intros k v m. revert k v. induction m as [|[k2 v2] m IH]; intros k v H k' Hin; [destruct Hin|].
    cbn [keys_sorted] in H. apply andb_true_iff in H as [H1 H2].
    destruct Hin as [<-|Hin]; [exact H1|].
    eapply bytes_ltb_trans; [exact H1|]. apply (IH k2 v2); [exact H2 | exact Hin].
  Qed.

  Lemma sorted_cons : forall k (v : json) (m : jobj), sorted m ->
    (forall k', In k' (map fst m) -> bytes_ltb k k' = true) -> sorted ((k, v) :: m).
  Proof.
    intros k v [|[k2 v2] m] Hs Hlt; [reflexivity|].
    cbn [keys_sorted]. rewrite (Hlt k2 (or_introl eq_refl)). exact Hs.
  Qed.

  Lemma bytes_eqb_sym : forall a b, bytes_eqb a b = bytes_eqb b a.
  Proof.
    intros a b. destruct (bytes_eqb a b) eqn:E1, (bytes_eqb b a) eqn:E2; try reflexivity.
    - apply bytes_eqb_eq in E1; subst. now rewrite bytes_eqb_refl in E2.
    - apply bytes_eqb_eq in E2; subst. now rewrite bytes_eqb_refl in E1.
  Qed.

  Lemma find_none_lt : forall k (m : jobj), (forall k', In k' (map fst m) -> bytes_ltb k k' = true) -> find k m = None.
  Proof.
    induction m as [|[k' v'] m IH]; intros H; [reflexivity|].
    cbn [obj_find]. rewrite bytes_eqb_sym, (bytes_ltb_neq k k') by (apply H; now left).
    apply IH. intros k'' Hin; apply H; now right.
  Qed.

  Lemma find_in : forall k (m : jobj) v, find k m = Some v -> In k (map fst m).
  Proof.
    induction m as [|[k' v'] m IH]; intros v H; [discriminate|].
    cbn [obj_find] in H. destruct (bytes_eqb k k') eqn:E.
    - apply bytes_eqb_eq in E; subst; now left.
    - right; eapply IH; eassumption.
  Qed.

  (* std::map::operator[]= *)
  Lemma find_set : forall k k' v (m : jobj),
    find k (set k' v m) = if bytes_eqb k k' then Some v else find k m.
  Proof.
    induction m as [|[k0 v0] m IH]; cbn [obj_set obj_find].
    - destruct (bytes_eqb k k'); reflexivity.
    - destruct (bytes_ltb k' k0) eqn:Hlt.
      + cbn [obj_find]. destruct (bytes_eqb k k'); reflexivity.
      + destruct (bytes_eqb k' k0) eqn:Heq.
        * apply bytes_eqb_eq in Heq; subst k0. cbn [obj_find].
          destruct (bytes_eqb k k'); reflexivity.
        * cbn [obj_find]. destruct (bytes_eqb k k0) eqn:E0.
          -- apply bytes_eqb_eq in E0; subst k0.
             rewrite bytes_eqb_sym, Heq. reflexivity.
          -- exact IH.
  Qed.

  Lemma set_keys : forall k' k v (m : jobj), In k' (map fst (set k v m)) -> k' = k \/ In k' (map fst m).
  Proof.
    induction m as [|[k0 v0] m IH]; cbn [obj_set]; intros H.
    - destruct H as [<-|[]]; now left.
    - destruct (bytes_ltb k k0).
      + destruct H as [<-|H]; [now left | now right].
      + destruct (bytes_eqb k k0).
        * destruct H as [<-|H]; [now left | right; now right].
        * destruct H as [<-|H]; [right; now left|].
          destruct (IH H) as [->|Hin]; [now left | right; now right].
  Qed.

  Lemma set_sorted : forall k v (m : jobj), sorted m -> sorted (set k v m).
  Proof.
    induction m as [|[k0 v0] m IH]; intros Hs; [reflexivity|].
    cbn [obj_set]. destruct (bytes_ltb k k0) eqn:Hlt.
    - apply sorted_cons; [exact Hs|]. intros k' [<-|Hin]; [exact Hlt|].
      eapply bytes_ltb_trans; [exact Hlt|]. eapply sorted_head_lt; eassumption.
    - destruct (bytes_eqb k k0) eqn:Heq.
      + apply bytes_eqb_eq in Heq; subst k0.
        apply sorted_cons; [eapply sorted_tail; eassumption|].
        eapply sorted_head_lt; eassumption.
      + apply sorted_cons; [apply IH; eapply sorted_tail; eassumption|].
        intros k' Hin. destruct (set_keys _ _ _ _ Hin) as [->|Hin'].
        * apply bytes_ltb_total; [exact Hlt | exact Heq].
        * eapply sorted_head_lt; eassumption.
  Qed.

  (* a sorted association list is determined by its lookups *)
  Theorem sorted_ext : forall (m1 m2 : jobj), sorted m1 -> sorted m2 ->
    (forall k, find k m1 = find k m2) -> m1 = m2.
  Proof.
    induction m1 as [|[k1 v1] t1 IH]; intros [|[k2 v2] t2] H1 H2 Hf.
    - reflexivity.
    - specialize (Hf k2). cbn [obj_find] in Hf. rewrite bytes_eqb_refl in Hf. discriminate.
    - specialize (Hf k1). cbn [obj_find] in Hf. rewrite bytes_eqb_refl in Hf. discriminate.
    - assert (Hk : k1 = k2).
      { pose proof (Hf k1) as A. pose proof (Hf k2) as B. cbn [obj_find] in A, B.
        rewrite bytes_eqb_refl in A, B.
        destruct (bytes_eqb k1 k2) eqn:E; [now apply bytes_eqb_eq|].
        rewrite bytes_eqb_sym, E in B.
        symmetry in A. apply find_in in A. apply find_in in B.
        pose proof (sorted_head_lt _ _ _ H2 _ A) as L1.
        pose proof (sorted_head_lt _ _ _ H1 _ B) as L2.
        rewrite (bytes_ltb_asym _ _ L1) in L2. discriminate. }
      subst k2.
      assert (Hv : v1 = v2).
      { specialize (Hf k1). cbn [obj_find] in Hf. rewrite bytes_eqb_refl in Hf. now injection Hf. }
      subst v2. f_equal.
      apply IH; [eapply sorted_tail; eassumption | eapply sorted_tail; eassumption|].
      intros k. specialize (Hf k). cbn [obj_find] in Hf.
      destruct (bytes_eqb k k1) eqn:E; [|exact Hf].
      apply bytes_eqb_eq in E; subst k.
      rewrite !find_none_lt; [reflexivity | |]; eapply sorted_head_lt; eassumption.
  Qed.

  Lemma fold_set_sorted : forall l (m : jobj), sorted m ->
    sorted (fold_left (fun m kv => set (fst kv) (snd kv) m) l m).
  Proof.
    induction l as [|[k v] l IH]; intros m Hm; [exact Hm|].
    cbn [fold_left fst snd]. apply IH. now apply set_sorted.
  Qed.

  Lemma fold_set_find : forall k l (m : jobj),
    find k (fold_left (fun m kv => set (fst kv) (snd kv) m) l m) =
      match assoc_last k l with Some w => Some w | None => find k m end.
  Proof.
    induction l as [|[k' v] l IH]; intros m; [reflexivity|].
    cbn [fold_left fst snd assoc_last]. rewrite IH, find_set.
    destruct (assoc_last k l); [reflexivity|]. destruct (bytes_eqb k k'); reflexivity.
  Qed.

  Theorem obj_of_list_sorted : forall l, sorted (obj_of_list F32 F64 l).
  Proof. intros; unfold obj_of_list. now apply fold_set_sorted. Qed.

  Theorem obj_of_list_find : forall k l, find k (obj_of_list F32 F64 l) = assoc_last k l.
  Proof. intros; unfold obj_of_list. rewrite fold_set_find. now destruct (assoc_last k l). Qed.

  (* two insertion sequences that denote the same finite map build the same object *)
  Theorem obj_of_list_canonical : forall l1 l2,
    (forall k, assoc_last k l1 = assoc_last k l2) -> obj_of_list F32 F64 l1 = obj_of_list F32 F64 l2.
  Proof.
    intros l1 l2 H. apply sorted_ext; try apply obj_of_list_sorted.
    intros k. now rewrite !obj_of_list_find.
  Qed.

End Det.
